#!/usr/bin/env python3
"""Generates harness/src/generated.rs: derived structs/enums (the real derive macros), their `Dyn`
impls (description, generator, printers - no borsh code), and the catalogue functions.

Deterministic: the same seed gives the same file.  The item *descriptions* carry the surface syntax
(explicit discriminants, use_discriminant); the mapping to tags is done by the Lean model
(`Derive.tagsOf`), not here."""
import random, sys, os

POOL = [  # (rust type, default value as Val S-expr)
    ("u8", "0"), ("u16", "0"), ("i64", "0"), ("bool", "false"), ("String", "x"), ("Vec<u8>", "(l)"),
    ("Option<u32>", "(v 0)"), ("(u8, u16)", "(l 0 0)"), ("[u8; 2]", "(l 0 0)"), ("Vec<String>", "(l)"),
    ("BTreeMap<u8, String>", "(l)"), ("u128", "0"), ("Box<u16>", "0"), ("Option<String>", "(v 0)"),
    ("Vec<(u8, bool)>", "(l)"), ("i8", "0"),
]

class Field:
    def __init__(self, name, ty, skip=False, default="0", custom=False, dyn_ty=None):
        self.name, self.ty, self.skip, self.default, self.custom = name, ty, skip, default, custom
        self.dyn_ty = dyn_ty  # rust expression producing the model type, default <T as Dyn>::ty()

class Struct:
    kind = 'struct'
    def __init__(self, name, shape, fields, init=False, generics='', inst='', decl=None, derives_default=True):
        self.name, self.shape, self.fields, self.init = name, shape, fields, init
        self.generics, self.inst = generics, inst      # "<T, U>", "<u8, String>"
        self.decl = decl or name
        self.derives_default = derives_default

class Variant:
    def __init__(self, name, shape, fields, discr=None, src=None):
        self.name, self.shape, self.fields, self.discr = name, shape, fields, discr
        self.src = src   # the discriminant as written (a constant expression); `discr` is its value

class Enum:
    kind = 'enum'
    def __init__(self, name, variants, use_discr=None, init=False, repr_=None):
        self.name, self.variants, self.use_discr, self.init, self.repr = name, variants, use_discr, init, repr_
        self.decl = name
        self.generics = self.inst = ''

def field_attr(f):
    parts = []
    if f.skip:
        parts.append("skip")
    if f.custom:
        parts.append('serialize_with = "crate::generated::be_u32::ser"')
        parts.append('deserialize_with = "crate::generated::be_u32::de"')
    hb = sum(ord(c) for c in (str(f.name) + f.ty)) % 3
    if f.skip and not f.custom and hb == 1:
        # explicit (empty) bounds next to `skip`: the usual way to switch the automatic `Default` bound off
        parts.append('bound(serialize = "", deserialize = "")')
    elif f.skip and not f.custom and hb == 2:
        parts.append('bound(serialize = "")')
    own = ("#[borsh(%s)] " % ", ".join(parts)) if parts else ""
    # attributes of other tools around the borsh one (doc comments, lints): the derives must find
    # `#[borsh(..)]` wherever it stands among them.  Deterministic in the field's name and type.
    h = sum(ord(c) for c in (str(f.name) + f.ty)) % 4
    before = '#[doc = "d"] ' if h in (1, 3) else ""
    after = "#[allow(dead_code)] " if h in (2, 3) else ""
    return before + own + after

def fields_src(shape, fields, pub=True):
    p = "pub " if pub else ""
    if shape == 'unit':
        return ""
    if shape == 'named':
        return " { " + ", ".join("%s%s%s: %s" % (field_attr(f), p, f.name, f.ty) for f in fields) + " }"
    return "(" + ", ".join("%s%s%s" % (field_attr(f), p, f.ty) for f in fields) + ")"

SUBST = {}

def subst_ty(ty):
    """generic parameters -> the instantiation the catalogue uses"""
    import re
    for k, v in SUBST.items():
        ty = re.sub(r'\b%s\b' % k, v, ty)
    return ty

def dyn_ty_expr(f):
    if f.dyn_ty:
        return f.dyn_ty
    if f.custom:
        return 'format!("(custom {})", <%s as Dyn>::ty())' % subst_ty(f.ty)
    return '<%s as Dyn>::ty()' % subst_ty(f.ty)

def ty_fields_fmt(fields, shape):
    """returns (format string, args) for the field list of a prod/variant"""
    fmt, args = [], []
    for i, f in enumerate(fields):
        nm = f.name if shape == 'named' else "_"
        fmt.append("(%s %d {})" % (nm, 1 if f.skip else 0))
        args.append(dyn_ty_expr(f))
    return " ".join(fmt), args

def access(shape, f, i, base="self"):
    return "%s.%s" % (base, f.name if shape == 'named' else str(i))

def emit_struct(s, out):
    SUBST.clear()
    if s.generics:
        params = [x.strip() for x in s.generics.strip('<>').split(',')]
        # split the instantiation at top-level commas
        inst, depth, cur = [], 0, ''
        for ch in s.inst[1:-1]:
            if ch == '<': depth += 1
            if ch == '>': depth -= 1
            if ch == ',' and depth == 0:
                inst.append(cur.strip()); cur = ''
            else:
                cur += ch
        inst.append(cur.strip())
        SUBST.update(dict(zip(params, inst)))
    derives = "BorshSerialize, BorshDeserialize, BorshSchema, Clone, Debug, PartialEq"
    if s.derives_default:
        derives += ", Default"
    attrs = ""
    if s.init:
        attrs = "#[borsh(init = init_hook)]\n"
    semi = ";" if s.shape in ('unit', 'tuple') else ""
    out.append("#[derive(%s)]\n%spub struct %s%s%s%s" % (derives, attrs, s.name, s.generics, fields_src(s.shape, s.fields), semi))
    full = s.name + s.inst
    if s.init:
        hits = [ (i, f) for i, f in enumerate(s.fields) if f.name == 'hits' or (s.shape == 'tuple' and i == len(s.fields) - 1)][-1]
        out.append("impl%s %s%s { fn init_hook(&mut self) { %s += 1; } }" % ("", s.name, "", access(s.shape, hits[1], hits[0])))
    fmt, args = ty_fields_fmt(s.fields, s.shape)
    decl = s.decl.replace(' ', '~')
    out.append("impl Dyn for %s {" % full)
    out.append('    fn ty() -> String { format!("(prod (struct %s %d)%s%s)"%s) }' % (
        decl, 1 if s.init else 0, " " if fmt else "", fmt, "".join(", " + a for a in args)))
    # gen
    if s.shape == 'unit':
        ctor = s.name
    elif s.shape == 'named':
        ctor = "%s { %s }" % (s.name, ", ".join("%s: Dyn::gen(g, d + 1)" % f.name for f in s.fields))
    else:
        ctor = "%s(%s)" % (s.name, ", ".join("Dyn::gen(g, d + 1)" for f in s.fields))
    out.append("    fn gen(g: &mut Gen, d: u32) -> Self { let _ = (&g, d); %s }" % ctor)
    # val
    body = ['o.push_str("(l");']
    for i, f in enumerate(s.fields):
        body.append("o.push(' '); %s.val(o);" % access(s.shape, f, i))
    body.append("o.push(')');")
    out.append("    fn val(&self, o: &mut String) { %s }" % " ".join(body))
    body = ['o.push_str("(l");']
    for i, f in enumerate(s.fields):
        if f.skip:
            d = f.default
            if s.init and i == len(s.fields) - 1:
                d = "1"
            body.append('o.push_str(" %s");' % d)
        else:
            body.append("o.push(' '); %s.canon(o);" % access(s.shape, f, i))
    body.append("o.push(')');")
    out.append("    fn canon(&self, o: &mut String) { %s }" % " ".join(body))
    out.append("}")

def emit_enum(e, out):
    derives = "BorshSerialize, BorshDeserialize, BorshSchema, Clone, Debug, PartialEq"
    attrs = []
    bparts = []
    if e.use_discr is not None:
        bparts.append("use_discriminant = %s" % ("true" if e.use_discr else "false"))
    if e.init:
        bparts.append("init = init_hook")
    if bparts:
        attrs.append("#[borsh(%s)]" % ", ".join(bparts))
    if e.repr:
        attrs.append("#[repr(%s)]" % e.repr)
    vs = []
    for v in e.variants:
        d = (" = %s" % (v.src or str(v.discr))) if v.discr is not None else ""
        vs.append("    %s%s%s," % (v.name, fields_src(v.shape, v.fields, pub=False), d))
    out.append("#[derive(%s)]\n%s\npub enum %s {\n%s\n}" % (derives, "\n".join(attrs), e.name, "\n".join(vs)))
    if e.init:
        # the hook increments the trailing skipped counter of every variant that has one
        arms = []
        for v in e.variants:
            if v.fields and v.fields[-1].skip and v.fields[-1].ty == 'u32':
                if v.shape == 'named':
                    arms.append("%s::%s { %s, .. } => { *%s += 1; }" % (e.name, v.name, v.fields[-1].name, v.fields[-1].name))
                else:
                    pat = ", ".join("_" for _ in v.fields[:-1]) + (", " if len(v.fields) > 1 else "") + "h"
                    arms.append("%s::%s(%s) => { *h += 1; }" % (e.name, v.name, pat))
        arms.append("_ => {}")
        out.append("impl %s { fn init_hook(&mut self) { match self { %s } } }" % (e.name, " ".join(arms)))
    # Dyn
    out.append("impl Dyn for %s {" % e.name)
    fmts, args = [], []
    for v in e.variants:
        ff, aa = ty_fields_fmt(v.fields, v.shape)
        fmts.append("(%s %s%s%s)" % (v.name, "_" if v.discr is None else str(v.discr), " " if ff else "", ff))
        args += aa
    use = "n" if e.use_discr is None else ("1" if e.use_discr else "0")
    out.append('    fn ty() -> String { format!("(sum (derivedsrc %s %d %s) %s)"%s) }' % (
        e.name, 1 if e.init else 0, use, " ".join(fmts), "".join(", " + a for a in args)))
    arms = []
    for i, v in enumerate(e.variants):
        if v.shape == 'unit':
            ctor = "%s::%s" % (e.name, v.name)
        elif v.shape == 'named':
            ctor = "%s::%s { %s }" % (e.name, v.name, ", ".join("%s: Dyn::gen(g, d + 1)" % f.name for f in v.fields))
        else:
            ctor = "%s::%s(%s)" % (e.name, v.name, ", ".join("Dyn::gen(g, d + 1)" for f in v.fields))
        arms.append("%d => %s," % (i, ctor))
    out.append("    fn gen(g: &mut Gen, d: u32) -> Self { let _ = d; match g.below(%d) { %s _ => unreachable!() } }" % (len(e.variants), " ".join(arms)))
    for meth in ('val', 'canon'):
        arms = []
        for i, v in enumerate(e.variants):
            names = ["f%d" % j for j in range(len(v.fields))]
            if v.shape == 'unit':
                pat = "%s::%s" % (e.name, v.name)
            elif v.shape == 'named':
                pat = "%s::%s { %s }" % (e.name, v.name, ", ".join("%s: %s" % (f.name, n) for f, n in zip(v.fields, names)))
            else:
                pat = "%s::%s(%s)" % (e.name, v.name, ", ".join(names))
            body = ['o.push_str("(v %d");' % i]
            for j, (f, n) in enumerate(zip(v.fields, names)):
                if meth == 'canon' and f.skip:
                    d = f.default
                    if e.init and j == len(v.fields) - 1 and f.ty == 'u32':
                        d = "1"
                    body.append('let _ = %s; o.push_str(" %s");' % (n, d))
                else:
                    body.append("o.push(' '); %s.%s(o);" % (n, meth))
            body.append("o.push(')');")
            arms.append("%s => { %s }" % (pat, " ".join(body)))
        out.append("    fn %s(&self, o: &mut String) { match self { %s } }" % (meth, " ".join(arms)))
    out.append("}")

def build_items(seed):
    rnd = random.Random(seed)
    items = []
    n = [0]
    def fresh(prefix):
        n[0] += 1
        return "%s%d" % (prefix, n[0])
    def pick(i):
        return POOL[i % len(POOL)]
    # --- bounded-exhaustive small structs: 0..3 fields x every skip mask x named/tuple
    k = 0
    for nf in range(0, 4):
        for mask in range(1 << nf):
            for shape in ('named', 'tuple'):
                if nf == 0 and shape == 'tuple':
                    continue
                fs = []
                for j in range(nf):
                    t, d = pick(k); k += 1
                    fs.append(Field("f%d" % j, t, skip=bool(mask >> j & 1), default=d))
                items.append(Struct(fresh("S"), shape if nf else 'named', fs))
    items.append(Struct(fresh("S"), 'unit', []))
    # --- larger random structs (up to 8 fields)
    for _ in range(6):
        nf = rnd.randint(4, 8)
        fs = []
        for j in range(nf):
            t, d = rnd.choice(POOL)
            fs.append(Field("g%d" % j, t, skip=rnd.random() < 0.25, default=d))
        items.append(Struct(fresh("S"), rnd.choice(['named', 'tuple']), fs))
    # --- init hook: trailing skipped counter
    items.append(Struct(fresh("S"), 'named', [Field("a", "u8"), Field("b", "String", default="x"), Field("hits", "u32", skip=True)], init=True))
    items.append(Struct(fresh("S"), 'tuple', [Field("a", "Vec<u8>", default="(l)"), Field("hits", "u32", skip=True)], init=True))
    items.append(Struct(fresh("S"), 'named', [Field("hits", "u32", skip=True)], init=True))
    # --- serialize_with / deserialize_with fixture
    items.append(Struct(fresh("S"), 'named', [Field("a", "u8"), Field("b", "u32", custom=True), Field("c", "String", default="x")]))
    items.append(Struct(fresh("S"), 'tuple', [Field("a", "u32", custom=True), Field("b", "u32")]))
    # --- nesting of derived items (depth up to 4), also under collections and as skipped fields
    base = [it for it in items if it.kind == 'struct'][:]
    prev = base[5].name
    for depth in range(4):
        nm = fresh("N")
        fs = [Field("x", "u8"), Field("inner", prev, dyn_ty=None), Field("many", "Vec<%s>" % prev),
              Field("opt", "Option<%s>" % base[depth + 7].name), Field("sk", base[depth + 9].name, skip=True, default=None)]
        items.append(Struct(nm, 'named', fs))
        prev = nm
    # --- generics: declaration naming from the parameters used by non-skipped fields
    items.append(Struct("G1", 'named', [Field("a", "T"), Field("b", "Vec<U>")], generics="<T, U>", inst="<u8, String>", decl="G1<u8, String>", derives_default=False))
    items.append(Struct("G2", 'named', [Field("a", "T"), Field("b", "U", skip=True, default="0")], generics="<T, U>", inst="<String, u16>", decl="G2<String>", derives_default=False))
    items.append(Struct("G3", 'tuple', [Field("a", "Option<T>"), Field("b", "BTreeMap<u8, T>")], generics="<T>", inst="<Vec<u8>>", decl="G3<Vec<u8>>", derives_default=False))
    items.append(Struct("G4", 'named', [Field("a", "(T, U)"), Field("b", "[U; 2]")], generics="<T, U>", inst="<bool, i64>", decl="G4<bool, i64>", derives_default=False))
    # --- enums
    def fld(j, skip=False):
        t, d = rnd.choice(POOL)
        return Field("e%d" % j, t, skip=skip, default=d)
    shapes = ['unit', 'tuple', 'named']
    # small shapes, no discriminants
    for nv in range(1, 5):
        for rep in range(2):
            vs = []
            for j in range(nv):
                sh = shapes[(j + rep + nv) % 3]
                nf = 0 if sh == 'unit' else 1 + (j + rep) % 3
                vs.append(Variant("V%d" % j, sh, [fld(q, skip=(q == 1 and rep == 1)) for q in range(nf)]))
            items.append(Enum(fresh("E"), vs))
    # explicit discriminants, both settings of use_discriminant; a discriminant after an implicit one
    for use in (True, False):
        items.append(Enum(fresh("E"), [Variant("A", 'unit', [], 3), Variant("B", 'unit', []), Variant("C", 'unit', [], 10), Variant("D", 'unit', [])], use_discr=use))
        items.append(Enum(fresh("E"), [Variant("A", 'unit', []), Variant("B", 'unit', [], 20), Variant("C", 'unit', []), Variant("D", 'unit', [], 255)], use_discr=use))
        items.append(Enum(fresh("E"), [Variant("A", 'tuple', [Field("e0", "u8")], 7), Variant("B", 'named', [Field("x", "String", default="x"), Field("y", "u16", skip=True)]),
                                       Variant("C", 'unit', [], 100), Variant("D", 'tuple', [Field("e0", "Vec<u8>", default="(l)"), Field("e1", "bool")])], use_discr=use, repr_="u8"))
        items.append(Enum(fresh("E"), [Variant("A", 'unit', [], 0), Variant("B", 'unit', [], 1)], use_discr=use))
    # discriminants that only fit a wider repr are legal when tags are ordinals
    items.append(Enum(fresh("E"), [Variant("A", 'unit', [], 300), Variant("B", 'unit', [], 70000), Variant("C", 'tuple', [Field("e0", "u8")])], use_discr=False, repr_="u32"))
    items.append(Enum(fresh("E"), [Variant("A", 'unit', [], -5), Variant("B", 'unit', []), Variant("C", 'unit', [], 2)], use_discr=False, repr_="i16"))
    # use_discriminant without explicit discriminants
    items.append(Enum(fresh("E"), [Variant("A", 'unit', []), Variant("B", 'tuple', [Field("e0", "u8")])], use_discr=True))
    items.append(Enum(fresh("E"), [Variant("A", 'unit', []), Variant("B", 'tuple', [Field("e0", "u8")])], use_discr=False))
    # a unit variant after struct variants; all fields skipped
    items.append(Enum(fresh("E"), [Variant("A", 'named', [Field("x", "u8"), Field("y", "String", default="x")]), Variant("B", 'named', [Field("x", "u16", skip=True), Field("y", "bool", skip=True, default="false")]), Variant("C", 'unit', [])]))
    # init on an enum
    items.append(Enum(fresh("E"), [Variant("A", 'tuple', [Field("e0", "u8"), Field("hits", "u32", skip=True)]), Variant("B", 'named', [Field("s", "String", default="x"), Field("hits", "u32", skip=True)]), Variant("C", 'unit', [])], init=True))
    # many variants: 200 and 256 (the 200th and the 256th variant)
    items.append(Enum(fresh("E"), [Variant("V%d" % j, 'unit' if j % 50 else 'tuple', [] if j % 50 else [Field("e0", "u16")]) for j in range(200)]))
    items.append(Enum(fresh("E"), [Variant("V%d" % j, 'unit', []) for j in range(256)]))
    items.append(Enum(fresh("E"), [Variant("V%d" % j, 'unit', [], j if j in (0, 100) else None) for j in range(256)], use_discr=True))
    # many variants with explicit discriminants that are NOT monotone in declaration order (a dispatch that
    # assumes ascending tags - binary search, range tables - is only wrong here), both settings
    for use in (True, False):
        items.append(Enum(fresh("E"), [Variant("V%d" % j, 'unit', [], {5: 100, 30: 50}.get(j)) for j in range(40)], use_discr=use))
        items.append(Enum(fresh("E"), [Variant("V%d" % j, 'unit', [], 63 - j) for j in range(64)], use_discr=use))
        items.append(Enum(fresh("E"), [Variant("V%d" % j, 'unit', [], {0: 200, 20: 3}.get(j)) for j in range(33)], use_discr=use))
    perm = list(range(256)); rnd.shuffle(perm)
    items.append(Enum(fresh("E"), [Variant("V%d" % j, 'unit', [], perm[j]) for j in range(200)], use_discr=True))
    items.append(Enum(fresh("E"), [Variant("V%d" % j, 'unit' if j % 7 else 'tuple', [] if j % 7 else [Field("e0", "u8")], (37 * j + 11) % 256) for j in range(100)], use_discr=True, repr_="u8"))
    # discriminants written as constant expressions (the value is what Rust assigns; an implicit
    # discriminant after one is that value + 1, whatever the expression's operator precedence)
    for use in (True, False):
        items.append(Enum(fresh("E"), [Variant("A", 'unit', [], 4, "1 << 2"), Variant("B", 'unit', []), Variant("C", 'unit', [], 7, "10 - 3"), Variant("D", 'unit', [])], use_discr=use))
        items.append(Enum(fresh("E"), [Variant("A", 'unit', [], 6, "2 * 3"), Variant("B", 'unit', []), Variant("C", 'unit', [], 32, "1 << 1 << 4"), Variant("D", 'unit', []), Variant("E", 'unit', [], 16, "0x10"), Variant("F", 'unit', [])], use_discr=use))
        items.append(Enum(fresh("E"), [Variant("A", 'tuple', [Field("e0", "u8")], 64, "128 >> 1"), Variant("B", 'unit', []), Variant("C", 'named', [Field("x", "u16")])], use_discr=use, repr_="u8"))
        items.append(Enum(fresh("E"), [Variant("A", 'unit', [], 2, "6 & 3"), Variant("B", 'unit', []), Variant("C", 'unit', [], 9, "1 | 8"), Variant("D", 'unit', []), Variant("E", 'unit', [], 20, "17 ^ 5"), Variant("F", 'unit', [])], use_discr=use))
    # a type that is zero-sized in memory but not on the wire (one-variant enum: a tag byte), in the
    # fixed-size containers that remain usable for zero-sized types
    ez = fresh("E")
    items.append(Enum(ez, [Variant("Only", 'unit', [])]))
    items.append(Struct(fresh("Z"), 'named', [Field("a", "[%s; 3]" % ez, default="(l (v 0) (v 0) (v 0))"), Field("b", "[[%s; 2]; 2]" % ez, default="(l (l (v 0) (v 0)) (l (v 0) (v 0)))"),
                                               Field("c", "(%s, [%s; 1])" % (ez, ez), default="(l (v 0) (l (v 0)))"), Field("d", "Option<[%s; 2]>" % ez, default="(v 0)"), Field("n", "u8")], derives_default=False))
    # a skipped field *followed by* a serialized field of the same type, the type occurring nowhere else
    # in the item (bookkeeping per field type that is updated before the skip check goes wrong only here)
    items.append(Struct(fresh("S"), 'named', [Field("cached", "u64", skip=True), Field("id", "u32"), Field("total", "u64")]))
    items.append(Struct(fresh("S"), 'tuple', [Field("e0", "i128", skip=True), Field("e1", "bool", default="false"), Field("e2", "i128")]))
    items.append(Struct(fresh("S"), 'named', [Field("memo", "Vec<u16>", skip=True, default="(l)"), Field("k", "u8"), Field("items", "Vec<u16>", default="(l)"), Field("memo2", "Vec<u16>", skip=True, default="(l)")]))
    items.append(Enum(fresh("E"), [Variant("A", 'named', [Field("cached", "i32", skip=True), Field("n", "u8"), Field("v", "i32")]), Variant("B", 'tuple', [Field("e0", "f64", skip=True), Field("e1", "f64")]), Variant("C", 'unit', [])]))
    # nesting enums and structs
    e_small = [it for it in items if it.kind == 'enum'][2].name
    items.append(Struct(fresh("N"), 'named', [Field("e", e_small), Field("es", "Vec<%s>" % e_small), Field("m", "BTreeMap<u8, %s>" % base[3].name)], derives_default=False))
    items.append(Enum(fresh("E"), [Variant("A", 'tuple', [Field("e0", e_small)]), Variant("B", 'named', [Field("s", base[6].name), Field("t", "Option<%s>" % e_small)])]))
    # fix nested-struct defaults (skipped derived struct fields print their own default form)
    by_name = {it.name: it for it in items}
    def default_of_struct(s):
        parts = []
        for f in s.fields:
            if f.ty in by_name:
                parts.append(default_of_struct(by_name[f.ty]))
            elif f.default is not None:
                parts.append(f.default)
            else:
                parts.append(dict(POOL).get(f.ty, "0"))
        return "(l%s)" % "".join(" " + p for p in parts)
    for it in items:
        fl = it.fields if it.kind == 'struct' else [f for v in it.variants for f in v.fields]
        for f in fl:
            if f.default is None or (f.skip and f.ty in by_name):
                if f.ty in by_name:
                    f.default = default_of_struct(by_name[f.ty])
                elif f.default is None:
                    # collections / options of derived items
                    f.default = "(v 0)" if f.ty.startswith("Option<") else "(l)"
    return items

HEADER = '''// @generated by gen/derive_gen.py (seed %d) - do not edit
#![allow(dead_code, unused_variables, clippy::all)]
use crate::dynty::Dyn;
use crate::gen::Gen;
use crate::ops::{entry, Entry};
use crate::catalogue::SRun;
use crate::schema_ops::schema_ty;
use borsh::{BorshDeserialize, BorshSchema, BorshSerialize};
use std::collections::BTreeMap;

/// the `serialize_with` / `deserialize_with` fixture: a big-endian u32
pub mod be_u32 {
    use borsh::io::{Read, Result, Write};
    use borsh::{BorshDeserialize, BorshSerialize};
    pub fn ser<W: Write>(v: &u32, w: &mut W) -> Result<()> {
        v.swap_bytes().serialize(w)
    }
    pub fn de<R: Read>(r: &mut R) -> Result<u32> {
        u32::deserialize_reader(r).map(u32::swap_bytes)
    }
}
'''

def main():
    seed = int(sys.argv[1]) if len(sys.argv) > 1 else 1
    out_path = sys.argv[2] if len(sys.argv) > 2 else os.path.join(os.path.dirname(os.path.abspath(__file__)), '..', 'harness', 'src', 'generated.rs')
    items = build_items(seed)
    out = [HEADER % seed]
    for it in items:
        (emit_struct if it.kind == 'struct' else emit_enum)(it, out)
    names = [it.name + it.inst for it in items]
    out.append("pub fn derived_catalogue() -> Vec<Entry> {\n    let mut v: Vec<Entry> = Vec::new();")
    for nm in names:
        out.append('    v.push(entry::<%s>("%s"));' % (nm, nm))
    out.append("    v\n}")
    out.append("pub fn derived_enum_catalogue() -> Vec<crate::ops::VRun> {\n    let mut v: Vec<crate::ops::VRun> = Vec::new();")
    for it in items:
        if it.kind == 'enum':
            out.append('    v.push(crate::ops::c06_variant::<%s> as crate::ops::VRun);' % it.name)
    out.append("    v\n}")
    out.append("pub fn derived_schema_catalogue() -> Vec<(&'static str, SRun)> {\n    let mut v: Vec<(&'static str, SRun)> = Vec::new();")
    for nm in names:
        out.append('    v.push(("%s", schema_ty::<%s> as SRun));' % (nm, nm))
    out.append("    v\n}")
    with open(out_path, 'w') as f:
        f.write("\n".join(out) + "\n")
    print("generated %d items -> %s" % (len(items), out_path))

if __name__ == '__main__':
    main()
