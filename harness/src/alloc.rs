//! Counting global allocator: largest single request and peak live bytes inside a measured window.

use std::alloc::{GlobalAlloc, Layout, System};
use std::sync::atomic::{AtomicBool, AtomicUsize, Ordering};

pub struct Counting;

static ENABLED: AtomicBool = AtomicBool::new(false);
static LARGEST: AtomicUsize = AtomicUsize::new(0);
static LIVE: AtomicUsize = AtomicUsize::new(0);
static PEAK: AtomicUsize = AtomicUsize::new(0);
static COUNT: AtomicUsize = AtomicUsize::new(0);

unsafe impl GlobalAlloc for Counting {
    unsafe fn alloc(&self, layout: Layout) -> *mut u8 {
        if ENABLED.load(Ordering::Relaxed) {
            note(layout.size());
        }
        System.alloc(layout)
    }
    unsafe fn alloc_zeroed(&self, layout: Layout) -> *mut u8 {
        if ENABLED.load(Ordering::Relaxed) {
            note(layout.size());
        }
        System.alloc_zeroed(layout)
    }
    unsafe fn realloc(&self, ptr: *mut u8, layout: Layout, new_size: usize) -> *mut u8 {
        if ENABLED.load(Ordering::Relaxed) {
            note(new_size);
            LIVE.fetch_sub(layout.size().min(LIVE.load(Ordering::Relaxed)), Ordering::Relaxed);
        }
        System.realloc(ptr, layout, new_size)
    }
    unsafe fn dealloc(&self, ptr: *mut u8, layout: Layout) {
        if ENABLED.load(Ordering::Relaxed) {
            LIVE.fetch_sub(layout.size().min(LIVE.load(Ordering::Relaxed)), Ordering::Relaxed);
        }
        System.dealloc(ptr, layout)
    }
}

fn note(size: usize) {
    COUNT.fetch_add(1, Ordering::Relaxed);
    LARGEST.fetch_max(size, Ordering::Relaxed);
    let live = LIVE.fetch_add(size, Ordering::Relaxed) + size;
    PEAK.fetch_max(live, Ordering::Relaxed);
}

pub struct Measure {
    pub largest: usize,
    pub peak: usize,
    pub count: usize,
}

/// run `f` with the counters on
pub fn measured<R>(f: impl FnOnce() -> R) -> (R, Measure) {
    LARGEST.store(0, Ordering::Relaxed);
    LIVE.store(0, Ordering::Relaxed);
    PEAK.store(0, Ordering::Relaxed);
    COUNT.store(0, Ordering::Relaxed);
    ENABLED.store(true, Ordering::Relaxed);
    let r = f();
    ENABLED.store(false, Ordering::Relaxed);
    (r, Measure { largest: LARGEST.load(Ordering::Relaxed), peak: PEAK.load(Ordering::Relaxed), count: COUNT.load(Ordering::Relaxed) })
}
