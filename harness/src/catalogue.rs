//! The static catalogue of built-in types.  Descriptions (`Ty`) are derived by `Dyn`.

use crate::dynty::*;
use crate::ops::{entry, Entry};
use std::borrow::Cow;
use std::cell::{Cell, RefCell};
use std::collections::{BTreeMap, BTreeSet, LinkedList, VecDeque};
use std::marker::PhantomData;
use std::rc::Rc;
use std::sync::Arc;

macro_rules! cat {
    ($v:ident; $($t:ty),* $(,)?) => { $( $v.push(entry::<$t>(stringify!($t))); )* };
}

type HS<T> = HashSet<T, FixedState>;
type HSC<T> = HashSet<T, ConstState>;
type HM<K, V> = HashMap<K, V, FixedState>;
type HMC<K, V> = HashMap<K, V, ConstState>;

pub fn catalogue() -> Vec<Entry> {
    let mut v: Vec<Entry> = Vec::new();
    cat!(v;
        u8, u16, u32, u64, u128, i8, i16, i32, i64, i128, usize, isize,
        core::num::NonZeroU8, core::num::NonZeroU16, core::num::NonZeroU32, core::num::NonZeroU64,
        core::num::NonZeroU128, core::num::NonZeroI8, core::num::NonZeroI16, core::num::NonZeroI32,
        core::num::NonZeroI64, core::num::NonZeroI128, core::num::NonZeroUsize,
        f32, f64, bool, (), core::ops::RangeFull, PhantomData<u64>,
        String, Box<str>, Cow<'static, str>, Rc<str>,
        ascii::AsciiString, ascii::AsciiChar,
        borsh::schema::BorshSchemaContainer, borsh::schema::Definition, borsh::schema::Fields,
        // sequences
        Vec<u8>, Vec<i8>, Vec<u16>, Vec<u32>, Vec<bool>, Vec<String>, Vec<Vec<u8>>, Vec<Vec<u32>>,
        Vec<Option<u8>>, Vec<(u8, String)>, Vec<f32>, Vec<f64>, Vec<[u8; 3]>, Vec<u128>,
        VecDeque<u8>, VecDeque<u32>, VecDeque<String>, VecDeque<Vec<u8>>,
        LinkedList<u8>, LinkedList<i64>, LinkedList<String>,
        Box<[u8]>, Box<[u16]>, Box<[String]>, Rc<[u8]>, Rc<[u32]>,
        Cow<'static, [u8]>, Cow<'static, [u64]>, Cow<'static, [Cow<'static, str>]>,
        bytes::Bytes, bytes::BytesMut,
        indexmap::IndexSet<u8>, indexmap::IndexSet<String>, indexmap::IndexSet<i32>,
        // arrays
        [u8; 0], [u8; 1], [u8; 4], [u8; 32], [u8; 33], [u8; 64], [u16; 0], [u16; 3], [u64; 5],
        [String; 2], [Vec<u8>; 3], [[u8; 2]; 3], [Option<u32>; 4], [(); 3], [bool; 7], [f32; 2], [u128; 2], [i8; 9],
        // sets and maps
        BTreeSet<u8>, BTreeSet<u32>, BTreeSet<i64>, BTreeSet<String>, BTreeSet<Vec<u8>>, BTreeSet<(u8, u8)>,
        BTreeSet<Option<u16>>, BTreeSet<bool>, BTreeSet<[u8; 2]>, BTreeSet<i128>,
        HashSet<u8>, HashSet<u32>, HashSet<String>, HashSet<i16>,
        HS<u8>, HS<u64>, HS<String>, HS<(i8, String)>, HS<Vec<u8>>, HS<Option<bool>>,
        HSC<u8>, HSC<String>, HSC<i32>, HashSet<u128>, HS<i128>, HSC<u128>, HS<u64>, HS<i64>,
        HashMap<u128, u8>, HM<i128, String>, HMC<u128, u16>, HM<u64, u8>,
        BTreeMap<u8, u8>, BTreeMap<u32, String>, BTreeMap<String, u64>, BTreeMap<i16, Vec<u8>>,
        BTreeMap<String, BTreeMap<u8, bool>>, BTreeMap<(u8, i8), Option<String>>, BTreeMap<u64, ()>,
        HashMap<u8, u8>, HashMap<String, u32>, HashMap<u32, String>,
        HM<u8, u16>, HM<String, Vec<u8>>, HM<i64, HS<u8>>, HM<u16, ()>, HM<Vec<u8>, bool>,
        HMC<u8, String>, HMC<String, i8>,
        indexmap::IndexMap<u8, u8>, indexmap::IndexMap<String, u32>, indexmap::IndexMap<u32, Vec<u8>>,
        // options / results
        Option<u8>, Option<u64>, Option<String>, Option<Option<u8>>, Option<Vec<u8>>, Option<()>, Option<bool>,
        Option<f64>, Option<[u8; 4]>, Option<Box<u32>>,
        Result<u8, String>, Result<String, u8>, Result<(), ()>, Result<Vec<u8>, u64>, Result<Option<u8>, bool>,
        Result<Result<u8, u16>, u32>,
        // tuples and ranges
        (u8,), (u8, u16), (String, u8), (u8, String, bool), (u8, u16, u32, u64), (i8, i16, i32, i64, i128),
        (u8, (u8, (u8, u8))), (Vec<u8>, Option<u8>, String), ((), u8, ()), (bool, bool, bool, bool, bool, bool),
        (u8, u8, u8, u8, u8, u8, u8, u8, u8, u8, u8, u8),
        (u8, u16, u8, u16, u8, u16, u8, u16, u8, u16, u8, u16, u8, u16, u8, u16, u8, u16, u8, u16),
        core::ops::Range<u8>, core::ops::Range<i64>, core::ops::Range<String>, core::ops::RangeFrom<u32>,
        core::ops::RangeTo<u16>, core::ops::RangeToInclusive<i8>, core::ops::RangeInclusive<u8>,
        core::ops::RangeInclusive<i32>, core::ops::RangeInclusive<u64>,
        // wrappers
        Box<u8>, Box<String>, Box<Vec<u8>>, Box<(u8, u16)>, Rc<u32>, Rc<String>, Arc<u64>, Arc<Vec<u16>>,
        Cell<u8>, Cell<i64>, Cell<(u8, bool)>, RefCell<String>, RefCell<Vec<u8>>, Cow<'static, u32>,
        Cow<'static, String>, Box<Box<u8>>, Rc<RefCell<Vec<Option<u8>>>>, Vec<Box<u16>>, Vec<Rc<String>>,
        Option<Rc<[u8]>>, Vec<Cell<u8>>,
        // zero-sized element collections nested inside usable types
        Option<Vec<()>>, (u8, Vec<()>), Vec<Vec<()>>, [Vec<()>; 2], Box<Vec<()>>, Result<Vec<()>, u8>, Vec<((), u8)>,
        Vec<Option<()>>, BTreeMap<u8, ()>, [(); 0], ((), ()), Option<[u8; 0]>, Vec<([u8; 0], u8)>,
        // nesting
        Vec<BTreeMap<u8, Vec<String>>>, BTreeMap<u8, Vec<Option<(u16, String)>>>, Option<Vec<Option<Vec<u8>>>>,
        Vec<HS<u8>>, HM<u8, HM<u8, u8>>, (Vec<u8>, [u8; 2], Option<(String, Vec<u16>)>), Vec<Vec<Vec<u8>>>,
        Vec<Result<u8, String>>, [Vec<(u8, Option<bool>)>; 2], VecDeque<Option<VecDeque<u8>>>,
        // byte arrays nested two and three deep inside contiguous sequences (flattening fast paths)
        Vec<[[u8; 2]; 2]>, [[[u8; 2]; 2]; 2], VecDeque<[[u8; 2]; 3]>, Vec<[[u8; 1]; 1]>, Box<[[[u8; 3]; 2]]>,
        Vec<[[u16; 2]; 2]>, LinkedList<[[u8; 2]; 2]>, [[[u8; 1]; 3]; 2], Vec<[[[u8; 2]; 1]; 2]>, Vec<[i8; 3]>,
        Vec<[[u8; 0]; 2]>, Option<Vec<[[u8; 3]; 3]>>, BTreeSet<[[u8; 2]; 2]>, (Vec<[[u8; 2]; 2]>, u8),
        // element types of one byte in memory whose wire form is longer (niche-optimised options and results)
        Vec<Option<bool>>, Vec<Option<core::num::NonZeroU8>>, Vec<Result<bool, ()>>, Vec<Option<Option<bool>>>,
        VecDeque<Option<bool>>, BTreeSet<Option<bool>>, (Vec<Option<bool>>, u16), Vec<Option<core::num::NonZeroI8>>,
    );
    #[cfg(feature = "io_std")]
    {
        use std::net::*;
        cat!(v;
            Ipv4Addr, Ipv6Addr, SocketAddrV4, SocketAddrV6, IpAddr, SocketAddr,
            Vec<IpAddr>, Option<SocketAddr>, (Ipv4Addr, u8), BTreeMap<u8, Ipv6Addr>, [SocketAddrV4; 2],
            bson::oid::ObjectId, Vec<bson::oid::ObjectId>, Option<bson::oid::ObjectId>, (u8, bson::oid::ObjectId),
        );
    }
    v
}

/// collections whose element type is several KiB in memory: `size_of::<T>()` around and above the
/// 4096-byte budget of the decoder's capacity hint (`cautious`), where `4096 / size_of::<T>()` is 2, 1, 0
pub fn big_elem_catalogue() -> Vec<Entry> {
    let mut v: Vec<Entry> = Vec::new();
    cat!(v;
        Vec<[u8; 2048]>, Vec<[u8; 2049]>, Vec<[u8; 4096]>, Vec<[u8; 4097]>, Vec<[u64; 513]>, Vec<(u8, [u16; 2500])>,
        VecDeque<[u8; 4097]>, LinkedList<[u8; 5000]>, Box<[[u8; 4097]]>, BTreeMap<u8, [u8; 4097]>, BTreeSet<[u8; 4100]>,
        HM<u8, [u32; 1025]>, Option<Vec<[u8; 8192]>>, Vec<Option<[u8; 4096]>>,
    );
    v
}

/// owned dynamically sized collections over zero-sized element / key types
pub fn zst_catalogue() -> Vec<Entry> {
    let mut v: Vec<Entry> = Vec::new();
    cat!(v;
        Vec<()>, Vec<[u8; 0]>, Vec<((), ())>, Vec<([(); 0], [(); 0])>, Vec<([(); 0],)>, Vec<PhantomData<u8>>,
        Vec<core::ops::RangeFull>, Vec<[(); 5]>, Vec<[[(); 2]; 0]>, Vec<Cell<()>>, Vec<((), PhantomData<String>, [u64; 0])>,
        VecDeque<()>, VecDeque<[u16; 0]>, LinkedList<()>, LinkedList<((), ())>,
        BTreeSet<()>, BTreeSet<[u8; 0]>, HashSet<()>, HS<()>, HSC<((), ())>,
        BTreeMap<(), u8>, BTreeMap<[u8; 0], String>, HashMap<(), u8>, HM<(), Vec<u8>>, HMC<((), ()), u8>,
        indexmap::IndexSet<()>, indexmap::IndexSet<[u8; 0]>, indexmap::IndexMap<(), u8>,
    );
    v
}

// ---------------------------------------------------------------- types that have a schema

use crate::gen::Gen;
use crate::obs::Sink;
use crate::ops::Budget;
use crate::schema_ops::{schema_ty, with_schema_framing, with_schema_pair, with_schema_perturbed};

pub type SRun = fn(&mut Gen, &Budget, &mut Sink);
pub use crate::schema_ops::FullS;

macro_rules! scat {
    ($v:ident; $($t:ty),* $(,)?) => { $( $v.push((stringify!($t), schema_ty::<$t> as SRun)); )* };
}

/// the zero-sized workload's types that have a schema (sequence and set kinds; maps by key type)
pub fn zst_schema_catalogue() -> Vec<(&'static str, SRun)> {
    let mut v: Vec<(&'static str, SRun)> = Vec::new();
    scat!(v;
        Vec<()>, Vec<[u8; 0]>, Vec<((), ())>, Vec<([(); 0], [(); 0])>, Vec<([(); 0],)>, Vec<PhantomData<u8>>,
        Vec<core::ops::RangeFull>, Vec<[(); 5]>, Vec<[[(); 2]; 0]>, Vec<((), PhantomData<String>, [u64; 0])>,
        Vec<((), PhantomData<u8>)>, Vec<(PhantomData<u8>, PhantomData<u16>, ())>, Vec<[((), ()); 3]>,
        Vec<(((), ()), ((), ()))>, Vec<(core::ops::RangeFull, core::ops::RangeFull)>,
        VecDeque<()>, VecDeque<[u16; 0]>, VecDeque<((), ())>, LinkedList<()>, LinkedList<((), ())>,
        BTreeSet<()>, BTreeSet<[u8; 0]>, BTreeSet<((), ())>, HashSet<()>, HS<()>, HSC<((), ())>,
    );
    v
}

pub fn schema_catalogue() -> Vec<(&'static str, SRun)> {
    let mut v: Vec<(&'static str, SRun)> = Vec::new();
    scat!(v;
        u8, u16, u32, u64, u128, i8, i16, i32, i64, i128, usize, isize,
        core::num::NonZeroU8, core::num::NonZeroU16, core::num::NonZeroU32, core::num::NonZeroU64,
        core::num::NonZeroU128, core::num::NonZeroI8, core::num::NonZeroI16, core::num::NonZeroI32,
        core::num::NonZeroI64, core::num::NonZeroI128, core::num::NonZeroUsize,
        f32, f64, bool, (), core::ops::RangeFull, PhantomData<u64>,
        String, Box<str>, Cow<'static, str>, Rc<str>, ascii::AsciiString, ascii::AsciiChar,
        borsh::schema::BorshSchemaContainer, borsh::schema::Definition, borsh::schema::Fields,
        Vec<u8>, Vec<u16>, Vec<bool>, Vec<String>, Vec<Vec<u8>>, Vec<Option<u8>>, Vec<(u8, String)>, Vec<[u8; 3]>,
        VecDeque<u8>, VecDeque<String>, LinkedList<u8>, LinkedList<String>,
        Box<[u8]>, Box<[String]>, Rc<[u8]>, Cow<'static, [u8]>, Cow<'static, [u64]>,
        [u8; 0], [u8; 1], [u8; 32], [u16; 0], [u16; 3], [String; 2], [[u8; 2]; 3], [Option<u32>; 4], [(); 3],
        [Option<u8>; 10], [Result<u8, u16>; 3], [(u8, Option<bool>); 2],
        BTreeSet<u8>, BTreeSet<String>, BTreeSet<(u8, u8)>, HashSet<u8>, HS<String>, HSC<i32>,
        BTreeMap<u8, u8>, BTreeMap<String, u64>, BTreeMap<u64, ()>, HashMap<u8, u8>, HM<String, Vec<u8>>, HM<u16, ()>,
        Option<u8>, Option<String>, Option<Option<u8>>, Option<()>, Option<[u8; 4]>, Option<Box<u32>>,
        Result<u8, String>, Result<(), ()>, Result<Vec<u8>, u64>, Result<Result<u8, u16>, u32>,
        (u8,), (u8, u16), (String, u8), (u8, String, bool), (u8, (u8, (u8, u8))), ((), u8, ()),
        (u8, u16, u8, u16, u8, u16, u8, u16, u8, u16, u8, u16, u8, u16, u8, u16, u8, u16, u8, u16),
        core::ops::Range<u8>, core::ops::Range<String>, core::ops::RangeFrom<u32>, core::ops::RangeTo<u16>,
        core::ops::RangeToInclusive<i8>, core::ops::RangeInclusive<u8>, core::ops::RangeInclusive<u64>,
        Box<u8>, Box<Vec<u8>>, Rc<String>, Arc<Vec<u16>>, Cell<u8>, RefCell<String>, Cow<'static, u32>,
        Vec<BTreeMap<u8, Vec<String>>>, Option<Vec<Option<Vec<u8>>>>, HM<u8, HM<u8, u8>>, Vec<Vec<Vec<u8>>>,
        // zero-sized elements in dynamic collections (runtime refuses; validation flags)
        Vec<()>, Vec<[u8; 0]>, Vec<((), ())>, Vec<([(); 0], [(); 0])>, Vec<([(); 0],)>, Vec<PhantomData<u8>>,
        Vec<core::ops::RangeFull>, VecDeque<()>, LinkedList<()>, BTreeSet<()>, HashSet<()>, BTreeMap<(), u8>,
        HashMap<(), u8>, Vec<[(); 5]>, Vec<Vec<()>>, Option<Vec<()>>, [Vec<()>; 2], (u8, Vec<()>),
    );
    #[cfg(feature = "io_std")]
    {
        use std::net::*;
        scat!(v; Ipv4Addr, Ipv6Addr, IpAddr, Vec<IpAddr>, (Ipv4Addr, u8), BTreeMap<u8, Ipv6Addr>);
    }
    v
}

pub type PRun = fn(&mut Gen, &mut Sink);

macro_rules! pairs {
    ($v:ident; [$($t:ty),*] ; $us:tt) => { $( pairs!(@row $v; $t; $us); )* };
    (@row $v:ident; $t:ty; [$($u:ty),*]) => { $( $v.push(with_schema_pair::<$t, $u> as PRun); )* };
}

macro_rules! pert {
    ($v:ident; $($t:ty),* $(,)?) => { $( $v.push(with_schema_perturbed::<$t> as PRun); )* };
}

macro_rules! framing {
    ($v:ident; $($t:ty),* $(,)?) => { $( $v.push(with_schema_framing::<$t> as PRun); )* };
}

pub fn schema_framing() -> Vec<PRun> {
    let mut v: Vec<PRun> = Vec::new();
    framing!(v; u8, (), String, Vec<u8>, Vec<(u8, String)>, Option<u16>, Result<u8, String>, BTreeMap<u8, Vec<String>>,
             [u16; 3], (u8, (u16, bool)), HashMap<String, u32>, core::ops::Range<u8>, Box<[u64]>, [u8; 0],
             borsh::schema::BorshSchemaContainer);
    v
}

pub fn schema_perturbed() -> Vec<PRun> {
    let mut v: Vec<PRun> = Vec::new();
    pert!(v; u8, String, Vec<u8>, Vec<(u8, String)>, Option<u16>, Result<u8, String>, BTreeMap<u8, Vec<String>>,
          [u16; 3], (u8, (u16, bool)), Vec<Option<Vec<u8>>>, HashMap<String, u32>, core::ops::Range<u8>, Box<[u64]>);
    v
}

pub fn schema_pairs() -> Vec<PRun> {
    let mut v: Vec<PRun> = Vec::new();
    pairs!(v; [u8, i8, u16, String, Vec<u8>, Vec<u16>, [u8; 2], [u8; 3], (u8, u8), Option<u8>, Result<u8, u8>,
               BTreeMap<u8, u8>, HashMap<u8, u8>, BTreeSet<u8>, VecDeque<u8>, Box<[u8]>, usize, u64, (u8,), Vec<String>,
               u128, i128, core::num::NonZeroU128, core::num::NonZeroI128, core::num::NonZeroU16, core::num::NonZeroI16, (), [u8; 0]];
               [u8, i8, u16, String, Vec<u8>, Vec<u16>, [u8; 2], [u8; 3], (u8, u8), Option<u8>, Result<u8, u8>,
               BTreeMap<u8, u8>, HashMap<u8, u8>, BTreeSet<u8>, VecDeque<u8>, Box<[u8]>, usize, u64, (u8,), Vec<String>,
               u128, i128, core::num::NonZeroU128, core::num::NonZeroI128, core::num::NonZeroU16, core::num::NonZeroI16, (), [u8; 0]]);
    v
}
