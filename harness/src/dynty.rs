//! `Dyn`: the bridge between static Rust types and the model's `Ty`/`Val` descriptions.
//! `ty()` is the model type, `val()` the representation (iteration order of hash
//! collections, the two slices of a deque), `canon()` the logical normal form the
//! model's decoder returns.  No borsh code is involved in any of this.

use crate::gen::{shape_below, shape_chance, shape_shuffle, Gen};
use std::borrow::Cow;
use std::cell::{Cell, RefCell};
use std::collections::{BTreeMap, BTreeSet, LinkedList, VecDeque};
use std::fmt::Write as _;
use std::hash::{BuildHasher, Hash, Hasher};
use std::marker::PhantomData;
use std::rc::Rc;
use std::sync::Arc;

#[cfg(feature = "io_nostd")]
pub use hashbrown::{HashMap, HashSet};
#[cfg(feature = "io_std")]
pub use std::collections::{HashMap, HashSet};

pub trait Dyn: Sized {
    fn ty() -> String;
    fn gen(g: &mut Gen, d: u32) -> Self;
    fn val(&self, o: &mut String);
    fn canon(&self, o: &mut String) {
        self.val(o)
    }
}

pub fn val_of<T: Dyn>(v: &T) -> String {
    let mut s = String::new();
    v.val(&mut s);
    s
}
pub fn canon_of<T: Dyn>(v: &T) -> String {
    let mut s = String::new();
    v.canon(&mut s);
    s
}

pub fn hex(bs: &[u8]) -> String {
    let mut s = String::with_capacity(1 + 2 * bs.len());
    s.push('x');
    for b in bs {
        let _ = write!(s, "{:02x}", b);
    }
    s
}

fn list<'a, T: 'a, I: Iterator<Item = &'a T>>(o: &mut String, it: I, f: impl Fn(&T, &mut String)) {
    o.push_str("(l");
    for x in it {
        o.push(' ');
        f(x, o);
    }
    o.push(')');
}

// ---------------------------------------------------------------- integers

macro_rules! dyn_int {
    ($($t:ident),*) => {$(
        impl Dyn for $t {
            fn ty() -> String { stringify!($t).to_string() }
            fn gen(g: &mut Gen, _d: u32) -> Self {
                match g.below(10) {
                    0 => 0 as $t,
                    1 => 1 as $t,
                    2 => <$t>::MAX,
                    3 => <$t>::MIN,
                    4 => (<$t>::MAX).wrapping_sub(1),
                    5 => (<$t>::MIN).wrapping_add(1),
                    6 => (g.below(300) as $t),
                    7 => (0 as $t).wrapping_sub(g.below(300) as $t),
                    8 => {
                        // few distinct low halves under few distinct high halves: values that agree in
                        // their low (or high) bits, as packed ids do
                        let half = <$t>::BITS / 2;
                        let mask = (1 as $t).wrapping_shl(half).wrapping_sub(1);
                        let lo = (*g.pick(&[0u128, 1, 2, u64::MAX as u128]) as $t) & mask;
                        (g.below(5) as $t).wrapping_shl(half) | lo
                    }
                    _ => g.u128() as $t,
                }
            }
            fn val(&self, o: &mut String) { let _ = write!(o, "{}", self); }
        }
    )*};
}
dyn_int!(u8, u16, u32, u64, u128, i8, i16, i32, i64, i128, usize, isize);

macro_rules! dyn_nonzero {
    ($($nz:ident $t:ident),*) => {$(
        impl Dyn for core::num::$nz {
            fn ty() -> String { format!("(nz {})", stringify!($t)) }
            fn gen(g: &mut Gen, d: u32) -> Self {
                loop {
                    let x = <$t as Dyn>::gen(g, d);
                    if let Some(n) = core::num::$nz::new(x) { return n; }
                }
            }
            fn val(&self, o: &mut String) { let _ = write!(o, "{}", self.get()); }
        }
    )*};
}
dyn_nonzero!(NonZeroU8 u8, NonZeroU16 u16, NonZeroU32 u32, NonZeroU64 u64, NonZeroU128 u128,
             NonZeroI8 i8, NonZeroI16 i16, NonZeroI32 i32, NonZeroI64 i64, NonZeroI128 i128,
             NonZeroUsize usize);

impl Dyn for f32 {
    fn ty() -> String {
        "f32".into()
    }
    fn gen(g: &mut Gen, _d: u32) -> Self {
        let bits: u32 = match g.below(14) {
            0 => 0,
            1 => 0x8000_0000,
            2 => 0x7f80_0000,
            3 => 0xff80_0000,
            4 => 0x7fc0_0000,          // quiet NaN
            5 => 0x7f80_0001,          // signalling NaN, smallest payload
            6 => 0xffff_ffff,          // negative NaN, full payload
            7 => 0x7f7f_ffff,          // MAX
            8 => 0x0000_0001,          // smallest subnormal
            9 => 0x7fbf_ffff,          // signalling NaN, largest payload
            _ => g.next() as u32,
        };
        f32::from_bits(bits)
    }
    fn val(&self, o: &mut String) {
        let _ = write!(o, "{}", self.to_bits());
    }
}
impl Dyn for f64 {
    fn ty() -> String {
        "f64".into()
    }
    fn gen(g: &mut Gen, _d: u32) -> Self {
        let bits: u64 = match g.below(14) {
            0 => 0,
            1 => 0x8000_0000_0000_0000,
            2 => 0x7ff0_0000_0000_0000,
            3 => 0xfff0_0000_0000_0000,
            4 => 0x7ff8_0000_0000_0000,
            5 => 0x7ff0_0000_0000_0001,
            6 => 0xffff_ffff_ffff_ffff,
            7 => 0x7fef_ffff_ffff_ffff,
            8 => 1,
            9 => 0x7ff7_ffff_ffff_ffff,
            _ => g.next(),
        };
        f64::from_bits(bits)
    }
    fn val(&self, o: &mut String) {
        let _ = write!(o, "{}", self.to_bits());
    }
}

impl Dyn for bool {
    fn ty() -> String {
        "bool".into()
    }
    fn gen(g: &mut Gen, _d: u32) -> Self {
        g.chance(1, 2)
    }
    fn val(&self, o: &mut String) {
        o.push_str(if *self { "true" } else { "false" });
    }
}

// ---------------------------------------------------------------- strings

pub fn gen_string(g: &mut Gen, d: u32) -> String {
    let n = g.size(d) * if g.chance(1, 6) { 9 } else { 1 };
    let mut s = String::new();
    for _ in 0..n {
        let c = match g.below(8) {
            0 => 'a',
            1 => 'b',
            2 => '\u{0}',
            3 => '\u{7f}',
            4 => char::from_u32(0x80 + g.below(0x700) as u32).unwrap_or('é'),
            5 => char::from_u32(0x800 + g.below(0xd000) as u32).unwrap_or('€'),
            6 => char::from_u32(0x10000 + g.below(0xfffff) as u32).unwrap_or('𝄞'),
            _ => (b'a' + g.below(26) as u8) as char,
        };
        s.push(c);
    }
    s
}

macro_rules! dyn_strlike {
    ($t:ty, $k:expr, $from:expr) => {
        impl Dyn for $t {
            fn ty() -> String {
                format!("(str {})", $k)
            }
            fn gen(g: &mut Gen, d: u32) -> Self {
                let s = gen_string(g, d);
                ($from)(s)
            }
            fn val(&self, o: &mut String) {
                let s: &str = &*self;
                o.push_str(&hex(s.as_bytes()));
            }
        }
    };
}
dyn_strlike!(String, "string", |s: String| s);
dyn_strlike!(Box<str>, "boxStr", |s: String| s.into_boxed_str());
dyn_strlike!(Cow<'static, str>, "cowStr", |s: String| Cow::Owned(s));
dyn_strlike!(Rc<str>, "rcStr", |s: String| Rc::from(s));

impl Dyn for ascii::AsciiString {
    fn ty() -> String {
        "(str asciiString)".into()
    }
    fn gen(g: &mut Gen, d: u32) -> Self {
        let n = g.size(d);
        let bs: Vec<u8> = (0..n).map(|_| g.below(128) as u8).collect();
        ascii::AsciiString::from_ascii(bs).unwrap()
    }
    fn val(&self, o: &mut String) {
        o.push_str(&hex(self.as_bytes()));
    }
}
impl Dyn for ascii::AsciiChar {
    fn ty() -> String {
        "asciiChar".into()
    }
    fn gen(g: &mut Gen, _d: u32) -> Self {
        ascii::AsciiChar::from_ascii(match g.below(4) {
            0 => 0u8,
            1 => 127u8,
            _ => g.below(128) as u8,
        })
        .unwrap()
    }
    fn val(&self, o: &mut String) {
        let _ = write!(o, "{}", self.as_byte());
    }
}

// ---------------------------------------------------------------- net / bson (std only in borsh)

#[cfg(feature = "io_std")]
mod net {
    use super::*;
    use std::net::*;
    impl Dyn for Ipv4Addr {
        fn ty() -> String {
            "(raw ipv4)".into()
        }
        fn gen(g: &mut Gen, _d: u32) -> Self {
            match g.below(8) {
                0 => Ipv4Addr::new(0, 0, 0, 0),
                1 => Ipv4Addr::new(127, 0, 0, 1),
                2 => Ipv4Addr::new(255, 255, 255, 255),
                3 => Ipv4Addr::new(192, 168, 0, 1),
                _ => Ipv4Addr::from(g.next() as u32),
            }
        }
        fn val(&self, o: &mut String) {
            o.push_str(&hex(&self.octets()));
        }
    }
    impl Dyn for Ipv6Addr {
        fn ty() -> String {
            "(raw ipv6)".into()
        }
        fn gen(g: &mut Gen, _d: u32) -> Self {
            // the address classes std treats specially: unspecified, loopback, IPv4-mapped,
            // IPv4-compatible, multicast, documentation, all ones
            let v4 = g.next() as u32 as u128;
            match g.below(12) {
                0 => Ipv6Addr::from(0u128),
                1 => Ipv6Addr::from(1u128),
                2 | 3 => Ipv6Addr::from((0xffffu128 << 32) | v4),
                4 => Ipv6Addr::from(v4),
                5 => Ipv6Addr::from((0xff02u128 << 112) | 1),
                6 => Ipv6Addr::from((0x2001_0db8u128 << 96) | v4),
                7 => Ipv6Addr::from(u128::MAX),
                8 => Ipv6Addr::from((0x64_ff9bu128 << 96) | v4),
                _ => Ipv6Addr::from(g.u128()),
            }
        }
        fn val(&self, o: &mut String) {
            o.push_str(&hex(&self.octets()));
        }
    }
    pub const V4: &str = "(prod sockV4 (_ 0 (raw ipv4)) (_ 0 u16))";
    pub const V6: &str = "(prod sockV6 (_ 0 (raw ipv6)) (_ 0 u16))";
    impl Dyn for SocketAddrV4 {
        fn ty() -> String {
            V4.into()
        }
        fn gen(g: &mut Gen, d: u32) -> Self {
            SocketAddrV4::new(Ipv4Addr::gen(g, d), u16::gen(g, d))
        }
        fn val(&self, o: &mut String) {
            let _ = write!(o, "(l {} {})", hex(&self.ip().octets()), self.port());
        }
    }
    impl Dyn for SocketAddrV6 {
        fn ty() -> String {
            V6.into()
        }
        fn gen(g: &mut Gen, d: u32) -> Self {
            // flow info and scope id are not carried by the format
            let (f, s) = if shape_chance(1, 2) { (0, 0) } else { (shape_below(1 << 32) as u32, shape_below(1 << 32) as u32) };
            SocketAddrV6::new(Ipv6Addr::gen(g, d), u16::gen(g, d), f, s)
        }
        fn val(&self, o: &mut String) {
            let _ = write!(o, "(l {} {})", hex(&self.ip().octets()), self.port());
        }
    }
    impl Dyn for IpAddr {
        fn ty() -> String {
            "(sum ipAddr (V4 0 (_ 0 (raw ipv4))) (V6 1 (_ 0 (raw ipv6))))".into()
        }
        fn gen(g: &mut Gen, d: u32) -> Self {
            if g.chance(1, 2) {
                IpAddr::V4(Ipv4Addr::gen(g, d))
            } else {
                IpAddr::V6(Ipv6Addr::gen(g, d))
            }
        }
        fn val(&self, o: &mut String) {
            match self {
                IpAddr::V4(a) => {
                    let _ = write!(o, "(v 0 {})", hex(&a.octets()));
                }
                IpAddr::V6(a) => {
                    let _ = write!(o, "(v 1 {})", hex(&a.octets()));
                }
            }
        }
    }
    impl Dyn for SocketAddr {
        fn ty() -> String {
            format!("(sum sockAddr (V4 0 (_ 0 {})) (V6 1 (_ 0 {})))", V4, V6)
        }
        fn gen(g: &mut Gen, d: u32) -> Self {
            if g.chance(1, 2) {
                SocketAddr::V4(SocketAddrV4::gen(g, d))
            } else {
                SocketAddr::V6(SocketAddrV6::gen(g, d))
            }
        }
        fn val(&self, o: &mut String) {
            match self {
                SocketAddr::V4(a) => {
                    o.push_str("(v 0 ");
                    a.val(o);
                    o.push(')');
                }
                SocketAddr::V6(a) => {
                    o.push_str("(v 1 ");
                    a.val(o);
                    o.push(')');
                }
            }
        }
    }
    impl Dyn for bson::oid::ObjectId {
        fn ty() -> String {
            "(raw objectId)".into()
        }
        fn gen(g: &mut Gen, _d: u32) -> Self {
            let mut b = [0u8; 12];
            for x in b.iter_mut() {
                *x = g.next() as u8;
            }
            bson::oid::ObjectId::from_bytes(b)
        }
        fn val(&self, o: &mut String) {
            o.push_str(&hex(&self.bytes()));
        }
    }
}

// ---------------------------------------------------------------- sequences

fn gen_vec<T: Dyn>(g: &mut Gen, d: u32) -> Vec<T> {
    let n = g.size(d);
    (0..n).map(|_| T::gen(g, d + 1)).collect()
}

macro_rules! dyn_seq {
    ($t:ident, $k:expr, $from:expr) => {
        impl<T: Dyn> Dyn for $t<T> {
            fn ty() -> String {
                format!("(seq {} {})", $k, T::ty())
            }
            fn gen(g: &mut Gen, d: u32) -> Self {
                ($from)(gen_vec::<T>(g, d))
            }
            fn val(&self, o: &mut String) {
                list(o, self.iter(), |x, o| x.val(o));
            }
            fn canon(&self, o: &mut String) {
                list(o, self.iter(), |x, o| x.canon(o));
            }
        }
    };
}
dyn_seq!(Vec, "vec", |v: Vec<T>| v);
dyn_seq!(LinkedList, "linkedList", |v: Vec<T>| v.into_iter().collect::<LinkedList<T>>());

impl<T: Dyn> Dyn for Box<[T]> {
    fn ty() -> String {
        format!("(seq boxSlice {})", T::ty())
    }
    fn gen(g: &mut Gen, d: u32) -> Self {
        gen_vec::<T>(g, d).into_boxed_slice()
    }
    fn val(&self, o: &mut String) {
        list(o, self.iter(), |x, o| x.val(o));
    }
    fn canon(&self, o: &mut String) {
        list(o, self.iter(), |x, o| x.canon(o));
    }
}
impl<T: Dyn> Dyn for Rc<[T]> {
    fn ty() -> String {
        format!("(seq rcSlice {})", T::ty())
    }
    fn gen(g: &mut Gen, d: u32) -> Self {
        Rc::from(gen_vec::<T>(g, d))
    }
    fn val(&self, o: &mut String) {
        list(o, self.iter(), |x, o| x.val(o));
    }
    fn canon(&self, o: &mut String) {
        list(o, self.iter(), |x, o| x.canon(o));
    }
}
impl<T: Dyn + Clone + 'static> Dyn for Cow<'static, [T]> {
    fn ty() -> String {
        format!("(seq cowSlice {})", T::ty())
    }
    fn gen(g: &mut Gen, d: u32) -> Self {
        Cow::Owned(gen_vec::<T>(g, d))
    }
    fn val(&self, o: &mut String) {
        list(o, self.iter(), |x, o| x.val(o));
    }
    fn canon(&self, o: &mut String) {
        list(o, self.iter(), |x, o| x.canon(o));
    }
}

impl<T: Dyn> Dyn for VecDeque<T> {
    fn ty() -> String {
        format!("(seq vecDeque {})", T::ty())
    }
    fn gen(g: &mut Gen, d: u32) -> Self {
        // build through pushes on both ends and pops so that the ring buffer is rotated
        let v = gen_vec::<T>(g, d);
        let n = v.len();
        let mut dq: VecDeque<T> = VecDeque::with_capacity(n.max(1));
        let k = if n == 0 { 0 } else { shape_below(n as u64 + 1) as usize };
        let mut front = Vec::new();
        for (i, x) in v.into_iter().enumerate() {
            if i < k {
                front.push(x);
            } else {
                dq.push_back(x);
            }
        }
        for x in front.into_iter().rev() {
            dq.push_front(x);
        }
        dq
    }
    fn val(&self, o: &mut String) {
        let (a, b) = self.as_slices();
        o.push_str("(d (");
        for (i, x) in a.iter().enumerate() {
            if i > 0 {
                o.push(' ');
            }
            x.val(o);
        }
        o.push_str(") (");
        for (i, x) in b.iter().enumerate() {
            if i > 0 {
                o.push(' ');
            }
            x.val(o);
        }
        o.push_str("))");
    }
    fn canon(&self, o: &mut String) {
        o.push_str("(d (");
        for (i, x) in self.iter().enumerate() {
            if i > 0 {
                o.push(' ');
            }
            x.canon(o);
        }
        o.push_str(") ())");
    }
}

impl Dyn for bytes::Bytes {
    fn ty() -> String {
        "(seq bytes u8)".into()
    }
    fn gen(g: &mut Gen, d: u32) -> Self {
        bytes::Bytes::from(gen_vec::<u8>(g, d))
    }
    fn val(&self, o: &mut String) {
        list(o, self.iter(), |x, o| x.val(o));
    }
}
impl Dyn for bytes::BytesMut {
    fn ty() -> String {
        "(seq bytesMut u8)".into()
    }
    fn gen(g: &mut Gen, d: u32) -> Self {
        bytes::BytesMut::from(&gen_vec::<u8>(g, d)[..])
    }
    fn val(&self, o: &mut String) {
        list(o, self.iter(), |x, o| x.val(o));
    }
}

impl<T: Dyn, const N: usize> Dyn for [T; N] {
    fn ty() -> String {
        format!("(array {} {})", N, T::ty())
    }
    fn gen(g: &mut Gen, d: u32) -> Self {
        core::array::from_fn(|_| T::gen(g, d + 1))
    }
    fn val(&self, o: &mut String) {
        list(o, self.iter(), |x, o| x.val(o));
    }
    fn canon(&self, o: &mut String) {
        list(o, self.iter(), |x, o| x.canon(o));
    }
}

// ---------------------------------------------------------------- hashers

/// deterministic keyed hasher
#[derive(Default, Clone)]
pub struct FixedState;
pub struct Fnv(u64);
impl Hasher for Fnv {
    fn finish(&self) -> u64 {
        self.0
    }
    fn write(&mut self, bytes: &[u8]) {
        for b in bytes {
            self.0 = (self.0 ^ *b as u64).wrapping_mul(0x100000001b3);
        }
    }
}
impl BuildHasher for FixedState {
    type Hasher = Fnv;
    fn build_hasher(&self) -> Fnv {
        Fnv(0xcbf29ce484222325)
    }
}
/// every key collides
#[derive(Default, Clone)]
pub struct ConstState;
pub struct ConstHasher;
impl Hasher for ConstHasher {
    fn finish(&self) -> u64 {
        7
    }
    fn write(&mut self, _bytes: &[u8]) {}
}
impl BuildHasher for ConstState {
    type Hasher = ConstHasher;
    fn build_hasher(&self) -> ConstHasher {
        ConstHasher
    }
}

// ---------------------------------------------------------------- sets and maps

fn gen_keys<T: Dyn + Ord>(g: &mut Gen, d: u32) -> Vec<T> {
    // distinct keys, in random (generation) order
    let mut v = gen_vec::<T>(g, d);
    // keyed collections stay moderate: the model's sort / collect are quadratic
    v.truncate(300);
    let mut out: Vec<T> = Vec::new();
    for x in v {
        if !out.iter().any(|y| y.cmp(&x) == core::cmp::Ordering::Equal) {
            out.push(x);
        }
    }
    out
}

impl<T: Dyn + Ord> Dyn for BTreeSet<T> {
    fn ty() -> String {
        format!("(set btree {})", T::ty())
    }
    fn gen(g: &mut Gen, d: u32) -> Self {
        let mut ks = gen_keys::<T>(g, d);
        shape_shuffle(&mut ks);
        let mut s = BTreeSet::new();
        for k in ks {
            s.insert(k);
        }
        s
    }
    fn val(&self, o: &mut String) {
        list(o, self.iter(), |x, o| x.val(o));
    }
    fn canon(&self, o: &mut String) {
        list(o, self.iter(), |x, o| x.canon(o));
    }
}

impl<T: Dyn + Ord + Hash + Eq, S: BuildHasher + Default> Dyn for HashSet<T, S> {
    fn ty() -> String {
        format!("(set hash {})", T::ty())
    }
    fn gen(g: &mut Gen, d: u32) -> Self {
        let mut ks = gen_keys::<T>(g, d);
        shape_shuffle(&mut ks);
        let mut s: HashSet<T, S> = HashSet::with_hasher(S::default());
        if shape_chance(1, 3) {
            s.reserve(shape_below(64) as usize);
        }
        for k in ks {
            s.insert(k);
        }
        if shape_chance(1, 4) {
            s.shrink_to_fit();
        }
        s
    }
    fn val(&self, o: &mut String) {
        list(o, self.iter(), |x, o| x.val(o));
    }
    fn canon(&self, o: &mut String) {
        let mut v: Vec<&T> = self.iter().collect();
        v.sort();
        list(o, v.into_iter(), |x, o| x.canon(o));
    }
}

impl<T: Dyn + Hash + Eq> Dyn for indexmap::IndexSet<T> {
    fn ty() -> String {
        format!("(seq indexSet {})", T::ty())
    }
    fn gen(g: &mut Gen, d: u32) -> Self {
        gen_vec::<T>(g, d).into_iter().take(300).collect()
    }
    fn val(&self, o: &mut String) {
        list(o, self.iter(), |x, o| x.val(o));
    }
    fn canon(&self, o: &mut String) {
        list(o, self.iter(), |x, o| x.canon(o));
    }
}

fn entry<K: Dyn, V: Dyn>(o: &mut String, k: &K, v: &V, canon: bool) {
    o.push_str("(l ");
    if canon {
        k.canon(o);
        o.push(' ');
        v.canon(o);
    } else {
        k.val(o);
        o.push(' ');
        v.val(o);
    }
    o.push(')');
}

fn entries<'a, K: Dyn + 'a, V: Dyn + 'a>(
    o: &mut String,
    it: impl Iterator<Item = (&'a K, &'a V)>,
    canon: bool,
) {
    o.push_str("(l");
    for (k, v) in it {
        o.push(' ');
        entry(o, k, v, canon);
    }
    o.push(')');
}

impl<K: Dyn + Ord, V: Dyn> Dyn for BTreeMap<K, V> {
    fn ty() -> String {
        format!("(map btree {} {})", K::ty(), V::ty())
    }
    fn gen(g: &mut Gen, d: u32) -> Self {
        let mut kvs: Vec<(K, V)> =
            gen_keys::<K>(g, d).into_iter().map(|k| (k, V::gen(g, d + 1))).collect();
        shape_shuffle(&mut kvs);
        let mut m = BTreeMap::new();
        for (k, v) in kvs {
            m.insert(k, v);
        }
        m
    }
    fn val(&self, o: &mut String) {
        entries(o, self.iter(), false);
    }
    fn canon(&self, o: &mut String) {
        entries(o, self.iter(), true);
    }
}

impl<K: Dyn + Ord + Hash + Eq, V: Dyn, S: BuildHasher + Default> Dyn for HashMap<K, V, S> {
    fn ty() -> String {
        format!("(map hash {} {})", K::ty(), V::ty())
    }
    fn gen(g: &mut Gen, d: u32) -> Self {
        let ks = gen_keys::<K>(g, d);
        let mut kvs: Vec<(K, V)> = ks.into_iter().map(|k| (k, V::gen(g, d + 1))).collect();
        shape_shuffle(&mut kvs);
        let mut m: HashMap<K, V, S> = HashMap::with_hasher(S::default());
        if shape_chance(1, 3) {
            m.reserve(shape_below(64) as usize);
        }
        for (k, v) in kvs {
            m.insert(k, v);
        }
        if shape_chance(1, 4) {
            m.shrink_to_fit();
        }
        m
    }
    fn val(&self, o: &mut String) {
        entries(o, self.iter(), false);
    }
    fn canon(&self, o: &mut String) {
        let mut v: Vec<(&K, &V)> = self.iter().collect();
        v.sort_by(|a, b| a.0.cmp(b.0));
        entries(o, v.into_iter(), true);
    }
}

impl<K: Dyn + Hash + Eq, V: Dyn> Dyn for indexmap::IndexMap<K, V> {
    fn ty() -> String {
        format!("(map index {} {})", K::ty(), V::ty())
    }
    fn gen(g: &mut Gen, d: u32) -> Self {
        gen_vec::<K>(g, d).into_iter().take(300).map(|k| (k, V::gen(g, d + 1))).collect()
    }
    fn val(&self, o: &mut String) {
        entries(o, self.iter(), false);
    }
    fn canon(&self, o: &mut String) {
        entries(o, self.iter(), true);
    }
}

// ---------------------------------------------------------------- option / result

impl<T: Dyn> Dyn for Option<T> {
    fn ty() -> String {
        format!("(option {})", T::ty())
    }
    fn gen(g: &mut Gen, d: u32) -> Self {
        if g.chance(1, 3) {
            None
        } else {
            Some(T::gen(g, d))
        }
    }
    fn val(&self, o: &mut String) {
        match self {
            None => o.push_str("(v 0)"),
            Some(x) => {
                o.push_str("(v 1 ");
                x.val(o);
                o.push(')');
            }
        }
    }
    fn canon(&self, o: &mut String) {
        match self {
            None => o.push_str("(v 0)"),
            Some(x) => {
                o.push_str("(v 1 ");
                x.canon(o);
                o.push(')');
            }
        }
    }
}

impl<T: Dyn, E: Dyn> Dyn for Result<T, E> {
    fn ty() -> String {
        format!("(result {} {})", T::ty(), E::ty())
    }
    fn gen(g: &mut Gen, d: u32) -> Self {
        if g.chance(1, 2) {
            Ok(T::gen(g, d))
        } else {
            Err(E::gen(g, d))
        }
    }
    fn val(&self, o: &mut String) {
        match self {
            Err(x) => {
                o.push_str("(v 0 ");
                x.val(o);
                o.push(')');
            }
            Ok(x) => {
                o.push_str("(v 1 ");
                x.val(o);
                o.push(')');
            }
        }
    }
    fn canon(&self, o: &mut String) {
        match self {
            Err(x) => {
                o.push_str("(v 0 ");
                x.canon(o);
                o.push(')');
            }
            Ok(x) => {
                o.push_str("(v 1 ");
                x.canon(o);
                o.push(')');
            }
        }
    }
}

// ---------------------------------------------------------------- units, tuples, ranges

impl Dyn for () {
    fn ty() -> String {
        "(prod unit)".into()
    }
    fn gen(_g: &mut Gen, _d: u32) -> Self {}
    fn val(&self, o: &mut String) {
        o.push_str("(l)");
    }
}
impl Dyn for core::ops::RangeFull {
    fn ty() -> String {
        "(prod rangeFull)".into()
    }
    fn gen(_g: &mut Gen, _d: u32) -> Self {
        ..
    }
    fn val(&self, o: &mut String) {
        o.push_str("(l)");
    }
}
impl<T: 'static> Dyn for PhantomData<T> {
    fn ty() -> String {
        "(prod phantom)".into()
    }
    fn gen(_g: &mut Gen, _d: u32) -> Self {
        PhantomData
    }
    fn val(&self, o: &mut String) {
        o.push_str("(l)");
    }
}

macro_rules! dyn_tuple {
    ($($idx:tt $name:ident)+) => {
        impl<$($name: Dyn),+> Dyn for ($($name,)+) {
            fn ty() -> String {
                let mut s = String::from("(tuple");
                $( s.push(' '); s.push_str(&$name::ty()); )+
                s.push(')');
                s
            }
            fn gen(g: &mut Gen, d: u32) -> Self { ($($name::gen(g, d + 1),)+) }
            fn val(&self, o: &mut String) {
                o.push_str("(l");
                $( o.push(' '); self.$idx.val(o); )+
                o.push(')');
            }
            fn canon(&self, o: &mut String) {
                o.push_str("(l");
                $( o.push(' '); self.$idx.canon(o); )+
                o.push(')');
            }
        }
    };
}
dyn_tuple!(0 T0);
dyn_tuple!(0 T0 1 T1);
dyn_tuple!(0 T0 1 T1 2 T2);
dyn_tuple!(0 T0 1 T1 2 T2 3 T3);
dyn_tuple!(0 T0 1 T1 2 T2 3 T3 4 T4);
dyn_tuple!(0 T0 1 T1 2 T2 3 T3 4 T4 5 T5);
dyn_tuple!(0 T0 1 T1 2 T2 3 T3 4 T4 5 T5 6 T6 7 T7 8 T8 9 T9 10 T10 11 T11);
dyn_tuple!(0 T0 1 T1 2 T2 3 T3 4 T4 5 T5 6 T6 7 T7 8 T8 9 T9 10 T10 11 T11 12 T12 13 T13 14 T14 15 T15 16 T16 17 T17 18 T18 19 T19);

macro_rules! dyn_range {
    ($t:ident, $k:expr, $n:expr, $make:expr, [$($acc:tt)*]) => {
        impl<T: Dyn> Dyn for core::ops::$t<T> {
            fn ty() -> String {
                let mut s = format!("(prod {}", $k);
                for _ in 0..$n { s.push_str(&format!(" (_ 0 {})", T::ty())); }
                s.push(')');
                s
            }
            fn gen(g: &mut Gen, d: u32) -> Self {
                let a = T::gen(g, d + 1);
                let b = T::gen(g, d + 1);
                ($make)(a, b)
            }
            fn val(&self, o: &mut String) {
                o.push_str("(l");
                $( o.push(' '); self.$acc.val(o); )*
                o.push(')');
            }
            fn canon(&self, o: &mut String) {
                o.push_str("(l");
                $( o.push(' '); self.$acc.canon(o); )*
                o.push(')');
            }
        }
    };
}
dyn_range!(Range, "range", 2, |a, b| a..b, [start end]);
dyn_range!(RangeFrom, "rangeFrom", 1, |a, _b| a.., [start]);
dyn_range!(RangeTo, "rangeTo", 1, |a, _b| ..a, [end]);
dyn_range!(RangeToInclusive, "rangeToInclusive", 1, |a, _b| ..=a, [end]);

macro_rules! dyn_range_incl {
    ($($t:ident),*) => {$(
        impl Dyn for core::ops::RangeInclusive<$t> {
            fn ty() -> String {
                format!("(prod rangeInclusive (_ 0 {}) (_ 0 {}))", <$t>::ty(), <$t>::ty())
            }
            fn gen(g: &mut Gen, d: u32) -> Self {
                let a = <$t>::gen(g, d + 1);
                let b = if g.chance(1, 3) { a } else { <$t>::gen(g, d + 1) };
                let mut r = a..=b;
                // the `exhausted` flag is not carried by the format
                if shape_chance(1, 3) {
                    while r.next().is_some() && shape_chance(1, 2) {}
                }
                if shape_chance(1, 4) && a == b {
                    let _ = r.next();
                }
                r
            }
            fn val(&self, o: &mut String) {
                o.push_str("(l ");
                self.start().val(o);
                o.push(' ');
                self.end().val(o);
                o.push(')');
            }
        }
    )*};
}
dyn_range_incl!(u8, i32, u64);

// ---------------------------------------------------------------- wrappers

macro_rules! dyn_wrap {
    ($t:ident, $k:expr, $new:expr, $get:expr) => {
        impl<T: Dyn> Dyn for $t<T> {
            fn ty() -> String {
                format!("(wrap {} {})", $k, T::ty())
            }
            fn gen(g: &mut Gen, d: u32) -> Self {
                ($new)(T::gen(g, d))
            }
            fn val(&self, o: &mut String) {
                ($get)(self, o, false)
            }
            fn canon(&self, o: &mut String) {
                ($get)(self, o, true)
            }
        }
    };
}
fn vc<T: Dyn>(x: &T, o: &mut String, canon: bool) {
    if canon {
        x.canon(o)
    } else {
        x.val(o)
    }
}
dyn_wrap!(Box, "box", Box::new, |s: &Box<T>, o: &mut String, c| vc(&**s, o, c));
dyn_wrap!(Rc, "rc", Rc::new, |s: &Rc<T>, o: &mut String, c| vc(&**s, o, c));
dyn_wrap!(Arc, "arc", Arc::new, |s: &Arc<T>, o: &mut String, c| vc(&**s, o, c));
dyn_wrap!(RefCell, "refCell", RefCell::new, |s: &RefCell<T>, o: &mut String, c| vc(&*s.borrow(), o, c));

impl<T: Dyn + Copy> Dyn for Cell<T> {
    fn ty() -> String {
        format!("(wrap cell {})", T::ty())
    }
    fn gen(g: &mut Gen, d: u32) -> Self {
        Cell::new(T::gen(g, d))
    }
    fn val(&self, o: &mut String) {
        self.get().val(o)
    }
    fn canon(&self, o: &mut String) {
        self.get().canon(o)
    }
}

impl<T: Dyn + Clone + 'static> Dyn for Cow<'static, T> {
    fn ty() -> String {
        format!("(wrap cow {})", T::ty())
    }
    fn gen(g: &mut Gen, d: u32) -> Self {
        Cow::Owned(T::gen(g, d))
    }
    fn val(&self, o: &mut String) {
        (**self).val(o)
    }
    fn canon(&self, o: &mut String) {
        (**self).canon(o)
    }
}

// ---------------------------------------------------------------- the schema container as a value

use borsh::schema::{BorshSchemaContainer, Definition, Fields};

impl Dyn for Fields {
    fn ty() -> String {
        format!(
            "(sum (derivedsrc Fields 0 n) (NamedFields _ (_ 0 {})) (UnnamedFields _ (_ 0 {})) (Empty _))",
            <Vec<(String, String)> as Dyn>::ty(),
            <Vec<String> as Dyn>::ty()
        )
    }
    fn gen(g: &mut Gen, d: u32) -> Self {
        match g.below(3) {
            0 => Fields::NamedFields(Dyn::gen(g, d + 1)),
            1 => Fields::UnnamedFields(Dyn::gen(g, d + 1)),
            _ => Fields::Empty,
        }
    }
    fn val(&self, o: &mut String) {
        match self {
            Fields::NamedFields(f) => { o.push_str("(v 0 "); f.val(o); o.push(')'); }
            Fields::UnnamedFields(f) => { o.push_str("(v 1 "); f.val(o); o.push(')'); }
            Fields::Empty => o.push_str("(v 2)"),
        }
    }
}

impl Dyn for Definition {
    fn ty() -> String {
        format!(
            "(sum (derivedsrc Definition 0 n) (Primitive _ (_ 0 u8)) \
             (Sequence _ (length_width 0 u8) (length_range 0 {}) (elements 0 (str string))) \
             (Tuple _ (elements 0 {})) (Enum _ (tag_width 0 u8) (variants 0 {})) (Struct _ (fields 0 {})))",
            <core::ops::RangeInclusive<u64> as Dyn>::ty(),
            <Vec<String> as Dyn>::ty(),
            <Vec<(i64, String, String)> as Dyn>::ty(),
            <Fields as Dyn>::ty()
        )
    }
    fn gen(g: &mut Gen, d: u32) -> Self {
        match g.below(5) {
            0 => Definition::Primitive(Dyn::gen(g, d + 1)),
            1 => Definition::Sequence {
                length_width: Dyn::gen(g, d + 1),
                length_range: Dyn::gen(g, d + 1),
                elements: Dyn::gen(g, d + 1),
            },
            2 => Definition::Tuple { elements: Dyn::gen(g, d + 1) },
            3 => Definition::Enum { tag_width: Dyn::gen(g, d + 1), variants: Dyn::gen(g, d + 1) },
            _ => Definition::Struct { fields: Dyn::gen(g, d + 1) },
        }
    }
    fn val(&self, o: &mut String) {
        match self {
            Definition::Primitive(n) => { o.push_str("(v 0 "); n.val(o); o.push(')'); }
            Definition::Sequence { length_width, length_range, elements } => {
                o.push_str("(v 1 ");
                length_width.val(o);
                o.push(' ');
                length_range.val(o);
                o.push(' ');
                elements.val(o);
                o.push(')');
            }
            Definition::Tuple { elements } => { o.push_str("(v 2 "); elements.val(o); o.push(')'); }
            Definition::Enum { tag_width, variants } => {
                o.push_str("(v 3 ");
                tag_width.val(o);
                o.push(' ');
                variants.val(o);
                o.push(')');
            }
            Definition::Struct { fields } => { o.push_str("(v 4 "); fields.val(o); o.push(')'); }
        }
    }
}

impl Dyn for BorshSchemaContainer {
    fn ty() -> String {
        format!(
            "(prod (struct BorshSchemaContainer 0) (declaration 0 (str string)) (definitions 0 {}))",
            <BTreeMap<String, Definition> as Dyn>::ty()
        )
    }
    fn gen(g: &mut Gen, d: u32) -> Self {
        if g.chance(1, 2) {
            crate::schema_ops::gen_container(g)
        } else {
            let decl: String = Dyn::gen(g, d + 1);
            let defs: BTreeMap<String, Definition> = Dyn::gen(g, d + 1);
            BorshSchemaContainer::new(decl, defs)
        }
    }
    fn val(&self, o: &mut String) {
        o.push_str("(l ");
        self.declaration().val(o);
        o.push(' ');
        entries(o, self.definitions(), false);
        o.push(')');
    }
}
