//! Deterministic PRNG (SplitMix64): every random choice of the harness comes from one state.

#[derive(Clone)]
pub struct Gen {
    s: u64,
}

impl Gen {
    pub fn new(seed: u64) -> Self {
        Gen { s: seed.wrapping_mul(0x9E3779B97F4A7C15) ^ 0xD1B54A32D192ED03 }
    }
    pub fn next(&mut self) -> u64 {
        self.s = self.s.wrapping_add(0x9E3779B97F4A7C15);
        let mut z = self.s;
        z = (z ^ (z >> 30)).wrapping_mul(0xBF58476D1CE4E5B9);
        z = (z ^ (z >> 27)).wrapping_mul(0x94D049BB133111EB);
        z ^ (z >> 31)
    }
    pub fn below(&mut self, n: u64) -> u64 {
        if n == 0 {
            0
        } else {
            self.next() % n
        }
    }
    pub fn chance(&mut self, num: u64, den: u64) -> bool {
        self.below(den) < num
    }
    pub fn pick<'a, T>(&mut self, xs: &'a [T]) -> &'a T {
        &xs[self.below(xs.len() as u64) as usize]
    }
    /// collection sizes: small, biased to the boundaries 0/1/2; at the top level occasionally one
    /// of the sizes at which buffering strategies change (4096-byte capacity hints, 64 KiB)
    pub fn size(&mut self, depth: u32) -> usize {
        if SMALL_ONLY.load(std::sync::atomic::Ordering::Relaxed) {
            // element types of several KiB: collections of 0..=3 of them
            FORCE_BIG.with(|f| f.borrow_mut().take());
            return self.below(4) as usize;
        }
        let cap = match depth {
            0 => 9,
            1 => 5,
            2 => 3,
            _ => 2,
        };
        if depth == 0 {
            if let Some(n) = FORCE_BIG.with(|f| f.borrow_mut().take()) {
                return n;
            }
        }
        if depth == 0 && self.below(48) == 0 {
            return *self.pick(&[255usize, 256, 257, 1023, 1024, 4095, 4096, 4097, 5000, 8192, 8193, 70001]);
        }
        match self.below(8) {
            0 => 0,
            1 => 1,
            2 => 2,
            _ => self.below(cap + 1) as usize,
        }
    }
    pub fn u128(&mut self) -> u128 {
        ((self.next() as u128) << 64) | self.next() as u128
    }
    pub fn bytes(&mut self, n: usize) -> Vec<u8> {
        (0..n).map(|_| self.next() as u8).collect()
    }
    pub fn fork(&mut self) -> Gen {
        Gen::new(self.next())
    }
}

/// set while the catalogue of large-element types runs (collections stay tiny)
pub static SMALL_ONLY: std::sync::atomic::AtomicBool = std::sync::atomic::AtomicBool::new(false);

thread_local! {
    static FORCE_BIG: std::cell::RefCell<Option<usize>> = std::cell::RefCell::new(None);
}
/// the next top-level collection size is `n` (so that every type meets the sizes at which
/// buffering strategies change, not only the ones the dice happen to pick)
pub fn force_big(n: Option<usize>) {
    FORCE_BIG.with(|f| *f.borrow_mut() = n);
}

// ---- shape stream: decisions that change the representation but not the logical value
// (insertion order, reserve/shrink, ring-buffer rotation, exhausted flag) draw from a separate
// thread-local generator, so that the same value seed with two shape seeds yields two
// representations of one logical value.
thread_local! {
    static SHAPE: std::cell::RefCell<Gen> = std::cell::RefCell::new(Gen::new(0x5eed));
}
pub fn set_shape_seed(seed: u64) {
    SHAPE.with(|s| *s.borrow_mut() = Gen::new(seed));
}
pub fn shape_below(n: u64) -> u64 {
    SHAPE.with(|s| s.borrow_mut().below(n))
}
pub fn shape_chance(num: u64, den: u64) -> bool {
    shape_below(den) < num
}
/// permute by the shape stream
pub fn shape_shuffle<T>(v: &mut Vec<T>) {
    match shape_below(4) {
        0 => {}
        1 => v.reverse(),
        _ => {
            let n = v.len();
            for i in (1..n).rev() {
                let j = shape_below(i as u64 + 1) as usize;
                v.swap(i, j);
            }
        }
    }
}
