//! Deterministic PRNG (SplitMix64): every random choice of the harness comes from one state.

#[derive(Clone)]
pub struct Gen {
    s: u64,
}

impl Gen {
    pub fn new(seed: u64) -> Self {
        Gen { s: seed.wrapping_mul(0x9E3779B97F4A7C15) ^ 0xD1B54A32D192ED03 }
    }
    pub fn next(&mut self) -> u64 {
        self.s = self.s.wrapping_add(0x9E3779B97F4A7C15);
        let mut z = self.s;
        z = (z ^ (z >> 30)).wrapping_mul(0xBF58476D1CE4E5B9);
        z = (z ^ (z >> 27)).wrapping_mul(0x94D049BB133111EB);
        z ^ (z >> 31)
    }
    pub fn below(&mut self, n: u64) -> u64 {
        if n == 0 {
            0
        } else {
            self.next() % n
        }
    }
    pub fn chance(&mut self, num: u64, den: u64) -> bool {
        self.below(den) < num
    }
    pub fn pick<'a, T>(&mut self, xs: &'a [T]) -> &'a T {
        &xs[self.below(xs.len() as u64) as usize]
    }
    /// collection sizes: small, biased to the boundaries 0/1/2
    pub fn size(&mut self, depth: u32) -> usize {
        let cap = match depth {
            0 => 9,
            1 => 5,
            2 => 3,
            _ => 2,
        };
        match self.below(8) {
            0 => 0,
            1 => 1,
            2 => 2,
            _ => self.below(cap + 1) as usize,
        }
    }
    pub fn u128(&mut self) -> u128 {
        ((self.next() as u128) << 64) | self.next() as u128
    }
    pub fn bytes(&mut self, n: usize) -> Vec<u8> {
        (0..n).map(|_| self.next() as u8).collect()
    }
    pub fn fork(&mut self) -> Gen {
        Gen::new(self.next())
    }
}
