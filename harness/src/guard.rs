//! C15: the `[T; N]` decoder with an instrumented, heap-owning element type.
//! The ledger records every construction and every drop; a plan makes the element decoder fail
//! (error return or panic) at a chosen position.

use crate::obs::Sink;
use borsh::io::{Error, ErrorKind, Read, Result};
use borsh::BorshDeserialize;
use std::cell::RefCell;
use std::panic::{catch_unwind, AssertUnwindSafe};

thread_local! {
    static LEDGER: RefCell<Vec<String>> = RefCell::new(Vec::new());
    static NEXT: RefCell<usize> = RefCell::new(0);
    static PLAN: RefCell<(Option<usize>, u8)> = RefCell::new((None, 0));
    /// the element whose destructor panics (after recording its drop), if any
    static DROP_PANIC: RefCell<Option<usize>> = RefCell::new(None);
}

pub struct Tracked {
    id: usize,
    _heap: Box<[u64; 4]>,
    _text: String,
}

impl BorshDeserialize for Tracked {
    fn deserialize_reader<R: Read>(reader: &mut R) -> Result<Self> {
        let b = u8::deserialize_reader(reader)?;
        let id = NEXT.with(|n| {
            let mut n = n.borrow_mut();
            let v = *n;
            *n += 1;
            v
        });
        let (fail_at, mode) = PLAN.with(|p| *p.borrow());
        if fail_at == Some(id) {
            if mode == 1 {
                panic!("planned panic in element decoder");
            }
            // an element decoder may fail with any kind, `Interrupted` included (a user impl that
            // calls `Read::read` directly); for the array decoder every kind is a failure
            return Err(match mode {
                2 => Error::new(ErrorKind::Interrupted, "planned interruption"),
                3 => ErrorKind::Interrupted.into(),
                4 => ErrorKind::UnexpectedEof.into(),
                _ => Error::new(ErrorKind::InvalidData, "planned failure"),
            });
        }
        LEDGER.with(|l| l.borrow_mut().push(format!("c{}", id)));
        Ok(Tracked { id, _heap: Box::new([b as u64; 4]), _text: format!("element {}", id) })
    }
}

impl Drop for Tracked {
    fn drop(&mut self) {
        LEDGER.with(|l| l.borrow_mut().push(format!("d{}", self.id)));
        if DROP_PANIC.with(|d| *d.borrow()) == Some(self.id) {
            DROP_PANIC.with(|d| *d.borrow_mut() = None);
            panic!("planned panic in a destructor");
        }
    }
}

/// the decoder fails at position `k` (error return) and, while the built prefix is released, the
/// destructor of element `j < k` panics: the other elements are still owed their drop (slice drop
/// glue goes on after an unwinding destructor).  Oracle only - the model has no failing destructors.
fn run_drop_panic<const N: usize>(k: usize, j: usize, out: &mut Sink) {
    LEDGER.with(|l| l.borrow_mut().clear());
    NEXT.with(|n| *n.borrow_mut() = 0);
    PLAN.with(|p| *p.borrow_mut() = (Some(k), 0));
    DROP_PANIC.with(|d| *d.borrow_mut() = Some(j));
    let data = vec![7u8; N + 2];
    let case = format!("guard {} {} error [destructor of element {} panics]", N, k, j);
    out.announce(&case);
    let _ = catch_unwind(AssertUnwindSafe(|| {
        let mut s = &data[..];
        <[Tracked; N]>::deserialize_reader(&mut s).map(|_| ())
    }));
    DROP_PANIC.with(|d| *d.borrow_mut() = None);
    let evs: Vec<String> = LEDGER.with(|l| l.borrow().clone());
    let constructed = evs.iter().filter(|e| e.starts_with('c')).count();
    let mut ok = constructed == k;
    for id in 0..constructed {
        if evs.iter().filter(|e| **e == format!("d{}", id)).count() != 1 {
            ok = false;
        }
    }
    out.oracle("C15", ok, &case, &format!("constructed {}: {}", constructed, evs.join(" ")));
    // the same run against the model (`arrayRunDropPanic`: events as without the unwinding destructor)
    out.case(&format!("guard {} {} errdrop {}", N, k, j), &format!("unwound ({})", evs.join(" ")));
}

fn run<const N: usize>(fail_at: Option<usize>, mode: u8, out: &mut Sink) {
    let mode_name = ["error", "panic", "intr", "intrbare", "eofbare"][mode as usize];
    LEDGER.with(|l| l.borrow_mut().clear());
    NEXT.with(|n| *n.borrow_mut() = 0);
    PLAN.with(|p| *p.borrow_mut() = (fail_at, mode));
    let data = vec![7u8; N + 2];
    let k0 = fail_at.map(|k| k.to_string()).unwrap_or_else(|| "none".into());
    out.announce(&format!("guard {} {} {}", N, k0, mode_name));
    let res = catch_unwind(AssertUnwindSafe(|| {
        let mut s = &data[..];
        <[Tracked; N]>::deserialize_reader(&mut s)
    }));
    let during: Vec<String> = LEDGER.with(|l| l.borrow().clone());
    let (outcome, after): (&str, Vec<String>) = match res {
        Ok(Ok(arr)) => {
            // ownership of all elements passed to the caller exactly once: dropping the array
            // drops each element once, in order
            LEDGER.with(|l| l.borrow_mut().clear());
            drop(arr);
            ("returned", LEDGER.with(|l| l.borrow().clone()))
        }
        Ok(Err(_)) => ("failed", vec![]),
        Err(_) => ("unwound", vec![]),
    };
    // hand-over is observed as the caller's drops: map d<i> after return to h<i>
    let mut evs = during.clone();
    evs.extend(after.iter().map(|d| d.replacen('d', "h", 1)));
    let k = fail_at.map(|k| k.to_string()).unwrap_or_else(|| "none".into());
    let case = format!("guard {} {} {}", N, k, mode_name);
    out.case(&case, &format!("{} ({})", outcome, evs.join(" ")));
    // the property, directly: every constructed element released exactly once
    let constructed: Vec<&String> = evs.iter().filter(|e| e.starts_with('c')).collect();
    let mut ok = true;
    for c in &constructed {
        let id = &c[1..];
        let released = evs.iter().filter(|e| (e.starts_with('d') || e.starts_with('h')) && &e[1..] == id).count();
        if released != 1 {
            ok = false;
        }
    }
    let released_total = evs.iter().filter(|e| e.starts_with('d') || e.starts_with('h')).count();
    out.oracle("C15", ok && released_total == constructed.len(), &case,
               &format!("constructed {} released {}: {}", constructed.len(), released_total, evs.join(" ")));
}

/// a zero-sized element with drop glue whose decoder consumes a byte and follows the same plan
/// (a marker / permit type): the guard owes it exactly the same bookkeeping
pub struct TrackedZst;

thread_local! {
    static ZDROPS: RefCell<usize> = RefCell::new(0);
}

impl BorshDeserialize for TrackedZst {
    fn deserialize_reader<R: Read>(reader: &mut R) -> Result<Self> {
        let _ = u8::deserialize_reader(reader)?;
        let id = NEXT.with(|n| {
            let mut n = n.borrow_mut();
            let v = *n;
            *n += 1;
            v
        });
        let (fail_at, mode) = PLAN.with(|p| *p.borrow());
        if fail_at == Some(id) {
            if mode == 1 {
                panic!("planned panic in element decoder");
            }
            return Err(Error::new(ErrorKind::InvalidData, "planned failure"));
        }
        LEDGER.with(|l| l.borrow_mut().push(format!("c{}", id)));
        Ok(TrackedZst)
    }
}

impl Drop for TrackedZst {
    fn drop(&mut self) {
        // a zero-sized value carries no identity: drops are numbered in the order they happen (the
        // guard, and the caller's array, both drop in index order)
        let k = ZDROPS.with(|z| {
            let mut z = z.borrow_mut();
            let v = *z;
            *z += 1;
            v
        });
        LEDGER.with(|l| l.borrow_mut().push(format!("d{}", k)));
    }
}

fn run_zst<const N: usize>(fail_at: Option<usize>, mode: u8, out: &mut Sink) {
    let mode_name = ["error", "panic"][mode as usize];
    LEDGER.with(|l| l.borrow_mut().clear());
    NEXT.with(|n| *n.borrow_mut() = 0);
    ZDROPS.with(|z| *z.borrow_mut() = 0);
    PLAN.with(|p| *p.borrow_mut() = (fail_at, mode));
    let data = vec![7u8; N + 2];
    let k = fail_at.map(|k| k.to_string()).unwrap_or_else(|| "none".into());
    let case = format!("guard {} {} {}", N, k, mode_name);
    out.announce(&case);
    let res = catch_unwind(AssertUnwindSafe(|| {
        let mut s = &data[..];
        <[TrackedZst; N]>::deserialize_reader(&mut s)
    }));
    let during: Vec<String> = LEDGER.with(|l| l.borrow().clone());
    let (outcome, after): (&str, Vec<String>) = match res {
        Ok(Ok(arr)) => {
            LEDGER.with(|l| l.borrow_mut().clear());
            ZDROPS.with(|z| *z.borrow_mut() = 0);
            drop(arr);
            ("returned", LEDGER.with(|l| l.borrow().clone()))
        }
        Ok(Err(_)) => ("failed", vec![]),
        Err(_) => ("unwound", vec![]),
    };
    let mut evs = during.clone();
    evs.extend(after.iter().map(|d| d.replacen('d', "h", 1)));
    out.case(&case, &format!("{} ({})", outcome, evs.join(" ")));
    let constructed = evs.iter().filter(|e| e.starts_with('c')).count();
    let released = evs.iter().filter(|e| e.starts_with('d') || e.starts_with('h')).count();
    out.oracle("C15", constructed == released, &format!("{} [zero-sized element with drop glue]", case),
               &format!("constructed {} released {}: {}", constructed, released, evs.join(" ")));
}

pub fn guard_workload(out: &mut Sink) {
    fn zst<const N: usize>(out: &mut Sink) {
        run_zst::<N>(None, 0, out);
        for k in 0..N {
            run_zst::<N>(Some(k), 0, out);
            run_zst::<N>(Some(k), 1, out);
        }
    }
    // arrays of more than 4096 bytes in memory (40-byte elements): a decoder that stages large arrays
    // differently owes them the same bookkeeping
    fn large<const N: usize>(out: &mut Sink) {
        run::<N>(None, 0, out);
        for k in [0usize, 1, 2, N / 2, N - 2, N - 1] {
            for mode in [0u8, 1, 2] {
                run::<N>(Some(k), mode, out);
            }
        }
    }
    large::<102>(out);
    large::<103>(out);
    large::<513>(out);
    run_drop_panic::<4>(2, 0, out);
    run_drop_panic::<4>(3, 0, out);
    run_drop_panic::<4>(3, 1, out);
    run_drop_panic::<5>(4, 2, out);
    run_drop_panic::<9>(8, 0, out);
    run_drop_panic::<9>(8, 7, out);
    run_drop_panic::<17>(16, 5, out);
    zst::<0>(out);
    zst::<1>(out);
    zst::<2>(out);
    zst::<3>(out);
    zst::<7>(out);
    zst::<16>(out);
    fn one<const N: usize>(out: &mut Sink) {
        run::<N>(None, 0, out);
        for k in 0..N {
            for mode in 0..5u8 {
                run::<N>(Some(k), mode, out);
            }
        }
    }
    macro_rules! go { ($($n:literal),*) => { $( one::<$n>(out); )* }; }
    go!(0, 1, 2, 3, 4, 5, 6, 7, 8, 9, 10, 11, 12, 13, 14, 15, 16, 17, 18, 19, 20, 21, 22, 23, 24, 25, 26, 27,
        28, 29, 30, 31, 32, 33, 64);
}
