//! C06, "runs the init hook exactly once after decoding" for the shapes whose hook leaves no trace in
//! the value: unit structs, field-less named and tuple structs, a unit variant.  The hook counts its
//! calls in a thread-local; every decode must add exactly the number of such items in the value.

use crate::obs::Sink;
use borsh::{BorshDeserialize, BorshSerialize};
use std::cell::Cell;

thread_local! {
    static HITS: Cell<u32> = Cell::new(0);
}
fn bump() {
    HITS.with(|c| c.set(c.get() + 1));
}

#[derive(BorshSerialize, BorshDeserialize, Debug, PartialEq, Clone)]
#[borsh(init = on_load)]
pub struct UnitI;
impl UnitI {
    fn on_load(&mut self) {
        bump()
    }
}
#[derive(BorshSerialize, BorshDeserialize, Debug, PartialEq, Clone)]
#[borsh(init = on_load)]
pub struct EmptyNamedI {}
impl EmptyNamedI {
    fn on_load(&mut self) {
        bump()
    }
}
#[derive(BorshSerialize, BorshDeserialize, Debug, PartialEq, Clone)]
#[borsh(init = on_load)]
pub struct EmptyTupleI();
impl EmptyTupleI {
    fn on_load(&mut self) {
        bump()
    }
}
#[derive(BorshSerialize, BorshDeserialize, Debug, PartialEq, Clone)]
#[borsh(init = on_load)]
pub struct AllSkippedI {
    #[borsh(skip)]
    pub a: u8,
}
impl AllSkippedI {
    fn on_load(&mut self) {
        bump()
    }
}
#[derive(BorshSerialize, BorshDeserialize, Debug, PartialEq, Clone)]
#[borsh(init = on_load)]
pub enum EnumI {
    A,
    B(u8),
}
impl EnumI {
    fn on_load(&mut self) {
        bump()
    }
}

fn one<T: BorshDeserialize>(name: &str, bytes: &[u8], expect: u32, out: &mut Sink) {
    let case = format!("init-count {} x{}", name, bytes.iter().map(|b| format!("{:02x}", b)).collect::<String>());
    for (entry, f) in [
        ("from_slice", (|b: &[u8]| borsh::from_slice::<T>(b).is_ok()) as fn(&[u8]) -> bool),
        ("try_from_slice", |b: &[u8]| T::try_from_slice(b).is_ok()),
        ("deserialize_reader", |b: &[u8]| {
            let mut r = b;
            T::deserialize_reader(&mut r).is_ok()
        }),
        ("try_from_reader", |b: &[u8]| {
            let mut r = b;
            T::try_from_reader(&mut r).is_ok()
        }),
    ] {
        let before = HITS.with(|c| c.get());
        let ok = std::panic::catch_unwind(|| f(bytes)).unwrap_or(false);
        let got = HITS.with(|c| c.get()) - before;
        out.oracle("C06", ok && got == expect, &case,
                   &format!("{}: decoded={} init hook ran {} times, expected {}", entry, ok, got, expect));
    }
}

pub fn unit_init_cases(out: &mut Sink) {
    one::<UnitI>("UnitI", &[], 1, out);
    one::<EmptyNamedI>("EmptyNamedI", &[], 1, out);
    one::<EmptyTupleI>("EmptyTupleI", &[], 1, out);
    one::<AllSkippedI>("AllSkippedI", &[], 1, out);
    one::<EnumI>("EnumI::A", &[0], 1, out);
    one::<EnumI>("EnumI::B", &[1, 7], 1, out);
    one::<[UnitI; 4]>("[UnitI; 4]", &[], 4, out);
    one::<(UnitI, EmptyNamedI, EmptyTupleI)>("(UnitI, EmptyNamedI, EmptyTupleI)", &[], 3, out);
    one::<Option<UnitI>>("Option<UnitI> Some", &[1], 1, out);
    one::<Option<UnitI>>("Option<UnitI> None", &[0], 0, out);
    one::<Vec<EnumI>>("Vec<EnumI>", &[3, 0, 0, 0, 0, 1, 9, 0], 3, out);
    one::<Box<UnitI>>("Box<UnitI>", &[], 1, out);
    one::<Result<UnitI, AllSkippedI>>("Result Ok", &[1], 1, out);
    one::<Result<UnitI, AllSkippedI>>("Result Err", &[0], 1, out);
}
