mod alloc;
mod catalogue;
mod dynty;
mod gen;
#[rustfmt::skip]
mod generated;
mod guard;
mod initunit;
mod obs;
mod ops;
mod schema_ops;
mod samename;
mod recursive;
mod script;

use gen::Gen;
use ops::Budget;

#[global_allocator]
static GLOBAL: alloc::Counting = alloc::Counting;

fn main() {
    let args: Vec<String> = std::env::args().collect();
    if args.len() < 5 {
        eprintln!("usage: harness <prop> <seed> <quick|thorough> <outdir>");
        std::process::exit(2);
    }
    let prop = args[1].as_str();
    let seed: u64 = args[2].parse().expect("seed");
    let thorough = args[3] == "thorough";
    let outdir = &args[4];
    // panics are observations; keep them quiet
    std::panic::set_hook(Box::new(|_| {}));
    let mut out = obs::Sink::new(outdir);
    let mut cat = catalogue::catalogue();
    let n_builtin = cat.len();
    // derived items come after the built-ins common to both io configurations? no: they are the same in
    // both, so they are inserted before the io_std-only tail to keep the common prefix aligned
    let derived = generated::derived_catalogue();
    let _ = n_builtin;
    cat.extend(derived);
    let budget = Budget { values: if thorough { 60 } else { 8 }, thorough };
    let mut g = Gen::new(seed);
    if prop == "C04" || prop == "C16" {
        ops::c04_corpus(&mut out);
    }
    if prop == "IO" {
    } else if prop == "C06" {
        // the derived items only: round trip, bytes vs specification, malformed input, variants
        for e in &generated::derived_catalogue() {
            for sub in ["C01", "C02", "C04"] {
                let mut ge = g.fork();
                (e.run)(sub, &mut ge, &budget, &mut out);
            }
        }
        for run in generated::derived_enum_catalogue() {
            let mut ge = g.fork();
            run(&mut ge, &budget, &mut out);
        }
        initunit::unit_init_cases(&mut out);
    } else if prop == "C15" {
        guard::guard_workload(&mut out);
    } else if prop == "C14" {
        for e in &catalogue::zst_catalogue() {
            let mut ge = g.fork();
            (e.run)(prop, &mut ge, &budget, &mut out);
        }
        // agreement clause: the same collections through schema validation
        schema_ops::ZST_TOP.store(true, std::sync::atomic::Ordering::Relaxed);
        for (_, run) in catalogue::zst_schema_catalogue() {
            let mut ge = g.fork();
            run(&mut ge, &budget, &mut out);
        }
        schema_ops::ZST_TOP.store(false, std::sync::atomic::Ordering::Relaxed);
    } else {
        for e in &cat {
            let mut ge = g.fork();
            (e.run)(prop, &mut ge, &budget, &mut out);
        }
    }
    // recursive user types (described as `mu` terms, unfolded by the driver): every codec property
    // but C07, whose statement excludes them; the branching one stays away from mutated input
    if ["C01", "C02", "C03", "C04", "C05", "C16", "C11", "C12"].contains(&prop) {
        for (e, linear) in &recursive::recursive_catalogue() {
            if *linear || ["C01", "C02", "C03", "C05", "C12"].contains(&prop) {
                for _ in 0..3 {
                    let mut ge = g.fork();
                    (e.run)(prop, &mut ge, &budget, &mut out);
                }
            }
        }
    }
    if ["C01", "C04", "C05", "C07", "C16"].contains(&prop) {
        // element types of several KiB (the capacity hint divides 4096 by the element size)
        gen::SMALL_ONLY.store(true, std::sync::atomic::Ordering::Relaxed);
        let small = Budget { values: 3, thorough: false };
        for e in &catalogue::big_elem_catalogue() {
            let mut ge = g.fork();
            (e.run)(prop, &mut ge, &small, &mut out);
        }
        gen::SMALL_ONLY.store(false, std::sync::atomic::Ordering::Relaxed);
    }
    if ["C08", "C09", "C10", "C17"].contains(&prop) {
        for (_, run) in catalogue::schema_catalogue().into_iter().chain(generated::derived_schema_catalogue())
            .chain(recursive::recursive_schema_catalogue()) {
            let mut ge = g.fork();
            run(&mut ge, &budget, &mut out);
        }
        schema_ops::containers(&mut g, if thorough { 60000 } else { 4000 }, &mut out);
        if prop == "C08" || prop == "C09" {
            samename::same_name_cases(&mut g, &mut out);
        }
        if prop == "C17" {
            samename::same_name_with_schema(&mut g, &mut out);
            for run in catalogue::schema_perturbed() {
                run(&mut g, &mut out);
            }
            for run in catalogue::schema_pairs() {
                for _ in 0..(if thorough { 10 } else { 2 }) {
                    run(&mut g, &mut out);
                }
            }
        }
    }
    if prop == "IO" {
        script::io_ops(&mut g, if thorough { 40000 } else { 4000 }, &mut out);
    }
    if prop == "C11" {
        script::c11_large(&mut g, &mut out, thorough);
    }
    if prop == "C12" {
        script::c12_large(&mut g, &mut out, thorough);
    }
    if prop == "C04" || prop == "C05" {
        ops::lax_collections(&mut g, thorough, &mut out);
    }
    if prop == "C02" {
        ops::c02_too_long(&mut out);
        ops::c02_refcell_borrowed(&mut out);
    }
    if prop == "C03" || prop == "C02" {
        ops::c03_fastpath(&mut g, thorough, &mut out);
    }
    if prop == "C05" || prop == "C01" || prop == "C16" {
        ops::large_bytes(&mut g, thorough, &mut out);
    }
    if prop == "C05" || prop == "C17" {
        for run in catalogue::schema_framing() {
            for _ in 0..(if thorough { 6 } else { 2 }) {
                run(&mut g, &mut out);
            }
        }
    }
    if prop == "C07" || prop == "C17" {
        schema_ops::with_schema_hostile(&mut out);
    }
    if prop == "C05" {
        ops::c05_streams(&cat, &mut g, if thorough { 20000 } else { 1500 }, &mut out);
    }
    eprintln!(
        "harness: prop={} io={} mode={} types={} cases={} oracle_checks={} oracle_failures={}",
        prop, obs::IO, obs::MODE, cat.len(), out.n_cases, out.n_oracle_checks, out.n_oracle_fail
    );
    out.finish();
}
