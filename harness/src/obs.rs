//! Canonical observations: error kinds and message classes, output sinks.

use borsh::io::{Error, ErrorKind};
use std::fs::File;
use std::io::{BufWriter, Write};

pub const MODE: &str = if cfg!(feature = "strict") { "strict" } else { "lax" };
pub const IO: &str = if cfg!(feature = "io_std") { "std" } else { "nostd" };

pub fn kind_name(k: ErrorKind) -> String {
    match k {
        ErrorKind::InvalidData => "invalidData".into(),
        ErrorKind::UnexpectedEof => "unexpectedEof".into(),
        ErrorKind::Interrupted => "interrupted".into(),
        ErrorKind::WriteZero => "writeZero".into(),
        ErrorKind::OutOfMemory => "outOfMemory".into(),
        ErrorKind::Other => "other".into(),
        ErrorKind::PermissionDenied => "(user 1)".into(),
        ErrorKind::ConnectionReset => "(user 2)".into(),
        ErrorKind::TimedOut => "(user 3)".into(),
        ErrorKind::BrokenPipe => "(user 4)".into(),
        ErrorKind::WouldBlock => "(user 5)".into(),
        ErrorKind::AddrInUse => "(user 6)".into(),
        other => format!("(unknown {:?})", other).replace(' ', "_"),
    }
}

fn after<'a>(s: &'a str, prefix: &str) -> Option<&'a str> {
    s.strip_prefix(prefix)
}

fn leading_number(s: &str) -> String {
    s.chars().take_while(|c| c.is_ascii_digit()).collect()
}

/// message text -> message class (the classes of `Borsh.Msg`)
pub fn msg_class(e: &Error) -> String {
    let text = e.to_string();
    let t = text.as_str();
    if t == "Unexpected length of input" {
        return "unexpectedLength".into();
    }
    if t == "Not all bytes read" {
        return "notAllBytesRead".into();
    }
    if t == borsh::error::ERROR_ZST_FORBIDDEN {
        return "zst".into();
    }
    if t == "keys were not serialized in ascending order" {
        return "keyOrder".into();
    }
    if t == "For portability reasons we do not allow to serialize NaNs." {
        return "nanSer".into();
    }
    if t == "For portability reasons we do not allow to deserialize NaNs." {
        return "nanDe".into();
    }
    if t == "Expected a non-zero value" {
        return "zeroNonZero".into();
    }
    if let Some(r) = after(t, "Invalid bool representation: ") {
        return format!("(badTag bool {})", leading_number(r));
    }
    if let Some(r) = after(t, "Invalid Option representation: ") {
        return format!("(badTag option {})", leading_number(r));
    }
    if let Some(r) = after(t, "Invalid Result representation: ") {
        return format!("(badTag result {})", leading_number(r));
    }
    if let Some(r) = after(t, "Invalid SocketAddr variant: ") {
        return format!("(badTag sockAddr {})", leading_number(r));
    }
    if let Some(r) = after(t, "Invalid IpAddr variant: ") {
        return format!("(badTag ipAddr {})", leading_number(r));
    }
    if let Some(r) = after(t, "Unexpected variant tag: ") {
        return format!("(badTag derived {})", leading_number(r));
    }
    if t.starts_with("invalid utf-8 sequence") || t.starts_with("incomplete utf-8 byte sequence") {
        return "utf8".into();
    }
    if t.contains("not ASCII") || t.contains("not an ASCII") || t.contains("ASCII") {
        return "ascii".into();
    }
    if t == "failed to fill whole buffer" {
        return "eofFill".into();
    }
    if t == "failed to write whole buffer" {
        return "writeZeroMsg".into();
    }
    if t == "Borsh schema does not match" {
        return "schemaMismatch".into();
    }
    if t == "already mutably borrowed" {
        return "refCell".into();
    }
    if let Some(r) = after(t, "user:") {
        return format!("(user {})", leading_number(r));
    }
    // `Error::from(ErrorKind)`: Display is the kind's own description
    let simple = Error::from(e.kind()).to_string();
    if t == simple {
        return "simple".into();
    }
    format!("(text {:?})", t).replace(' ', "_")
}

pub fn show_err(e: &Error) -> String {
    if std::env::var_os("HARNESS_RAW_MSG").is_some() {
        // C13 compares the message *texts* of the two builds, not their classes
        return format!("err {} {:?}", kind_name(e.kind()), e.to_string());
    }
    format!("err {} {}", kind_name(e.kind()), msg_class(e))
}

static DEADLINE: std::sync::atomic::AtomicU64 = std::sync::atomic::AtomicU64::new(0);
static WATCHDOG: std::sync::Once = std::sync::Once::new();
static WATCH: std::sync::Mutex<(String, String)> = std::sync::Mutex::new((String::new(), String::new()));

pub struct Sink {
    cases: BufWriter<File>,
    obs: BufWriter<File>,
    oracle: BufWriter<File>,
    pub n_cases: u64,
    pub n_oracle_fail: u64,
    pub n_oracle_checks: u64,
    dir: Option<String>,
}

impl Sink {
    pub fn new(dir: &str) -> Sink {
        std::fs::create_dir_all(dir).unwrap();
        let f = |n: &str| BufWriter::new(File::create(format!("{}/{}", dir, n)).unwrap());
        Sink {
            cases: f("cases.txt"),
            obs: f("impl.txt"),
            oracle: f("oracle.txt"),
            n_cases: 0,
            n_oracle_fail: 0,
            n_oracle_checks: 0,
            dir: Some(dir.to_string()),
        }
    }
    /// one case line and the implementation's canonical observation for it
    pub fn case(&mut self, case: &str, obs: &str) {
        debug_assert!(!case.contains('\n') && !obs.contains('\n'));
        writeln!(self.cases, "{}", case).unwrap();
        writeln!(self.obs, "{}", obs).unwrap();
        self.n_cases += 1;
    }
    /// record the case that is about to run (survives an abort of the process)
    pub fn announce(&mut self, case: &str) {
        if let Some(dir) = &self.dir {
            let _ = std::fs::write(format!("{}/current.txt", dir), case);
        }
    }
    /// a time limit for the case that is about to run, without touching the disk: if the case is
    /// still running after `secs` seconds the watchdog thread records it in `current.txt` and the
    /// process exits with status 98 (reported as "did not answer in bounded time").  `done` lifts it.
    pub fn announce_timed(&mut self, case: &str, secs: u64) {
        if let Some(dir) = &self.dir {
            let mut w = WATCH.lock().unwrap();
            w.0 = format!("{}/current.txt", dir);
            w.1.clear();
            w.1.push_str(case);
        }
        let now = std::time::SystemTime::now().duration_since(std::time::UNIX_EPOCH).unwrap().as_millis() as u64;
        DEADLINE.store(now + secs * 1000, std::sync::atomic::Ordering::SeqCst);
        WATCHDOG.call_once(|| {
            std::thread::spawn(|| loop {
                std::thread::sleep(std::time::Duration::from_millis(100));
                let d = DEADLINE.load(std::sync::atomic::Ordering::SeqCst);
                if d != 0 {
                    let now = std::time::SystemTime::now().duration_since(std::time::UNIX_EPOCH).unwrap().as_millis() as u64;
                    if now > d {
                        let w = WATCH.lock().unwrap();
                        let _ = std::fs::write(&w.0, format!("{} [no answer within the time limit]", w.1));
                        eprintln!("harness: time limit exceeded on the announced case");
                        std::process::exit(98);
                    }
                }
            });
        });
    }
    pub fn done(&mut self) {
        DEADLINE.store(0, std::sync::atomic::Ordering::SeqCst);
    }
    /// the property evaluated directly on the implementation
    pub fn oracle(&mut self, prop: &str, ok: bool, case: &str, detail: &str) {
        self.n_oracle_checks += 1;
        if !ok {
            self.n_oracle_fail += 1;
            writeln!(self.oracle, "{}\t{}\t{}", prop, case, detail.replace('\n', " ")).unwrap();
        }
    }
    pub fn finish(mut self) {
        self.cases.flush().unwrap();
        self.obs.flush().unwrap();
        self.oracle.flush().unwrap();
    }
}
