//! Per-property workloads, generic over a catalogue type.

use crate::dynty::*;
use crate::gen::Gen;
use crate::obs::*;
use borsh::{BorshDeserialize, BorshSerialize};
use std::panic::{catch_unwind, AssertUnwindSafe};

pub trait Full: Dyn + BorshSerialize + BorshDeserialize {}
impl<T: Dyn + BorshSerialize + BorshDeserialize> Full for T {}

pub struct Budget {
    pub values: usize,
    pub thorough: bool,
}

fn guarded<R>(f: impl FnOnce() -> R) -> Result<R, String> {
    catch_unwind(AssertUnwindSafe(f)).map_err(|p| {
        if let Some(s) = p.downcast_ref::<&str>() {
            s.to_string()
        } else if let Some(s) = p.downcast_ref::<String>() {
            s.clone()
        } else {
            "panic".to_string()
        }
    })
}

pub fn enc_obs<T: BorshSerialize + ?Sized>(v: &T) -> (String, Option<Vec<u8>>) {
    match guarded(|| borsh::to_vec(v)) {
        Ok(Ok(bs)) => (format!("ok {}", hex(&bs)), Some(bs)),
        Ok(Err(e)) => (show_err(&e), None),
        Err(p) => (format!("panic {}", p.replace(' ', "_")), None),
    }
}

fn conv<T>(r: Result<borsh::io::Result<T>, String>) -> Result<Result<T, String>, String> {
    r.map(|x| x.map_err(|e| show_err(&e)))
}

/// observation of a whole-input decode: `ok <canon>` | `err k m` | `panic ..`
pub fn fs_obs<T: Full>(bs: &[u8]) -> (String, Option<T>) {
    match conv(guarded(|| borsh::from_slice::<T>(bs))) {
        Ok(Ok(v)) => (format!("ok {}", canon_of(&v)), Some(v)),
        Ok(Err(e)) => (e, None),
        Err(p) => (format!("panic {}", p.replace(' ', "_")), None),
    }
}

// ------------------------------------------------------------------ C01

/// round trip through all six entry points
pub fn c01<T: Full>(g: &mut Gen, b: &Budget, out: &mut Sink) {
    let ty = T::ty();
    for _ in 0..b.values {
        let v = T::gen(g, 0);
        let case = format!("rt {} {} {}", MODE, ty, val_of(&v));
        let (eo, bs) = enc_obs(&v);
        let Some(bs) = bs else {
            out.case(&case, &format!("enc{}", eo));
            continue;
        };
        let want = canon_of(&v);
        let (o1, _) = fs_obs::<T>(&bs);
        out.case(&case, &o1);
        out.oracle("C01", o1 == format!("ok {}", want), &case, &format!("from_slice gave {} want ok {}", o1, want));
        // the other five entry points must agree with from_slice
        let o2 = match conv(guarded(|| T::try_from_slice(&bs))) {
            Ok(Ok(v)) => format!("ok {}", canon_of(&v)),
            Ok(Err(e)) => e,
            Err(p) => format!("panic {}", p),
        };
        let o3 = match conv(guarded(|| {
            let mut s = &bs[..];
            T::deserialize(&mut s).map(|v| (v, s.len()))
        })) {
            Ok(Ok((v, rest))) => {
                if rest == 0 {
                    format!("ok {}", canon_of(&v))
                } else {
                    format!("ok {} rest={}", canon_of(&v), rest)
                }
            }
            Ok(Err(e)) => e,
            Err(p) => format!("panic {}", p),
        };
        let o4 = match conv(guarded(|| {
            let mut s = &bs[..];
            T::deserialize_reader(&mut s).map(|v| (v, s.len()))
        })) {
            Ok(Ok((v, rest))) => {
                if rest == 0 {
                    format!("ok {}", canon_of(&v))
                } else {
                    format!("ok {} rest={}", canon_of(&v), rest)
                }
            }
            Ok(Err(e)) => e,
            Err(p) => format!("panic {}", p),
        };
        let o5 = match conv(guarded(|| {
            let mut s = &bs[..];
            T::try_from_reader(&mut s)
        })) {
            Ok(Ok(v)) => format!("ok {}", canon_of(&v)),
            Ok(Err(e)) => e,
            Err(p) => format!("panic {}", p),
        };
        let o6 = match conv(guarded(|| {
            let mut s = &bs[..];
            borsh::from_reader::<_, T>(&mut s)
        })) {
            Ok(Ok(v)) => format!("ok {}", canon_of(&v)),
            Ok(Err(e)) => e,
            Err(p) => format!("panic {}", p),
        };
        let all = [&o2, &o3, &o4, &o5, &o6];
        let names = ["try_from_slice", "deserialize", "deserialize_reader", "try_from_reader", "from_reader"];
        for (o, n) in all.iter().zip(names.iter()) {
            out.oracle("C01", **o == o1, &case, &format!("{} gave {} but from_slice gave {}", n, o, o1));
        }
    }
}

// ------------------------------------------------------------------ C02

pub fn c02<T: Full>(g: &mut Gen, b: &Budget, out: &mut Sink) {
    let ty = T::ty();
    for _ in 0..b.values {
        let v = T::gen(g, 0);
        let case = format!("enc {} {}", ty, val_of(&v));
        let (eo, bs) = enc_obs(&v);
        out.case(&case, &eo);
        // the same value against the specification function
        out.case(&format!("spec {} {}", ty, val_of(&v)), &eo);
        // to_writer into a Vec gives the same bytes as to_vec
        if let Some(bs) = bs {
            let mut w: Vec<u8> = Vec::new();
            let r = guarded(|| borsh::to_writer(&mut w, &v));
            out.oracle("C02", matches!(r, Ok(Ok(()))) && w == bs, &case, "to_writer differs from to_vec");
        }
    }
}

/// lengths that do not fit `u32` are refused (lazily zeroed memory: nothing is touched)
pub fn c02_too_long(out: &mut Sink) {
    let big: Vec<u8> = vec![0u8; 1usize << 32];
    let (eo, _) = enc_obs(&big);
    out.oracle("C02", eo == "err invalidData simple", "enc (seq vec u8) <2^32 zero bytes>", &eo);
    let ol = guarded(|| borsh::object_length(&big));
    out.oracle("C02", matches!(ol, Ok(Err(_))), "object_length (seq vec u8) <2^32 zero bytes>", "accepted");
    let s = unsafe { String::from_utf8_unchecked(big) };
    let (eo, _) = enc_obs(&s);
    out.oracle("C02", eo == "err invalidData simple", "enc (str string) <2^32 zero bytes>", &eo);
    let mut big = s.into_bytes();
    big.truncate((1usize << 32) - 1);
    let ol = guarded(|| borsh::object_length(&big));
    out.oracle(
        "C02",
        matches!(ol, Ok(Ok(n)) if n == (1usize << 32) + 3),
        "object_length (seq vec u8) <2^32-1 zero bytes>",
        &format!("{:?}", ol.map(|r| r.map_err(|e| e.to_string()))),
    );
}

/// a `RefCell` that is mutably borrowed while it is serialized: an error of kind `Other`, nothing
/// written, never a panic (the borrow flag is run-time state the value model does not carry, so this
/// is an oracle on the implementation only)
pub fn c02_refcell_borrowed(out: &mut Sink) {
    use std::cell::RefCell;
    let cell = RefCell::new((7u32, String::from("held")));
    let guard = cell.borrow_mut();
    let mut sink: Vec<u8> = Vec::new();
    let r = guarded(|| borsh::to_writer(&mut sink, &cell));
    let case = "enc (wrap refCell (tuple u32 (str string))) <mutably borrowed>";
    let ok = match &r {
        Ok(Err(e)) => e.kind() == borsh::io::ErrorKind::Other && e.to_string() == "already mutably borrowed",
        _ => false,
    };
    out.oracle("C02", ok && sink.is_empty(), case,
               &format!("{:?}, {} bytes written", r.as_ref().map(|x| x.as_ref().map_err(|e| e.to_string())), sink.len()));
    // inside a collection: the error surfaces unchanged and what was written is a prefix of the encoding
    let v = vec![RefCell::new(1u16), RefCell::new(2u16)];
    let g2 = v[1].borrow_mut();
    let mut sink2: Vec<u8> = Vec::new();
    let r2 = guarded(|| borsh::to_writer(&mut sink2, &v));
    out.oracle("C02", matches!(&r2, Ok(Err(e)) if e.kind() == borsh::io::ErrorKind::Other) && sink2 == [2u8, 0, 0, 0, 1, 0],
               "enc (seq vec (wrap refCell u16)) <second element mutably borrowed>",
               &format!("{:?}, written {:?}", r2.as_ref().map(|x| x.as_ref().map_err(|e| e.to_string())), sink2));
    drop(g2);
    drop(guard);
    // released: serializes as the inner value
    let (e, _) = enc_obs(&cell);
    out.oracle("C02", e == enc_obs(&(7u32, String::from("held"))).0, case, "after release the cell encodes unlike its value");
}

// ------------------------------------------------------------------ C03

/// two representations of one logical value (same value seed, two shape seeds) encode identically;
/// every transparent wrapper around a reference to the value encodes like the value
pub fn c03<T: Full>(g: &mut Gen, b: &Budget, out: &mut Sink) {
    use std::borrow::Cow;
    use std::cell::{Cell, RefCell};
    use std::rc::Rc;
    use std::sync::Arc;
    let ty = T::ty();
    for i in 0..b.values {
        let vseed = g.next();
        crate::gen::set_shape_seed(vseed ^ 0x1111);
        let v1 = T::gen(&mut Gen::new(vseed), 0);
        crate::gen::set_shape_seed(vseed ^ 0x2222 ^ (i as u64) << 20);
        let v2 = T::gen(&mut Gen::new(vseed), 0);
        let (c1, c2) = (canon_of(&v1), canon_of(&v2));
        let case1 = format!("enc {} {}", ty, val_of(&v1));
        let case2 = format!("enc {} {}", ty, val_of(&v2));
        let (e1, b1) = enc_obs(&v1);
        let (e2, _) = enc_obs(&v2);
        out.case(&case1, &e1);
        out.case(&case2, &e2);
        if c1 == c2 {
            out.oracle("C03", e1 == e2, &case1, &format!("equal logical value {} encodes differently: {} vs {}", case2, e1, e2));
        }
        // repeated serialization of the same value
        let (e1b, _) = enc_obs(&v1);
        out.oracle("C03", e1 == e1b, &case1, "second serialization differs");
        // transparent wrappers
        if b1.is_some() {
            let r = &v1;
            let w: [(&str, String); 7] = [
                ("&&T", enc_obs(&&r).0),
                ("Box<&T>", enc_obs(&Box::new(r)).0),
                ("Rc<&T>", enc_obs(&Rc::new(r)).0),
                ("Arc<&T>", enc_obs(&Arc::new(r)).0),
                ("Cell<&T>", enc_obs(&Cell::new(r)).0),
                ("RefCell<&T>", enc_obs(&RefCell::new(r)).0),
                ("Cow<&T>", enc_obs(&Cow::Borrowed(&r)).0),
            ];
            for (n, e) in w.iter() {
                out.oracle("C03", *e == e1, &case1, &format!("wrapper {} encodes as {} but the value as {}", n, e, e1));
            }
        }
    }
}

/// the bulk (`u8`) write path against the generic element loop, on the same byte sequence and
/// for every length up to 300 plus the sizes at which writers change strategy
pub fn c03_fastpath(g: &mut Gen, thorough: bool, out: &mut Sink) {
    use std::collections::{LinkedList, VecDeque};
    let mut lens: Vec<usize> = (0..=300).collect();
    lens.extend([511usize, 512, 513, 1023, 1024, 1025, 4091, 4092, 4093, 4095, 4096, 4097, 8191, 8192, 8193,
                 65531, 65532, 65533, 65535, 65536, 65537]);
    if thorough {
        lens.extend(301..=1100);
        lens.extend([(1 << 20) - 4, (1 << 20) - 3, 1 << 20, (1 << 20) + 1]);
    }
    for n in lens {
        let bytes: Vec<u8> = g.bytes(n);
        // the specification of the generic path: the count, then every element's own encoding
        let mut generic: Vec<u8> = (n as u32).to_le_bytes().to_vec();
        for b in &bytes {
            generic.extend(borsh::to_vec(b).unwrap());
        }
        let want = format!("ok {}", hex(&generic));
        let case = format!("enc (seq vec u8) {}", val_of(&bytes));
        let (e, _) = enc_obs(&bytes);
        out.case(&case, &e);
        out.oracle("C03", e == want, &case, &format!("Vec<u8> of {} bytes: bulk path differs from the element loop", n));
        let alts: Vec<(&str, String)> = vec![
            ("[u8]", enc_obs(&&bytes[..]).0),
            ("Box<[u8]>", enc_obs(&bytes.clone().into_boxed_slice()).0),
            ("Cow<[u8]>", enc_obs(&std::borrow::Cow::<[u8]>::Borrowed(&bytes[..])).0),
            ("Rc<[u8]>", enc_obs(&std::rc::Rc::<[u8]>::from(&bytes[..])).0),
            ("VecDeque<u8>", enc_obs(&bytes.iter().copied().collect::<VecDeque<u8>>()).0),
            ("LinkedList<u8>", enc_obs(&bytes.iter().copied().collect::<LinkedList<u8>>()).0),
            ("Vec<i8>", enc_obs(&bytes.iter().map(|b| *b as i8).collect::<Vec<i8>>()).0),
        ];
        for (name, a) in alts {
            out.oracle("C03", a == want, &case, &format!("{} of {} bytes encodes differently from the element loop", name, n));
        }
        // text: same rule for str / String / Box<str>
        let text: String = bytes.iter().map(|b| (b'a' + b % 26) as char).collect();
        let mut tgen: Vec<u8> = (n as u32).to_le_bytes().to_vec();
        tgen.extend(text.as_bytes());
        let twant = format!("ok {}", hex(&tgen));
        for (name, a) in [("String", enc_obs(&text).0), ("str", enc_obs(&text.as_str()).0),
                          ("Box<str>", enc_obs(&text.clone().into_boxed_str()).0)] {
            out.oracle("C03", a == twant, &format!("enc (str string) {}", hex(text.as_bytes())),
                       &format!("{} of {} bytes: prefix + bytes expected", name, n));
        }
    }
}

// ------------------------------------------------------------------ C04 / C16: malformed input

/// mutations of a valid encoding
pub fn mutations(g: &mut Gen, bs: &[u8], thorough: bool) -> Vec<Vec<u8>> {
    let mut out: Vec<Vec<u8>> = Vec::new();
    let n = bs.len();
    out.push(bs.to_vec());
    // truncations
    let max_trunc = if n > 2048 { 4 } else if thorough { 64 } else { 12 };
    if n <= max_trunc {
        for k in 0..n {
            out.push(bs[..k].to_vec());
        }
    } else {
        for _ in 0..max_trunc {
            let k = g.below(n as u64) as usize;
            out.push(bs[..k].to_vec());
        }
        out.push(bs[..n - 1].to_vec());
        out.push(Vec::new());
        // cut points around the sizes at which decoders change strategy
        for c in [255usize, 256, 260, 1024, 1028, 4095, 4096, 4097, 4099, 4100, 4101, 4104, 8192, 8196, 8200, 65536, 65540] {
            if c < n {
                out.push(bs[..c].to_vec());
            }
        }
    }
    // tails
    for t in [&[0u8][..], &[1u8, 2u8][..]] {
        let mut x = bs.to_vec();
        x.extend_from_slice(t);
        out.push(x);
    }
    // single byte set to {2, 255, 0, 1, 128}
    let max_pos = if n > 2048 { 2 } else if thorough { 48 } else { 10 };
    let positions: Vec<usize> = if n <= max_pos {
        (0..n).collect()
    } else {
        (0..max_pos).map(|_| g.below(n as u64) as usize).collect()
    };
    for &p in &positions {
        for val in [2u8, 255u8, 0u8, 1u8, 128u8] {
            if bs[p] != val {
                let mut x = bs.to_vec();
                x[p] = val;
                out.push(x);
            }
        }
        // +1 / -1
        let mut x = bs.to_vec();
        x[p] = x[p].wrapping_add(1);
        out.push(x);
    }
    // FF FF FF FF over 4-byte windows
    if n >= 4 {
        let wins: Vec<usize> = if n - 3 <= max_pos {
            (0..n - 3).collect()
        } else {
            (0..max_pos).map(|_| g.below((n - 3) as u64) as usize).collect()
        };
        for &p in &wins {
            let mut x = bs.to_vec();
            for i in 0..4 {
                x[p + i] = 0xff;
            }
            out.push(x);
        }
    }
    // swap two adjacent equal-width blocks (unsorts / duplicates map and set entries)
    for w in [1usize, 2, 4, 5, 8] {
        if n >= 4 + 2 * w {
            let mut x = bs.to_vec();
            for i in 0..w {
                x.swap(4 + i, 4 + w + i);
            }
            out.push(x);
            let mut y = bs.to_vec();
            for i in 0..w {
                y[4 + w + i] = y[4 + i];
            }
            out.push(y);
        }
    }
    // random strings
    for _ in 0..(if thorough { 12 } else { 4 }) {
        let len = g.below(if n < 8 { 12 } else { 2 * n as u64 }) as usize;
        out.push(g.bytes(len));
    }
    out
}

fn malformed_one<T: Full>(case_bytes: &[u8], out: &mut Sink, index_coll: bool) {
    let ty = T::ty();
    let case = format!("fs {} {} {}", MODE, ty, hex(case_bytes));
    let (o, v) = fs_obs::<T>(case_bytes);
    out.case(&case, &o);
    // C16: a failing decode from memory is always InvalidData
    if o.starts_with("err ") {
        out.oracle("C16", o.starts_with("err invalidData "), &case, &o);
    }
    out.oracle("C07", !o.starts_with("panic"), &case, &o);
    if let Some(v) = v {
        // C04: what was accepted re-encodes (strict: to the very same bytes)
        let (eo, bs2) = enc_obs(&v);
        match bs2 {
            None => out.oracle("C04", false, &case, &format!("accepted value does not re-encode: {}", eo)),
            Some(bs2) => {
                if MODE == "strict" {
                    let _ = index_coll;
                    out.oracle("C04", bs2 == case_bytes, &case, &format!("re-encodes to {}", hex(&bs2)));
                }
                let (o2, _) = fs_obs::<T>(&bs2);
                out.oracle("C04", o2 == o, &case, &format!("decode(encode(decode(x))) = {} but decode(x) = {}", o2, o));
            }
        }
    }
    // try_from_slice agrees with from_slice
    let o2 = match conv(guarded(|| T::try_from_slice(case_bytes))) {
        Ok(Ok(v)) => format!("ok {}", canon_of(&v)),
        Ok(Err(e)) => e,
        Err(p) => format!("panic {}", p.replace(' ', "_")),
    };
    out.oracle("C04", o2 == o, &case, &format!("try_from_slice gave {} from_slice gave {}", o2, o));
}

pub fn c04<T: Full>(g: &mut Gen, b: &Budget, out: &mut Sink) {
    let index_coll = T::ty().contains("index");
    let nvals = (b.values / 3).max(2);
    let bigs: &[usize] = if b.thorough { &[257, 4096, 4097, 8193] } else { &[4097] };
    for i in 0..nvals + bigs.len() {
        if i >= nvals {
            crate::gen::force_big(Some(bigs[i - nvals]));
        }
        let v = T::gen(g, 0);
        crate::gen::force_big(None);
        let (_, bs) = enc_obs(&v);
        let Some(bs) = bs else { continue };
        if bs.len() > (if i >= nvals { 40_000 } else { 400_000 }) {
            continue;
        }
        for m in mutations(g, &bs, b.thorough) {
            malformed_one::<T>(&m, out, index_coll);
        }
    }
}

/// bounded-exhaustive: every string of length <= 2 over the full alphabet is too many per type;
/// all strings of length <= `len` over a small alphabet
/// committed corpus: minimised past failures and the witnesses of the known findings, run first
pub fn c04_corpus(out: &mut Sink) {
    malformed_one::<indexmap::IndexSet<u8>>(&[2, 0, 0, 0, 5, 5], out, true);
    malformed_one::<indexmap::IndexMap<u8, u8>>(&[2, 0, 0, 0, 5, 1, 5, 2], out, true);
    malformed_one::<std::collections::BTreeSet<u8>>(&[2, 0, 0, 0, 5, 5], out, false);
    malformed_one::<std::collections::BTreeSet<u8>>(&[2, 0, 0, 0, 6, 5], out, false);
    malformed_one::<std::collections::BTreeMap<u8, u8>>(&[2, 0, 0, 0, 5, 1, 5, 2], out, false);
    malformed_one::<HashSet<u8>>(&[2, 0, 0, 0, 5, 5], out, false);
    malformed_one::<HashMap<u8, u8>>(&[2, 0, 0, 0, 6, 1, 5, 2], out, false);
}

pub fn c04_exhaustive<T: Full>(len: usize, alphabet: &[u8], out: &mut Sink) {
    let index_coll = T::ty().contains("index");
    let mut cur: Vec<u8> = Vec::new();
    fn rec<T: Full>(cur: &mut Vec<u8>, len: usize, alphabet: &[u8], out: &mut Sink, ic: bool) {
        malformed_one::<T>(cur, out, ic);
        if cur.len() < len {
            for &a in alphabet {
                cur.push(a);
                rec::<T>(cur, len, alphabet, out, ic);
                cur.pop();
            }
        }
    }
    rec::<T>(&mut cur, len, alphabet, out, index_coll);
}

// ------------------------------------------------------------------ C05

pub fn c05<T: Full>(g: &mut Gen, b: &Budget, out: &mut Sink) {
    let ty = T::ty();
    for _ in 0..(b.values / 2).max(2) {
        let v = T::gen(g, 0);
        let (_, bs) = enc_obs(&v);
        let Some(bs) = bs else { continue };
        if bs.len() > 4096 {
            continue;
        }
        let want = canon_of(&v);
        // value followed by a tail: `deserialize` leaves exactly the tail
        for tail_len in [0usize, 1, 2, 7] {
            let mut x = bs.clone();
            x.extend(g.bytes(tail_len));
            let case = format!("dec {} {} {}", MODE, ty, hex(&x));
            let o = match conv(guarded(|| {
                let mut s = &x[..];
                T::deserialize(&mut s).map(|v| (v, s.len()))
            })) {
                Ok(Ok((v, rest))) => format!("ok {} rest={}", canon_of(&v), rest),
                Ok(Err(e)) => e,
                Err(p) => format!("panic {}", p.replace(' ', "_")),
            };
            out.case(&case, &o);
            out.oracle("C05", o == format!("ok {} rest={}", want, tail_len), &case, &o);
            if tail_len > 0 {
                // whole-input entry points reject the leftover
                let (o2, _) = fs_obs::<T>(&x);
                out.oracle("C05", o2 == "err invalidData notAllBytesRead", &case, &format!("from_slice with tail gave {}", o2));
                let o3 = match conv(guarded(|| {
                    let mut s = &x[..];
                    T::try_from_reader(&mut s)
                })) {
                    Ok(Ok(_)) => "ok".to_string(),
                    Ok(Err(e)) => e,
                    Err(p) => format!("panic {}", p),
                };
                out.oracle("C05", o3 == "err invalidData notAllBytesRead", &case, &format!("try_from_reader with tail gave {}", o3));
            }
        }
        // every proper prefix is rejected by every entry point
        let cuts: Vec<usize> = if bs.len() <= 24 || b.thorough {
            (0..bs.len()).collect()
        } else {
            let mut c: Vec<usize> = (0..8).map(|_| g.below(bs.len() as u64) as usize).collect();
            c.push(bs.len() - 1);
            c.push(0);
            c
        };
        for k in cuts {
            let p = &bs[..k];
            let case = format!("fs {} {} {}", MODE, ty, hex(p));
            let (o, _) = fs_obs::<T>(p);
            out.case(&case, &o);
            out.oracle("C05", !o.starts_with("ok"), &case, &format!("proper prefix accepted: {}", o));
            let o2 = match conv(guarded(|| {
                let mut s = p;
                T::deserialize(&mut s).map(|_| ())
            })) {
                Ok(Ok(())) => "ok".to_string(),
                Ok(Err(e)) => e,
                Err(pn) => format!("panic {}", pn),
            };
            out.oracle("C05", !o2.starts_with("ok"), &case, &format!("proper prefix accepted by deserialize: {}", o2));
        }
        // prefixes of encodings too large to build: the element count of a top-level sequence or string
        // raised to N > n while only n elements follow is a proper prefix of the encoding of some
        // N-element value, so it must be rejected - also when N * size_of::<T>() wraps around 2^32
        if (ty.starts_with("(seq ") || ty.starts_with("(str ")) && !ty.starts_with("(seq indexSet") && bs.len() >= 4 {
            let n = u32::from_le_bytes([bs[0], bs[1], bs[2], bs[3]]) as u64;
            let mut claims: Vec<u64> = vec![n + 1, 2 * n + 1, 0xffff_ffff];
            for sh in [28u32, 29, 30, 31] {
                claims.push(n + (1u64 << sh));
                claims.push(n + (1u64 << sh) + (1u64 << 31));
                claims.push(n + 3 * (1u64 << sh));
            }
            for big in claims {
                if big <= n || big > 0xffff_ffff {
                    continue;
                }
                let mut x = bs.clone();
                x[..4].copy_from_slice(&(big as u32).to_le_bytes());
                let case = format!("fs {} {} {}", MODE, ty, hex(&x));
                let (o, _) = fs_obs::<T>(&x);
                out.case(&case, &o);
                out.oracle("C05", !o.starts_with("ok"), &case,
                           &format!("a proper prefix of a {}-element encoding ({} elements present) was accepted: {}", big, n, o));
                let o2 = match conv(guarded(|| {
                    let mut sl = &x[..];
                    T::deserialize(&mut sl).map(|_| ())
                })) {
                    Ok(Ok(())) => "ok".to_string(),
                    Ok(Err(e)) => e,
                    Err(pn) => format!("panic {}", pn),
                };
                out.oracle("C05", !o2.starts_with("ok"), &case, &format!("the same prefix accepted by deserialize: {}", o2));
            }
        }
    }
}

// ------------------------------------------------------------------ C14

pub struct CountingReader<'a> {
    pub data: &'a [u8],
    pub pulled: usize,
    pub calls: usize,
}
impl<'a> borsh::io::Read for CountingReader<'a> {
    fn read(&mut self, buf: &mut [u8]) -> borsh::io::Result<usize> {
        self.calls += 1;
        let n = buf.len().min(self.data.len());
        buf[..n].copy_from_slice(&self.data[..n]);
        self.data = &self.data[n..];
        self.pulled += n;
        Ok(n)
    }
}
pub struct CountingWriter {
    pub written: Vec<u8>,
    pub calls: usize,
}
impl borsh::io::Write for CountingWriter {
    fn write(&mut self, buf: &[u8]) -> borsh::io::Result<usize> {
        self.calls += 1;
        self.written.extend_from_slice(buf);
        Ok(buf.len())
    }
    fn flush(&mut self) -> borsh::io::Result<()> {
        Ok(())
    }
}

/// a collection whose element (or key) type occupies no memory: refused both ways, before
/// anything is read or written
pub fn c14<T: Full>(g: &mut Gen, b: &Budget, out: &mut Sink) {
    let ty = T::ty();
    const ZST: &str = "err invalidData zst";
    for _ in 0..b.values.min(6) {
        let v = T::gen(g, 0);
        let case = format!("enc {} {}", ty, val_of(&v));
        let (eo, _) = enc_obs(&v);
        out.case(&case, &eo);
        out.oracle("C14", eo == ZST, &case, &eo);
        let mut w = CountingWriter { written: Vec::new(), calls: 0 };
        let r = guarded(|| borsh::to_writer(&mut w, &v));
        out.oracle("C14", matches!(r, Ok(Err(_))) && w.written.is_empty(), &case,
                   &format!("{} bytes reached the writer before the refusal", w.written.len()));
    }
    let mut inputs: Vec<Vec<u8>> = vec![
        vec![],
        vec![0, 0, 0, 0],
        vec![1, 0, 0, 0],
        vec![2, 0, 0, 0, 0, 0],
        vec![0xff, 0xff, 0xff, 0xff],
        vec![0xff, 0xff, 0xff, 0xff, 1, 2, 3],
    ];
    for _ in 0..4 {
        let n = g.below(12) as usize;
        inputs.push(g.bytes(n));
    }
    for inp in inputs {
        let case = format!("fs {} {} {}", MODE, ty, hex(&inp));
        let (o, _) = fs_obs::<T>(&inp);
        out.case(&case, &o);
        out.oracle("C14", o == ZST, &case, &o);
        let mut r = CountingReader { data: &inp, pulled: 0, calls: 0 };
        let res = guarded(|| T::deserialize_reader(&mut r));
        out.oracle("C14", matches!(res, Ok(Err(_))) && r.calls == 0, &case,
                   &format!("{} read calls ({} bytes) before the refusal", r.calls, r.pulled));
    }
}

/// byte sequences beyond the 1 MiB initial allocation of the bulk read, followed by more data:
/// the decoder must stop exactly at the end of the value
pub fn large_bytes(g: &mut Gen, thorough: bool, out: &mut Sink) {
    let sizes: Vec<usize> = if thorough {
        vec![(1 << 20) - 1, 1 << 20, (1 << 20) + 1, 3 << 19, (1 << 21) + 5, 3 << 20]
    } else {
        vec![(1 << 20) + 1, 3 << 19]
    };
    for n in sizes {
        let payload: Vec<u8> = (0..n).map(|i| b'a' + ((i * 7 + n) % 26) as u8).collect();
        let text = String::from_utf8(payload).unwrap();
        let (_, bs) = enc_obs(&text);
        let Some(bs) = bs else { continue };
        let tail_len = 1 + g.below(5) as usize;
        let mut x = bs.clone();
        x.extend(g.bytes(tail_len));
        let case = format!("dec {} (str string) {}", MODE, hex(&x));
        let o = match conv(guarded(|| {
            let mut s = &x[..];
            String::deserialize(&mut s).map(|v| (v, s.len()))
        })) {
            Ok(Ok((v, rest))) => format!("ok {} rest={}", canon_of(&v), rest),
            Ok(Err(e)) => e,
            Err(p) => format!("panic {}", p.replace(' ', "_")),
        };
        out.case(&case, &o);
        out.oracle("C05", o.ends_with(&format!("rest={}", tail_len)) && o.starts_with("ok "), &case,
                   &format!("a {} byte string followed by {} bytes: {}", n, tail_len, &o[..o.len().min(60)]));
        // truncated inside the payload, in the first chunk and after it: the unexpected-length error
        for cut in [4 + 1000usize, 4 + (1 << 20), 4 + (1 << 20) + 1, bs.len() - 1] {
            if cut >= bs.len() {
                continue;
            }
            let y = &bs[..cut];
            let (o, _) = fs_obs::<String>(y);
            let case = format!("fs {} (str string) {}", MODE, hex(y));
            out.case(&case, &o);
            for label in ["C16", "C05"] {
                out.oracle(label, o == "err invalidData unexpectedLength", &case,
                           &format!("a {} byte string cut after {} bytes: {}", n, cut, o));
            }
            let (o2, _) = fs_obs::<(u8, Vec<u8>)>(&[&[7u8][..], y].concat());
            out.oracle("C16", o2 == "err invalidData unexpectedLength", &case,
                       &format!("the same cut inside (u8, Vec<u8>): {}", o2));
        }
        // the same value inside a tuple: what follows it must still decode
        let pair = (text.clone(), 0xA1B2C3D4u32, vec![1u8, 2, 3]);
        let (_, pb) = enc_obs(&pair);
        if let Some(pb) = pb {
            let (o1, _) = fs_obs::<(String, u32, Vec<u8>)>(&pb);
            let case = format!("fs {} (tuple (str string) u32 (seq vec u8)) {}", MODE, hex(&pb));
            out.case(&case, &o1);
            out.oracle("C01", o1 == format!("ok {}", canon_of(&pair)), &case, &o1[..o1.len().min(80)]);
        }
    }
}

// ------------------------------------------------------------------ C06

pub type VRun = fn(&mut Gen, &Budget, &mut Sink);

/// decoding a variant directly from its tag agrees with decoding the whole enum, for valid and
/// for unknown tags
pub fn c06_variant<T: Full + borsh::de::EnumExt>(g: &mut Gen, b: &Budget, out: &mut Sink) {
    let ty = T::ty();
    let mut inputs: Vec<Vec<u8>> = Vec::new();
    for _ in 0..b.values {
        let v = T::gen(g, 0);
        if let (_, Some(bs)) = enc_obs(&v) {
            inputs.push(bs);
        }
    }
    // every tag byte with a few payloads, so that unknown tags are met
    for tag in [0u8, 1, 2, 3, 7, 100, 199, 200, 254, 255] {
        let mut x = vec![tag];
        x.extend(g.bytes(6));
        inputs.push(x);
    }
    for bs in inputs {
        if bs.is_empty() {
            continue;
        }
        let case = format!("dec {} {} {}", MODE, ty, hex(&bs));
        let whole = match conv(guarded(|| {
            let mut s = &bs[..];
            T::deserialize(&mut s).map(|v| (v, s.len()))
        })) {
            Ok(Ok((v, rest))) => format!("ok {} rest={}", canon_of(&v), rest),
            Ok(Err(e)) => e,
            Err(p) => format!("panic {}", p.replace(' ', "_")),
        };
        out.case(&case, &whole);
        let direct = match conv(guarded(|| {
            let mut s = &bs[1..];
            T::deserialize_variant(&mut s, bs[0]).map(|v| (v, s.len()))
        })) {
            Ok(Ok((v, rest))) => format!("ok {} rest={}", canon_of(&v), rest),
            Ok(Err(e)) => e,
            Err(p) => format!("panic {}", p.replace(' ', "_")),
        };
        out.oracle("C06", direct == whole, &case, &format!("deserialize_variant gave {} but the whole enum {}", direct, whole));
    }
}

// ------------------------------------------------------------------ C07

/// hostile inputs under the counting allocator: no panic, no abort, allocation bounded by a
/// constant plus a multiple of the input length (a length prefix alone buys at most 1 MiB)
pub fn c07<T: Full>(g: &mut Gen, b: &Budget, out: &mut Sink) {
    let ty = T::ty();
    let size = std::mem::size_of::<T>();
    let mut inputs: Vec<Vec<u8>> = Vec::new();
    let nvals = (b.values / 3).max(2);
    // the last values are long enough to fill the first capped allocation (4096 bytes worth of
    // elements): a decoder that starts trusting the prefix *after* that is met too
    let bigs: &[usize] = if b.thorough { &[600, 4097, 9000] } else { &[4097] };
    for i in 0..nvals + bigs.len() {
        if i >= nvals {
            crate::gen::force_big(Some(bigs[i - nvals]));
        }
        let v = T::gen(g, 0);
        crate::gen::force_big(None);
        let Some(bs) = enc_obs(&v).1 else { continue };
        if bs.len() > 200_000 {
            continue;
        }
        if i >= nvals {
            // only the outermost length prefix (and a few others) is inflated for the long values
            for p in [0usize, 1, 4] {
                if bs.len() >= p + 4 {
                    for pat in [[0xffu8, 0xff, 0xff, 0xff], [0xff, 0xff, 0xff, 0x7f], [0x00, 0x00, 0x00, 0x01]] {
                        let mut x = bs.clone();
                        x[p..p + 4].copy_from_slice(&pat);
                        inputs.push(x);
                    }
                }
            }
            inputs.push(bs);
            continue;
        }
        // adversarial length prefixes at every 4-byte window (all of them for short encodings)
        let n = bs.len();
        let wins: Vec<usize> = if n >= 4 {
            // every window of short encodings; a sample (plus the first windows, where the outer
            // length prefixes live) of long ones — the number of inputs stays linear in the budget
            let all_upto = if b.thorough { 400 } else { 24 };
            if n - 3 <= all_upto {
                (0..n - 3).collect()
            } else {
                let k = if b.thorough { 64 } else { 12 };
                let mut w: Vec<usize> = (0..k).map(|_| g.below((n - 3) as u64) as usize).collect();
                if b.thorough {
                    w.extend(0..16);
                }
                w
            }
        } else {
            vec![]
        };
        for p in wins {
            for pat in [[0xffu8, 0xff, 0xff, 0xff], [0x00, 0x00, 0x00, 0x80], [0xff, 0xff, 0xff, 0x7f], [0x00, 0x00, 0x10, 0x00], [0x01, 0x00, 0x10, 0x00]] {
                let mut x = bs.clone();
                x[p..p + 4].copy_from_slice(&pat);
                inputs.push(x);
            }
        }
        inputs.push(bs);
    }
    for _ in 0..(if b.thorough { 24 } else { 6 }) {
        let n = g.below(48) as usize;
        let mut x = g.bytes(n);
        if n >= 4 && g.chance(1, 2) {
            x[0..4].copy_from_slice(&[0xff, 0xff, 0xff, 0xff]);
        }
        inputs.push(x);
    }
    for inp in inputs {
        let case = format!("fs {} {} {}", MODE, ty, hex(&inp));
        // the input is announced before it is decoded, so that an abort (allocation failure,
        // stack overflow) leaves the culprit on disk
        out.announce(&case);
        let ((o, _), m) = crate::alloc::measured(|| fs_obs::<T>(&inp));
        out.case(&case, &o);
        out.oracle("C07", !o.starts_with("panic"), &case, &o);
        let bound = (1usize << 20) + (1 << 16) + 4 * size + 160 * inp.len();
        out.oracle("C07", m.largest <= bound && m.peak <= 2 * bound, &case,
                   &format!("largest single allocation {} bytes, peak {} bytes for {} input bytes (bound {}, size_of {})",
                            m.largest, m.peak, inp.len(), bound, size));
    }
}

/// Sets and maps read from what a *sequence* writer produced: `Vec<T>` / `Vec<(K, V)>` encodings with
/// repeated and unsorted entries, followed by further bytes.  Without `de_strict_order` the set / map
/// decoder accepts them (the only additional inputs it accepts), consumes exactly the bytes of those
/// `len` entries, and returns the collected entries; with it, they are accepted only when strictly
/// ascending.  In both modes the bytes that follow are left alone.
pub fn lax_collections(g: &mut Gen, thorough: bool, out: &mut Sink) {
    fn front<C: Full>(x: &[u8]) -> String {
        match conv(guarded(|| {
            let mut s = x;
            C::deserialize(&mut s).map(|v| (v, s.len()))
        })) {
            Ok(Ok((v, rest))) => format!("ok {} rest={}", canon_of(&v), rest),
            Ok(Err(e)) => e,
            Err(p) => format!("panic {}", p.replace(' ', "_")),
        }
    }
    fn set_case<E: Full + Ord + Clone, C: Full>(es: Vec<E>, tail: Vec<u8>, out: &mut Sink) {
        let Some(mut x) = enc_obs(&es).1 else { return };
        x.extend_from_slice(&tail);
        let case = format!("dec {} {} {}", MODE, C::ty(), hex(&x));
        let o = front::<C>(&x);
        out.case(&case, &o);
        let strictly_ascending = es.windows(2).all(|w| w[0] < w[1]);
        let mut logical: Vec<E> = es.clone();
        logical.sort();
        logical.dedup();
        let mut want = String::new();
        want.push_str("(l");
        for e in &logical {
            want.push(' ');
            e.canon(&mut want);
        }
        want.push(')');
        let accepted = MODE == "lax" || strictly_ascending;
        let expect = if accepted { format!("ok {} rest={}", want, tail.len()) } else { "err invalidData keyOrder".to_string() };
        for label in ["C04", "C05"] {
            out.oracle(label, o == expect, &case,
                       &format!("{} entries as written by a sequence writer, {} byte(s) follow: got {} expected {}", es.len(), tail.len(), o, expect));
        }
        // the whole-input entry point on the same bytes
        let (o2, _) = fs_obs::<C>(&x);
        let expect2 = if !accepted { "err invalidData keyOrder".to_string() }
                      else if tail.is_empty() { format!("ok {}", want) } else { "err invalidData notAllBytesRead".to_string() };
        out.oracle("C05", o2 == expect2, &case, &format!("from_slice gave {} expected {}", o2, expect2));
    }
    use crate::dynty::{HashMap, HashSet};
    use std::collections::{BTreeMap, BTreeSet};
    let rounds = if thorough { 400 } else { 60 };
    for _ in 0..rounds {
        let n = g.below(6) as usize;
        let mut es: Vec<u8> = (0..n).map(|_| g.below(4) as u8 + if g.chance(1, 4) { 250 } else { 0 }).collect();
        if g.chance(1, 3) {
            es.sort();
        }
        let tl = g.below(4) as usize;
        let tail = g.bytes(tl);
        set_case::<u8, BTreeSet<u8>>(es.clone(), tail.clone(), out);
        set_case::<u8, HashSet<u8>>(es.clone(), tail.clone(), out);
        let ss: Vec<String> = es.iter().map(|b| "k".repeat((*b % 3) as usize)).collect();
        set_case::<String, BTreeSet<String>>(ss.clone(), tail.clone(), out);
        let ws: Vec<u16> = es.iter().map(|b| (*b as u16) * 257).collect();
        set_case::<u16, HashSet<u16>>(ws.clone(), tail.clone(), out);
        // maps: the last value of a repeated key wins
        let kvs: Vec<(u8, u16)> = es.iter().enumerate().map(|(i, k)| (*k, i as u16)).collect();
        let Some(mut x) = enc_obs(&kvs).1 else { continue };
        x.extend_from_slice(&tail);
        let asc = kvs.windows(2).all(|w| w[0].0 < w[1].0);
        let mut m: BTreeMap<u8, u16> = BTreeMap::new();
        for (k, v) in &kvs {
            m.insert(*k, *v);
        }
        let want = canon_of(&m);
        let accepted = MODE == "lax" || asc;
        let expect = if accepted { format!("ok {} rest={}", want, tail.len()) } else { "err invalidData keyOrder".to_string() };
        for (name, o) in [("btree", front::<BTreeMap<u8, u16>>(&x)), ("hash", front::<HashMap<u8, u16>>(&x))] {
            let case = format!("dec {} (map {} u8 u16) {}", MODE, name, hex(&x));
            out.case(&case, &o);
            for label in ["C04", "C05"] {
                out.oracle(label, o == expect, &case, &format!("map entries as written by a sequence writer: got {} expected {}", o, expect));
            }
        }
    }
}

/// one catalogue entry, type-erased
pub struct Entry {
    pub name: &'static str,
    pub ty: String,
    pub run: fn(&str, &mut Gen, &Budget, &mut Sink),
    /// generate a value: (val, canon, encoding)
    pub gen_enc: fn(&mut Gen) -> (String, String, Option<Vec<u8>>),
    /// decode one value from the front: canon or error; advances the slice
    pub dec_front: fn(&mut &[u8]) -> Result<String, String>,
}

pub fn run_prop<T: Full>(prop: &str, g: &mut Gen, b: &Budget, out: &mut Sink) {
    match prop {
        "C01" => c01::<T>(g, b, out),
        "C02" => c02::<T>(g, b, out),
        "C03" => c03::<T>(g, b, out),
        "C04" | "C16" => c04::<T>(g, b, out),
        "C07" => c07::<T>(g, b, out),
        "C05" => c05::<T>(g, b, out),
        "C14" => c14::<T>(g, b, out),
        "C11" => crate::script::c11::<T>(g, b, out),
        "C12" => crate::script::c12::<T>(g, b, out),
        _ => {}
    }
}

pub fn entry<T: Full>(name: &'static str) -> Entry {
    Entry {
        name,
        ty: T::ty(),
        run: run_prop::<T>,
        gen_enc: |g| {
            let v = T::gen(g, 0);
            let (_, bs) = enc_obs(&v);
            (val_of(&v), canon_of(&v), bs)
        },
        dec_front: |s| match guarded(|| T::deserialize(s)) {
            Ok(Ok(v)) => Ok(canon_of(&v)),
            Ok(Err(e)) => Err(show_err(&e)),
            Err(p) => Err(format!("panic {}", p.replace(' ', "_"))),
        },
    }
}

/// heterogeneous streams: values written back to back are read back in order
pub fn c05_streams(cat: &[Entry], g: &mut Gen, n: usize, out: &mut Sink) {
    for _ in 0..n {
        let k = 1 + g.below(6) as usize;
        let mut tys = Vec::new();
        let mut canons = Vec::new();
        let mut buf: Vec<u8> = Vec::new();
        let mut idxs = Vec::new();
        for _ in 0..k {
            let i = g.below(cat.len() as u64) as usize;
            let (_, canon, bs) = (cat[i].gen_enc)(g);
            let Some(bs) = bs else { continue };
            if bs.len() > 2048 {
                continue;
            }
            idxs.push(i);
            tys.push(cat[i].ty.clone());
            canons.push(canon);
            buf.extend(bs);
        }
        let tail = g.below(3) as usize;
        buf.extend(g.bytes(tail));
        let case = format!("stream {} ({}) {}", MODE, tys.join(" "), hex(&buf));
        let mut s = &buf[..];
        let mut got = Vec::new();
        let mut failed = None;
        for &i in &idxs {
            match (cat[i].dec_front)(&mut s) {
                Ok(c) => got.push(c),
                Err(e) => {
                    failed = Some(e);
                    break;
                }
            }
        }
        let o = match failed {
            Some(e) => e,
            None => format!("ok ({}) rest={}", got.join(" "), s.len()),
        };
        out.case(&case, &o);
        out.oracle("C05", o == format!("ok ({}) rest={}", canons.join(" "), tail), &case, &o);
    }
}
