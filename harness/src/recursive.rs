//! Recursive user types (lists, trees, mutually recursive structs) with the real derives.
//!
//! The model's universe is recursion-free; a recursive item is described as `(mu CAP Name body)`
//! with `(ref Name)` at the recursive occurrences, and the driver unfolds it to the depth the case
//! needs (value nesting depth, or input length + 2 for decoders; never beyond CAP).  Every theorem
//! about the universe holds for every unfolding; what these workloads tie is that the real recursive
//! type behaves as its unfolding does.
use crate::dynty::*;
use crate::gen::Gen;
use crate::ops::{entry, Entry};
use borsh::{BorshDeserialize, BorshSchema, BorshSerialize};
use std::cell::Cell;
use std::collections::BTreeMap;

/// description of a recursive item: `(mu cap Name body)` at the outermost occurrence, `(ref Name)` inside
fn rec_ty(flag: &'static std::thread::LocalKey<Cell<bool>>, name: &str, cap: u32, body: impl FnOnce() -> String) -> String {
    if flag.with(|f| f.get()) {
        return format!("(ref {})", name);
    }
    flag.with(|f| f.set(true));
    let b = body();
    flag.with(|f| f.set(false));
    format!("(mu {} {} {})", cap, name, b)
}

thread_local! {
    static IN_LIST: Cell<bool> = Cell::new(false);
    static IN_NODE: Cell<bool> = Cell::new(false);
    static IN_TREE: Cell<bool> = Cell::new(false);
    static IN_EXPR: Cell<bool> = Cell::new(false);
    static IN_A: Cell<bool> = Cell::new(false);
    static IN_B: Cell<bool> = Cell::new(false);
    static IN_DIR: Cell<bool> = Cell::new(false);
    static IN_CHAIN: Cell<bool> = Cell::new(false);
}

/// how deep generated values may nest (linear types); branching types stop much earlier
const LIN_DEPTH: u32 = 24;

// ---------------------------------------------------------------- enum List { Nil, Cons(u8, Box<List>) }

#[derive(BorshSerialize, BorshDeserialize, BorshSchema, Clone, Debug, PartialEq)]
pub enum List {
    Nil,
    Cons(u8, Box<List>),
}
impl Dyn for List {
    fn ty() -> String {
        rec_ty(&IN_LIST, "List", 400, || {
            format!("(sum (derivedsrc List 0 n) (Nil _) (Cons _ (_ 0 {}) (_ 0 {})))", <u8 as Dyn>::ty(), <Box<List> as Dyn>::ty())
        })
    }
    fn gen(g: &mut Gen, d: u32) -> Self {
        if d >= LIN_DEPTH || g.below(5) == 0 {
            List::Nil
        } else {
            List::Cons(Dyn::gen(g, d + 1), Box::new(List::gen(g, d + 1)))
        }
    }
    fn val(&self, o: &mut String) {
        match self {
            List::Nil => o.push_str("(v 0)"),
            List::Cons(a, b) => {
                o.push_str("(v 1 ");
                a.val(o);
                o.push(' ');
                b.val(o);
                o.push(')');
            }
        }
    }
}

// ---------------------------------------------------------------- struct Node { val, next: Option<Box<Node>> } with a skipped field

#[derive(BorshSerialize, BorshDeserialize, BorshSchema, Clone, Debug, PartialEq, Default)]
pub struct Node {
    pub val: u16,
    #[borsh(skip)]
    pub cache: u32,
    pub next: Option<Box<Node>>,
}
impl Dyn for Node {
    fn ty() -> String {
        rec_ty(&IN_NODE, "Node", 400, || {
            format!("(prod (struct Node 0) (val 0 {}) (cache 1 {}) (next 0 {}))", <u16 as Dyn>::ty(), <u32 as Dyn>::ty(), <Option<Box<Node>> as Dyn>::ty())
        })
    }
    fn gen(g: &mut Gen, d: u32) -> Self {
        let next = if d >= LIN_DEPTH || g.below(4) == 0 { None } else { Some(Box::new(Node::gen(g, d + 1))) };
        Node { val: Dyn::gen(g, d + 1), cache: Dyn::gen(g, d + 1), next }
    }
    fn val(&self, o: &mut String) {
        o.push_str("(l ");
        self.val.val(o);
        o.push(' ');
        self.cache.val(o);
        o.push(' ');
        self.next.val(o);
        o.push(')');
    }
    fn canon(&self, o: &mut String) {
        o.push_str("(l ");
        self.val.canon(o);
        o.push_str(" 0 ");
        self.next.canon(o);
        o.push(')');
    }
}

// ---------------------------------------------------------------- struct Tree { label: String, kids: Vec<Tree> }

#[derive(BorshSerialize, BorshDeserialize, BorshSchema, Clone, Debug, PartialEq)]
pub struct Tree {
    pub label: String,
    pub kids: Vec<Tree>,
}
impl Dyn for Tree {
    fn ty() -> String {
        rec_ty(&IN_TREE, "Tree", 400, || {
            format!("(prod (struct Tree 0) (label 0 {}) (kids 0 {}))", <String as Dyn>::ty(), <Vec<Tree> as Dyn>::ty())
        })
    }
    fn gen(g: &mut Gen, d: u32) -> Self {
        let n = if d >= 4 { 0 } else { g.below(4 - d as u64) as usize };
        let label: String = (0..g.below(3)).map(|_| (b'a' + g.below(26) as u8) as char).collect();
        Tree { label, kids: (0..n).map(|_| Tree::gen(g, d + 1)).collect() }
    }
    fn val(&self, o: &mut String) {
        o.push_str("(l ");
        self.label.val(o);
        o.push(' ');
        self.kids.val(o);
        o.push(')');
    }
}

// ---------------------------------------------------------------- enum Expr (two recursive occurrences in one variant)

#[derive(BorshSerialize, BorshDeserialize, BorshSchema, Clone, Debug, PartialEq)]
#[borsh(use_discriminant = true)]
#[repr(u8)]
pub enum Expr {
    Lit(i32) = 1,
    Neg(Box<Expr>) = 7,
    Add(Box<Expr>, Box<Expr>),
}
impl Dyn for Expr {
    fn ty() -> String {
        rec_ty(&IN_EXPR, "Expr", 6, || {
            format!(
                "(sum (derivedsrc Expr 0 1) (Lit 1 (_ 0 {})) (Neg 7 (_ 0 {})) (Add _ (_ 0 {}) (_ 0 {})))",
                <i32 as Dyn>::ty(), <Box<Expr> as Dyn>::ty(), <Box<Expr> as Dyn>::ty(), <Box<Expr> as Dyn>::ty()
            )
        })
    }
    fn gen(g: &mut Gen, d: u32) -> Self {
        match if d >= 4 { 0 } else { g.below(3) } {
            0 => Expr::Lit(Dyn::gen(g, d + 1)),
            1 => Expr::Neg(Box::new(Expr::gen(g, d + 1))),
            _ => Expr::Add(Box::new(Expr::gen(g, d + 1)), Box::new(Expr::gen(g, d + 1))),
        }
    }
    fn val(&self, o: &mut String) {
        match self {
            Expr::Lit(a) => {
                o.push_str("(v 0 ");
                a.val(o);
                o.push(')');
            }
            Expr::Neg(a) => {
                o.push_str("(v 1 ");
                a.val(o);
                o.push(')');
            }
            Expr::Add(a, b) => {
                o.push_str("(v 2 ");
                a.val(o);
                o.push(' ');
                b.val(o);
                o.push(')');
            }
        }
    }
}

// ---------------------------------------------------------------- mutually recursive structs

#[derive(BorshSerialize, BorshDeserialize, BorshSchema, Clone, Debug, PartialEq)]
pub struct A {
    pub id: u8,
    pub b: Option<Box<B>>,
}
#[derive(BorshSerialize, BorshDeserialize, BorshSchema, Clone, Debug, PartialEq)]
pub struct B {
    pub items: Vec<A>,
    pub tag: bool,
}
impl Dyn for A {
    fn ty() -> String {
        rec_ty(&IN_A, "A", 200, || format!("(prod (struct A 0) (id 0 {}) (b 0 {}))", <u8 as Dyn>::ty(), <Option<Box<B>> as Dyn>::ty()))
    }
    fn gen(g: &mut Gen, d: u32) -> Self {
        let b = if d >= 6 || g.below(3) == 0 { None } else { Some(Box::new(B::gen(g, d + 1))) };
        A { id: Dyn::gen(g, d + 1), b }
    }
    fn val(&self, o: &mut String) {
        o.push_str("(l ");
        self.id.val(o);
        o.push(' ');
        self.b.val(o);
        o.push(')');
    }
}
impl Dyn for B {
    fn ty() -> String {
        rec_ty(&IN_B, "B", 200, || format!("(prod (struct B 0) (items 0 {}) (tag 0 {}))", <Vec<A> as Dyn>::ty(), <bool as Dyn>::ty()))
    }
    fn gen(g: &mut Gen, d: u32) -> Self {
        let n = if d >= 6 { 0 } else { g.below(3) as usize };
        B { items: (0..n).map(|_| A::gen(g, d + 1)).collect(), tag: Dyn::gen(g, d + 1) }
    }
    fn val(&self, o: &mut String) {
        o.push_str("(l ");
        self.items.val(o);
        o.push(' ');
        self.tag.val(o);
        o.push(')');
    }
}

// ---------------------------------------------------------------- recursion through a map's values

#[derive(BorshSerialize, BorshDeserialize, BorshSchema, Clone, Debug, PartialEq)]
pub struct Dir {
    pub entries: BTreeMap<String, Dir>,
}
impl Dyn for Dir {
    fn ty() -> String {
        rec_ty(&IN_DIR, "Dir", 200, || format!("(prod (struct Dir 0) (entries 0 {}))", <BTreeMap<String, Dir> as Dyn>::ty()))
    }
    fn gen(g: &mut Gen, d: u32) -> Self {
        let n = if d >= 4 { 0 } else { g.below(3) as usize };
        let mut entries = BTreeMap::new();
        for i in 0..n {
            let name: String = (0..1 + g.below(2)).map(|_| (b'a' + g.below(4) as u8) as char).chain(std::iter::once((b'0' + i as u8) as char)).collect();
            entries.insert(name, Dir::gen(g, d + 1));
        }
        Dir { entries }
    }
    fn val(&self, o: &mut String) {
        o.push_str("(l ");
        self.entries.val(o);
        o.push(')');
    }
    fn canon(&self, o: &mut String) {
        o.push_str("(l ");
        self.entries.canon(o);
        o.push(')');
    }
}

// ---------------------------------------------------------------- a generic recursive item, instantiated

// (`Box<U>: BorshDeserialize` goes through `U: ToOwned`, i.e. `Clone`: a generic recursive item has
// to say so with an explicit bound)
#[derive(BorshSerialize, BorshDeserialize, BorshSchema, Clone, Debug, PartialEq)]
pub struct Chain<T> {
    pub head: T,
    #[borsh(bound(deserialize = "T: borsh::BorshDeserialize + Clone"))]
    pub rest: Option<Box<Chain<T>>>,
}
impl Dyn for Chain<u16> {
    fn ty() -> String {
        rec_ty(&IN_CHAIN, "Chain<u16>", 400, || {
            format!("(prod (struct Chain<u16> 0) (head 0 {}) (rest 0 {}))", <u16 as Dyn>::ty(), <Option<Box<Chain<u16>>> as Dyn>::ty())
        })
    }
    fn gen(g: &mut Gen, d: u32) -> Self {
        let rest = if d >= LIN_DEPTH || g.below(4) == 0 { None } else { Some(Box::new(Self::gen(g, d + 1))) };
        Chain { head: Dyn::gen(g, d + 1), rest }
    }
    fn val(&self, o: &mut String) {
        o.push_str("(l ");
        self.head.val(o);
        o.push(' ');
        self.rest.val(o);
        o.push(')');
    }
}

// ---------------------------------------------------------------- generic enums whose variants do not use every parameter
// (finding F10: the schema derive did not compile for them)

#[derive(BorshSerialize, BorshDeserialize, BorshSchema, Clone, Debug, PartialEq)]
pub enum Marked<T> {
    Tag(std::marker::PhantomData<T>),
    Num(u8),
    Both { m: std::marker::PhantomData<T>, n: u16 },
}
impl Dyn for Marked<String> {
    fn ty() -> String {
        format!(
            "(sum (derivedsrc Marked 0 n) (Tag _ (_ 0 {})) (Num _ (_ 0 {})) (Both _ (m 0 {}) (n 0 {})))",
            <std::marker::PhantomData<u64> as Dyn>::ty(), <u8 as Dyn>::ty(), <std::marker::PhantomData<u64> as Dyn>::ty(), <u16 as Dyn>::ty()
        )
    }
    fn gen(g: &mut Gen, d: u32) -> Self {
        match g.below(3) {
            0 => Marked::Tag(std::marker::PhantomData),
            1 => Marked::Num(Dyn::gen(g, d + 1)),
            _ => Marked::Both { m: std::marker::PhantomData, n: Dyn::gen(g, d + 1) },
        }
    }
    fn val(&self, o: &mut String) {
        match self {
            Marked::Tag(_) => o.push_str("(v 0 (l))"),
            Marked::Num(a) => {
                o.push_str("(v 1 ");
                a.val(o);
                o.push(')');
            }
            Marked::Both { n, .. } => {
                o.push_str("(v 2 (l) ");
                n.val(o);
                o.push(')');
            }
        }
    }
}

#[derive(BorshSerialize, BorshDeserialize, BorshSchema, Clone, Debug, PartialEq)]
pub enum Msg<'a> {
    Text(std::borrow::Cow<'a, str>),
    Ping,
    Code(u32),
}
impl Dyn for Msg<'static> {
    fn ty() -> String {
        format!("(sum (derivedsrc Msg 0 n) (Text _ (_ 0 {})) (Ping _) (Code _ (_ 0 {})))", <std::borrow::Cow<'static, str> as Dyn>::ty(), <u32 as Dyn>::ty())
    }
    fn gen(g: &mut Gen, d: u32) -> Self {
        match g.below(3) {
            0 => Msg::Text(Dyn::gen(g, d + 1)),
            1 => Msg::Ping,
            _ => Msg::Code(Dyn::gen(g, d + 1)),
        }
    }
    fn val(&self, o: &mut String) {
        match self {
            Msg::Text(a) => {
                o.push_str("(v 0 ");
                a.val(o);
                o.push(')');
            }
            Msg::Ping => o.push_str("(v 1)"),
            Msg::Code(a) => {
                o.push_str("(v 2 ");
                a.val(o);
                o.push(')');
            }
        }
    }
}

/// (entry, the description unfolds linearly in the depth)
pub fn recursive_catalogue() -> Vec<(Entry, bool)> {
    vec![
        (entry::<List>("List"), true),
        (entry::<Node>("Node"), true),
        (entry::<Tree>("Tree"), true),
        (entry::<A>("A"), true),
        (entry::<B>("B"), true),
        (entry::<Dir>("Dir"), true),
        (entry::<Chain<u16>>("Chain<u16>"), true),
        (entry::<Vec<List>>("Vec<List>"), true),
        (entry::<(Node, Option<List>)>("(Node, Option<List>)"), true),
        (entry::<Expr>("Expr"), false),
        (entry::<Marked<String>>("Marked<String>"), true),
        (entry::<Msg<'static>>("Msg"), true),
    ]
}

pub fn recursive_schema_catalogue() -> Vec<(&'static str, crate::catalogue::SRun)> {
    use crate::schema_ops::schema_ty;
    let mut v: Vec<(&'static str, crate::catalogue::SRun)> = Vec::new();
    v.push(("List", schema_ty::<List> as crate::catalogue::SRun));
    v.push(("Node", schema_ty::<Node> as crate::catalogue::SRun));
    v.push(("Tree", schema_ty::<Tree> as crate::catalogue::SRun));
    v.push(("A", schema_ty::<A> as crate::catalogue::SRun));
    v.push(("B", schema_ty::<B> as crate::catalogue::SRun));
    v.push(("Dir", schema_ty::<Dir> as crate::catalogue::SRun));
    v.push(("Chain<u16>", schema_ty::<Chain<u16>> as crate::catalogue::SRun));
    v.push(("Expr", schema_ty::<Expr> as crate::catalogue::SRun));
    v.push(("Vec<List>", schema_ty::<Vec<List>> as crate::catalogue::SRun));
    v.push(("Marked<String>", schema_ty::<Marked<String>> as crate::catalogue::SRun));
    v.push(("Msg", schema_ty::<Msg<'static>> as crate::catalogue::SRun));
    v
}
