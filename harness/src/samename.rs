//! C08 / C09: two distinct Rust types with the same declaration (the derive names a type by its
//! identifier, not its path).  A direct conflict panics ("Redefining type schema"); a conflict
//! *below* two same-named, same-shaped parents is what this workload exercises.
use crate::dynty::*;
use crate::gen::Gen;
use crate::obs::Sink;
use crate::ops::enc_obs;
use crate::schema_ops::walk;
use borsh::schema::BorshSchemaContainer;
use borsh::{BorshDeserialize, BorshSchema, BorshSerialize};
use std::panic::{catch_unwind, AssertUnwindSafe};

pub mod a {
    use super::*;
    #[derive(BorshSerialize, BorshDeserialize, BorshSchema, Clone, Debug, PartialEq)]
    pub struct X(pub u8);
    #[derive(BorshSerialize, BorshDeserialize, BorshSchema, Clone, Debug, PartialEq)]
    pub struct S {
        pub f: X,
    }
}
pub mod b {
    use super::*;
    #[derive(BorshSerialize, BorshDeserialize, BorshSchema, Clone, Debug, PartialEq)]
    pub struct X(pub u16);
    #[derive(BorshSerialize, BorshDeserialize, BorshSchema, Clone, Debug, PartialEq)]
    pub struct S {
        pub f: X,
    }
}

macro_rules! dyn_x {
    ($t:ty, $inner:ty) => {
        impl Dyn for $t {
            fn ty() -> String {
                format!("(prod (struct X 0) (_ 0 {}))", <$inner as Dyn>::ty())
            }
            fn gen(g: &mut Gen, d: u32) -> Self {
                Self(Dyn::gen(g, d + 1))
            }
            fn val(&self, o: &mut String) {
                o.push_str("(l ");
                self.0.val(o);
                o.push(')');
            }
        }
    };
}
dyn_x!(a::X, u8);
dyn_x!(b::X, u16);
macro_rules! dyn_s {
    ($t:ty, $x:ty) => {
        impl Dyn for $t {
            fn ty() -> String {
                format!("(prod (struct S 0) (f 0 {}))", <$x as Dyn>::ty())
            }
            fn gen(g: &mut Gen, d: u32) -> Self {
                Self { f: Dyn::gen(g, d + 1) }
            }
            fn val(&self, o: &mut String) {
                o.push_str("(l ");
                self.f.val(o);
                o.push(')');
            }
        }
    };
}
dyn_s!(a::S, a::X);
dyn_s!(b::S, b::X);

fn one<T: Dyn + BorshSerialize + BorshSchema>(g: &mut Gen, out: &mut Sink) {
    let ty = T::ty();
    let case = format!("schema {}", ty);
    let c = match catch_unwind(AssertUnwindSafe(|| BorshSchemaContainer::for_type::<T>())) {
        Ok(c) => c,
        Err(_) => {
            // a detected conflict is the documented behaviour
            out.case(&case, "panic assertRedefinition");
            return;
        }
    };
    let (_, cb) = enc_obs(&c);
    let Some(cb) = cb else { return };
    let (v, m) = crate::schema_ops::analyses(&c);
    out.case(&case, &format!("ok cont={} validate={} max={}", hex(&cb), v, m));
    let max = c.max_serialized_size();
    for _ in 0..6 {
        let v = T::gen(g, 0);
        let (_, enc) = enc_obs(&v);
        let Some(enc) = enc else { continue };
        let vcase = format!("samename enc {} {}", ty, val_of(&v));
        let mut pos = 0usize;
        let r = walk(&c, c.declaration(), &enc, &mut pos, 0);
        out.oracle("C08", matches!(r, Ok(())) && pos == enc.len(), &vcase,
            &format!("the schema does not describe the encoding {}: {:?}, {} of {} bytes consumed", hex(&enc), r, pos, enc.len()));
        if let Ok(n) = max {
            out.oracle("C09", enc.len() <= n, &vcase,
                &format!("value encodes to {} bytes > reported maximum {}", enc.len(), n));
        }
    }
}

pub fn same_name_cases(g: &mut Gen, out: &mut Sink) {
    one::<(a::S, a::S)>(g, out);
    one::<(b::S, b::S)>(g, out);
    one::<(a::S, b::S)>(g, out);
    one::<(b::S, a::S)>(g, out);
    one::<(a::X, b::X)>(g, out);
    one::<(a::S, b::X)>(g, out);
    one::<Vec<(a::S, b::S)>>(g, out);
}

/// C17: the schema-prefixed helpers identify a schema by its content, never by the declaration
/// alone: same-named types whose definitions differ (directly, or one level down) are foreign to
/// each other, in whatever order they are used on one thread.
pub fn same_name_with_schema(g: &mut Gen, out: &mut Sink) {
    use crate::schema_ops::with_schema_pair as pair;
    for _ in 0..2 {
        pair::<a::X, a::X>(g, out);
        pair::<a::X, b::X>(g, out);
        pair::<b::X, b::X>(g, out);
        pair::<b::X, a::X>(g, out);
        pair::<a::S, a::S>(g, out);
        pair::<a::S, b::S>(g, out);
        pair::<b::S, b::S>(g, out);
        pair::<b::S, a::S>(g, out);
    }
    // what is embedded is the writer's own schema, whatever was used before
    let blob = borsh::try_to_vec_with_schema(&b::X(0x0102)).unwrap();
    let own = borsh::to_vec(&BorshSchemaContainer::for_type::<b::X>()).unwrap();
    out.oracle("C17", blob.starts_with(&own) && blob.len() == own.len() + 2, "withschema-embedded b::X",
               "try_to_vec_with_schema::<b::X> did not embed the schema of b::X");
    let blob = borsh::try_to_vec_with_schema(&a::X(7)).unwrap();
    let own = borsh::to_vec(&BorshSchemaContainer::for_type::<a::X>()).unwrap();
    out.oracle("C17", blob.starts_with(&own) && blob.len() == own.len() + 1, "withschema-embedded a::X",
               "try_to_vec_with_schema::<a::X> did not embed the schema of a::X");
}
