//! Schema workloads: containers of catalogue types and arbitrary (hostile) containers.

use crate::dynty::*;
use crate::gen::Gen;
use crate::obs::*;
use crate::ops::{enc_obs, Budget, Full};
use borsh::schema::{BorshSchemaContainer, Declaration, Definition, Fields};
use borsh::BorshSchema;
use std::collections::BTreeMap;
use std::panic::{catch_unwind, AssertUnwindSafe};

pub trait FullS: Full + BorshSchema {}
impl<T: Full + BorshSchema> FullS for T {}

fn show_validate(c: &BorshSchemaContainer) -> String {
    use borsh::schema::SchemaContainerValidateError as E;
    match catch_unwind(AssertUnwindSafe(|| c.validate())) {
        Ok(Ok(())) => "ok".into(),
        Ok(Err(e)) => match e {
            E::ZSTSequence(d) => format!("(zstSequence {})", hex(d.as_bytes())),
            E::TagTooWide(d) => format!("(tagTooWide {})", hex(d.as_bytes())),
            E::TagTooNarrow(d) => format!("(tagTooNarrow {})", hex(d.as_bytes())),
            E::TagNotPowerOfTwo(d) => format!("(tagNotPowerOfTwo {})", hex(d.as_bytes())),
            E::MissingDefinition(d) => format!("(missing {})", hex(d.as_bytes())),
            E::EmptyLengthRange(d) => format!("(emptyLengthRange {})", hex(d.as_bytes())),
        },
        Err(_) => "panic".into(),
    }
}

fn show_max(c: &BorshSchemaContainer) -> String {
    use borsh::schema::SchemaMaxSerializedSizeError as E;
    match catch_unwind(AssertUnwindSafe(|| c.max_serialized_size())) {
        Ok(Ok(n)) => format!("(ok {})", n),
        Ok(Err(E::Overflow)) => "overflow".into(),
        Ok(Err(E::Recursive)) => "recursive".into(),
        Ok(Err(E::MissingDefinition(d))) => format!("(missing {})", hex(d.as_bytes())),
        Err(_) => "panic".into(),
    }
}

pub fn analyses(c: &BorshSchemaContainer) -> (String, String) {
    (show_validate(c), show_max(c))
}

/// container of a catalogue type: compared with `schemaOf` of its description, its analyses
/// with the model's, and its bound with the lengths of real encodings
pub fn schema_ty<T: FullS>(g: &mut Gen, b: &Budget, out: &mut Sink) {
    let ty = T::ty();
    let case = format!("schema {}", ty);
    let c = match catch_unwind(AssertUnwindSafe(|| BorshSchemaContainer::for_type::<T>())) {
        Ok(c) => c,
        Err(_) => {
            out.case(&case, "panic assertRedefinition");
            return;
        }
    };
    let (eo, bs) = enc_obs(&c);
    let Some(bs) = bs else {
        out.case(&case, &format!("container does not serialize: {}", eo));
        return;
    };
    let (v, m) = analyses(&c);
    out.case(&case, &format!("ok cont={} validate={} max={}", hex(&bs), v, m));
    out.oracle("C10", v != "panic", &case, "validate panicked");
    out.oracle("C09", m != "panic", &case, "max_serialized_size panicked");
    // the specification's verdict on the reported bound
    out.case(&format!("contchk lax {} {}", hex(&bs), m.replace(' ', "_").replace('(', "").replace(')', "")), "ok");
    out.case(&format!("contval lax {} {}", hex(&bs), v.replace(' ', "_").replace('(', "").replace(')', "")), "ok");
    // the hypotheses of the "schema describes the encoding" theorem (name coherence, shape,
    // well-formedness) hold at every catalogue type: the theorem covers what the workload samples
    if !ty.contains("(mu ") {
        out.case(&format!("hyp08 {}", ty), "ok");
    }
    // the tightness theorem's hypothesis holds for the container of every Rust type
    out.case(&format!("contread {}", hex(&bs)), &format!("readable={}", readable(&c)));
    out.oracle("C09", readable(&c), &case, "the container of a Rust type has a definition that cannot be read (empty enum, repeated or out-of-range discriminant, range that does not fit its width)");
    // C08: the container defines every declaration it references (no MissingDefinition) and validates
    // unless the type has a zero-sized-element collection
    out.oracle("C08", !v.starts_with("(missing") && !m.starts_with("(missing"), &case, &format!("{} {}", v, m));
    // C17: containers round-trip to an equal container
    let back = catch_unwind(AssertUnwindSafe(|| borsh::from_slice::<BorshSchemaContainer>(&bs)));
    out.oracle("C17", matches!(back, Ok(Ok(ref c2)) if *c2 == c), &case, "container does not round-trip");
    // C09 soundness on real encodings; C08: the schema alone parses every real encoding exactly
    let bound = m.strip_prefix("(ok ").and_then(|s| s.strip_suffix(')')).and_then(|s| s.parse::<usize>().ok());
    for _ in 0..b.values {
        let val = T::gen(g, 0);
        if let (_, Some(enc)) = enc_obs(&val) {
            if let Some(n) = bound {
                out.oracle(
                    "C09",
                    enc.len() <= n,
                    &case,
                    &format!("value {} encodes to {} bytes > reported maximum {}", val_of(&val), enc.len(), n),
                );
            }
            if v == "ok" {
                let mut pos = 0usize;
                let r = walk(&c, c.declaration(), &enc, &mut pos, 0);
                let okay = matches!(r, Ok(())) && pos == enc.len();
                // the same walk by the specification's reader (Lean `sdec`): ties the oracle to the theorem
                if enc.len() <= 4096 {
                    out.case(&format!("sdec {} {}", hex(&bs), hex(&enc)),
                             &match &r { Ok(()) => format!("ok rest={}", enc.len() - pos), Err(_) => "fail".to_string() });
                }
                out.oracle(
                    "C08",
                    okay,
                    &format!("enc {} {}", ty, val_of(&val)),
                    &format!("the schema does not describe the encoding {}: {:?}, {} of {} bytes consumed",
                             hex(&enc), r, pos, enc.len()),
                );
            }
        }
    }
    // C14, agreement clause: whenever serialization of a value is refused because some collection has
    // zero-sized elements, validation of the type's container reports a zero-sized sequence (all the
    // zero-sized element types of the catalogue are empty on the wire too); and for the types of the
    // zero-sized workload (ZST_TOP: the collection is the type itself) the converse: validation flags
    // the root and every value is refused.
    const ZST: &str = "err invalidData zst";
    let top = ZST_TOP.load(std::sync::atomic::Ordering::Relaxed);
    for _ in 0..b.values.min(4) {
        let val = T::gen(g, 0);
        let refused = enc_obs(&val).0 == ZST;
        if refused {
            out.oracle("C14", v.starts_with("(zstSequence"), &case,
                       &format!("serialization of {} is refused (zero-sized elements) but validate = {}", val_of(&val), v));
        }
        if top {
            out.oracle("C14", refused, &case, &format!("zero-sized collection {} is not refused", val_of(&val)));
        }
    }
    if top {
        let want = format!("(zstSequence {})", hex(c.declaration().as_bytes()));
        out.oracle("C14", v == want, &case, &format!("validate = {} (expected {})", v, want));
    }
}

/// set while the zero-sized workload runs: the catalogue type itself is the refused collection
pub static ZST_TOP: std::sync::atomic::AtomicBool = std::sync::atomic::AtomicBool::new(false);

/// a reader that knows nothing but the schema: walks `bs` as the definitions prescribe
pub fn walk(c: &BorshSchemaContainer, decl: &str, bs: &[u8], pos: &mut usize, depth: u32) -> Result<(), String> {
    if depth > 400 {
        return Err("too deep".into());
    }
    let def = c.get_definition(decl).ok_or_else(|| format!("no definition of {}", decl))?;
    let take = |pos: &mut usize, n: usize| -> Result<usize, String> {
        if bs.len() - *pos < n {
            return Err(format!("out of bytes at {} (need {})", *pos, n));
        }
        let at = *pos;
        *pos += n;
        Ok(at)
    };
    let read_le = |pos: &mut usize, n: usize| -> Result<u64, String> {
        if n > 8 {
            return Err(format!("width {}", n));
        }
        let at = take(pos, n)?;
        let mut x: u64 = 0;
        for (i, b) in bs[at..at + n].iter().enumerate() {
            x |= (*b as u64) << (8 * i);
        }
        Ok(x)
    };
    match def {
        Definition::Primitive(n) => take(pos, *n as usize).map(|_| ()),
        Definition::Sequence { length_width, length_range, elements } => {
            let len = if *length_width == 0 { *length_range.end() } else { read_le(pos, *length_width as usize)? };
            if !length_range.contains(&len) {
                return Err(format!("length {} outside {:?}", len, length_range));
            }
            for i in 0..len {
                let before = *pos;
                walk(c, elements, bs, pos, depth + 1)?;
                if *pos == before && i > 4 {
                    break; // zero-width elements: nothing more to learn
                }
            }
            Ok(())
        }
        Definition::Tuple { elements } => {
            for e in elements {
                walk(c, e, bs, pos, depth + 1)?;
            }
            Ok(())
        }
        Definition::Enum { tag_width, variants } => {
            let tag = read_le(pos, *tag_width as usize)?;
            let Some((_, _, d)) = variants.iter().find(|(disc, _, _)| *disc as u64 == tag && *disc >= 0) else {
                return Err(format!("tag {} is no discriminant", tag));
            };
            walk(c, d, bs, pos, depth + 1)
        }
        Definition::Struct { fields } => match fields {
            Fields::NamedFields(fs) => {
                for (_, d) in fs {
                    walk(c, d, bs, pos, depth + 1)?;
                }
                Ok(())
            }
            Fields::UnnamedFields(fs) => {
                for d in fs {
                    walk(c, d, bs, pos, depth + 1)?;
                }
                Ok(())
            }
            Fields::Empty => Ok(()),
        },
    }
}

/// with-schema helpers: same type accepts, different schema rejects
pub fn with_schema_pair<T: FullS, U: FullS>(g: &mut Gen, out: &mut Sink) {
    let v = T::gen(g, 0);
    let case = format!("withschema {} {} {} {}", MODE, T::ty(), U::ty(), val_of(&v));
    let enc = match catch_unwind(AssertUnwindSafe(|| borsh::try_to_vec_with_schema(&v))) {
        Ok(Ok(bs)) => bs,
        Ok(Err(e)) => {
            out.case(&case, &format!("enc{}", show_err(&e)));
            return;
        }
        Err(_) => {
            out.case(&case, "encpanic");
            return;
        }
    };
    let same_schema = catch_unwind(AssertUnwindSafe(|| {
        BorshSchemaContainer::for_type::<T>() == BorshSchemaContainer::for_type::<U>()
    }))
    .unwrap_or(false);
    let r = catch_unwind(AssertUnwindSafe(|| borsh::try_from_slice_with_schema::<U>(&enc)));
    out.case(&format!("wsverdict {} {} {}", T::ty(), U::ty(), if matches!(r, Ok(Ok(_))) { "accepted" } else { "rejected" }), "ok");
    match r {
        Ok(Ok(u)) => {
            out.case(&case, &format!("ok {}", canon_of(&u)));
            out.oracle("C17", same_schema, &case, "a value written with a different schema was accepted");
            if T::ty() == U::ty() {
                out.oracle("C17", canon_of(&u) == canon_of(&v), &case, "with-schema round trip changed the value");
            }
        }
        Ok(Err(e)) => {
            out.case(&case, &show_err(&e));
            out.oracle("C17", T::ty() != U::ty(), &case, &format!("reading back with the same type was rejected: {}", show_err(&e)));
        }
        Err(_) => {
            out.case(&case, "panic");
            out.oracle("C17", false, &case, "panic");
        }
    }
    // any single-byte corruption of the embedded schema that still decodes must not be accepted
    // with a changed meaning: accepted => the embedded container equals U's
    if T::ty() == U::ty() {
        let clen = borsh::to_vec(&BorshSchemaContainer::for_type::<T>()).map(|b| b.len()).unwrap_or(0);
        for _ in 0..4 {
            if clen == 0 {
                break;
            }
            let mut bad = enc.clone();
            let p = g.below(clen as u64) as usize;
            bad[p] ^= 1 << g.below(8);
            let r = catch_unwind(AssertUnwindSafe(|| borsh::try_from_slice_with_schema::<U>(&bad)));
            out.oracle("C17", !matches!(r, Ok(Ok(_))), &case, &format!("corrupted schema byte {} accepted", p));
        }
    }
}

/// the embedded schema perturbed (a definition dropped, added or changed): never accepted
pub fn with_schema_perturbed<T: FullS>(g: &mut Gen, out: &mut Sink) {
    let v = T::gen(g, 0);
    let Some(vb) = enc_obs(&v).1 else { return };
    let c = match catch_unwind(AssertUnwindSafe(|| BorshSchemaContainer::for_type::<T>())) {
        Ok(c) => c,
        Err(_) => return,
    };
    let defs: Vec<(Declaration, Definition)> = c.definitions().map(|(k, d)| (k.clone(), d.clone())).collect();
    let mut variants: Vec<BorshSchemaContainer> = vec![c.clone()];
    for i in 0..defs.len() {
        let mut m: BTreeMap<Declaration, Definition> = defs.iter().cloned().collect();
        m.remove(&defs[i].0);
        variants.push(BorshSchemaContainer::new(c.declaration().clone(), m));
    }
    for extra in ["", "!", "zz", "~~~"] {
        let mut m: BTreeMap<Declaration, Definition> = defs.iter().cloned().collect();
        m.insert(extra.to_string(), Definition::Primitive(1));
        variants.push(BorshSchemaContainer::new(c.declaration().clone(), m));
    }
    variants.push(BorshSchemaContainer::new(c.declaration().clone(), BTreeMap::new()));
    variants.push(BorshSchemaContainer::new(format!("{}x", c.declaration()), defs.iter().cloned().collect()));
    if let Some((k, _)) = defs.first() {
        let mut m: BTreeMap<Declaration, Definition> = defs.iter().cloned().collect();
        m.insert(k.clone(), Definition::Primitive(200));
        variants.push(BorshSchemaContainer::new(c.declaration().clone(), m));
    }
    for c2 in variants {
        let Some(mut bytes) = enc_obs(&c2).1 else { continue };
        bytes.extend_from_slice(&vb);
        let case = format!("wsraw {} {} {}", MODE, T::ty(), hex(&bytes));
        let r = catch_unwind(AssertUnwindSafe(|| borsh::try_from_slice_with_schema::<T>(&bytes)));
        let o = match r {
            Ok(Ok(u)) => format!("ok {}", canon_of(&u)),
            Ok(Err(e)) => show_err(&e),
            Err(_) => "panic".into(),
        };
        out.case(&case, &o);
        out.oracle("C17", o.starts_with("ok") == (c2 == c), &case,
                   &format!("embedded schema {} the reader's own, result {}", if c2 == c { "equals" } else { "differs from" }, &o[..o.len().min(60)]));
    }
}

// ------------------------------------------------------------------ arbitrary containers

const NAMES: [&str; 7] = ["A", "B", "C", "D", "u8", "()", "Z"];

fn pick_name(g: &mut Gen) -> String {
    NAMES[g.below(NAMES.len() as u64) as usize].to_string()
}

fn pick_range(g: &mut Gen) -> core::ops::RangeInclusive<u64> {
    match g.below(12) {
        0 => 0..=0,
        1 => 0..=1,
        2 => 3..=2,
        3 => 0..=(u32::MAX as u64),
        4 => 0..=u64::MAX,
        5 => 1..=1,
        6 => 2..=2,
        7 => 0..=255,
        8 => 0..=256,
        9 => 1..=u64::MAX,
        10 => u64::MAX..=u64::MAX,
        _ => {
            let a = g.below(5);
            a..=(a + g.below(4))
        }
    }
}

fn pick_width(g: &mut Gen) -> u8 {
    *g.pick(&[0u8, 0, 0, 1, 2, 3, 4, 4, 5, 8, 9, 255])
}

fn gen_definition(g: &mut Gen) -> Definition {
    match g.below(8) {
        0 => Definition::Primitive(*g.pick(&[0u8, 0, 1, 2, 8, 255])),
        1 | 2 => Definition::Sequence {
            length_width: pick_width(g),
            length_range: pick_range(g),
            elements: pick_name(g),
        },
        3 | 4 => {
            let n = g.below(4) as usize;
            Definition::Tuple { elements: (0..n).map(|_| pick_name(g)).collect() }
        }
        5 => {
            let n = g.below(4) as usize;
            Definition::Enum {
                tag_width: *g.pick(&[0u8, 0, 1, 1, 2, 8, 9]),
                variants: (0..n).map(|i| (i as i64, format!("V{}", i), pick_name(g))).collect(),
            }
        }
        6 => {
            let n = g.below(3) as usize;
            Definition::Struct {
                fields: Fields::NamedFields((0..n).map(|i| (format!("f{}", i), pick_name(g))).collect()),
            }
        }
        _ => {
            let n = g.below(3) as usize;
            if n == 0 {
                Definition::Struct { fields: Fields::Empty }
            } else {
                Definition::Struct { fields: Fields::UnnamedFields((0..n).map(|_| pick_name(g)).collect()) }
            }
        }
    }
}

pub fn gen_container(g: &mut Gen) -> BorshSchemaContainer {
    let mut defs: BTreeMap<Declaration, Definition> = BTreeMap::new();
    let n = 1 + g.below(5) as usize;
    for _ in 0..n {
        let name = pick_name(g);
        let d = match name.as_str() {
            "u8" if g.chance(3, 4) => Definition::Primitive(1),
            "()" if g.chance(3, 4) => Definition::Primitive(0),
            _ => gen_definition(g),
        };
        defs.insert(name, d);
    }
    let root = if g.chance(7, 8) { "A".to_string() } else { pick_name(g) };
    if !defs.contains_key(&root) && g.chance(9, 10) {
        let d = gen_definition(g);
        defs.insert(root.clone(), d);
    }
    BorshSchemaContainer::new(root, defs)
}

/// structured hostile shapes: cycles that pass through zero-length arrays, untagged unions and
/// empty structs, so that zero-size analysis and recursion detection interact
pub fn gen_cyclic_container(g: &mut Gen) -> BorshSchemaContainer {
    let names = ["A", "B", "C", "D"];
    let k = 2 + g.below(3) as usize;
    let mut defs: BTreeMap<Declaration, Definition> = BTreeMap::new();
    for i in 0..k {
        let next = names[(i + 1) % k].to_string();
        let other = if g.chance(1, 2) { names[g.below(k as u64) as usize].to_string() } else { pick_name(g) };
        let d = match g.below(9) {
            0 => Definition::Sequence { length_width: 0, length_range: 0..=0, elements: next },
            1 => Definition::Sequence { length_width: 4, length_range: 0..=(u32::MAX as u64), elements: next },
            2 => Definition::Sequence { length_width: 0, length_range: 2..=2, elements: next },
            3 => Definition::Tuple { elements: vec![next, other] },
            4 => Definition::Tuple { elements: vec![other, next] },
            5 => Definition::Struct { fields: Fields::UnnamedFields(vec![next]) },
            6 => Definition::Struct { fields: Fields::NamedFields(vec![("f".into(), next), ("g".into(), other)]) },
            7 => Definition::Enum { tag_width: *g.pick(&[0u8, 1]), variants: vec![(0, "X".into(), next), (1, "Y".into(), other)] },
            _ => Definition::Sequence { length_width: *g.pick(&[0u8, 1, 4]), length_range: pick_range(g), elements: next },
        };
        defs.insert(names[i].to_string(), d);
    }
    if g.chance(1, 2) {
        defs.insert("u8".into(), Definition::Primitive(1));
    }
    if g.chance(1, 2) {
        defs.insert("()".into(), Definition::Primitive(0));
    }
    if g.chance(1, 3) {
        defs.insert("Z".into(), Definition::Sequence { length_width: 0, length_range: 0..=0, elements: "u8".into() });
    }
    let root = names[g.below(k as u64) as usize].to_string();
    BorshSchemaContainer::new(root, defs)
}

/// acyclic chains whose sizes multiply: nested sequences (every length width, maximum lengths up to
/// u64::MAX), tuples that repeat a name, enums, ending in a leaf of 0, 1, 2 or 8 bytes — the shapes
/// on which the arithmetic of the bound (saturation, overflow, where the width is added) decides
pub fn gen_chain_container(g: &mut Gen) -> BorshSchemaContainer {
    let names = ["A", "B", "C", "D", "E"];
    let k = 2 + g.below(4) as usize;
    let mut defs: BTreeMap<Declaration, Definition> = BTreeMap::new();
    let big = [0u64, 1, 2, 3, 255, 256, 1 << 16, (1 << 32) - 1, 1 << 32, 1 << 40, (1 << 63) - 1, 1 << 63,
               u64::MAX - 1, u64::MAX];
    for i in 0..k - 1 {
        let next = names[i + 1].to_string();
        let d = match g.below(10) {
            0..=5 => {
                let hi = *g.pick(&big);
                let lo = if g.chance(1, 2) { hi } else { g.below(3).min(hi) };
                Definition::Sequence { length_width: *g.pick(&[0u8, 0, 0, 0, 1, 2, 4, 8]), length_range: lo..=hi, elements: next }
            }
            6 => Definition::Tuple { elements: (0..1 + g.below(3)).map(|_| next.clone()).collect() },
            7 => Definition::Struct { fields: Fields::UnnamedFields((0..1 + g.below(3)).map(|_| next.clone()).collect()) },
            8 => Definition::Enum {
                tag_width: *g.pick(&[0u8, 1, 1, 2, 8]),
                variants: vec![(0, "X".into(), next.clone()), (1, "Y".into(), "()".into())],
            },
            _ => Definition::Enum { tag_width: 1, variants: vec![(0, "X".into(), next)] },
        };
        defs.insert(names[i].to_string(), d);
    }
    let leaf = match g.below(6) {
        0 => Definition::Primitive(0),
        1 | 2 => Definition::Primitive(1),
        3 => Definition::Primitive(*g.pick(&[2u8, 8, 255])),
        4 => Definition::Enum { tag_width: 1, variants: vec![(0, "X".into(), "()".into()), (1, "Y".into(), "()".into())] },
        _ => Definition::Tuple { elements: vec![] },
    };
    defs.insert(names[k - 1].to_string(), leaf);
    defs.insert("()".into(), Definition::Primitive(0));
    BorshSchemaContainer::new("A".to_string(), defs)
}

/// every definition can actually be read (hypothesis of the tightness theorem `C09_tight`; the same
/// predicate as `Container.readable` in the model, compared line by line)
pub fn readable(c: &BorshSchemaContainer) -> bool {
    let fits = |x: u128, w: u8| w >= 16 || x < (1u128 << (8 * w as u32));
    c.definitions().all(|(_, d)| match d {
        Definition::Sequence { length_width, length_range, .. } => {
            let (lo, hi) = (*length_range.start(), *length_range.end());
            if *length_width == 0 { lo == hi } else { lo <= hi && fits(hi as u128, *length_width) }
        }
        Definition::Enum { tag_width, variants } => {
            let mut ds: Vec<i64> = variants.iter().map(|v| v.0).collect();
            ds.sort();
            let distinct = ds.windows(2).all(|w| w[0] != w[1]);
            !variants.is_empty() && distinct && variants.iter().all(|v| v.0 >= 0 && fits(v.0 as u128, *tag_width))
        }
        _ => true,
    })
}

pub fn one_container(c: &BorshSchemaContainer, out: &mut Sink) {
    let (_, bs) = enc_obs(c);
    let Some(bs) = bs else { return };
    let case = format!("cont {} {}", MODE, hex(&bs));
    // hostile containers are also *decoded* by the real code
    let back = catch_unwind(AssertUnwindSafe(|| borsh::from_slice::<BorshSchemaContainer>(&bs)));
    let c2 = match back {
        Ok(Ok(c2)) => c2,
        Ok(Err(e)) => {
            out.case(&case, &show_err(&e));
            out.oracle("C17", false, &case, &format!("a container the crate serialized cannot be read back: {}", show_err(&e)));
            return;
        }
        Err(_) => {
            out.case(&case, "panic");
            out.oracle("C17", false, &case, "reading back a serialized container panicked");
            return;
        }
    };
    out.oracle("C17", c2 == *c, &case, "container does not round-trip to an equal container");
    let (_, bs2) = enc_obs(&c2);
    out.oracle("C17", bs2.as_deref() == Some(&bs[..]), &case, "container does not re-serialize canonically");
    let (v, m) = analyses(&c2);
    out.case(&case, &format!("ok validate={} max={}", v, m));
    out.oracle("C10", v != "panic", &case, "validate panicked");
    out.oracle("C09", m != "panic", &case, "max_serialized_size panicked");
    out.case(&format!("contchk {} {} {}", MODE, hex(&bs), m.replace(' ', "_").replace('(', "").replace(')', "")), "ok");
    out.case(&format!("contval {} {} {}", MODE, hex(&bs), v.replace(' ', "_").replace('(', "").replace(')', "")), "ok");
    out.case(&format!("contread {}", hex(&bs)), &format!("readable={}", readable(&c2)));
}

/// deep and long definition chains: a zero-sized leaf behind `depth` wrappers as the element of a
/// length-prefixed sequence (validation has to flag it at any depth), and linear chains through
/// every definition of the container that end in an undefined declaration (the analyses have to
/// name the missing declaration, not report a cycle)
pub fn deep_chain_containers(out: &mut Sink) {
    for depth in [1usize, 2, 5, 17, 31, 32, 33, 40, 64, 100] {
        for kind in 0..3u8 {
            let mut m: BTreeMap<Declaration, Definition> = BTreeMap::new();
            m.insert("Seq".into(), Definition::Sequence { length_width: 4, length_range: 0..=u32::MAX as u64, elements: "W000".into() });
            for i in 0..depth {
                let next = if i + 1 == depth { "()".to_string() } else { format!("W{:03}", i + 1) };
                let d = match kind {
                    0 => Definition::Tuple { elements: vec![next] },
                    1 => Definition::Struct { fields: Fields::NamedFields(vec![("inner".into(), next)]) },
                    _ => Definition::Sequence { length_width: 0, length_range: 3..=3, elements: next },
                };
                m.insert(format!("W{:03}", i), d);
            }
            m.insert("()".into(), Definition::Primitive(0));
            one_container(&BorshSchemaContainer::new("Seq".into(), m), out);
        }
    }
    for n in [0usize, 1, 2, 3, 6, 20] {
        for kind in 0..3u8 {
            let mut m: BTreeMap<Declaration, Definition> = BTreeMap::new();
            for i in 0..n {
                let next = if i + 1 == n { "Ghost".to_string() } else { format!("L{:02}", i + 1) };
                let d = match kind {
                    0 => Definition::Tuple { elements: vec![next] },
                    1 => Definition::Sequence { length_width: 4, length_range: 0..=7, elements: next },
                    _ => Definition::Enum { tag_width: 1, variants: vec![(0, "A".into(), next)] },
                };
                m.insert(format!("L{:02}", i), d);
            }
            let root = if n == 0 { "Ghost".to_string() } else { "L00".to_string() };
            one_container(&BorshSchemaContainer::new(root, m), out);
        }
    }
}

/// committed corpus: witnesses of the (repaired) findings F1-F3 and other minimised shapes
pub fn container_corpus(out: &mut Sink) {
    let mk = |root: &str, defs: Vec<(&str, Definition)>| {
        BorshSchemaContainer::new(root.to_string(), defs.into_iter().map(|(k, v)| (k.to_string(), v)).collect())
    };
    let seq = |lw: u8, r: core::ops::RangeInclusive<u64>, e: &str| Definition::Sequence {
        length_width: lw,
        length_range: r,
        elements: e.to_string(),
    };
    // F3: full-range untagged sequence
    one_container(&mk("A", vec![("A", seq(0, 0..=u64::MAX, "u8")), ("u8", Definition::Primitive(1))]), out);
    // F2: the same zero-length array twice in one tuple, as element of a sequence
    one_container(
        &mk("A", vec![
            ("A", seq(4, 0..=(u32::MAX as u64), "B")),
            ("B", Definition::Tuple { elements: vec!["Z".into(), "Z".into()] }),
            ("Z", seq(0, 0..=0, "()")),
            ("()", Definition::Primitive(0)),
        ]),
        out,
    );
    // F1: an array of enums
    one_container(
        &mk("A", vec![
            ("A", seq(0, 10..=10, "B")),
            ("B", Definition::Enum { tag_width: 1, variants: vec![(0, "N".into(), "()".into()), (1, "S".into(), "u8".into())] }),
            ("()", Definition::Primitive(0)),
            ("u8", Definition::Primitive(1)),
        ]),
        out,
    );
    // cycles, dangling names, empty ranges, widths
    one_container(&mk("A", vec![("A", Definition::Tuple { elements: vec!["A".into()] })]), out);
    one_container(&mk("A", vec![("A", seq(4, 0..=9, "A"))]), out);
    one_container(&mk("A", vec![("A", Definition::Tuple { elements: vec!["B".into()] })]), out);
    one_container(&mk("A", vec![("A", seq(1, 0..=256, "u8")), ("u8", Definition::Primitive(1))]), out);
    one_container(&mk("A", vec![("A", seq(3, 0..=1, "u8")), ("u8", Definition::Primitive(1))]), out);
    one_container(&mk("A", vec![("A", seq(4, 3..=2, "u8")), ("u8", Definition::Primitive(1))]), out);
    one_container(&mk("B", vec![("A", Definition::Primitive(1))]), out);
    // recursion through a zero-length array: the element of the dynamic sequence is zero-sized
    one_container(
        &mk("A", vec![
            ("A", Definition::Struct { fields: Fields::UnnamedFields(vec!["Z".into()]) }),
            ("Z", seq(0, 0..=0, "S")),
            ("S", seq(4, 0..=(u32::MAX as u64), "A")),
        ]),
        out,
    );
}

pub fn containers(g: &mut Gen, n: usize, out: &mut Sink) {
    container_corpus(out);
    deep_chain_containers(out);
    for i in 0..n {
        let c = match i % 4 {
            2 => gen_cyclic_container(g),
            3 => gen_chain_container(g),
            _ => gen_container(g),
        };
        one_container(&c, out);
    }
}

/// whole-input discipline of the schema-prefixed entry point: bytes left over after the value and
/// every proper prefix of a schema-prefixed blob are rejected (C05), whatever the type
pub fn with_schema_framing<T: FullS>(g: &mut Gen, out: &mut Sink) {
    let v = T::gen(g, 0);
    let enc = match catch_unwind(AssertUnwindSafe(|| borsh::try_to_vec_with_schema(&v))) {
        Ok(Ok(bs)) => bs,
        _ => return,
    };
    if enc.len() > 2000 {
        return;
    }
    let run = |bytes: &[u8]| -> String {
        match catch_unwind(AssertUnwindSafe(|| borsh::try_from_slice_with_schema::<T>(bytes))) {
            Ok(Ok(u)) => format!("ok {}", canon_of(&u)),
            Ok(Err(e)) => show_err(&e),
            Err(_) => "panic".into(),
        }
    };
    for tail in [1usize, 2, 5] {
        let mut x = enc.clone();
        x.extend(g.bytes(tail));
        let case = format!("wsraw {} {} {}", MODE, T::ty(), hex(&x));
        let o = run(&x);
        out.case(&case, &o);
        out.oracle("C05", o == "err invalidData notAllBytesRead", &case, &format!("schema-prefixed value followed by {} byte(s): {}", tail, &o[..o.len().min(80)]));
        out.oracle("C17", !o.starts_with("ok"), &case, &format!("schema-prefixed value followed by {} byte(s) accepted", tail));
    }
    // two blobs back to back are not one value
    let mut two = enc.clone();
    two.extend_from_slice(&enc);
    let case = format!("wsraw {} {} {}", MODE, T::ty(), hex(&two));
    let o = run(&two);
    out.case(&case, &o);
    out.oracle("C05", !o.starts_with("ok"), &case, "two schema-prefixed blobs accepted as one value");
    let cuts: Vec<usize> = if enc.len() <= 48 { (0..enc.len()).collect() } else {
        let mut c: Vec<usize> = (0..8).map(|_| g.below(enc.len() as u64) as usize).collect();
        c.push(enc.len() - 1);
        c.push(0);
        c
    };
    for k in cuts {
        let x = &enc[..k];
        let case = format!("wsraw {} {} {}", MODE, T::ty(), hex(x));
        let o = run(x);
        out.case(&case, &o);
        out.oracle("C05", !o.starts_with("ok"), &case, &format!("proper prefix ({} of {} bytes) of a schema-prefixed blob accepted", k, enc.len()));
    }
}

/// hostile embedded schemas through `try_from_slice_with_schema` (C07: untrusted bytes): definition
/// graphs whose naive traversal is exponential (every level names the next one twice) or very deep
/// (a chain of tens of thousands of definitions).  The entry point has to answer - reject - in time
/// and stack bounded by the input, as the plain decode of `(BorshSchemaContainer, T)` does.  Run on
/// a thread with a small stack and under the watchdog.
pub fn with_schema_hostile(out: &mut Sink) {
    fn blob(c: &BorshSchemaContainer, value: &[u8]) -> Vec<u8> {
        let mut b = borsh::to_vec(c).unwrap();
        b.extend_from_slice(value);
        b
    }
    fn on_small_stack(bytes: Vec<u8>) -> String {
        let h = std::thread::Builder::new().stack_size(512 * 1024).spawn(move || {
            match catch_unwind(AssertUnwindSafe(|| borsh::try_from_slice_with_schema::<u8>(&bytes))) {
                Ok(Ok(u)) => format!("ok {}", canon_of(&u)),
                Ok(Err(e)) => show_err(&e),
                Err(_) => "panic".into(),
            }
        }).unwrap();
        h.join().unwrap_or_else(|_| "panic".into())
    }
    // (a) doubling graphs: tuples / structs / enums / sequences naming the next level twice
    for (shape, levels) in [(0u8, 48usize), (1, 40), (2, 44), (0, 6)] {
        let mut m: BTreeMap<Declaration, Definition> = BTreeMap::new();
        for i in 0..levels {
            let next = format!("L{:03}", i + 1);
            let d = match shape {
                0 => Definition::Tuple { elements: vec![next.clone(), next.clone()] },
                1 => Definition::Struct { fields: Fields::NamedFields(vec![("a".into(), next.clone()), ("b".into(), next.clone())]) },
                _ => Definition::Enum { tag_width: 1, variants: vec![(0, "A".into(), next.clone()), (1, "B".into(), next.clone())] },
            };
            m.insert(format!("L{:03}", i), d);
        }
        m.insert(format!("L{:03}", levels), Definition::Primitive(1));
        let c = BorshSchemaContainer::new("L000".to_string(), m);
        let bytes = blob(&c, &[7]);
        let case = format!("wsraw {} {} {}", MODE, <u8 as crate::dynty::Dyn>::ty(), hex(&bytes));
        out.announce_timed(&case, 20);
        let o = on_small_stack(bytes);
        out.done();
        out.case(&case, &o);
        out.oracle("C07", o == "err invalidData schemaMismatch", &case, &o);
        out.oracle("C17", o == "err invalidData schemaMismatch", &case, &o);
    }
    // (b) a very deep chain (no model line: the blob is several hundred kilobytes)
    for depth in [2000usize, 30000] {
        let mut m: BTreeMap<Declaration, Definition> = BTreeMap::new();
        for i in 0..depth {
            m.insert(format!("N{:06}", i), Definition::Tuple { elements: vec![format!("N{:06}", i + 1)] });
        }
        m.insert(format!("N{:06}", depth), Definition::Primitive(1));
        let c = BorshSchemaContainer::new("N000000".to_string(), m);
        let bytes = blob(&c, &[7]);
        let case = format!("wsraw-chain {} depth={} bytes={}", MODE, depth, bytes.len());
        out.announce_timed(&case, 30);
        let o = on_small_stack(bytes);
        out.done();
        out.oracle("C07", o == "err invalidData schemaMismatch", &case, &o);
    }
}
