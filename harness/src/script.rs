//! Scripted `Read`/`Write` endpoints (positional scripts, see lean/BorshModel/Io.lean) and the
//! C11 / C12 workloads.

use crate::dynty::*;
use crate::gen::Gen;
use crate::obs::*;
use crate::ops::{enc_obs, Budget, Full};
use borsh::io::{Error, ErrorKind, Read, Result, Write};
use borsh::BorshDeserialize;
use std::panic::{catch_unwind, AssertUnwindSafe};

#[derive(Clone, Debug)]
pub enum Stop {
    None,
    Fail(usize, u8, u32), // offset, kind code, message id
    Zero(usize),
}

#[derive(Clone, Debug)]
pub struct Script {
    pub chunks: Vec<usize>,
    pub intr: Vec<(usize, usize)>,
    pub stop: Stop,
}

thread_local! {
    /// scripted hard failures happen once and the reader / writer works again afterwards (a flaky
    /// sink): a correct caller never comes back after the error, so the case line and the model's
    /// answer are those of a persistent failure
    pub static FAIL_ONCE: std::cell::Cell<bool> = std::cell::Cell::new(false);
    static RUNS: std::cell::Cell<u64> = std::cell::Cell::new(0);
}

/// every other scripted run has one-shot failures
fn next_run() {
    let n = RUNS.with(|r| {
        r.set(r.get() + 1);
        r.get()
    });
    FAIL_ONCE.with(|f| f.set(n % 2 == 1));
}

pub const KINDS: [(u8, &str); 10] = [
    (1, "(user 1)"),
    (2, "(user 2)"),
    (3, "(user 3)"),
    (4, "(user 4)"),
    (5, "other"),
    (6, "invalidData"),
    (7, "unexpectedEof"),
    (8, "outOfMemory"),
    (9, "(user 5)"),
    (10, "(user 6)"),
];

/// a scripted hard failure: message ids from 900 up stand for an error built from the bare kind
/// (`ErrorKind::X.into()`, whose text is the kind's own description); `Other` always carries a
/// message (its description differs between std and the shim, and borsh never builds it)
pub fn script_error(k: u8, id: u32) -> Error {
    if id >= 900 && k != 5 {
        Error::from(kind_of(k))
    } else {
        Error::new(kind_of(k), format!("user:{}", id))
    }
}
pub fn script_msg(k: u8, id: u32) -> String {
    if id >= 900 && k != 5 { "simple".to_string() } else { format!("(user {})", id) }
}

fn kind_of(code: u8) -> ErrorKind {
    match code {
        1 => ErrorKind::PermissionDenied,
        2 => ErrorKind::ConnectionReset,
        3 => ErrorKind::TimedOut,
        4 => ErrorKind::BrokenPipe,
        5 => ErrorKind::Other,
        6 => ErrorKind::InvalidData,
        8 => ErrorKind::OutOfMemory,
        9 => ErrorKind::WouldBlock,
        10 => ErrorKind::AddrInUse,
        _ => ErrorKind::UnexpectedEof,
    }
}
fn kind_sexp(code: u8) -> &'static str {
    KINDS.iter().find(|k| k.0 == code).map(|k| k.1).unwrap_or("other")
}

impl Script {
    pub fn plain() -> Script {
        Script { chunks: vec![], intr: vec![], stop: Stop::None }
    }
    fn chunk_at(&self, o: usize) -> usize {
        if self.chunks.is_empty() {
            0
        } else {
            self.chunks[o % self.chunks.len()]
        }
    }
    /// bytes moved by one call at offset `o` with a buffer of `n` bytes: the chunk limit, and
    /// never across a scripted event (stop or pending interrupt) so that every event is met
    fn limit(&self, o: usize, n: usize) -> usize {
        let c = self.chunk_at(o);
        let mut m = if c == 0 { n } else { c.min(n) };
        let mut events: Vec<usize> = Vec::new();
        match self.stop {
            Stop::Fail(so, _, _) | Stop::Zero(so) => events.push(so),
            Stop::None => {}
        }
        for (io, cnt) in &self.intr {
            if *cnt > 0 {
                events.push(*io);
            }
        }
        for e in events {
            if e > o {
                m = m.min(e - o);
            }
        }
        m
    }
    pub fn sexp(&self) -> String {
        let cs: Vec<String> = self.chunks.iter().map(|c| c.to_string()).collect();
        let is: Vec<String> = self.intr.iter().map(|(o, n)| format!("({} {})", o, n)).collect();
        let st = match &self.stop {
            Stop::None => "nostop".to_string(),
            Stop::Fail(o, k, id) => format!("(fail {} {} {})", o, kind_sexp(*k), id),
            Stop::Zero(o) => format!("(zero {})", o),
        };
        format!("(chunks{}{}) (intr{}{}) {}",
                if cs.is_empty() { "" } else { " " }, cs.join(" "),
                if is.is_empty() { "" } else { " " }, is.join(" "), st)
    }
    /// first pending interrupt at offset `o`, consumed
    fn take_intr(intr: &mut Vec<(usize, usize)>, o: usize) -> bool {
        let pending: usize = intr.iter().filter(|p| p.0 == o).map(|p| p.1).sum();
        if pending == 0 {
            return false;
        }
        for p in intr.iter_mut() {
            if p.0 == o && p.1 > 0 {
                p.1 -= 1;
                break;
            }
        }
        true
    }
}

pub struct ScriptReader<'a> {
    pub sc: Script,
    pub data: &'a [u8],
    pub pos: usize,
}

fn fail_once_taken(sc: &mut Script) {
    if FAIL_ONCE.with(|f| f.get()) {
        sc.stop = Stop::None;
    }
}

impl<'a> Read for ScriptReader<'a> {
    fn read(&mut self, buf: &mut [u8]) -> Result<usize> {
        if buf.is_empty() {
            return Ok(0);
        }
        if Script::take_intr(&mut self.sc.intr, self.pos) {
            // both ways of building a transient error: the bare kind and a kind with a message
            return Err(if self.pos % 2 == 0 {
                Error::from(ErrorKind::Interrupted)
            } else {
                Error::new(ErrorKind::Interrupted, "interrupted, please retry")
            });
        }
        if let Stop::Fail(o, k, id) = self.sc.stop {
            if o == self.pos {
                fail_once_taken(&mut self.sc);
                return Err(script_error(k, id));
            }
        }
        let remaining = self.data.len() - self.pos;
        let n = self.sc.limit(self.pos, buf.len()).min(remaining);
        buf[..n].copy_from_slice(&self.data[self.pos..self.pos + n]);
        self.pos += n;
        Ok(n)
    }
}

pub struct ScriptWriter {
    pub sc: Script,
    pub delivered: Vec<u8>,
}

impl Write for ScriptWriter {
    fn write(&mut self, buf: &[u8]) -> Result<usize> {
        if buf.is_empty() {
            return Ok(0);
        }
        let o = self.delivered.len();
        if Script::take_intr(&mut self.sc.intr, o) {
            return Err(if o % 2 == 0 {
                Error::from(ErrorKind::Interrupted)
            } else {
                Error::new(ErrorKind::Interrupted, "interrupted, please retry")
            });
        }
        match self.sc.stop {
            Stop::Fail(so, k, id) if so == o => {
                fail_once_taken(&mut self.sc);
                return Err(script_error(k, id));
            }
            Stop::Zero(so) if so == o => return Ok(0),
            _ => {}
        }
        let n = self.sc.limit(o, buf.len());
        self.delivered.extend_from_slice(&buf[..n]);
        Ok(n)
    }
    fn flush(&mut self) -> Result<()> {
        Ok(())
    }
}

fn guarded<R>(f: impl FnOnce() -> R) -> std::result::Result<R, String> {
    catch_unwind(AssertUnwindSafe(f)).map_err(|_| "panic".to_string())
}

fn gen_chunks(g: &mut Gen, len: usize) -> Vec<usize> {
    match g.below(8) {
        0 => vec![],
        1 => vec![1],
        2 => vec![2, 1],
        3 => vec![3, 1, 2],
        4 => vec![7],
        5 => {
            // an explicit composition of the stream: chunks[o] = distance to the next cut
            let n = len.max(1);
            let mut cuts: Vec<bool> = (0..n).map(|_| g.chance(1, 3)).collect();
            cuts.push(true);
            let mut v = vec![0usize; n];
            let mut next = n;
            for o in (0..n).rev() {
                if cuts[o + 1] {
                    next = o + 1;
                }
                v[o] = next - o;
            }
            v
        }
        _ => (0..1 + g.below(4)).map(|_| 1 + g.below(5) as usize).collect(),
    }
}

fn gen_intr(g: &mut Gen, len: usize) -> Vec<(usize, usize)> {
    let mut v = Vec::new();
    if g.chance(1, 2) {
        for _ in 0..g.below(3) {
            v.push((g.below(len as u64 + 2) as usize, 1 + g.below(3) as usize));
        }
    }
    v
}

pub fn run_reader<T: Full>(entry: &str, sc: &Script, bytes: &[u8]) -> String {
    next_run();
    let mut r = ScriptReader { sc: sc.clone(), data: bytes, pos: 0 };
    let res = guarded(|| match entry {
        "dr" => T::deserialize_reader(&mut r),
        "fr" => borsh::from_reader::<_, T>(&mut r),
        _ => T::try_from_reader(&mut r),
    });
    match res {
        Ok(Ok(v)) => format!("ok {} pulled={}", canon_of(&v), r.pos),
        Ok(Err(e)) => show_err(&e),
        Err(_) => "panic".into(),
    }
}

/// C11: decoding is independent of fragmentation and interruption; hard failures are transparent
pub fn c11<T: Full>(g: &mut Gen, b: &Budget, out: &mut Sink) {
    let ty = T::ty();
    for _ in 0..(b.values / 2).max(2) {
        let v = T::gen(g, 0);
        let (_, bs) = enc_obs(&v);
        let Some(bs) = bs else { continue };
        if bs.len() > 512 {
            continue;
        }
        let want = canon_of(&v);
        let len = bs.len();
        // the stream continues after the value: nothing beyond the value may be consumed
        let tail = g.below(3) as usize;
        let mut stream = bs.clone();
        stream.extend(g.bytes(tail));
        // (a) fragmentation + interrupts, no hard failure
        for _ in 0..(if b.thorough { 12 } else { 4 }) {
            let sc = Script { chunks: gen_chunks(g, stream.len()), intr: gen_intr(g, stream.len()), stop: Stop::None };
            let case = format!("decR {} {} {} {} dr", MODE, ty, hex(&stream), sc.sexp());
            out.announce_timed(&case, 20);
            let o = run_reader::<T>("dr", &sc, &stream);
            out.done();
            out.case(&case, &o);
            out.oracle("C11", o == format!("ok {} pulled={}", want, len), &case, &o);
            // whole-input entry points on the exact stream
            let sc2 = Script { chunks: gen_chunks(g, len), intr: gen_intr(g, len), stop: Stop::None };
            for entry in ["fr", "tfr"] {
                let case = format!("decR {} {} {} {} {}", MODE, ty, hex(&bs), sc2.sexp(), entry);
                out.announce_timed(&case, 20);
                let o = run_reader::<T>(entry, &sc2, &bs);
                out.done();
                out.case(&case, &o);
                out.oracle("C11", o == format!("ok {} pulled={}", want, len), &case, &o);
            }
            if tail > 0 {
                let case = format!("decR {} {} {} {} fr", MODE, ty, hex(&stream), sc.sexp());
                out.announce_timed(&case, 20);
                let o = run_reader::<T>("fr", &sc, &stream);
                out.done();
                out.case(&case, &o);
                out.oracle("C11", o == "err invalidData notAllBytesRead", &case, &o);
            }
        }
        // (c) malformed and arbitrary streams: the reader entry points answer exactly as the slice
        // entry points do on the same bytes - same value and consumption, or the same refusal
        let mut muts = crate::ops::mutations(g, &bs, false);
        let keep = if b.thorough { 24 } else { 8 };
        while muts.len() > keep {
            let i = g.below(muts.len() as u64) as usize;
            muts.swap_remove(i);
        }
        for x in muts {
            if x.len() > 600 {
                continue;
            }
            let sc = Script { chunks: gen_chunks(g, x.len()), intr: gen_intr(g, x.len()), stop: Stop::None };
            let slice_dr = match guarded(|| {
                let mut s = &x[..];
                T::deserialize(&mut s).map(|v| (v, x.len() - s.len()))
            }) {
                Ok(Ok((v, used))) => format!("ok {} pulled={}", canon_of(&v), used),
                Ok(Err(e)) => show_err(&e),
                Err(_) => "panic".into(),
            };
            let case = format!("decR {} {} {} {} dr", MODE, ty, hex(&x), sc.sexp());
            out.announce_timed(&case, 20);
            let o = run_reader::<T>("dr", &sc, &x);
            out.done();
            out.case(&case, &o);
            out.oracle("C11", o == slice_dr, &case, &format!("reader gave {} but the slice gave {}", o, slice_dr));
            let slice_fs = match guarded(|| borsh::from_slice::<T>(&x)) {
                Ok(Ok(v)) => format!("ok {} pulled={}", canon_of(&v), x.len()),
                Ok(Err(e)) => show_err(&e),
                Err(_) => "panic".into(),
            };
            let slice_tfs = match guarded(|| T::try_from_slice(&x)) {
                Ok(Ok(v)) => format!("ok {} pulled={}", canon_of(&v), x.len()),
                Ok(Err(e)) => show_err(&e),
                Err(_) => "panic".into(),
            };
            for (entry, want) in [("fr", &slice_fs), ("tfr", &slice_tfs)] {
                let case = format!("decR {} {} {} {} {}", MODE, ty, hex(&x), sc.sexp(), entry);
                out.announce_timed(&case, 20);
                let o = run_reader::<T>(entry, &sc, &x);
                out.done();
                out.case(&case, &o);
                out.oracle("C11", &o == want, &case, &format!("reader gave {} but the slice gave {}", o, want));
            }
        }
        // (b) a hard failure at every offset
        let offsets: Vec<usize> = if len <= 24 || b.thorough {
            (0..=len + 1).collect()
        } else {
            let mut x: Vec<usize> = (0..6).map(|_| g.below(len as u64 + 2) as usize).collect();
            x.push(0);
            x.push(len);
            x
        };
        for o_fail in offsets {
            let (code, _) = *g.pick(&KINDS);
            let id = g.below(1000) as u32;
            let sc = Script { chunks: gen_chunks(g, stream.len()), intr: gen_intr(g, stream.len()), stop: Stop::Fail(o_fail, code, id) };
            let case = format!("decR {} {} {} {} dr", MODE, ty, hex(&stream), sc.sexp());
            out.announce_timed(&case, 20);
            let o = run_reader::<T>("dr", &sc, &stream);
            out.done();
            out.case(&case, &o);
            if o_fail >= len {
                // a failure the decoder never reaches is invisible
                out.oracle("C11", o == format!("ok {} pulled={}", want, len), &case, &o);
            } else if code != 7 {
                // a genuine failure inside the value comes back with kind and message unchanged
                out.oracle("C11", o == format!("err {} {}", kind_sexp(code), script_msg(code, id)), &case, &o);
            }
        }
    }
}

/// byte vectors beyond the 1 MiB initial allocation, delivered in odd-sized chunks
pub fn c11_large(g: &mut Gen, out: &mut Sink, thorough: bool) {
    let sizes: Vec<usize> = if thorough {
        vec![(1 << 20) - 1, 1 << 20, (1 << 20) + 1, (1 << 21) + 5, 3 * (1 << 20)]
    } else {
        vec![(1 << 20) + 1]
    };
    for n in sizes {
        let v: Vec<u8> = (0..n).map(|i| (i * 31 + 7) as u8).collect();
        let bs = borsh::to_vec(&v).unwrap();
        let sc = Script {
            chunks: vec![65521, 131071, 4093],
            intr: vec![(4, 1), (1 << 20, 2), (g.below(n as u64) as usize, 1)],
            stop: Stop::None,
        };
        let case = format!("decR {} (seq vec u8) {} {} dr", MODE, hex(&bs), sc.sexp());
        let mut r = ScriptReader { sc: sc.clone(), data: &bs, pos: 0 };
        let res = guarded(|| <Vec<u8>>::deserialize_reader(&mut r));
        let ok = matches!(res, Ok(Ok(ref w)) if *w == v);
        // the observation is compared by digest: printing a megabyte list twice is pointless
        let o = match res {
            Ok(Ok(w)) => format!("ok {} pulled={}", canon_of(&w), r.pos),
            Ok(Err(e)) => show_err(&e),
            Err(_) => "panic".into(),
        };
        out.case(&case, &o);
        out.oracle("C11", ok && r.pos == bs.len(), &case, "large byte vector through a fragmenting reader differs");
    }
}

/// payloads around and above one kilobyte through `to_writer` (buffering or staging layers in
/// front of the writer change behaviour at such sizes): whole encoding, and a stop at several offsets
pub fn c12_large(g: &mut Gen, out: &mut Sink, thorough: bool) {
    fn one<T: Full>(v: T, g: &mut Gen, out: &mut Sink, thorough: bool) {
        let ty = T::ty();
        let vs = val_of(&v);
        let Some(full) = enc_obs(&v).1 else { return };
        let len = full.len();
        let sc = Script { chunks: gen_chunks(g, len), intr: gen_intr(g, len), stop: Stop::None };
        let case = format!("encW {} {} {}", ty, vs, sc.sexp());
        out.announce_timed(&case, 20);
        let (st, del) = run_writer(&sc, &v);
        out.done();
        out.case(&case, &format!("{} delivered={}", st, hex(&del)));
        out.oracle("C12", st == "ok" && del == full, &case,
                   &format!("{}: {} bytes delivered, differs from the {}-byte encoding (first difference at {})", st, del.len(), len,
                            del.iter().zip(full.iter()).position(|(a, b)| a != b).unwrap_or(del.len().min(len))));
        let mut ks = vec![0usize, 1, 3, 4, 5, len / 2, len - 1];
        for _ in 0..(if thorough { 8 } else { 2 }) {
            ks.push(g.below(len as u64) as usize);
        }
        for k in ks {
            let stop = if g.chance(1, 3) { Stop::Zero(k) } else { Stop::Fail(k, g.pick(&KINDS).0, g.below(1000) as u32) };
            let sc = Script { chunks: gen_chunks(g, len), intr: gen_intr(g, len), stop: stop.clone() };
            let case = format!("encW {} {} {}", ty, vs, sc.sexp());
            out.announce_timed(&case, 20);
            let (st, del) = run_writer(&sc, &v);
            out.done();
            out.case(&case, &format!("{} delivered={}", st, hex(&del)));
            let want = match stop {
                Stop::Zero(_) => "err writeZero writeZeroMsg".to_string(),
                Stop::Fail(_, code, id) => format!("err {} {}", kind_sexp(code), script_msg(code, id)),
                Stop::None => unreachable!(),
            };
            out.oracle("C12", st == want && del == full[..k], &case,
                       &format!("{} with {} bytes delivered (want {} and the first {} bytes of the encoding)", st, del.len(), want, k));
        }
    }
    let bytes = |g: &mut Gen, n: usize| -> Vec<u8> { (0..n).map(|i| (i as u8).wrapping_mul(13).wrapping_add(g.below(3) as u8)).collect() };
    for n in [1023usize, 1024, 1025, 2048, 4100] {
        one::<Vec<u8>>(bytes(g, n), g, out, thorough);
    }
    one::<String>("é".repeat(600), g, out, thorough);
    one::<(u8, Vec<u8>)>((7, bytes(g, 1500)), g, out, thorough);
    one::<(String, u32, Vec<u8>)>(("head".into(), 9, bytes(g, 1024)), g, out, thorough);
    one::<Vec<Vec<u8>>>(vec![bytes(g, 3), bytes(g, 1200), bytes(g, 2)], g, out, thorough);
    one::<Option<Box<[u8]>>>(Some(bytes(g, 1030).into_boxed_slice()), g, out, thorough);
}

pub fn run_writer<T: Full>(sc: &Script, v: &T) -> (String, Vec<u8>) {
    next_run();
    let mut w = ScriptWriter { sc: sc.clone(), delivered: Vec::new() };
    let res = guarded(|| borsh::to_writer(&mut w, v));
    let st = match res {
        Ok(Ok(())) => "ok".to_string(),
        Ok(Err(e)) => show_err(&e),
        Err(_) => "panic".into(),
    };
    (st, w.delivered)
}

/// C12: serialization is independent of the writer and transparent to its failures
pub fn c12<T: Full>(g: &mut Gen, b: &Budget, out: &mut Sink) {
    let ty = T::ty();
    for _ in 0..(b.values / 2).max(2) {
        let v = T::gen(g, 0);
        let vs = val_of(&v);
        let (eo, bs) = enc_obs(&v);
        // object_length agrees with to_vec (same refusals, same length)
        let case = format!("olen {} {}", ty, vs);
        let ol = match guarded(|| borsh::object_length(&v)) {
            Ok(Ok(n)) => format!("ok {}", n),
            Ok(Err(e)) => show_err(&e),
            Err(_) => "panic".into(),
        };
        out.case(&case, &ol);
        match &bs {
            Some(bs) => out.oracle("C12", ol == format!("ok {}", bs.len()), &case, &ol),
            None => out.oracle("C12", ol == eo, &case, &format!("object_length {} but to_vec {}", ol, eo)),
        }
        let full: Vec<u8> = bs.clone().unwrap_or_default();
        if full.len() > 96 {
            continue;
        }
        let len = full.len();
        // (a) splitting and interrupting writers deliver exactly the encoding
        for _ in 0..(if b.thorough { 8 } else { 3 }) {
            let sc = Script { chunks: gen_chunks(g, len), intr: gen_intr(g, len), stop: Stop::None };
            let case = format!("encW {} {} {}", ty, vs, sc.sexp());
            out.announce_timed(&case, 20);
            let (st, del) = run_writer(&sc, &v);
            out.done();
            out.case(&case, &format!("{} delivered={}", st, hex(&del)));
            if bs.is_some() {
                out.oracle("C12", st == "ok" && del == full, &case, &format!("{} delivered={}", st, hex(&del)));
            } else {
                out.oracle("C12", st == eo, &case, &format!("writer run gave {} but to_vec gave {}", st, eo));
            }
        }
        if bs.is_none() {
            continue;
        }
        // (b) the writer stops after k bytes, for every k
        for k in 0..=len {
            let stop = if g.chance(1, 3) {
                Stop::Zero(k)
            } else {
                let (code, _) = *g.pick(&KINDS);
                Stop::Fail(k, code, g.below(1000) as u32)
            };
            let sc = Script { chunks: gen_chunks(g, len), intr: gen_intr(g, len), stop: stop.clone() };
            let case = format!("encW {} {} {}", ty, vs, sc.sexp());
            out.announce_timed(&case, 20);
            let (st, del) = run_writer(&sc, &v);
            out.done();
            out.case(&case, &format!("{} delivered={}", st, hex(&del)));
            if k < len {
                let want = match stop {
                    Stop::Zero(_) => "err writeZero writeZeroMsg".to_string(),
                    Stop::Fail(_, code, id) => format!("err {} {}", kind_sexp(code), script_msg(code, id)),
                    Stop::None => unreachable!(),
                };
                out.oracle("C12", st == want && del == full[..k], &case,
                           &format!("{} delivered={} (want {} and the first {} bytes)", st, hex(&del), want, k));
            } else {
                out.oracle("C12", st == "ok" && del == full, &case, &format!("{} delivered={}", st, hex(&del)));
            }
        }
        // (c) fixed buffers of every capacity
        for cap in 0..=len + 1 {
            let mut buf = vec![0xAAu8; cap];
            let (st, room) = {
                let mut slice: &mut [u8] = &mut buf[..];
                let res = guarded(|| v.serialize(&mut slice));
                let st = match res {
                    Ok(Ok(())) => "ok".to_string(),
                    Ok(Err(e)) => show_err(&e),
                    Err(_) => "panic".into(),
                };
                (st, slice.len())
            };
            let written = &buf[..cap - room];
            let case = format!("encF {} {} {}", ty, vs, cap);
            out.case(&case, &format!("{} written={} room={}", st, hex(written), room));
            if cap >= len {
                out.oracle("C12", st == "ok" && written == &full[..] && room == cap - len, &case, &st);
            } else {
                // the buffer ran out after exactly `cap` bytes: those are the first `cap` bytes
                out.oracle("C12", st.starts_with("err writeZero") && written == &full[..cap] && room == 0, &case,
                           &format!("{} written={} room={} (want the first {} bytes)", st, hex(written), room, cap));
            }
        }
    }
}

// ------------------------------------------------------------------ C13: the io facade, op by op

fn io_err(e: &Error) -> String {
    format!("({})", show_err(e))
}

/// random operation sequences on `&[u8]`, `&mut [u8]` and `Vec<u8>` through `borsh::io`
pub fn io_ops(g: &mut Gen, n: usize, out: &mut Sink) {
    for _ in 0..n {
        // reader
        let dl = g.below(12) as usize;
        let data = g.bytes(dl);
        let k = 1 + g.below(10) as usize;
        let mut ops = Vec::new();
        let mut obs = Vec::new();
        let mut r: &[u8] = &data;
        for _ in 0..k {
            let len = match g.below(6) {
                0 => 0,
                1 => 1,
                _ => g.below(8) as usize,
            };
            let mut buf = vec![0u8; len];
            if g.chance(1, 2) {
                ops.push(format!("(read {})", len));
                let res = if g.chance(1, 2) { r.read(&mut buf) } else { (&mut r).read(&mut buf) };
                match res {
                    Ok(m) => obs.push(format!("(got {})", hex(&buf[..m]))),
                    Err(e) => obs.push(io_err(&e)),
                }
            } else {
                ops.push(format!("(rex {})", len));
                let res = if g.chance(1, 2) { r.read_exact(&mut buf) } else { (&mut r).read_exact(&mut buf) };
                match res {
                    Ok(()) => obs.push(format!("(got {})", hex(&buf))),
                    Err(e) => {
                        // the position after a failed read_exact is unspecified by std: stop here
                        obs.push(io_err(&e));
                        break;
                    }
                }
            }
        }
        let failed = obs.last().map(|o| o.starts_with("(err")).unwrap_or(false);
        let rest = if failed { "*".to_string() } else { hex(r) };
        out.case(&format!("ioR {} {} (ops {})", IO, hex(&data), ops.join(" ")), &format!("({}) rest={}", obs.join(" "), rest));
        // fixed slice writer
        let cap = g.below(10) as usize;
        let mut buf = vec![0u8; cap];
        let mut ops = Vec::new();
        let mut obs = Vec::new();
        let room;
        {
            let mut w: &mut [u8] = &mut buf[..];
            for _ in 0..(1 + g.below(8)) {
                let bl = g.below(6) as usize;
                let bs = g.bytes(bl);
                match g.below(5) {
                    0 | 1 => {
                        ops.push(format!("(w {})", hex(&bs)));
                        match if g.chance(1, 2) { w.write(&bs) } else { (&mut w).write(&bs) } {
                            Ok(m) => obs.push(format!("(n {})", m)),
                            Err(e) => obs.push(io_err(&e)),
                        }
                    }
                    2 | 3 => {
                        ops.push(format!("(wa {})", hex(&bs)));
                        match if g.chance(1, 2) { w.write_all(&bs) } else { (&mut w).write_all(&bs) } {
                            Ok(()) => obs.push("unit".into()),
                            Err(e) => obs.push(io_err(&e)),
                        }
                    }
                    _ => {
                        ops.push("fl".into());
                        match w.flush() {
                            Ok(()) => obs.push("unit".into()),
                            Err(e) => obs.push(io_err(&e)),
                        }
                    }
                }
            }
            room = w.len();
        }
        out.case(&format!("ioW {} {} (ops {})", IO, cap, ops.join(" ")),
                 &format!("({}) written={} room={}", obs.join(" "), hex(&buf[..cap - room]), room));
        // vec writer
        let mut v: Vec<u8> = Vec::new();
        let mut ops = Vec::new();
        let mut obs = Vec::new();
        for _ in 0..(1 + g.below(6)) {
            let bl = g.below(6) as usize;
                let bs = g.bytes(bl);
            match g.below(5) {
                0 | 1 => {
                    ops.push(format!("(w {})", hex(&bs)));
                    match Write::write(&mut v, &bs) {
                        Ok(m) => obs.push(format!("(n {})", m)),
                        Err(e) => obs.push(io_err(&e)),
                    }
                }
                2 | 3 => {
                    ops.push(format!("(wa {})", hex(&bs)));
                    match Write::write_all(&mut v, &bs) {
                        Ok(()) => obs.push("unit".into()),
                        Err(e) => obs.push(io_err(&e)),
                    }
                }
                _ => {
                    ops.push("fl".into());
                    match Write::flush(&mut v) {
                        Ok(()) => obs.push("unit".into()),
                        Err(e) => obs.push(io_err(&e)),
                    }
                }
            }
        }
        out.case(&format!("ioV {} (ops {})", IO, ops.join(" ")), &format!("({}) written={}", obs.join(" "), hex(&v)));
    }
}
