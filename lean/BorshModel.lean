import BorshModel.Basic
import BorshModel.Bytes
import BorshModel.Ty
import BorshModel.Ord
import BorshModel.Layout
import BorshModel.Typing
import BorshModel.Ser
import BorshModel.De
