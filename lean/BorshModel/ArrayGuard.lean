/-
  The `[T; N]` decoder's buffer and drop guard (borsh/src/de/mod.rs:774-830), as a state
  machine over events.  `plan i` is what the element decoder does at position `i`.
-/
import BorshModel.Basic
namespace Borsh

inductive ElemResult | ok | err | panic
  deriving DecidableEq, Repr, Inhabited

inductive Ev
  | construct (i : Nat)   -- the element decoder returned a value for slot `i`
  | dropElem (i : Nat)    -- `drop_in_place` ran on slot `i`
  | handOver (i : Nat)    -- slot `i` was moved to the caller as part of the returned array
  | touchUninit (i : Nat) -- an uninitialised slot was read or dropped (never happens: theorem)
  deriving DecidableEq, Repr, Inhabited

/-- `ArrayDropGuard`: slots are `none` (uninit) or `some i`; `initCount` as in the Rust struct -/
structure Guard where
  slots : List (Option Nat)
  initCount : Nat
  deriving Repr, Inhabited

/-- `impl Drop for ArrayDropGuard`: `drop_in_place(&mut buffer[..init_count])` -/
def Guard.dropEvents (g : Guard) : List Ev :=
  (g.slots.take g.initCount).mapIdx fun i s =>
    match s with
    | some _ => .dropElem i
    | none => .touchUninit i

/-- `fill_buffer`: `for elem in buffer.iter_mut() { elem.write(f()?); self.init_count += 1; }` -/
def fillBuffer (plan : Nat → ElemResult) : Nat → Guard → List Ev → Guard × List Ev × ElemResult
  | 0, g, evs => (g, evs, .ok)
  | n+1, g, evs =>
    let i := g.initCount
    match plan i with
    | .ok =>
      fillBuffer plan n ⟨g.slots.set i (some i), g.initCount + 1⟩ (evs ++ [.construct i])
    | r => (g, evs, r)

/-- `transmute_to_array`: `init_count = 0; ptr::read(buffer as [T; N])` -/
def transmute (g : Guard) : Guard × List Ev :=
  (⟨g.slots, 0⟩, g.slots.mapIdx fun i s =>
    match s with
    | some _ => .handOver i
    | none => .touchUninit i)

inductive ArrayOutcome | returned | failed | unwound
  deriving DecidableEq, Repr, Inhabited

/-- the generic path of `<[T; N]>::deserialize_reader` -/
def arrayRun (N : Nat) (plan : Nat → ElemResult) : List Ev × ArrayOutcome :=
  let g0 : Guard := ⟨List.replicate N none, 0⟩
  let (g, evs, r) := fillBuffer plan N g0 []
  match r with
  | .ok =>
    let (g', moved) := transmute g
    (evs ++ moved ++ g'.dropEvents, .returned)     -- the guard's drop sees init_count = 0
  | .err => (evs ++ g.dropEvents, .failed)         -- `?` returns, the guard is dropped
  | .panic => (evs ++ g.dropEvents, .unwound)      -- unwinding drops the guard

/-- The same run when the destructor of element `j` unwinds while the guard releases the built
prefix after an *error* return: `drop_in_place` on a slice goes on with the remaining elements (one
unwinding destructor; a second one would abort the process), so the events are those of `arrayRun`
and only the way the call ends differs. -/
def arrayRunDropPanic (N : Nat) (plan : Nat → ElemResult) (j : Nat) : List Ev × ArrayOutcome :=
  let r := arrayRun N plan
  (r.1, if r.2 == .failed && r.1.contains (.dropElem j) then .unwound else r.2)

end Borsh
