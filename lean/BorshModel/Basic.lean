/-
  Basic vocabulary of the borsh-rs model: bytes, names, error kinds / message
  classes, and the three-way outcome type `Out` (ok / err / panic) with an explicit
  bind.  Nothing here imports anything outside core, so the driver links as an
  executable.
-/
namespace Borsh

abbrev Bytes := List UInt8
/-- identifiers and declarations are UTF-8 bytes: `String` order in Rust is bytewise. -/
abbrev Name := List UInt8

/-- `io::ErrorKind`s that borsh itself constructs or that scripts inject. -/
inductive Kind
  | invalidData | unexpectedEof | interrupted | writeZero | outOfMemory | other
  | user (n : Nat)
  deriving DecidableEq, Repr, Inhabited

/-- who owns a tag byte: only the text of the "bad tag" message differs. -/
inductive TagK
  | bool | option | result | ipAddr | sockAddr | derived
  deriving DecidableEq, Repr, Inhabited

/-- message *classes* of the errors borsh produces (texts are compared by class). -/
inductive Msg
  | unexpectedLength      -- "Unexpected length of input"
  | notAllBytesRead       -- "Not all bytes read"
  | zst                   -- ERROR_ZST_FORBIDDEN
  | keyOrder              -- "keys were not serialized in ascending order"
  | nanSer | nanDe        -- the two NaN refusals
  | zeroNonZero           -- "Expected a non-zero value"
  | badTag (k : TagK) (b : UInt8)
  | utf8 | ascii
  | simple                -- `Error::from(ErrorKind)`: Display is the kind's own text
  | refCell               -- "already mutably borrowed"
  | eofFill               -- "failed to fill whole buffer"
  | writeZeroMsg          -- "failed to write whole buffer"
  | schemaMismatch        -- "Borsh schema does not match"
  | user (id : Nat)       -- a payload injected by a scripted reader/writer
  deriving DecidableEq, Repr, Inhabited

structure Err where
  kind : Kind
  msg  : Msg
  deriving DecidableEq, Repr, Inhabited

/-- partial operations in the Rust sources that are reachable from data. -/
inductive PanicSite
  | divByZero | countOverflow | sliceIndex | unwrapNone | assertRedefinition
  | unreachable | addOverflow | fuel
  deriving DecidableEq, Repr, Inhabited

inductive Out (α : Type) where
  | ok (a : α)
  | err (e : Err)
  | panic (p : PanicSite)
  deriving Repr, Inhabited

namespace Out

@[inline] def bind {α β : Type} (x : Out α) (f : α → Out β) : Out β :=
  match x with
  | .ok a => f a
  | .err e => .err e
  | .panic p => .panic p

@[inline] def map {α β : Type} (f : α → β) (x : Out α) : Out β :=
  match x with
  | .ok a => .ok (f a)
  | .err e => .err e
  | .panic p => .panic p

@[inline] def mapErr {α : Type} (f : Err → Err) (x : Out α) : Out α :=
  match x with
  | .ok a => .ok a
  | .err e => .err (f e)
  | .panic p => .panic p

def isOk {α : Type} : Out α → Bool
  | .ok _ => true
  | _ => false

def isPanic {α : Type} : Out α → Bool
  | .panic _ => true
  | _ => false

instance : Monad Out where
  pure := .ok
  bind := Out.bind

@[simp] theorem bind_ok {α β : Type} (a : α) (f : α → Out β) : (Out.ok a).bind f = f a := rfl
@[simp] theorem bind_err {α β : Type} (e : Err) (f : α → Out β) : (Out.err e : Out α).bind f = .err e := rfl
@[simp] theorem bind_panic {α β : Type} (p : PanicSite) (f : α → Out β) :
    (Out.panic p : Out α).bind f = .panic p := rfl
@[simp] theorem map_ok {α β : Type} (a : α) (f : α → β) : (Out.ok a).map f = .ok (f a) := rfl
@[simp] theorem map_err {α β : Type} (e : Err) (f : α → β) : (Out.err e : Out α).map f = .err e := rfl
@[simp] theorem map_panic {α β : Type} (p : PanicSite) (f : α → β) :
    (Out.panic p : Out α).map f = .panic p := rfl
@[simp] theorem mapErr_ok {α : Type} (a : α) (f : Err → Err) : (Out.ok a).mapErr f = .ok a := rfl
@[simp] theorem mapErr_err {α : Type} (e : Err) (f : Err → Err) :
    (Out.err e : Out α).mapErr f = .err (f e) := rfl
@[simp] theorem mapErr_panic {α : Type} (p : PanicSite) (f : Err → Err) :
    (Out.panic p : Out α).mapErr f = .panic p := rfl

theorem bind_eq_ok_iff {α β : Type} {x : Out α} {f : α → Out β} {b : β} :
    x.bind f = .ok b ↔ ∃ a, x = .ok a ∧ f a = .ok b := by
  cases x <;> simp [bind]

theorem map_eq_ok_iff {α β : Type} {x : Out α} {f : α → β} {b : β} :
    x.map f = .ok b ↔ ∃ a, x = .ok a ∧ f a = b := by
  cases x <;> simp [map]

theorem mapErr_eq_ok_iff {α : Type} {x : Out α} {f : Err → Err} {a : α} :
    x.mapErr f = .ok a ↔ x = .ok a := by
  cases x <;> simp [mapErr]

end Out

/-- the errors borsh constructs, by name -/
def eUnexpectedLength : Err := ⟨.invalidData, .unexpectedLength⟩
def eNotAllBytesRead  : Err := ⟨.invalidData, .notAllBytesRead⟩
def eZst              : Err := ⟨.invalidData, .zst⟩
def eKeyOrder         : Err := ⟨.invalidData, .keyOrder⟩
def eNanSer           : Err := ⟨.invalidData, .nanSer⟩
def eNanDe            : Err := ⟨.invalidData, .nanDe⟩
def eZero             : Err := ⟨.invalidData, .zeroNonZero⟩
def eBadTag (k : TagK) (b : UInt8) : Err := ⟨.invalidData, .badTag k b⟩
def eUtf8             : Err := ⟨.invalidData, .utf8⟩
def eAscii            : Err := ⟨.invalidData, .ascii⟩
/-- `ErrorKind::InvalidData.into()` (length does not fit `u32`) -/
def eLenOverflow      : Err := ⟨.invalidData, .simple⟩
/-- what `read_exact` reports when the stream ends early -/
def eEof              : Err := ⟨.unexpectedEof, .eofFill⟩
def eWriteZero        : Err := ⟨.writeZero, .writeZeroMsg⟩

/-- `unexpected_eof_to_unexpected_length_of_input` (de/mod.rs:138) -/
def mapEof (e : Err) : Err :=
  if e.kind = .unexpectedEof then eUnexpectedLength else e

end Borsh
