/-
  Little-endian fixed-width encodings (model of `to_le_bytes` / `from_le_bytes`).
-/
import BorshModel.Basic
namespace Borsh

/-- the `w` low-order base-256 digits of `n`, least significant first -/
def leBytes : Nat → Nat → Bytes
  | 0, _ => []
  | w+1, n => UInt8.ofNat (n % 256) :: leBytes w (n / 256)

/-- value of a little-endian digit string -/
def ofLe : Bytes → Nat
  | [] => 0
  | b :: bs => b.toNat + 256 * ofLe bs

@[simp] theorem leBytes_length (w n : Nat) : (leBytes w n).length = w := by
  induction w generalizing n with
  | zero => rfl
  | succ w ih => simp [leBytes, ih]

theorem ofLe_lt (bs : Bytes) : ofLe bs < 256 ^ bs.length := by
  induction bs with
  | nil => simp [ofLe]
  | cons b bs ih =>
    have hb : b.toNat < 256 := by
      have := UInt8.toNat_lt b; simpa using this
    simp only [ofLe, List.length_cons, Nat.pow_succ]
    omega

theorem ofLe_leBytes (w n : Nat) : ofLe (leBytes w n) = n % 256 ^ w := by
  induction w generalizing n with
  | zero => simp [leBytes, ofLe, Nat.mod_one]
  | succ w ih =>
    simp only [leBytes, ofLe, ih, UInt8.toNat_ofNat']
    have h256 : (2:Nat)^8 = 256 := by decide
    rw [h256, Nat.mod_mod, Nat.pow_succ, Nat.mul_comm (256^w) 256, Nat.mod_mul]

theorem leBytes_ofLe (bs : Bytes) : leBytes bs.length (ofLe bs) = bs := by
  induction bs with
  | nil => rfl
  | cons b bs ih =>
    have hb : b.toNat < 256 := by
      have := UInt8.toNat_lt b; simpa using this
    simp only [List.length_cons, leBytes, ofLe]
    have h1 : (b.toNat + 256 * ofLe bs) % 256 = b.toNat := by omega
    have h2 : (b.toNat + 256 * ofLe bs) / 256 = ofLe bs := by omega
    rw [h1, h2, ih]
    simp

/-- `u32::to_le_bytes` of a length -/
def u32le (n : Nat) : Bytes := leBytes 4 n

end Borsh
