/-
  `canon t v` — the logical normal form of a representation: exactly what the format
  carries.  Sets/maps in ascending key order, a deque as one run, skipped fields as
  their `Default`, the init hook applied.  `WfTy` — well-formedness of a type
  description (the side conditions under which the Rust type exists and is in the
  property's family).
-/
import BorshModel.De
namespace Borsh

/-- the canonical form of a map entry `[k, v]`, given the canonical forms of keys and values -/
def canonEntry (ck cv : Val → Val) : Val → Val
  | .list [a, b] => .list [ck a, cv b]
  | v => v

mutual
def canon : Ty → Val → Val
  | .seq _ t, .list vs => .list (vs.map (canon t))
  | .seq _ t, .deque a b => .deque ((a ++ b).map (canon t)) []
  | .set _ t, .list vs => .list ((sortByKey id vs).map (canon t))
  | .map k kt vt, .list es =>
    match k with
    | .indexMap => .list (es.map (canonEntry (canon kt) (canon vt)))
    | _ => .list ((sortByKey entryKey es).map (canonEntry (canon kt) (canon vt)))
  | .array _ t, .list vs => .list (vs.map (canon t))
  | .prod k fs, .list vs =>
    let r := canonFields fs vs
    .list (if k.init then applyInit r else r)
  | .sum k vs, .variant idx fvs =>
    let r := canonVariant vs idx fvs
    .variant idx (if k.init then applyInit r else r)
  | .wrap _ t, v => canon t v
  | _, v => v
def canonFields : List (Option Name × Bool × Ty) → List Val → List Val
  | (_, skip, t) :: fs, v :: vs =>
    (if skip then defaultOf t else canon t v) :: canonFields fs vs
  | _, _ => []
def canonVariant : List (Name × Nat × List (Option Name × Bool × Ty)) → Nat → List Val → List Val
  | [], _, _ => []
  | (_, _, fs) :: _, 0, fvs => canonFields fs fvs
  | _ :: vs, i+1, fvs => canonVariant vs i fvs
end

/-- tags of the variants as the bytes they are compared with -/
def variantTags (vs : List Variant) : List UInt8 := vs.map fun v => UInt8.ofNat v.2.1

mutual
/-- no set, map or index collection anywhere: canonical form needs no order reasoning -/
def plain : Ty → Bool
  | .seq k t => k != .indexSet && plain t
  | .set _ _ | .map _ _ _ => false
  | .array _ t => plain t
  | .prod _ fs => plainFields fs
  | .sum _ vs => plainVariants vs
  | .wrap _ t => plain t
  | _ => true
def plainFields : List (Option Name × Bool × Ty) → Bool
  | [] => true
  | (_, _, t) :: fs => plain t && plainFields fs
def plainVariants : List (Name × Nat × List (Option Name × Bool × Ty)) → Bool
  | [] => true
  | (_, _, fs) :: vs => plainFields fs && plainVariants vs
end

mutual
/-- key types: the canonical form of a value is the value itself (no hash collections, deques,
skipped fields or init hooks inside; ordered sets and maps of key types are fine - their
representation is already in key order), so ordering keys before or after decoding is the same -/
def keyTy : Ty → Bool
  | .int _ | .nonzero _ | .float _ | .bool | .str _ | .asciiChar | .raw _ | .custom _ => true
  | .seq k t => k != .vecDeque && keyTy t
  | .set k t => k == .btreeSet && keyTy t
  | .map k a b => k == .btreeMap && keyTy a && keyTy b
  | .array _ t => keyTy t
  | .prod k fs => !k.init && keyTyFields fs
  | .sum k vs => !k.init && keyTyVariants vs
  | .wrap _ t => keyTy t
def keyTyFields : List (Option Name × Bool × Ty) → Bool
  | [] => true
  | (_, skip, t) :: fs => !skip && keyTy t && keyTyFields fs
def keyTyVariants : List (Name × Nat × List (Option Name × Bool × Ty)) → Bool
  | [] => true
  | (_, _, fs) :: vs => keyTyFields fs && keyTyVariants vs
end

mutual
/-- every set element type, map key type and index-set element type is a key type -/
def keysOk : Ty → Bool
  | .seq k t => keysOk t && (k != .indexSet || keyTy t)
  | .set _ t => keysOk t && keyTy t
  | .map _ a b => keysOk a && keysOk b && keyTy a
  | .array _ t => keysOk t
  | .prod _ fs => keysOkFields fs
  | .sum _ vs => keysOkVariants vs
  | .wrap _ t => keysOk t
  | _ => true
def keysOkFields : List (Option Name × Bool × Ty) → Bool
  | [] => true
  | (_, _, t) :: fs => keysOk t && keysOkFields fs
def keysOkVariants : List (Name × Nat × List (Option Name × Bool × Ty)) → Bool
  | [] => true
  | (_, _, fs) :: vs => keysOkFields fs && keysOkVariants vs
end

mutual
/-- types whose decoder has no key-order check: no hash/ordered set or map anywhere (index
collections have no check in either mode) -/
def noOrderCheck : Ty → Bool
  | .seq _ t => noOrderCheck t
  | .set _ _ => false
  | .map k a b => k == .indexMap && noOrderCheck a && noOrderCheck b
  | .array _ t => noOrderCheck t
  | .prod _ fs => noOrderCheckFields fs
  | .sum _ vs => noOrderCheckVariants vs
  | .wrap _ t => noOrderCheck t
  | _ => true
def noOrderCheckFields : List (Option Name × Bool × Ty) → Bool
  | [] => true
  | (_, _, t) :: fs => noOrderCheck t && noOrderCheckFields fs
def noOrderCheckVariants : List (Name × Nat × List (Option Name × Bool × Ty)) → Bool
  | [] => true
  | (_, _, fs) :: vs => noOrderCheckFields fs && noOrderCheckVariants vs
end

mutual
/-- types on which strict-mode decoding is injective on accepted inputs ("accepted bytes
re-encode to themselves"): no index collections (finding F6: they accept repeated keys), no init
hooks (they change the decoded value), and skipped fields whose `Default` is a value of the type -/
def revTy : Ty → Bool
  | .seq k t => k != .indexSet && revTy t
  | .set _ t => revTy t
  | .map k a b => k != .indexMap && revTy a && revTy b
  | .array _ t => revTy t
  | .prod k fs => !k.init && revTyFields fs
  | .sum k vs => !k.init && revTyVariants vs
  | .wrap _ t => revTy t
  | _ => true
def revTyFields : List (Option Name × Bool × Ty) → Bool
  | [] => true
  | (_, skip, t) :: fs => (if skip then HasTy t (defaultOf t) else revTy t) && revTyFields fs
def revTyVariants : List (Name × Nat × List (Option Name × Bool × Ty)) → Bool
  | [] => true
  | (_, _, fs) :: vs => revTyFields fs && revTyVariants vs
end

mutual
def WfTy : Ty → Bool
  | .seq k t =>
    WfTy t && (k.serChecksZst || !memZero t) &&
      (if k.isBytes then t.isU8 else true)
  | .set _ t => WfTy t
  | .map _ a b => WfTy a && WfTy b
  | .array _ t => WfTy t
  | .prod _ fs => WfFields fs
  | .sum _ vs => WfVariants vs && (variantTags vs).Nodup
  | .wrap _ t => WfTy t
  | .custom t => t.isU32
  | _ => true
def WfFields : List (Option Name × Bool × Ty) → Bool
  | [] => true
  | (_, _, t) :: fs => WfTy t && WfFields fs
def WfVariants : List (Name × Nat × List (Option Name × Bool × Ty)) → Bool
  | [] => true
  | (_, _, fs) :: vs => WfFields fs && WfVariants vs
end

/-- Bool-valued checks on outcomes, for kernel-evaluated examples (`Val` has no `DecidableEq`) -/
def Out.okVal (o : Out Val) (v : Val) : Bool :=
  match o with
  | .ok w => Val.beq w v
  | _ => false
def Out.okBytes (o : Out Bytes) (bs : Bytes) : Bool :=
  match o with
  | .ok w => w == bs
  | _ => false
def Out.okValRest (o : Out (Val × Bytes)) (v : Val) (rest : Bytes) : Bool :=
  match o with
  | .ok w => Val.beq w.1 v && w.2 == rest
  | _ => false
def Out.errIs {α : Type} (o : Out α) (e : Err) : Bool :=
  match o with
  | .err e' => e' == e
  | _ => false

end Borsh
