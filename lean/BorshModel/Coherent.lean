/-
  Guarded items and unguarded names of a type's schema generation, and name coherence as a
  computable predicate (`coherentB`): the hypothesis of the C08 theorem for derived types, evaluated
  by the driver for every catalogue type.
-/
import BorshModel.SchemaWalk
namespace Borsh

/-! ### the guarded items and the unguarded names of a type -/

mutual
/-- the items behind a "declaration already present" guard that `add_definitions_recursively`
reaches: derived structs, the per-variant inner structs of derived enums (as the struct
`<Enum><Variant>`), and the raw address types -/
def items : Ty → List Ty
  | .raw k => [.raw k]
  | .seq _ t => items t
  | .set _ t => items t
  | .map _ a b => items a ++ items b
  | .array _ t => items t
  | .prod k fs =>
    match k with
    | .struct name i => .prod (.struct name i) fs :: itemsKept fs
    | .range | .rangeInclusive => itemsHead fs
    | _ => itemsFields fs
  | .sum k vs =>
    match k with
    | .option | .result => itemsVariants vs
    | .ipAddr | .derived _ _ => itemsInner (declOf (.sum k vs)) vs
    | .sockAddr => []
  | .wrap _ t => items t
  | .custom t => items t
  | _ => []
def itemsFields : List (Option Name × Bool × Ty) → List Ty
  | [] => []
  | (_, _, t) :: fs => items t ++ itemsFields fs
def itemsHead : List (Option Name × Bool × Ty) → List Ty
  | [] => []
  | (_, _, t) :: _ => items t
def itemsKept : List (Option Name × Bool × Ty) → List Ty
  | [] => []
  | (_, skip, t) :: fs => (if skip then [] else items t) ++ itemsKept fs
def itemsVariants : List (Name × Nat × List (Option Name × Bool × Ty)) → List Ty
  | [] => []
  | (_, _, fs) :: vs => itemsFields fs ++ itemsVariants vs
def itemsInner (decl : Name) : List (Name × Nat × List (Option Name × Bool × Ty)) → List Ty
  | [] => []
  | (vn, _, fs) :: vs => (.prod (.struct (decl ++ vn) false) fs :: itemsKept fs) ++ itemsInner decl vs
end

/-- name of the `[u8; n]` array inside a raw address type -/
def rawArr (k : RawK) : Name := n! "[u8; " ++ natName k.width ++ n! "]"

mutual
/-- the declarations `add_definitions_recursively` inserts without a guard -/
def plainNames : Ty → List Name
  | .int k => [declOf (.int k)]
  | .nonzero k => [declOf (.nonzero k)]
  | .float k => [declOf (.float k)]
  | .bool => [n! "bool"]
  | .str k => if k.isAscii then [n! "AsciiString", n! "AsciiChar"] else [n! "String", n! "u8"]
  | .asciiChar => [n! "AsciiChar"]
  | .raw k => [rawArr k, n! "u8"]
  | .seq k t => declOf (.seq k t) :: plainNames t
  | .set k t => declOf (.set k t) :: plainNames t
  | .map k a b =>
    declOf (.map k a b) :: (n! "(" ++ declOf a ++ n! ", " ++ declOf b ++ n! ")") :: (plainNames a ++ plainNames b)
  | .array n t => declOf (.array n t) :: plainNames t
  | .prod k fs =>
    match k with
    | .tuple => declOf (.prod k fs) :: plainNamesFields fs
    | .unit | .phantom => [n! "()"]
    | .rangeFull => [n! "RangeFull"]
    | .range | .rangeInclusive => declOf (.prod k fs) :: plainNamesHead fs
    | .rangeFrom | .rangeTo | .rangeToInclusive => declOf (.prod k fs) :: plainNamesFields fs
    | .sockV4 | .sockV6 => []
    | .struct _ _ => plainNamesKept fs
  | .sum k vs =>
    match k with
    | .option => declOf (.sum k vs) :: n! "()" :: plainNamesVariants vs
    | .result => declOf (.sum k vs) :: plainNamesVariants vs
    | .ipAddr | .derived _ _ => declOf (.sum k vs) :: plainNamesInner vs
    | .sockAddr => []
  | .wrap _ t => plainNames t
  | .custom t => plainNames t
def plainNamesFields : List (Option Name × Bool × Ty) → List Name
  | [] => []
  | (_, _, t) :: fs => plainNames t ++ plainNamesFields fs
def plainNamesHead : List (Option Name × Bool × Ty) → List Name
  | [] => []
  | (_, _, t) :: _ => plainNames t
def plainNamesKept : List (Option Name × Bool × Ty) → List Name
  | [] => []
  | (_, skip, t) :: fs => (if skip then [] else plainNames t) ++ plainNamesKept fs
def plainNamesVariants : List (Name × Nat × List (Option Name × Bool × Ty)) → List Name
  | [] => []
  | (_, _, fs) :: vs => plainNamesFields fs ++ plainNamesVariants vs
def plainNamesInner : List (Name × Nat × List (Option Name × Bool × Ty)) → List Name
  | [] => []
  | (_, _, fs) :: vs => plainNamesKept fs ++ plainNamesInner vs
end

mutual
/-- `Range<T>` / `RangeInclusive<T>` register their first field only; both fields have the same
type in Rust — this says so about the description -/
def rangesOk : Ty → Bool
  | .seq _ t => rangesOk t
  | .set _ t => rangesOk t
  | .map _ a b => rangesOk a && rangesOk b
  | .array _ t => rangesOk t
  | .prod k fs =>
    match k with
    | .range | .rangeInclusive =>
      (match fs with
       | [(_, _, a), (_, _, b)] => Ty.beq a b
       | _ => false) && rangesOkFields fs
    | .struct _ _ => rangesOkKept fs
    | _ => rangesOkFields fs
  | .sum k vs =>
    match k with
    | .ipAddr | .derived _ _ => rangesOkInner vs
    | _ => rangesOkVariants vs
  | .wrap _ t => rangesOk t
  | .custom t => rangesOk t
  | _ => true
def rangesOkFields : List (Option Name × Bool × Ty) → Bool
  | [] => true
  | (_, _, t) :: fs => rangesOk t && rangesOkFields fs
def rangesOkKept : List (Option Name × Bool × Ty) → Bool
  | [] => true
  | (_, skip, t) :: fs => (skip || rangesOk t) && rangesOkKept fs
def rangesOkVariants : List (Name × Nat × List (Option Name × Bool × Ty)) → Bool
  | [] => true
  | (_, _, fs) :: vs => rangesOkFields fs && rangesOkVariants vs
def rangesOkInner : List (Name × Nat × List (Option Name × Bool × Ty)) → Bool
  | [] => true
  | (_, _, fs) :: vs => rangesOkKept fs && rangesOkInner vs
end

/-- the items directly below a guarded item -/
def itemChildren : Ty → List Ty
  | .prod (.struct _ _) fs => itemsKept fs
  | _ => []

/-- **Name coherence**, computable: among the guarded items of the type a declaration identifies the
item; no item contains an item of its own name; no unguarded declaration of the type is the name of
an item; the two fields of every `Range` / `RangeInclusive` have one type -/
def coherentB (t : Ty) : Bool :=
  ((items t).all fun d => (items t).all fun d' => declOf d != declOf d' || Ty.beq d d') &&
  ((items t).all fun d => (itemChildren d).all fun s => declOf s != declOf d) &&
  ((plainNames t).all fun n => (items t).all fun d => declOf d != n) && rangesOk t

end Borsh
