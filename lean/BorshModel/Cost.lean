/-
  Allocation behaviour of the two places where the decoder sizes a buffer from untrusted input:
  the byte-vector loop (`u8::vec_from_reader`) and `Vec::with_capacity(hint::cautious::<T>(len))`.
-/
import BorshModel.De
namespace Borsh

/-- the buffer sizes the byte-vector loop requests (initial `vec![0; min(len, 1 MiB)]`, then one
`resize` per doubling) when the slice still holds `avail` bytes; `pos` bytes were received -/
def bulkAllocs : Nat → Nat → Nat → Nat → Nat → List Nat
  | 0, _, _, _, _ => []
  | fuel+1, len, cap, pos, avail =>
    if pos < len then
      let cap' := if pos == cap then min (2 * cap) len else cap
      let got := min (cap' - pos) avail
      (if pos == cap then [cap'] else []) ++
        (if got == 0 then [] else bulkAllocs fuel len cap' (pos + got) (avail - got))
    else []

/-- every request of `u8::vec_from_reader(len)` on a slice of `avail` bytes -/
def bulkRequests (len avail : Nat) : List Nat :=
  min len bulkCap :: bulkAllocs (len + 1) len (min len bulkCap) 0 avail

/-- `hint::cautious::<T>(hint)` with `el_size = size_of::<T>() as u32` -/
def cautious (elSize hint : Nat) : Out Nat :=
  let e := elSize % 2 ^ 32
  if e = 0 then .panic .divByZero else .ok (max (min hint (4096 / e)) 1)

theorem bulkAllocs_bound :
    ∀ (fuel len cap pos avail : Nat), pos ≤ cap → cap ≤ max bulkCap (2 * pos) →
      ∀ c ∈ bulkAllocs fuel len cap pos avail, c ≤ max bulkCap (2 * (pos + avail)) := by
  intro fuel
  induction fuel with
  | zero => intro len cap pos avail _ _ c hc; simp [bulkAllocs] at hc
  | succ fuel ih =>
    intro len cap pos avail hpc hcap c hc
    unfold bulkAllocs at hc
    split at hc
    · rename_i hlt
      by_cases he : pos = cap
      · subst he
        simp only [beq_self_eq_true, if_true, List.singleton_append, List.mem_cons] at hc
        cases hc with
        | inl h => subst h; omega
        | inr h =>
          split at h
          · simp at h
          · rename_i hg
            have := ih len (min (2 * pos) len) (pos + min (min (2 * pos) len - pos) avail)
              (avail - min (min (2 * pos) len - pos) avail) (by omega) (by omega) c h
            omega
      · have hne : (pos == cap) = false := by simp [he]
        simp only [hne, Bool.false_eq_true, if_false, List.nil_append] at hc
        split at hc
        · simp at hc
        · have := ih len cap (pos + min (cap - pos) avail) (avail - min (cap - pos) avail)
            (by omega) (by omega) c hc
          omega
    · simp at hc

/-- **A length prefix alone never causes a proportional allocation**: whatever `len` claims, every
buffer the byte-vector loop requests is at most 1 MiB or twice the bytes actually present. -/
theorem bulkRequests_bound (len avail : Nat) :
    ∀ c ∈ bulkRequests len avail, c ≤ max bulkCap (2 * avail) := by
  intro c hc
  simp only [bulkRequests, List.mem_cons] at hc
  cases hc with
  | inl h => subst h; omega
  | inr h =>
    have := bulkAllocs_bound (len + 1) len (min len bulkCap) 0 avail (Nat.zero_le _) (by omega) c h
    simpa using this

/-- the capacity hint is at most 4096 bytes worth of elements (or one element), whatever the
claimed length -/
theorem cautious_bound (elSize hint n : Nat) (h : cautious elSize hint = .ok n) (hs : elSize < 2 ^ 32) :
    1 ≤ n ∧ n * elSize ≤ max 4096 elSize := by
  unfold cautious at h
  have he : elSize % 2 ^ 32 = elSize := Nat.mod_eq_of_lt hs
  rw [he] at h
  dsimp only at h
  split at h
  · simp at h
  · rename_i hz
    simp at h
    subst h
    constructor
    · omega
    · have hpos : 0 < elSize := by omega
      have hdiv : 4096 / elSize * elSize ≤ 4096 := Nat.div_mul_le_self 4096 elSize
      by_cases hm : min hint (4096 / elSize) ≥ 1
      · have : max (min hint (4096 / elSize)) 1 = min hint (4096 / elSize) := by omega
        rw [this]
        have : min hint (4096 / elSize) * elSize ≤ 4096 / elSize * elSize :=
          Nat.mul_le_mul_right _ (Nat.min_le_right _ _)
        omega
      · have : max (min hint (4096 / elSize)) 1 = 1 := by omega
        rw [this]; omega

/-- the only way `cautious` can fail is an element type whose size is a multiple of 4 GiB -/
theorem cautious_no_panic (elSize hint : Nat) (h1 : 0 < elSize) (h2 : elSize < 2 ^ 32) :
    ∃ n, cautious elSize hint = .ok n := by
  unfold cautious
  have : elSize % 2 ^ 32 = elSize := Nat.mod_eq_of_lt h2
  rw [this]
  have : ¬ elSize = 0 := by omega
  dsimp only
  simp [this]

end Borsh
