/-
  `Impl.de` — executable model of `BorshDeserialize` (borsh/src/de/mod.rs and the
  derived impls), written once over an abstract reader.  Every read the Rust code
  issues is either `read_exact` on a buffer of known length or, for byte vectors
  only, the chunked loop of `u8::vec_from_reader`; these are the two fields of `Rd`.
-/
import BorshModel.Ser
namespace Borsh

structure Rd (σ : Type) where
  /-- `Read::read_exact` on a buffer of `n` bytes -/
  readExact : Nat → σ → Out (Bytes × σ)
  /-- `u8::vec_from_reader(len, reader)` for `len > 0` -/
  readBulk  : Nat → σ → Out (Bytes × σ)

/-- `for _ in 0..len { result.push(T::deserialize_reader(reader)?) }` -/
def repeatDe {σ : Type} (f : σ → Out (Val × σ)) : Nat → σ → Out (List Val × σ)
  | 0, s => .ok ([], s)
  | n+1, s =>
    (f s).bind fun r => (repeatDe f n r.2).bind fun rs => .ok (r.1 :: rs.1, rs.2)

/-- `read_exact(..).map_err(unexpected_eof_to_unexpected_length_of_input)` -/
def readMapped {σ : Type} (rd : Rd σ) (n : Nat) (s : σ) : Out (Bytes × σ) :=
  (rd.readExact n s).mapErr mapEof

/-- `u8::deserialize_reader` -/
def readU8 {σ : Type} (rd : Rd σ) (s : σ) : Out (UInt8 × σ) :=
  (readMapped rd 1 s).bind fun r =>
    match r.1 with
    | [b] => .ok (b, r.2)
    | _ => .panic .sliceIndex

/-- `u32::deserialize_reader` -/
def readU32 {σ : Type} (rd : Rd σ) (s : σ) : Out (Nat × σ) :=
  (readMapped rd 4 s).map fun r => (ofLe r.1, r.2)

def bytesVal (bs : Bytes) : List Val := bs.map fun b => .int b.toNat

/-- `Vec::<u8>::deserialize_reader` as used by `String`, `AsciiString`, `Bytes` -/
def deByteVec {σ : Type} (rd : Rd σ) (s : σ) : Out (Bytes × σ) :=
  (readU32 rd s).bind fun r =>
    if r.1 == 0 then .ok ([], r.2) else rd.readBulk r.1 r.2

/-- `Vec::<T>::deserialize_reader` after `check_zst`; `f` is `T::deserialize_reader` -/
def deVec {σ : Type} (rd : Rd σ) (isU8 : Bool) (f : σ → Out (Val × σ)) (s : σ) :
    Out (List Val × σ) :=
  (readU32 rd s).bind fun r =>
    if r.1 == 0 then .ok ([], r.2)
    else if isU8 then (rd.readBulk r.1 r.2).map fun q => (bytesVal q.1, q.2)
    else repeatDe f r.1 r.2

/-- a map entry `(K, V)`: the key, then the value -/
def deEntry {σ : Type} (dk dv : σ → Out (Val × σ)) (s : σ) : Out (Val × σ) :=
  (dk s).bind fun a => (dv a.2).map fun b => (.list [a.1, b.1], b.2)

/-- the init hook of the generated fixtures: the last field (a skipped counter) is incremented -/
def applyInit : List Val → List Val
  | [] => []
  | [.int i] => [.int (i + 1)]
  | [v] => [v]
  | v :: vs => v :: applyInit vs

def ProdK.init : ProdK → Bool
  | .struct _ i => i
  | _ => false
def SumK.init : SumK → Bool
  | .derived _ i => i
  | _ => false

def initVariant (b : Bool) : Val → Val
  | .variant i fs => .variant i (if b then applyInit fs else fs)
  | v => v

mutual
def de {σ : Type} (rd : Rd σ) (strict : Bool) : Ty → σ → Out (Val × σ)
  | .int k, s => (readMapped rd k.width s).map fun r => (.int (decInt k r.1), r.2)
  | .nonzero k, s =>
    (readMapped rd k.width s).bind fun r =>
      let i := decInt k r.1
      if i == 0 then .err eZero else .ok (.int i, r.2)
  | .float k, s =>
    (readMapped rd k.width s).bind fun r =>
      let b := ofLe r.1
      if isNanBits k b then .err eNanDe else .ok (.int b, r.2)
  | .bool, s =>
    (readU8 rd s).bind fun r =>
      if r.1 == 0 then .ok (.bool false, r.2)
      else if r.1 == 1 then .ok (.bool true, r.2)
      else .err (eBadTag .bool r.1)
  | .str k, s =>
    (deByteVec rd s).bind fun r =>
      if k.isAscii then (if allAscii r.1 then .ok (.blob r.1, r.2) else .err eAscii)
      else (if validUtf8 r.1 then .ok (.blob r.1, r.2) else .err eUtf8)
  | .asciiChar, s =>
    (readU8 rd s).bind fun r =>
      if r.1 < 128 then .ok (.int r.1.toNat, r.2) else .err eAscii
  | .raw k, s =>
    (readMapped rd k.width s).map fun r => (.blob r.1, r.2)
  | .seq k t, s =>
    match k with
    | .bytesMut =>
      (readU32 rd s).bind fun r =>
        (repeatDe (fun s => (readU8 rd s).map fun b => (Val.int b.1.toNat, b.2)) r.1 r.2).map
          fun q => (.list q.1, q.2)
    | _ =>
      if memZero t then .err eZst
      else (deVec rd t.isU8 (de rd strict t) s).map fun r =>
        match k with
        | .vecDeque => (.deque r.1 [], r.2)
        | .indexSet => (.list (collectIndexSet r.1), r.2)
        | _ => (.list r.1, r.2)
  | .set _ t, s =>
    if memZero t then .err eZst
    else (deVec rd t.isU8 (de rd strict t) s).bind fun r =>
      if strict && !strictlyAscending id r.1 then .err eKeyOrder
      else .ok (.list (collectSet r.1), r.2)
  | .map k kt vt, s =>
    if memZero kt then .err eZst
    else (deVec rd false (deEntry (de rd strict kt) (de rd strict vt)) s).bind fun r =>
      match k with
      | .indexMap => .ok (.list (collectIndexMap r.1), r.2)
      | _ =>
        if strict && !strictlyAscending entryKey r.1 then .err eKeyOrder
        else .ok (.list (collectMap r.1), r.2)
  | .array n t, s =>
    if t.isU8 then (readMapped rd n s).map fun r => (.list (bytesVal r.1), r.2)
    else (repeatDe (de rd strict t) n s).map fun r => (.list r.1, r.2)
  | .prod k fs, s =>
    (deFields rd strict fs s).map fun r => (.list (if k.init then applyInit r.1 else r.1), r.2)
  | .sum k vs, s =>
    (readU8 rd s).bind fun r =>
      (deVariants rd strict k.tagK vs r.1 0 r.2).map fun q => (initVariant k.init q.1, q.2)
  | .wrap _ t, s => de rd strict t s
  | .custom _, s => (readMapped rd 4 s).map fun r => (.int (ofLe r.1.reverse), r.2)
/-- fields in declaration order; a skipped field is `Default::default()` and reads nothing -/
def deFields {σ : Type} (rd : Rd σ) (strict : Bool) :
    List (Option Name × Bool × Ty) → σ → Out (List Val × σ)
  | [], s => .ok ([], s)
  | (_, skip, t) :: fs, s =>
    if skip then (deFields rd strict fs s).map fun r => (defaultOf t :: r.1, r.2)
    else (de rd strict t s).bind fun a =>
      (deFields rd strict fs a.2).map fun r => (a.1 :: r.1, r.2)
/-- `if tag == d₀ {…} else if tag == d₁ {…} else { Err(InvalidData) }` -/
def deVariants {σ : Type} (rd : Rd σ) (strict : Bool) (tk : TagK) :
    List (Name × Nat × List (Option Name × Bool × Ty)) → UInt8 → Nat → σ → Out (Val × σ)
  | [], tag, _, _ => .err (eBadTag tk tag)
  | (_, g, fs) :: vs, tag, idx, s =>
    if UInt8.ofNat g == tag then (deFields rd strict fs s).map fun r => (.variant idx r.1, r.2)
    else deVariants rd strict tk vs tag (idx + 1) s
end

/-! ### the slice reader (`impl Read for &[u8]`, same in std and in the shim) -/

/-- `<&[u8] as Read>::read` with a buffer of `n` bytes -/
def sliceRead (n : Nat) (bs : Bytes) : Out (Bytes × Bytes) := .ok (bs.take n, bs.drop n)

/-- `n ≤ bs.length`, walking at most `n` cells (the length of the whole remaining input is never
computed: a decode is linear in what it consumes) -/
def lengthGe : Bytes → Nat → Bool
  | _, 0 => true
  | [], _+1 => false
  | _ :: t, n+1 => lengthGe t n

theorem lengthGe_iff (bs : Bytes) (n : Nat) : lengthGe bs n = true ↔ n ≤ bs.length := by
  induction bs generalizing n with
  | nil => cases n <;> simp [lengthGe]
  | cons b t ih => cases n <;> simp [lengthGe, ih]

/-- `<&[u8] as Read>::read_exact` -/
def sliceReadExact (n : Nat) (bs : Bytes) : Out (Bytes × Bytes) :=
  if lengthGe bs n then .ok (bs.take n, bs.drop n) else .err eEof

/-- 1 MiB: the initial allocation cap of `u8::vec_from_reader` -/
def bulkCap : Nat := 2 ^ 20

/--
The loop of `u8::vec_from_reader` (de/mod.rs:164-183) over a primitive `read`:
`cap` is `vec.len()`, `acc` the bytes received so far (`pos = acc.length`).
-/
def bulkLoop {σ : Type} (read : Nat → σ → Out (Bytes × σ)) :
    Nat → Nat → Nat → Bytes → σ → Out (Bytes × σ)
  | 0, _, _, _, _ => .panic .fuel
  | fuel+1, len, cap, acc, s =>
    if acc.length < len then
      let cap' := if acc.length == cap then min (2 * cap) len else cap
      (read (cap' - acc.length) s).bind fun r =>
        if r.1.length == 0 then .err eUnexpectedLength
        else bulkLoop read fuel len cap' (acc ++ r.1) r.2
    else .ok (acc, s)

def bulkRead {σ : Type} (read : Nat → σ → Out (Bytes × σ)) (fuel len : Nat) (s : σ) :
    Out (Bytes × σ) :=
  bulkLoop read fuel len (min len bulkCap) [] s

def Rd.slice : Rd Bytes where
  readExact := sliceReadExact
  readBulk len bs := bulkRead sliceRead (len + 1) len bs

/-! ### entry points -/

/-- `BorshDeserialize::deserialize(&mut &[u8])`: value and remaining slice -/
def deserialize (strict : Bool) (t : Ty) (bs : Bytes) : Out (Val × Bytes) :=
  de Rd.slice strict t bs

/-- successive `deserialize` calls on one buffer -/
def deserializeMany (strict : Bool) : List Ty → Bytes → Out (List Val × Bytes)
  | [], bs => .ok ([], bs)
  | t :: ts, bs =>
    (deserialize strict t bs).bind fun r =>
      (deserializeMany strict ts r.2).map fun q => (r.1 :: q.1, q.2)

/-- `from_slice` / `try_from_slice` -/
def fromSlice (strict : Bool) (t : Ty) (bs : Bytes) : Out Val :=
  (deserialize strict t bs).bind fun r =>
    if r.2.isEmpty then .ok r.1 else .err eNotAllBytesRead

/-- `deserialize_reader` over any reader -/
def deserializeReader {σ : Type} (rd : Rd σ) (strict : Bool) (t : Ty) (s : σ) : Out (Val × σ) :=
  de rd strict t s

/-- `from_reader` / `try_from_reader`: decode, then probe for exactly one more byte -/
def fromReader {σ : Type} (rd : Rd σ) (strict : Bool) (t : Ty) (s : σ) : Out (Val × σ) :=
  (de rd strict t s).bind fun r =>
    match rd.readExact 1 r.2 with
    | .err e => if e.kind = .unexpectedEof then .ok (r.1, r.2) else .err eNotAllBytesRead
    | .ok _ => .err eNotAllBytesRead
    | .panic p => .panic p

end Borsh
