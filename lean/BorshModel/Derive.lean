/-
  The derive macros (borsh-derive): tag assignment (`enum_discriminant.rs`), attribute checks
  (`attributes/item`, `attributes/field`, `attributes/mod`), and what rustc does with the
  generated tag expressions — as a decision function over a surface description of items.
-/
import BorshModel.Ty
namespace Borsh
namespace Derive

/-- the discriminant the compiler assigns to each variant: the explicit one, else previous + 1,
the first is 0 (`Discriminants::new`) -/
def discriminants : List (Option Int) → Int → List Int
  | [], _ => []
  | some d :: rest, _ => d :: discriminants rest (d + 1)
  | none :: rest, next => next :: discriminants rest (next + 1)

/-- what `Discriminants::get` hands to the generated code: the ordinal as `u8`, or the
discriminant expression (typed `u8` by `let variant_idx: u8 = …`) -/
def tagsOf (useDiscr : Bool) (ds : List (Option Int)) : List Nat :=
  if useDiscr then (discriminants ds 0).map fun d => d.toNat
  else List.range ds.length

/-! ### acceptance -/

inductive FieldAttr
  | skip | serializeWith | deserializeWith | bound | schemaParams | schemaFuncs
  | unknown                        -- a key outside the documented set
  deriving DecidableEq, Repr, Inhabited

structure FieldDef where
  /-- the keys inside each `#[borsh(...)]` attribute on the field -/
  attrs : List (List FieldAttr)
  deriving DecidableEq, Repr, Inhabited

inductive ItemAttr
  | useDiscriminant (v : Option Bool)   -- `none`: a value other than true/false
  | init | crate_
  | unknown
  deriving DecidableEq, Repr, Inhabited

structure VariantDef where
  discr : Option Int
  fields : List FieldDef
  deriving DecidableEq, Repr, Inhabited

inductive ItemDef
  | struct_ (attrs : List (List ItemAttr)) (fields : List FieldDef)
  | enum_ (attrs : List (List ItemAttr)) (variants : List VariantDef)
  | union_
  deriving DecidableEq, Repr, Inhabited

inductive Reject
  | union_ | multipleBorshAttrs | unknownItemKey | unknownFieldKey
  | useDiscriminantOnStruct | useDiscriminantNotBool | explicitDiscriminantWithoutSetting
  | tooManyVariants | discriminantOutOfRange | skipConflict
  deriving DecidableEq, Repr, Inhabited

/-- a key outside the documented set inside a field's `#[borsh(...)]` -/
def FieldDef.hasUnknown (f : FieldDef) : Bool := f.attrs.flatten.contains .unknown

/-- `skip` together with `serialize_with` / `deserialize_with` / a schema override -/
def FieldDef.conflict (f : FieldDef) : Bool :=
  f.attrs.flatten.contains .skip &&
    (f.attrs.flatten.contains .serializeWith || f.attrs.flatten.contains .deserializeWith ||
     f.attrs.flatten.contains .schemaParams || f.attrs.flatten.contains .schemaFuncs)

/-- `field::Attributes::parse` + `check` + `check_schema` on one field -/
def checkField (f : FieldDef) : Option Reject :=
  if f.attrs.length > 1 then some .multipleBorshAttrs
  else if f.hasUnknown then some .unknownFieldKey
  else if f.conflict then some .skipConflict
  else none

def checkFields (fs : List FieldDef) : Option Reject :=
  fs.findSome? checkField

/-- the last `use_discriminant = …` wins (`parse_nested_meta` overwrites) -/
def useDiscrSetting (keys : List ItemAttr) : Option (Option Bool) :=
  keys.foldl (fun acc k => match k with
    | .useDiscriminant v => some v
    | _ => acc) none

def hasUnknownItemKey (attrs : List (List ItemAttr)) : Bool := attrs.flatten.contains .unknown

/-- does the item compile with the three derives? -/
def accepts : ItemDef → Option Reject
  | .union_ => some .union_
  | .struct_ attrs fields =>
    if attrs.length > 1 then some .multipleBorshAttrs
    else if hasUnknownItemKey attrs then some .unknownItemKey
    else if (useDiscrSetting attrs.flatten).isSome then some .useDiscriminantOnStruct
    else checkFields fields
  | .enum_ attrs variants =>
    if attrs.length > 1 then some .multipleBorshAttrs
    else if hasUnknownItemKey attrs then some .unknownItemKey
    else if variants.length > 256 then some .tooManyVariants
    else match useDiscrSetting attrs.flatten with
      | some none => some .useDiscriminantNotBool
      | none =>
        if variants.any (fun v => v.discr.isSome) then some .explicitDiscriminantWithoutSetting
        else (variants.findSome? fun v => checkFields v.fields)
      | some (some use) =>
        if use && (discriminants (variants.map (·.discr)) 0).any (fun d => d < 0 || 255 < d)
        then some .discriminantOutOfRange
        else (variants.findSome? fun v => checkFields v.fields)

end Derive
end Borsh
