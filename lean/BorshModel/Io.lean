/-
  Scripted readers and writers, and the `read_exact` / `write_all` loops of both io
  implementations (std's defaults as documented, and borsh/src/nostd_io.rs).

  A script is positional: what a `read`/`write` call does depends on the stream offset
  (how many bytes were delivered so far), not on how many calls were made, so that the
  observable outcome is independent of how many calls a refactoring of borsh issues.
-/
import BorshModel.De
namespace Borsh

/-- what a scripted endpoint does when it stops for good -/
inductive Stop
  | fail (kind : Kind) (msgId : Nat)     -- `Err(Error::new(kind, "user:<id>"))`
  | zero                                  -- writers only: `Ok(0)`
  deriving DecidableEq, Repr, Inhabited

structure Script where
  /-- chunk limits, indexed cyclically by stream offset (empty = unlimited) -/
  chunks : List Nat
  /-- a hard stop at this offset -/
  stop   : Option (Nat × Stop)
  deriving Repr, Inhabited

def Script.chunkAt (sc : Script) (o : Nat) : Nat :=
  match sc.chunks with
  | [] => 0
  | cs => cs.getD (o % cs.length) 0

/-- `0` stands for "no limit" -/
def limit (c n : Nat) : Nat := if c = 0 then n else min c n

def userErr (k : Kind) (id : Nat) : Err := ⟨k, .user id⟩

def stopOffsets (sc : Script) : List Nat :=
  match sc.stop with
  | some (o, _) => [o]
  | none => []

/-- distance from `pos` to the next scripted event (a stop or a pending interrupt) strictly
ahead, `0` if there is none: a transfer never crosses an event, so every event is met -/
def eventCap (sc : Script) (intr : List (Nat × Nat)) (pos : Nat) : Nat :=
  let ahead := (stopOffsets sc ++ (intr.filter fun p => p.2 > 0).map (·.1)).filter fun o => o > pos
  match ahead with
  | [] => 0
  | o :: os => os.foldl (fun m x => min m (x - pos)) (o - pos)

/-- bytes moved by one call: buffer length, chunk limit and event cap -/
def xferLen (sc : Script) (intr : List (Nat × Nat)) (pos n : Nat) : Nat :=
  limit (eventCap sc intr pos) (limit (sc.chunkAt pos) n)

/-! ### readers -/

structure RState where
  data : Bytes
  pos  : Nat
  /-- pending `Interrupted` results: (offset, how many) -/
  intr : List (Nat × Nat)
  deriving Repr, Inhabited

def pendingAt : List (Nat × Nat) → Nat → Nat
  | [], _ => 0
  | (o', n) :: rest, o => (if o' == o then n else 0) + pendingAt rest o

def consumeIntr : List (Nat × Nat) → Nat → List (Nat × Nat)
  | [], _ => []
  | (o', n) :: rest, o =>
    if o' == o && n > 0 then (o', n - 1) :: rest else (o', n) :: consumeIntr rest o

def totalPending : List (Nat × Nat) → Nat
  | [] => 0
  | (_, n) :: rest => n + totalPending rest

/-- one `Read::read` call on the scripted reader with a buffer of `n > 0` bytes -/
def scriptRead (sc : Script) (n : Nat) (s : RState) : Out (Bytes × RState) :=
  if pendingAt s.intr s.pos > 0 then
    -- the state change (one interrupt consumed) is carried in the error path by the loops below
    .err ⟨.interrupted, .simple⟩
  else match sc.stop with
    | some (o, .fail k id) =>
      if o == s.pos then .err (userErr k id)
      else
        let got := (s.data.drop s.pos).take (xferLen sc s.intr s.pos n)
        .ok (got, { s with pos := s.pos + got.length })
    | _ =>
      let got := (s.data.drop s.pos).take (xferLen sc s.intr s.pos n)
      .ok (got, { s with pos := s.pos + got.length })

/-- the state after an `Interrupted` result -/
def afterIntr (s : RState) : RState := { s with intr := consumeIntr s.intr s.pos }

/--
`default_read_exact` (identical in std and in nostd_io.rs:944): loop until the buffer is
full; `Ok(0)` ends the loop (then `UnexpectedEof`), `Interrupted` retries, other errors return.
-/
def readExactLoop (sc : Script) : Nat → Nat → Bytes → RState → Out (Bytes × RState)
  | 0, _, _, _ => .panic .fuel
  | fuel+1, n, acc, s =>
    if acc.length < n then
      match scriptRead sc (n - acc.length) s with
      | .ok (got, s') =>
        if got.length == 0 then .err eEof
        else readExactLoop sc fuel n (acc ++ got) s'
      | .err e =>
        if e.kind = .interrupted then readExactLoop sc fuel n acc (afterIntr s) else .err e
      | .panic p => .panic p
    else .ok (acc, s)

def Std.readExact (sc : Script) (n : Nat) (s : RState) : Out (Bytes × RState) :=
  readExactLoop sc (n + totalPending s.intr + 1) n [] s

def NoStd.readExact (sc : Script) (n : Nat) (s : RState) : Out (Bytes × RState) :=
  readExactLoop sc (n + totalPending s.intr + 1) n [] s

/-- the loop of `u8::vec_from_reader` over the scripted `read`, `Interrupted` retried -/
def bulkLoopI (sc : Script) : Nat → Nat → Nat → Bytes → RState → Out (Bytes × RState)
  | 0, _, _, _, _ => .panic .fuel
  | fuel+1, len, cap, acc, s =>
    if acc.length < len then
      let cap' := if acc.length == cap then min (2 * cap) len else cap
      match scriptRead sc (cap' - acc.length) s with
      | .ok (got, s') =>
        if got.length == 0 then .err eUnexpectedLength
        else bulkLoopI sc fuel len cap' (acc ++ got) s'
      | .err e =>
        if e.kind = .interrupted then bulkLoopI sc fuel len cap' acc (afterIntr s) else .err e
      | .panic p => .panic p
    else .ok (acc, s)

def Rd.script (sc : Script) : Rd RState where
  readExact n s := Std.readExact sc n s
  readBulk len s := bulkLoopI sc (len + totalPending s.intr + 1) len (min len bulkCap) [] s

/-! ### writers -/

structure WState where
  delivered : Bytes
  intr : List (Nat × Nat)
  deriving Repr, Inhabited

/-- one `Write::write` call with a non-empty buffer -/
def scriptWrite (sc : Script) (buf : Bytes) (w : WState) : Out (Nat × WState) :=
  let o := w.delivered.length
  if pendingAt w.intr o > 0 then .err ⟨.interrupted, .simple⟩
  else match sc.stop with
    | some (so, st) =>
      if so == o then
        match st with
        | .zero => .ok (0, w)
        | .fail k id => .err (userErr k id)
      else
        let n := xferLen sc w.intr o buf.length
        .ok (n, { w with delivered := w.delivered ++ buf.take n })
    | none =>
      let n := xferLen sc w.intr o buf.length
      .ok (n, { w with delivered := w.delivered ++ buf.take n })

def afterIntrW (w : WState) : WState := { w with intr := consumeIntr w.intr w.delivered.length }

/-- `Write::write_all` (std default and nostd_io.rs:504): loop while the buffer is non-empty;
`Ok(0)` is `WriteZero`, `Interrupted` retries -/
def writeAllLoop (sc : Script) : Nat → Bytes → WState → WState × Out Unit
  | 0, _, w => (w, .panic .fuel)
  | fuel+1, buf, w =>
    if buf.isEmpty then (w, .ok ())
    else match scriptWrite sc buf w with
      | .ok (n, w') =>
        if n == 0 then (w', .err eWriteZero) else writeAllLoop sc fuel (buf.drop n) w'
      | .err e =>
        if e.kind = .interrupted then writeAllLoop sc fuel buf (afterIntrW w) else (w, .err e)
      | .panic p => (w, .panic p)

def writeAll (sc : Script) (buf : Bytes) (w : WState) : WState × Out Unit :=
  writeAllLoop sc (buf.length + totalPending w.intr + 1) buf w

/-- run a serializer trace against the scripted writer: each chunk through `write_all`, the
first writer error ends the run; then the serializer's own status -/
def runTrace (sc : Script) : List Bytes → Out Unit → WState → WState × Out Unit
  | [], status, w => (w, status)
  | c :: cs, status, w =>
    match writeAll sc c w with
    | (w', .ok ()) => runTrace sc cs status w'
    | (w', r) => (w', r)

/-- `borsh::to_writer` into a scripted writer -/
def toWriterScript (sc : Script) (intr : List (Nat × Nat)) (t : Ty) (v : Val) : WState × Out Unit :=
  let tr := ser t v
  runTrace sc tr.chunks tr.status ⟨[], intr⟩

/-! ### `&mut [u8]` -/

/-- `write_all` on a fixed slice of `cap` remaining bytes: all or the fitting prefix + WriteZero -/
def fixedWriteAll (buf : Bytes) (st : Bytes × Nat) : (Bytes × Nat) × Out Unit :=
  let (written, room) := st
  let n := min buf.length room
  ((written ++ buf.take n, room - n), if n == buf.length then .ok () else .err eWriteZero)

def runTraceFixed : List Bytes → Out Unit → Bytes × Nat → (Bytes × Nat) × Out Unit
  | [], status, st => (st, status)
  | c :: cs, status, st =>
    match fixedWriteAll c st with
    | (st', .ok ()) => runTraceFixed cs status st'
    | (st', r) => (st', r)

/-- `value.serialize(&mut &mut buf[..])` for a buffer of capacity `cap` -/
def toFixedBuffer (cap : Nat) (t : Ty) (v : Val) : (Bytes × Nat) × Out Unit :=
  let tr := ser t v
  runTraceFixed tr.chunks tr.status ([], cap)

/-! ### `object_length` -/

/-- the length-only writer with `checked_add` -/
def runTraceLen : List Bytes → Out Unit → Nat → Out Nat
  | [], status, n => status.map fun _ => n
  | c :: cs, status, n =>
    if n + c.length < 2 ^ 64 then runTraceLen cs status (n + c.length)
    else .err ⟨.outOfMemory, .simple⟩

def objectLength (t : Ty) (v : Val) : Out Nat :=
  let tr := ser t v
  runTraceLen tr.chunks tr.status 0

end Borsh
