/-
  The io facade on slices and vectors, operation by operation: `impl Read for &[u8]`,
  `impl Write for &mut [u8]`, `impl Write for Vec<u8>` and the `&mut R` / `&mut W` forwarding,
  once as std::io documents them (`Std`) and once as borsh/src/nostd_io.rs implements them
  (`NoStd`).  Outcomes are compared wherever std::io specifies them; after a failed
  `read_exact` std leaves the position unspecified, so a run ends there.
-/
import BorshModel.De
namespace Borsh

inductive IoOp
  | read (n : Nat)          -- `read(&mut [0; n])`
  | readExact (n : Nat)     -- `read_exact(&mut [0; n])`
  | write (bs : Bytes)      -- `write(bs)`
  | writeAll (bs : Bytes)   -- `write_all(bs)`
  | flush
  deriving Repr, DecidableEq, Inhabited

/-- what one operation returned -/
inductive IoObs
  | got (bs : Bytes)        -- bytes read
  | count (n : Nat)         -- bytes written by `write`
  | unit                    -- `Ok(())`
  | failed (e : Err)
  deriving Repr, DecidableEq, Inhabited

namespace Std
/-- `impl Read for &[u8]` as documented: `read` copies `min(buf.len(), self.len())` bytes and
advances; `read_exact` fails with `UnexpectedEof` when the slice is shorter than the buffer -/
def readerOps : List IoOp → Bytes → List IoObs × Bytes
  | [], s => ([], s)
  | .read n :: ops, s =>
    let r := readerOps ops (s.drop n)
    (.got (s.take n) :: r.1, r.2)
  | .readExact n :: ops, s =>
    if n ≤ s.length then
      let r := readerOps ops (s.drop n)
      (.got (s.take n) :: r.1, r.2)
    else ([.failed eEof], s)
  | _ :: ops, s => readerOps ops s

/-- `impl Write for &mut [u8]`: `write` copies what fits; `write_all` writes what fits and
reports `WriteZero` if that was not everything -/
def sliceWriterOps : List IoOp → Bytes × Nat → List IoObs × (Bytes × Nat)
  | [], st => ([], st)
  | .write bs :: ops, (w, room) =>
    let n := min bs.length room
    let r := sliceWriterOps ops (w ++ bs.take n, room - n)
    (.count n :: r.1, r.2)
  | .writeAll bs :: ops, (w, room) =>
    let n := min bs.length room
    let r := sliceWriterOps ops (w ++ bs.take n, room - n)
    ((if n == bs.length then .unit else .failed eWriteZero) :: r.1, r.2)
  | .flush :: ops, st =>
    let r := sliceWriterOps ops st
    (.unit :: r.1, r.2)
  | _ :: ops, st => sliceWriterOps ops st

/-- `impl Write for Vec<u8>`: always appends everything -/
def vecWriterOps : List IoOp → Bytes → List IoObs × Bytes
  | [], w => ([], w)
  | .write bs :: ops, w => let r := vecWriterOps ops (w ++ bs); (.count bs.length :: r.1, r.2)
  | .writeAll bs :: ops, w => let r := vecWriterOps ops (w ++ bs); (.unit :: r.1, r.2)
  | .flush :: ops, w => let r := vecWriterOps ops w; (.unit :: r.1, r.2)
  | _ :: ops, w => vecWriterOps ops w
end Std

namespace NoStd
/-- nostd_io.rs:978-1019 -/
def readerOps : List IoOp → Bytes → List IoObs × Bytes
  | [], s => ([], s)
  | .read n :: ops, s =>
    let amt := min n s.length
    let r := readerOps ops (s.drop amt)
    (.got (s.take amt) :: r.1, r.2)
  | .readExact n :: ops, s =>
    if n > s.length then ([.failed ⟨.unexpectedEof, .eofFill⟩], s)
    else
      let r := readerOps ops (s.drop n)
      (.got (s.take n) :: r.1, r.2)
  | _ :: ops, s => readerOps ops s

/-- nostd_io.rs:648-674 -/
def sliceWriterOps : List IoOp → Bytes × Nat → List IoObs × (Bytes × Nat)
  | [], st => ([], st)
  | .write bs :: ops, (w, room) =>
    let amt := min bs.length room
    let r := sliceWriterOps ops (w ++ bs.take amt, room - amt)
    (.count amt :: r.1, r.2)
  | .writeAll bs :: ops, (w, room) =>
    let amt := min bs.length room
    let r := sliceWriterOps ops (w ++ bs.take amt, room - amt)
    ((if amt == bs.length then .unit else .failed ⟨.writeZero, .writeZeroMsg⟩) :: r.1, r.2)
  | .flush :: ops, st =>
    let r := sliceWriterOps ops st
    (.unit :: r.1, r.2)
  | _ :: ops, st => sliceWriterOps ops st

/-- nostd_io.rs:678-695 -/
def vecWriterOps : List IoOp → Bytes → List IoObs × Bytes
  | [], w => ([], w)
  | .write bs :: ops, w => let r := vecWriterOps ops (w ++ bs); (.count bs.length :: r.1, r.2)
  | .writeAll bs :: ops, w => let r := vecWriterOps ops (w ++ bs); (.unit :: r.1, r.2)
  | .flush :: ops, w => let r := vecWriterOps ops w; (.unit :: r.1, r.2)
  | _ :: ops, w => vecWriterOps ops w
end NoStd

end Borsh
