/-
  `memZero` — model of `size_of::<T>() == 0` (the test inside `check_zst`), and
  `defaultOf` — model of `Default::default()` for the types allowed under `#[borsh(skip)]`.
-/
import BorshModel.Ty
namespace Borsh

mutual
/-- rustc's layout rule for "occupies no memory" on the modelled universe -/
def memZero : Ty → Bool
  | .int _ | .nonzero _ | .float _ | .bool | .str _ | .asciiChar | .raw _ => false
  | .seq _ _ | .set _ _ | .map _ _ _ => false
  | .array n t => n == 0 || memZero t
  | .prod k fs =>
    match k with
    | .rangeInclusive => false          -- carries the `exhausted` flag
    | _ => memZeroFields fs
  | .sum _ vs => memZeroVariants vs
  | .wrap k t =>
    match k with
    | .cell => memZero t
    | _ => false                        -- pointers, RefCell's borrow flag, Cow's discriminant
  | .custom t => memZero t
/-- every field, skipped ones included, occupies no memory -/
def memZeroFields : List (Option Name × Bool × Ty) → Bool
  | [] => true
  | (_, _, t) :: fs => memZero t && memZeroFields fs
/-- an enum is zero-sized iff it has at most one variant and that one is zero-sized -/
def memZeroVariants : List (Name × Nat × List (Option Name × Bool × Ty)) → Bool
  | [] => true
  | [(_, _, fs)] => memZeroFields fs
  | _ :: _ :: _ => false
end

mutual
def defaultOf : Ty → Val
  | .int _ | .nonzero _ | .float _ | .asciiChar => .int 0
  | .bool => .bool false
  | .str _ | .raw _ => .blob []
  | .seq k _ => match k with
    | .vecDeque => .deque [] []
    | _ => .list []
  | .set _ _ | .map _ _ _ => .list []
  | .array n t => .list (List.replicate n (defaultOf t))
  | .prod _ fs => .list (defaultFields fs)
  | .sum _ _ => .variant 0 []
  | .wrap _ t => defaultOf t
  | .custom t => defaultOf t
def defaultFields : List (Option Name × Bool × Ty) → List Val
  | [] => []
  | (_, _, t) :: fs => defaultOf t :: defaultFields fs
end

mutual
/-- types that really have the `Default` that `defaultOf` describes -/
def hasDefault : Ty → Bool
  | .int _ | .float _ | .bool => true
  | .nonzero _ | .asciiChar | .raw _ => false
  | .str k => match k with
    | .string | .boxStr | .cowStr | .asciiString => true
    | _ => false
  | .seq k _ => match k with
    | .vec | .vecDeque | .linkedList | .indexSet | .bytes | .bytesMut | .boxSlice => true
    | _ => false
  | .set _ _ | .map _ _ _ => true
  | .array n t => n ≤ 32 && hasDefault t
  | .prod k fs => match k with
    | .tuple | .unit | .phantom | .rangeFull | .struct _ _ | .range => hasDefaultFields fs
    | _ => false
  | .sum k vs => match k, vs with
    | .option, _ => true
    | .derived _ _, (_, _, []) :: _ => true     -- `#[default]` on a leading unit variant
    | _, _ => false
  | .wrap k t => match k with
    | .ref => false
    | _ => hasDefault t
  | .custom t => hasDefault t
def hasDefaultFields : List (Option Name × Bool × Ty) → Bool
  | [] => true
  | (_, _, t) :: fs => hasDefault t && hasDefaultFields fs
end

end Borsh
