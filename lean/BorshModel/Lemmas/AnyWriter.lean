/-
  C12 for *any* writer, not only the scripted ones: a writer is a state with a `write_all` whose
  only obligation is the `io::Write` contract — on success the whole buffer was delivered, on
  failure some prefix of it was.  Then running a serializer trace against it delivers the encoding
  (success) or a prefix of it together with the writer's own error (failure).
-/
import BorshModel.Lemmas.Trace
namespace Borsh

structure AnyWriter (ω : Type) where
  writeAll : Bytes → ω → ω × Out Unit
  /-- everything delivered so far (ghost state: what reached the sink) -/
  delivered : ω → Bytes
  /-- `write_all` returning `Ok` delivered the whole buffer -/
  ok_all : ∀ b w w', writeAll b w = (w', .ok ()) → delivered w' = delivered w ++ b
  /-- `write_all` failing (or panicking) delivered a prefix of the buffer -/
  fail_prefix : ∀ b w w' r, writeAll b w = (w', r) → r ≠ .ok () →
    ∃ k, k ≤ b.length ∧ delivered w' = delivered w ++ b.take k

/-- run a serializer trace against the writer: each chunk through `write_all`, the first writer
failure ends the run; then the serializer's own status -/
def runTraceAny {ω : Type} (W : AnyWriter ω) : List Bytes → Out Unit → ω → ω × Out Unit
  | [], status, w => (w, status)
  | c :: cs, status, w =>
    match W.writeAll c w with
    | (w', .ok ()) => runTraceAny W cs status w'
    | (w', r) => (w', r)

theorem take_len_add (c F : Bytes) (k : Nat) : (c ++ F).take (c.length + k) = c ++ F.take k := by
  induction c with
  | nil => simp
  | cons a c ih =>
    have : (a :: c).length + k = (c.length + k) + 1 := by simp; omega
    rw [this]
    simp only [List.cons_append, List.take_succ_cons, ih]

/-- on every run, what was delivered is a prefix of the trace's bytes; when no `write_all` failed it
is all of them and the result is the serializer's status; a failing `write_all`'s result is the
result of the run -/
theorem runTraceAny_spec {ω : Type} (W : AnyWriter ω) :
    ∀ (cs : List Bytes) (status : Out Unit) (w : ω),
      (∃ k, k ≤ cs.flatten.length ∧
        W.delivered (runTraceAny W cs status w).1 = W.delivered w ++ cs.flatten.take k) ∧
      ((runTraceAny W cs status w).2 = .ok () →
        W.delivered (runTraceAny W cs status w).1 = W.delivered w ++ cs.flatten ∧ status = .ok ()) := by
  intro cs
  induction cs with
  | nil =>
    intro status w
    refine ⟨⟨0, Nat.zero_le _, by simp [runTraceAny]⟩, fun h => ⟨by simp [runTraceAny], by simpa [runTraceAny] using h⟩⟩
  | cons c cs ih =>
    intro status w
    have hl : (c :: cs).flatten.length = c.length + cs.flatten.length := by
      rw [List.flatten_cons, List.length_append]
    cases hw : W.writeAll c w with
    | mk w' r =>
      by_cases hr : r = .ok ()
      · subst hr
        have hrun : runTraceAny W (c :: cs) status w = runTraceAny W cs status w' := by
          simp only [runTraceAny, hw]
        rw [hrun]
        have hd := W.ok_all c w w' hw
        obtain ⟨⟨k, hk, hp⟩, hfull⟩ := ih status w'
        refine ⟨⟨c.length + k, by rw [hl]; omega, ?_⟩, ?_⟩
        · rw [hp, hd, List.flatten_cons, List.append_assoc, take_len_add]
        · intro h
          obtain ⟨h1, h2⟩ := hfull h
          exact ⟨by rw [h1, hd, List.flatten_cons, List.append_assoc], h2⟩
      · have hrun : runTraceAny W (c :: cs) status w = (w', r) := by
          cases r with
          | ok u => cases u; exact absurd rfl hr
          | err e => simp only [runTraceAny, hw]
          | panic p => simp only [runTraceAny, hw]
        rw [hrun]
        obtain ⟨k, hk, hp⟩ := W.fail_prefix c w w' r hw hr
        refine ⟨⟨k, by rw [hl]; omega, ?_⟩, fun h => absurd h hr⟩
        rw [hp, List.flatten_cons, List.take_append_of_le_length hk]

end Borsh
