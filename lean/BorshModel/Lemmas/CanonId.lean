/- Key types: the canonical form of a well-typed value is the value itself. -/
import BorshModel.Canon
import BorshModel.Lemmas.Induct
import BorshModel.Lemmas.SortLaws
namespace Borsh

theorem map_id_of {f : Val → Val} (vs : List Val) (h : ∀ v ∈ vs, f v = v) : vs.map f = vs := by
  induction vs with
  | nil => rfl
  | cons v vs ih => simp [h v (by simp), ih (fun w hw => h w (by simp [hw]))]

theorem canon_id_all :
    ∀ t : Ty, keyTy t = true → ∀ v, HasTy t v = true → canon t v = v := by
  apply Ty.induct (P := fun t => keyTy t = true → ∀ v, HasTy t v = true → canon t v = v)
    (PF := fun fs => keyTyFields fs = true → ∀ vs, HasTyFields fs vs = true → canonFields fs vs = vs)
    (PV := fun vs => keyTyVariants vs = true → ∀ idx fvs, HasTyVariant vs idx fvs = true →
      canonVariant vs idx fvs = fvs)
  case h_int => intro k _ v _; cases v <;> rfl
  case h_nonzero => intro k _ v _; cases v <;> rfl
  case h_float => intro k _ v _; cases v <;> rfl
  case h_bool => intro _ v _; cases v <;> rfl
  case h_str => intro k _ v _; cases v <;> rfl
  case h_asciiChar => intro _ v _; cases v <;> rfl
  case h_raw => intro k _ v _; cases v <;> rfl
  case h_seq =>
    intro k t ih hk v hv
    simp only [keyTy, Bool.and_eq_true, bne_iff_ne, ne_eq] at hk
    cases v with
    | list vs =>
      simp only [HasTy, Bool.and_eq_true] at hv
      have hall : ∀ w ∈ vs, HasTy t w = true := by simpa using hv.1.2
      simp only [canon]
      rw [map_id_of vs (fun w hw => ih hk.2 w (hall w hw))]
    | deque a b =>
      simp only [HasTy, Bool.and_eq_true, beq_iff_eq] at hv
      exact absurd hv.1.1 hk.1
    | _ => simp [HasTy] at hv
  case h_set =>
    intro k t ih hk v hv
    simp only [keyTy, Bool.and_eq_true, beq_iff_eq] at hk
    obtain ⟨hkk, hkt⟩ := hk
    subst hkk
    cases v with
    | list vs =>
      simp only [HasTy, Bool.and_eq_true] at hv
      have hall : ∀ w ∈ vs, HasTy t w = true := by simpa using hv.1
      simp only [canon]
      rw [sortByKey_of_sa id vs hv.2, map_id_of vs (fun w hw => ih hkt w (hall w hw))]
    | _ => simp [HasTy] at hv
  case h_map =>
    intro k a b iha ihb hk v hv
    simp only [keyTy, Bool.and_eq_true, beq_iff_eq] at hk
    obtain ⟨⟨hkk, hka⟩, hkb⟩ := hk
    subst hkk
    cases v with
    | list es =>
      simp only [HasTy, Bool.and_eq_true] at hv
      simp only [canon]
      rw [sortByKey_of_sa entryKey es hv.2]
      congr 1
      apply map_id_of
      intro e he
      have := (List.all_eq_true.mp hv.1) e he
      match e, this with
      | .list [x, y], this =>
        simp only [Bool.and_eq_true] at this
        simp only [canonEntry, iha hka x this.1, ihb hkb y this.2]
    | _ => simp [HasTy] at hv
  case h_array =>
    intro n t ih hk v hv
    simp only [keyTy] at hk
    cases v with
    | list vs =>
      simp only [HasTy, Bool.and_eq_true] at hv
      have hall : ∀ w ∈ vs, HasTy t w = true := by simpa using hv.2
      simp only [canon]
      rw [map_id_of vs (fun w hw => ih hk w (hall w hw))]
    | _ => simp [HasTy] at hv
  case h_prod =>
    intro k fs ih hk v hv
    simp only [keyTy, Bool.and_eq_true, Bool.not_eq_eq_eq_not, Bool.not_true] at hk
    cases v with
    | list vs =>
      simp only [HasTy] at hv
      simp only [canon, hk.1, Bool.false_eq_true, if_false]
      rw [ih hk.2 vs hv]
    | _ => simp [HasTy] at hv
  case h_sum =>
    intro k vs ih hk v hv
    simp only [keyTy, Bool.and_eq_true, Bool.not_eq_eq_eq_not, Bool.not_true] at hk
    cases v with
    | variant idx fvs =>
      simp only [HasTy] at hv
      simp only [canon, hk.1, Bool.false_eq_true, if_false]
      rw [ih hk.2 idx fvs hv]
    | _ => simp [HasTy] at hv
  case h_wrap =>
    intro k t ih hk v hv
    simp only [keyTy] at hk
    have hv' : HasTy t v = true := by cases v <;> simpa [HasTy] using hv
    have hc : canon (.wrap k t) v = canon t v := by cases v <;> simp [canon]
    rw [hc]; exact ih hk v hv'
  case h_custom => intro t _ _ v _; cases v <;> rfl
  case h_fnil =>
    intro _ vs hv
    cases vs with
    | nil => rfl
    | cons v vs => simp [HasTyFields] at hv
  case h_fcons =>
    intro n sk t fs iht ihf hk vs hv
    simp only [keyTyFields, Bool.and_eq_true, Bool.not_eq_eq_eq_not, Bool.not_true] at hk
    cases vs with
    | nil => simp [HasTyFields] at hv
    | cons v vs =>
      simp only [HasTyFields, Bool.and_eq_true] at hv
      simp only [canonFields, hk.1.1, Bool.false_eq_true, if_false]
      rw [iht hk.1.2 v hv.1, ihf hk.2 vs hv.2]
  case h_vnil => intro _ idx fvs hv; simp [HasTyVariant] at hv
  case h_vcons =>
    intro n g fs vs ihf ihv hk idx fvs hv
    simp only [keyTyVariants, Bool.and_eq_true] at hk
    cases idx with
    | zero => simp only [HasTyVariant] at hv; simp only [canonVariant]; exact ihf hk.1 fvs hv
    | succ i => simp only [HasTyVariant] at hv; simp only [canonVariant]; exact ihv hk.2 i fvs hv

end Borsh
