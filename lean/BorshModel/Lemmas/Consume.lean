/-
  Work bound: a successful slice decode consumes a prefix of its input, at least `minWire t`
  bytes long; hence the number of elements decoded for a collection whose elements occupy at
  least one byte on the wire is bounded by the input length.
-/
import BorshModel.Lemmas.Slice
import BorshModel.Lemmas.Induct
import BorshModel.Canon
namespace Borsh

mutual
/-- the fewest bytes any encoding of the type has -/
def minWire : Ty → Nat
  | .int k | .nonzero k => k.width
  | .float k => k.width
  | .bool | .asciiChar => 1
  | .str _ => 4
  | .raw k => k.width
  | .seq _ _ | .set _ _ | .map _ _ _ => 4
  | .array n t => n * minWire t
  | .prod _ fs => minWireFields fs
  | .sum _ _ => 1
  | .wrap _ t => minWire t
  | .custom _ => 4
def minWireFields : List (Option Name × Bool × Ty) → Nat
  | [] => 0
  | (_, skip, t) :: fs => (if skip then 0 else minWire t) + minWireFields fs
end

/-- `f` consumes a prefix of its input that is at least `w a` bytes long -/
def Cons {α : Type} (f : Bytes → Out (α × Bytes)) (w : α → Nat) : Prop :=
  ∀ bs a rest, f bs = .ok (a, rest) → ∃ c, bs = c ++ rest ∧ w a ≤ c.length

theorem Cons.weaken {α : Type} {f : Bytes → Out (α × Bytes)} {w w' : α → Nat} (h : Cons f w)
    (hw : ∀ a, w' a ≤ w a) : Cons f w' := by
  intro bs a rest hf
  obtain ⟨c, h1, h2⟩ := h bs a rest hf
  exact ⟨c, h1, Nat.le_trans (hw a) h2⟩

theorem Cons.pure {α : Type} (a : α) : Cons (fun p => Out.ok (a, p)) (fun _ => 0) := by
  intro bs a' rest h
  simp at h
  exact ⟨[], by simp [h.2], Nat.zero_le _⟩

theorem Cons.bind {α β : Type} {f : Bytes → Out (α × Bytes)} {g : α × Bytes → Out (β × Bytes)}
    {w₁ : α → Nat} {w₂ : α → β → Nat}
    (hf : Cons f w₁) (hg : ∀ a, Cons (fun p => g (a, p)) (w₂ a)) (w : β → Nat)
    (hw : ∀ a b, w b ≤ w₁ a + w₂ a b) :
    Cons (fun p => (f p).bind g) w := by
  intro bs b rest h
  obtain ⟨⟨a, r1⟩, h1, h2⟩ := Out.bind_eq_ok_iff.mp h
  obtain ⟨c1, e1, l1⟩ := hf bs a r1 h1
  obtain ⟨c2, e2, l2⟩ := hg a r1 b rest h2
  refine ⟨c1 ++ c2, by rw [e1, e2, List.append_assoc], ?_⟩
  have := hw a b
  simp only [List.length_append]
  omega

theorem Cons.map {α β : Type} {f : Bytes → Out (α × Bytes)} {w : α → Nat} (hf : Cons f w)
    (g : α × Bytes → β × Bytes) (hg : ∀ a r, (g (a, r)).2 = r) (w' : β → Nat)
    (hw : ∀ a r, w' (g (a, r)).1 ≤ w a) :
    Cons (fun p => (f p).map g) w' := by
  intro bs b rest h
  obtain ⟨⟨a, r1⟩, h1, h2⟩ := Out.map_eq_ok_iff.mp h
  obtain ⟨c, e, l⟩ := hf bs a r1 h1
  have hr : rest = r1 := by
    have := congrArg Prod.snd h2; simp at this; rw [← this, hg]
  have hb : b = (g (a, r1)).1 := by
    have := congrArg Prod.fst h2; simp at this; exact this.symm
  refine ⟨c, by rw [hr]; exact e, ?_⟩
  rw [hb]
  exact Nat.le_trans (hw a r1) l

theorem readMapped_consumes (n : Nat) : Cons (readMapped Rd.slice n) (fun _ => n) := by
  intro bs a rest h
  simp only [readMapped, slice_readExact] at h
  split at h
  · rename_i hn
    simp at h
    refine ⟨bs.take n, ?_, by simp; omega⟩
    rw [← h.2]; simp
  · simp at h

theorem readBulk_consumes (n : Nat) : Cons (Rd.slice.readBulk n) (fun _ => n) := by
  intro bs a rest h
  rw [slice_readBulk] at h
  split at h
  · rename_i hn
    simp at h
    refine ⟨bs.take n, ?_, by simp; omega⟩
    rw [← h.2]; simp
  · simp at h

theorem readU8_consumes : Cons (readU8 Rd.slice) (fun _ => 1) := by
  unfold readU8
  apply Cons.bind (readMapped_consumes 1) (w₂ := fun _ _ => 0) _ _ (fun _ _ => by omega)
  intro a bs b rest h
  dsimp only at h
  split at h
  · simp at h; exact ⟨[], by simp [h.2], Nat.zero_le _⟩
  · simp at h

theorem readU32_consumes : Cons (readU32 Rd.slice) (fun _ => 4) := by
  unfold readU32
  exact Cons.map (readMapped_consumes 4) _ (fun _ _ => rfl) _ (fun _ _ => Nat.le_refl _)

/-- `n` decodes of an element that occupies at least `m` bytes consume at least `n * m` bytes;
the decoded list has exactly `n` elements -/
theorem repeatDe_cons {f : Bytes → Out (Val × Bytes)} {m : Nat} (hf : Cons f (fun _ => m)) (n : Nat) :
    Cons (repeatDe f n) (fun vs => vs.length * m) ∧
    ∀ bs vs rest, repeatDe f n bs = .ok (vs, rest) → vs.length = n := by
  induction n with
  | zero =>
    constructor
    · intro bs a rest h
      simp [repeatDe] at h
      exact ⟨[], by simp [h.2], by simp [h.1]⟩
    · intro bs vs rest h; simp [repeatDe] at h; simp [← h.1]
  | succ n ih =>
    constructor
    · intro bs vs rest h
      simp only [repeatDe] at h
      obtain ⟨⟨a, r1⟩, h1, h2⟩ := Out.bind_eq_ok_iff.mp h
      obtain ⟨⟨as, r2⟩, h3, h4⟩ := Out.bind_eq_ok_iff.mp h2
      simp at h4
      obtain ⟨c1, e1, l1⟩ := hf bs a r1 h1
      obtain ⟨c2, e2, l2⟩ := ih.1 r1 as r2 h3
      refine ⟨c1 ++ c2, by rw [e1, e2, List.append_assoc, h4.2], ?_⟩
      rw [← h4.1]
      simp only [List.length_cons, List.length_append, Nat.add_mul, Nat.one_mul]
      simp only at l1 l2
      omega
    · intro bs vs rest h
      simp only [repeatDe] at h
      obtain ⟨⟨a, r1⟩, h1, h2⟩ := Out.bind_eq_ok_iff.mp h
      obtain ⟨⟨as, r2⟩, h3, h4⟩ := Out.bind_eq_ok_iff.mp h2
      simp at h4
      rw [← h4.1]
      simp [ih.2 r1 as r2 h3]

end Borsh
