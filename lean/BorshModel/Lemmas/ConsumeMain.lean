import BorshModel.Lemmas.Consume
namespace Borsh

theorem repeatDe_cons_exact {f : Bytes → Out (Val × Bytes)} {m : Nat} (hf : Cons f (fun _ => m)) (n : Nat) :
    Cons (repeatDe f n) (fun _ => n * m) := by
  intro bs vs rest h
  obtain ⟨c, e, l⟩ := (repeatDe_cons hf n).1 bs vs rest h
  have := (repeatDe_cons hf n).2 bs vs rest h
  exact ⟨c, e, by simp only at l; rw [this] at l; exact l⟩

/-- `Vec::<T>::deserialize_reader`: four bytes of length, then at least `m` bytes per element -/
theorem deVec_cons (isU8 : Bool) {f : Bytes → Out (Val × Bytes)} {m : Nat}
    (hf : Cons f (fun _ => m)) (hm : isU8 = true → m = 1) :
    Cons (deVec Rd.slice isU8 f) (fun vs => 4 + vs.length * m) := by
  unfold deVec
  intro bs vs rest h
  obtain ⟨⟨n, r1⟩, h1, h2⟩ := Out.bind_eq_ok_iff.mp h
  obtain ⟨c1, e1, l1⟩ := readU32_consumes bs n r1 h1
  dsimp only at h2
  split at h2
  · simp at h2
    refine ⟨c1, by rw [e1, h2.2], ?_⟩
    show 4 + vs.length * m ≤ c1.length
    rw [h2.1]; simpa using l1
  · cases isU8
    · simp only [Bool.false_eq_true, if_false] at h2
      obtain ⟨c2, e2, l2⟩ := (repeatDe_cons hf n).1 r1 vs rest h2
      refine ⟨c1 ++ c2, by rw [e1, e2, List.append_assoc], ?_⟩
      show 4 + vs.length * m ≤ (c1 ++ c2).length
      simp only [List.length_append] at *; omega
    · simp only [if_true] at h2
      obtain ⟨⟨b, r2⟩, h3, h4⟩ := Out.map_eq_ok_iff.mp h2
      simp at h4
      obtain ⟨c2, e2, l2⟩ := readBulk_consumes n r1 b r2 h3
      have hb : b.length = n := by
        rw [slice_readBulk] at h3
        split at h3
        · simp at h3; rw [← h3.1]; simp; omega
        · simp at h3
      refine ⟨c1 ++ c2, by rw [e1, e2, List.append_assoc, h4.2], ?_⟩
      show 4 + vs.length * m ≤ (c1 ++ c2).length
      rw [← h4.1, hm rfl]
      simp only [bytesVal, List.length_map, List.length_append, Nat.mul_one] at *
      omega

/-- the weak form: four bytes of length and a prefix, for any element decoder that consumes a prefix -/
theorem deVec_cons4 (isU8 : Bool) {f : Bytes → Out (Val × Bytes)} (hf : Cons f (fun _ => 0)) :
    Cons (deVec Rd.slice isU8 f) (fun _ => 4) := by
  unfold deVec
  apply Cons.bind readU32_consumes (w₂ := fun _ _ => 0) _ _ (fun _ _ => by omega)
  intro n bs b rest h
  dsimp only at h
  split at h
  · simp at h; exact ⟨[], by simp [h.2], Nat.zero_le _⟩
  · cases isU8
    · simp only [Bool.false_eq_true, if_false] at h
      obtain ⟨c, e, _⟩ := (repeatDe_cons hf n).1 bs b rest h
      exact ⟨c, e, Nat.zero_le _⟩
    · simp only [if_true] at h
      obtain ⟨⟨q, r2⟩, h3, h4⟩ := Out.map_eq_ok_iff.mp h
      simp at h4
      obtain ⟨c, e, _⟩ := readBulk_consumes n bs q r2 h3
      exact ⟨c, by rw [e, h4.2], Nat.zero_le _⟩

macro "cons_leaf" : tactic =>
  `(tactic| (intro bs b rest h; dsimp only at h; (repeat' split at h) <;> simp at h <;>
      exact ⟨[], by simp [h.2], Nat.zero_le _⟩))

theorem de_cons_all : ∀ t : Ty, ∀ st, Cons (de Rd.slice st t) (fun _ => minWire t) := by
  apply Ty.induct (P := fun t => ∀ st, Cons (de Rd.slice st t) (fun _ => minWire t))
    (PF := fun fs => ∀ st, Cons (deFields Rd.slice st fs) (fun _ => minWireFields fs))
    (PV := fun vs => ∀ st tk tag idx, Cons (deVariants Rd.slice st tk vs tag idx) (fun _ => 0))
  case h_int =>
    intro k st
    show Cons (fun s => de Rd.slice st (.int k) s) _
    simp only [de, minWire]
    exact Cons.map (readMapped_consumes _) _ (fun _ _ => rfl) _ (fun _ _ => Nat.le_refl _)
  case h_nonzero =>
    intro k st
    show Cons (fun s => de Rd.slice st (.nonzero k) s) _
    simp only [de, minWire]
    apply Cons.bind (readMapped_consumes _) (w₂ := fun _ _ => 0) _ _ (fun _ _ => by omega)
    intro a; cons_leaf
  case h_float =>
    intro k st
    show Cons (fun s => de Rd.slice st (.float k) s) _
    simp only [de, minWire]
    apply Cons.bind (readMapped_consumes _) (w₂ := fun _ _ => 0) _ _ (fun _ _ => by omega)
    intro a; cons_leaf
  case h_bool =>
    intro st
    show Cons (fun s => de Rd.slice st .bool s) _
    simp only [de, minWire]
    apply Cons.bind readU8_consumes (w₂ := fun _ _ => 0) _ _ (fun _ _ => by omega)
    intro a; cons_leaf
  case h_str =>
    intro k st
    show Cons (fun s => de Rd.slice st (.str k) s) _
    simp only [de, minWire]
    have hbv : Cons (deByteVec Rd.slice) (fun _ => 4) := by
      unfold deByteVec
      apply Cons.bind readU32_consumes (w₂ := fun _ _ => 0) _ _ (fun _ _ => by omega)
      intro n bs b rest h
      dsimp only at h
      split at h
      · simp at h; exact ⟨[], by simp [h.2], Nat.zero_le _⟩
      · obtain ⟨c, e, _⟩ := readBulk_consumes n bs b rest h
        exact ⟨c, e, Nat.zero_le _⟩
    apply Cons.bind hbv (w₂ := fun _ _ => 0) _ _ (fun _ _ => by omega)
    intro a; cons_leaf
  case h_asciiChar =>
    intro st
    show Cons (fun s => de Rd.slice st .asciiChar s) _
    simp only [de, minWire]
    apply Cons.bind readU8_consumes (w₂ := fun _ _ => 0) _ _ (fun _ _ => by omega)
    intro a; cons_leaf
  case h_raw =>
    intro k st
    show Cons (fun s => de Rd.slice st (.raw k) s) _
    simp only [de, minWire]
    exact Cons.map (readMapped_consumes _) _ (fun _ _ => rfl) _ (fun _ _ => Nat.le_refl _)
  case h_seq =>
    intro k t ih st
    show Cons (fun s => de Rd.slice st (.seq k t) s) _
    have hb : Cons (fun s => (readU32 Rd.slice s).bind fun r =>
        (repeatDe (fun s => (readU8 Rd.slice s).map fun b => (Val.int b.1.toNat, b.2)) r.1 r.2).map
          fun q => (Val.list q.1, q.2)) (fun _ => 4) := by
      apply Cons.bind readU32_consumes (w₂ := fun _ _ => 0) _ _ (fun _ _ => by omega)
      intro n
      dsimp only
      have h8 : Cons (fun s => (readU8 Rd.slice s).map fun b => (Val.int b.1.toNat, b.2)) (fun _ => 1) :=
        Cons.map readU8_consumes _ (fun _ _ => rfl) _ (fun _ _ => Nat.le_refl _)
      exact Cons.map (Cons.weaken (repeatDe_cons_exact h8 n) (w' := fun _ => 0) (fun _ => Nat.zero_le _))
        _ (fun _ _ => rfl) _ (fun _ _ => Nat.le_refl _)
    have hv : Cons (deVec Rd.slice t.isU8 (de Rd.slice st t)) (fun _ => 4) :=
      deVec_cons4 t.isU8 (Cons.weaken (ih st) (fun _ => Nat.zero_le _))
    cases k <;> simp only [de, minWire] <;> first
      | exact hb
      | (intro bs b rest h; dsimp only at h; split at h
         · simp at h
         · exact Cons.map hv _ (fun _ _ => by first | rfl | (split <;> rfl)) (fun _ => 4) (fun _ _ => Nat.le_refl _) bs b rest h)
  case h_set =>
    intro k t ih st
    show Cons (fun s => de Rd.slice st (.set k t) s) _
    simp only [de, minWire]
    intro bs b rest h; dsimp only at h; split at h
    · simp at h
    · refine Cons.bind (deVec_cons4 t.isU8 (Cons.weaken (ih st) (fun _ => Nat.zero_le _)))
        (w₂ := fun _ _ => 0) ?_ (fun _ => 4) (fun _ _ => by omega) bs b rest h
      intro a; cons_leaf
  case h_map =>
    intro k a b iha ihb st
    show Cons (fun s => de Rd.slice st (.map k a b) s) _
    simp only [de, minWire]
    intro bs v rest h; dsimp only at h; split at h
    · simp at h
    · have hent : Cons (deEntry (de Rd.slice st a) (de Rd.slice st b)) (fun _ => 0) := by
        unfold deEntry
        apply Cons.bind (Cons.weaken (iha st) (w' := fun _ => 0) (fun _ => Nat.zero_le _))
          (w₂ := fun _ _ => 0) _ _ (fun _ _ => by omega)
        intro x; dsimp only
        exact Cons.map (Cons.weaken (ihb st) (w' := fun _ => 0) (fun _ => Nat.zero_le _)) _
          (fun _ _ => rfl) _ (fun _ _ => Nat.le_refl _)
      refine Cons.bind (deVec_cons4 false hent) (w₂ := fun _ _ => 0) ?_ (fun _ => 4) (fun _ _ => by omega) bs v rest h
      intro x
      cases k <;> cons_leaf
  case h_array =>
    intro n t ih st
    show Cons (fun s => de Rd.slice st (.array n t) s) _
    simp only [de, minWire]
    intro bs b rest h; dsimp only at h; split at h
    · rename_i hu
      have ht : t = .int .u8 := by
        cases t <;> simp [Ty.isU8] at hu
        rename_i k; cases k <;> simp_all [Ty.isU8]
      subst ht
      simp only [minWire, IntK.width, Nat.mul_one]
      exact Cons.map (readMapped_consumes n) _ (fun _ _ => rfl) (fun _ => n) (fun _ _ => Nat.le_refl _) bs b rest h
    · exact Cons.map (repeatDe_cons_exact (ih st) n) _ (fun _ _ => rfl) (fun _ => n * minWire t) (fun _ _ => Nat.le_refl _) bs b rest h
  case h_prod =>
    intro k fs ih st
    show Cons (fun s => de Rd.slice st (.prod k fs) s) _
    simp only [de, minWire]
    exact Cons.map (ih st) _ (fun _ _ => rfl) _ (fun _ _ => Nat.le_refl _)
  case h_sum =>
    intro k vs ih st
    show Cons (fun s => de Rd.slice st (.sum k vs) s) _
    simp only [de, minWire]
    apply Cons.bind readU8_consumes (w₂ := fun _ _ => 0) _ _ (fun _ _ => by omega)
    intro tag; dsimp only
    exact Cons.map (ih st _ _ _) _ (fun _ _ => rfl) _ (fun _ _ => Nat.le_refl _)
  case h_wrap =>
    intro k t ih st
    show Cons (fun s => de Rd.slice st (.wrap k t) s) _
    simp only [de, minWire]
    exact ih st
  case h_custom =>
    intro t _ st
    show Cons (fun s => de Rd.slice st (.custom t) s) _
    simp only [de, minWire]
    exact Cons.map (readMapped_consumes _) _ (fun _ _ => rfl) _ (fun _ _ => Nat.le_refl _)
  case h_fnil =>
    intro st
    show Cons (fun s => deFields Rd.slice st [] s) _
    simp only [deFields, minWireFields]
    exact Cons.pure _
  case h_fcons =>
    intro n sk t fs iht ihf st
    show Cons (fun s => deFields Rd.slice st ((n, sk, t) :: fs) s) _
    simp only [deFields, minWireFields]
    intro bs b rest h; dsimp only at h; split at h
    · rename_i hs
      simp only [hs, if_true, Nat.zero_add]
      exact Cons.map (ihf st) _ (fun _ _ => rfl) (fun _ => minWireFields fs) (fun _ _ => Nat.le_refl _) bs b rest h
    · rename_i hs
      simp only [hs, Bool.false_eq_true, if_false]
      refine Cons.bind (iht st) (w₂ := fun _ _ => minWireFields fs) ?_ (fun _ => minWire t + minWireFields fs) (fun _ _ => Nat.le_refl _) bs b rest h
      intro a; dsimp only
      exact Cons.map (ihf st) _ (fun _ _ => rfl) _ (fun _ _ => Nat.le_refl _)
  case h_vnil =>
    intro st tk tag idx
    show Cons (fun s => deVariants Rd.slice st tk [] tag idx s) _
    simp only [deVariants]
    intro bs b rest h; simp at h
  case h_vcons =>
    intro n g fs vs ihf ihv st tk tag idx
    show Cons (fun s => deVariants Rd.slice st tk ((n, g, fs) :: vs) tag idx s) _
    simp only [deVariants]
    intro bs b rest h; dsimp only at h; split at h
    · exact Cons.map (Cons.weaken (ihf st) (w' := fun _ => 0) (fun _ => Nat.zero_le _)) _
        (fun _ _ => rfl) (fun _ => 0) (fun _ _ => Nat.le_refl _) bs b rest h
    · exact ihv st tk tag (idx + 1) bs b rest h

end Borsh
