/-
  The schema container as a value of the universe: `containerOfVal` inverts `containerToVal`,
  and a well-typed container value is already canonical (its `BTreeMap` is ascending).
-/
import BorshModel.SchemaCodec
import BorshModel.Lemmas.SortLaws
import BorshModel.Lemmas.CanonId
namespace Borsh

theorem mapM_map_some {α : Type} (f : α → Val) (g : Val → Option α) (l : List α)
    (h : ∀ a ∈ l, g (f a) = some a) : (l.map f).mapM g = some l := by
  induction l with
  | nil => rfl
  | cons a l ih =>
    simp only [List.map_cons, List.mapM_cons, h a (by simp),
      ih (fun b hb => h b (by simp [hb]))]
    rfl

theorem namesOfVals_blobs (ns : List Name) : namesOfVals (ns.map .blob) = some ns :=
  mapM_map_some _ _ ns (fun _ _ => rfl)

theorem fieldsOfVal_toVal (f : Fields) : fieldsOfVal (fieldsToVal f) = some f := by
  cases f with
  | named fs =>
    simp only [fieldsToVal, fieldsOfVal]
    rw [mapM_map_some _ _ fs (fun _ _ => rfl)]; rfl
  | unnamed fs => simp only [fieldsToVal, fieldsOfVal, namesOfVals_blobs]; rfl
  | empty => rfl

theorem defnOfVal_toVal (d : Defn) : defnOfVal (defnToVal d) = some d := by
  cases d with
  | primitive s => simp [defnToVal, defnOfVal]
  | sequence lw lo hi e => simp [defnToVal, defnOfVal]
  | tuple es => simp only [defnToVal, defnOfVal, namesOfVals_blobs]; rfl
  | «enum» tw vs =>
    simp only [defnToVal, defnOfVal]
    rw [mapM_map_some _ _ vs (fun _ _ => rfl)]; simp
  | struct f => simp only [defnToVal, defnOfVal, fieldsOfVal_toVal]; rfl

/-- decoding the value form of a container gives the container back -/
theorem containerOfVal_toVal (c : Container) : containerOfVal (containerToVal c) = some c := by
  obtain ⟨d, defs⟩ := c
  simp only [containerToVal, containerOfVal]
  rw [mapM_map_some _ _ defs (fun e _ => by simp [defnOfVal_toVal])]
  rfl

/-- an ordered map whose key and value types are key types is canonical as written -/
theorem canon_btreeMap_id (a b : Ty) (ha : keyTy a = true) (hb : keyTy b = true) (es : List Val)
    (h : HasTy (.map .btreeMap a b) (.list es) = true) :
    canon (.map .btreeMap a b) (.list es) = .list es := by
  simp only [HasTy, Bool.and_eq_true] at h
  simp only [canon]
  rw [sortByKey_of_sa entryKey es h.2]
  congr 1
  apply map_id_of
  intro e he
  have := (List.all_eq_true.mp h.1) e he
  match e, this with
  | .list [x, y], this =>
    simp only [Bool.and_eq_true] at this
    simp only [canonEntry, canon_id_all a ha x this.1, canon_id_all b hb y this.2]

theorem keyTy_declTy : keyTy declTy = true := by decide
theorem keyTy_definitionTy : keyTy definitionTy = true := by decide +kernel
theorem keysOk_containerTy : keysOk containerTy = true := by decide +kernel
theorem WfTy_containerTy : WfTy containerTy = true := by decide +kernel

/-- a well-typed container value is canonical -/
theorem canon_container (c : Container) (h : HasTy containerTy (containerToVal c) = true) :
    canon containerTy (containerToVal c) = containerToVal c := by
  obtain ⟨d, defs⟩ := c
  simp only [containerTy, containerToVal, HasTy, HasTyFields, Bool.and_eq_true] at h
  have hm := canon_btreeMap_id declTy definitionTy keyTy_declTy keyTy_definitionTy _
    (by simpa only [HasTy, Bool.and_eq_true] using h.2.1)
  have h1 : canon declTy (Val.blob d) = Val.blob d := rfl
  simp only [canon] at hm
  simp only [containerTy, containerToVal, canon, canonFields, ProdK.init, Bool.false_eq_true,
    if_false, hm, h1]

end Borsh
