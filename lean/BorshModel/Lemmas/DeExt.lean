import BorshModel.Lemmas.Ext
namespace Borsh

/-- close goals of the form `Ext (fun p => if c then … else …)` built from pure / err leaves -/
macro "ext_leaf" : tactic =>
  `(tactic| (intro p b r s h; dsimp only at h ⊢; (repeat' split at h) <;> simp_all))

theorem de_ext_all :
    ∀ t : Ty, ∀ st, Ext (de Rd.slice st t) := by
  apply Ty.induct (P := fun t => ∀ st, Ext (de Rd.slice st t))
    (PF := fun fs => ∀ st, Ext (deFields Rd.slice st fs))
    (PV := fun vs => ∀ st tk tag idx, Ext (deVariants Rd.slice st tk vs tag idx))
  case h_int =>
    intro k st
    show Ext (fun s => de Rd.slice st (.int k) s)
    simp only [de]
    exact Ext.map' (readMapped_ext _) _ (fun _ _ _ => rfl)
  case h_nonzero =>
    intro k st
    show Ext (fun s => de Rd.slice st (.nonzero k) s)
    simp only [de]
    apply Ext.bind (readMapped_ext _)
    intro a; ext_leaf
  case h_float =>
    intro k st
    show Ext (fun s => de Rd.slice st (.float k) s)
    simp only [de]
    apply Ext.bind (readMapped_ext _)
    intro a; ext_leaf
  case h_bool =>
    intro st
    show Ext (fun s => de Rd.slice st .bool s)
    simp only [de]
    apply Ext.bind readU8_ext
    intro a; ext_leaf
  case h_str =>
    intro k st
    show Ext (fun s => de Rd.slice st (.str k) s)
    simp only [de]
    apply Ext.bind deByteVec_ext
    intro a; ext_leaf
  case h_asciiChar =>
    intro st
    show Ext (fun s => de Rd.slice st .asciiChar s)
    simp only [de]
    apply Ext.bind readU8_ext
    intro a; ext_leaf
  case h_raw =>
    intro k st
    show Ext (fun s => de Rd.slice st (.raw k) s)
    simp only [de]
    exact Ext.map' (readMapped_ext _) _ (fun _ _ _ => rfl)
  case h_seq =>
    intro k t ih st
    show Ext (fun s => de Rd.slice st (.seq k t) s)
    have hb : Ext (fun s => (readU32 Rd.slice s).bind fun r =>
        (repeatDe (fun s => (readU8 Rd.slice s).map fun b => (Val.int b.1.toNat, b.2)) r.1 r.2).map
          fun q => (Val.list q.1, q.2)) := by
      apply Ext.bind readU32_ext
      intro n; dsimp only
      exact Ext.map' (repeatDe_ext (Ext.map' readU8_ext (fun b => (Val.int b.1.toNat, b.2)) (fun _ _ _ => rfl)) n)
        (fun q => (Val.list q.1, q.2)) (fun _ _ _ => rfl)
    cases k <;> simp only [de] <;> first
      | exact hb
      | (split
         · exact Ext.err _
         · exact Ext.map' (deVec_ext _ (ih st)) _ (fun _ _ _ => rfl))
  case h_set =>
    intro k t ih st
    show Ext (fun s => de Rd.slice st (.set k t) s)
    simp only [de]
    split
    · exact Ext.err _
    · apply Ext.bind (deVec_ext _ (ih st))
      intro a; ext_leaf
  case h_map =>
    intro k a b iha ihb st
    show Ext (fun s => de Rd.slice st (.map k a b) s)
    simp only [de]
    split
    · exact Ext.err _
    · apply Ext.bind
      · apply deVec_ext
        unfold deEntry
        apply Ext.bind (iha st)
        intro x; dsimp only
        exact Ext.map' (ihb st) _ (fun _ _ _ => rfl)
      · intro x; dsimp only
        cases k <;> dsimp only <;> ext_leaf
  case h_array =>
    intro n t ih st
    show Ext (fun s => de Rd.slice st (.array n t) s)
    simp only [de]
    split
    · exact Ext.map' (readMapped_ext _) _ (fun _ _ _ => rfl)
    · exact Ext.map' (repeatDe_ext (ih st) n) _ (fun _ _ _ => rfl)
  case h_prod =>
    intro k fs ih st
    show Ext (fun s => de Rd.slice st (.prod k fs) s)
    simp only [de]
    exact Ext.map' (ih st) _ (fun _ _ _ => rfl)
  case h_sum =>
    intro k vs ih st
    show Ext (fun s => de Rd.slice st (.sum k vs) s)
    simp only [de]
    apply Ext.bind readU8_ext
    intro tag; dsimp only
    exact Ext.map' (ih st _ _ _) _ (fun _ _ _ => rfl)
  case h_wrap =>
    intro k t ih st
    show Ext (fun s => de Rd.slice st (.wrap k t) s)
    simp only [de]
    exact ih st
  case h_custom =>
    intro t _ st
    show Ext (fun s => de Rd.slice st (.custom t) s)
    simp only [de]
    exact Ext.map' (readMapped_ext _) _ (fun _ _ _ => rfl)
  case h_fnil =>
    intro st
    show Ext (fun s => deFields Rd.slice st [] s)
    simp only [deFields]
    exact Ext.pure _
  case h_fcons =>
    intro n sk t fs iht ihf st
    show Ext (fun s => deFields Rd.slice st ((n, sk, t) :: fs) s)
    simp only [deFields]
    split
    · exact Ext.map' (ihf st) _ (fun _ _ _ => rfl)
    · apply Ext.bind (iht st)
      intro a; dsimp only
      exact Ext.map' (ihf st) _ (fun _ _ _ => rfl)
  case h_vnil =>
    intro st tk tag idx
    show Ext (fun s => deVariants Rd.slice st tk [] tag idx s)
    simp only [deVariants]
    exact Ext.err _
  case h_vcons =>
    intro n g fs vs ihf ihv st tk tag idx
    show Ext (fun s => deVariants Rd.slice st tk ((n, g, fs) :: vs) tag idx s)
    simp only [deVariants]
    split
    · exact Ext.map' (ihf st) _ (fun _ _ _ => rfl)
    · exact ihv st tk tag (idx + 1)

end Borsh
