import BorshModel.Lemmas.Sim
namespace Borsh

section
variable {σ₁ σ₂ : Type} {R : σ₁ → σ₂ → Prop} {rd₁ : Rd σ₁} {rd₂ : Rd σ₂}

/-- leaves: an `if` cascade over the decoded value whose branches are `ok`/`err` constants -/
macro "sim_leaf" : tactic =>
  `(tactic| (intro s₁ s₂ hR; dsimp only; (repeat' split) <;> simp_all [OutRel]))

macro "sim_map" : tactic => `(tactic| exact fun _ _ _ => ⟨rfl, rfl, rfl⟩)

theorem de_sim (h : RdSim R rd₁ rd₂) :
    ∀ t : Ty, ∀ st, SimF R (de rd₁ st t) (de rd₂ st t) := by
  apply Ty.induct (P := fun t => ∀ st, SimF R (de rd₁ st t) (de rd₂ st t))
    (PF := fun fs => ∀ st, SimF R (deFields rd₁ st fs) (deFields rd₂ st fs))
    (PV := fun vs => ∀ st tk tag idx,
      SimF R (deVariants rd₁ st tk vs tag idx) (deVariants rd₂ st tk vs tag idx))
  case h_int =>
    intro k st
    show SimF R (fun s => de rd₁ st (.int k) s) (fun s => de rd₂ st (.int k) s)
    simp only [de]
    exact SimF.map' (readMapped_sim h _) _ _ (by sim_map)
  case h_nonzero =>
    intro k st
    show SimF R (fun s => de rd₁ st (.nonzero k) s) (fun s => de rd₂ st (.nonzero k) s)
    simp only [de]
    apply SimF.bind (readMapped_sim h _)
    intro a; sim_leaf
  case h_float =>
    intro k st
    show SimF R (fun s => de rd₁ st (.float k) s) (fun s => de rd₂ st (.float k) s)
    simp only [de]
    apply SimF.bind (readMapped_sim h _)
    intro a; sim_leaf
  case h_bool =>
    intro st
    show SimF R (fun s => de rd₁ st .bool s) (fun s => de rd₂ st .bool s)
    simp only [de]
    apply SimF.bind (readU8_sim h)
    intro a; sim_leaf
  case h_str =>
    intro k st
    show SimF R (fun s => de rd₁ st (.str k) s) (fun s => de rd₂ st (.str k) s)
    simp only [de]
    apply SimF.bind (deByteVec_sim h)
    intro a; sim_leaf
  case h_asciiChar =>
    intro st
    show SimF R (fun s => de rd₁ st .asciiChar s) (fun s => de rd₂ st .asciiChar s)
    simp only [de]
    apply SimF.bind (readU8_sim h)
    intro a; sim_leaf
  case h_raw =>
    intro k st
    show SimF R (fun s => de rd₁ st (.raw k) s) (fun s => de rd₂ st (.raw k) s)
    simp only [de]
    exact SimF.map' (readMapped_sim h _) _ _ (by sim_map)
  case h_seq =>
    intro k t ih st
    show SimF R (fun s => de rd₁ st (.seq k t) s) (fun s => de rd₂ st (.seq k t) s)
    have hb : SimF R
        (fun s => (readU32 rd₁ s).bind fun r =>
          (repeatDe (fun s => (readU8 rd₁ s).map fun b => (Val.int b.1.toNat, b.2)) r.1 r.2).map
            fun q => (Val.list q.1, q.2))
        (fun s => (readU32 rd₂ s).bind fun r =>
          (repeatDe (fun s => (readU8 rd₂ s).map fun b => (Val.int b.1.toNat, b.2)) r.1 r.2).map
            fun q => (Val.list q.1, q.2)) := by
      apply SimF.bind (readU32_sim h)
      intro n; dsimp only
      exact SimF.map' (repeatDe_sim (SimF.map' (readU8_sim h) _ _ (by sim_map)) n) _ _ (by sim_map)
    cases k <;> simp only [de] <;> first
      | exact hb
      | (intro s₁ s₂ hR; dsimp only; split
         · rfl
         · exact SimF.map' (deVec_sim h _ (ih st)) _ _ (by sim_map) s₁ s₂ hR)
  case h_set =>
    intro k t ih st
    show SimF R (fun s => de rd₁ st (.set k t) s) (fun s => de rd₂ st (.set k t) s)
    simp only [de]
    intro s₁ s₂ hR; dsimp only; split
    · rfl
    · refine SimF.bind (deVec_sim h _ (ih st)) ?_ s₁ s₂ hR
      intro a; sim_leaf
  case h_map =>
    intro k a b iha ihb st
    show SimF R (fun s => de rd₁ st (.map k a b) s) (fun s => de rd₂ st (.map k a b) s)
    simp only [de]
    intro s₁ s₂ hR; dsimp only; split
    · rfl
    · refine SimF.bind ?_ ?_ s₁ s₂ hR
      · apply deVec_sim h
        unfold deEntry
        apply SimF.bind (iha st)
        intro x; dsimp only
        exact SimF.map' (ihb st) _ _ (by sim_map)
      · intro x
        cases k <;> sim_leaf
  case h_array =>
    intro n t ih st
    show SimF R (fun s => de rd₁ st (.array n t) s) (fun s => de rd₂ st (.array n t) s)
    simp only [de]
    intro s₁ s₂ hR; dsimp only; split
    · exact SimF.map' (readMapped_sim h _) _ _ (by sim_map) s₁ s₂ hR
    · exact SimF.map' (repeatDe_sim (ih st) n) _ _ (by sim_map) s₁ s₂ hR
  case h_prod =>
    intro k fs ih st
    show SimF R (fun s => de rd₁ st (.prod k fs) s) (fun s => de rd₂ st (.prod k fs) s)
    simp only [de]
    exact SimF.map' (ih st) _ _ (by sim_map)
  case h_sum =>
    intro k vs ih st
    show SimF R (fun s => de rd₁ st (.sum k vs) s) (fun s => de rd₂ st (.sum k vs) s)
    simp only [de]
    apply SimF.bind (readU8_sim h)
    intro tag; dsimp only
    exact SimF.map' (ih st _ _ _) _ _ (by sim_map)
  case h_wrap =>
    intro k t ih st
    show SimF R (fun s => de rd₁ st (.wrap k t) s) (fun s => de rd₂ st (.wrap k t) s)
    simp only [de]
    exact ih st
  case h_custom =>
    intro t _ st
    show SimF R (fun s => de rd₁ st (.custom t) s) (fun s => de rd₂ st (.custom t) s)
    simp only [de]
    exact SimF.map' (readMapped_sim h _) _ _ (by sim_map)
  case h_fnil =>
    intro st
    show SimF R (fun s => deFields rd₁ st [] s) (fun s => deFields rd₂ st [] s)
    simp only [deFields]
    exact SimF.pure _
  case h_fcons =>
    intro n sk t fs iht ihf st
    show SimF R (fun s => deFields rd₁ st ((n, sk, t) :: fs) s) (fun s => deFields rd₂ st ((n, sk, t) :: fs) s)
    simp only [deFields]
    intro s₁ s₂ hR; dsimp only; split
    · exact SimF.map' (ihf st) _ _ (by sim_map) s₁ s₂ hR
    · refine SimF.bind (iht st) ?_ s₁ s₂ hR
      intro a; dsimp only
      exact SimF.map' (ihf st) _ _ (by sim_map)
  case h_vnil =>
    intro st tk tag idx
    show SimF R (fun s => deVariants rd₁ st tk [] tag idx s) (fun s => deVariants rd₂ st tk [] tag idx s)
    simp only [deVariants]
    exact SimF.err _
  case h_vcons =>
    intro n g fs vs ihf ihv st tk tag idx
    show SimF R (fun s => deVariants rd₁ st tk ((n, g, fs) :: vs) tag idx s)
      (fun s => deVariants rd₂ st tk ((n, g, fs) :: vs) tag idx s)
    simp only [deVariants]
    intro s₁ s₂ hR; dsimp only; split
    · exact SimF.map' (ihf st) _ _ (by sim_map) s₁ s₂ hR
    · exact ihv st tk tag (idx + 1) s₁ s₂ hR

end
end Borsh
