import BorshModel.Lemmas.SimB
namespace Borsh

section
variable {σ₁ σ₂ : Type} {R : σ₁ → σ₂ → Prop} {pos : σ₁ → Nat} {o : Nat} {esc : Err} {rd₁ : Rd σ₁} {rd₂ : Rd σ₂}

/-- leaves: an `if` cascade over the decoded value whose branches are `ok`/`err` constants -/
macro "simb_leaf" : tactic =>
  `(tactic| (refine ⟨?_, ?_⟩
             · intro s b hb; obtain ⟨b1, b2⟩ := b; dsimp only at hb; (repeat' (split at hb)) <;> simp_all
             · intro s₁ s₂ hR hp; dsimp only; (repeat' split) <;> simp_all [RelB]))

theorem de_simB (h : RdSimB R pos o esc rd₁ rd₂) (hesc : mapEof esc = esc) :
    ∀ t : Ty, ∀ st, SimB R pos o esc (de rd₁ st t) (de rd₂ st t) := by
  apply Ty.induct (P := fun t => ∀ st, SimB R pos o esc (de rd₁ st t) (de rd₂ st t))
    (PF := fun fs => ∀ st, SimB R pos o esc (deFields rd₁ st fs) (deFields rd₂ st fs))
    (PV := fun vs => ∀ st tk tag idx,
      SimB R pos o esc (deVariants rd₁ st tk vs tag idx) (deVariants rd₂ st tk vs tag idx))
  case h_int =>
    intro k st
    show SimB R pos o esc (fun s => de rd₁ st (.int k) s) (fun s => de rd₂ st (.int k) s)
    simp only [de]
    exact SimB.map' (readMapped_simB h hesc _) _ _ (fun _ _ => rfl) (fun _ _ => rfl) (fun _ _ _ => rfl)
  case h_nonzero =>
    intro k st
    show SimB R pos o esc (fun s => de rd₁ st (.nonzero k) s) (fun s => de rd₂ st (.nonzero k) s)
    simp only [de]
    apply SimB.bind (readMapped_simB h hesc _)
    intro a; simb_leaf
  case h_float =>
    intro k st
    show SimB R pos o esc (fun s => de rd₁ st (.float k) s) (fun s => de rd₂ st (.float k) s)
    simp only [de]
    apply SimB.bind (readMapped_simB h hesc _)
    intro a; simb_leaf
  case h_bool =>
    intro st
    show SimB R pos o esc (fun s => de rd₁ st .bool s) (fun s => de rd₂ st .bool s)
    simp only [de]
    apply SimB.bind (readU8_simB h hesc)
    intro a; simb_leaf
  case h_str =>
    intro k st
    show SimB R pos o esc (fun s => de rd₁ st (.str k) s) (fun s => de rd₂ st (.str k) s)
    simp only [de]
    apply SimB.bind (deByteVec_simB h hesc)
    intro a; simb_leaf
  case h_asciiChar =>
    intro st
    show SimB R pos o esc (fun s => de rd₁ st .asciiChar s) (fun s => de rd₂ st .asciiChar s)
    simp only [de]
    apply SimB.bind (readU8_simB h hesc)
    intro a; simb_leaf
  case h_raw =>
    intro k st
    show SimB R pos o esc (fun s => de rd₁ st (.raw k) s) (fun s => de rd₂ st (.raw k) s)
    simp only [de]
    exact SimB.map' (readMapped_simB h hesc _) _ _ (fun _ _ => rfl) (fun _ _ => rfl) (fun _ _ _ => rfl)
  case h_seq =>
    intro k t ih st
    show SimB R pos o esc (fun s => de rd₁ st (.seq k t) s) (fun s => de rd₂ st (.seq k t) s)
    have hb : SimB R pos o esc
        (fun s => (readU32 rd₁ s).bind fun r =>
          (repeatDe (fun s => (readU8 rd₁ s).map fun b => (Val.int b.1.toNat, b.2)) r.1 r.2).map
            fun q => (Val.list q.1, q.2))
        (fun s => (readU32 rd₂ s).bind fun r =>
          (repeatDe (fun s => (readU8 rd₂ s).map fun b => (Val.int b.1.toNat, b.2)) r.1 r.2).map
            fun q => (Val.list q.1, q.2)) := by
      apply SimB.bind (readU32_simB h hesc)
      intro n; dsimp only
      exact SimB.map' (repeatDe_simB (SimB.map' (readU8_simB h hesc) _ _ (fun _ _ => rfl) (fun _ _ => rfl) (fun _ _ _ => rfl)) n) _ _ (fun _ _ => rfl) (fun _ _ => rfl) (fun _ _ _ => rfl)
    cases k <;> simp only [de] <;> first
      | exact hb
      | (by_cases hz : memZero t = true
         · simp only [hz, if_true]; exact SimB.err _
         · simp only [hz, Bool.false_eq_true, if_false]
           exact SimB.map' (deVec_simB h hesc _ (ih st)) _ _ (fun _ _ => rfl) (fun _ _ => rfl) (fun _ _ _ => rfl))
  case h_set =>
    intro k t ih st
    show SimB R pos o esc (fun s => de rd₁ st (.set k t) s) (fun s => de rd₂ st (.set k t) s)
    simp only [de]
    by_cases hz : memZero t = true
    · simp only [hz, if_true]; exact SimB.err _
    · simp only [hz, Bool.false_eq_true, if_false]
      refine SimB.bind (deVec_simB h hesc _ (ih st)) ?_
      intro a; simb_leaf
  case h_map =>
    intro k a b iha ihb st
    show SimB R pos o esc (fun s => de rd₁ st (.map k a b) s) (fun s => de rd₂ st (.map k a b) s)
    simp only [de]
    by_cases hz : memZero a = true
    · simp only [hz, if_true]; exact SimB.err _
    · simp only [hz, Bool.false_eq_true, if_false]
      refine SimB.bind ?_ ?_
      · apply deVec_simB h hesc
        unfold deEntry
        apply SimB.bind (iha st)
        intro x; dsimp only
        exact SimB.map' (ihb st) _ _ (fun _ _ => rfl) (fun _ _ => rfl) (fun _ _ _ => rfl)
      · intro x
        cases k <;> simb_leaf
  case h_array =>
    intro n t ih st
    show SimB R pos o esc (fun s => de rd₁ st (.array n t) s) (fun s => de rd₂ st (.array n t) s)
    simp only [de]
    by_cases hz : t.isU8 = true
    · simp only [hz, if_true]; exact SimB.map' (readMapped_simB h hesc _) _ _ (fun _ _ => rfl) (fun _ _ => rfl) (fun _ _ _ => rfl)
    · simp only [hz, Bool.false_eq_true, if_false]; exact SimB.map' (repeatDe_simB (ih st) n) _ _ (fun _ _ => rfl) (fun _ _ => rfl) (fun _ _ _ => rfl)
  case h_prod =>
    intro k fs ih st
    show SimB R pos o esc (fun s => de rd₁ st (.prod k fs) s) (fun s => de rd₂ st (.prod k fs) s)
    simp only [de]
    exact SimB.map' (ih st) _ _ (fun _ _ => rfl) (fun _ _ => rfl) (fun _ _ _ => rfl)
  case h_sum =>
    intro k vs ih st
    show SimB R pos o esc (fun s => de rd₁ st (.sum k vs) s) (fun s => de rd₂ st (.sum k vs) s)
    simp only [de]
    apply SimB.bind (readU8_simB h hesc)
    intro tag; dsimp only
    exact SimB.map' (ih st _ _ _) _ _ (fun _ _ => rfl) (fun _ _ => rfl) (fun _ _ _ => rfl)
  case h_wrap =>
    intro k t ih st
    show SimB R pos o esc (fun s => de rd₁ st (.wrap k t) s) (fun s => de rd₂ st (.wrap k t) s)
    simp only [de]
    exact ih st
  case h_custom =>
    intro t _ st
    show SimB R pos o esc (fun s => de rd₁ st (.custom t) s) (fun s => de rd₂ st (.custom t) s)
    simp only [de]
    exact SimB.map' (readMapped_simB h hesc _) _ _ (fun _ _ => rfl) (fun _ _ => rfl) (fun _ _ _ => rfl)
  case h_fnil =>
    intro st
    show SimB R pos o esc (fun s => deFields rd₁ st [] s) (fun s => deFields rd₂ st [] s)
    simp only [deFields]
    exact SimB.pure _
  case h_fcons =>
    intro n sk t fs iht ihf st
    show SimB R pos o esc (fun s => deFields rd₁ st ((n, sk, t) :: fs) s) (fun s => deFields rd₂ st ((n, sk, t) :: fs) s)
    simp only [deFields]
    by_cases hz : sk = true
    · simp only [hz, if_true]; exact SimB.map' (ihf st) _ _ (fun _ _ => rfl) (fun _ _ => rfl) (fun _ _ _ => rfl)
    · simp only [hz, Bool.false_eq_true, if_false]
      refine SimB.bind (iht st) ?_
      intro a; dsimp only
      exact SimB.map' (ihf st) _ _ (fun _ _ => rfl) (fun _ _ => rfl) (fun _ _ _ => rfl)
  case h_vnil =>
    intro st tk tag idx
    show SimB R pos o esc (fun s => deVariants rd₁ st tk [] tag idx s) (fun s => deVariants rd₂ st tk [] tag idx s)
    simp only [deVariants]
    exact SimB.err _
  case h_vcons =>
    intro n g fs vs ihf ihv st tk tag idx
    show SimB R pos o esc (fun s => deVariants rd₁ st tk ((n, g, fs) :: vs) tag idx s)
      (fun s => deVariants rd₂ st tk ((n, g, fs) :: vs) tag idx s)
    simp only [deVariants]
    by_cases hz : (UInt8.ofNat g == tag) = true
    · simp only [hz, if_true]; exact SimB.map' (ihf st) _ _ (fun _ _ => rfl) (fun _ _ => rfl) (fun _ _ _ => rfl)
    · simp only [hz, Bool.false_eq_true, if_false]; exact ihv st tk tag (idx + 1)

end
end Borsh
