/-
  C08: if every declaration a type refers to is bound as intended (`Bnd`), a reader that knows only
  the container parses every encoding of every value of the type exactly (`Desc`).
-/
import BorshModel.SchemaWalk
import BorshModel.Lemmas.RoundtripMain
import BorshModel.Lemmas.Sort
namespace Borsh

/-! ### the walker is monotone in its fuel -/

theorem listWith_mono {f g : Name → Bytes → Option Bytes}
    (h : ∀ d bs r, f d bs = some r → g d bs = some r) :
    ∀ (ds : List Name) (bs r : Bytes), listWith f ds bs = some r → listWith g ds bs = some r := by
  intro ds
  induction ds with
  | nil => intro bs r hr; exact hr
  | cons d ds ih =>
    intro bs r hr
    simp only [listWith] at hr ⊢
    cases hf : f d bs with
    | none => simp [hf] at hr
    | some x =>
      rw [hf] at hr
      rw [h d bs x hf]
      exact ih x r hr

theorem repeatWith_mono {f g : Bytes → Option Bytes} (h : ∀ bs r, f bs = some r → g bs = some r) :
    ∀ (n : Nat) (bs r : Bytes), repeatWith f n bs = some r → repeatWith g n bs = some r := by
  intro n
  induction n with
  | zero => intro bs r hr; exact hr
  | succ n ih =>
    intro bs r hr
    simp only [repeatWith] at hr ⊢
    cases hf : f bs with
    | none => simp [hf] at hr
    | some x =>
      rw [hf] at hr
      rw [h bs x hf]
      exact ih x r hr

theorem sdec_succ (c : Container) : ∀ (fuel : Nat) (d : Name) (bs r : Bytes),
    sdec c fuel d bs = some r → sdec c (fuel + 1) d bs = some r := by
  intro fuel
  induction fuel with
  | zero => intro d bs r h; simp [sdec] at h
  | succ fuel ih =>
    intro d bs r h
    unfold sdec at h ⊢
    cases hg : c.get d with
    | none => simp [hg] at h
    | some df =>
      simp only [hg] at h ⊢
      cases df with
      | primitive n => exact h
      | sequence lw lo hi e =>
        simp only at h ⊢
        split
        · rename_i h0
          simp only [h0, if_true] at h
          split
          · rename_i h1
            simp only [h1, if_true] at h
            exact repeatWith_mono (ih e) _ _ _ h
          · rename_i h1; simp [h1] at h
        · rename_i h0
          simp only [h0, if_false] at h
          split
          · rename_i h1
            simp only [h1, if_true] at h
            split
            · rename_i h2
              simp only [h2, if_true] at h
              exact repeatWith_mono (ih e) _ _ _ h
            · rename_i h2; simp [h2] at h
          · rename_i h1; simp [h1] at h
      | tuple es => exact listWith_mono (ih) es bs r h
      | «enum» tw vs =>
        simp only at h ⊢
        split
        · rename_i h0
          simp only [h0, if_true] at h
          cases hfind : vs.find? (fun v => v.1 == ((ofLe (bs.take tw) : Nat) : Int)) with
          | none => simp [hfind] at h
          | some v =>
            simp only [hfind] at h ⊢
            exact ih _ _ _ h
        · rename_i h0; simp [h0] at h
      | struct fs => exact listWith_mono ih _ bs r h

theorem sdec_mono (c : Container) {f f' : Nat} (hf : f ≤ f') (d : Name) (bs r : Bytes)
    (h : sdec c f d bs = some r) : sdec c f' d bs = some r := by
  induction hf with
  | refl => exact h
  | step _ ih => exact sdec_succ c _ d bs r ih

/-! ### the statement proved by induction over the universe -/

/-- some fuel suffices, uniformly in the value, for the walker to consume exactly the encoding -/
def Desc (c : Container) (t : Ty) : Prop :=
  ∃ f, ∀ f', f ≤ f' → ∀ (v : Val) (rest : Bytes), HasTy t v = true → (ser t v).Ok →
    sdec c f' (declOf t) ((ser t v).bytes ++ rest) = some rest

/-- declarations of the fields that are on the wire -/
def keptDecls : List Field → List Name
  | [] => []
  | (_, skip, t) :: fs => if skip then keptDecls fs else declOf t :: keptDecls fs

def DescF (c : Container) (fs : List Field) : Prop :=
  ∃ f, ∀ f', f ≤ f' → ∀ (vs : List Val) (rest : Bytes), HasTyFields fs vs = true → (serFields fs vs).Ok →
    listWith (sdec c f') (keptDecls fs) ((serFields fs vs).bytes ++ rest) = some rest

theorem Desc.intro1 {c : Container} {t : Ty} (f : Nat)
    (h : ∀ f', f ≤ f' → ∀ (v : Val) (rest : Bytes), HasTy t v = true → (ser t v).Ok →
      sdec c f' (declOf t) ((ser t v).bytes ++ rest) = some rest) : Desc c t := ⟨f, h⟩

/-- a primitive of `n` bytes consumes exactly `n` bytes -/
theorem sdec_prim {c : Container} {d : Name} {n : Nat} (hg : c.get d = some (.primitive n))
    (f : Nat) (x rest : Bytes) (hx : x.length = n) : sdec c (f + 1) d (x ++ rest) = some rest := by
  unfold sdec
  simp only [hg]
  have : n ≤ (x ++ rest).length := by simp; omega
  simp [this, ← hx]

theorem repeatWith_append {g : Bytes → Option Bytes} {f : Val → Tr} (vs : List Val)
    (h : ∀ v ∈ vs, ∀ rest, g ((f v).bytes ++ rest) = some rest) (hok : (serMany f vs).Ok) (rest : Bytes) :
    repeatWith g vs.length ((serMany f vs).bytes ++ rest) = some rest := by
  induction vs with
  | nil => simp [repeatWith, serMany, Tr.done, Tr.bytes]
  | cons v vs ih =>
    simp only [serMany] at hok ⊢
    have hk := Tr.andThen_ok.mp hok
    rw [Tr.andThen_bytes hk.1, List.append_assoc]
    simp only [List.length_cons, repeatWith]
    rw [h v (by simp)]
    exact ih (fun w hw => h w (by simp [hw])) hk.2

/-- `n` one-byte primitives consume `n` bytes -/
theorem repeatWith_bytes {g : Bytes → Option Bytes}
    (hg : ∀ b rest, g (b :: rest) = some rest) : ∀ (x rest : Bytes),
    repeatWith g x.length (x ++ rest) = some rest := by
  intro x
  induction x with
  | nil => intro rest; rfl
  | cons b x ih =>
    intro rest
    simp only [List.length_cons, repeatWith, List.cons_append, hg b (x ++ rest)]
    exact ih rest

/-- a length-prefixed sequence (`Vec`-like definition) -/
theorem sdec_seq4 {c : Container} {d e : Name} (hg : c.get d = some (defaultSeq e))
    (f n : Nat) (hn : n < 2 ^ 32) (body rest : Bytes)
    (hbody : repeatWith (sdec c f e) n (body ++ rest) = some rest) :
    sdec c (f + 1) d (u32le n ++ body ++ rest) = some rest := by
  unfold sdec
  simp only [hg, defaultSeq]
  have h4 : (u32le n).length = 4 := by simp [u32le]
  have hlen : 4 ≤ (u32le n ++ body ++ rest).length := by simp [h4]
  have htake : (u32le n ++ body ++ rest).take 4 = u32le n := by
    rw [List.append_assoc, List.take_append_of_le_length (by omega)]
    rw [← h4, List.take_length]
  have hdrop : (u32le n ++ body ++ rest).drop 4 = body ++ rest := by
    rw [List.append_assoc, ← h4, List.drop_left]
  have hof : ofLe (u32le n) = n := by
    simp only [u32le, ofLe_leBytes]
    exact Nat.mod_eq_of_lt (by simpa using hn)
  simp only [show (4 : Nat) ≠ 0 by decide, if_false, hlen, if_true, htake, hdrop, hof]
  have : 0 ≤ n ∧ n ≤ 2 ^ 32 - 1 := ⟨Nat.zero_le _, by omega⟩
  simp only [this, and_self, if_true]
  exact hbody

/-! ### leaves -/

theorem succ_of_le {f f' : Nat} (h : f + 1 ≤ f') : ∃ g, f' = g + 1 ∧ f ≤ g := ⟨f' - 1, by omega, by omega⟩

theorem emit_bytes' (bs : Bytes) : (Tr.emit bs).bytes = bs := by simp [Tr.emit, Tr.bytes]

theorem desc_int (c : Container) (k : IntK) (hb : Bnd c (.int k)) : Desc c (.int k) := by
  simp only [Bnd] at hb
  refine Desc.intro1 1 fun f' hf v rest hv _ => ?_
  obtain ⟨g, rfl, _⟩ := succ_of_le hf
  match v, hv with
  | .int i, _ =>
    simp only [ser, emit_bytes']
    exact sdec_prim hb g _ rest (encInt_length k i)

theorem desc_nonzero (c : Container) (k : IntK) (hb : Bnd c (.nonzero k)) : Desc c (.nonzero k) := by
  simp only [Bnd] at hb
  refine Desc.intro1 1 fun f' hf v rest hv _ => ?_
  obtain ⟨g, rfl, _⟩ := succ_of_le hf
  match v, hv with
  | .int i, _ =>
    simp only [ser, emit_bytes']
    exact sdec_prim hb g _ rest (encInt_length k i)

theorem desc_float (c : Container) (k : FloatK) (hb : Bnd c (.float k)) : Desc c (.float k) := by
  simp only [Bnd] at hb
  refine Desc.intro1 1 fun f' hf v rest hv hok => ?_
  obtain ⟨g, rfl, _⟩ := succ_of_le hf
  match v, hv with
  | .int b, _ =>
    simp only [ser] at hok ⊢
    split at hok
    · simp [Tr.Ok, Tr.fail] at hok
    · rename_i hn
      simp only [hn, Bool.false_eq_true, if_false, emit_bytes']
      exact sdec_prim hb g _ rest (by simp)

theorem desc_bool (c : Container) (hb : Bnd c .bool) : Desc c .bool := by
  simp only [Bnd] at hb
  refine Desc.intro1 1 fun f' hf v rest hv _ => ?_
  obtain ⟨g, rfl, _⟩ := succ_of_le hf
  match v, hv with
  | .bool b, _ =>
    simp only [ser, emit_bytes', declOf]
    exact sdec_prim hb g _ rest rfl

theorem desc_asciiChar (c : Container) (hb : Bnd c .asciiChar) : Desc c .asciiChar := by
  simp only [Bnd] at hb
  refine Desc.intro1 1 fun f' hf v rest hv _ => ?_
  obtain ⟨g, rfl, _⟩ := succ_of_le hf
  match v, hv with
  | .int i, _ =>
    simp only [ser, emit_bytes', declOf]
    exact sdec_prim hb g _ rest rfl

/-- a one-byte primitive read `n` times -/
theorem repeat_u8 {c : Container} {e : Name} (he : c.get e = some (.primitive 1)) (g : Nat)
    (x rest : Bytes) : repeatWith (sdec c (g + 1) e) x.length (x ++ rest) = some rest := by
  apply repeatWith_bytes
  intro b r
  have := sdec_prim he g [b] r rfl
  simpa using this

theorem desc_str (c : Container) (k : StrK) (hb : Bnd c (.str k)) : Desc c (.str k) := by
  refine Desc.intro1 2 fun f' hf v rest hv hok => ?_
  obtain ⟨g1, rfl, hg1⟩ := succ_of_le hf
  obtain ⟨g, rfl, _⟩ := succ_of_le hg1
  match v, hv with
  | .blob bs, _ =>
    simp only [ser] at hok ⊢
    have hk := Tr.andThen_ok.mp hok
    have hl := serLen_ok.mp hk.1
    rw [Tr.andThen_bytes hk.1, serLen_bytes hl, emit_bytes']
    simp only [Bnd] at hb
    cases hka : k.isAscii with
    | true =>
      simp only [hka, if_true] at hb
      simp only [declOf, hka, if_true]
      exact sdec_seq4 hb.1 _ _ hl bs rest (repeat_u8 hb.2 g bs rest)
    | false =>
      simp only [hka, Bool.false_eq_true, if_false] at hb
      simp only [declOf, hka, Bool.false_eq_true, if_false]
      exact sdec_seq4 hb.1 _ _ hl bs rest (repeat_u8 hb.2 g bs rest)

/-! ### normal forms of the sequence serializers -/

/-- bulk write or element loop: as bytes, always the element loop -/
theorem payload_norm (t : Ty) (vs : List Val) (hall : vs.all (HasTy t) = true)
    (hok : (if t.isU8 then Tr.emit (valBytes vs) else serMany (ser t) vs).Ok) :
    (serMany (ser t) vs).Ok ∧
    (if t.isU8 then Tr.emit (valBytes vs) else serMany (ser t) vs).bytes = (serMany (ser t) vs).bytes := by
  cases hu : t.isU8 with
  | false =>
    rw [hu] at hok
    simp only [Bool.false_eq_true, if_false] at hok ⊢
    exact ⟨hok, trivial⟩
  | true =>
    have ht := isU8_eq hu
    subst ht
    have := serMany_u8_bytes vs (all_of_all hall)
    simp only [Ty.isU8, if_true, emit_bytes']
    exact ⟨this.1, this.2.symm⟩

/-- every list-shaped sequence value is written as its count and then its elements -/
theorem ser_seq_list_norm (k : SeqK) (t : Ty) (vs : List Val) (hall : vs.all (HasTy t) = true)
    (hok : (ser (.seq k t) (.list vs)).Ok) :
    vs.length < 2 ^ 32 ∧ (serMany (ser t) vs).Ok ∧
      (ser (.seq k t) (.list vs)).bytes = u32le vs.length ++ (serMany (ser t) vs).bytes := by
  simp only [ser] at hok ⊢
  split at hok
  · simp [Tr.Ok, Tr.fail] at hok
  · rename_i hz
    simp only [hz, Bool.false_eq_true, if_false]
    split at hok
    · rename_i hn
      simp only [hn, if_true]
      have hk := Tr.andThen_ok.mp hok
      have hl := serLen_ok.mp hk.1
      exact ⟨hl, hk.2, by rw [Tr.andThen_bytes hk.1, serLen_bytes hl]⟩
    · rename_i hn
      simp only [hn, Bool.false_eq_true, if_false]
      have hk := Tr.andThen_ok.mp hok
      have hl := serLen_ok.mp hk.1
      obtain ⟨pok, pb⟩ := payload_norm t vs hall hk.2
      exact ⟨hl, pok, by rw [Tr.andThen_bytes hk.1, serLen_bytes hl, pb]⟩

theorem ser_seq_deque_norm (k : SeqK) (t : Ty) (a b : List Val)
    (ha : a.all (HasTy t) = true) (hb : b.all (HasTy t) = true)
    (hok : (ser (.seq k t) (.deque a b)).Ok) :
    (a ++ b).length < 2 ^ 32 ∧ (serMany (ser t) (a ++ b)).Ok ∧
      (ser (.seq k t) (.deque a b)).bytes = u32le (a ++ b).length ++ (serMany (ser t) (a ++ b)).bytes := by
  simp only [ser] at hok ⊢
  split at hok
  · simp [Tr.Ok, Tr.fail] at hok
  · rename_i hz
    simp only [hz, Bool.false_eq_true, if_false]
    have hk := Tr.andThen_ok.mp hok
    have hk1 := Tr.andThen_ok.mp hk.1
    have hl := serLen_ok.mp hk1.1
    obtain ⟨aok, ab⟩ := payload_norm t a ha hk1.2
    obtain ⟨bok, bb⟩ := payload_norm t b hb hk.2
    have hab : (serMany (ser t) (a ++ b)).Ok := serMany_append_ok.mpr ⟨aok, bok⟩
    refine ⟨by simpa using hl, hab, ?_⟩
    rw [Tr.andThen_bytes hk.1, Tr.andThen_bytes hk1.1, serLen_bytes hl, ab, bb,
      serMany_append_bytes hab]
    simp [List.append_assoc]

/-! ### collections -/

theorem desc_elems {c : Container} {t : Ty} {ft : Nat}
    (ht : ∀ f', ft ≤ f' → ∀ (v : Val) (rest : Bytes), HasTy t v = true → (ser t v).Ok →
      sdec c f' (declOf t) ((ser t v).bytes ++ rest) = some rest)
    (g : Nat) (hg : ft ≤ g) (vs : List Val) (hall : vs.all (HasTy t) = true)
    (hok : (serMany (ser t) vs).Ok) (rest : Bytes) :
    repeatWith (sdec c g (declOf t)) vs.length ((serMany (ser t) vs).bytes ++ rest) = some rest :=
  repeatWith_append vs
    (fun v hv r => ht g hg v r (all_of_all hall v hv) (serMany_ok.mp hok v hv)) hok rest

theorem desc_seq (c : Container) (k : SeqK) (t : Ty) (hb : Bnd c (.seq k t)) (ih : Desc c t) :
    Desc c (.seq k t) := by
  simp only [Bnd] at hb
  obtain ⟨ft, ht⟩ := ih
  refine Desc.intro1 (ft + 1) fun f' hf v rest hv hok => ?_
  obtain ⟨g, rfl, hg⟩ := succ_of_le hf
  cases v with
  | list vs =>
    simp only [HasTy, Bool.and_eq_true] at hv
    obtain ⟨hl, sok, hbytes⟩ := ser_seq_list_norm k t vs hv.1.2 hok
    rw [hbytes]
    exact sdec_seq4 hb.1 g _ hl _ rest (desc_elems ht g hg vs hv.1.2 sok rest)
  | deque a b =>
    simp only [HasTy, Bool.and_eq_true] at hv
    obtain ⟨hl, sok, hbytes⟩ := ser_seq_deque_norm k t a b hv.1.2 hv.2 hok
    rw [hbytes]
    have hall : (a ++ b).all (HasTy t) = true := by simp [List.all_append, hv.1.2, hv.2]
    exact sdec_seq4 hb.1 g _ hl _ rest (desc_elems ht g hg (a ++ b) hall sok rest)
  | _ => simp [HasTy] at hv

theorem set_core {c : Container} {d : Name} {t : Ty} {ft : Nat}
    (hd : c.get d = some (defaultSeq (declOf t)))
    (ht : ∀ f', ft ≤ f' → ∀ (v : Val) (rest : Bytes), HasTy t v = true → (ser t v).Ok →
      sdec c f' (declOf t) ((ser t v).bytes ++ rest) = some rest)
    (g : Nat) (hg : ft ≤ g) (ws : List Val) (hall : ws.all (HasTy t) = true)
    (hok : (serLen ws.length ▹ serMany (ser t) ws).Ok) (rest : Bytes) :
    sdec c (g + 1) d ((serLen ws.length ▹ serMany (ser t) ws).bytes ++ rest) = some rest := by
  have hk := Tr.andThen_ok.mp hok
  have hl := serLen_ok.mp hk.1
  rw [Tr.andThen_bytes hk.1, serLen_bytes hl]
  exact sdec_seq4 hd g _ hl _ rest (desc_elems ht g hg ws hall hk.2 rest)

theorem desc_set (c : Container) (k : SetK) (t : Ty) (hb : Bnd c (.set k t)) (ih : Desc c t) :
    Desc c (.set k t) := by
  simp only [Bnd] at hb
  obtain ⟨ft, ht⟩ := ih
  refine Desc.intro1 (ft + 1) fun f' hf v rest hv hok => ?_
  obtain ⟨g, rfl, hg⟩ := succ_of_le hf
  cases v with
  | list vs =>
    simp only [HasTy, Bool.and_eq_true] at hv
    simp only [ser] at hok ⊢
    split at hok
    · simp [Tr.Ok, Tr.fail] at hok
    · rename_i hz
      simp only [hz, Bool.false_eq_true, if_false]
      cases k
      · simp only at hok ⊢
        have hall' : (sortByKey id vs).all (HasTy t) = true := by
          rw [List.all_eq_true]
          intro w hw
          exact all_of_all hv.1 w ((mem_sortByKey id w vs).mp hw)
        exact set_core hb.1 ht g hg _ hall' hok rest
      · simp only at hok ⊢
        exact set_core hb.1 ht g hg _ hv.1 hok rest
  | _ => simp [HasTy] at hv

theorem sdec_tuple {c : Container} {d : Name} {es : List Name} (hg : c.get d = some (.tuple es))
    (f : Nat) (bs : Bytes) : sdec c (f + 1) d bs = listWith (sdec c f) es bs := by
  conv => lhs; unfold sdec
  simp only [hg]

theorem sdec_struct {c : Container} {d : Name} {fs : Fields} (hg : c.get d = some (.struct fs))
    (f : Nat) (bs : Bytes) : sdec c (f + 1) d bs = listWith (sdec c f) fs.decls bs := by
  conv => lhs; unfold sdec
  simp only [hg]

theorem map_core {c : Container} {d pair : Name} {a b : Ty} {fa fb : Nat}
    (hd : c.get d = some (defaultSeq pair)) (hpair : c.get pair = some (.tuple [declOf a, declOf b]))
    (hta : ∀ f', fa ≤ f' → ∀ (v : Val) (rest : Bytes), HasTy a v = true → (ser a v).Ok →
      sdec c f' (declOf a) ((ser a v).bytes ++ rest) = some rest)
    (htb : ∀ f', fb ≤ f' → ∀ (v : Val) (rest : Bytes), HasTy b v = true → (ser b v).Ok →
      sdec c f' (declOf b) ((ser b v).bytes ++ rest) = some rest)
    (g : Nat) (hga : fa ≤ g) (hgb : fb ≤ g) (es : List Val)
    (hall : ∀ e ∈ es, (match e with
      | .list [x, y] => HasTy a x && HasTy b y
      | _ => false) = true)
    (hok : (serLen es.length ▹ serMany (serEntry (ser a) (ser b)) es).Ok) (rest : Bytes) :
    sdec c (g + 1 + 1) d ((serLen es.length ▹ serMany (serEntry (ser a) (ser b)) es).bytes ++ rest)
      = some rest := by
  have hk := Tr.andThen_ok.mp hok
  have hl := serLen_ok.mp hk.1
  rw [Tr.andThen_bytes hk.1, serLen_bytes hl]
  refine sdec_seq4 hd (g + 1) _ hl _ rest ?_
  refine repeatWith_append es ?_ hk.2 rest
  intro e he r
  have hty := hall e he
  have heok := serMany_ok.mp hk.2 e he
  match e, hty, heok with
  | .list [x, y], hty, heok =>
    simp only [Bool.and_eq_true] at hty
    simp only [serEntry] at heok ⊢
    have hxy := Tr.andThen_ok.mp heok
    rw [sdec_tuple hpair, Tr.andThen_bytes hxy.1, List.append_assoc]
    simp only [listWith]
    rw [hta g hga x _ hty.1 hxy.1]
    simp only [Option.bind_some]
    rw [htb g hgb y r hty.2 hxy.2]
    rfl

theorem desc_map (c : Container) (k : MapK) (a b : Ty) (hb : Bnd c (.map k a b))
    (iha : Desc c a) (ihb : Desc c b) : Desc c (.map k a b) := by
  simp only [Bnd] at hb
  obtain ⟨hdecl, hpair, _, _⟩ := hb
  obtain ⟨fa, hta⟩ := iha
  obtain ⟨fb, htb⟩ := ihb
  refine Desc.intro1 (max fa fb + 2) fun f' hf v rest hv hok => ?_
  obtain ⟨g1, rfl, hg1⟩ := succ_of_le hf
  obtain ⟨g, rfl, hg⟩ := succ_of_le hg1
  cases v with
  | list es =>
    simp only [HasTy, Bool.and_eq_true] at hv
    have hall := List.all_eq_true.mp hv.1
    simp only [ser] at hok ⊢
    split at hok
    · simp [Tr.Ok, Tr.fail] at hok
    · rename_i hz
      simp only [hz, Bool.false_eq_true, if_false]
      cases k
      · simp only at hok ⊢
        exact map_core hdecl hpair hta htb g (by omega) (by omega) _
          (fun e he => hall e ((mem_sortByKey entryKey e es).mp he)) hok rest
      · simp only at hok ⊢
        exact map_core hdecl hpair hta htb g (by omega) (by omega) _ hall hok rest
      · simp only at hok ⊢
        exact map_core hdecl hpair hta htb g (by omega) (by omega) _ hall hok rest
  | _ => simp [HasTy] at hv

theorem sdec_fixed {c : Container} {d e : Name} {n : Nat} (hg : c.get d = some (.sequence 0 n n e))
    (f : Nat) (bs : Bytes) : sdec c (f + 1) d bs = repeatWith (sdec c f e) n bs := by
  conv => lhs; unfold sdec
  simp only [hg, if_true]

theorem desc_array (c : Container) (n : Nat) (t : Ty) (hb : Bnd c (.array n t)) (ih : Desc c t) :
    Desc c (.array n t) := by
  simp only [Bnd] at hb
  obtain ⟨ft, ht⟩ := ih
  refine Desc.intro1 (ft + 1) fun f' hf v rest hv hok => ?_
  obtain ⟨g, rfl, hg⟩ := succ_of_le hf
  cases v with
  | list vs =>
    simp only [HasTy, Bool.and_eq_true, beq_iff_eq] at hv
    obtain ⟨hlen, hall⟩ := hv
    subst hlen
    rw [sdec_fixed hb.1]
    -- as bytes the array is the element loop
    have hnorm : (serMany (ser t) vs).Ok ∧ (ser (.array vs.length t) (.list vs)).bytes = (serMany (ser t) vs).bytes := by
      simp only [ser] at hok ⊢
      split at hok
      · rename_i h0
        have : vs = [] := List.eq_nil_of_length_eq_zero (by simpa using h0)
        subst this
        simp [h0, serMany, Tr.Ok, Tr.done, Tr.bytes]
      · rename_i h0
        simp only [h0, Bool.false_eq_true, if_false]
        exact payload_norm t vs hall hok
    rw [hnorm.2]
    exact desc_elems ht g hg vs hall hnorm.1 rest
  | _ => simp [HasTy] at hv

/-! ### fields and products -/

theorem descf_nil (c : Container) : DescF c [] := by
  refine ⟨0, fun f' _ vs rest hv _ => ?_⟩
  cases vs with
  | nil => simp [keptDecls, listWith, serFields, Tr.done, Tr.bytes]
  | cons v vs => simp [HasTyFields] at hv

theorem descf_cons (c : Container) (n : Option Name) (sk : Bool) (t : Ty) (fs : List Field)
    (ht : sk = true ∨ Desc c t) (ihf : DescF c fs) : DescF c ((n, sk, t) :: fs) := by
  obtain ⟨ff, hff⟩ := ihf
  cases sk with
  | true =>
    refine ⟨ff, fun f' hf vs rest hv hok => ?_⟩
    cases vs with
    | nil => simp [HasTyFields] at hv
    | cons v vs =>
      simp only [HasTyFields, Bool.and_eq_true] at hv
      simp only [serFields, if_true, keptDecls] at hok ⊢
      exact hff f' hf vs rest hv.2 hok
  | false =>
    have ht' : Desc c t := by
      cases ht with
      | inl h => cases h
      | inr h => exact h
    obtain ⟨ft, htt⟩ := ht'
    refine ⟨max ft ff, fun f' hf vs rest hv hok => ?_⟩
    cases vs with
    | nil => simp [HasTyFields] at hv
    | cons v vs =>
      simp only [HasTyFields, Bool.and_eq_true] at hv
      simp only [serFields, Bool.false_eq_true, if_false, keptDecls] at hok ⊢
      have hk := Tr.andThen_ok.mp hok
      rw [Tr.andThen_bytes hk.1, List.append_assoc]
      simp only [listWith]
      rw [htt f' (by omega) v _ hv.1 hk.1]
      simp only [Option.bind_some]
      exact hff f' (by omega) vs rest hv.2 hk.2

theorem keptDecls_noSkip : ∀ fs : List Field, noSkip fs = true → keptDecls fs = declOfFields fs := by
  intro fs
  induction fs with
  | nil => intro _; rfl
  | cons f fs ih =>
    obtain ⟨n, sk, t⟩ := f
    intro h
    simp only [noSkip, Bool.and_eq_true, Bool.not_eq_eq_eq_not, Bool.not_true] at h
    simp only [keptDecls, h.1, Bool.false_eq_true, if_false, declOfFields, ih h.2]

theorem keptDecls_eq_filter : ∀ fs : List Field,
    keptDecls fs = (fs.filter fun f => !f.2.1).map fun f => declOf f.2.2 := by
  intro fs
  induction fs with
  | nil => rfl
  | cons f fs ih =>
    obtain ⟨n, sk, t⟩ := f
    cases sk <;> simp [keptDecls, ih]

theorem schemaFields_decls (fs : List Field) : (schemaFields fs).decls = keptDecls fs := by
  rw [keptDecls_eq_filter]
  unfold schemaFields
  cases hk : fs.filter (fun f => !f.2.1) with
  | nil => simp [Fields.decls]
  | cons f rest =>
    obtain ⟨n, sk, t⟩ := f
    cases n with
    | none => simp [Fields.decls]
    | some nm => simp [Fields.decls, List.map_map, Function.comp]

theorem zip_names_decls (ds : List Name) (a b : Name) (h : ds.length = 2) :
    (Fields.named ((ds.zip [a, b]).map fun p => (p.2, p.1))).decls = ds := by
  match ds, h with
  | [x, y], _ => rfl

theorem map_snd_pair (n : Name) : ∀ ds : List Name, (ds.map fun d => (n, d)).map (·.2) = ds := by
  intro ds
  induction ds with
  | nil => rfl
  | cons d ds ih => simp [ih]

theorem declOfFields_length : ∀ fs : List Field, (declOfFields fs).length = fs.length := by
  intro fs
  induction fs with
  | nil => rfl
  | cons f fs ih => obtain ⟨n, sk, t⟩ := f; simp [declOfFields, ih]

theorem bndFields_kept (c : Container) : ∀ fs : List Field, BndFields c fs → BndKept c fs := by
  intro fs
  induction fs with
  | nil => intro _; trivial
  | cons f fs ih =>
    obtain ⟨n, sk, t⟩ := f
    intro h
    simp only [BndFields] at h
    simp only [BndKept]
    exact ⟨Or.inr h.1, ih h.2⟩

/-- every product kind with fields on the wire walks its kept fields in order -/
theorem prod_walk (c : Container) (k : ProdK) (fs : List Field) (hs : shapeOk (.prod k fs) = true)
    (hb : Bnd c (.prod k fs)) (hk : k ≠ .unit ∧ k ≠ .phantom) (g : Nat) (bs : Bytes) :
    sdec c (g + 1) (declOf (.prod k fs)) bs = listWith (sdec c g) (keptDecls fs) bs := by
  simp only [shapeOk, Bool.and_eq_true] at hs
  cases k with
  | tuple =>
    simp only [Bnd] at hb
    rw [sdec_tuple hb.1, keptDecls_noSkip fs hs.1]
  | unit => exact absurd rfl hk.1
  | phantom => exact absurd rfl hk.2
  | rangeFull =>
    simp only [Bnd] at hb
    have hfs : fs = [] := by simpa using hs.1
    subst hfs
    simp only [declOf]
    rw [sdec_struct hb]
    rfl
  | range =>
    simp only [Bnd] at hb
    simp only [Bool.and_eq_true, beq_iff_eq] at hs
    rw [sdec_struct hb.1, zip_names_decls _ _ _ (by rw [declOfFields_length]; exact hs.1.2),
      keptDecls_noSkip fs hs.1.1]
  | rangeInclusive =>
    simp only [Bnd] at hb
    simp only [Bool.and_eq_true, beq_iff_eq] at hs
    rw [sdec_struct hb.1, zip_names_decls _ _ _ (by rw [declOfFields_length]; exact hs.1.2),
      keptDecls_noSkip fs hs.1.1]
  | rangeFrom =>
    simp only [Bnd] at hb
    rw [sdec_struct hb.1, keptDecls_noSkip fs hs.1]
    simp only [Fields.decls, map_snd_pair]
  | rangeTo =>
    simp only [Bnd] at hb
    rw [sdec_struct hb.1, keptDecls_noSkip fs hs.1]
    simp only [Fields.decls, map_snd_pair]
  | rangeToInclusive =>
    simp only [Bnd] at hb
    rw [sdec_struct hb.1, keptDecls_noSkip fs hs.1]
    simp only [Fields.decls, map_snd_pair]
  | sockV4 => simp at hs
  | sockV6 => simp at hs
  | struct name i =>
    simp only [Bnd] at hb
    simp only [declOf]
    rw [sdec_struct hb.1, schemaFields_decls]

theorem desc_prod (c : Container) (k : ProdK) (fs : List Field) (hs : shapeOk (.prod k fs) = true)
    (hb : Bnd c (.prod k fs)) (ihf : DescF c fs) : Desc c (.prod k fs) := by
  obtain ⟨ff, hff⟩ := ihf
  refine Desc.intro1 (ff + 1) fun f' hf v rest hv hok => ?_
  obtain ⟨g, rfl, hg⟩ := succ_of_le hf
  cases v with
  | list vs =>
    simp only [HasTy] at hv
    simp only [ser] at hok ⊢
    by_cases hk : k ≠ .unit ∧ k ≠ .phantom
    · rw [prod_walk c k fs hs hb hk]
      exact hff g hg vs rest hv hok
    · -- unit-like: no fields, a zero-byte primitive
      have hku : k = .unit ∨ k = .phantom := by
        cases k <;> first
          | exact Or.inl rfl
          | exact Or.inr rfl
          | (exfalso; apply hk; constructor <;> (intro h; cases h))
      have hfs : fs = [] := by
        simp only [shapeOk, Bool.and_eq_true] at hs
        rcases hku with rfl | rfl <;> simpa using hs.1
      subst hfs
      have hvs : vs = [] := by
        cases vs with
        | nil => rfl
        | cons v vs => simp [HasTyFields] at hv
      subst hvs
      have hget : c.get (n! "()") = some (.primitive 0) := by
        rcases hku with rfl | rfl <;> simpa only [Bnd] using hb
      have hdecl : declOf (.prod k []) = n! "()" := by
        rcases hku with rfl | rfl <;> rfl
      rw [hdecl]
      have := sdec_prim hget g [] rest rfl
      simpa [serFields, Tr.done, Tr.bytes] using this
  | _ => simp [HasTy] at hv

/-! ### sums -/

def DescV (c : Container) (vs : List Variant) : Prop :=
  ∃ f, ∀ f', f ≤ f' → ∀ v ∈ vs, ∀ (fvs : List Val) (rest : Bytes),
    HasTyFields v.2.2 fvs = true → (serFields v.2.2 fvs).Ok →
    listWith (sdec c f') (keptDecls v.2.2) ((serFields v.2.2 fvs).bytes ++ rest) = some rest

theorem descv_nil (c : Container) : DescV c [] := ⟨0, fun _ _ v hv => by simp at hv⟩

theorem descv_cons (c : Container) (n : Name) (g : Nat) (fs : List Field) (vs : List Variant)
    (ihf : DescF c fs) (ihv : DescV c vs) : DescV c ((n, g, fs) :: vs) := by
  obtain ⟨ff, hff⟩ := ihf
  obtain ⟨fv, hfv⟩ := ihv
  refine ⟨max ff fv, fun f' hf v hv fvs rest hty hok => ?_⟩
  cases List.mem_cons.mp hv with
  | inl e => subst e; exact hff f' (by omega) fvs rest hty hok
  | inr e => exact hfv f' (by omega) v e fvs rest hty hok

/-- the variant a well-typed value selects, and what the serializer writes for it -/
theorem variant_sel : ∀ (vs : List Variant) (idx : Nat) (fvs : List Val),
    HasTyVariant vs idx fvs = true →
    ∃ v, v ∈ vs ∧ HasTyFields v.2.2 fvs = true ∧
      serVariant vs idx fvs = (Tr.emit [UInt8.ofNat v.2.1] ▹ serFields v.2.2 fvs) := by
  intro vs
  induction vs with
  | nil => intro idx fvs h; simp [HasTyVariant] at h
  | cons w ws ih =>
    obtain ⟨n, g, fs⟩ := w
    intro idx fvs h
    cases idx with
    | zero =>
      simp only [HasTyVariant] at h
      exact ⟨(n, g, fs), by simp, h, by simp [serVariant]⟩
    | succ i =>
      simp only [HasTyVariant] at h
      obtain ⟨v, hv, hty, hs⟩ := ih i fvs h
      exact ⟨v, by simp [hv], hty, by simp [serVariant, hs]⟩

theorem sdec_enum1 {c : Container} {d : Name} {vs : List (Int × Name × Name)}
    (hg : c.get d = some (.enum 1 vs)) (f : Nat) (tag : UInt8) (bs : Bytes) :
    sdec c (f + 1) d (tag :: bs) =
      match vs.find? (fun v => v.1 == ((tag.toNat : Nat) : Int)) with
      | some v => sdec c f v.2.2 bs
      | none => none := by
  conv => lhs; unfold sdec
  simp only [hg]
  have h1 : 1 ≤ (tag :: bs).length := by simp
  simp only [h1, if_true, List.take_succ_cons, List.take_zero, List.drop_succ_cons, List.drop_zero, ofLe,
    Nat.mul_zero, Nat.add_zero]
  rfl

theorem find_tag (F : Variant → Name) : ∀ (vs : List Variant) (v : Variant), v ∈ vs →
    (variantTags vs).Nodup →
    (vs.map fun w => (((UInt8.ofNat w.2.1).toNat : Int), w.1, F w)).find?
        (fun e => e.1 == (((UInt8.ofNat v.2.1).toNat : Nat) : Int)) =
      some (((UInt8.ofNat v.2.1).toNat : Int), v.1, F v) := by
  intro vs
  induction vs with
  | nil => intro v hv; simp at hv
  | cons w ws ih =>
    intro v hv hnd
    simp only [variantTags, List.map_cons, List.nodup_cons] at hnd
    simp only [List.map_cons, List.find?_cons]
    by_cases hwv : w = v
    · subst hwv; simp
    · have hvws : v ∈ ws := by
        cases List.mem_cons.mp hv with
        | inl e => exact absurd e.symm hwv
        | inr e => exact e
      have hne : UInt8.ofNat w.2.1 ≠ UInt8.ofNat v.2.1 := by
        intro e
        apply hnd.1
        rw [e]
        exact List.mem_map_of_mem (f := fun v => UInt8.ofNat v.2.1) hvws
      have hne' : ((((UInt8.ofNat w.2.1).toNat : Int)) == (((UInt8.ofNat v.2.1).toNat : Nat) : Int)) = false := by
        simp only [beq_eq_false_iff_ne, ne_eq]
        intro e
        apply hne
        have : (UInt8.ofNat w.2.1).toNat = (UInt8.ofNat v.2.1).toNat := by exact_mod_cast e
        exact UInt8.toNat_inj.mp this
      simp only [hne']
      exact ih v hvws hnd.2

theorem bndInner_mem (c : Container) (decl : Name) : ∀ (vs : List Variant), BndInner c decl vs →
    ∀ v ∈ vs, c.get (decl ++ v.1) = some (.struct (schemaFields v.2.2)) := by
  intro vs
  induction vs with
  | nil => intro _ v hv; simp at hv
  | cons w ws ih =>
    obtain ⟨n, g, fs⟩ := w
    intro h v hv
    simp only [BndInner] at h
    cases List.mem_cons.mp hv with
    | inl e => subst e; exact h.1.1
    | inr e => exact ih h.2 v e

/-- derived enums (and `IpAddr`): the tag, then the variant's inner struct -/
theorem desc_sum_derived (c : Container) (k : SumK) (vs : List Variant)
    (hk : k = .ipAddr ∨ ∃ n i, k = .derived n i) (hnd : (variantTags vs).Nodup)
    (hb : Bnd c (.sum k vs)) (ihv : DescV c vs) : Desc c (.sum k vs) := by
  obtain ⟨fv, hfv⟩ := ihv
  have hb' : BndInner c (declOf (.sum k vs)) vs ∧
      c.get (declOf (.sum k vs)) =
        some (.enum 1 (vs.map fun v => (((UInt8.ofNat v.2.1).toNat : Int), v.1, declOf (.sum k vs) ++ v.1))) := by
    rcases hk with rfl | ⟨n, i, rfl⟩ <;> simpa only [Bnd] using hb
  refine Desc.intro1 (fv + 2) fun f' hf v rest hv hok => ?_
  obtain ⟨g1, rfl, hg1⟩ := succ_of_le hf
  obtain ⟨g, rfl, hg⟩ := succ_of_le hg1
  cases v with
  | variant idx fvs =>
    simp only [HasTy] at hv
    simp only [ser] at hok ⊢
    obtain ⟨w, hw, hty, hser⟩ := variant_sel vs idx fvs hv
    rw [hser] at hok ⊢
    have hkk := Tr.andThen_ok.mp hok
    rw [Tr.andThen_bytes hkk.1, emit_bytes']
    simp only [List.singleton_append, List.cons_append]
    rw [sdec_enum1 hb'.2, find_tag (fun v => declOf (.sum k vs) ++ v.1) vs w hw hnd]
    simp only
    rw [sdec_struct (bndInner_mem c _ vs hb'.1 w hw), schemaFields_decls]
    exact hfv g hg w hw fvs rest hty hkk.2
  | _ => simp [HasTy] at hv

theorem listWith_single (f : Name → Bytes → Option Bytes) (d : Name) (bs : Bytes) :
    listWith f [d] bs = f d bs := by
  simp only [listWith]
  cases f d bs <;> rfl

theorem hasTyFields_nil {vs : List Val} (h : HasTyFields [] vs = true) : vs = [] := by
  cases vs with
  | nil => rfl
  | cons v vs => simp [HasTyFields] at h

theorem hasTyFields_single {fn : Option Name} {sk : Bool} {t : Ty} {vs : List Val}
    (h : HasTyFields [(fn, sk, t)] vs = true) : ∃ x, vs = [x] ∧ HasTy t x = true := by
  match vs, h with
  | [x], h => simp only [HasTyFields, Bool.and_true] at h; exact ⟨x, rfl, h⟩
  | [], h => simp [HasTyFields] at h
  | _ :: _ :: _, h => simp [HasTyFields] at h

theorem desc_option (c : Container) (n0 n1 : Name) (fn : Option Name) (t : Ty)
    (hb : Bnd c (.sum .option [(n0, 0, []), (n1, 1, [(fn, false, t)])])) (iht : Desc c t) :
    Desc c (.sum .option [(n0, 0, []), (n1, 1, [(fn, false, t)])]) := by
  simp only [Bnd] at hb
  obtain ⟨hdecl, _, hunit⟩ := hb
  simp only [declOfVariantPayloads, declOfFields, List.nil_append, List.append_nil, joinNames] at hdecl
  obtain ⟨ft, htt⟩ := iht
  refine Desc.intro1 (ft + 2) fun f' hf v rest hv hok => ?_
  obtain ⟨g1, rfl, hg1⟩ := succ_of_le hf
  obtain ⟨g, rfl, hg⟩ := succ_of_le hg1
  cases v with
  | variant idx fvs =>
    simp only [HasTy] at hv
    simp only [ser] at hok ⊢
    obtain ⟨w, hw, hty, hser⟩ := variant_sel _ idx fvs hv
    rw [hser] at hok ⊢
    have hkk := Tr.andThen_ok.mp hok
    rw [Tr.andThen_bytes hkk.1, emit_bytes']
    simp only [List.singleton_append, List.cons_append]
    rw [sdec_enum1 hdecl]
    simp only [List.mem_cons, List.mem_nil_iff, or_false] at hw
    rcases hw with rfl | rfl
    · have hfv := hasTyFields_nil hty
      subst hfv
      have h0 : (UInt8.ofNat 0).toNat = 0 := by decide
      have heq : ((0 : Int) == ((0 : Nat) : Int)) = true := by decide
      simp only [h0, List.find?_cons, heq, serFields, Tr.done, Tr.bytes, List.flatten_nil, List.nil_append]
      have := sdec_prim hunit g [] rest rfl
      simpa using this
    · obtain ⟨x, hx, htx⟩ := hasTyFields_single hty
      subst hx
      have h1 : (UInt8.ofNat 1).toNat = 1 := by decide
      have hne : ((0 : Int) == ((1 : Nat) : Int)) = false := by decide
      have heq : ((1 : Int) == ((1 : Nat) : Int)) = true := by decide
      simp only [h1, List.find?_cons, hne, heq]
      simp only [serFields, Bool.false_eq_true, if_false] at hkk ⊢
      have hk2 := Tr.andThen_ok.mp hkk.2
      rw [Tr.andThen_bytes hk2.1]
      simp only [Tr.done, Tr.bytes, List.flatten_nil, List.append_nil]
      exact htt (g + 1) (by omega) x rest htx hk2.1
  | _ => simp [HasTy] at hv

theorem desc_result (c : Container) (n0 n1 : Name) (f0 f1 : Option Name) (e t : Ty)
    (hb : Bnd c (.sum .result [(n0, 0, [(f0, false, e)]), (n1, 1, [(f1, false, t)])]))
    (ihe : Desc c e) (iht : Desc c t) :
    Desc c (.sum .result [(n0, 0, [(f0, false, e)]), (n1, 1, [(f1, false, t)])]) := by
  simp only [Bnd, declOfVariantPayloads, declOfFields, List.nil_append, List.append_nil,
    List.cons_append] at hb
  obtain ⟨hdecl, _⟩ := hb
  obtain ⟨fe, hte⟩ := ihe
  obtain ⟨ft, htt⟩ := iht
  refine Desc.intro1 (max fe ft + 1) fun f' hf v rest hv hok => ?_
  obtain ⟨g, rfl, hg⟩ := succ_of_le hf
  cases v with
  | variant idx fvs =>
    simp only [HasTy] at hv
    simp only [ser] at hok ⊢
    obtain ⟨w, hw, hty, hser⟩ := variant_sel _ idx fvs hv
    rw [hser] at hok ⊢
    have hkk := Tr.andThen_ok.mp hok
    rw [Tr.andThen_bytes hkk.1, emit_bytes']
    simp only [List.singleton_append, List.cons_append]
    rw [sdec_enum1 hdecl]
    simp only [List.mem_cons, List.mem_nil_iff, or_false] at hw
    rcases hw with rfl | rfl
    · obtain ⟨x, hx, htx⟩ := hasTyFields_single hty
      subst hx
      have h0 : (UInt8.ofNat 0).toNat = 0 := by decide
      have hne : ((1 : Int) == ((0 : Nat) : Int)) = false := by decide
      have heq : ((0 : Int) == ((0 : Nat) : Int)) = true := by decide
      simp only [h0, List.find?_cons, hne, heq]
      simp only [serFields, Bool.false_eq_true, if_false] at hkk ⊢
      have hk2 := Tr.andThen_ok.mp hkk.2
      rw [Tr.andThen_bytes hk2.1]
      simp only [Tr.done, Tr.bytes, List.flatten_nil, List.append_nil]
      exact hte g (by omega) x rest htx hk2.1
    · obtain ⟨x, hx, htx⟩ := hasTyFields_single hty
      subst hx
      have h1 : (UInt8.ofNat 1).toNat = 1 := by decide
      have heq : ((1 : Int) == ((1 : Nat) : Int)) = true := by decide
      simp only [h1, List.find?_cons, heq]
      simp only [serFields, Bool.false_eq_true, if_false] at hkk ⊢
      have hk2 := Tr.andThen_ok.mp hkk.2
      rw [Tr.andThen_bytes hk2.1]
      simp only [Tr.done, Tr.bytes, List.flatten_nil, List.append_nil]
      exact htt g (by omega) x rest htx hk2.1
  | _ => simp [HasTy] at hv

/-! ### the rest, and the assembly -/

theorem desc_raw (c : Container) (k : RawK) (hb : Bnd c (.raw k)) : Desc c (.raw k) := by
  simp only [Bnd] at hb
  obtain ⟨hs, harr, hu8⟩ := hb
  refine Desc.intro1 3 fun f' hf v rest hv _ => ?_
  obtain ⟨g2, rfl, hg2⟩ := succ_of_le hf
  obtain ⟨g1, rfl, hg1⟩ := succ_of_le hg2
  obtain ⟨g, rfl, _⟩ := succ_of_le hg1
  match v, hv with
  | .blob bs, hv =>
    simp only [HasTy, beq_iff_eq] at hv
    simp only [ser, emit_bytes']
    rw [sdec_struct hs]
    simp only [Fields.decls, List.map_cons, List.map_nil]
    rw [listWith_single, sdec_fixed harr, ← hv]
    exact repeat_u8 hu8 g bs rest

theorem desc_wrap (c : Container) (k : WrapK) (t : Ty) (ih : Desc c t) : Desc c (.wrap k t) := by
  obtain ⟨ft, htt⟩ := ih
  refine Desc.intro1 ft fun f' hf v rest hv hok => ?_
  have e1 : HasTy (.wrap k t) v = HasTy t v := by cases v <;> simp [HasTy]
  have e2 : ser (.wrap k t) v = ser t v := by cases v <;> simp [ser]
  rw [e1] at hv
  rw [e2] at hok ⊢
  exact htt f' hf v rest hv hok

theorem desc_custom (c : Container) (t : Ty) (hw : t.isU32 = true) (hb : Bnd c (.custom t)) :
    Desc c (.custom t) := by
  have ht : t = .int .u32 := by
    cases t <;> simp [Ty.isU32] at hw
    rename_i k; cases k <;> simp at hw; rfl
  subst ht
  simp only [Bnd] at hb
  refine Desc.intro1 1 fun f' hf v rest hv _ => ?_
  obtain ⟨g, rfl, _⟩ := succ_of_le hf
  match v, hv with
  | .int i, _ =>
    simp only [ser, emit_bytes', declOf]
    exact sdec_prim hb g _ rest (by simp [IntK.width])

theorem bndVariants_kept (c : Container) : ∀ vs : List Variant, BndVariants c vs →
    ∀ v ∈ vs, BndKept c v.2.2 := by
  intro vs
  induction vs with
  | nil => intro _ v hv; simp at hv
  | cons w ws ih =>
    obtain ⟨n, g, fs⟩ := w
    intro h v hv
    simp only [BndVariants] at h
    cases List.mem_cons.mp hv with
    | inl e => subst e; exact bndFields_kept c fs h.1
    | inr e => exact ih h.2 v e

theorem bndInner_kept (c : Container) (decl : Name) : ∀ vs : List Variant, BndInner c decl vs →
    ∀ v ∈ vs, BndKept c v.2.2 := by
  intro vs
  induction vs with
  | nil => intro _ v hv; simp at hv
  | cons w ws ih =>
    obtain ⟨n, g, fs⟩ := w
    intro h v hv
    simp only [BndInner] at h
    cases List.mem_cons.mp hv with
    | inl e => subst e; exact h.1.2
    | inr e => exact ih h.2 v e

/-- the payload type of a single-field variant is described whenever the variant list is -/
theorem descv_single {c : Container} {vs : List Variant} (h : DescV c vs) {n : Name} {g : Nat}
    {fn : Option Name} {t : Ty} (hm : (n, g, [(fn, false, t)]) ∈ vs) : Desc c t := by
  obtain ⟨fv, hfv⟩ := h
  refine Desc.intro1 fv fun f' hf x rest hx hok => ?_
  have := hfv f' hf _ hm [x] rest (by simp [HasTyFields, hx])
    (by simp only [serFields, Bool.false_eq_true, if_false]; exact Tr.andThen_ok.mpr ⟨hok, rfl⟩)
  simp only [keptDecls, Bool.false_eq_true, if_false, serFields] at this
  rw [listWith_single, Tr.andThen_bytes hok] at this
  simpa [Tr.done, Tr.bytes] using this

/-- **If every declaration the type refers to is bound as intended, the schema alone parses every
encoding of every value exactly** — every shape the schema impls exist for. -/
theorem describes_all (c : Container) :
    ∀ t : Ty, shapeOk t = true → WfTy t = true → Bnd c t → Desc c t := by
  apply Ty.induct (P := fun t => shapeOk t = true → WfTy t = true → Bnd c t → Desc c t)
    (PF := fun fs => shapeOkFields fs = true → WfFields fs = true → BndKept c fs → DescF c fs)
    (PV := fun vs => shapeOkVariants vs = true → WfVariants vs = true →
      (∀ v ∈ vs, BndKept c v.2.2) → DescV c vs)
  case h_int => intro k _ _ hb; exact desc_int c k hb
  case h_nonzero => intro k _ _ hb; exact desc_nonzero c k hb
  case h_float => intro k _ _ hb; exact desc_float c k hb
  case h_bool => intro _ _ hb; exact desc_bool c hb
  case h_str => intro k _ _ hb; exact desc_str c k hb
  case h_asciiChar => intro _ _ hb; exact desc_asciiChar c hb
  case h_raw => intro k _ _ hb; exact desc_raw c k hb
  case h_seq =>
    intro k t ih hs hw hb
    simp only [shapeOk] at hs
    have hw' := hw
    simp only [WfTy, Bool.and_eq_true] at hw'
    have hb' := hb
    simp only [Bnd] at hb'
    exact desc_seq c k t hb (ih hs hw'.1.1 hb'.2)
  case h_set =>
    intro k t ih hs hw hb
    simp only [shapeOk] at hs
    simp only [WfTy] at hw
    have hb' := hb
    simp only [Bnd] at hb'
    exact desc_set c k t hb (ih hs hw hb'.2)
  case h_map =>
    intro k a b iha ihb hs hw hb
    simp only [shapeOk, Bool.and_eq_true] at hs
    simp only [WfTy, Bool.and_eq_true] at hw
    have hb' := hb
    simp only [Bnd] at hb'
    exact desc_map c k a b hb (iha hs.1 hw.1 hb'.2.2.1) (ihb hs.2 hw.2 hb'.2.2.2)
  case h_array =>
    intro n t ih hs hw hb
    simp only [shapeOk] at hs
    simp only [WfTy] at hw
    have hb' := hb
    simp only [Bnd] at hb'
    exact desc_array c n t hb (ih hs hw hb'.2)
  case h_prod =>
    intro k fs ih hs hw hb
    have hs' := hs
    simp only [shapeOk, Bool.and_eq_true] at hs'
    simp only [WfTy] at hw
    have hkept : BndKept c fs := by
      cases k <;> simp only [Bnd] at hb <;>
        first
          | exact bndFields_kept c fs hb.2
          | exact hb.2
          | (have : fs = [] := by simpa using hs'.1
             subst this; trivial)
          | exact absurd hb id
    exact desc_prod c k fs hs hb (ih hs'.2 hw hkept)
  case h_sum =>
    intro k vs ih hs hw hb
    have hs' := hs
    simp only [shapeOk, Bool.and_eq_true] at hs'
    simp only [WfTy, Bool.and_eq_true, decide_eq_true_eq] at hw
    cases k with
    | option =>
      simp only [Bnd] at hb
      have hdv := ih hs'.2 hw.1 (bndVariants_kept c vs hb.2.1)
      match vs, hs'.1, hb, hdv with
      | [(n0, 0, []), (n1, 1, [(fn, false, t)])], _, hb, hdv =>
        exact desc_option c n0 n1 fn t (by simpa only [Bnd] using hb)
          (descv_single (n := n1) (g := 1) (fn := fn) hdv (by simp))
    | result =>
      simp only [Bnd] at hb
      have hdv := ih hs'.2 hw.1 (bndVariants_kept c vs hb.2)
      match vs, hs'.1, hb, hdv with
      | [(n0, 0, [(f0, false, e)]), (n1, 1, [(f1, false, t)])], _, hb, hdv =>
        exact desc_result c n0 n1 f0 f1 e t (by simpa only [Bnd] using hb)
          (descv_single (n := n0) (g := 0) (fn := f0) hdv (by simp))
          (descv_single (n := n1) (g := 1) (fn := f1) hdv (by simp))
    | ipAddr =>
      have hb' := hb
      simp only [Bnd] at hb'
      exact desc_sum_derived c _ vs (Or.inl rfl) hw.2 hb (ih hs'.2 hw.1 (bndInner_kept c _ vs hb'.1))
    | derived n i =>
      have hb' := hb
      simp only [Bnd] at hb'
      exact desc_sum_derived c _ vs (Or.inr ⟨n, i, rfl⟩) hw.2 hb (ih hs'.2 hw.1 (bndInner_kept c _ vs hb'.1))
    | sockAddr => simp at hs'
  case h_wrap =>
    intro k t ih hs hw hb
    simp only [shapeOk] at hs
    simp only [WfTy] at hw
    simp only [Bnd] at hb
    exact desc_wrap c k t (ih hs hw hb)
  case h_custom =>
    intro t _ _ hw hb
    exact desc_custom c t (by simpa [WfTy] using hw) hb
  case h_fnil => intro _ _ _; exact descf_nil c
  case h_fcons =>
    intro n sk t fs iht ihf hs hw hb
    simp only [shapeOkFields, Bool.and_eq_true, Bool.or_eq_true] at hs
    simp only [WfFields, Bool.and_eq_true] at hw
    simp only [BndKept] at hb
    refine descf_cons c n sk t fs ?_ (ihf hs.2 hw.2 hb.2)
    cases sk with
    | true => exact Or.inl rfl
    | false =>
      refine Or.inr (iht ?_ hw.1 ?_)
      · cases hs.1 with
        | inl h => cases h
        | inr h => exact h
      · cases hb.1 with
        | inl h => cases h
        | inr h => exact h
  case h_vnil => intro _ _ _; exact descv_nil c
  case h_vcons =>
    intro n g fs vs ihf ihv hs hw hb
    simp only [shapeOkVariants, Bool.and_eq_true] at hs
    simp only [WfVariants, Bool.and_eq_true] at hw
    exact descv_cons c n g fs vs (ihf hs.1 hw.1 (hb (n, g, fs) (by simp)))
      (ihv hs.2 hw.2 (fun v hv => hb v (by simp [hv])))

end Borsh
