/-
  Stability of *errors* under extension of the input: if the slice decoder fails on `p` with
  anything but the unexpected-length error, it fails in exactly the same way on `p ++ s`.
  Consequence (C16): on a proper prefix of a valid encoding the only possible error is the
  unexpected-length one — every other cause would also reject the full encoding.
-/
import BorshModel.Lemmas.DeExt
namespace Borsh

def ErrExt {α : Type} (f : Bytes → Out (α × Bytes)) : Prop :=
  ∀ p e s, f p = .err e → e ≠ eUnexpectedLength → f (p ++ s) = .err e

theorem ErrExt.pure {α : Type} (a : α) : ErrExt (fun p => Out.ok (a, p)) := by
  intro p e s h; cases h

theorem ErrExt.err {α : Type} (e : Err) : ErrExt (fun _ => (Out.err e : Out (α × Bytes))) := by
  intro p e' s h _; exact h

theorem ErrExt.bind {α β : Type} {f : Bytes → Out (α × Bytes)} {g : α × Bytes → Out (β × Bytes)}
    (hfe : Ext f) (hf : ErrExt f) (hg : ∀ a, ErrExt (fun p => g (a, p))) :
    ErrExt (fun p => (f p).bind g) := by
  intro p e s h hne
  dsimp only at h ⊢
  cases h1 : f p with
  | ok ar =>
    obtain ⟨a, r⟩ := ar
    rw [h1] at h
    simp only [Out.bind_ok] at h
    rw [hfe p a r s h1]
    simp only [Out.bind_ok]
    exact hg a r e s h hne
  | err e' =>
    rw [h1] at h
    simp only [Out.bind_err, Out.err.injEq] at h
    subst h
    rw [hf p e' s h1 hne]; rfl
  | panic q => rw [h1] at h; cases h

theorem ErrExt.map' {α β : Type} {f : Bytes → Out (α × Bytes)} (hf : ErrExt f) (g : α × Bytes → β × Bytes) :
    ErrExt (fun p => (f p).map g) := by
  intro p e s h hne
  dsimp only at h ⊢
  cases h1 : f p with
  | ok ar => rw [h1] at h; cases h
  | err e' =>
    rw [h1] at h
    simp only [Out.map_err, Out.err.injEq] at h
    subst h
    rw [hf p e' s h1 hne]; rfl
  | panic q => rw [h1] at h; cases h

/-- a fixed-width read fails only with the unexpected-length error -/
theorem readMapped_errext (n : Nat) : ErrExt (readMapped Rd.slice n) := by
  intro p e s h hne
  exfalso
  simp only [readMapped, slice_readExact] at h
  split at h
  · cases h
  · simp only [Out.mapErr_err, Out.err.injEq] at h
    apply hne; rw [← h]; simp [mapEof, eEof]

theorem readBulk_errext (n : Nat) : ErrExt (Rd.slice.readBulk n) := by
  intro p e s h hne
  exfalso
  rw [slice_readBulk] at h
  split at h
  · cases h
  · simp only [Out.err.injEq] at h; exact hne h.symm

theorem readU8_errext : ErrExt (readU8 Rd.slice) := by
  unfold readU8
  apply ErrExt.bind (readMapped_ext 1) (readMapped_errext 1)
  intro a p e s h
  dsimp only at h
  split at h <;> cases h

theorem readU32_errext : ErrExt (readU32 Rd.slice) := by
  unfold readU32
  exact ErrExt.map' (readMapped_errext 4) _

theorem deByteVec_errext : ErrExt (deByteVec Rd.slice) := by
  unfold deByteVec
  apply ErrExt.bind readU32_ext readU32_errext
  intro n
  by_cases h : (n == 0) = true
  · simp only [h, if_true]; exact ErrExt.pure _
  · simp only [h]; exact readBulk_errext n

theorem repeatDe_errext {f : Bytes → Out (Val × Bytes)} (hfe : Ext f) (hf : ErrExt f) (n : Nat) :
    ErrExt (repeatDe f n) := by
  induction n with
  | zero => intro p e s h; simp [repeatDe] at h
  | succ n ih =>
    show ErrExt (fun p => repeatDe f (n + 1) p)
    simp only [repeatDe]
    apply ErrExt.bind hfe hf
    intro a
    dsimp only
    apply ErrExt.bind (repeatDe_ext hfe n) ih
    intro b
    dsimp only
    exact ErrExt.pure _

theorem deVec_errext (isU8 : Bool) {f : Bytes → Out (Val × Bytes)} (hfe : Ext f) (hf : ErrExt f) :
    ErrExt (deVec Rd.slice isU8 f) := by
  unfold deVec
  apply ErrExt.bind readU32_ext readU32_errext
  intro n
  by_cases h : (n == 0) = true
  · simp only [h, if_true]; exact ErrExt.pure _
  · simp only [h]
    cases isU8
    · exact repeatDe_errext hfe hf n
    · exact ErrExt.map' (readBulk_errext n) _

/-- leaves: an `if` cascade over the decoded value whose branches are `ok`/`err` constants -/
macro "errext_leaf" : tactic =>
  `(tactic| (intro p e s h hne; dsimp only at h ⊢; (repeat' split at h) <;> simp_all))

theorem de_errext_all :
    ∀ t : Ty, ∀ st, ErrExt (de Rd.slice st t) := by
  apply Ty.induct (P := fun t => ∀ st, ErrExt (de Rd.slice st t))
    (PF := fun fs => ∀ st, ErrExt (deFields Rd.slice st fs))
    (PV := fun vs => ∀ st tk tag idx, ErrExt (deVariants Rd.slice st tk vs tag idx))
  case h_int =>
    intro k st
    show ErrExt (fun s => de Rd.slice st (.int k) s)
    simp only [de]
    exact ErrExt.map' (readMapped_errext _) _
  case h_nonzero =>
    intro k st
    show ErrExt (fun s => de Rd.slice st (.nonzero k) s)
    simp only [de]
    apply ErrExt.bind (readMapped_ext _) (readMapped_errext _)
    intro a; errext_leaf
  case h_float =>
    intro k st
    show ErrExt (fun s => de Rd.slice st (.float k) s)
    simp only [de]
    apply ErrExt.bind (readMapped_ext _) (readMapped_errext _)
    intro a; errext_leaf
  case h_bool =>
    intro st
    show ErrExt (fun s => de Rd.slice st .bool s)
    simp only [de]
    apply ErrExt.bind readU8_ext readU8_errext
    intro a; errext_leaf
  case h_str =>
    intro k st
    show ErrExt (fun s => de Rd.slice st (.str k) s)
    simp only [de]
    apply ErrExt.bind deByteVec_ext deByteVec_errext
    intro a; errext_leaf
  case h_asciiChar =>
    intro st
    show ErrExt (fun s => de Rd.slice st .asciiChar s)
    simp only [de]
    apply ErrExt.bind readU8_ext readU8_errext
    intro a; errext_leaf
  case h_raw =>
    intro k st
    show ErrExt (fun s => de Rd.slice st (.raw k) s)
    simp only [de]
    exact ErrExt.map' (readMapped_errext _) _
  case h_seq =>
    intro k t ih st
    show ErrExt (fun s => de Rd.slice st (.seq k t) s)
    have hb : ErrExt (fun s => (readU32 Rd.slice s).bind fun r =>
        (repeatDe (fun s => (readU8 Rd.slice s).map fun b => (Val.int b.1.toNat, b.2)) r.1 r.2).map
          fun q => (Val.list q.1, q.2)) := by
      apply ErrExt.bind readU32_ext readU32_errext
      intro n; dsimp only
      exact ErrExt.map' (repeatDe_errext (Ext.map' readU8_ext (fun b => (Val.int b.1.toNat, b.2)) (fun _ _ _ => rfl))
        (ErrExt.map' readU8_errext _) n) _
    cases k <;> simp only [de] <;> first
      | exact hb
      | (split
         · exact ErrExt.err _
         · exact ErrExt.map' (deVec_errext _ (de_ext_all t st) (ih st)) _)
  case h_set =>
    intro k t ih st
    show ErrExt (fun s => de Rd.slice st (.set k t) s)
    simp only [de]
    split
    · exact ErrExt.err _
    · apply ErrExt.bind (deVec_ext _ (de_ext_all t st)) (deVec_errext _ (de_ext_all t st) (ih st))
      intro a; errext_leaf
  case h_map =>
    intro k a b iha ihb st
    show ErrExt (fun s => de Rd.slice st (.map k a b) s)
    simp only [de]
    split
    · exact ErrExt.err _
    · have hent : Ext (deEntry (de Rd.slice st a) (de Rd.slice st b)) := by
        unfold deEntry
        apply Ext.bind (de_ext_all a st)
        intro x; dsimp only
        exact Ext.map' (de_ext_all b st) _ (fun _ _ _ => rfl)
      have hente : ErrExt (deEntry (de Rd.slice st a) (de Rd.slice st b)) := by
        unfold deEntry
        apply ErrExt.bind (de_ext_all a st) (iha st)
        intro x; dsimp only
        exact ErrExt.map' (ihb st) _
      apply ErrExt.bind (deVec_ext _ hent) (deVec_errext _ hent hente)
      · intro x; dsimp only
        cases k <;> dsimp only <;> errext_leaf
  case h_array =>
    intro n t ih st
    show ErrExt (fun s => de Rd.slice st (.array n t) s)
    simp only [de]
    split
    · exact ErrExt.map' (readMapped_errext _) _
    · exact ErrExt.map' (repeatDe_errext (de_ext_all t st) (ih st) n) _
  case h_prod =>
    intro k fs ih st
    show ErrExt (fun s => de Rd.slice st (.prod k fs) s)
    simp only [de]
    exact ErrExt.map' (ih st) _
  case h_sum =>
    intro k vs ih st
    show ErrExt (fun s => de Rd.slice st (.sum k vs) s)
    simp only [de]
    apply ErrExt.bind readU8_ext readU8_errext
    intro tag; dsimp only
    exact ErrExt.map' (ih st _ _ _) _
  case h_wrap =>
    intro k t ih st
    show ErrExt (fun s => de Rd.slice st (.wrap k t) s)
    simp only [de]
    exact ih st
  case h_custom =>
    intro t _ st
    show ErrExt (fun s => de Rd.slice st (.custom t) s)
    simp only [de]
    exact ErrExt.map' (readMapped_errext _) _
  case h_fnil =>
    intro st
    show ErrExt (fun s => deFields Rd.slice st [] s)
    simp only [deFields]
    exact ErrExt.pure _
  case h_fcons =>
    intro n sk t fs iht ihf st
    show ErrExt (fun s => deFields Rd.slice st ((n, sk, t) :: fs) s)
    simp only [deFields]
    split
    · exact ErrExt.map' (ihf st) _
    · apply ErrExt.bind (de_ext_all t st) (iht st)
      intro a; dsimp only
      exact ErrExt.map' (ihf st) _
  case h_vnil =>
    intro st tk tag idx
    show ErrExt (fun s => deVariants Rd.slice st tk [] tag idx s)
    simp only [deVariants]
    exact ErrExt.err _
  case h_vcons =>
    intro n g fs vs ihf ihv st tk tag idx
    show ErrExt (fun s => deVariants Rd.slice st tk ((n, g, fs) :: vs) tag idx s)
    simp only [deVariants]
    split
    · exact ErrExt.map' (ihf st) _
    · exact ihv st tk tag (idx + 1)

end Borsh
