/-
  Prefix-extension: the slice decoder never looks ahead.  If decoding `p` succeeds
  leaving `r`, decoding `p ++ s` succeeds with the same value leaving `r ++ s`.
-/
import BorshModel.Lemmas.Slice
import BorshModel.Lemmas.Induct
namespace Borsh

/-- a slice-consuming function is stable under appending to the input -/
def Ext {α : Type} (f : Bytes → Out (α × Bytes)) : Prop :=
  ∀ p a r s, f p = .ok (a, r) → f (p ++ s) = .ok (a, r ++ s)

theorem Ext.pure {α : Type} (a : α) : Ext (fun p => Out.ok (a, p)) := by
  intro p a' r s h
  simp at h
  simp [h.1, h.2]

theorem Ext.err {α : Type} (e : Err) : Ext (fun _ => (Out.err e : Out (α × Bytes))) := by
  intro p a r s h; simp at h

theorem Ext.bind {α β : Type} {f : Bytes → Out (α × Bytes)} {g : α × Bytes → Out (β × Bytes)}
    (hf : Ext f) (hg : ∀ a, Ext (fun p => g (a, p))) : Ext (fun p => (f p).bind g) := by
  intro p b r s h
  obtain ⟨⟨a, r1⟩, h1, h2⟩ := Out.bind_eq_ok_iff.mp h
  simp only [hf p a r1 s h1, Out.bind_ok]
  exact hg a r1 b r s h2

theorem Ext.map {α β : Type} {f : Bytes → Out (α × Bytes)} (hf : Ext f) (h : α → β) :
    Ext (fun p => (f p).map fun r => (h r.1, r.2)) := by
  intro p b r s hm
  obtain ⟨⟨a, r1⟩, h1, h2⟩ := Out.map_eq_ok_iff.mp hm
  simp at h2
  simp only [hf p a r1 s h1, Out.map_ok, h2.1, h2.2]

/-- `map` with any function that passes the remaining input through -/
theorem Ext.map' {α β : Type} {f : Bytes → Out (α × Bytes)} (hf : Ext f) (g : α × Bytes → β × Bytes)
    (hg : ∀ a r s, g (a, r ++ s) = ((g (a, r)).1, (g (a, r)).2 ++ s)) :
    Ext (fun p => (f p).map g) := by
  intro p b r s hm
  obtain ⟨⟨a, r1⟩, h1, h2⟩ := Out.map_eq_ok_iff.mp hm
  simp only [hf p a r1 s h1, Out.map_ok, hg, h2]

theorem Ext.mapErr {α : Type} {f : Bytes → Out (α × Bytes)} (hf : Ext f) (g : Err → Err) :
    Ext (fun p => (f p).mapErr g) := by
  intro p a r s h
  have h1 := Out.mapErr_eq_ok_iff.mp h
  simp only [hf p a r s h1, Out.mapErr_ok]

theorem Ext.ite {α : Type} {f g : Bytes → Out (α × Bytes)} (c : Bool) (hf : Ext f) (hg : Ext g) :
    Ext (fun p => if c then f p else g p) := by
  cases c <;> simpa

theorem readExact_ext (n : Nat) : Ext (Rd.slice.readExact n) := by
  intro p a r s h
  exact sliceReadExact_ext s h

theorem readBulk_ext (n : Nat) : Ext (Rd.slice.readBulk n) := by
  intro p a r s h
  rw [slice_readBulk] at h ⊢
  split at h
  · rename_i hn
    simp at h
    have : n ≤ p.length + s.length := by omega
    simp [this, ← h.1, ← h.2, List.take_append_of_le_length hn, List.drop_append_of_le_length hn]
  · simp at h

theorem readMapped_ext (n : Nat) : Ext (readMapped Rd.slice n) :=
  Ext.mapErr (readExact_ext n) _

theorem readU8_ext : Ext (readU8 Rd.slice) := by
  unfold readU8
  apply Ext.bind (readMapped_ext 1)
  intro a p b r s h
  match a, h with
  | [x], h => simp at h; simp [h.1, h.2]

theorem readU32_ext : Ext (readU32 Rd.slice) := by
  unfold readU32
  exact Ext.map (readMapped_ext 4) _

theorem deByteVec_ext : Ext (deByteVec Rd.slice) := by
  unfold deByteVec
  apply Ext.bind readU32_ext
  intro n
  by_cases h : (n == 0) = true
  · simp only [h, if_true]; exact Ext.pure _
  · simp only [h]; exact readBulk_ext n

theorem repeatDe_ext {f : Bytes → Out (Val × Bytes)} (hf : Ext f) (n : Nat) : Ext (repeatDe f n) := by
  induction n with
  | zero => intro p a r s h; simp [repeatDe] at h ⊢; simp [h.1, h.2]
  | succ n ih =>
    show Ext (fun p => repeatDe f (n + 1) p)
    simp only [repeatDe]
    apply Ext.bind hf
    intro a
    dsimp only
    apply Ext.bind ih
    intro b
    dsimp only
    exact Ext.pure _

theorem deVec_ext (isU8 : Bool) {f : Bytes → Out (Val × Bytes)} (hf : Ext f) :
    Ext (deVec Rd.slice isU8 f) := by
  unfold deVec
  apply Ext.bind readU32_ext
  intro n
  by_cases h : (n == 0) = true
  · simp only [h, if_true]; exact Ext.pure _
  · simp only [h]
    cases isU8
    · exact repeatDe_ext hf n
    · exact Ext.map (readBulk_ext n) _

end Borsh
