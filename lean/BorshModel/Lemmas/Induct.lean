/-
  One induction principle for the nested universe `Ty` (the `induction` tactic does not
  handle nested inductives): motives for types, field lists and variant lists.
-/
import BorshModel.Ty
namespace Borsh
set_option linter.unusedSectionVars false

section
variable {P : Ty → Prop} {PF : List Field → Prop} {PV : List Variant → Prop}
variable (h_int : ∀ k, P (.int k)) (h_nonzero : ∀ k, P (.nonzero k)) (h_float : ∀ k, P (.float k))
  (h_bool : P .bool) (h_str : ∀ k, P (.str k)) (h_asciiChar : P .asciiChar) (h_raw : ∀ k, P (.raw k))
  (h_seq : ∀ k t, P t → P (.seq k t)) (h_set : ∀ k t, P t → P (.set k t))
  (h_map : ∀ k a b, P a → P b → P (.map k a b)) (h_array : ∀ n t, P t → P (.array n t))
  (h_prod : ∀ k fs, PF fs → P (.prod k fs)) (h_sum : ∀ k vs, PV vs → P (.sum k vs))
  (h_wrap : ∀ k t, P t → P (.wrap k t)) (h_custom : ∀ t, P t → P (.custom t))
  (h_fnil : PF []) (h_fcons : ∀ n s t fs, P t → PF fs → PF ((n, s, t) :: fs))
  (h_vnil : PV []) (h_vcons : ∀ n g fs vs, PF fs → PV vs → PV ((n, g, fs) :: vs))

include h_int h_nonzero h_float h_bool h_str h_asciiChar h_raw h_seq h_set h_map h_array h_prod h_sum
  h_wrap h_custom h_fnil h_fcons h_vnil h_vcons

mutual
theorem Ty.induct : ∀ t, P t
  | .int k => h_int k
  | .nonzero k => h_nonzero k
  | .float k => h_float k
  | .bool => h_bool
  | .str k => h_str k
  | .asciiChar => h_asciiChar
  | .raw k => h_raw k
  | .seq k t => h_seq k t (Ty.induct t)
  | .set k t => h_set k t (Ty.induct t)
  | .map k a b => h_map k a b (Ty.induct a) (Ty.induct b)
  | .array n t => h_array n t (Ty.induct t)
  | .prod k fs => h_prod k fs (Ty.inductFields fs)
  | .sum k vs => h_sum k vs (Ty.inductVariants vs)
  | .wrap k t => h_wrap k t (Ty.induct t)
  | .custom t => h_custom t (Ty.induct t)
theorem Ty.inductFields : ∀ fs, PF fs
  | [] => h_fnil
  | (n, s, t) :: fs => h_fcons n s t fs (Ty.induct t) (Ty.inductFields fs)
theorem Ty.inductVariants : ∀ vs, PV vs
  | [] => h_vnil
  | (n, g, fs) :: vs => h_vcons n g fs vs (Ty.inductFields fs) (Ty.inductVariants vs)
end
end

end Borsh
