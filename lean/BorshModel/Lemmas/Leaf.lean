/- Leaf codecs: inverse laws of the primitive encoders/decoders on slices. -/
import BorshModel.Lemmas.Slice
import BorshModel.Lemmas.Trace
import BorshModel.Canon
namespace Borsh

theorem intInRange_signed {k : IntK} {i : Int} (hs : k.signed = true) (h : intInRange k i = true) :
    -(256 ^ k.width / 2 : Int) ≤ i ∧ i < (256 ^ k.width / 2 : Int) := by
  unfold intInRange at h
  rw [if_pos hs] at h
  have := Bool.and_eq_true_iff.mp h
  exact ⟨of_decide_eq_true this.1, of_decide_eq_true this.2⟩

theorem intInRange_unsigned {k : IntK} {i : Int} (hs : k.signed = false) (h : intInRange k i = true) :
    0 ≤ i ∧ i < (256 ^ k.width : Int) := by
  unfold intInRange at h
  rw [if_neg (by simp [hs])] at h
  have := Bool.and_eq_true_iff.mp h
  exact ⟨of_decide_eq_true this.1, of_decide_eq_true this.2⟩

theorem decInt_encInt (k : IntK) (i : Int) (h : intInRange k i = true) :
    decInt k (encInt k i) = i := by
  unfold decInt encInt
  rw [ofLe_leBytes]
  cases hs : k.signed
  · have := intInRange_unsigned hs h
    cases k <;> simp [IntK.signed] at hs <;> simp [IntK.width] at this ⊢ <;> omega
  · have := intInRange_signed hs h
    cases k <;> simp [IntK.signed] at hs <;> simp [IntK.width] at this ⊢ <;> omega

@[simp] theorem encInt_length (k : IntK) (i : Int) : (encInt k i).length = k.width := by
  simp [encInt]

/-- reading back exactly what was written -/
theorem readMapped_append (bs rest : Bytes) :
    readMapped Rd.slice bs.length (bs ++ rest) = .ok (bs, rest) := by
  simp [readMapped, slice_readExact]

theorem readMapped_append' {n : Nat} (bs rest : Bytes) (h : bs.length = n) :
    readMapped Rd.slice n (bs ++ rest) = .ok (bs, rest) := by
  subst h; exact readMapped_append bs rest

theorem readU8_cons (b : UInt8) (rest : Bytes) : readU8 Rd.slice (b :: rest) = .ok (b, rest) := by
  have := readMapped_append' [b] rest (n := 1) rfl
  simp only [List.singleton_append] at this
  simp [readU8, this]

theorem readU32_u32le {n : Nat} (h : n < 2 ^ 32) (rest : Bytes) :
    readU32 Rd.slice (u32le n ++ rest) = .ok (n, rest) := by
  have h4 : (u32le n).length = 4 := by simp [u32le]
  have := readMapped_append' (u32le n) rest h4
  unfold readU32
  rw [this]
  simp only [Out.map_ok, u32le, ofLe_leBytes]
  have : n % 256 ^ 4 = n := Nat.mod_eq_of_lt (by simpa using h)
  rw [this]

theorem readBulk_append {n : Nat} (bs rest : Bytes) (h : bs.length = n) :
    Rd.slice.readBulk n (bs ++ rest) = .ok (bs, rest) := by
  subst h
  rw [slice_readBulk]
  simp

/-- `Vec<u8>`-style payload: length prefix then the bytes -/
theorem deByteVec_roundtrip (bs rest : Bytes) (h : bs.length < 2 ^ 32) :
    deByteVec Rd.slice (u32le bs.length ++ bs ++ rest) = .ok (bs, rest) := by
  unfold deByteVec
  rw [List.append_assoc, readU32_u32le h]
  simp only [Out.bind_ok]
  by_cases h0 : bs.length = 0
  · have : bs = [] := List.eq_nil_of_length_eq_zero h0
    subst this; simp
  · have : (bs.length == 0) = false := by simp [h0]
    simp only [this, Bool.false_eq_true, if_false]
    exact readBulk_append bs rest rfl

theorem valBytes_bytesVal (vs : List Val) (h : ∀ v ∈ vs, HasTy (.int .u8) v = true) :
    bytesVal (valBytes vs) = vs := by
  induction vs with
  | nil => rfl
  | cons v vs ih =>
    have hv := h v (by simp)
    have ih' := ih (fun w hw => h w (by simp [hw]))
    simp only [valBytes, bytesVal, List.map_cons, List.map_map] at ih' ⊢
    rw [ih']
    congr 1
    match v, hv with
    | .int i, hv =>
      have := intInRange_unsigned (k := .u8) rfl (by simpa [HasTy] using hv)
      simp [IntK.width] at this
      simp only [Function.comp, valByte, UInt8.toNat_ofNat']
      congr 1
      omega

@[simp] theorem valBytes_length (vs : List Val) : (valBytes vs).length = vs.length := by
  simp [valBytes]

end Borsh
