/-
  C03, the general statement: `Eqv t v w` — the two representations `v`, `w` denote the same
  logical value of type `t` (same members of every hash set / hash map whatever the iteration
  order, same run of a deque whatever the ring-buffer split, anything at all in skipped fields),
  at any nesting depth.  `eqv_enc`: logically equal representations have the same specification
  encoding; with `refines_all` they get the same bytes from the implementation.
-/
import BorshModel.Lemmas.SpecRefineMain
import BorshModel.Lemmas.SortLaws
namespace Borsh

/-- elementwise relation of two lists of the same length -/
def All₂ (r : Val → Val → Prop) : List Val → List Val → Prop
  | [], [] => True
  | a :: as, b :: bs => r a b ∧ All₂ r as bs
  | _, _ => False

/-- two map entries: the same key object, related values -/
def entryRel (rv : Val → Val → Prop) : Val → Val → Prop
  | .list [a, b], .list [a', b'] => a = a' ∧ rv b b'
  | _, _ => False

/-- `ws` lists exactly the members of `vs` (both without repeated keys), in any order -/
def SameMembers (key : Val → Val) (vs ws : List Val) : Prop :=
  distinctKeys key vs = true ∧ distinctKeys key ws = true ∧ ∀ x, x ∈ vs ↔ x ∈ ws

mutual
/-- the same logical value -/
def Eqv : Ty → Val → Val → Prop
  | .seq _ t, .list vs, .list ws => All₂ (Eqv t) vs ws
  | .seq _ t, .deque a b, .deque c d => All₂ (Eqv t) (a ++ b) (c ++ d)
  | .set k _, .list vs, .list ws =>
    match k with
    | .hashSet => SameMembers id vs ws           -- iteration order is not part of the value
    | .btreeSet => vs = ws
  | .map k _ vt, .list es, .list fs =>
    match k with
    | .hashMap => ∃ es', All₂ (entryRel (Eqv vt)) es es' ∧ SameMembers entryKey es' fs
    | _ => All₂ (entryRel (Eqv vt)) es fs
  | .array _ t, .list vs, .list ws => All₂ (Eqv t) vs ws
  | .prod _ fs, .list vs, .list ws => EqvFields fs vs ws
  | .sum _ vs, .variant i a, .variant j b => i = j ∧ EqvVariant vs i a b
  | .wrap _ t, v, w => Eqv t v w
  | _, v, w => v = w
/-- non-skipped fields are related; a skipped field is not part of the logical value -/
def EqvFields : List (Option Name × Bool × Ty) → List Val → List Val → Prop
  | [], [], [] => True
  | (_, skip, t) :: fs, v :: vs, w :: ws => (skip = true ∨ Eqv t v w) ∧ EqvFields fs vs ws
  | _, _, _ => False
def EqvVariant : List (Name × Nat × List (Option Name × Bool × Ty)) → Nat → List Val → List Val → Prop
  | [], _, _, _ => False
  | (_, _, fs) :: _, 0, a, b => EqvFields fs a b
  | _ :: vs, i+1, a, b => EqvVariant vs i a b
end

/-! ### list-level lemmas -/

theorem All₂.map_eq {α : Type} {r : Val → Val → Prop} {f : Val → α}
    (h : ∀ v w, r v w → f v = f w) : ∀ vs ws, All₂ r vs ws → vs.map f = ws.map f
  | [], [], _ => rfl
  | a :: as, b :: bs, hab => by
    simp only [All₂] at hab
    simp [h a b hab.1, All₂.map_eq h as bs hab.2]
  | [], _ :: _, hab => by simp [All₂] at hab
  | _ :: _, [], hab => by simp [All₂] at hab

theorem All₂.length_eq {r : Val → Val → Prop} : ∀ vs ws, All₂ r vs ws → vs.length = ws.length
  | [], [], _ => rfl
  | a :: as, b :: bs, hab => by
    simp only [All₂] at hab
    simp [All₂.length_eq as bs hab.2]
  | [], _ :: _, hab => by simp [All₂] at hab
  | _ :: _, [], hab => by simp [All₂] at hab

theorem All₂.insertSorted {r : Val → Val → Prop} {key : Val → Val}
    (hk : ∀ v w, r v w → key v = key w) {x x' : Val} (hx : r x x') :
    ∀ l l', All₂ r l l' → All₂ r (insertSorted key x l) (insertSorted key x' l')
  | [], [], _ => by simp [Borsh.insertSorted, All₂, hx]
  | y :: ys, y' :: ys', h => by
    simp only [All₂] at h
    have e : keyLt key x y = keyLt key x' y' := by
      unfold keyLt; rw [hk x x' hx, hk y y' h.1]
    simp only [Borsh.insertSorted, e]
    split
    · simp [All₂, hx, h.1, h.2]
    · simp only [All₂]; exact ⟨h.1, All₂.insertSorted hk hx ys ys' h.2⟩
  | [], _ :: _, h => by simp [All₂] at h
  | _ :: _, [], h => by simp [All₂] at h

theorem All₂.sortByKey {r : Val → Val → Prop} {key : Val → Val}
    (hk : ∀ v w, r v w → key v = key w) :
    ∀ l l', All₂ r l l' → All₂ r (sortByKey key l) (sortByKey key l')
  | [], [], _ => by simp [Borsh.sortByKey, All₂]
  | y :: ys, y' :: ys', h => by
    simp only [All₂] at h
    simp only [Borsh.sortByKey, List.foldr_cons]
    exact All₂.insertSorted hk h.1 _ _ (All₂.sortByKey hk ys ys' h.2)
  | [], _ :: _, h => by simp [All₂] at h
  | _ :: _, [], h => by simp [All₂] at h

theorem entryRel_key {rv : Val → Val → Prop} (v w : Val) (h : entryRel rv v w) :
    entryKey v = entryKey w := by
  unfold entryRel at h
  split at h
  · simp [entryKey, h.1]
  · exact absurd h id

/-! ### the main lemma -/

def EncEq (t : Ty) : Prop := ∀ v w, Eqv t v w → Spec.enc t v = Spec.enc t w
def EncEqF (fs : List Field) : Prop := ∀ vs ws, EqvFields fs vs ws → Spec.encFields fs vs = Spec.encFields fs ws
def EncEqV (vs : List Variant) : Prop :=
  ∀ i a b, EqvVariant vs i a b → Spec.encVariant vs i a = Spec.encVariant vs i b

theorem eqv_leaf {t : Ty} (h : ∀ v w, Eqv t v w → v = w) : EncEq t := by
  intro v w hvw; rw [h v w hvw]

theorem eqv_enc : ∀ t : Ty, EncEq t := by
  apply Ty.induct (P := EncEq) (PF := EncEqF) (PV := EncEqV)
  case h_int => intro k; exact eqv_leaf (by intro v w h; simpa [Eqv] using h)
  case h_nonzero => intro k; exact eqv_leaf (by intro v w h; simpa [Eqv] using h)
  case h_float => intro k; exact eqv_leaf (by intro v w h; simpa [Eqv] using h)
  case h_bool => exact eqv_leaf (by intro v w h; simpa [Eqv] using h)
  case h_str => intro k; exact eqv_leaf (by intro v w h; simpa [Eqv] using h)
  case h_asciiChar => exact eqv_leaf (by intro v w h; simpa [Eqv] using h)
  case h_raw => intro k; exact eqv_leaf (by intro v w h; simpa [Eqv] using h)
  case h_custom => intro t _; exact eqv_leaf (by intro v w h; simpa [Eqv] using h)
  case h_seq =>
    intro k t ih v w h
    cases v <;> cases w <;> simp only [Eqv] at h <;> (try (cases h <;> rfl))
    case list.list vs ws => simp only [Spec.enc, All₂.map_eq ih vs ws h]
    case deque.deque a b c d => simp only [Spec.enc, All₂.map_eq ih _ _ h]
  case h_set =>
    intro k t _ v w h
    cases v <;> cases w <;> simp only [Eqv] at h <;> (try (cases h <;> rfl))
    case list.list vs ws =>
    cases k with
    | btreeSet => simp only at h; rw [h]
    | hashSet =>
      simp only at h
      obtain ⟨h1, h2, h3⟩ := h
      simp only [Spec.enc, sortByKey_perm_invariant id vs ws h1 h2 h3]
  case h_map =>
    intro k kt vt _ ihv v w h
    cases v <;> cases w <;> simp only [Eqv] at h <;> (try (cases h <;> rfl))
    case list.list es fs =>
    have entry : ∀ e f, entryRel (Eqv vt) e f →
        (match e with
          | Val.list [a, b] => do let x ← Spec.enc kt a; let y ← Spec.enc vt b; pure (x ++ y)
          | _ => (.error .illTyped : Spec.R)) =
        (match f with
          | Val.list [a, b] => do let x ← Spec.enc kt a; let y ← Spec.enc vt b; pure (x ++ y)
          | _ => (.error .illTyped : Spec.R)) := by
      intro e f hef
      unfold entryRel at hef
      split at hef
      · rename_i a b a' b'
        obtain ⟨rfl, hb⟩ := hef
        simp only [ihv b b' hb]
      · exact absurd hef id
    cases k with
    | hashMap =>
      simp only at h
      obtain ⟨es', h1, h2, h3, h4⟩ := h
      have hs := All₂.sortByKey (key := entryKey) entryRel_key es es' h1
      rw [sortByKey_perm_invariant entryKey es' fs h2 h3 h4] at hs
      simp only [Spec.enc]; congr 1; exact All₂.map_eq entry _ _ hs
    | btreeMap =>
      simp only at h
      simp only [Spec.enc]; congr 1; exact All₂.map_eq entry _ _ h
    | indexMap =>
      simp only at h
      simp only [Spec.enc]; congr 1; exact All₂.map_eq entry _ _ h
  case h_array =>
    intro n t ih v w h
    cases v <;> cases w <;> simp only [Eqv] at h <;> (try (cases h <;> rfl))
    case list.list vs ws => simp only [Spec.enc, All₂.map_eq ih vs ws h]
  case h_prod =>
    intro k fs ih v w h
    cases v <;> cases w <;> simp only [Eqv] at h <;> (try (cases h <;> rfl))
    case list.list vs ws => simp only [Spec.enc, ih vs ws h]
  case h_sum =>
    intro k vs ih v w h
    cases v <;> cases w <;> simp only [Eqv] at h <;> (try (cases h <;> rfl))
    case variant.variant i a j b =>
      obtain ⟨rfl, hab⟩ := h
      simp only [Spec.enc, ih i a b hab]
  case h_wrap =>
    intro k t ih v w h
    simp only [Eqv] at h
    simp only [Spec.enc, ih v w h]
  case h_fnil =>
    intro vs ws h
    cases vs <;> cases ws <;> simp [EqvFields] at h
    rfl
  case h_fcons =>
    intro n s t fs iht ihf vs ws h
    match vs, ws, h with
    | v :: vs, w :: ws, h =>
      simp only [EqvFields] at h
      obtain ⟨hl, hr⟩ := h
      simp only [Spec.encFields]
      cases s with
      | true => simp [ihf vs ws hr]
      | false =>
        have : Eqv t v w := by
          rcases hl with h | h
          · cases h
          · exact h
        simp [iht v w this, ihf vs ws hr]
    | [], _, h => simp [EqvFields] at h
    | _ :: _, [], h => simp [EqvFields] at h
  case h_vnil => intro i a b h; simp [EqvVariant] at h
  case h_vcons =>
    intro n g fs vs ihf ihv i a b h
    cases i with
    | zero => simp only [EqvVariant] at h; simp only [Spec.encVariant, ihf a b h]
    | succ i => simp only [EqvVariant] at h; simp only [Spec.encVariant, ihv i a b h]

/-! ### every well-typed representation is logically equal to itself (so `Eqv` is inhabited
exactly where `HasTy` is: the distinctness side conditions are those of the typing) -/

theorem All₂.refl_of {r : Val → Val → Prop} : ∀ vs : List Val, (∀ v ∈ vs, r v v) → All₂ r vs vs
  | [], _ => trivial
  | v :: vs, h => ⟨h v (by simp), All₂.refl_of vs fun x hx => h x (by simp [hx])⟩

def EqvRefl (t : Ty) : Prop := ∀ v, HasTy t v = true → Eqv t v v
def EqvReflF (fs : List Field) : Prop := ∀ vs, HasTyFields fs vs = true → EqvFields fs vs vs
def EqvReflV (vs : List Variant) : Prop := ∀ i a, HasTyVariant vs i a = true → EqvVariant vs i a a

theorem eqv_refl : ∀ t : Ty, EqvRefl t := by
  apply Ty.induct (P := EqvRefl) (PF := EqvReflF) (PV := EqvReflV)
  case h_int => intro k v _; simp [Eqv]
  case h_nonzero => intro k v _; simp [Eqv]
  case h_float => intro k v _; simp [Eqv]
  case h_bool => intro v _; simp [Eqv]
  case h_str => intro k v _; simp [Eqv]
  case h_asciiChar => intro v _; simp [Eqv]
  case h_raw => intro k v _; simp [Eqv]
  case h_custom => intro t _ v _; simp [Eqv]
  case h_seq =>
    intro k t ih v hv
    cases v <;> simp only [HasTy, Bool.false_eq_true] at hv
    case list vs =>
      simp only [Bool.and_eq_true, List.all_eq_true] at hv
      simp only [Eqv]
      exact All₂.refl_of vs fun x hx => ih x (hv.1.2 x hx)
    case deque a b =>
      simp only [Bool.and_eq_true, List.all_eq_true] at hv
      simp only [Eqv]
      exact All₂.refl_of _ fun x hx => by
        rcases List.mem_append.mp hx with h | h
        · exact ih x (hv.1.2 x h)
        · exact ih x (hv.2 x h)
  case h_set =>
    intro k t _ v hv
    cases v <;> simp only [HasTy, Bool.false_eq_true] at hv
    case list vs =>
      simp only [Bool.and_eq_true] at hv
      cases k with
      | btreeSet => simp [Eqv]
      | hashSet => simp only [Eqv]; exact ⟨hv.2, hv.2, fun _ => Iff.rfl⟩
  case h_map =>
    intro k kt vt _ ihv v hv
    cases v <;> simp only [HasTy, Bool.false_eq_true] at hv
    case list es =>
      simp only [Bool.and_eq_true, List.all_eq_true] at hv
      have hall : All₂ (entryRel (Eqv vt)) es es := All₂.refl_of es fun e he => by
        have := hv.1 e he
        split at this
        · rename_i a b
          simp only [Bool.and_eq_true] at this
          exact ⟨rfl, ihv b this.2⟩
        · cases this
      cases k with
      | hashMap => simp only [Eqv]; exact ⟨es, hall, hv.2, hv.2, fun _ => Iff.rfl⟩
      | btreeMap => simp only [Eqv]; exact hall
      | indexMap => simp only [Eqv]; exact hall
  case h_array =>
    intro n t ih v hv
    cases v <;> simp only [HasTy, Bool.false_eq_true] at hv
    case list vs =>
      simp only [Bool.and_eq_true, List.all_eq_true] at hv
      simp only [Eqv]
      exact All₂.refl_of vs fun x hx => ih x (hv.2 x hx)
  case h_prod =>
    intro k fs ih v hv
    cases v <;> simp only [HasTy, Bool.false_eq_true] at hv
    case list vs => simp only [Eqv]; exact ih vs hv
  case h_sum =>
    intro k vs ih v hv
    cases v <;> simp only [HasTy, Bool.false_eq_true] at hv
    case variant i a => simp only [Eqv]; exact ⟨by trivial, ih i a hv⟩
  case h_wrap =>
    intro k t ih v hv
    simp only [HasTy] at hv
    simp only [Eqv]; exact ih v hv
  case h_fnil =>
    intro vs hv
    cases vs <;> simp [HasTyFields] at hv
    simp [EqvFields]
  case h_fcons =>
    intro n s t fs iht ihf vs hv
    cases vs with
    | nil => simp [HasTyFields] at hv
    | cons v vs =>
      simp only [HasTyFields, Bool.and_eq_true] at hv
      simp only [EqvFields]
      exact ⟨Or.inr (iht v hv.1), ihf vs hv.2⟩
  case h_vnil => intro i a hv; simp [HasTyVariant] at hv
  case h_vcons =>
    intro n g fs vs ihf ihv i a hv
    cases i with
    | zero => simp only [HasTyVariant] at hv; simp only [EqvVariant]; exact ihf a hv
    | succ i => simp only [HasTyVariant] at hv; simp only [EqvVariant]; exact ihv i a hv

end Borsh
