/- `max_serialized_size`: whenever a bound is reported it is the specification's maximum. -/
import BorshModel.SchemaCodec
namespace Borsh

theorem Res.bind_eq_ok {ε α β : Type} {x : Res ε α} {f : α → Res ε β} {b : β}
    (h : x.bind f = .ok b) : ∃ a, x = .ok a ∧ f a = .ok b := by
  cases x <;> simp [Res.bind] at h ⊢
  exact h

theorem cAdd_ok {x y n : Nat} (h : cAdd x y = .ok n) : n = x + y ∧ x + y < usizeLimit := by
  unfold cAdd at h
  split at h
  · simp at h; exact ⟨h.symm, by assumption⟩
  · simp at h

theorem cMul_ok {x y n : Nat} (h : cMul x y = .ok n) : n = x * y ∧ x * y < usizeLimit := by
  unfold cMul at h
  split at h
  · simp at h; exact ⟨h.symm, by assumption⟩
  · simp at h

/-- `f` (implementation, count 1) and `g` (specification) agree wherever `f` reports a bound -/
def Agree (f : Name → MaxRes) (g : Name → SpecSize) : Prop :=
  ∀ e n, f e = .ok n → g e = .fin n

theorem sumWith_spec {f : Name → MaxRes} {g : Name → SpecSize} (h : Agree f g) :
    ∀ (es : List Name) (acc s : Nat), sumWith f es acc = .ok s →
      ∃ t, specSum g es = .fin t ∧ s = acc + t := by
  intro es
  induction es with
  | nil => intro acc s hs; simp [sumWith] at hs; exact ⟨0, rfl, by omega⟩
  | cons e es ih =>
    intro acc s hs
    simp only [sumWith] at hs
    obtain ⟨sz, h1, h2⟩ := Res.bind_eq_ok hs
    obtain ⟨a, h3, h4⟩ := Res.bind_eq_ok h2
    obtain ⟨t, ht, hst⟩ := ih a s h4
    have := cAdd_ok h3
    refine ⟨sz + t, ?_, by omega⟩
    simp [specSum, h e sz h1, ht, SpecSize.bind]

theorem maxWith_spec {f : Name → MaxRes} {g : Name → SpecSize} (h : Agree f g) :
    ∀ (es : List Name) (acc s : Nat), maxWith f es acc = .ok s →
      ∃ t, specMaxOf g es = .fin t ∧ s = max acc t := by
  intro es
  induction es with
  | nil => intro acc s hs; simp [maxWith] at hs; exact ⟨0, rfl, by omega⟩
  | cons e es ih =>
    intro acc s hs
    simp only [maxWith] at hs
    obtain ⟨sz, h1, h2⟩ := Res.bind_eq_ok hs
    obtain ⟨t, ht, hst⟩ := ih (max acc sz) s h2
    refine ⟨max sz t, ?_, by omega⟩
    simp [specMaxOf, h e sz h1, ht, SpecSize.bind]

/-- a reported bound is `count` times the specification's maximum, at every nesting level -/
theorem maxSize_exact (c : Container) :
    ∀ (fuel count : Nat) (d : Name) (path : List Name) (n : Nat),
      maxSize c fuel count d path = .ok n →
        ∃ m, specMax c fuel d path = .fin m ∧ n = count * m := by
  intro fuel
  induction fuel with
  | zero => intro count d path n h; simp [maxSize] at h
  | succ fuel ih =>
    intro count d path n h
    have agree : Agree (fun e => maxSize c fuel 1 e (d :: path)) (fun e => specMax c fuel e (d :: path)) := by
      intro e k hk
      obtain ⟨m, hm, hk'⟩ := ih 1 e (d :: path) k hk
      simp at hk'; show specMax c fuel e (d :: path) = .fin k; rw [hm, hk']
    simp only [maxSize] at h
    simp only [specMax]
    split at h
    · simp at h
    · rename_i hp
      simp only [hp, Bool.false_eq_true, if_false]
      split at h
      · simp at h
      · -- primitive
        rename_i size hg
        simp only [hg]
        split at h
        · simp at h; subst h; rename_i hz; subst hz; exact ⟨0, rfl, by simp⟩
        · have := cMul_ok h; exact ⟨size, rfl, by rw [this.1, Nat.mul_comm]⟩
      · -- sequence
        rename_i lw lo hi elem hg
        simp only [hg]
        obtain ⟨sz, h1, h2⟩ := Res.bind_eq_ok h
        obtain ⟨s, h3, h4⟩ := Res.bind_eq_ok h2
        have a3 := cAdd_ok h3
        have a4 := cMul_ok h4
        by_cases hz : hi = 0
        · simp only [hz, if_true] at h1 ⊢
          simp at h1
          exact ⟨lw, rfl, by rw [a4.1, a3.1, ← h1]; simp⟩
        · simp only [hz, if_false] at h1 ⊢
          obtain ⟨m, hm, hsz⟩ := ih hi elem (d :: path) sz h1
          refine ⟨lw + hi * m, by simp [hm, SpecSize.bind], ?_⟩
          rw [a4.1, a3.1, hsz, Nat.add_comm]
      · -- enum
        rename_i tw variants hg
        simp only [hg]
        obtain ⟨mx, h1, h2⟩ := Res.bind_eq_ok h
        obtain ⟨s, h3, h4⟩ := Res.bind_eq_ok h2
        have a3 := cAdd_ok h3
        have a4 := cMul_ok h4
        obtain ⟨t, ht, hmx⟩ := maxWith_spec agree _ 0 mx h1
        refine ⟨tw + t, by simp [ht, SpecSize.bind], ?_⟩
        rw [a4.1, a3.1, hmx]; simp [Nat.add_comm]
      · -- tuple
        rename_i elems hg
        simp only [hg]
        obtain ⟨s, h1, h2⟩ := Res.bind_eq_ok h
        have a2 := cMul_ok h2
        obtain ⟨t, ht, hs⟩ := sumWith_spec agree _ 0 s h1
        exact ⟨t, ht, by rw [a2.1, hs]; simp⟩
      · -- struct
        rename_i fields hg
        simp only [hg]
        split at h
        · simp at h; subst h; exact ⟨0, by simp [Fields.decls, specSum], by simp⟩
        · obtain ⟨s, h1, h2⟩ := Res.bind_eq_ok h
          have a2 := cMul_ok h2
          obtain ⟨t, ht, hs⟩ := sumWith_spec agree _ 0 s h1
          exact ⟨t, ht, by rw [a2.1, hs]; simp⟩

end Borsh
