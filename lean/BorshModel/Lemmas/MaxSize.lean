/- `max_serialized_size`: whenever a bound is reported it is the specification's maximum. -/
import BorshModel.SchemaCodec
namespace Borsh

theorem Res.bind_eq_ok {ε α β : Type} {x : Res ε α} {f : α → Res ε β} {b : β}
    (h : x.bind f = .ok b) : ∃ a, x = .ok a ∧ f a = .ok b := by
  cases x <;> simp [Res.bind] at h ⊢
  exact h

theorem cAdd_ok {x y n : Nat} (h : cAdd x y = .ok n) : n = x + y ∧ x + y < usizeLimit := by
  unfold cAdd at h
  split at h
  · simp at h; exact ⟨h.symm, by assumption⟩
  · simp at h

theorem cMul_ok {x y n : Nat} (h : cMul x y = .ok n) : n = x * y ∧ x * y < usizeLimit := by
  unfold cMul at h
  split at h
  · simp at h; exact ⟨h.symm, by assumption⟩
  · simp at h

/-- `f` (implementation, count 1) and `g` (specification) agree wherever `f` reports a bound -/
def Agree (f : Name → MaxRes) (g : Name → SpecSize) : Prop :=
  ∀ e n, f e = .ok n → g e = .fin n

theorem sumWith_spec {f : Name → MaxRes} {g : Name → SpecSize} (h : Agree f g) :
    ∀ (es : List Name) (acc s : Nat), sumWith f es acc = .ok s →
      ∃ t, specSum g es = .fin t ∧ s = acc + t := by
  intro es
  induction es with
  | nil => intro acc s hs; simp [sumWith] at hs; exact ⟨0, rfl, by omega⟩
  | cons e es ih =>
    intro acc s hs
    simp only [sumWith] at hs
    obtain ⟨sz, h1, h2⟩ := Res.bind_eq_ok hs
    obtain ⟨a, h3, h4⟩ := Res.bind_eq_ok h2
    obtain ⟨t, ht, hst⟩ := ih a s h4
    have := cAdd_ok h3
    refine ⟨sz + t, ?_, by omega⟩
    simp [specSum, h e sz h1, ht, SpecSize.bind]

theorem maxWith_spec {f : Name → MaxRes} {g : Name → SpecSize} (h : Agree f g) :
    ∀ (es : List Name) (acc s : Nat), maxWith f es acc = .ok s →
      ∃ t, specMaxOf g es = .fin t ∧ s = max acc t := by
  intro es
  induction es with
  | nil => intro acc s hs; simp [maxWith] at hs; exact ⟨0, rfl, by omega⟩
  | cons e es ih =>
    intro acc s hs
    simp only [maxWith] at hs
    obtain ⟨sz, h1, h2⟩ := Res.bind_eq_ok hs
    obtain ⟨t, ht, hst⟩ := ih (max acc sz) s h2
    refine ⟨max sz t, ?_, by omega⟩
    simp [specMaxOf, h e sz h1, ht, SpecSize.bind]

/-- a reported bound is `count` times the specification's maximum, at every nesting level -/
theorem maxSize_exact (c : Container) :
    ∀ (fuel count : Nat) (d : Name) (path : List Name) (n : Nat),
      maxSize c fuel count d path = .ok n →
        ∃ m, specMax c fuel d path = .fin m ∧ n = count * m := by
  intro fuel
  induction fuel with
  | zero => intro count d path n h; simp [maxSize] at h
  | succ fuel ih =>
    intro count d path n h
    have agree : Agree (fun e => maxSize c fuel 1 e (d :: path)) (fun e => specMax c fuel e (d :: path)) := by
      intro e k hk
      obtain ⟨m, hm, hk'⟩ := ih 1 e (d :: path) k hk
      simp at hk'; show specMax c fuel e (d :: path) = .fin k; rw [hm, hk']
    simp only [maxSize] at h
    simp only [specMax]
    split at h
    · simp at h
    · rename_i hp
      simp only [hp, Bool.false_eq_true, if_false]
      split at h
      · simp at h
      · -- primitive
        rename_i size hg
        simp only [hg]
        split at h
        · simp at h; subst h; rename_i hz; subst hz; exact ⟨0, rfl, by simp⟩
        · have := cMul_ok h; exact ⟨size, rfl, by rw [this.1, Nat.mul_comm]⟩
      · -- sequence
        rename_i lw lo hi elem hg
        simp only [hg]
        obtain ⟨sz, h1, h2⟩ := Res.bind_eq_ok h
        obtain ⟨s, h3, h4⟩ := Res.bind_eq_ok h2
        have a3 := cAdd_ok h3
        have a4 := cMul_ok h4
        by_cases hz : hi = 0
        · simp only [hz, if_true] at h1 ⊢
          simp at h1
          exact ⟨lw, rfl, by rw [a4.1, a3.1, ← h1]; simp⟩
        · simp only [hz, if_false] at h1 ⊢
          obtain ⟨m, hm, hsz⟩ := ih hi elem (d :: path) sz h1
          refine ⟨lw + hi * m, by simp [hm, SpecSize.bind], ?_⟩
          rw [a4.1, a3.1, hsz, Nat.add_comm]
      · -- enum
        rename_i tw variants hg
        simp only [hg]
        obtain ⟨mx, h1, h2⟩ := Res.bind_eq_ok h
        obtain ⟨s, h3, h4⟩ := Res.bind_eq_ok h2
        have a3 := cAdd_ok h3
        have a4 := cMul_ok h4
        obtain ⟨t, ht, hmx⟩ := maxWith_spec agree _ 0 mx h1
        refine ⟨tw + t, by simp [ht, SpecSize.bind], ?_⟩
        rw [a4.1, a3.1, hmx]; simp [Nat.add_comm]
      · -- tuple
        rename_i elems hg
        simp only [hg]
        obtain ⟨s, h1, h2⟩ := Res.bind_eq_ok h
        have a2 := cMul_ok h2
        obtain ⟨t, ht, hs⟩ := sumWith_spec agree _ 0 s h1
        exact ⟨t, ht, by rw [a2.1, hs]; simp⟩
      · -- struct
        rename_i fields hg
        simp only [hg]
        split at h
        · simp at h; subst h; exact ⟨0, by simp [Fields.decls, specSum], by simp⟩
        · obtain ⟨s, h1, h2⟩ := Res.bind_eq_ok h
          have a2 := cMul_ok h2
          obtain ⟨t, ht, hs⟩ := sumWith_spec agree _ 0 s h1
          exact ⟨t, ht, by rw [a2.1, hs]; simp⟩

/-! ### completeness: a representable true maximum is always reported -/

theorem cAdd_of_lt {x y : Nat} (h : x + y < usizeLimit) : cAdd x y = .ok (x + y) := by
  simp [cAdd, h]
theorem cMul_of_lt {x y : Nat} (h : x * y < usizeLimit) : cMul x y = .ok (x * y) := by
  simp [cMul, h]

/-- `f` reports every bound of `g` that fits the address space -/
def Complete (f : Name → MaxRes) (g : Name → SpecSize) : Prop :=
  ∀ e k, g e = .fin k → k < usizeLimit → f e = .ok k

theorem SpecSize.bind_eq_fin {x : SpecSize} {f : Nat → SpecSize} {n : Nat}
    (h : x.bind f = .fin n) : ∃ a, x = .fin a ∧ f a = .fin n := by
  cases x with
  | fin a => exact ⟨a, rfl, h⟩
  | unbounded => simp [SpecSize.bind] at h
  | missing d => simp [SpecSize.bind] at h

theorem sumWith_complete {f : Name → MaxRes} {g : Name → SpecSize} (h : Complete f g) :
    ∀ (es : List Name) (acc t : Nat), specSum g es = .fin t → acc + t < usizeLimit →
      sumWith f es acc = .ok (acc + t) := by
  intro es
  induction es with
  | nil => intro acc t ht _; simp [specSum] at ht; subst ht; simp [sumWith]
  | cons e es ih =>
    intro acc t ht hlt
    simp only [specSum] at ht
    obtain ⟨a, ha, h2⟩ := SpecSize.bind_eq_fin ht
    obtain ⟨b, hb, h3⟩ := SpecSize.bind_eq_fin h2
    simp at h3; subst h3
    simp only [sumWith]
    rw [h e a ha (by omega)]
    simp only [Res.bind]
    rw [cAdd_of_lt (by omega)]
    simp only []
    rw [ih (acc + a) b hb (by omega)]
    congr 1; omega

theorem maxWith_complete {f : Name → MaxRes} {g : Name → SpecSize} (h : Complete f g) :
    ∀ (es : List Name) (acc t : Nat), specMaxOf g es = .fin t → t < usizeLimit →
      maxWith f es acc = .ok (max acc t) := by
  intro es
  induction es with
  | nil => intro acc t ht _; simp [specMaxOf] at ht; subst ht; simp [maxWith]
  | cons e es ih =>
    intro acc t ht hlt
    simp only [specMaxOf] at ht
    obtain ⟨a, ha, h2⟩ := SpecSize.bind_eq_fin ht
    obtain ⟨b, hb, h3⟩ := SpecSize.bind_eq_fin h2
    simp at h3; subst h3
    simp only [maxWith]
    rw [h e a ha (by omega)]
    simp only [Res.bind]
    rw [ih (max acc a) b hb (by omega)]
    congr 1; omega

/-- whenever the specification's maximum times the multiplier fits the address space, the
implementation reports exactly that (no spurious Overflow / Recursion / Missing) -/
theorem maxSize_complete (c : Container) :
    ∀ (fuel count : Nat) (d : Name) (path : List Name) (m : Nat),
      specMax c fuel d path = .fin m → 0 < count → count * m < usizeLimit →
        maxSize c fuel count d path = .ok (count * m) := by
  intro fuel
  induction fuel with
  | zero => intro count d path m h; simp [specMax] at h
  | succ fuel ih =>
    intro count d path m h hc hlt
    have hm_le : m ≤ count * m := Nat.le_mul_of_pos_left m hc
    have comp : Complete (fun e => maxSize c fuel 1 e (d :: path)) (fun e => specMax c fuel e (d :: path)) := by
      intro e k hk hkl
      have := ih 1 e (d :: path) k hk (by omega) (by simpa using hkl)
      simpa using this
    simp only [specMax] at h
    simp only [maxSize]
    split at h
    · simp at h
    · rename_i hp
      simp only [hp, Bool.false_eq_true, if_false]
      split at h
      · simp at h
      · -- primitive
        rename_i size hg
        simp only [hg]
        simp at h; subst h
        split
        · rename_i hz; subst hz; simp
        · rw [cMul_of_lt (by rw [Nat.mul_comm]; exact hlt), Nat.mul_comm]
      · -- sequence
        rename_i lw lo hi elem hg
        simp only [hg]
        by_cases hz : hi = 0
        · simp only [hz, if_true] at h ⊢
          simp at h; subst h
          simp only [Res.bind]
          rw [cAdd_of_lt (by omega)]
          simp only []
          rw [cMul_of_lt (by simpa using hlt)]
          simp
        · simp only [hz, if_false] at h ⊢
          obtain ⟨n, hn, h2⟩ := SpecSize.bind_eq_fin h
          simp at h2; subst h2
          have hhi : 0 < hi := Nat.pos_of_ne_zero hz
          rw [ih hi elem (d :: path) n hn hhi (by omega)]
          simp only [Res.bind]
          rw [cAdd_of_lt (by omega)]
          simp only []
          rw [cMul_of_lt (by rw [Nat.add_comm]; exact hlt)]
          congr 1; rw [Nat.add_comm]
      · -- tuple
        rename_i elems hg
        simp only [hg]
        rw [sumWith_complete comp elems 0 m h (by omega)]
        simp only [Res.bind, Nat.zero_add]
        rw [cMul_of_lt hlt]
      · -- enum
        rename_i tw variants hg
        simp only [hg]
        obtain ⟨t, ht, h2⟩ := SpecSize.bind_eq_fin h
        simp at h2; subst h2
        rw [maxWith_complete comp _ 0 t ht (by omega)]
        simp only [Res.bind, Nat.zero_max]
        rw [cAdd_of_lt (by omega)]
        simp only []
        rw [cMul_of_lt (by rw [Nat.add_comm]; exact hlt)]
        congr 1; rw [Nat.add_comm]
      · -- struct
        rename_i fields hg
        simp only [hg]
        cases fields with
        | empty =>
          simp [Fields.decls, specSum] at h; subst h; simp
        | named fs =>
          simp only
          rw [sumWith_complete comp _ 0 m h (by omega)]
          simp only [Res.bind, Nat.zero_add]
          rw [cMul_of_lt hlt]
        | unnamed fs =>
          simp only
          rw [sumWith_complete comp _ 0 m h (by omega)]
          simp only [Res.bind, Nat.zero_add]
          rw [cMul_of_lt hlt]

/-- every reported bound fits the address space (it is zero or the result of a checked product) -/
theorem maxSize_ok_lt (c : Container) (fuel count : Nat) (d : Name) (path : List Name) (n : Nat)
    (h : maxSize c fuel count d path = .ok n) : n < usizeLimit := by
  have hpos : 0 < usizeLimit := by decide
  cases fuel with
  | zero => simp [maxSize] at h
  | succ fuel =>
    simp only [maxSize] at h
    split at h
    · simp at h
    · split at h
      · simp at h
      · split at h
        · simp at h; omega
        · exact (cMul_ok h).1 ▸ (cMul_ok h).2
      · obtain ⟨sz, _, h2⟩ := Res.bind_eq_ok h
        obtain ⟨s, _, h4⟩ := Res.bind_eq_ok h2
        exact (cMul_ok h4).1 ▸ (cMul_ok h4).2
      · obtain ⟨mx, _, h2⟩ := Res.bind_eq_ok h
        obtain ⟨s, _, h4⟩ := Res.bind_eq_ok h2
        exact (cMul_ok h4).1 ▸ (cMul_ok h4).2
      · obtain ⟨s, _, h2⟩ := Res.bind_eq_ok h
        exact (cMul_ok h2).1 ▸ (cMul_ok h2).2
      · split at h
        · simp at h; omega
        · obtain ⟨s, _, h2⟩ := Res.bind_eq_ok h
          exact (cMul_ok h2).1 ▸ (cMul_ok h2).2

end Borsh
