/-
  Soundness of the specification maximum against the schema-only reader: whatever byte string
  the container lets a reader walk (`sdec`), the walk consumes at most `specMax` bytes — for
  every container, cycles and hostile widths included.  Together with `maxSize_exact` this makes
  a reported `max_serialized_size` an upper bound on every encoding the schema describes.
-/
import BorshModel.Lemmas.MaxSize
import BorshModel.SchemaWalk
namespace Borsh

/-- what one walk step guarantees: it returns a suffix no longer than its input, and consumes at
most the finite size `g` assigns -/
def WalkBound (f : Bytes → Option Bytes) (g : SpecSize) : Prop :=
  ∀ bs r, f bs = some r → r.length ≤ bs.length ∧ ∀ n, g = .fin n → bs.length ≤ r.length + n

theorem listWith_bound {f : Name → Bytes → Option Bytes} {g : Name → SpecSize}
    (h : ∀ d, WalkBound (f d) (g d)) :
    ∀ ds : List Name, WalkBound (listWith f ds) (specSum g ds) := by
  intro ds
  induction ds with
  | nil =>
    intro bs r hr
    simp [listWith] at hr; subst hr
    exact ⟨Nat.le_refl _, fun n hn => by simp [specSum] at hn; omega⟩
  | cons d ds ih =>
    intro bs r hr
    simp only [listWith] at hr
    obtain ⟨m, hm, hr'⟩ := Option.bind_eq_some_iff.mp hr
    obtain ⟨l1, b1⟩ := h d bs m hm
    obtain ⟨l2, b2⟩ := ih m r hr'
    refine ⟨Nat.le_trans l2 l1, fun n hn => ?_⟩
    simp only [specSum] at hn
    obtain ⟨a, ha, hn⟩ := SpecSize.bind_eq_fin hn
    obtain ⟨b, hb, hn⟩ := SpecSize.bind_eq_fin hn
    cases hn
    have := b1 a ha
    have := b2 b hb
    omega

theorem repeatWith_bound {f : Bytes → Option Bytes} {g : SpecSize} (h : WalkBound f g) :
    ∀ (k : Nat) (bs r : Bytes), repeatWith f k bs = some r →
      r.length ≤ bs.length ∧ ∀ n, g = .fin n → bs.length ≤ r.length + k * n := by
  intro k
  induction k with
  | zero =>
    intro bs r hr
    simp [repeatWith] at hr; subst hr
    exact ⟨Nat.le_refl _, fun n _ => by omega⟩
  | succ k ih =>
    intro bs r hr
    simp only [repeatWith] at hr
    obtain ⟨m, hm, hr'⟩ := Option.bind_eq_some_iff.mp hr
    obtain ⟨l1, b1⟩ := h bs m hm
    obtain ⟨l2, b2⟩ := ih m r hr'
    refine ⟨Nat.le_trans l2 l1, fun n hn => ?_⟩
    have := b1 n hn
    have := b2 n hn
    rw [Nat.succ_mul]; omega

theorem specMaxOf_mem {g : Name → SpecSize} :
    ∀ (es : List Name) (m : Nat), specMaxOf g es = .fin m → ∀ e ∈ es, ∃ a, g e = .fin a ∧ a ≤ m := by
  intro es
  induction es with
  | nil => intro m _ e he; cases he
  | cons x xs ih =>
    intro m hm e he
    simp only [specMaxOf] at hm
    obtain ⟨a, ha, hm⟩ := SpecSize.bind_eq_fin hm
    obtain ⟨b, hb, hm⟩ := SpecSize.bind_eq_fin hm
    cases hm
    rcases List.mem_cons.mp he with rfl | hmem
    · exact ⟨a, ha, Nat.le_max_left _ _⟩
    · obtain ⟨a', ha', hle⟩ := ih b hb e hmem
      exact ⟨a', ha', Nat.le_trans hle (Nat.le_max_right _ _)⟩

/-- **the walk never consumes more than the specification maximum**, whatever fuels and path -/
theorem sdec_bound (c : Container) :
    ∀ (fs : Nat) (d : Name) (fm : Nat) (path : List Name),
      WalkBound (sdec c fs d) (specMax c fm d path) := by
  intro fs
  induction fs with
  | zero => intro d fm path bs r hr; simp [sdec] at hr
  | succ fs ih =>
    intro d fm path bs r hr
    simp only [sdec] at hr
    -- the specification side, unfolded once (a finite value needs fuel and `d ∉ path`)
    have spec : ∀ n, specMax c fm d path = .fin n →
        ∃ fm', fm = fm' + 1 ∧ path.contains d = false := by
      intro n hn
      cases fm with
      | zero => simp [specMax] at hn
      | succ fm' =>
        refine ⟨fm', rfl, ?_⟩
        simp only [specMax] at hn
        split at hn
        · simp at hn
        · rename_i hp; simpa using hp
    split at hr
    · simp at hr
    · -- primitive
      rename_i s hg
      split at hr
      · rename_i hle
        simp at hr; subst hr
        refine ⟨by simp, fun n hn => ?_⟩
        obtain ⟨fm', rfl, hp⟩ := spec n hn
        simp only [specMax, hp, Bool.false_eq_true, if_false, hg] at hn
        cases hn
        simp; omega
      · simp at hr
    · -- sequence
      rename_i lw lo hi e hg
      split at hr
      · -- untagged
        rename_i hlw
        split at hr
        · rename_i hlo
          obtain ⟨l, b⟩ := repeatWith_bound (ih e (fm - 1) (d :: path)) hi bs r hr
          refine ⟨l, fun n hn => ?_⟩
          obtain ⟨fm', rfl, hp⟩ := spec n hn
          simp only [specMax, hp, Bool.false_eq_true, if_false, hg] at hn
          split at hn
          · rename_i hz
            subst hz
            simp [repeatWith] at hr; subst hr; omega
          · obtain ⟨m, hm, hn⟩ := SpecSize.bind_eq_fin hn
            cases hn
            have := b m (by simpa using hm)
            omega
        · simp at hr
      · -- length-prefixed
        rename_i hlw
        split at hr
        · rename_i hle
          split at hr
          · rename_i hrange
            obtain ⟨l, b⟩ := repeatWith_bound (ih e (fm - 1) (d :: path)) _ _ r hr
            have hd : (bs.drop lw).length = bs.length - lw := by simp
            refine ⟨by omega, fun n hn => ?_⟩
            obtain ⟨fm', rfl, hp⟩ := spec n hn
            simp only [specMax, hp, Bool.false_eq_true, if_false, hg] at hn
            split at hn
            · rename_i hz
              subst hz
              have hk : ofLe (bs.take lw) = 0 := by omega
              rw [hk] at hr
              simp [repeatWith] at hr; subst hr
              cases hn; omega
            · obtain ⟨m, hm, hn⟩ := SpecSize.bind_eq_fin hn
              cases hn
              have := b m (by simpa using hm)
              have : ofLe (bs.take lw) * m ≤ hi * m := Nat.mul_le_mul_right m hrange.2
              omega
          · simp at hr
        · simp at hr
    · -- tuple
      rename_i es hg
      have hb := listWith_bound (f := sdec c fs) (g := fun e => specMax c (fm - 1) e (d :: path))
        (fun e => ih e (fm - 1) (d :: path)) es bs r hr
      refine ⟨hb.1, fun n hn => ?_⟩
      obtain ⟨fm', rfl, hp⟩ := spec n hn
      simp only [specMax, hp, Bool.false_eq_true, if_false, hg] at hn
      exact hb.2 n (by simpa using hn)
    · -- enum
      rename_i tw vs hg
      split at hr
      · rename_i hle
        split at hr
        · rename_i v hv
          obtain ⟨l, b⟩ := ih v.2.2 (fm - 1) (d :: path) _ r hr
          have hd : (bs.drop tw).length = bs.length - tw := by simp
          refine ⟨by omega, fun n hn => ?_⟩
          obtain ⟨fm', rfl, hp⟩ := spec n hn
          simp only [specMax, hp, Bool.false_eq_true, if_false, hg] at hn
          obtain ⟨m, hm, hn⟩ := SpecSize.bind_eq_fin hn
          cases hn
          have hmem : v.2.2 ∈ vs.map (·.2.2) := List.mem_map.mpr ⟨v, List.mem_of_find?_eq_some hv, rfl⟩
          obtain ⟨a, ha, hle'⟩ := specMaxOf_mem _ m hm _ hmem
          have := b a (by simpa using ha)
          omega
        · simp at hr
      · simp at hr
    · -- struct
      rename_i fds hg
      have hb := listWith_bound (f := sdec c fs) (g := fun e => specMax c (fm - 1) e (d :: path))
        (fun e => ih e (fm - 1) (d :: path)) fds.decls bs r hr
      refine ⟨hb.1, fun n hn => ?_⟩
      obtain ⟨fm', rfl, hp⟩ := spec n hn
      simp only [specMax, hp, Bool.false_eq_true, if_false, hg] at hn
      exact hb.2 n (by simpa using hn)

end Borsh
