/-
  Tightness of the specification maximum: for a container all of whose definitions can actually be
  read (`readable`: non-empty enums with distinct in-range discriminants, length ranges that fit
  their width, untagged sequences of one length), whenever `specMax` is finite there is a byte
  string of exactly that length which the schema-only reader walks to its end.  With `sdec_bound`
  (no described string is longer) this makes `specMax` the true maximum, not just a formula.
-/
import BorshModel.Lemmas.MaxSound
import BorshModel.Lemmas.Describes
namespace Borsh

theorem Container.readable_get {c : Container} (h : c.readable = true) {d : Name} {df : Defn}
    (hg : c.get d = some df) : readableDefn df = true := by
  unfold Container.get at hg
  cases hf : c.defs.find? (fun e => e.1 == d) with
  | none => simp [hf] at hg
  | some e =>
    simp only [hf, Option.map_some, Option.some.injEq] at hg
    have hm := List.mem_of_find?_eq_some hf
    have := (List.all_eq_true.mp h) e hm
    rw [hg] at this; exact this

/-- a witness for one declaration: exactly `n` bytes, walked to the end whatever follows, with
every fuel from `f` on -/
def Wit (c : Container) (d : Name) (n : Nat) : Prop :=
  ∃ (bs : Bytes) (f : Nat), bs.length = n ∧ ∀ f', f ≤ f' → ∀ rest, sdec c f' d (bs ++ rest) = some rest

theorem repeatWith_wit {g : Bytes → Option Bytes} {w : Bytes} (h : ∀ rest, g (w ++ rest) = some rest) :
    ∀ (k : Nat) (rest : Bytes), repeatWith g k ((List.replicate k w).flatten ++ rest) = some rest := by
  intro k
  induction k with
  | zero => intro rest; simp [repeatWith]
  | succ k ih =>
    intro rest
    simp only [List.replicate_succ, List.flatten_cons, List.append_assoc, repeatWith, h,
      Option.bind_some]
    exact ih rest

theorem length_flatten_replicate (k : Nat) (w : Bytes) : (List.replicate k w).flatten.length = k * w.length := by
  induction k with
  | zero => simp
  | succ k ih => simp [List.replicate_succ, ih, Nat.succ_mul, Nat.add_comm]

/-- witnesses for a list of declarations, concatenated -/
theorem listWith_wit (c : Container) (g : Name → SpecSize) :
    ∀ (es : List Name) (n : Nat), specSum g es = .fin n → (∀ e ∈ es, ∀ m, g e = .fin m → Wit c e m) →
      ∃ (bs : Bytes) (f : Nat), bs.length = n ∧
        ∀ f', f ≤ f' → ∀ rest, listWith (sdec c f') es (bs ++ rest) = some rest := by
  intro es
  induction es with
  | nil =>
    intro n hn _
    simp only [specSum, SpecSize.fin.injEq] at hn
    exact ⟨[], 0, by simp [← hn], fun f' _ rest => by simp [listWith]⟩
  | cons e es ih =>
    intro n hn hw
    simp only [specSum] at hn
    obtain ⟨a, ha, hn⟩ := SpecSize.bind_eq_fin hn
    obtain ⟨b, hb, hn⟩ := SpecSize.bind_eq_fin hn
    cases hn
    obtain ⟨w1, f1, l1, p1⟩ := hw e (by simp) a ha
    obtain ⟨w2, f2, l2, p2⟩ := ih b hb (fun x hx => hw x (by simp [hx]))
    refine ⟨w1 ++ w2, max f1 f2, by simp [l1, l2], fun f' hf rest => ?_⟩
    simp only [listWith, List.append_assoc]
    rw [p1 f' (by omega) (w2 ++ rest)]
    simp only [Option.bind_some]
    exact p2 f' (by omega) rest

/-- the maximum over a non-empty list is attained -/
theorem specMaxOf_attained {g : Name → SpecSize} :
    ∀ (es : List Name) (m : Nat), es ≠ [] → specMaxOf g es = .fin m → ∃ e ∈ es, g e = .fin m := by
  intro es
  induction es with
  | nil => intro m h; exact absurd rfl h
  | cons x xs ih =>
    intro m _ hm
    simp only [specMaxOf] at hm
    obtain ⟨a, ha, hm⟩ := SpecSize.bind_eq_fin hm
    obtain ⟨b, hb, hm⟩ := SpecSize.bind_eq_fin hm
    cases hm
    by_cases hle : b ≤ a
    · exact ⟨x, by simp, by rw [ha, Nat.max_eq_left hle]⟩
    · have hxs : xs ≠ [] := by
        intro h; subst h
        simp only [specMaxOf, SpecSize.fin.injEq] at hb
        omega
      obtain ⟨e, he, hge⟩ := ih b hxs hb
      exact ⟨e, by simp [he], by rw [hge, Nat.max_eq_right (by omega)]⟩

theorem find_by_discr : ∀ (vs : List (Int × Name × Name)) (v : Int × Name × Name),
    (vs.map (·.1)).Nodup → v ∈ vs → vs.find? (fun x => x.1 == v.1) = some v := by
  intro vs
  induction vs with
  | nil => intro v _ h; cases h
  | cons y ys ih =>
    intro v hnd hv
    simp only [List.map_cons, List.nodup_cons] at hnd
    rcases List.mem_cons.mp hv with rfl | hmem
    · simp
    · have hne : (y.1 == v.1) = false := by
        have : y.1 ≠ v.1 := by
          intro h
          exact hnd.1 (by rw [h]; exact List.mem_map.mpr ⟨v, hmem, rfl⟩)
        simpa using this
      simp only [List.find?_cons, hne]
      exact ih v hnd.2 hmem

theorem ofLe_take_leBytes (w n : Nat) (rest : Bytes) (h : n < 256 ^ w) :
    ofLe ((leBytes w n ++ rest).take w) = n := by
  have : (leBytes w n ++ rest).take w = leBytes w n := by
    rw [List.take_append_of_le_length (by simp)]
    simp [List.take_of_length_le]
  rw [this, ofLe_leBytes, Nat.mod_eq_of_lt h]

theorem drop_leBytes (w n : Nat) (rest : Bytes) : (leBytes w n ++ rest).drop w = rest := by
  exact List.drop_left' (by simp)

/-- **the bound is attained** -/
theorem specMax_attained (c : Container) (hr : c.readable = true) :
    ∀ (fuel : Nat) (d : Name) (path : List Name) (n : Nat), specMax c fuel d path = .fin n → Wit c d n := by
  intro fuel
  induction fuel with
  | zero => intro d path n h; simp [specMax] at h
  | succ fuel ih =>
    intro d path n h
    simp only [specMax] at h
    split at h
    · simp at h
    · split at h
      · simp at h
      · -- primitive
        rename_i s hg
        cases h
        refine ⟨List.replicate n 0, 1, by simp, fun f' hf rest => ?_⟩
        obtain ⟨g, rfl⟩ : ∃ g, f' = g + 1 := ⟨f' - 1, by omega⟩
        simp only [sdec, hg]
        have : n ≤ (List.replicate n (0 : UInt8) ++ rest).length := by simp
        simp only [this, if_true]
        congr 1
        exact List.drop_left' (by simp)
      · -- sequence
        rename_i lw lo hi e hg
        have hrd := Container.readable_get hr hg
        simp only [readableDefn] at hrd
        split at h
        · -- no elements
          rename_i hz
          subst hz
          have hn : lw = n := by cases h; rfl
          subst hn
          refine ⟨leBytes lw 0, 1, by simp, fun f' hf rest => ?_⟩
          obtain ⟨g, rfl⟩ : ∃ g, f' = g + 1 := ⟨f' - 1, by omega⟩
          simp only [sdec, hg]
          by_cases hlw : lw = 0
          · subst hlw
            simp only [if_true] at hrd ⊢
            have : lo = 0 := by simpa using hrd
            subst this
            simp [leBytes, repeatWith]
          · simp only [hlw, if_false] at hrd ⊢
            simp only [Bool.and_eq_true, decide_eq_true_eq] at hrd
            have hle : lw ≤ (leBytes lw 0 ++ rest).length := by simp
            simp only [hle, if_true, ofLe_take_leBytes lw 0 rest hrd.2, drop_leBytes]
            have : lo ≤ 0 ∧ 0 ≤ 0 := ⟨hrd.1, Nat.le_refl _⟩
            simp [this, repeatWith]
        · rename_i hz
          obtain ⟨m, hm, hn⟩ := SpecSize.bind_eq_fin h
          cases hn
          obtain ⟨w, f, hl, hp⟩ := ih e (d :: path) m hm
          refine ⟨leBytes lw hi ++ (List.replicate hi w).flatten, f + 1,
            by simp [hl], fun f' hf rest => ?_⟩
          obtain ⟨g, rfl⟩ : ∃ g, f' = g + 1 := ⟨f' - 1, by omega⟩
          have hg' : f ≤ g := by omega
          simp only [sdec, hg, List.append_assoc]
          by_cases hlw : lw = 0
          · subst hlw
            simp only [if_true] at hrd ⊢
            have : lo = hi := by simpa using hrd
            simp only [this, if_true, leBytes, List.nil_append]
            exact repeatWith_wit (hp g hg') hi rest
          · simp only [hlw, if_false] at hrd ⊢
            simp only [Bool.and_eq_true, decide_eq_true_eq] at hrd
            have hle : lw ≤ (leBytes lw hi ++ ((List.replicate hi w).flatten ++ rest)).length := by simp
            simp only [hle, if_true, ofLe_take_leBytes lw hi _ hrd.2, drop_leBytes]
            have : lo ≤ hi ∧ hi ≤ hi := ⟨hrd.1, Nat.le_refl _⟩
            simp only [this, and_self, if_true]
            exact repeatWith_wit (hp g hg') hi rest
      · -- tuple
        rename_i es hg
        obtain ⟨bs, f, hl, hp⟩ := listWith_wit c _ es n h (fun e _ m hm => ih e (d :: path) m hm)
        refine ⟨bs, f + 1, hl, fun f' hf rest => ?_⟩
        obtain ⟨g, rfl⟩ : ∃ g, f' = g + 1 := ⟨f' - 1, by omega⟩
        simp only [sdec, hg]
        exact hp g (by omega) rest
      · -- enum
        rename_i tw vs hg
        have hrd := Container.readable_get hr hg
        simp only [readableDefn, Bool.and_eq_true, decide_eq_true_eq] at hrd
        obtain ⟨⟨hne, hall⟩, hnd⟩ := hrd
        obtain ⟨m, hm, hn⟩ := SpecSize.bind_eq_fin h
        cases hn
        have hne' : vs.map (·.2.2) ≠ [] := by
          intro h0
          cases vs with
          | nil => simp at hne
          | cons a as => simp at h0
        obtain ⟨e, he, hge⟩ := specMaxOf_attained _ m hne' hm
        obtain ⟨v, hv, rfl⟩ := List.mem_map.mp he
        obtain ⟨w, f, hl, hp⟩ := ih v.2.2 (d :: path) m hge
        have hvr := (List.all_eq_true.mp hall) v hv
        simp only [Bool.and_eq_true, decide_eq_true_eq] at hvr
        refine ⟨leBytes tw v.1.toNat ++ w, f + 1, by simp [hl], fun f' hf rest => ?_⟩
        obtain ⟨g, rfl⟩ : ∃ g, f' = g + 1 := ⟨f' - 1, by omega⟩
        simp only [sdec, hg, List.append_assoc]
        have hle : tw ≤ (leBytes tw v.1.toNat ++ (w ++ rest)).length := by simp
        simp only [hle, if_true, ofLe_take_leBytes tw v.1.toNat _ hvr.2, drop_leBytes]
        have hint : ((v.1.toNat : Nat) : Int) = v.1 := Int.toNat_of_nonneg hvr.1
        rw [hint, find_by_discr vs v hnd hv]
        exact hp g (by omega) rest
      · -- struct
        rename_i fs hg
        obtain ⟨bs, f, hl, hp⟩ := listWith_wit c _ fs.decls n h (fun e _ m hm => ih e (d :: path) m hm)
        refine ⟨bs, f + 1, hl, fun f' hf rest => ?_⟩
        obtain ⟨g, rfl⟩ : ∃ g, f' = g + 1 := ⟨f' - 1, by omega⟩
        simp only [sdec, hg]
        exact hp g (by omega) rest

end Borsh
