/-
  `Val.cmp` is a total order on representations: antisymmetric (`swap`), transitive, and `eq`
  exactly on equal values.  These are the laws of Rust's `Ord` that the sorted-set reasoning
  relies on; here they are theorems about the model of `Ord`.
-/
import BorshModel.Ord
namespace Borsh

theorem cmpNat_swap (a b : Nat) : cmpNat a b = (cmpNat b a).swap := by
  unfold cmpNat
  by_cases h1 : a < b
  · have : ¬ b < a := by omega
    simp [h1, this]
  · by_cases h2 : b < a
    · simp [h1, h2]
    · simp [h1, h2]

theorem cmpNat_lt {a b : Nat} : cmpNat a b = .lt ↔ a < b := by
  unfold cmpNat
  by_cases h1 : a < b
  · simp [h1]
  · by_cases h2 : b < a <;> simp [h1, h2]

theorem cmpNat_eq {a b : Nat} : cmpNat a b = .eq ↔ a = b := by
  unfold cmpNat
  by_cases h1 : a < b
  · simp [h1]; omega
  · by_cases h2 : b < a
    · simp [h1, h2]; omega
    · simp [h1, h2]; omega

theorem cmpNat_gt {a b : Nat} : cmpNat a b = .gt ↔ b < a := by
  rw [cmpNat_swap]
  cases h : cmpNat b a <;> simp [Ordering.swap] <;> (first | (have := cmpNat_lt.mp h; omega) | skip)
  · have := cmpNat_eq.mp h; omega
  · rw [cmpNat_swap] at h
    cases h2 : cmpNat a b <;> rw [h2] at h <;> simp [Ordering.swap] at h
    exact cmpNat_lt.mp h2 |> fun _ => by have := cmpNat_lt.mp h2; omega

theorem cmpBytes_swap : ∀ a b : Bytes, cmpBytes a b = (cmpBytes b a).swap
  | [], [] => rfl
  | [], _ :: _ => rfl
  | _ :: _, [] => rfl
  | x :: xs, y :: ys => by
    simp only [cmpBytes]
    by_cases h1 : x < y
    · have : ¬ y < x := by
        intro h; exact absurd (UInt8.lt_iff_toNat_lt.mp h1) (by have := UInt8.lt_iff_toNat_lt.mp h; omega)
      simp [h1, this]
    · by_cases h2 : y < x
      · simp [h1, h2]
      · simp only [h1, h2, if_false]
        exact cmpBytes_swap xs ys

theorem cmpBytes_eq : ∀ a b : Bytes, cmpBytes a b = .eq ↔ a = b
  | [], [] => by simp [cmpBytes]
  | [], _ :: _ => by simp [cmpBytes]
  | _ :: _, [] => by simp [cmpBytes]
  | x :: xs, y :: ys => by
    simp only [cmpBytes]
    by_cases h1 : x < y
    · simp only [h1, if_true]
      constructor
      · intro h; cases h
      · intro h; injection h with hx; subst hx; exact absurd h1 (by simp)
    · by_cases h2 : y < x
      · simp only [h1, h2, if_false, if_true]
        constructor
        · intro h; cases h
        · intro h; injection h with hx; subst hx; exact absurd h2 (by simp)
      · simp only [h1, h2, if_false]
        rw [cmpBytes_eq xs ys]
        have hxy : x = y := by
          have a1 : ¬ x.toNat < y.toNat := fun h => h1 (UInt8.lt_iff_toNat_lt.mpr h)
          have a2 : ¬ y.toNat < x.toNat := fun h => h2 (UInt8.lt_iff_toNat_lt.mpr h)
          exact UInt8.toNat_inj.mp (by omega)
        constructor
        · intro h; rw [hxy, h]
        · intro h; injection h

theorem cmpBytes_trans : ∀ a b c : Bytes, cmpBytes a b = .lt → cmpBytes b c = .lt → cmpBytes a c = .lt
  | [], [], _ => by simp [cmpBytes]
  | [], _ :: _, [] => by simp [cmpBytes]
  | [], _ :: _, _ :: _ => by simp [cmpBytes]
  | _ :: _, [], _ => by simp [cmpBytes]
  | _ :: _, _ :: _, [] => by simp [cmpBytes]
  | x :: xs, y :: ys, z :: zs => by
    simp only [cmpBytes]
    intro h1 h2
    have lt := @UInt8.lt_iff_toNat_lt
    by_cases hxy : x < y
    · by_cases hyz : y < z
      · have : x < z := lt.mpr (by have := lt.mp hxy; have := lt.mp hyz; omega)
        simp [this]
      · simp only [hyz, if_false] at h2
        by_cases hzy : z < y
        · simp [hzy] at h2
        · simp only [hzy, if_false] at h2
          have hyz' : y = z := UInt8.toNat_inj.mp (by
            have a1 : ¬ y.toNat < z.toNat := fun h => hyz (lt.mpr h)
            have a2 : ¬ z.toNat < y.toNat := fun h => hzy (lt.mpr h)
            omega)
          subst hyz'
          simp [hxy]
    · simp only [hxy, if_false] at h1
      by_cases hyx : y < x
      · simp [hyx] at h1
      · simp only [hyx, if_false] at h1
        have hxy' : x = y := UInt8.toNat_inj.mp (by
          have a1 : ¬ x.toNat < y.toNat := fun h => hxy (lt.mpr h)
          have a2 : ¬ y.toNat < x.toNat := fun h => hyx (lt.mpr h)
          omega)
        subst hxy'
        by_cases hxz : x < z
        · simp [hxz]
        · simp only [hxz, if_false] at h2 ⊢
          by_cases hzx : z < x
          · simp [hzx] at h2
          · simp only [hzx, if_false] at h2 ⊢
            exact cmpBytes_trans xs ys zs h1 h2

end Borsh

namespace Borsh

theorem cmp_of_rank_ne (a b : Val) (h : a.rank ≠ b.rank) : Val.cmp a b = cmpNat a.rank b.rank := by
  cases a <;> cases b <;> simp [Val.rank] at h <;> simp [Val.cmp, Val.rank]

theorem intCmp_swap (x y : Int) :
    (if x < y then Ordering.lt else if y < x then .gt else .eq) =
      (if y < x then Ordering.lt else if x < y then .gt else .eq).swap := by
  by_cases h1 : x < y
  · have : ¬ y < x := by omega
    simp [h1, this]
  · by_cases h2 : y < x <;> simp [h1, h2]

theorem then_swap (o₁ o₂ p₁ p₂ : Ordering) (h1 : o₁ = p₁.swap) (h2 : o₂ = p₂.swap) :
    (match o₁ with | .lt => Ordering.lt | .gt => .gt | .eq => o₂) =
      (match p₁ with | .lt => Ordering.lt | .gt => .gt | .eq => p₂).swap := by
  subst h1 h2
  cases p₁ <;> simp [Ordering.swap]

mutual
theorem Val.cmp_swap : ∀ a b : Val, Val.cmp a b = (Val.cmp b a).swap
  | .int x, .int y => by simp only [Val.cmp]; exact intCmp_swap x y
  | .bool x, .bool y => by simp only [Val.cmp]; exact cmpNat_swap _ _
  | .blob x, .blob y => by simp only [Val.cmp]; exact cmpBytes_swap x y
  | .list x, .list y => by simp only [Val.cmp]; exact Val.cmpList_swap x y
  | .deque a b, .deque c d => by
    simp only [Val.cmp]
    exact then_swap _ _ _ _ (Val.cmpList_swap a c) (Val.cmpList_swap b d)
  | .variant i x, .variant j y => by
    simp only [Val.cmp]
    exact then_swap _ _ _ _ (cmpNat_swap i j) (Val.cmpList_swap x y)
  | .int _, .bool _ | .int _, .blob _ | .int _, .list _ | .int _, .deque _ _ | .int _, .variant _ _
  | .bool _, .int _ | .bool _, .blob _ | .bool _, .list _ | .bool _, .deque _ _ | .bool _, .variant _ _
  | .blob _, .int _ | .blob _, .bool _ | .blob _, .list _ | .blob _, .deque _ _ | .blob _, .variant _ _
  | .list _, .int _ | .list _, .bool _ | .list _, .blob _ | .list _, .deque _ _ | .list _, .variant _ _
  | .deque _ _, .int _ | .deque _ _, .bool _ | .deque _ _, .blob _ | .deque _ _, .list _ | .deque _ _, .variant _ _
  | .variant _ _, .int _ | .variant _ _, .bool _ | .variant _ _, .blob _ | .variant _ _, .list _ | .variant _ _, .deque _ _ => by
    simp [Val.cmp, Val.rank, cmpNat, Ordering.swap]
theorem Val.cmpList_swap : ∀ as bs : List Val, Val.cmpList as bs = (Val.cmpList bs as).swap
  | [], [] => rfl
  | [], _ :: _ => rfl
  | _ :: _, [] => rfl
  | a :: as, b :: bs => by
    simp only [Val.cmpList]
    exact then_swap _ _ _ _ (Val.cmp_swap a b) (Val.cmpList_swap as bs)
end

end Borsh

namespace Borsh

theorem cmp_lt_rank (a b : Val) (h : Val.cmp a b = .lt) : a.rank ≤ b.rank := by
  by_cases hr : a.rank = b.rank
  · omega
  · rw [cmp_of_rank_ne a b hr] at h
    have := cmpNat_lt.mp h; omega

theorem then_lt {o₁ o₂ : Ordering} :
    (match o₁ with | .lt => Ordering.lt | .gt => .gt | .eq => o₂) = .lt ↔ o₁ = .lt ∨ (o₁ = .eq ∧ o₂ = .lt) := by
  cases o₁ <;> simp

theorem then_eq {o₁ o₂ : Ordering} :
    (match o₁ with | .lt => Ordering.lt | .gt => .gt | .eq => o₂) = .eq ↔ o₁ = .eq ∧ o₂ = .eq := by
  cases o₁ <;> simp

theorem intCmp_lt {x y : Int} : (if x < y then Ordering.lt else if y < x then .gt else .eq) = .lt ↔ x < y := by
  by_cases h1 : x < y
  · simp [h1]
  · by_cases h2 : y < x <;> simp [h1, h2]

theorem intCmp_eq {x y : Int} : (if x < y then Ordering.lt else if y < x then .gt else .eq) = .eq ↔ x = y := by
  by_cases h1 : x < y
  · simp [h1]; omega
  · by_cases h2 : y < x
    · simp [h1, h2]; omega
    · simp [h1, h2]; omega

mutual
theorem Val.cmp_eq : ∀ a b : Val, Val.cmp a b = .eq ↔ a = b
  | .int x, .int y => by simp only [Val.cmp, intCmp_eq]; constructor <;> intro h <;> first | rw [h] | (injection h)
  | .bool x, .bool y => by
    simp only [Val.cmp, cmpNat_eq]
    cases x <;> cases y <;> simp
  | .blob x, .blob y => by simp only [Val.cmp, cmpBytes_eq]; constructor <;> intro h <;> first | rw [h] | (injection h)
  | .list x, .list y => by
    simp only [Val.cmp, Val.cmpList_eq x y]; constructor <;> intro h <;> first | rw [h] | (injection h)
  | .deque a b, .deque c d => by
    simp only [Val.cmp]
    refine (then_eq (o₁ := Val.cmpList a c) (o₂ := Val.cmpList b d)).trans ?_
    rw [Val.cmpList_eq a c, Val.cmpList_eq b d]
    constructor
    · intro h; rw [h.1, h.2]
    · intro h; injection h with h1 h2; exact ⟨h1, h2⟩
  | .variant i x, .variant j y => by
    simp only [Val.cmp]
    refine (then_eq (o₁ := cmpNat i j) (o₂ := Val.cmpList x y)).trans ?_
    rw [cmpNat_eq, Val.cmpList_eq x y]
    constructor
    · intro h; rw [h.1, h.2]
    · intro h; injection h with h1 h2; exact ⟨h1, h2⟩
  | .int _, .bool _ | .int _, .blob _ | .int _, .list _ | .int _, .deque _ _ | .int _, .variant _ _
  | .bool _, .int _ | .bool _, .blob _ | .bool _, .list _ | .bool _, .deque _ _ | .bool _, .variant _ _
  | .blob _, .int _ | .blob _, .bool _ | .blob _, .list _ | .blob _, .deque _ _ | .blob _, .variant _ _
  | .list _, .int _ | .list _, .bool _ | .list _, .blob _ | .list _, .deque _ _ | .list _, .variant _ _
  | .deque _ _, .int _ | .deque _ _, .bool _ | .deque _ _, .blob _ | .deque _ _, .list _ | .deque _ _, .variant _ _
  | .variant _ _, .int _ | .variant _ _, .bool _ | .variant _ _, .blob _ | .variant _ _, .list _ | .variant _ _, .deque _ _ => by
    simp [Val.cmp, Val.rank, cmpNat]
theorem Val.cmpList_eq : ∀ as bs : List Val, Val.cmpList as bs = .eq ↔ as = bs
  | [], [] => by simp [Val.cmpList]
  | [], _ :: _ => by simp [Val.cmpList]
  | _ :: _, [] => by simp [Val.cmpList]
  | a :: as, b :: bs => by
    simp only [Val.cmpList]
    refine (then_eq (o₁ := Val.cmp a b) (o₂ := Val.cmpList as bs)).trans ?_
    rw [Val.cmp_eq a b, Val.cmpList_eq as bs]
    constructor
    · intro h; rw [h.1, h.2]
    · intro h; injection h with h1 h2; exact ⟨h1, h2⟩
end

end Borsh

namespace Borsh

theorem cmp_trans_mixed (a b c : Val) (hne : ¬ (a.rank = b.rank ∧ b.rank = c.rank))
    (h1 : Val.cmp a b = .lt) (h2 : Val.cmp b c = .lt) : Val.cmp a c = .lt := by
  have r1 := cmp_lt_rank a b h1
  have r2 := cmp_lt_rank b c h2
  have hr : a.rank ≠ c.rank := by omega
  rw [cmp_of_rank_ne a c hr]
  exact cmpNat_lt.mpr (by omega)

/-- lexicographic combination is transitive when both components are, and the first is a
total order with `eq` meaning equality -/
theorem then_trans {α β : Type} (f : α → α → Ordering) (g : β → β → Ordering)
    (a₁ a₂ a₃ : α) (b₁ b₂ b₃ : β)
    (ft : f a₁ a₂ = .lt → f a₂ a₃ = .lt → f a₁ a₃ = .lt)
    (fe12 : f a₁ a₂ = .eq → a₁ = a₂) (fe23 : f a₂ a₃ = .eq → a₂ = a₃)
    (gt : g b₁ b₂ = .lt → g b₂ b₃ = .lt → g b₁ b₃ = .lt)
    (h1 : (match f a₁ a₂ with | .lt => Ordering.lt | .gt => .gt | .eq => g b₁ b₂) = .lt)
    (h2 : (match f a₂ a₃ with | .lt => Ordering.lt | .gt => .gt | .eq => g b₂ b₃) = .lt) :
    (match f a₁ a₃ with | .lt => Ordering.lt | .gt => .gt | .eq => g b₁ b₃) = .lt := by
  rw [then_lt] at h1 h2 ⊢
  rcases h1 with h1 | ⟨e1, h1⟩ <;> rcases h2 with h2 | ⟨e2, h2⟩
  · left; exact ft h1 h2
  · left; have := fe23 e2; subst this; exact h1
  · left; have := fe12 e1; subst this; exact h2
  · right
    have e12 := fe12 e1; have e23 := fe23 e2
    subst e12 e23
    exact ⟨e1, gt h1 h2⟩

mutual
theorem Val.cmp_trans (a b c : Val) (h1 : Val.cmp a b = .lt) (h2 : Val.cmp b c = .lt) :
    Val.cmp a c = .lt := by
  by_cases hr : a.rank = b.rank ∧ b.rank = c.rank
  · cases a <;> cases b <;> cases c <;> simp [Val.rank] at hr
    case int.int.int x y z =>
      simp only [Val.cmp, intCmp_lt] at *; omega
    case bool.bool.bool x y z =>
      simp only [Val.cmp, cmpNat_lt] at *; omega
    case blob.blob.blob x y z =>
      simp only [Val.cmp] at *; exact cmpBytes_trans x y z h1 h2
    case list.list.list x y z =>
      simp only [Val.cmp] at *; exact Val.cmpList_trans x y z h1 h2
    case deque.deque.deque a b c d e f =>
      simp only [Val.cmp] at *
      exact then_trans Val.cmpList Val.cmpList a c e b d f (Val.cmpList_trans a c e)
        (Val.cmpList_eq a c).mp (Val.cmpList_eq c e).mp (Val.cmpList_trans b d f) h1 h2
    case variant.variant.variant i x j y k z =>
      simp only [Val.cmp] at *
      exact then_trans cmpNat Val.cmpList i j k x y z
        (fun p q => cmpNat_lt.mpr (by have := cmpNat_lt.mp p; have := cmpNat_lt.mp q; omega))
        cmpNat_eq.mp cmpNat_eq.mp (Val.cmpList_trans x y z) h1 h2
  · exact cmp_trans_mixed a b c hr h1 h2
termination_by sizeOf a
theorem Val.cmpList_trans (as bs cs : List Val) (h1 : Val.cmpList as bs = .lt) (h2 : Val.cmpList bs cs = .lt) :
    Val.cmpList as cs = .lt := by
  match as, bs, cs with
  | [], [], _ => simp [Val.cmpList] at h1
  | [], _ :: _, [] => simp [Val.cmpList] at h2
  | [], _ :: _, _ :: _ => simp [Val.cmpList]
  | _ :: _, [], _ => simp [Val.cmpList] at h1
  | _ :: _, _ :: _, [] => simp [Val.cmpList] at h2
  | a :: as, b :: bs, c :: cs =>
    simp only [Val.cmpList] at *
    exact then_trans Val.cmp Val.cmpList a b c as bs cs (Val.cmp_trans a b c)
      (Val.cmp_eq a b).mp (Val.cmp_eq b c).mp (Val.cmpList_trans as bs cs) h1 h2
termination_by sizeOf as
end

end Borsh
