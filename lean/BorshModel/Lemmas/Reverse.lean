/-
  The converse of the round trip, in strict mode: whatever the slice decoder accepts is the
  encoding of the value it returns (and that value is well typed).  Together with the round trip
  this makes strict-mode decoding a bijection between accepted byte strings and canonical values.
-/
import BorshModel.Lemmas.Leaf
import BorshModel.Lemmas.SortLaws
import BorshModel.Lemmas.Induct
namespace Borsh

/-! ### inversion of the slice reads -/

theorem readMapped_inv {n : Nat} {bs r rest : Bytes}
    (h : readMapped Rd.slice n bs = .ok (r, rest)) : r.length = n ∧ r ++ rest = bs := by
  unfold readMapped at h
  rw [Out.mapErr_eq_ok_iff, slice_readExact] at h
  split at h
  · rename_i hn
    simp only [Out.ok.injEq, Prod.mk.injEq] at h
    obtain ⟨rfl, rfl⟩ := h
    exact ⟨by simp [hn], List.take_append_drop n bs⟩
  · simp at h

theorem readU8_inv {bs rest : Bytes} {b : UInt8}
    (h : readU8 Rd.slice bs = .ok (b, rest)) : bs = b :: rest := by
  unfold readU8 at h
  obtain ⟨⟨r, s⟩, h1, h2⟩ := Out.bind_eq_ok_iff.mp h
  obtain ⟨hl, hb⟩ := readMapped_inv h1
  match r, hl, h2 with
  | [c], _, h2 =>
    simp only [Out.ok.injEq, Prod.mk.injEq] at h2
    obtain ⟨rfl, rfl⟩ := h2
    exact hb.symm

theorem readU32_inv {bs rest : Bytes} {n : Nat}
    (h : readU32 Rd.slice bs = .ok (n, rest)) : n < 2 ^ 32 ∧ u32le n ++ rest = bs := by
  unfold readU32 at h
  obtain ⟨⟨r, s⟩, h1, h2⟩ := Out.map_eq_ok_iff.mp h
  obtain ⟨hl, hb⟩ := readMapped_inv h1
  simp only [Prod.mk.injEq] at h2
  obtain ⟨rfl, rfl⟩ := h2
  constructor
  · have := ofLe_lt r; rw [hl] at this; simpa using this
  · have := leBytes_ofLe r; rw [hl] at this
    unfold u32le; rw [this]; exact hb

theorem readBulk_inv {n : Nat} {bs q rest : Bytes}
    (h : Rd.slice.readBulk n bs = .ok (q, rest)) : q.length = n ∧ q ++ rest = bs := by
  rw [slice_readBulk] at h
  split at h
  · rename_i hn
    simp only [Out.ok.injEq, Prod.mk.injEq] at h
    obtain ⟨rfl, rfl⟩ := h
    exact ⟨by simp [hn], List.take_append_drop n bs⟩
  · simp at h

theorem deByteVec_inv {bs q rest : Bytes}
    (h : deByteVec Rd.slice bs = .ok (q, rest)) :
    q.length < 2 ^ 32 ∧ u32le q.length ++ q ++ rest = bs := by
  unfold deByteVec at h
  obtain ⟨⟨n, s⟩, h1, h2⟩ := Out.bind_eq_ok_iff.mp h
  obtain ⟨hn, hb⟩ := readU32_inv h1
  dsimp only at h2
  split at h2
  · rename_i h0
    simp only [Out.ok.injEq, Prod.mk.injEq] at h2
    obtain ⟨rfl, rfl⟩ := h2
    have : n = 0 := by simpa using h0
    subst this
    simpa using hb
  · obtain ⟨hl, hq⟩ := readBulk_inv h2
    rw [hl]
    refine ⟨hn, ?_⟩
    rw [List.append_assoc, hq, hb]

/-! ### leaves -/

theorem encInt_decInt (k : IntK) (bs : Bytes) (h : bs.length = k.width) :
    intInRange k (decInt k bs) = true ∧ encInt k (decInt k bs) = bs := by
  have hlt := ofLe_lt bs
  rw [h] at hlt
  have hle := leBytes_ofLe bs
  rw [h] at hle
  unfold intInRange decInt encInt
  generalize ofLe bs = n at hlt hle
  have key : ∀ i : Int, (i % (256 ^ k.width : Int)).toNat = n →
      leBytes k.width (i % (256 ^ k.width : Int)).toNat = bs := by
    intro i hi; rw [hi]; exact hle
  cases k <;> simp only [IntK.width, IntK.signed] at hlt key ⊢ <;>
    (constructor
     · simp; try omega
     · apply key; omega)

theorem bytesVal_hasTy (q : Bytes) : (bytesVal q).all (HasTy (.int .u8)) = true := by
  rw [List.all_eq_true]
  intro v hv
  simp only [bytesVal, List.mem_map] at hv
  obtain ⟨b, _, rfl⟩ := hv
  have := UInt8.toNat_lt b
  simp only [Nat.reducePow] at this
  simp [HasTy, intInRange, IntK.signed, IntK.width]
  apply decide_eq_true
  omega

theorem valBytes_bytesVal' (q : Bytes) : valBytes (bytesVal q) = q := by
  induction q with
  | nil => rfl
  | cons b q ih =>
    simp only [bytesVal, List.map_cons, valBytes] at ih ⊢
    rw [ih]
    congr 1
    have := UInt8.toNat_lt b
    simp only [valByte]
    have h1 : ((b.toNat : Int) % 256).toNat = b.toNat := by omega
    rw [h1]; simp

/-! ### combinators -/

/-- `g` is inverted by `f` on everything it accepts, and what it returns satisfies `P` -/
def RevG (g : Bytes → Out (Val × Bytes)) (f : Val → Tr) (P : Val → Prop) : Prop :=
  ∀ bs v rest, g bs = .ok (v, rest) → P v ∧ (f v).Ok ∧ (f v).bytes ++ rest = bs

theorem repeatDe_rev {g : Bytes → Out (Val × Bytes)} {f : Val → Tr} {P : Val → Prop}
    (h : RevG g f P) : ∀ (n : Nat) (bs : Bytes) (vs : List Val) (rest : Bytes),
      repeatDe g n bs = .ok (vs, rest) →
        vs.length = n ∧ (∀ v ∈ vs, P v) ∧ (serMany f vs).Ok ∧ (serMany f vs).bytes ++ rest = bs := by
  intro n
  induction n with
  | zero =>
    intro bs vs rest hd
    simp only [repeatDe, Out.ok.injEq, Prod.mk.injEq] at hd
    obtain ⟨rfl, rfl⟩ := hd
    simp [serMany, Tr.Ok, Tr.done, Tr.bytes]
  | succ n ih =>
    intro bs vs rest hd
    simp only [repeatDe] at hd
    obtain ⟨⟨v, r1⟩, h1, h2⟩ := Out.bind_eq_ok_iff.mp hd
    obtain ⟨⟨ws, r2⟩, h3, h4⟩ := Out.bind_eq_ok_iff.mp h2
    simp only [Out.ok.injEq, Prod.mk.injEq] at h4
    obtain ⟨rfl, rfl⟩ := h4
    obtain ⟨hp, hok, hb⟩ := h bs v r1 h1
    obtain ⟨hl, hall, hoks, hbs⟩ := ih r1 ws r2 h3
    refine ⟨by simp [hl], ?_, ?_, ?_⟩
    · intro w hw
      cases List.mem_cons.mp hw with
      | inl e => rw [e]; exact hp
      | inr e => exact hall w e
    · simp only [serMany]; exact Tr.andThen_ok.mpr ⟨hok, hoks⟩
    · simp only [serMany]
      rw [Tr.andThen_bytes hok, List.append_assoc, hbs, hb]

/-- `Vec<T>` of a non-byte element decoder -/
theorem deVec_rev_gen {g : Bytes → Out (Val × Bytes)} {f : Val → Tr} {P : Val → Prop}
    (h : RevG g f P) {bs rest : Bytes} {vs : List Val}
    (hd : deVec Rd.slice false g bs = .ok (vs, rest)) :
    vs.length < 2 ^ 32 ∧ (∀ v ∈ vs, P v) ∧ (serMany f vs).Ok ∧
      u32le vs.length ++ (serMany f vs).bytes ++ rest = bs := by
  unfold deVec at hd
  obtain ⟨⟨n, s⟩, h1, h2⟩ := Out.bind_eq_ok_iff.mp hd
  obtain ⟨hn, hb⟩ := readU32_inv h1
  dsimp only at h2
  split at h2
  · rename_i h0
    simp only [Out.ok.injEq, Prod.mk.injEq] at h2
    obtain ⟨rfl, rfl⟩ := h2
    have : n = 0 := by simpa using h0
    subst this
    simp [serMany, Tr.Ok, Tr.done, Tr.bytes]
    simpa using hb
  · simp only [Bool.false_eq_true, if_false] at h2
    obtain ⟨hl, hall, hok, hbs⟩ := repeatDe_rev h n s vs rest h2
    rw [hl]
    refine ⟨hn, hall, hok, ?_⟩
    rw [List.append_assoc, hbs, hb]

theorem serMany_u8_bytesVal (q : Bytes) :
    (serMany (ser (.int .u8)) (bytesVal q)).Ok ∧ (serMany (ser (.int .u8)) (bytesVal q)).bytes = q := by
  induction q with
  | nil => simp [bytesVal, serMany, Tr.Ok, Tr.done, Tr.bytes]
  | cons b q ih =>
    have hb := UInt8.toNat_lt b
    simp only [Nat.reducePow] at hb
    have he : ser (.int .u8) (Val.int (b.toNat : Int)) = Tr.emit [b] := by
      simp only [ser, encInt, IntK.width]
      have h1 : ((b.toNat : Int) % (256 ^ 1 : Int)).toNat = b.toNat := by omega
      rw [h1]
      simp [leBytes, Nat.mod_eq_of_lt hb]
    have hok : (ser (.int .u8) (Val.int (b.toNat : Int))).Ok := by rw [he]; rfl
    simp only [bytesVal, List.map_cons, serMany] at ih ⊢
    refine ⟨Tr.andThen_ok.mpr ⟨hok, ih.1⟩, ?_⟩
    rw [Tr.andThen_bytes hok, ih.2, he]
    rfl

/-- the statement proved by induction over the universe (strict mode) -/
def Rev (t : Ty) : Prop :=
  RevG (de Rd.slice true t) (ser t) (fun v => HasTy t v = true)
def RevF (fs : List Field) : Prop :=
  ∀ bs vs rest, deFields Rd.slice true fs bs = .ok (vs, rest) →
    HasTyFields fs vs = true ∧ (serFields fs vs).Ok ∧ (serFields fs vs).bytes ++ rest = bs
def RevV (vs : List Variant) : Prop :=
  ∀ tk tag idx0 bs v rest, deVariants Rd.slice true tk vs tag idx0 bs = .ok (v, rest) →
    ∃ idx fvs, v = .variant (idx0 + idx) fvs ∧ HasTyVariant vs idx fvs = true ∧
      (serVariant vs idx fvs).Ok ∧ (serVariant vs idx fvs).bytes ++ rest = tag :: bs

/-- `Vec<T>` with the byte fast path: either way the elements are well typed, re-encode to the
consumed bytes, and for `u8` the bulk write `valBytes` is the same bytes -/
theorem deVec_rev (t : Ty) (ih : Rev t) {bs rest : Bytes} {vs : List Val}
    (hd : deVec Rd.slice t.isU8 (de Rd.slice true t) bs = .ok (vs, rest)) :
    vs.length < 2 ^ 32 ∧ vs.all (HasTy t) = true ∧ (serMany (ser t) vs).Ok ∧
      u32le vs.length ++ (serMany (ser t) vs).bytes ++ rest = bs ∧
      (t.isU8 = true → valBytes vs = (serMany (ser t) vs).bytes) := by
  cases hu : t.isU8 with
  | false =>
    rw [hu] at hd
    obtain ⟨hl, hall, hok, hb⟩ := deVec_rev_gen ih hd
    exact ⟨hl, List.all_eq_true.mpr hall, hok, hb, by simp⟩
  | true =>
    have ht : t = .int .u8 := by
      cases t <;> simp [Ty.isU8] at hu
      rename_i k; cases k <;> simp at hu; rfl
    subst ht
    unfold deVec at hd
    obtain ⟨⟨n, s⟩, h1, h2⟩ := Out.bind_eq_ok_iff.mp hd
    obtain ⟨hn, hb⟩ := readU32_inv h1
    dsimp only at h2
    split at h2
    · rename_i h0
      simp only [Out.ok.injEq, Prod.mk.injEq] at h2
      obtain ⟨rfl, rfl⟩ := h2
      have : n = 0 := by simpa using h0
      subst this
      simp [serMany, Tr.Ok, Tr.done, Tr.bytes, valBytes]
      simpa using hb
    · obtain ⟨⟨q, r⟩, h3, h4⟩ := Out.map_eq_ok_iff.mp h2
      simp only [Prod.mk.injEq] at h4
      obtain ⟨rfl, rfl⟩ := h4
      obtain ⟨hl, hq⟩ := readBulk_inv h3
      obtain ⟨hok, hbytes⟩ := serMany_u8_bytesVal q
      have hlen : (bytesVal q).length = n := by simp [bytesVal, hl]
      refine ⟨by rw [hlen]; exact hn, bytesVal_hasTy q, hok, ?_, ?_⟩
      · rw [hlen, hbytes, List.append_assoc, hq, hb]
      · intro _; rw [hbytes, valBytes_bytesVal']

end Borsh
