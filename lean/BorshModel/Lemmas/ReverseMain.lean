/- The converse round trip for every type of `revTy` (strict mode): cases and assembly. -/
import BorshModel.Lemmas.Reverse
import BorshModel.Canon
namespace Borsh

theorem emit_ok (bs : Bytes) : (Tr.emit bs).Ok := rfl
theorem emit_bytes (bs : Bytes) : (Tr.emit bs).bytes = bs := by simp [Tr.emit, Tr.bytes]

theorem rev_int (k : IntK) : Rev (.int k) := by
  intro bs v rest h
  simp only [de] at h
  obtain ⟨⟨r, s⟩, h1, h2⟩ := Out.map_eq_ok_iff.mp h
  simp only [Prod.mk.injEq] at h2
  obtain ⟨rfl, rfl⟩ := h2
  obtain ⟨hl, hb⟩ := readMapped_inv h1
  obtain ⟨hr, he⟩ := encInt_decInt k r hl
  simp only [HasTy, ser, he]
  exact ⟨hr, emit_ok _, by rw [emit_bytes]; exact hb⟩

theorem rev_nonzero (k : IntK) : Rev (.nonzero k) := by
  intro bs v rest h
  simp only [de] at h
  obtain ⟨⟨r, s⟩, h1, h2⟩ := Out.bind_eq_ok_iff.mp h
  obtain ⟨hl, hb⟩ := readMapped_inv h1
  obtain ⟨hr, he⟩ := encInt_decInt k r hl
  dsimp only at h2
  split at h2
  · simp at h2
  · rename_i hz
    simp only [Out.ok.injEq, Prod.mk.injEq] at h2
    obtain ⟨rfl, rfl⟩ := h2
    simp only [HasTy, ser, he, hr, Bool.true_and]
    refine ⟨by simpa using hz, emit_ok _, by rw [emit_bytes]; exact hb⟩

theorem rev_float (k : FloatK) : Rev (.float k) := by
  intro bs v rest h
  simp only [de] at h
  obtain ⟨⟨r, s⟩, h1, h2⟩ := Out.bind_eq_ok_iff.mp h
  obtain ⟨hl, hb⟩ := readMapped_inv h1
  dsimp only at h2
  split at h2
  · simp at h2
  · rename_i hnan
    simp only [Out.ok.injEq, Prod.mk.injEq] at h2
    obtain ⟨rfl, rfl⟩ := h2
    have hlt := ofLe_lt r
    rw [hl] at hlt
    have hle := leBytes_ofLe r
    rw [hl] at hle
    generalize ofLe r = n at hlt hle hnan
    have hs : ser (.float k) (.int (n : Int)) = Tr.emit r := by
      simp only [ser, Int.toNat_natCast]
      rw [if_neg hnan, hle]
    have ht : HasTy (.float k) (.int (n : Int)) = true := by
      simp only [HasTy, Bool.and_eq_true, decide_eq_true_eq]
      refine ⟨Int.natCast_nonneg n, ?_⟩
      cases k <;> simp only [FloatK.width, Nat.reducePow] at hlt <;>
        simp only [FloatK.width, Int.reducePow] <;> omega
    rw [hs]
    exact ⟨ht, emit_ok _, by rw [emit_bytes]; exact hb⟩

theorem rev_bool : Rev .bool := by
  intro bs v rest h
  simp only [de] at h
  obtain ⟨⟨b, s⟩, h1, h2⟩ := Out.bind_eq_ok_iff.mp h
  have hb := readU8_inv h1
  dsimp only at h2
  split at h2
  · rename_i h0
    simp only [Out.ok.injEq, Prod.mk.injEq] at h2
    obtain ⟨rfl, rfl⟩ := h2
    have : b = 0 := by simpa using h0
    subst this
    simp [HasTy, ser, emit_ok, emit_bytes, hb]
  · split at h2
    · rename_i h1'
      simp only [Out.ok.injEq, Prod.mk.injEq] at h2
      obtain ⟨rfl, rfl⟩ := h2
      have : b = 1 := by simpa using h1'
      subst this
      simp [HasTy, ser, emit_ok, emit_bytes, hb]
    · simp at h2

theorem rev_str (k : StrK) : Rev (.str k) := by
  intro bs v rest h
  simp only [de] at h
  obtain ⟨⟨q, s⟩, h1, h2⟩ := Out.bind_eq_ok_iff.mp h
  obtain ⟨hl, hb⟩ := deByteVec_inv h1
  have hser : (ser (.str k) (.blob q)).Ok ∧ (ser (.str k) (.blob q)).bytes ++ s = bs := by
    simp only [ser]
    have hok : (serLen q.length).Ok := serLen_ok.mpr hl
    refine ⟨Tr.andThen_ok.mpr ⟨hok, emit_ok _⟩, ?_⟩
    rw [Tr.andThen_bytes hok, serLen_bytes hl, emit_bytes]; exact hb
  dsimp only at h2
  split at h2
  · rename_i hk
    split at h2
    · rename_i ha
      simp only [Out.ok.injEq, Prod.mk.injEq] at h2
      obtain ⟨rfl, rfl⟩ := h2
      exact ⟨by simp [HasTy, hk, ha], hser⟩
    · simp at h2
  · rename_i hk
    split at h2
    · rename_i ha
      simp only [Out.ok.injEq, Prod.mk.injEq] at h2
      obtain ⟨rfl, rfl⟩ := h2
      exact ⟨by simp [HasTy, hk, ha], hser⟩
    · simp at h2

theorem rev_asciiChar : Rev .asciiChar := by
  intro bs v rest h
  simp only [de] at h
  obtain ⟨⟨b, s⟩, h1, h2⟩ := Out.bind_eq_ok_iff.mp h
  have hb := readU8_inv h1
  dsimp only at h2
  split at h2
  · rename_i hlt
    simp only [Out.ok.injEq, Prod.mk.injEq] at h2
    obtain ⟨rfl, rfl⟩ := h2
    have hlt' : b.toNat < 128 := by simpa [UInt8.lt_iff_toNat_lt] using hlt
    simp only [HasTy, ser, Int.toNat_natCast, UInt8.ofNat_toNat]
    refine ⟨?_, emit_ok _, by rw [emit_bytes]; exact hb.symm⟩
    simp only [Bool.and_eq_true, decide_eq_true_eq]
    omega
  · simp at h2

theorem rev_raw (k : RawK) : Rev (.raw k) := by
  intro bs v rest h
  simp only [de] at h
  obtain ⟨⟨r, s⟩, h1, h2⟩ := Out.map_eq_ok_iff.mp h
  simp only [Prod.mk.injEq] at h2
  obtain ⟨rfl, rfl⟩ := h2
  obtain ⟨hl, hb⟩ := readMapped_inv h1
  simp only [HasTy, ser]
  exact ⟨by simp [hl], emit_ok _, by rw [emit_bytes]; exact hb⟩

theorem rev_custom (t : Ty) (hw : t.isU32 = true) : Rev (.custom t) := by
  intro bs v rest h
  have ht : t = .int .u32 := by
    cases t <;> simp [Ty.isU32] at hw
    rename_i k; cases k <;> simp at hw; rfl
  subst ht
  simp only [de] at h
  obtain ⟨⟨r, s⟩, h1, h2⟩ := Out.map_eq_ok_iff.mp h
  simp only [Prod.mk.injEq] at h2
  obtain ⟨rfl, rfl⟩ := h2
  obtain ⟨hl, hb⟩ := readMapped_inv h1
  have hlr : r.reverse.length = 4 := by simp [hl]
  have hlt := ofLe_lt r.reverse
  rw [hlr] at hlt
  have hle := leBytes_ofLe r.reverse
  rw [hlr] at hle
  simp only [Nat.reducePow] at hlt
  generalize ofLe r.reverse = n at hlt hle
  have hm : ((n : Int) % 2 ^ 32).toNat = n := by
    simp only [Int.reducePow]; omega
  have hs : ser (.custom (.int .u32)) (.int (n : Int)) = Tr.emit r := by
    simp only [ser, hm, hle, List.reverse_reverse]
  have ht : HasTy (.custom (.int .u32)) (.int (n : Int)) = true := by
    simp only [HasTy, intInRange, IntK.signed, IntK.width, Bool.false_eq_true, if_false,
      Bool.and_eq_true, decide_eq_true_eq]
    refine ⟨Int.natCast_nonneg n, decide_eq_true ?_⟩
    simp only [Int.reducePow]; omega
  rw [hs]
  exact ⟨ht, emit_ok _, by rw [emit_bytes]; exact hb⟩

/-! ### sequences -/

theorem ser_u8_byte (b : UInt8) : ser (.int .u8) (Val.int (b.toNat : Int)) = Tr.emit [b] := by
  have hb := UInt8.toNat_lt b
  simp only [Nat.reducePow] at hb
  simp only [ser, encInt, IntK.width]
  have h1 : ((b.toNat : Int) % (256 ^ 1 : Int)).toNat = b.toNat := by omega
  rw [h1]
  simp [leBytes, Nat.mod_eq_of_lt hb]

theorem done_ok : Tr.done.Ok := rfl
theorem done_bytes : Tr.done.bytes = [] := rfl

/-- the payload of a byte-capable sequence serializer: bulk write or element loop, same bytes -/
theorem payload_rev (t : Ty) (vs : List Val) (hok : (serMany (ser t) vs).Ok)
    (hu : t.isU8 = true → valBytes vs = (serMany (ser t) vs).bytes) :
    (if t.isU8 then Tr.emit (valBytes vs) else serMany (ser t) vs).Ok ∧
    (if t.isU8 then Tr.emit (valBytes vs) else serMany (ser t) vs).bytes = (serMany (ser t) vs).bytes := by
  cases h : t.isU8 with
  | false => simp [hok]
  | true => simp only [if_true]; exact ⟨emit_ok _, by rw [emit_bytes]; exact hu h⟩

theorem payload_nil (t : Ty) :
    (if t.isU8 then Tr.emit (valBytes []) else serMany (ser t) []).Ok ∧
    (if t.isU8 then Tr.emit (valBytes []) else serMany (ser t) []).bytes = [] := by
  cases t.isU8 <;> simp [valBytes, serMany, emit_ok, emit_bytes, done_ok, done_bytes]

theorem readU8val_rev :
    RevG (fun s => (readU8 Rd.slice s).map fun b => (Val.int b.1.toNat, b.2)) (ser (.int .u8))
      (fun v => HasTy (.int .u8) v = true) := by
  intro bs v rest h
  obtain ⟨⟨b, s⟩, h1, h2⟩ := Out.map_eq_ok_iff.mp h
  simp only [Prod.mk.injEq] at h2
  obtain ⟨rfl, rfl⟩ := h2
  have hb := readU8_inv h1
  have := bytesVal_hasTy [b]
  simp only [bytesVal, List.map_cons, List.map_nil, List.all_cons, List.all_nil, Bool.and_true] at this
  rw [ser_u8_byte]
  exact ⟨this, emit_ok _, by rw [emit_bytes]; exact hb.symm⟩

theorem rev_seq (k : SeqK) (t : Ty) (hk : k ≠ .indexSet) (hw : WfTy (.seq k t) = true)
    (ih : Rev t) : Rev (.seq k t) := by
  intro bs v rest h
  cases k
  case indexSet => exact absurd rfl hk
  case bytesMut =>
    have hu : t.isU8 = true := by
      simp only [WfTy, SeqK.isBytes, Bool.and_eq_true, if_true] at hw; exact hw.2
    have ht : t = .int .u8 := by
      cases t <;> simp [Ty.isU8] at hu
      rename_i k; cases k <;> simp at hu; rfl
    subst ht
    simp only [de] at h
    obtain ⟨⟨n, s⟩, h1, h2⟩ := Out.bind_eq_ok_iff.mp h
    obtain ⟨hn, hb⟩ := readU32_inv h1
    obtain ⟨⟨vs, r⟩, h3, h4⟩ := Out.map_eq_ok_iff.mp h2
    simp only [Prod.mk.injEq] at h4
    obtain ⟨rfl, rfl⟩ := h4
    obtain ⟨hl, hall, hok, hbs⟩ := repeatDe_rev readU8val_rev n s vs r h3
    have hvb : valBytes vs = (serMany (ser (.int .u8)) vs).bytes := by
      have e := valBytes_bytesVal vs hall
      have := (serMany_u8_bytesVal (valBytes vs)).2
      rw [e] at this; exact this.symm
    have hlen : (serLen vs.length).Ok := serLen_ok.mpr (by rw [hl]; exact hn)
    refine ⟨?_, ?_, ?_⟩
    · simp only [HasTy, Bool.and_eq_true]
      exact ⟨⟨by decide, List.all_eq_true.mpr hall⟩, by simp⟩
    · simp only [ser, SeqK.serChecksZst, SeqK.noFastPath, Ty.isU8, Bool.false_and,
        Bool.false_eq_true, if_false, if_true]
      exact Tr.andThen_ok.mpr ⟨hlen, emit_ok _⟩
    · simp only [ser, SeqK.serChecksZst, SeqK.noFastPath, Ty.isU8, Bool.false_and,
        Bool.false_eq_true, if_false, if_true]
      rw [Tr.andThen_bytes hlen, serLen_bytes (by rw [hl]; exact hn), emit_bytes, hvb, hl,
        List.append_assoc, hbs, hb]
  case vecDeque =>
    simp only [de] at h
    split at h
    · simp at h
    · rename_i hz
      have hz' : memZero t = false := by simpa using hz
      obtain ⟨⟨vs, r⟩, hd, h2⟩ := Out.map_eq_ok_iff.mp h
      simp only [Prod.mk.injEq] at h2
      obtain ⟨rfl, rfl⟩ := h2
      obtain ⟨hl, hall, hok, hb, hu⟩ := deVec_rev t ih hd
      have hlen : (serLen (vs.length + ([] : List Val).length)).Ok := serLen_ok.mpr (by simpa using hl)
      obtain ⟨pok, pb⟩ := payload_rev t vs hok hu
      obtain ⟨nok, nb⟩ := payload_nil t
      refine ⟨by simp [HasTy, hall], ?_, ?_⟩
      · simp only [ser, hz', Bool.false_eq_true, if_false]
        exact Tr.andThen_ok.mpr ⟨Tr.andThen_ok.mpr ⟨hlen, pok⟩, nok⟩
      · simp only [ser, hz', Bool.false_eq_true, if_false]
        rw [Tr.andThen_bytes (Tr.andThen_ok.mpr ⟨hlen, pok⟩), Tr.andThen_bytes hlen, nb, pb,
          serLen_bytes (by simpa using hl)]
        simpa using hb
  all_goals
    simp only [de] at h
    split at h
    · simp at h
    · rename_i hz
      have hz' : memZero t = false := by simpa using hz
      obtain ⟨⟨vs, r⟩, hd, h2⟩ := Out.map_eq_ok_iff.mp h
      simp only [Prod.mk.injEq] at h2
      obtain ⟨rfl, rfl⟩ := h2
      obtain ⟨hl, hall, hok, hb, hu⟩ := deVec_rev t ih hd
      have hlen : (serLen vs.length).Ok := serLen_ok.mpr hl
      obtain ⟨pok, pb⟩ := payload_rev t vs hok hu
      refine ⟨by simp [HasTy, hall], ?_, ?_⟩
      · simp only [ser, SeqK.serChecksZst, SeqK.noFastPath, hz', Bool.and_false, Bool.false_and,
          Bool.false_eq_true, if_false, if_true]
        first
          | exact Tr.andThen_ok.mpr ⟨hlen, pok⟩
          | exact Tr.andThen_ok.mpr ⟨hlen, hok⟩
      · simp only [ser, SeqK.serChecksZst, SeqK.noFastPath, hz', Bool.and_false, Bool.false_and,
          Bool.false_eq_true, if_false, if_true]
        rw [Tr.andThen_bytes hlen, serLen_bytes hl]
        first
          | (rw [pb]; exact hb)
          | exact hb

/-! ### keyed collections (strict mode: the input order was checked) -/

theorem sa_distinct (key : Val → Val) : ∀ l : List Val, strictlyAscending key l = true →
    distinctKeys key l = true := by
  intro l
  induction l with
  | nil => intro _; rfl
  | cons a l ih =>
    intro h
    rw [distinctKeys_cons]
    refine ⟨?_, ih (sa_tail key h)⟩
    intro y hy
    have := sa_all_lt key l a h y hy
    simp only [keyLt, beq_iff_eq] at this
    rw [this]; decide

theorem rev_set (k : SetK) (t : Ty) (ih : Rev t) : Rev (.set k t) := by
  intro bs v rest h
  simp only [de] at h
  split at h
  · simp at h
  · rename_i hz
    have hz' : memZero t = false := by simpa using hz
    obtain ⟨⟨vs, r⟩, hd, h2⟩ := Out.bind_eq_ok_iff.mp h
    obtain ⟨hl, hall, hok, hb, _⟩ := deVec_rev t ih hd
    dsimp only at h2
    split at h2
    · simp at h2
    · rename_i hsa
      have hsa' : strictlyAscending id vs = true := by simpa using hsa
      simp only [Out.ok.injEq, Prod.mk.injEq] at h2
      obtain ⟨rfl, rfl⟩ := h2
      rw [collectSet_of_sa vs hsa']
      have hlen : (serLen vs.length).Ok := serLen_ok.mpr hl
      have hser : ser (.set k t) (.list vs) = serLen vs.length ▹ serMany (ser t) vs := by
        cases k <;> simp only [ser, hz', Bool.false_eq_true, if_false, sortByKey_of_sa id vs hsa']
      rw [hser]
      refine ⟨?_, Tr.andThen_ok.mpr ⟨hlen, hok⟩, ?_⟩
      · cases k <;> simp [HasTy, hall, hsa', sa_distinct id vs hsa']
      · rw [Tr.andThen_bytes hlen, serLen_bytes hl]; exact hb

theorem deEntry_rev (kt vt : Ty) (ihk : Rev kt) (ihv : Rev vt) :
    RevG (deEntry (de Rd.slice true kt) (de Rd.slice true vt)) (serEntry (ser kt) (ser vt))
      (fun e => (match e with
        | .list [a, b] => HasTy kt a && HasTy vt b
        | _ => false) = true) := by
  intro bs e rest h
  unfold deEntry at h
  obtain ⟨⟨a, r1⟩, h1, h2⟩ := Out.bind_eq_ok_iff.mp h
  obtain ⟨⟨b, r2⟩, h3, h4⟩ := Out.map_eq_ok_iff.mp h2
  simp only [Prod.mk.injEq] at h4
  obtain ⟨rfl, rfl⟩ := h4
  obtain ⟨ha, hoka, hba⟩ := ihk bs a r1 h1
  obtain ⟨hb, hokb, hbb⟩ := ihv r1 b r2 h3
  refine ⟨by simp [ha, hb], ?_, ?_⟩
  · simp only [serEntry]; exact Tr.andThen_ok.mpr ⟨hoka, hokb⟩
  · simp only [serEntry]
    rw [Tr.andThen_bytes hoka, List.append_assoc, hbb, hba]

theorem rev_map (k : MapK) (kt vt : Ty) (hk : k ≠ .indexMap) (ihk : Rev kt) (ihv : Rev vt) :
    Rev (.map k kt vt) := by
  intro bs v rest h
  simp only [de] at h
  split at h
  · simp at h
  · rename_i hz
    have hz' : memZero kt = false := by simpa using hz
    obtain ⟨⟨es, r⟩, hd, h2⟩ := Out.bind_eq_ok_iff.mp h
    obtain ⟨hl, hall, hok, hb⟩ := deVec_rev_gen (deEntry_rev kt vt ihk ihv) hd
    have hlen : (serLen es.length).Ok := serLen_ok.mpr hl
    cases k
    case indexMap => exact absurd rfl hk
    all_goals
      dsimp only at h2
      split at h2
      · simp at h2
      · rename_i hsa
        have hsa' : strictlyAscending entryKey es = true := by simpa using hsa
        simp only [Out.ok.injEq, Prod.mk.injEq] at h2
        obtain ⟨rfl, rfl⟩ := h2
        rw [collectMap_of_sa es hsa']
        refine ⟨?_, ?_, ?_⟩
        · simp only [HasTy, Bool.and_eq_true]
          exact ⟨List.all_eq_true.mpr hall, by first | exact hsa' | exact sa_distinct entryKey es hsa'⟩
        · simp only [ser, hz', Bool.false_eq_true, if_false, sortByKey_of_sa entryKey es hsa']
          exact Tr.andThen_ok.mpr ⟨hlen, hok⟩
        · simp only [ser, hz', Bool.false_eq_true, if_false, sortByKey_of_sa entryKey es hsa']
          rw [Tr.andThen_bytes hlen, serLen_bytes hl]; exact hb

/-! ### arrays, products, sums, wrappers -/

theorem rev_array (n : Nat) (t : Ty) (ih : Rev t) : Rev (.array n t) := by
  intro bs v rest h
  simp only [de] at h
  split at h
  · rename_i hu
    have ht : t = .int .u8 := by
      cases t <;> simp [Ty.isU8] at hu
      rename_i k; cases k <;> simp at hu; rfl
    subst ht
    obtain ⟨⟨q, r⟩, h1, h2⟩ := Out.map_eq_ok_iff.mp h
    simp only [Prod.mk.injEq] at h2
    obtain ⟨rfl, rfl⟩ := h2
    obtain ⟨hl, hb⟩ := readMapped_inv h1
    refine ⟨?_, ?_, ?_⟩
    · simp only [HasTy, Bool.and_eq_true, beq_iff_eq]
      exact ⟨by simp [bytesVal, hl], bytesVal_hasTy q⟩
    · simp only [ser, Ty.isU8, if_true]
      split
      · exact done_ok
      · exact emit_ok _
    · simp only [ser, Ty.isU8, if_true]
      split
      · rename_i h0
        have : n = 0 := by simpa using h0
        subst this
        have : q = [] := List.eq_nil_of_length_eq_zero hl
        subst this
        simpa [done_bytes] using hb
      · rw [emit_bytes, valBytes_bytesVal']; exact hb
  · rename_i hu
    have hu' : t.isU8 = false := by simpa using hu
    obtain ⟨⟨vs, r⟩, h1, h2⟩ := Out.map_eq_ok_iff.mp h
    simp only [Prod.mk.injEq] at h2
    obtain ⟨rfl, rfl⟩ := h2
    obtain ⟨hl, hall, hok, hb⟩ := repeatDe_rev ih n bs vs r h1
    refine ⟨?_, ?_, ?_⟩
    · simp only [HasTy, Bool.and_eq_true, beq_iff_eq]
      exact ⟨hl, List.all_eq_true.mpr hall⟩
    · simp only [ser, hu', Bool.false_eq_true, if_false]
      split
      · exact done_ok
      · exact hok
    · simp only [ser, hu', Bool.false_eq_true, if_false]
      split
      · rename_i h0
        have : n = 0 := by simpa using h0
        subst this
        have : vs = [] := List.eq_nil_of_length_eq_zero hl
        subst this
        simpa [done_bytes, serMany] using hb
      · exact hb

theorem rev_prod (k : ProdK) (fs : List Field) (hi : k.init = false) (ih : RevF fs) :
    Rev (.prod k fs) := by
  intro bs v rest h
  simp only [de, hi, Bool.false_eq_true, if_false] at h
  obtain ⟨⟨vs, r⟩, h1, h2⟩ := Out.map_eq_ok_iff.mp h
  simp only [Prod.mk.injEq] at h2
  obtain ⟨rfl, rfl⟩ := h2
  simp only [HasTy, ser]
  exact ih bs vs r h1

theorem rev_sum (k : SumK) (vs : List Variant) (hi : k.init = false) (ih : RevV vs) :
    Rev (.sum k vs) := by
  intro bs v rest h
  simp only [de, hi] at h
  obtain ⟨⟨tag, s⟩, h1, h2⟩ := Out.bind_eq_ok_iff.mp h
  have hb := readU8_inv h1
  obtain ⟨⟨w, r⟩, h3, h4⟩ := Out.map_eq_ok_iff.mp h2
  simp only [Prod.mk.injEq] at h4
  obtain ⟨rfl, rfl⟩ := h4
  obtain ⟨idx, fvs, rfl, ht, hok, hbs⟩ := ih k.tagK tag 0 s w r h3
  simp only [Nat.zero_add, initVariant, Bool.false_eq_true, if_false, HasTy, ser]
  exact ⟨ht, hok, by rw [hbs, hb]⟩

theorem rev_wrap (k : WrapK) (t : Ty) (ih : Rev t) : Rev (.wrap k t) := by
  intro bs v rest h
  simp only [de] at h
  obtain ⟨ht, hok, hb⟩ := ih bs v rest h
  have e1 : HasTy (.wrap k t) v = HasTy t v := by cases v <;> simp [HasTy]
  have e2 : ser (.wrap k t) v = ser t v := by cases v <;> simp [ser]
  show HasTy (.wrap k t) v = true ∧ _
  rw [e1, e2]
  exact ⟨ht, hok, hb⟩

theorem revf_nil : RevF [] := by
  intro bs vs rest h
  simp only [deFields, Out.ok.injEq, Prod.mk.injEq] at h
  obtain ⟨rfl, rfl⟩ := h
  simp [HasTyFields, serFields, done_ok, done_bytes]

theorem revf_cons (n : Option Name) (sk : Bool) (t : Ty) (fs : List Field)
    (ht : if sk then HasTy t (defaultOf t) = true else Rev t) (ihf : RevF fs) :
    RevF ((n, sk, t) :: fs) := by
  intro bs vs rest h
  cases sk with
  | true =>
    simp only [deFields, if_true] at h
    obtain ⟨⟨ws, r⟩, h1, h2⟩ := Out.map_eq_ok_iff.mp h
    simp only [Prod.mk.injEq] at h2
    obtain ⟨rfl, rfl⟩ := h2
    obtain ⟨hty, hok, hb⟩ := ihf bs ws r h1
    simp only [if_true] at ht
    simp only [HasTyFields, serFields, if_true, ht, hty, Bool.and_self]
    exact ⟨trivial, hok, hb⟩
  | false =>
    simp only [deFields, Bool.false_eq_true, if_false] at h ht
    obtain ⟨⟨a, r1⟩, h1, h2⟩ := Out.bind_eq_ok_iff.mp h
    obtain ⟨⟨ws, r2⟩, h3, h4⟩ := Out.map_eq_ok_iff.mp h2
    simp only [Prod.mk.injEq] at h4
    obtain ⟨rfl, rfl⟩ := h4
    obtain ⟨hta, hoka, hba⟩ := ht bs a r1 h1
    obtain ⟨hty, hok, hb⟩ := ihf r1 ws r2 h3
    simp only [HasTyFields, serFields, Bool.false_eq_true, if_false, hta, hty, Bool.and_self]
    refine ⟨trivial, Tr.andThen_ok.mpr ⟨hoka, hok⟩, ?_⟩
    rw [Tr.andThen_bytes hoka, List.append_assoc, hb, hba]

theorem revv_nil : RevV [] := by
  intro tk tag idx0 bs v rest h
  simp [deVariants] at h

theorem revv_cons (n : Name) (g : Nat) (fs : List Field) (vs : List Variant)
    (ihf : RevF fs) (ihv : RevV vs) : RevV ((n, g, fs) :: vs) := by
  intro tk tag idx0 bs v rest h
  simp only [deVariants] at h
  split at h
  · rename_i hg
    have hg' : UInt8.ofNat g = tag := by simpa using hg
    obtain ⟨⟨ws, r⟩, h1, h2⟩ := Out.map_eq_ok_iff.mp h
    simp only [Prod.mk.injEq] at h2
    obtain ⟨rfl, rfl⟩ := h2
    obtain ⟨hty, hok, hb⟩ := ihf bs ws r h1
    refine ⟨0, ws, by simp, by simpa [HasTyVariant] using hty, ?_, ?_⟩
    · simp only [serVariant]; exact Tr.andThen_ok.mpr ⟨emit_ok _, hok⟩
    · simp only [serVariant]
      rw [Tr.andThen_bytes (emit_ok _), emit_bytes, hg', List.append_assoc, hb]; rfl
  · obtain ⟨idx, fvs, hv, hty, hok, hb⟩ := ihv tk tag (idx0 + 1) bs v rest h
    refine ⟨idx + 1, fvs, by rw [hv]; congr 1; omega, by simpa [HasTyVariant] using hty, ?_, ?_⟩
    · simpa [serVariant] using hok
    · simpa [serVariant] using hb

/-- **Strict-mode decoding is injective on what it accepts**: every accepted input is the
encoding of the (well-typed) value returned, for every well-formed type of `revTy`. -/
theorem reverse_all : ∀ t : Ty, revTy t = true → WfTy t = true → Rev t := by
  apply Ty.induct (P := fun t => revTy t = true → WfTy t = true → Rev t)
    (PF := fun fs => revTyFields fs = true → WfFields fs = true → RevF fs)
    (PV := fun vs => revTyVariants vs = true → WfVariants vs = true → RevV vs)
  case h_int => intro k _ _; exact rev_int k
  case h_nonzero => intro k _ _; exact rev_nonzero k
  case h_float => intro k _ _; exact rev_float k
  case h_bool => intro _ _; exact rev_bool
  case h_str => intro k _ _; exact rev_str k
  case h_asciiChar => intro _ _; exact rev_asciiChar
  case h_raw => intro k _ _; exact rev_raw k
  case h_seq =>
    intro k t ih hr hw
    simp only [revTy, Bool.and_eq_true, bne_iff_ne, ne_eq] at hr
    have hw' := hw
    simp only [WfTy, Bool.and_eq_true] at hw'
    exact rev_seq k t hr.1 hw (ih hr.2 hw'.1.1)
  case h_set =>
    intro k t ih hr hw
    simp only [revTy] at hr
    simp only [WfTy] at hw
    exact rev_set k t (ih hr hw)
  case h_map =>
    intro k a b iha ihb hr hw
    simp only [revTy, Bool.and_eq_true, bne_iff_ne, ne_eq] at hr
    simp only [WfTy, Bool.and_eq_true] at hw
    exact rev_map k a b hr.1.1 (iha hr.1.2 hw.1) (ihb hr.2 hw.2)
  case h_array =>
    intro n t ih hr hw
    simp only [revTy] at hr
    simp only [WfTy] at hw
    exact rev_array n t (ih hr hw)
  case h_prod =>
    intro k fs ih hr hw
    simp only [revTy, Bool.and_eq_true, Bool.not_eq_eq_eq_not, Bool.not_true] at hr
    simp only [WfTy] at hw
    exact rev_prod k fs hr.1 (ih hr.2 hw)
  case h_sum =>
    intro k vs ih hr hw
    simp only [revTy, Bool.and_eq_true, Bool.not_eq_eq_eq_not, Bool.not_true] at hr
    simp only [WfTy, Bool.and_eq_true] at hw
    exact rev_sum k vs hr.1 (ih hr.2 hw.1)
  case h_wrap =>
    intro k t ih hr hw
    simp only [revTy] at hr
    simp only [WfTy] at hw
    exact rev_wrap k t (ih hr hw)
  case h_custom => intro t _ _ hw; exact rev_custom t (by simpa [WfTy] using hw)
  case h_fnil => intro _ _; exact revf_nil
  case h_fcons =>
    intro n sk t fs iht ihf hr hw
    simp only [revTyFields, Bool.and_eq_true] at hr
    simp only [WfFields, Bool.and_eq_true] at hw
    refine revf_cons n sk t fs ?_ (ihf hr.2 hw.2)
    cases sk with
    | true => simpa using hr.1
    | false => simp only [Bool.false_eq_true, if_false] at hr ⊢; exact iht hr.1 hw.1
  case h_vnil => intro _ _; exact revv_nil
  case h_vcons =>
    intro n g fs vs ihf ihv hr hw
    simp only [revTyVariants, Bool.and_eq_true] at hr
    simp only [WfVariants, Bool.and_eq_true] at hw
    exact revv_cons n g fs vs (ihf hr.1 hw.1) (ihv hr.2 hw.2)

end Borsh
