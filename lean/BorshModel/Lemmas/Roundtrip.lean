/-
  Round trip on slices for the order-free ("plain") fragment of the universe:
  whatever the serializer wrote, followed by anything, decodes to the canonical form
  of the value and leaves exactly what followed.
-/
import BorshModel.Lemmas.Leaf
import BorshModel.Lemmas.Induct
namespace Borsh

/-- `g` reads back what `f v` wrote, as `c v` -/
def Inverts (g : Bytes → Out (Val × Bytes)) (f : Val → Tr) (c : Val → Val) (v : Val) : Prop :=
  (f v).Ok → ∀ rest, g ((f v).bytes ++ rest) = .ok (c v, rest)

theorem repeatDe_serMany {g : Bytes → Out (Val × Bytes)} {f : Val → Tr} {c : Val → Val}
    (vs : List Val) (h : ∀ v ∈ vs, Inverts g f c v) (hok : (serMany f vs).Ok) (rest : Bytes) :
    repeatDe g vs.length ((serMany f vs).bytes ++ rest) = .ok (vs.map c, rest) := by
  induction vs with
  | nil => simp [serMany, repeatDe]
  | cons v vs ih =>
    simp only [serMany] at hok ⊢
    have hk := Tr.andThen_ok.mp hok
    rw [Tr.andThen_bytes hk.1, List.append_assoc]
    simp only [List.length_cons, repeatDe]
    rw [h v (by simp) hk.1]
    simp only [Out.bind_ok]
    rw [ih (fun w hw => h w (by simp [hw])) hk.2]
    simp

theorem all_of_all {p : Val → Bool} {vs : List Val} (h : vs.all p = true) : ∀ v ∈ vs, p v = true := by
  simpa using h

/-- the statement proved by induction over the universe -/
def RT (st : Bool) (t : Ty) : Prop :=
  ∀ v, HasTy t v = true → Inverts (de Rd.slice st t) (ser t) (canon t) v
def RTF (st : Bool) (fs : List Field) : Prop :=
  ∀ vs, HasTyFields fs vs = true → (serFields fs vs).Ok →
    ∀ rest, deFields Rd.slice st fs ((serFields fs vs).bytes ++ rest) = .ok (canonFields fs vs, rest)
def RTV (st : Bool) (vs : List Variant) : Prop :=
  ∀ idx fvs tk base, HasTyVariant vs idx fvs = true → (serVariant vs idx fvs).Ok →
    ∃ tag body, (serVariant vs idx fvs).bytes = tag :: body ∧ tag ∈ variantTags vs ∧
      ∀ rest, deVariants Rd.slice st tk vs tag base (body ++ rest) =
        .ok (.variant (base + idx) (canonVariant vs idx fvs), rest)

theorem u8_elems {vs : List Val} (h : vs.all (HasTy (.int .u8)) = true) :
    ∀ v ∈ vs, HasTy (.int .u8) v = true := all_of_all h

theorem isU8_eq {t : Ty} (h : t.isU8 = true) : t = .int .u8 := by
  cases t <;> simp [Ty.isU8] at h
  rename_i k; cases k <;> simp_all [Ty.isU8]

theorem canon_u8_list (vs : List Val) : vs.map (canon (.int .u8)) = vs := by
  induction vs with
  | nil => rfl
  | cons v vs ih => simp [canon, ih]

end Borsh
