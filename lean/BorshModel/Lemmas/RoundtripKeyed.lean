/-
  Round trip for the keyed collections (hash/ordered sets and maps, index sets and maps), in both
  key-order modes, and the round-trip theorem for the whole universe under `keysOk`.
-/
import BorshModel.Lemmas.RoundtripMain
import BorshModel.Lemmas.SortLaws
import BorshModel.Lemmas.CanonId
namespace Borsh

/-- generic `Vec` decode of a non-`u8` element decoder `g` that inverts `f` -/
theorem deVec_roundtrip_gen {g : Bytes → Out (Val × Bytes)} {f : Val → Tr} {c : Val → Val}
    (vs : List Val) (h : ∀ v ∈ vs, Inverts g f c v) (hok : (serMany f vs).Ok)
    (hlen : vs.length < 2 ^ 32) (rest : Bytes) :
    deVec Rd.slice false g (u32le vs.length ++ (serMany f vs).bytes ++ rest) = .ok (vs.map c, rest) := by
  unfold deVec
  rw [List.append_assoc, readU32_u32le hlen]
  simp only [Out.bind_ok]
  by_cases h0 : vs.length = 0
  · have : vs = [] := List.eq_nil_of_length_eq_zero h0
    subst this
    simp [serMany]
  · have : (vs.length == 0) = false := by simp [h0]
    simp only [this, Bool.false_eq_true, if_false]
    exact repeatDe_serMany vs h hok rest

theorem sa_map_congr (key : Val → Val) (f : Val → Val) :
    ∀ l : List Val, (∀ e ∈ l, key (f e) = key e) →
      strictlyAscending key (l.map f) = strictlyAscending key l := by
  intro l
  induction l with
  | nil => intro _; rfl
  | cons a l ih =>
    intro h
    cases l with
    | nil => rfl
    | cons b l =>
      simp only [List.map_cons] at ih ⊢
      rw [sa_cons_cons, sa_cons_cons, ih (fun e he => h e (by simp [he]))]
      simp only [keyLt, h a (by simp), h b (by simp)]

/-- the written list `S` (strictly ascending, elements are keys) reads back as itself -/
theorem rt_set_core (st : Bool) (t : Ty) (hkey : keyTy t = true) (ih : RT st t) (S : List Val)
    (hallS : S.all (HasTy t) = true) (hsa : strictlyAscending id S = true)
    (hok : (serLen S.length ▹ serMany (ser t) S).Ok) (rest : Bytes) :
    ((deVec Rd.slice t.isU8 (de Rd.slice st t) ((serLen S.length ▹ serMany (ser t) S).bytes ++ rest)).bind
      fun r => if (st && !strictlyAscending id r.1) = true then Out.err eKeyOrder
        else Out.ok (Val.list (collectSet r.1), r.2)) = .ok (.list S, rest) := by
  have hk2 := Tr.andThen_ok.mp hok
  have hlen := serLen_ok.mp hk2.1
  rw [Tr.andThen_bytes hk2.1, serLen_bytes hlen]
  have hp := seq_payload t S hallS (serMany (ser t) S) (Or.inl rfl) hk2.2
  rw [deVec_roundtrip st t ih S hallS hlen _ rest hp.1 hp.2]
  simp only [Out.bind_ok]
  have hid : S.map (canon t) = S :=
    map_id_of S (fun w hw => canon_id_all t hkey w (all_of_all hallS w hw))
  rw [hid, hsa, collectSet_of_sa S hsa]
  simp

theorem rt_set (st : Bool) (k : SetK) (t : Ty) (hkey : keyTy t = true) (ih : RT st t) :
    RT st (.set k t) := by
  intro v hv hok rest
  match v, hv with
  | .list vs, hv =>
    simp only [HasTy, Bool.and_eq_true] at hv
    obtain ⟨hall, hord⟩ := hv
    have hz : memZero t = false := by
      cases hm : memZero t with
      | false => rfl
      | true => simp [ser, hm] at hok
    simp only [ser, hz, Bool.false_eq_true, if_false] at hok ⊢
    simp only [de, hz, Bool.false_eq_true, if_false, canon]
    cases k
    · -- hash set: written in sorted order
      simp only at hok hord ⊢
      have hallS : (sortByKey id vs).all (HasTy t) = true := by
        rw [List.all_eq_true]; intro w hw
        exact all_of_all hall w ((mem_sortByKey id w vs).mp hw)
      rw [rt_set_core st t hkey ih (sortByKey id vs) hallS (sortByKey_sa id vs hord) hok rest]
      rw [map_id_of (sortByKey id vs) (fun w hw => canon_id_all t hkey w (all_of_all hallS w hw))]
    · -- ordered set: its own iteration order is ascending
      simp only at hok hord ⊢
      rw [rt_set_core st t hkey ih vs hall hord hok rest, sortByKey_of_sa id vs hord]
      rw [map_id_of vs (fun w hw => canon_id_all t hkey w (all_of_all hall w hw))]

theorem entry_shape {kt vt : Ty} {es : List Val}
    (h : es.all (fun e => match e with
      | .list [a, b] => HasTy kt a && HasTy vt b
      | _ => false) = true) :
    ∀ e ∈ es, ∃ a b, e = .list [a, b] ∧ HasTy kt a = true ∧ HasTy vt b = true := by
  intro e he
  have := all_of_all h e he
  match e, this with
  | .list [a, b], this =>
    simp only [Bool.and_eq_true] at this
    exact ⟨a, b, rfl, this.1, this.2⟩

/-- the entry decoder inverts the entry serializer, giving the canonical entry -/
theorem entry_inverts (st : Bool) (kt vt : Ty) (ihk : RT st kt) (ihv : RT st vt) (e : Val)
    (he : ∃ a b, e = .list [a, b] ∧ HasTy kt a = true ∧ HasTy vt b = true) :
    Inverts (deEntry (de Rd.slice st kt) (de Rd.slice st vt)) (serEntry (ser kt) (ser vt))
      (canonEntry (canon kt) (canon vt)) e := by
  intro hoke rest'
  obtain ⟨a, b, rfl, ha, hb⟩ := he
  simp only [serEntry, deEntry] at hoke ⊢
  have hk2 := Tr.andThen_ok.mp hoke
  rw [Tr.andThen_bytes hk2.1, List.append_assoc, ihk a ha hk2.1]
  simp only [Out.bind_ok]
  rw [ihv b hb hk2.2]
  rfl

theorem rt_map_core (st : Bool) (kt vt : Ty) (hkey : keyTy kt = true) (ihk : RT st kt) (ihv : RT st vt)
    (S : List Val)
    (hshape : ∀ e ∈ S, ∃ a b, e = .list [a, b] ∧ HasTy kt a = true ∧ HasTy vt b = true)
    (hok : (serLen S.length ▹ serMany (serEntry (ser kt) (ser vt)) S).Ok) (rest : Bytes) :
    deVec Rd.slice false (deEntry (de Rd.slice st kt) (de Rd.slice st vt))
        ((serLen S.length ▹ serMany (serEntry (ser kt) (ser vt)) S).bytes ++ rest) =
      .ok (S.map (canonEntry (canon kt) (canon vt)), rest) ∧
    (∀ e ∈ S, entryKey (canonEntry (canon kt) (canon vt) e) = entryKey e) := by
  have hk2 := Tr.andThen_ok.mp hok
  have hlen := serLen_ok.mp hk2.1
  constructor
  · rw [Tr.andThen_bytes hk2.1, serLen_bytes hlen]
    exact deVec_roundtrip_gen S (fun e he => entry_inverts st kt vt ihk ihv e (hshape e he)) hk2.2 hlen rest
  · intro e he
    obtain ⟨a, b, rfl, ha, _⟩ := hshape e he
    simp [canonEntry, entryKey, canon_id_all kt hkey a ha]

theorem distinctKeys_map_congr (key : Val → Val) (f : Val → Val) :
    ∀ l : List Val, (∀ e ∈ l, key (f e) = key e) → distinctKeys key (l.map f) = distinctKeys key l := by
  intro l
  induction l with
  | nil => intro _; rfl
  | cons x xs ihl =>
    intro hx
    simp only [List.map_cons, distinctKeys]
    rw [ihl (fun e he => hx e (by simp [he]))]
    congr 1
    rw [Bool.eq_iff_iff]
    simp only [List.all_eq_true, List.mem_map, forall_exists_index, and_imp, forall_apply_eq_imp_iff₂]
    constructor
    · intro h y hy
      have := h y hy
      rwa [hx x (by simp), hx y (by simp [hy])] at this
    · intro h y hy
      rw [hx x (by simp), hx y (by simp [hy])]
      exact h y hy

theorem rt_map (st : Bool) (k : MapK) (kt vt : Ty) (hkey : keyTy kt = true)
    (ihk : RT st kt) (ihv : RT st vt) : RT st (.map k kt vt) := by
  intro v hv hok rest
  match v, hv with
  | .list es, hv =>
    simp only [HasTy, Bool.and_eq_true] at hv
    obtain ⟨hall, hord⟩ := hv
    have hz : memZero kt = false := by
      cases hm : memZero kt with
      | false => rfl
      | true => simp [ser, hm] at hok
    simp only [ser, hz, Bool.false_eq_true, if_false] at hok ⊢
    simp only [de, hz, Bool.false_eq_true, if_false, canon]
    have hshape := entry_shape hall
    cases k
    · -- hash map: written in ascending key order
      simp only at hok hord ⊢
      have hshapeS : ∀ e ∈ sortByKey entryKey es, ∃ a b, e = .list [a, b] ∧ HasTy kt a = true ∧ HasTy vt b = true :=
        fun e he => hshape e ((mem_sortByKey entryKey e es).mp he)
      obtain ⟨h1, h2⟩ := rt_map_core st kt vt hkey ihk ihv (sortByKey entryKey es) hshapeS hok rest
      rw [h1]
      simp only [Out.bind_ok]
      have hsa := sortByKey_sa entryKey es hord
      have hsa' : strictlyAscending entryKey ((sortByKey entryKey es).map (canonEntry (canon kt) (canon vt))) = true := by
        rw [sa_map_congr entryKey _ _ h2]; exact hsa
      rw [hsa', collectMap_of_sa _ hsa']
      simp
    · -- ordered map
      simp only at hok hord ⊢
      obtain ⟨h1, h2⟩ := rt_map_core st kt vt hkey ihk ihv es hshape hok rest
      rw [h1]
      simp only [Out.bind_ok]
      have hsa' : strictlyAscending entryKey (es.map (canonEntry (canon kt) (canon vt))) = true := by
        rw [sa_map_congr entryKey _ _ h2]; exact hord
      rw [hsa', collectMap_of_sa _ hsa', sortByKey_of_sa entryKey es hord]
      simp
    · -- index map: insertion order, keys pairwise distinct
      simp only at hok hord ⊢
      obtain ⟨h1, h2⟩ := rt_map_core st kt vt hkey ihk ihv es hshape hok rest
      rw [h1]
      simp only [Out.bind_ok]
      have hd : distinctKeys entryKey (es.map (canonEntry (canon kt) (canon vt))) = true := by
        rw [distinctKeys_map_congr entryKey _ es h2]; exact hord
      rw [collectIndexMap_of_distinct _ hd]

theorem rt_indexSet (st : Bool) (t : Ty) (hkey : keyTy t = true) (hw : WfTy (.seq .indexSet t) = true)
    (ih : RT st t) : RT st (.seq .indexSet t) := by
  intro v hv hok rest
  match v, hv with
  | .list vs, hv =>
    simp only [HasTy, Bool.and_eq_true, bne_iff_ne, ne_eq, Bool.or_eq_true, not_true_eq_false,
      false_or] at hv
    obtain ⟨⟨_, hall⟩, hd⟩ := hv
    have hz : memZero t = false := by
      cases hm : memZero t with
      | false => rfl
      | true => simp [ser, hm, SeqK.serChecksZst] at hok
    simp only [ser, hz, Bool.and_false, Bool.false_eq_true, if_false, SeqK.noFastPath, if_true] at hok ⊢
    simp only [de, hz, Bool.false_eq_true, if_false, canon]
    have hk2 := Tr.andThen_ok.mp hok
    have hlen := serLen_ok.mp hk2.1
    rw [Tr.andThen_bytes hk2.1, serLen_bytes hlen]
    have hp := seq_payload t vs hall (serMany (ser t) vs) (Or.inl rfl) hk2.2
    rw [deVec_roundtrip st t ih vs hall hlen _ rest hp.1 hp.2]
    simp only [Out.map_ok]
    have hid : vs.map (canon t) = vs :=
      map_id_of vs (fun w hw => canon_id_all t hkey w (all_of_all hall w hw))
    have hd' : distinctKeys id vs = true := by simpa using hd
    rw [hid, collectIndexSet_of_distinct vs hd']

end Borsh

namespace Borsh

/-- **Round trip for every well-formed type whose set / map / index-set keys are key types.** -/
theorem roundtrip_all (st : Bool) :
    ∀ t : Ty, keysOk t = true → WfTy t = true → RT st t := by
  apply Ty.induct (P := fun t => keysOk t = true → WfTy t = true → RT st t)
    (PF := fun fs => keysOkFields fs = true → WfFields fs = true → RTF st fs)
    (PV := fun vs => keysOkVariants vs = true → WfVariants vs = true → (variantTags vs).Nodup → RTV st vs)
  case h_int => intro k _ _; exact rt_int st k
  case h_nonzero => intro k _ _; exact rt_nonzero st k
  case h_float => intro k _ _; exact rt_float st k
  case h_bool => intro _ _; exact rt_bool st
  case h_str => intro k _ _; exact rt_str st k
  case h_asciiChar => intro _ _; exact rt_asciiChar st
  case h_raw => intro k _ _; exact rt_raw st k
  case h_seq =>
    intro k t ih hp hw
    simp only [keysOk, Bool.and_eq_true, Bool.or_eq_true, bne_iff_ne, ne_eq] at hp
    have hw' := hw
    simp only [WfTy, Bool.and_eq_true] at hw'
    by_cases hk : k = .indexSet
    · subst hk
      have hkey : keyTy t = true := by
        cases hp.2 with
        | inl h => exact absurd rfl h
        | inr h => exact h
      exact rt_indexSet st t hkey hw (ih hp.1 hw'.1.1)
    · exact rt_seq st k t hk hw (ih hp.1 hw'.1.1)
  case h_set =>
    intro k t ih hp hw
    simp only [keysOk, Bool.and_eq_true] at hp
    simp only [WfTy] at hw
    exact rt_set st k t hp.2 (ih hp.1 hw)
  case h_map =>
    intro k a b iha ihb hp hw
    simp only [keysOk, Bool.and_eq_true] at hp
    simp only [WfTy, Bool.and_eq_true] at hw
    exact rt_map st k a b hp.2 (iha hp.1.1 hw.1) (ihb hp.1.2 hw.2)
  case h_array =>
    intro n t ih hp hw
    simp only [keysOk] at hp
    simp only [WfTy] at hw
    exact rt_array st n t (ih hp hw)
  case h_prod =>
    intro k fs ih hp hw
    simp only [keysOk] at hp
    simp only [WfTy] at hw
    exact rt_prod st k fs (ih hp hw)
  case h_sum =>
    intro k vs ih hp hw
    simp only [keysOk] at hp
    simp only [WfTy, Bool.and_eq_true, decide_eq_true_eq] at hw
    exact rt_sum st k vs (ih hp hw.1 hw.2)
  case h_wrap =>
    intro k t ih hp hw
    simp only [keysOk] at hp
    simp only [WfTy] at hw
    exact rt_wrap st k t (ih hp hw)
  case h_custom => intro t _ _ hw; exact rt_custom st t hw
  case h_fnil => intro _ _; exact rtf_nil st
  case h_fcons =>
    intro n sk t fs iht ihf hp hw
    simp only [keysOkFields, Bool.and_eq_true] at hp
    simp only [WfFields, Bool.and_eq_true] at hw
    exact rtf_cons st n sk t fs (iht hp.1 hw.1) (ihf hp.2 hw.2)
  case h_vnil => intro _ _ _; exact rtv_nil st
  case h_vcons =>
    intro n g fs vs ihf ihv hp hw hnd
    simp only [keysOkVariants, Bool.and_eq_true] at hp
    simp only [WfVariants, Bool.and_eq_true] at hw
    have hnd' : (variantTags vs).Nodup := by
      simp only [variantTags, List.map_cons, List.nodup_cons] at hnd; exact hnd.2
    exact rtv_cons st n g fs vs hnd (ihf hp.1 hw.1) (ihv hp.2 hw.2 hnd')

end Borsh
