import BorshModel.Lemmas.Roundtrip
namespace Borsh

theorem rt_int (st : Bool) (k : IntK) : RT st (.int k) := by
  intro v hv hok rest
  match v, hv with
  | .int i, hv =>
    simp only [HasTy] at hv
    simp only [ser, Tr.emit_bytes, de, canon]
    rw [readMapped_append' _ _ (encInt_length k i)]
    simp [decInt_encInt k i hv]

theorem rt_nonzero (st : Bool) (k : IntK) : RT st (.nonzero k) := by
  intro v hv hok rest
  match v, hv with
  | .int i, hv =>
    simp only [HasTy, Bool.and_eq_true, bne_iff_ne, ne_eq] at hv
    simp only [ser, Tr.emit_bytes, de, canon]
    rw [readMapped_append' _ _ (encInt_length k i)]
    simp [decInt_encInt k i hv.1, hv.2]

theorem rt_float (st : Bool) (k : FloatK) : RT st (.float k) := by
  intro v hv hok rest
  match v, hv with
  | .int b, hv =>
    simp only [HasTy, Bool.and_eq_true, decide_eq_true_eq] at hv
    simp only [ser] at hok ⊢
    by_cases hn : isNanBits k b.toNat = true
    · simp [hn] at hok
    · simp only [hn, Bool.false_eq_true, if_false, Tr.emit_bytes, de, canon]
      rw [readMapped_append' _ _ (leBytes_length _ _)]
      simp only [Out.bind_ok, ofLe_leBytes]
      have hb : b.toNat % 256 ^ k.width = b.toNat := by
        apply Nat.mod_eq_of_lt
        have h2 := hv.2
        have := Int.toNat_of_nonneg hv.1
        cases k <;> simp [FloatK.width] at h2 ⊢ <;> omega
      rw [hb]
      simp [hn, Int.toNat_of_nonneg hv.1]

theorem rt_bool (st : Bool) : RT st .bool := by
  intro v hv hok rest
  match v, hv with
  | .bool b, _ =>
    simp only [ser, Tr.emit_bytes, de, canon, List.singleton_append]
    rw [readU8_cons]
    cases b <;> simp

theorem rt_str (st : Bool) (k : StrK) : RT st (.str k) := by
  intro v hv hok rest
  match v, hv with
  | .blob bs, hv =>
    simp only [HasTy] at hv
    simp only [ser] at hok ⊢
    have hk := Tr.andThen_ok.mp hok
    have hlen := serLen_ok.mp hk.1
    rw [Tr.andThen_bytes hk.1, serLen_bytes hlen, Tr.emit_bytes]
    simp only [de, canon]
    rw [deByteVec_roundtrip bs rest hlen]
    simp only [Out.bind_ok]
    cases hk' : k.isAscii <;> simp [hk'] at hv ⊢ <;> simp [hv]

theorem rt_asciiChar (st : Bool) : RT st .asciiChar := by
  intro v hv hok rest
  match v, hv with
  | .int i, hv =>
    simp only [HasTy, Bool.and_eq_true, decide_eq_true_eq] at hv
    simp only [ser, Tr.emit_bytes, de, canon, List.singleton_append]
    rw [readU8_cons]
    have h1 : i.toNat < 128 := by omega
    have h2 : (UInt8.ofNat i.toNat).toNat = i.toNat := by
      simp only [UInt8.toNat_ofNat']; omega
    have h3 : UInt8.ofNat i.toNat < 128 := by
      rw [UInt8.lt_iff_toNat_lt, h2]; exact h1
    simp only [Out.bind_ok, h3, if_true, h2]
    congr 3
    omega

theorem rt_raw (st : Bool) (k : RawK) : RT st (.raw k) := by
  intro v hv hok rest
  match v, hv with
  | .blob bs, hv =>
    simp only [HasTy, beq_iff_eq] at hv
    simp only [ser, Tr.emit_bytes, canon]
    simp only [de]
    rw [readMapped_append' bs rest hv]; rfl

theorem rt_custom (st : Bool) (t : Ty) (hw : WfTy (.custom t) = true) : RT st (.custom t) := by
  intro v hv hok rest
  simp only [WfTy] at hw
  have ht : t = .int .u32 := by
    cases t <;> simp [Ty.isU32] at hw
    rename_i k; cases k <;> simp_all [Ty.isU32]
  subst ht
  match v, hv with
  | .int i, hv =>
    simp only [HasTy] at hv
    have hr := intInRange_unsigned (k := .u32) rfl hv
    simp only [IntK.width] at hr
    simp only [ser, Tr.emit_bytes, de, canon]
    rw [readMapped_append' _ _ (by simp)]
    simp only [Out.map_ok, List.reverse_reverse, ofLe_leBytes]
    congr 3
    omega

/-- elements written one by one or through the `u8` fast path read back through the matching path -/
theorem slice_roundtrip (st : Bool) (t : Ty) (ih : RT st t) (vs : List Val)
    (hvs : vs.all (HasTy t) = true)
    (hok : (if t.isU8 then Tr.emit (valBytes vs) else serMany (ser t) vs).Ok) (rest : Bytes) :
    (if t.isU8 then (Rd.slice.readBulk vs.length
          ((if t.isU8 then Tr.emit (valBytes vs) else serMany (ser t) vs).bytes ++ rest)).map
            fun q => (bytesVal q.1, q.2)
      else repeatDe (de Rd.slice st t) vs.length
          ((if t.isU8 then Tr.emit (valBytes vs) else serMany (ser t) vs).bytes ++ rest)) =
      .ok (vs.map (canon t), rest) := by
  by_cases hu : t.isU8 = true
  · have ht := isU8_eq hu
    subst ht
    simp only [Ty.isU8, if_true, Tr.emit_bytes]
    rw [readBulk_append _ _ (valBytes_length vs)]
    simp [valBytes_bytesVal vs (all_of_all hvs), canon_u8_list]
  · simp only [hu, Bool.false_eq_true, if_false] at hok ⊢
    exact repeatDe_serMany vs (fun v hv => ih v (all_of_all hvs v hv)) hok rest

theorem rt_array (st : Bool) (n : Nat) (t : Ty) (ih : RT st t) : RT st (.array n t) := by
  intro v hv hok rest
  match v, hv with
  | .list vs, hv =>
    simp only [HasTy, Bool.and_eq_true, beq_iff_eq] at hv
    obtain ⟨hn, hall⟩ := hv
    simp only [ser] at hok ⊢
    simp only [de, canon]
    by_cases h0 : (n == 0) = true
    · have : n = 0 := by simpa using h0
      subst this
      have : vs = [] := List.eq_nil_of_length_eq_zero hn
      subst this
      by_cases hu : t.isU8 = true
      · simp [hu, readMapped, slice_readExact, bytesVal]
      · simp [hu, repeatDe]
    · simp only [h0, Bool.false_eq_true, if_false] at hok ⊢
      by_cases hu : t.isU8 = true
      · have ht := isU8_eq hu
        subst ht
        simp only [Ty.isU8, if_true, Tr.emit_bytes]
        rw [readMapped_append' _ _ (by simp [hn])]
        simp [valBytes_bytesVal vs (all_of_all hall), canon_u8_list]
      · simp only [hu, Bool.false_eq_true, if_false] at hok ⊢
        rw [← hn, repeatDe_serMany vs (fun v hv => ih v (all_of_all hall v hv)) hok rest]
        simp

/-- `Vec::<T>::deserialize_reader` reads back a length prefix followed by the elements' bytes -/
theorem deVec_roundtrip (st : Bool) (t : Ty) (ih : RT st t) (vs : List Val)
    (hall : vs.all (HasTy t) = true) (hlen : vs.length < 2 ^ 32) (payload rest : Bytes)
    (hu : t.isU8 = true → payload = valBytes vs)
    (hn : t.isU8 = false → (serMany (ser t) vs).Ok ∧ payload = (serMany (ser t) vs).bytes) :
    deVec Rd.slice t.isU8 (de Rd.slice st t) (u32le vs.length ++ payload ++ rest) =
      .ok (vs.map (canon t), rest) := by
  unfold deVec
  rw [List.append_assoc, readU32_u32le hlen]
  simp only [Out.bind_ok]
  by_cases h0 : vs.length = 0
  · have : vs = [] := List.eq_nil_of_length_eq_zero h0
    subst this
    have hp : payload = [] := by
      cases hb : t.isU8
      · have := (hn hb).2; simpa [serMany] using this
      · have := hu hb; simpa [valBytes] using this
    simp [hp]
  · have : (vs.length == 0) = false := by simp [h0]
    simp only [this, Bool.false_eq_true, if_false]
    cases hb : t.isU8
    · simp only [Bool.false_eq_true, if_false]
      have := hn hb
      rw [this.2]
      exact repeatDe_serMany vs (fun v hv => ih v (all_of_all hall v hv)) this.1 rest
    · simp only [if_true]
      have ht := isU8_eq hb
      subst ht
      rw [hu hb, readBulk_append _ _ (valBytes_length vs)]
      simp [valBytes_bytesVal vs (all_of_all hall), canon_u8_list]

theorem serMany_append_ok {f : Val → Tr} {a b : List Val} :
    (serMany f (a ++ b)).Ok ↔ (serMany f a).Ok ∧ (serMany f b).Ok := by
  simp only [serMany_ok, List.mem_append]
  constructor
  · intro h; exact ⟨fun v hv => h v (Or.inl hv), fun v hv => h v (Or.inr hv)⟩
  · intro h v hv; cases hv with
    | inl hv => exact h.1 v hv
    | inr hv => exact h.2 v hv

theorem serMany_append_bytes {f : Val → Tr} {a b : List Val} (h : (serMany f (a ++ b)).Ok) :
    (serMany f (a ++ b)).bytes = (serMany f a).bytes ++ (serMany f b).bytes := by
  have h' := serMany_append_ok.mp h
  rw [serMany_bytes h, serMany_bytes h'.1, serMany_bytes h'.2]
  simp

/-- the per-element path on `u8` writes the same bytes as the bulk path -/
theorem serMany_u8_bytes (vs : List Val) (h : ∀ v ∈ vs, HasTy (.int .u8) v = true) :
    (serMany (ser (.int .u8)) vs).Ok ∧ (serMany (ser (.int .u8)) vs).bytes = valBytes vs := by
  induction vs with
  | nil => simp [serMany, valBytes]
  | cons v vs ih =>
    have ih' := ih (fun w hw => h w (by simp [hw]))
    have hv := h v (by simp)
    match v, hv with
    | .int i, hv =>
      have hr := intInRange_unsigned (k := .u8) rfl (by simpa [HasTy] using hv)
      simp only [IntK.width] at hr
      have hok : (serMany (ser (.int .u8)) (Val.int i :: vs)).Ok := by
        simp only [serMany, Tr.andThen_ok, ser, Tr.emit_ok, true_and]; exact ih'.1
      refine ⟨hok, ?_⟩
      simp only [serMany] at hok ⊢
      rw [Tr.andThen_bytes (Tr.andThen_ok.mp hok).1, ih'.2]
      simp only [ser, Tr.emit_bytes, valBytes, List.map_cons, valByte, encInt, IntK.width, leBytes]
      simp only [List.cons_append, List.nil_append, List.cons.injEq, and_true]
      congr 1
      simp
      omega

theorem repeatDe_u8 (bs rest : Bytes) :
    repeatDe (fun s => (readU8 Rd.slice s).map fun b => (Val.int b.1.toNat, b.2)) bs.length
      (bs ++ rest) = .ok (bytesVal bs, rest) := by
  induction bs with
  | nil => simp [repeatDe, bytesVal]
  | cons b bs ih =>
    simp only [List.length_cons, repeatDe, List.cons_append, readU8_cons, Out.map_ok, Out.bind_ok, ih]
    simp [bytesVal]

/-- payload facts for the list-shaped kinds -/
theorem seq_payload (t : Ty) (vs : List Val) (hall : vs.all (HasTy t) = true) (body : Tr)
    (hb : body = serMany (ser t) vs ∨ body = (if t.isU8 then Tr.emit (valBytes vs) else serMany (ser t) vs))
    (hok : body.Ok) :
    (t.isU8 = true → body.bytes = valBytes vs) ∧
    (t.isU8 = false → (serMany (ser t) vs).Ok ∧ body.bytes = (serMany (ser t) vs).bytes) := by
  constructor
  · intro hu
    have ht := isU8_eq hu
    subst ht
    cases hb with
    | inl hb => rw [hb]; exact (serMany_u8_bytes vs (all_of_all hall)).2
    | inr hb => rw [hb]; simp [Ty.isU8]
  · intro hu
    cases hb with
    | inl hb => subst hb; exact ⟨hok, rfl⟩
    | inr hb => simp only [hu, Bool.false_eq_true, if_false] at hb; subst hb; exact ⟨hok, rfl⟩

theorem rt_seq (st : Bool) (k : SeqK) (t : Ty) (hk : k ≠ .indexSet)
    (hw : WfTy (.seq k t) = true) (ih : RT st t) : RT st (.seq k t) := by
  intro v hv hok rest
  simp only [WfTy, Bool.and_eq_true, Bool.or_eq_true, Bool.not_eq_eq_eq_not, Bool.not_true] at hw
  obtain ⟨⟨_, hzw⟩, hbytes⟩ := hw
  match v, hv with
  | .list vs, hv =>
    simp only [HasTy, Bool.and_eq_true, bne_iff_ne, ne_eq, Bool.or_eq_true] at hv
    obtain ⟨⟨hkd, hall⟩, _⟩ := hv
    -- the element type occupies memory
    have hz : memZero t = false := by
      cases hzw with
      | inr h => exact h
      | inl h =>
        cases hm : memZero t with
        | false => rfl
        | true => simp [ser, h, hm] at hok
    simp only [ser, hz, Bool.and_false, Bool.false_eq_true, if_false] at hok ⊢
    -- both serializer shapes are `serLen ▹ body`
    have key : ∀ body : Tr, (serLen vs.length ▹ body).Ok →
        (body = serMany (ser t) vs ∨ body = (if t.isU8 then Tr.emit (valBytes vs) else serMany (ser t) vs)) →
        deVec Rd.slice t.isU8 (de Rd.slice st t) ((serLen vs.length ▹ body).bytes ++ rest) =
          .ok (vs.map (canon t), rest) := by
      intro body hob hb
      have hk2 := Tr.andThen_ok.mp hob
      have hlen := serLen_ok.mp hk2.1
      rw [Tr.andThen_bytes hk2.1, serLen_bytes hlen]
      have hp := seq_payload t vs hall body hb hk2.2
      exact deVec_roundtrip st t ih vs hall hlen body.bytes rest hp.1 hp.2
    cases k
    case indexSet => exact absurd rfl hk
    case vecDeque => exact absurd rfl hkd
    case bytesMut =>
      have hu : t.isU8 = true := by simpa [SeqK.isBytes] using hbytes
      have ht := isU8_eq hu
      subst ht
      simp only [Ty.isU8, if_true, SeqK.noFastPath, Bool.false_eq_true, if_false] at hok ⊢
      have hk2 := Tr.andThen_ok.mp hok
      have hlen := serLen_ok.mp hk2.1
      rw [Tr.andThen_bytes hk2.1, serLen_bytes hlen, Tr.emit_bytes]
      simp only [de, canon]
      rw [List.append_assoc, readU32_u32le hlen]
      simp only [Out.bind_ok]
      have := repeatDe_u8 (valBytes vs) rest
      rw [valBytes_length] at this
      rw [this]
      simp [valBytes_bytesVal vs (all_of_all hall), canon_u8_list]
    case linkedList =>
      simp only [SeqK.noFastPath, if_true] at hok ⊢
      simp only [de, hz, Bool.false_eq_true, if_false, canon]
      rw [key _ hok (Or.inl rfl)]; rfl
    all_goals
      simp only [SeqK.noFastPath, Bool.false_eq_true, if_false] at hok ⊢
      simp only [de, hz, Bool.false_eq_true, if_false, canon]
      rw [key _ hok (Or.inr rfl)]; rfl
  | .deque a b, hv =>
    simp only [HasTy, Bool.and_eq_true, beq_iff_eq] at hv
    obtain ⟨⟨hkd, ha⟩, hb⟩ := hv
    subst hkd
    have hz : memZero t = false := by
      cases hm : memZero t with
      | false => rfl
      | true => simp [ser, hm] at hok
    simp only [ser, hz, Bool.false_eq_true, if_false] at hok ⊢
    have hk1 := Tr.andThen_ok.mp hok
    have hk2 := Tr.andThen_ok.mp hk1.1
    have hlen := serLen_ok.mp hk2.1
    have hall : (a ++ b).all (HasTy t) = true := by simp [List.all_append, ha, hb]
    simp only [de, hz, Bool.false_eq_true, if_false, canon]
    rw [Tr.andThen_bytes hk1.1, Tr.andThen_bytes hk2.1, serLen_bytes hlen]
    have hl : a.length + b.length = (a ++ b).length := by simp
    rw [hl] at hlen ⊢
    rw [List.append_assoc (u32le (a ++ b).length)]
    have hp : (t.isU8 = true →
          (if t.isU8 then Tr.emit (valBytes a) else serMany (ser t) a).bytes ++
          (if t.isU8 then Tr.emit (valBytes b) else serMany (ser t) b).bytes = valBytes (a ++ b)) ∧
        (t.isU8 = false → (serMany (ser t) (a ++ b)).Ok ∧
          (if t.isU8 then Tr.emit (valBytes a) else serMany (ser t) a).bytes ++
          (if t.isU8 then Tr.emit (valBytes b) else serMany (ser t) b).bytes =
            (serMany (ser t) (a ++ b)).bytes) := by
      constructor
      · intro hu; simp [hu, valBytes]
      · intro hu
        simp only [hu, Bool.false_eq_true, if_false] at hk1 hk2 ⊢
        have hab : (serMany (ser t) (a ++ b)).Ok := serMany_append_ok.mpr ⟨hk2.2, hk1.2⟩
        exact ⟨hab, (serMany_append_bytes hab).symm⟩
    rw [deVec_roundtrip st t ih (a ++ b) hall hlen _ rest hp.1 hp.2]
    rfl

theorem rtf_nil (st : Bool) : RTF st [] := by
  intro vs hv hok rest
  match vs, hv with
  | [], _ => simp [serFields, deFields, canonFields]

theorem rtf_cons (st : Bool) (n : Option Name) (sk : Bool) (t : Ty) (fs : List Field)
    (iht : RT st t) (ihf : RTF st fs) : RTF st ((n, sk, t) :: fs) := by
  intro vs hv hok rest
  cases vs with
  | nil => simp [HasTyFields] at hv
  | cons v vs =>
    simp only [HasTyFields, Bool.and_eq_true] at hv
    simp only [serFields] at hok ⊢
    cases sk
    · simp only [Bool.false_eq_true, if_false] at hok ⊢
      have hk := Tr.andThen_ok.mp hok
      rw [Tr.andThen_bytes hk.1, List.append_assoc]
      simp only [deFields, Bool.false_eq_true, if_false, canonFields]
      rw [iht v hv.1 hk.1]
      simp only [Out.bind_ok]
      rw [ihf vs hv.2 hk.2]
      rfl
    · simp only [if_true] at hok ⊢
      simp only [deFields, if_true, canonFields]
      rw [ihf vs hv.2 hok]
      rfl

theorem rtv_nil (st : Bool) : RTV st [] := by
  intro idx fvs tk base hv
  simp [HasTyVariant] at hv

theorem rtv_cons (st : Bool) (n : Name) (g : Nat) (fs : List Field) (vs : List Variant)
    (hnd : (variantTags ((n, g, fs) :: vs)).Nodup) (ihf : RTF st fs) (ihv : RTV st vs) :
    RTV st ((n, g, fs) :: vs) := by
  intro idx fvs tk base hv hok
  cases idx with
  | zero =>
    simp only [HasTyVariant] at hv
    simp only [serVariant] at hok ⊢
    have hk := Tr.andThen_ok.mp hok
    refine ⟨UInt8.ofNat g, (serFields fs fvs).bytes, ?_, by simp [variantTags], ?_⟩
    · rw [Tr.andThen_bytes hk.1]; simp
    · intro rest
      simp only [deVariants, beq_self_eq_true, if_true, canonVariant]
      rw [ihf fvs hv hk.2]
      rfl
  | succ i =>
    simp only [HasTyVariant] at hv
    simp only [serVariant] at hok ⊢
    obtain ⟨tag, body, hb, hmem, hde⟩ := ihv i fvs tk (base + 1) hv hok
    refine ⟨tag, body, hb, by simp [variantTags] at hmem ⊢; exact Or.inr hmem, ?_⟩
    intro rest
    have hne : (UInt8.ofNat g == tag) = false := by
      simp only [variantTags, List.map_cons, List.nodup_cons] at hnd
      have : UInt8.ofNat g ≠ tag := by
        intro h; rw [h] at hnd; exact hnd.1 hmem
      simpa using this
    simp only [deVariants, hne, Bool.false_eq_true, if_false, canonVariant]
    rw [hde rest]
    congr 3
    omega

theorem rt_prod (st : Bool) (k : ProdK) (fs : List Field) (ih : RTF st fs) : RT st (.prod k fs) := by
  intro v hv hok rest
  match v, hv with
  | .list vs, hv =>
    simp only [HasTy] at hv
    simp only [ser] at hok ⊢
    simp only [de, canon]
    rw [ih vs hv hok]
    rfl

theorem rt_sum (st : Bool) (k : SumK) (vs : List Variant) (ih : RTV st vs) : RT st (.sum k vs) := by
  intro v hv hok rest
  match v, hv with
  | .variant idx fvs, hv =>
    simp only [HasTy] at hv
    simp only [ser] at hok ⊢
    obtain ⟨tag, body, hb, _, hde⟩ := ih idx fvs k.tagK 0 hv hok
    rw [hb]
    simp only [de, canon, List.cons_append, readU8_cons, Out.bind_ok]
    rw [hde rest]
    simp [initVariant]

theorem rt_wrap (st : Bool) (k : WrapK) (t : Ty) (ih : RT st t) : RT st (.wrap k t) := by
  intro v hv hok rest
  have hv' : HasTy t v = true := by
    cases v <;> simpa [HasTy] using hv
  have hs : ser (.wrap k t) v = ser t v := by cases v <;> simp [ser]
  have hc : canon (.wrap k t) v = canon t v := by cases v <;> simp [canon]
  rw [hs] at hok ⊢
  rw [hc]
  simp only [de]
  exact ih v hv' hok rest

/-- Round trip for every plain, well-formed type. -/
theorem roundtrip_plain (st : Bool) :
    ∀ t : Ty, plain t = true → WfTy t = true → RT st t := by
  apply Ty.induct (P := fun t => plain t = true → WfTy t = true → RT st t)
    (PF := fun fs => plainFields fs = true → WfFields fs = true → RTF st fs)
    (PV := fun vs => plainVariants vs = true → WfVariants vs = true → (variantTags vs).Nodup → RTV st vs)
  case h_int => intro k _ _; exact rt_int st k
  case h_nonzero => intro k _ _; exact rt_nonzero st k
  case h_float => intro k _ _; exact rt_float st k
  case h_bool => intro _ _; exact rt_bool st
  case h_str => intro k _ _; exact rt_str st k
  case h_asciiChar => intro _ _; exact rt_asciiChar st
  case h_raw => intro k _ _; exact rt_raw st k
  case h_seq =>
    intro k t ih hp hw
    simp only [plain, Bool.and_eq_true, bne_iff_ne, ne_eq] at hp
    have hw' := hw
    simp only [WfTy, Bool.and_eq_true] at hw'
    exact rt_seq st k t hp.1 hw (ih hp.2 hw'.1.1)
  case h_set => intro k t _ hp; simp [plain] at hp
  case h_map => intro k a b _ _ hp; simp [plain] at hp
  case h_array =>
    intro n t ih hp hw
    simp only [plain] at hp
    simp only [WfTy] at hw
    exact rt_array st n t (ih hp hw)
  case h_prod =>
    intro k fs ih hp hw
    simp only [plain] at hp
    simp only [WfTy] at hw
    exact rt_prod st k fs (ih hp hw)
  case h_sum =>
    intro k vs ih hp hw
    simp only [plain] at hp
    simp only [WfTy, Bool.and_eq_true, decide_eq_true_eq] at hw
    exact rt_sum st k vs (ih hp hw.1 hw.2)
  case h_wrap =>
    intro k t ih hp hw
    simp only [plain] at hp
    simp only [WfTy] at hw
    exact rt_wrap st k t (ih hp hw)
  case h_custom => intro t _ _ hw; exact rt_custom st t hw
  case h_fnil => intro _ _; exact rtf_nil st
  case h_fcons =>
    intro n sk t fs iht ihf hp hw
    simp only [plainFields, Bool.and_eq_true] at hp
    simp only [WfFields, Bool.and_eq_true] at hw
    exact rtf_cons st n sk t fs (iht hp.1 hw.1) (ihf hp.2 hw.2)
  case h_vnil => intro _ _ _; exact rtv_nil st
  case h_vcons =>
    intro n g fs vs ihf ihv hp hw hnd
    simp only [plainVariants, Bool.and_eq_true] at hp
    simp only [WfVariants, Bool.and_eq_true] at hw
    have hnd' : (variantTags vs).Nodup := by
      simp only [variantTags, List.map_cons, List.nodup_cons] at hnd; exact hnd.2
    exact rtv_cons st n g fs vs hnd (ihf hp.1 hw.1) (ihv hp.2 hw.2 hnd')

end Borsh
