/-
  Totality and error discipline of the slice decoder: for every type and every byte
  string it returns `ok` or an `InvalidData` error — it never panics and no other
  error kind escapes.
-/
import BorshModel.Lemmas.Slice
import BorshModel.Lemmas.Induct
namespace Borsh

/-- an outcome that is a value or an `InvalidData` refusal -/
def Out.safe {α : Type} : Out α → Prop
  | .ok _ => True
  | .err e => e.kind = .invalidData
  | .panic _ => False

def Safe {α : Type} (f : Bytes → Out (α × Bytes)) : Prop := ∀ p, (f p).safe

theorem Safe.pure {α : Type} (a : α) : Safe (fun p => Out.ok (a, p)) := fun _ => trivial

theorem Safe.bind {α β : Type} {f : Bytes → Out (α × Bytes)} {g : α × Bytes → Out (β × Bytes)}
    (hf : Safe f) (hg : ∀ a, Safe (fun p => g (a, p))) : Safe (fun p => (f p).bind g) := by
  intro p
  show ((f p).bind g).safe
  have := hf p
  cases h : f p with
  | ok r => exact hg r.1 r.2
  | err e => rw [h] at this; exact this
  | panic s => rw [h] at this; exact this.elim

theorem Safe.map {α β : Type} {f : Bytes → Out (α × Bytes)} (hf : Safe f) (g : α × Bytes → β × Bytes) :
    Safe (fun p => (f p).map g) := by
  intro p
  show ((f p).map g).safe
  have := hf p
  cases h : f p with
  | ok r => trivial
  | err e => rw [h] at this; exact this
  | panic s => rw [h] at this; exact this.elim

theorem readMapped_safe (n : Nat) : Safe (readMapped Rd.slice n) := by
  intro p
  simp only [readMapped, slice_readExact]
  split <;> simp [Out.safe, mapEof, eEof, eUnexpectedLength]

theorem readMapped_len {n : Nat} {p b r : Bytes} (h : readMapped Rd.slice n p = .ok (b, r)) :
    b.length = n := by
  simp only [readMapped, slice_readExact] at h
  split at h
  · simp at h; rw [← h.1]; simp; omega
  · simp at h

theorem readU8_safe : Safe (readU8 Rd.slice) := by
  intro p
  unfold readU8
  have hs := readMapped_safe 1 p
  cases h : readMapped Rd.slice 1 p with
  | ok r =>
    have hl := readMapped_len (b := r.1) (r := r.2) h
    simp only [Out.bind_ok]
    match r, hl with
    | ([b], _), _ => simp [Out.safe]
  | err e => rw [h] at hs; simpa [Out.bind, Out.safe] using hs
  | panic s => rw [h] at hs; simp [Out.safe] at hs

theorem readU32_safe : Safe (readU32 Rd.slice) := by
  unfold readU32
  exact Safe.map (readMapped_safe 4) _

theorem readBulk_safe (n : Nat) : Safe (Rd.slice.readBulk n) := by
  intro p
  rw [slice_readBulk]
  split <;> simp [Out.safe, eUnexpectedLength]

theorem deByteVec_safe : Safe (deByteVec Rd.slice) := by
  unfold deByteVec
  apply Safe.bind readU32_safe
  intro n p
  dsimp only
  split
  · trivial
  · exact readBulk_safe n p

theorem repeatDe_safe {f : Bytes → Out (Val × Bytes)} (hf : Safe f) (n : Nat) : Safe (repeatDe f n) := by
  induction n with
  | zero => intro p; simp [repeatDe, Out.safe]
  | succ n ih =>
    show Safe (fun p => repeatDe f (n + 1) p)
    simp only [repeatDe]
    apply Safe.bind hf
    intro a
    dsimp only
    apply Safe.bind ih
    intro b p
    trivial

theorem deVec_safe (isU8 : Bool) {f : Bytes → Out (Val × Bytes)} (hf : Safe f) :
    Safe (deVec Rd.slice isU8 f) := by
  unfold deVec
  apply Safe.bind readU32_safe
  intro n p
  dsimp only
  split
  · trivial
  · cases isU8
    · exact repeatDe_safe hf n p
    · exact Safe.map (readBulk_safe n) _ p

/-- leaves: an `if` cascade whose branches are `ok` or an `InvalidData` constant -/
macro "safe_leaf" : tactic =>
  `(tactic| (intro p; dsimp only; (repeat' split) <;>
      simp [Out.safe, eZero, eNanDe, eBadTag, eAscii, eUtf8, eKeyOrder, eZst]))

theorem de_safe_all : ∀ t : Ty, ∀ st, Safe (de Rd.slice st t) := by
  apply Ty.induct (P := fun t => ∀ st, Safe (de Rd.slice st t))
    (PF := fun fs => ∀ st, Safe (deFields Rd.slice st fs))
    (PV := fun vs => ∀ st tk tag idx, Safe (deVariants Rd.slice st tk vs tag idx))
  case h_int =>
    intro k st
    show Safe (fun s => de Rd.slice st (.int k) s)
    simp only [de]
    exact Safe.map (readMapped_safe _) _
  case h_nonzero =>
    intro k st
    show Safe (fun s => de Rd.slice st (.nonzero k) s)
    simp only [de]
    apply Safe.bind (readMapped_safe _)
    intro a; safe_leaf
  case h_float =>
    intro k st
    show Safe (fun s => de Rd.slice st (.float k) s)
    simp only [de]
    apply Safe.bind (readMapped_safe _)
    intro a; safe_leaf
  case h_bool =>
    intro st
    show Safe (fun s => de Rd.slice st .bool s)
    simp only [de]
    apply Safe.bind readU8_safe
    intro a; safe_leaf
  case h_str =>
    intro k st
    show Safe (fun s => de Rd.slice st (.str k) s)
    simp only [de]
    apply Safe.bind deByteVec_safe
    intro a; safe_leaf
  case h_asciiChar =>
    intro st
    show Safe (fun s => de Rd.slice st .asciiChar s)
    simp only [de]
    apply Safe.bind readU8_safe
    intro a; safe_leaf
  case h_raw =>
    intro k st
    show Safe (fun s => de Rd.slice st (.raw k) s)
    simp only [de]
    exact Safe.map (readMapped_safe _) _
  case h_seq =>
    intro k t ih st
    show Safe (fun s => de Rd.slice st (.seq k t) s)
    have hb : Safe (fun s => (readU32 Rd.slice s).bind fun r =>
        (repeatDe (fun s => (readU8 Rd.slice s).map fun b => (Val.int b.1.toNat, b.2)) r.1 r.2).map
          fun q => (Val.list q.1, q.2)) := by
      apply Safe.bind readU32_safe
      intro n; dsimp only
      exact Safe.map (repeatDe_safe (Safe.map readU8_safe _) n) _
    cases k <;> simp only [de] <;> first
      | exact hb
      | (intro p; dsimp only; split
         · simp [Out.safe, eZst]
         · exact Safe.map (deVec_safe _ (ih st)) _ p)
  case h_set =>
    intro k t ih st
    show Safe (fun s => de Rd.slice st (.set k t) s)
    simp only [de]
    intro p; dsimp only; split
    · simp [Out.safe, eZst]
    · refine Safe.bind (deVec_safe _ (ih st)) ?_ p
      intro a; safe_leaf
  case h_map =>
    intro k a b iha ihb st
    show Safe (fun s => de Rd.slice st (.map k a b) s)
    simp only [de]
    intro p; dsimp only; split
    · simp [Out.safe, eZst]
    · refine Safe.bind ?_ ?_ p
      · apply deVec_safe
        unfold deEntry
        apply Safe.bind (iha st)
        intro x; dsimp only
        exact Safe.map (ihb st) _
      · intro x
        cases k <;> safe_leaf
  case h_array =>
    intro n t ih st
    show Safe (fun s => de Rd.slice st (.array n t) s)
    simp only [de]
    intro p; dsimp only; split
    · exact Safe.map (readMapped_safe _) _ p
    · exact Safe.map (repeatDe_safe (ih st) n) _ p
  case h_prod =>
    intro k fs ih st
    show Safe (fun s => de Rd.slice st (.prod k fs) s)
    simp only [de]
    exact Safe.map (ih st) _
  case h_sum =>
    intro k vs ih st
    show Safe (fun s => de Rd.slice st (.sum k vs) s)
    simp only [de]
    apply Safe.bind readU8_safe
    intro tag; dsimp only
    exact Safe.map (ih st _ _ _) _
  case h_wrap =>
    intro k t ih st
    show Safe (fun s => de Rd.slice st (.wrap k t) s)
    simp only [de]
    exact ih st
  case h_custom =>
    intro t _ st
    show Safe (fun s => de Rd.slice st (.custom t) s)
    simp only [de]
    exact Safe.map (readMapped_safe _) _
  case h_fnil =>
    intro st
    show Safe (fun s => deFields Rd.slice st [] s)
    simp only [deFields]
    exact Safe.pure _
  case h_fcons =>
    intro n sk t fs iht ihf st
    show Safe (fun s => deFields Rd.slice st ((n, sk, t) :: fs) s)
    simp only [deFields]
    intro p; dsimp only; split
    · exact Safe.map (ihf st) _ p
    · refine Safe.bind (iht st) ?_ p
      intro a; dsimp only
      exact Safe.map (ihf st) _
  case h_vnil =>
    intro st tk tag idx
    show Safe (fun s => deVariants Rd.slice st tk [] tag idx s)
    simp only [deVariants]
    intro p; simp [Out.safe, eBadTag]
  case h_vcons =>
    intro n g fs vs ihf ihv st tk tag idx
    show Safe (fun s => deVariants Rd.slice st tk ((n, g, fs) :: vs) tag idx s)
    simp only [deVariants]
    intro p; dsimp only; split
    · exact Safe.map (ihf st) _ p
    · exact ihv st tk tag (idx + 1) p

end Borsh
