/-
  C08: the container `for_type` builds binds every declaration the type refers to as intended
  (`Bnd`), for every type built from the built-in impls (no derive recursion guard involved).
-/
import BorshModel.SchemaWalk
import BorshModel.Lemmas.OrdLaws
import BorshModel.Lemmas.Induct
import BorshModel.Lemmas.MaxSize
namespace Borsh

/-- lookup in a definition map -/
def dget (m : Defs) (d : Name) : Option Defn := (m.find? fun e => e.1 == d).map (·.2)

theorem Container.get_mk (r : Name) (m : Defs) (d : Name) : (Container.mk r m).get d = dget m d := rfl

theorem dget_cons (k : Name) (v : Defn) (rest : Defs) (x : Name) :
    dget ((k, v) :: rest) x = if k == x then some v else dget rest x := by
  unfold dget
  simp only [List.find?_cons]
  cases h : k == x <;> simp

/-- `m'` extends `m` -/
def DSub (get get' : Name → Option Defn) : Prop := ∀ x y, get x = some y → get' x = some y

theorem DSub.trans {a b c : Name → Option Defn} (h1 : DSub a b) (h2 : DSub b c) : DSub a c :=
  fun x y h => h2 x y (h1 x y h)

/-- keys strictly ascending -/
def DSorted (m : Defs) : Prop := m.Pairwise fun a b => cmpBytes a.1 b.1 = .lt

theorem dget_none_of_below {d : Name} : ∀ (m : Defs), (∀ e ∈ m, cmpBytes d e.1 = .lt) → dget m d = none := by
  intro m
  induction m with
  | nil => intro _; rfl
  | cons e rest ih =>
    obtain ⟨k, v⟩ := e
    intro h
    rw [dget_cons]
    have hk : cmpBytes d k = .lt := h (k, v) (by simp)
    have hne : (k == d) = false := by
      simp only [beq_eq_false_iff_ne, ne_eq]
      intro e
      subst e
      rw [(cmpBytes_eq k k).mpr rfl] at hk; cases hk
    simp only [hne, Bool.false_eq_true, if_false]
    exact ih fun e he => h e (by simp [he])

/-- `add_definition` as a map insertion: the new binding is there, old bindings are kept, order is kept -/
theorem insertDef_spec (d : Name) (df : Defn) : ∀ (m m' : Defs), DSorted m → insertDef d df m = .ok m' →
    DSorted m' ∧ dget m' d = some df ∧ DSub (dget m) (dget m') ∧ (∀ e ∈ m', e = (d, df) ∨ e ∈ m) := by
  intro m
  induction m with
  | nil =>
    intro m' _ h
    simp only [insertDef] at h
    cases h
    refine ⟨List.pairwise_singleton _ _, by simp [dget], fun x y hx => by simp [dget] at hx, fun e he => Or.inl (by simpa using he)⟩
  | cons e rest ih =>
    obtain ⟨k, v⟩ := e
    intro m' hs h
    have hs' := List.pairwise_cons.mp hs
    simp only [insertDef] at h
    cases hc : cmpBytes d k with
    | lt =>
      simp only [hc] at h
      cases h
      have hbelow : ∀ e ∈ (k, v) :: rest, cmpBytes d e.1 = .lt := by
        intro e he
        cases List.mem_cons.mp he with
        | inl e1 => rw [e1]; exact hc
        | inr e1 => exact cmpBytes_trans d k e.1 hc (hs'.1 e e1)
      refine ⟨List.pairwise_cons.mpr ⟨hbelow, hs⟩, by simp [dget_cons], ?_, fun e he => ?_⟩
      · intro x y hx
        rw [dget_cons]
        by_cases hdx : d = x
        · subst hdx
          rw [dget_none_of_below _ hbelow] at hx; cases hx
        · have : (d == x) = false := by simpa using hdx
          simp only [this, Bool.false_eq_true, if_false]; exact hx
      · cases List.mem_cons.mp he with
        | inl e1 => exact Or.inl e1
        | inr e1 => exact Or.inr e1
    | eq =>
      simp only [hc] at h
      have hdk : d = k := (cmpBytes_eq d k).mp hc
      subst hdk
      split at h
      · rename_i hv
        cases h
        subst hv
        exact ⟨hs, by simp [dget_cons], fun x y hx => hx, fun e he => Or.inr he⟩
      · cases h
    | gt =>
      simp only [hc] at h
      cases hr : insertDef d df rest with
      | ok r =>
        rw [hr] at h
        simp only [Res.bind] at h
        cases h
        obtain ⟨hsr, hgd, hsub, hmem⟩ := ih r hs'.2 hr
        have hkd : cmpBytes k d = .lt := by
          rw [cmpBytes_swap, hc]; rfl
        have hne : (k == d) = false := by
          simp only [beq_eq_false_iff_ne, ne_eq]
          intro e; subst e
          rw [(cmpBytes_eq k k).mpr rfl] at hc; cases hc
        refine ⟨List.pairwise_cons.mpr ⟨fun e he => ?_, hsr⟩, ?_, ?_, fun e he => ?_⟩
        · cases hmem e he with
          | inl e1 => rw [e1]; exact hkd
          | inr e1 => exact hs'.1 e e1
        · rw [dget_cons]; simp only [hne, Bool.false_eq_true, if_false]; exact hgd
        · intro x y hx
          rw [dget_cons] at hx ⊢
          split
          · rename_i hkx; simpa [hkx] using hx
          · rename_i hkx
            simp only [hkx, if_false] at hx
            exact hsub x y hx
        · cases List.mem_cons.mp he with
          | inl e1 => exact Or.inr (by simp [e1])
          | inr e1 =>
            cases hmem e e1 with
            | inl e2 => exact Or.inl e2
            | inr e2 => exact Or.inr (by simp [e2])
      | error e => rw [hr] at h; simp [Res.bind] at h
      | panic p => rw [hr] at h; simp [Res.bind] at h

/-! ### `Bnd` is preserved when the map grows -/

theorem Bnd_mono {c c' : Container} (h : DSub c.get c'.get) : ∀ t : Ty, Bnd c t → Bnd c' t := by
  apply Ty.induct (P := fun t => Bnd c t → Bnd c' t)
    (PF := fun fs => (BndFields c fs → BndFields c' fs) ∧ (BndKept c fs → BndKept c' fs))
    (PV := fun vs => (BndVariants c vs → BndVariants c' vs) ∧
      (∀ decl, BndInner c decl vs → BndInner c' decl vs))
  case h_int => intro k hb; simp only [Bnd] at hb ⊢; exact h _ _ hb
  case h_nonzero => intro k hb; simp only [Bnd] at hb ⊢; exact h _ _ hb
  case h_float => intro k hb; simp only [Bnd] at hb ⊢; exact h _ _ hb
  case h_bool => intro hb; simp only [Bnd] at hb ⊢; exact h _ _ hb
  case h_str =>
    intro k hb
    simp only [Bnd] at hb ⊢
    split at hb
    · rename_i hk; simp only [hk, if_true]; exact ⟨h _ _ hb.1, h _ _ hb.2⟩
    · rename_i hk; simp only [hk, if_false]; exact ⟨h _ _ hb.1, h _ _ hb.2⟩
  case h_asciiChar => intro hb; simp only [Bnd] at hb ⊢; exact h _ _ hb
  case h_raw => intro k hb; simp only [Bnd] at hb ⊢; exact ⟨h _ _ hb.1, h _ _ hb.2.1, h _ _ hb.2.2⟩
  case h_seq => intro k t ih hb; simp only [Bnd] at hb ⊢; exact ⟨h _ _ hb.1, ih hb.2⟩
  case h_set => intro k t ih hb; simp only [Bnd] at hb ⊢; exact ⟨h _ _ hb.1, ih hb.2⟩
  case h_map =>
    intro k a b iha ihb hb
    simp only [Bnd] at hb ⊢
    exact ⟨h _ _ hb.1, h _ _ hb.2.1, iha hb.2.2.1, ihb hb.2.2.2⟩
  case h_array => intro n t ih hb; simp only [Bnd] at hb ⊢; exact ⟨h _ _ hb.1, ih hb.2⟩
  case h_prod =>
    intro k fs ih hb
    cases k <;> simp only [Bnd] at hb ⊢ <;>
      first
        | exact ⟨h _ _ hb.1, ih.1 hb.2⟩
        | exact ⟨h _ _ hb.1, ih.2 hb.2⟩
        | exact h _ _ hb
        | exact hb
  case h_sum =>
    intro k vs ih hb
    cases k with
    | option => simp only [Bnd] at hb ⊢; exact ⟨h _ _ hb.1, ih.1 hb.2.1, h _ _ hb.2.2⟩
    | result =>
      simp only [Bnd] at hb ⊢
      refine ⟨?_, ih.1 hb.2⟩
      have h1 := hb.1
      split at h1
      · exact h _ _ h1
      · exact h1
    | ipAddr => simp only [Bnd] at hb ⊢; exact ⟨ih.2 _ hb.1, h _ _ hb.2⟩
    | derived n i => simp only [Bnd] at hb ⊢; exact ⟨ih.2 _ hb.1, h _ _ hb.2⟩
    | sockAddr => simp only [Bnd] at hb
  case h_wrap => intro k t ih hb; simp only [Bnd] at hb ⊢; exact ih hb
  case h_custom => intro t ih hb; simp only [Bnd] at hb ⊢; exact ih hb
  case h_fnil => exact ⟨fun _ => trivial, fun _ => trivial⟩
  case h_fcons =>
    intro n sk t fs iht ihf
    refine ⟨fun hb => ?_, fun hb => ?_⟩
    · simp only [BndFields] at hb ⊢; exact ⟨iht hb.1, ihf.1 hb.2⟩
    · simp only [BndKept] at hb ⊢; exact ⟨hb.1.imp id iht, ihf.2 hb.2⟩
  case h_vnil => exact ⟨fun _ => trivial, fun _ _ => trivial⟩
  case h_vcons =>
    intro n g fs vs ihf ihv
    refine ⟨fun hb => ?_, fun decl hb => ?_⟩
    · simp only [BndVariants] at hb ⊢; exact ⟨ihf.1 hb.1, ihv.1 hb.2⟩
    · simp only [BndInner] at hb ⊢; exact ⟨⟨h _ _ hb.1.1, ihf.2 hb.1.2⟩, ihv.2 decl hb.2⟩

theorem BndFields_mono {c c' : Container} (h : DSub c.get c'.get) :
    ∀ fs : List Field, BndFields c fs → BndFields c' fs := by
  intro fs
  induction fs with
  | nil => intro _; trivial
  | cons f fs ih =>
    obtain ⟨n, sk, t⟩ := f
    intro hb
    simp only [BndFields] at hb ⊢
    exact ⟨Bnd_mono h t hb.1, ih hb.2⟩

theorem BndVariants_mono {c c' : Container} (h : DSub c.get c'.get) :
    ∀ vs : List Variant, BndVariants c vs → BndVariants c' vs := by
  intro vs
  induction vs with
  | nil => intro _; trivial
  | cons v vs ih =>
    obtain ⟨n, g, fs⟩ := v
    intro hb
    simp only [BndVariants] at hb ⊢
    exact ⟨BndFields_mono h fs hb.1, ih hb.2⟩

/-! ### what `add_definitions_recursively` leaves in the map -/

theorem ins_step {d : Name} {df : Defn} {m m' : Defs} (hs : DSorted m) (h : insertDef d df m = .ok m') :
    DSorted m' ∧ dget m' d = some df ∧ DSub (dget m) (dget m') := by
  obtain ⟨a, b, c, _⟩ := insertDef_spec d df m m' hs h
  exact ⟨a, b, c⟩

theorem DSub.refl (a : Name → Option Defn) : DSub a a := fun _ _ h => h

/-- the outcome of one `add_definitions_recursively` call, for the motive of the induction -/
def Adds (t : Ty) : Prop :=
  ∀ m m', DSorted m → addDefs t m = .ok m' →
    DSorted m' ∧ DSub (dget m) (dget m') ∧ ∀ r, Bnd ⟨r, m'⟩ t
def AddsF (fs : List Field) : Prop :=
  ∀ m m', DSorted m → addDefsFields fs m = .ok m' →
    DSorted m' ∧ DSub (dget m) (dget m') ∧ ∀ r, BndFields ⟨r, m'⟩ fs
def AddsV (vs : List Variant) : Prop :=
  ∀ m m', DSorted m → addDefsVariants vs m = .ok m' →
    DSorted m' ∧ DSub (dget m) (dget m') ∧ ∀ r, BndVariants ⟨r, m'⟩ vs

theorem adds_leaf {t : Ty} {d : Name} {df : Defn} (hadd : ∀ m, addDefs t m = insertDef d df m)
    (hb : ∀ (r : Name) (m' : Defs), dget m' d = some df → Bnd ⟨r, m'⟩ t) : Adds t := by
  intro m m' hs h
  rw [hadd] at h
  obtain ⟨a, b, c⟩ := ins_step hs h
  exact ⟨a, c, fun r => hb r m' b⟩

theorem adds_all : ∀ t : Ty, guardFree t = true → Adds t := by
  apply Ty.induct (P := fun t => guardFree t = true → Adds t)
    (PF := fun fs => guardFreeFields fs = true → AddsF fs)
    (PV := fun vs => guardFreeVariants vs = true → AddsV vs)
  case h_int =>
    intro k _
    exact adds_leaf (d := declOf (.int k)) (df := .primitive k.width)
      (fun m => by simp only [addDefs]) (fun r m' h => by simp only [Bnd]; exact h)
  case h_nonzero =>
    intro k _
    exact adds_leaf (d := declOf (.nonzero k)) (df := .primitive k.width)
      (fun m => by simp only [addDefs]) (fun r m' h => by simp only [Bnd]; exact h)
  case h_float =>
    intro k _
    exact adds_leaf (d := declOf (.float k)) (df := .primitive k.width)
      (fun m => by simp only [addDefs]) (fun r m' h => by simp only [Bnd]; exact h)
  case h_bool =>
    intro _
    exact adds_leaf (d := n! "bool") (df := .primitive 1)
      (fun m => by simp only [addDefs]) (fun r m' h => by simp only [Bnd]; exact h)
  case h_asciiChar =>
    intro _
    exact adds_leaf (d := n! "AsciiChar") (df := .primitive 1)
      (fun m => by simp only [addDefs]) (fun r m' h => by simp only [Bnd]; exact h)
  case h_str =>
    intro k _ m m' hs h
    simp only [addDefs] at h
    split at h
    · rename_i hk
      obtain ⟨m1, h1, h2⟩ := Res.bind_eq_ok h
      obtain ⟨s1, g1, sub1⟩ := ins_step hs h1
      obtain ⟨s2, g2, sub2⟩ := ins_step s1 h2
      refine ⟨s2, sub1.trans sub2, fun r => ?_⟩
      simp only [Bnd, hk, if_true]
      exact ⟨sub2 _ _ g1, g2⟩
    · rename_i hk
      obtain ⟨m1, h1, h2⟩ := Res.bind_eq_ok h
      obtain ⟨s1, g1, sub1⟩ := ins_step hs h1
      obtain ⟨s2, g2, sub2⟩ := ins_step s1 h2
      refine ⟨s2, sub1.trans sub2, fun r => ?_⟩
      simp only [Bnd, hk, if_false]
      exact ⟨sub2 _ _ g1, g2⟩
  case h_raw => intro k h; simp [guardFree] at h
  case h_seq =>
    intro k t ih hg m m' hs h
    simp only [guardFree] at hg
    simp only [addDefs] at h
    obtain ⟨m1, h1, h2⟩ := Res.bind_eq_ok h
    obtain ⟨s1, g1, sub1⟩ := ins_step hs h1
    obtain ⟨s2, sub2, b2⟩ := ih hg m1 m' s1 h2
    exact ⟨s2, sub1.trans sub2, fun r => by simp only [Bnd]; exact ⟨sub2 _ _ g1, b2 r⟩⟩
  case h_set =>
    intro k t ih hg m m' hs h
    simp only [guardFree] at hg
    simp only [addDefs] at h
    obtain ⟨m1, h1, h2⟩ := Res.bind_eq_ok h
    obtain ⟨s1, g1, sub1⟩ := ins_step hs h1
    obtain ⟨s2, sub2, b2⟩ := ih hg m1 m' s1 h2
    exact ⟨s2, sub1.trans sub2, fun r => by simp only [Bnd]; exact ⟨sub2 _ _ g1, b2 r⟩⟩
  case h_map =>
    intro k a b iha ihb hg m m' hs h
    simp only [guardFree, Bool.and_eq_true] at hg
    simp only [addDefs] at h
    obtain ⟨m1, h1, h2⟩ := Res.bind_eq_ok h
    obtain ⟨m2, h3, h4⟩ := Res.bind_eq_ok h2
    obtain ⟨m3, h5, h6⟩ := Res.bind_eq_ok h4
    obtain ⟨s1, g1, sub1⟩ := ins_step hs h1
    obtain ⟨s2, g2, sub2⟩ := ins_step s1 h3
    obtain ⟨s3, sub3, b3⟩ := iha hg.1 m2 m3 s2 h5
    obtain ⟨s4, sub4, b4⟩ := ihb hg.2 m3 m' s3 h6
    refine ⟨s4, (sub1.trans sub2).trans (sub3.trans sub4), fun r => ?_⟩
    simp only [Bnd]
    refine ⟨sub4 _ _ (sub3 _ _ (sub2 _ _ g1)), sub4 _ _ (sub3 _ _ g2), ?_, b4 r⟩
    exact Bnd_mono (c := ⟨r, m3⟩) (c' := ⟨r, m'⟩) sub4 a (b3 r)
  case h_array =>
    intro n t ih hg m m' hs h
    simp only [guardFree] at hg
    simp only [addDefs] at h
    obtain ⟨m1, h1, h2⟩ := Res.bind_eq_ok h
    obtain ⟨s1, g1, sub1⟩ := ins_step hs h1
    obtain ⟨s2, sub2, b2⟩ := ih hg m1 m' s1 h2
    exact ⟨s2, sub1.trans sub2, fun r => by simp only [Bnd]; exact ⟨sub2 _ _ g1, b2 r⟩⟩
  case h_prod =>
    intro k fs ih hg m m' hs h
    simp only [guardFree, Bool.and_eq_true] at hg
    cases k with
    | tuple =>
      simp only [addDefs] at h
      obtain ⟨m1, h1, h2⟩ := Res.bind_eq_ok h
      obtain ⟨s1, g1, sub1⟩ := ins_step hs h1
      obtain ⟨s2, sub2, b2⟩ := ih hg.2 m1 m' s1 h2
      exact ⟨s2, sub1.trans sub2, fun r => by simp only [Bnd]; exact ⟨sub2 _ _ g1, b2 r⟩⟩
    | unit =>
      simp only [addDefs] at h
      obtain ⟨s1, g1, sub1⟩ := ins_step hs h
      exact ⟨s1, sub1, fun r => by simp only [Bnd]; exact g1⟩
    | phantom =>
      simp only [addDefs] at h
      obtain ⟨s1, g1, sub1⟩ := ins_step hs h
      exact ⟨s1, sub1, fun r => by simp only [Bnd]; exact g1⟩
    | rangeFull =>
      simp only [addDefs] at h
      obtain ⟨s1, g1, sub1⟩ := ins_step hs h
      exact ⟨s1, sub1, fun r => by simp only [Bnd]; exact g1⟩
    | rangeFrom =>
      simp only [addDefs] at h
      obtain ⟨m1, h1, h2⟩ := Res.bind_eq_ok h
      obtain ⟨s1, g1, sub1⟩ := ins_step hs h1
      obtain ⟨s2, sub2, b2⟩ := ih hg.2 m1 m' s1 h2
      exact ⟨s2, sub1.trans sub2, fun r => by simp only [Bnd]; exact ⟨sub2 _ _ g1, b2 r⟩⟩
    | rangeTo =>
      simp only [addDefs] at h
      obtain ⟨m1, h1, h2⟩ := Res.bind_eq_ok h
      obtain ⟨s1, g1, sub1⟩ := ins_step hs h1
      obtain ⟨s2, sub2, b2⟩ := ih hg.2 m1 m' s1 h2
      exact ⟨s2, sub1.trans sub2, fun r => by simp only [Bnd]; exact ⟨sub2 _ _ g1, b2 r⟩⟩
    | rangeToInclusive =>
      simp only [addDefs] at h
      obtain ⟨m1, h1, h2⟩ := Res.bind_eq_ok h
      obtain ⟨s1, g1, sub1⟩ := ins_step hs h1
      obtain ⟨s2, sub2, b2⟩ := ih hg.2 m1 m' s1 h2
      exact ⟨s2, sub1.trans sub2, fun r => by simp only [Bnd]; exact ⟨sub2 _ _ g1, b2 r⟩⟩
    | range => simp at hg
    | rangeInclusive => simp at hg
    | sockV4 => simp at hg
    | sockV6 => simp at hg
    | struct n i => simp at hg
  case h_sum =>
    intro k vs ih hg m m' hs h
    simp only [guardFree, Bool.and_eq_true] at hg
    cases k with
    | option =>
      simp only [addDefs] at h
      obtain ⟨m1, h1, h2⟩ := Res.bind_eq_ok h
      obtain ⟨m2, h3, h4⟩ := Res.bind_eq_ok h2
      obtain ⟨s1, g1, sub1⟩ := ins_step hs h1
      obtain ⟨s2, sub2, b2⟩ := ih hg.2 m1 m2 s1 h3
      obtain ⟨s3, g3, sub3⟩ := ins_step s2 h4
      refine ⟨s3, sub1.trans (sub2.trans sub3), fun r => ?_⟩
      simp only [Bnd]
      exact ⟨sub3 _ _ (sub2 _ _ g1),
        BndVariants_mono (c := ⟨r, m2⟩) (c' := ⟨r, m'⟩) sub3 vs (b2 r), g3⟩
    | result =>
      simp only [addDefs] at h
      cases hp : declOfVariantPayloads vs with
      | nil => simp [hp] at h
      | cons e rest =>
        cases rest with
        | nil => simp [hp] at h
        | cons t rest2 =>
          cases rest2 with
          | cons x y => simp [hp] at h
          | nil =>
            simp only [hp] at h
            obtain ⟨m1, h1, h2⟩ := Res.bind_eq_ok h
            obtain ⟨s1, g1, sub1⟩ := ins_step hs h1
            obtain ⟨s2, sub2, b2⟩ := ih hg.2 m1 m' s1 h2
            refine ⟨s2, sub1.trans sub2, fun r => ?_⟩
            simp only [Bnd, hp]
            exact ⟨sub2 _ _ g1, b2 r⟩
    | ipAddr => simp at hg
    | derived n i => simp at hg
    | sockAddr => simp at hg
  case h_wrap =>
    intro k t ih hg m m' hs h
    simp only [guardFree] at hg
    simp only [addDefs] at h
    obtain ⟨s, sub, b⟩ := ih hg m m' hs h
    exact ⟨s, sub, fun r => by simp only [Bnd]; exact b r⟩
  case h_custom =>
    intro t ih hg m m' hs h
    simp only [guardFree] at hg
    simp only [addDefs] at h
    obtain ⟨s, sub, b⟩ := ih hg m m' hs h
    exact ⟨s, sub, fun r => by simp only [Bnd]; exact b r⟩
  case h_fnil =>
    intro _ m m' hs h
    simp only [addDefsFields] at h
    cases h
    exact ⟨hs, DSub.refl _, fun _ => trivial⟩
  case h_fcons =>
    intro n sk t fs iht ihf hg m m' hs h
    simp only [guardFreeFields, Bool.and_eq_true] at hg
    simp only [addDefsFields] at h
    obtain ⟨m1, h1, h2⟩ := Res.bind_eq_ok h
    obtain ⟨s1, sub1, b1⟩ := iht hg.1 m m1 hs h1
    obtain ⟨s2, sub2, b2⟩ := ihf hg.2 m1 m' s1 h2
    refine ⟨s2, sub1.trans sub2, fun r => ?_⟩
    simp only [BndFields]
    exact ⟨Bnd_mono (c := ⟨r, m1⟩) (c' := ⟨r, m'⟩) sub2 t (b1 r), b2 r⟩
  case h_vnil =>
    intro _ m m' hs h
    simp only [addDefsVariants] at h
    cases h
    exact ⟨hs, DSub.refl _, fun _ => trivial⟩
  case h_vcons =>
    intro n g fs vs ihf ihv hg m m' hs h
    simp only [guardFreeVariants, Bool.and_eq_true] at hg
    simp only [addDefsVariants] at h
    obtain ⟨m1, h1, h2⟩ := Res.bind_eq_ok h
    obtain ⟨s1, sub1, b1⟩ := ihf hg.1 m m1 hs h1
    obtain ⟨s2, sub2, b2⟩ := ihv hg.2 m1 m' s1 h2
    refine ⟨s2, sub1.trans sub2, fun r => ?_⟩
    simp only [BndVariants]
    exact ⟨BndFields_mono (c := ⟨r, m1⟩) (c' := ⟨r, m'⟩) sub2 fs (b1 r), b2 r⟩

end Borsh
