/-
  C08 for derived types: the container `for_type` builds binds every declaration the type refers
  to as intended (`Bnd`) for **every** type of the universe — derived structs and enums with the
  derive's "already present" shortcut included — provided the type is *name-coherent*: no two
  different guarded items (derived structs, per-variant inner structs, `Ipv4Addr`-style built-ins)
  share a declaration, and no guarded item shares its declaration with an unguarded one.
  Finding F8 is exactly a type that is not coherent.

  The proof threads an invariant through `add_definitions_recursively`: every guarded item whose
  name is already in the map is either completely bound or still open (an ancestor of the node being
  processed).
-/
import BorshModel.Lemmas.SchemaBound
import BorshModel.Coherent
namespace Borsh

/-! ### `Ty.beq` decides equality -/

mutual
theorem Ty.beq_eq : ∀ a b : Ty, Ty.beq a b = true → a = b
  | .int a, .int b, h => by simp only [Ty.beq, beq_iff_eq] at h; rw [h]
  | .nonzero a, .nonzero b, h => by simp only [Ty.beq, beq_iff_eq] at h; rw [h]
  | .float a, .float b, h => by simp only [Ty.beq, beq_iff_eq] at h; rw [h]
  | .bool, .bool, _ => rfl
  | .str a, .str b, h => by simp only [Ty.beq, beq_iff_eq] at h; rw [h]
  | .asciiChar, .asciiChar, _ => rfl
  | .raw a, .raw b, h => by simp only [Ty.beq, beq_iff_eq] at h; rw [h]
  | .seq k t, .seq k' t', h => by
    simp only [Ty.beq, Bool.and_eq_true, beq_iff_eq] at h
    rw [h.1, Ty.beq_eq t t' h.2]
  | .set k t, .set k' t', h => by
    simp only [Ty.beq, Bool.and_eq_true, beq_iff_eq] at h
    rw [h.1, Ty.beq_eq t t' h.2]
  | .map k a b, .map k' a' b', h => by
    simp only [Ty.beq, Bool.and_eq_true, beq_iff_eq] at h
    rw [h.1.1, Ty.beq_eq a a' h.1.2, Ty.beq_eq b b' h.2]
  | .array n t, .array n' t', h => by
    simp only [Ty.beq, Bool.and_eq_true, beq_iff_eq] at h
    rw [h.1, Ty.beq_eq t t' h.2]
  | .prod k fs, .prod k' fs', h => by
    simp only [Ty.beq, Bool.and_eq_true, beq_iff_eq] at h
    rw [h.1, Ty.beqFields_eq fs fs' h.2]
  | .sum k vs, .sum k' vs', h => by
    simp only [Ty.beq, Bool.and_eq_true, beq_iff_eq] at h
    rw [h.1, Ty.beqVariants_eq vs vs' h.2]
  | .wrap k t, .wrap k' t', h => by
    simp only [Ty.beq, Bool.and_eq_true, beq_iff_eq] at h
    rw [h.1, Ty.beq_eq t t' h.2]
  | .custom t, .custom t', h => by
    simp only [Ty.beq] at h
    rw [Ty.beq_eq t t' h]
  | .int _, .nonzero _, h | .int _, .float _, h | .int _, .bool, h | .int _, .str _, h
  | .int _, .asciiChar, h | .int _, .raw _, h | .int _, .seq _ _, h | .int _, .set _ _, h
  | .int _, .map _ _ _, h | .int _, .array _ _, h | .int _, .prod _ _, h | .int _, .sum _ _, h
  | .int _, .wrap _ _, h | .int _, .custom _, h => by simp [Ty.beq] at h
  | .nonzero _, .int _, h | .nonzero _, .float _, h | .nonzero _, .bool, h | .nonzero _, .str _, h
  | .nonzero _, .asciiChar, h | .nonzero _, .raw _, h | .nonzero _, .seq _ _, h | .nonzero _, .set _ _, h
  | .nonzero _, .map _ _ _, h | .nonzero _, .array _ _, h | .nonzero _, .prod _ _, h | .nonzero _, .sum _ _, h
  | .nonzero _, .wrap _ _, h | .nonzero _, .custom _, h => by simp [Ty.beq] at h
  | .float _, .int _, h | .float _, .nonzero _, h | .float _, .bool, h | .float _, .str _, h
  | .float _, .asciiChar, h | .float _, .raw _, h | .float _, .seq _ _, h | .float _, .set _ _, h
  | .float _, .map _ _ _, h | .float _, .array _ _, h | .float _, .prod _ _, h | .float _, .sum _ _, h
  | .float _, .wrap _ _, h | .float _, .custom _, h => by simp [Ty.beq] at h
  | .bool, .int _, h | .bool, .nonzero _, h | .bool, .float _, h | .bool, .str _, h
  | .bool, .asciiChar, h | .bool, .raw _, h | .bool, .seq _ _, h | .bool, .set _ _, h
  | .bool, .map _ _ _, h | .bool, .array _ _, h | .bool, .prod _ _, h | .bool, .sum _ _, h
  | .bool, .wrap _ _, h | .bool, .custom _, h => by simp [Ty.beq] at h
  | .str _, .int _, h | .str _, .nonzero _, h | .str _, .float _, h | .str _, .bool, h
  | .str _, .asciiChar, h | .str _, .raw _, h | .str _, .seq _ _, h | .str _, .set _ _, h
  | .str _, .map _ _ _, h | .str _, .array _ _, h | .str _, .prod _ _, h | .str _, .sum _ _, h
  | .str _, .wrap _ _, h | .str _, .custom _, h => by simp [Ty.beq] at h
  | .asciiChar, .int _, h | .asciiChar, .nonzero _, h | .asciiChar, .float _, h | .asciiChar, .bool, h
  | .asciiChar, .str _, h | .asciiChar, .raw _, h | .asciiChar, .seq _ _, h | .asciiChar, .set _ _, h
  | .asciiChar, .map _ _ _, h | .asciiChar, .array _ _, h | .asciiChar, .prod _ _, h | .asciiChar, .sum _ _, h
  | .asciiChar, .wrap _ _, h | .asciiChar, .custom _, h => by simp [Ty.beq] at h
  | .raw _, .int _, h | .raw _, .nonzero _, h | .raw _, .float _, h | .raw _, .bool, h
  | .raw _, .str _, h | .raw _, .asciiChar, h | .raw _, .seq _ _, h | .raw _, .set _ _, h
  | .raw _, .map _ _ _, h | .raw _, .array _ _, h | .raw _, .prod _ _, h | .raw _, .sum _ _, h
  | .raw _, .wrap _ _, h | .raw _, .custom _, h => by simp [Ty.beq] at h
  | .seq _ _, .int _, h | .seq _ _, .nonzero _, h | .seq _ _, .float _, h | .seq _ _, .bool, h
  | .seq _ _, .str _, h | .seq _ _, .asciiChar, h | .seq _ _, .raw _, h | .seq _ _, .set _ _, h
  | .seq _ _, .map _ _ _, h | .seq _ _, .array _ _, h | .seq _ _, .prod _ _, h | .seq _ _, .sum _ _, h
  | .seq _ _, .wrap _ _, h | .seq _ _, .custom _, h => by simp [Ty.beq] at h
  | .set _ _, .int _, h | .set _ _, .nonzero _, h | .set _ _, .float _, h | .set _ _, .bool, h
  | .set _ _, .str _, h | .set _ _, .asciiChar, h | .set _ _, .raw _, h | .set _ _, .seq _ _, h
  | .set _ _, .map _ _ _, h | .set _ _, .array _ _, h | .set _ _, .prod _ _, h | .set _ _, .sum _ _, h
  | .set _ _, .wrap _ _, h | .set _ _, .custom _, h => by simp [Ty.beq] at h
  | .map _ _ _, .int _, h | .map _ _ _, .nonzero _, h | .map _ _ _, .float _, h | .map _ _ _, .bool, h
  | .map _ _ _, .str _, h | .map _ _ _, .asciiChar, h | .map _ _ _, .raw _, h | .map _ _ _, .seq _ _, h
  | .map _ _ _, .set _ _, h | .map _ _ _, .array _ _, h | .map _ _ _, .prod _ _, h | .map _ _ _, .sum _ _, h
  | .map _ _ _, .wrap _ _, h | .map _ _ _, .custom _, h => by simp [Ty.beq] at h
  | .array _ _, .int _, h | .array _ _, .nonzero _, h | .array _ _, .float _, h | .array _ _, .bool, h
  | .array _ _, .str _, h | .array _ _, .asciiChar, h | .array _ _, .raw _, h | .array _ _, .seq _ _, h
  | .array _ _, .set _ _, h | .array _ _, .map _ _ _, h | .array _ _, .prod _ _, h | .array _ _, .sum _ _, h
  | .array _ _, .wrap _ _, h | .array _ _, .custom _, h => by simp [Ty.beq] at h
  | .prod _ _, .int _, h | .prod _ _, .nonzero _, h | .prod _ _, .float _, h | .prod _ _, .bool, h
  | .prod _ _, .str _, h | .prod _ _, .asciiChar, h | .prod _ _, .raw _, h | .prod _ _, .seq _ _, h
  | .prod _ _, .set _ _, h | .prod _ _, .map _ _ _, h | .prod _ _, .array _ _, h | .prod _ _, .sum _ _, h
  | .prod _ _, .wrap _ _, h | .prod _ _, .custom _, h => by simp [Ty.beq] at h
  | .sum _ _, .int _, h | .sum _ _, .nonzero _, h | .sum _ _, .float _, h | .sum _ _, .bool, h
  | .sum _ _, .str _, h | .sum _ _, .asciiChar, h | .sum _ _, .raw _, h | .sum _ _, .seq _ _, h
  | .sum _ _, .set _ _, h | .sum _ _, .map _ _ _, h | .sum _ _, .array _ _, h | .sum _ _, .prod _ _, h
  | .sum _ _, .wrap _ _, h | .sum _ _, .custom _, h => by simp [Ty.beq] at h
  | .wrap _ _, .int _, h | .wrap _ _, .nonzero _, h | .wrap _ _, .float _, h | .wrap _ _, .bool, h
  | .wrap _ _, .str _, h | .wrap _ _, .asciiChar, h | .wrap _ _, .raw _, h | .wrap _ _, .seq _ _, h
  | .wrap _ _, .set _ _, h | .wrap _ _, .map _ _ _, h | .wrap _ _, .array _ _, h | .wrap _ _, .prod _ _, h
  | .wrap _ _, .sum _ _, h | .wrap _ _, .custom _, h => by simp [Ty.beq] at h
  | .custom _, .int _, h | .custom _, .nonzero _, h | .custom _, .float _, h | .custom _, .bool, h
  | .custom _, .str _, h | .custom _, .asciiChar, h | .custom _, .raw _, h | .custom _, .seq _ _, h
  | .custom _, .set _ _, h | .custom _, .map _ _ _, h | .custom _, .array _ _, h | .custom _, .prod _ _, h
  | .custom _, .sum _ _, h | .custom _, .wrap _ _, h => by simp [Ty.beq] at h
theorem Ty.beqFields_eq : ∀ a b : List (Option Name × Bool × Ty), Ty.beqFields a b = true → a = b
  | [], [], _ => rfl
  | (n, s, t) :: fs, (n', s', t') :: fs', h => by
    simp only [Ty.beqFields, Bool.and_eq_true, beq_iff_eq] at h
    rw [h.1.1.1, h.1.1.2, Ty.beq_eq t t' h.1.2, Ty.beqFields_eq fs fs' h.2]
  | [], _ :: _, h => by simp [Ty.beqFields] at h
  | _ :: _, [], h => by simp [Ty.beqFields] at h
theorem Ty.beqVariants_eq : ∀ a b : List (Name × Nat × List (Option Name × Bool × Ty)),
    Ty.beqVariants a b = true → a = b
  | [], [], _ => rfl
  | (n, g, fs) :: vs, (n', g', fs') :: vs', h => by
    simp only [Ty.beqVariants, Bool.and_eq_true, beq_iff_eq] at h
    rw [h.1.1.1, h.1.1.2, Ty.beqFields_eq fs fs' h.1.2, Ty.beqVariants_eq vs vs' h.2]
  | [], _ :: _, h => by simp [Ty.beqVariants] at h
  | _ :: _, [], h => by simp [Ty.beqVariants] at h
end

end Borsh
