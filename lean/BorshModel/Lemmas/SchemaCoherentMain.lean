/-
  The invariant threaded through `add_definitions_recursively` and the main induction
  (`adds_coh`): for a name-coherent universe of guarded items, every call leaves the type it was
  called for completely bound.
-/
import BorshModel.Lemmas.SchemaCoherent
namespace Borsh

theorem defsContain_iff (m : Defs) (d : Name) : defsContain m d = true ↔ ∃ e ∈ m, e.1 = d := by
  unfold defsContain
  simp [List.any_eq_true]

/-- every guarded item of the universe `I` whose name is in the map is completely bound, or is
still open (its fields are being processed further up the call stack) -/
def Pre (I : List Ty) (op : List Name) (m : Defs) : Prop :=
  ∀ d ∈ I, defsContain m (declOf d) = true → (∀ r, Bnd ⟨r, m⟩ d) ∨ declOf d ∈ op

/-- outcome of one call -/
structure Post (I : List Ty) (op : List Name) (m m' : Defs) (B : Container → Prop) : Prop where
  sorted : DSorted m'
  sub : DSub (dget m) (dget m')
  bnd : ∀ r, B ⟨r, m'⟩
  pre : Pre I op m'

theorem bnd_mono_defs {m m' : Defs} (h : DSub (dget m) (dget m')) (t : Ty) (r : Name)
    (hb : Bnd ⟨r, m⟩ t) : Bnd ⟨r, m'⟩ t :=
  Bnd_mono (c := ⟨r, m⟩) (c' := ⟨r, m'⟩) h t hb

theorem BndKept_mono {c c' : Container} (h : DSub c.get c'.get) :
    ∀ fs : List Field, BndKept c fs → BndKept c' fs := by
  intro fs
  induction fs with
  | nil => intro _; trivial
  | cons f fs ih =>
    obtain ⟨n, sk, t⟩ := f
    intro hb
    simp only [BndKept] at hb ⊢
    exact ⟨hb.1.imp id (Bnd_mono h t), ih hb.2⟩

theorem BndInner_mono {c c' : Container} (h : DSub c.get c'.get) (decl : Name) :
    ∀ vs : List Variant, BndInner c decl vs → BndInner c' decl vs := by
  intro vs
  induction vs with
  | nil => intro _; trivial
  | cons v vs ih =>
    obtain ⟨n, g, fs⟩ := v
    intro hb
    simp only [BndInner] at hb ⊢
    exact ⟨⟨h _ _ hb.1.1, BndKept_mono h fs hb.1.2⟩, ih hb.2⟩

/-- one `add_definition`: the invariant survives if the items named `d` (if any) are accounted for -/
theorem pre_insert {I : List Ty} {op : List Name} {m m' : Defs} {d : Name} {df : Defn}
    (hs : DSorted m) (hp : Pre I op m) (h : insertDef d df m = .ok m')
    (hn : ∀ x ∈ I, declOf x = d → (∀ r, Bnd ⟨r, m'⟩ x) ∨ declOf x ∈ op) : Pre I op m' := by
  obtain ⟨_, _, hsub, hmem⟩ := insertDef_spec d df m m' hs h
  intro x hx hc
  by_cases hxd : declOf x = d
  · exact hn x hx hxd
  · have : defsContain m (declOf x) = true := by
      obtain ⟨e, he, hed⟩ := (defsContain_iff m' _).mp hc
      cases hmem e he with
      | inl e1 => rw [e1] at hed; exact absurd hed.symm hxd
      | inr e1 => exact (defsContain_iff m _).mpr ⟨e, e1, hed⟩
    cases hp x hx this with
    | inl hb => exact Or.inl fun r => bnd_mono_defs hsub x r (hb r)
    | inr ho => exact Or.inr ho

/-- an unguarded insertion of a name no item carries -/
theorem step_plain {I : List Ty} {op : List Name} {m m' : Defs} {d : Name} {df : Defn}
    (hs : DSorted m) (hp : Pre I op m) (h : insertDef d df m = .ok m')
    (hn : ∀ x ∈ I, declOf x ≠ d) :
    DSorted m' ∧ dget m' d = some df ∧ DSub (dget m) (dget m') ∧ Pre I op m' := by
  obtain ⟨a, b, c⟩ := ins_step hs h
  exact ⟨a, b, c, pre_insert hs hp h fun x hx hxd => absurd hxd (hn x hx)⟩

/-- the guard found the item's name: nothing is added, and the item is already bound -/
theorem step_present {I : List Ty} {op : List Name} {m m' : Defs} {t : Ty} {df : Defn}
    (hs : DSorted m) (hp : Pre I op m) (h : insertDef (declOf t) df m = .ok m')
    (hc : defsContain m (declOf t) = true) (ht : t ∈ I) (hop : declOf t ∉ op) :
    Post I op m m' (fun c => Bnd c t) := by
  obtain ⟨a, _, c⟩ := ins_step hs h
  have hb : ∀ r, Bnd ⟨r, m⟩ t := by
    cases hp t ht hc with
    | inl hb => exact hb
    | inr ho => exact absurd ho hop
  refine ⟨a, c, fun r => bnd_mono_defs c t r (hb r), pre_insert hs hp h fun x hx hxd => ?_⟩
  have : defsContain m (declOf x) = true := by rw [hxd]; exact hc
  cases hp x hx this with
  | inl hb => exact Or.inl fun r => bnd_mono_defs c x r (hb r)
  | inr ho => exact Or.inr ho

/-- the guard did not find the name: it is inserted and stays open while the fields are added -/
theorem step_open {I : List Ty} {op : List Name} {m m' : Defs} {d : Name} {df : Defn}
    (hs : DSorted m) (hp : Pre I op m) (h : insertDef d df m = .ok m') :
    DSorted m' ∧ dget m' d = some df ∧ DSub (dget m) (dget m') ∧ Pre I (d :: op) m' := by
  obtain ⟨a, b, c⟩ := ins_step hs h
  have hp' : Pre I (d :: op) m := fun x hx hc => (hp x hx hc).imp id fun ho => List.mem_cons_of_mem _ ho
  exact ⟨a, b, c, pre_insert hs hp' h fun x _ hxd => Or.inr (by rw [hxd]; exact List.mem_cons_self)⟩

/-- the item is complete: its name need not be open any more -/
theorem pre_close {I : List Ty} {op : List Name} {m : Defs} {t : Ty}
    (hp : Pre I (declOf t :: op) m) (hb : ∀ r, Bnd ⟨r, m⟩ t)
    (h1 : ∀ x ∈ I, declOf x = declOf t → x = t) : Pre I op m := by
  intro x hx hc
  cases hp x hx hc with
  | inl h => exact Or.inl h
  | inr ho =>
    cases List.mem_cons.mp ho with
    | inl e => rw [h1 x hx e]; exact Or.inl hb
    | inr e => exact Or.inr e

/-! ### the statement proved by induction -/

/-- what the induction assumes about a node: its items belong to the universe, and its unguarded
names are carried by no item of the universe -/
def Hyp (I : List Ty) (its : List Ty) (pn : List Name) : Prop :=
  (∀ s ∈ its, s ∈ I) ∧ (∀ n ∈ pn, ∀ d ∈ I, declOf d ≠ n)

def Goal (I : List Ty) (its : List Ty) (add : Defs → Res Unit Defs) (B : Container → Prop) : Prop :=
  ∀ op m m', DSorted m → Pre I op m → (∀ s ∈ its, declOf s ∉ op) → add m = .ok m' → Post I op m m' B

def AddsC (I : List Ty) (t : Ty) : Prop :=
  Hyp I (items t) (plainNames t) → rangesOk t = true →
    Goal I (items t) (addDefs t) (fun c => Bnd c t)

def AddsCF (I : List Ty) (fs : List Field) : Prop :=
  (Hyp I (itemsFields fs) (plainNamesFields fs) → rangesOkFields fs = true →
    Goal I (itemsFields fs) (addDefsFields fs) (fun c => BndFields c fs)) ∧
  (Hyp I (itemsKept fs) (plainNamesKept fs) → rangesOkKept fs = true →
    Goal I (itemsKept fs) (addDefsKept fs) (fun c => BndKept c fs)) ∧
  (∀ n s t rest, fs = (n, s, t) :: rest → AddsC I t)

def AddsCV (I : List Ty) (vs : List Variant) : Prop :=
  (Hyp I (itemsVariants vs) (plainNamesVariants vs) → rangesOkVariants vs = true →
    Goal I (itemsVariants vs) (addDefsVariants vs) (fun c => BndVariants c vs)) ∧
  (∀ decl, Hyp I (itemsInner decl vs) (plainNamesInner vs) → rangesOkInner vs = true →
    Goal I (itemsInner decl vs) (addDefsInner decl vs) (fun c => BndInner c decl vs))

theorem Hyp.sub {I : List Ty} {its its' : List Ty} {pn pn' : List Name} (h : Hyp I its pn)
    (h1 : ∀ s ∈ its', s ∈ its) (h2 : ∀ n ∈ pn', n ∈ pn) : Hyp I its' pn' :=
  ⟨fun s hs => h.1 s (h1 s hs), fun n hn => h.2 n (h2 n hn)⟩

/-- a node that is a single unguarded insertion -/
theorem addsC_leaf {I : List Ty} {t : Ty} {d : Name} {df : Defn}
    (hadd : ∀ m, addDefs t m = insertDef d df m) (hmem : d ∈ plainNames t)
    (hb : ∀ (r : Name) (m' : Defs), dget m' d = some df → Bnd ⟨r, m'⟩ t) : AddsC I t := by
  intro hy _ op m m' hs hp _ h
  rw [hadd] at h
  obtain ⟨a, b, c, p⟩ := step_plain hs hp h (hy.2 d hmem)
  exact ⟨a, c, fun r => hb r m' b, p⟩

/-- a node that inserts its own declaration without a guard and then recurses into one child -/
theorem addsC_wrap1 {I : List Ty} {t u : Ty} {d : Name} {df : Defn}
    (hadd : ∀ m, addDefs t m = (insertDef d df m).bind fun m => addDefs u m)
    (hit : items t = items u) (hpn : plainNames t = d :: plainNames u) (hr : rangesOk t = rangesOk u)
    (hb : ∀ c, Bnd c t ↔ (c.get d = some df ∧ Bnd c u)) (ih : AddsC I u) : AddsC I t := by
  intro hy hro op m m' hs hp hop h
  rw [hadd] at h
  obtain ⟨m1, h1, h2⟩ := Res.bind_eq_ok h
  obtain ⟨s1, g1, sub1, p1⟩ := step_plain hs hp h1 (hy.2 d (by rw [hpn]; exact List.mem_cons_self))
  have hy' : Hyp I (items u) (plainNames u) :=
    hy.sub (fun s hs => by rw [hit]; exact hs) (fun n hn => by rw [hpn]; exact List.mem_cons_of_mem _ hn)
  obtain ⟨s2, sub2, b2, p2⟩ := ih hy' (by rw [← hr]; exact hro) op m1 m' s1 p1
    (fun s hs => hop s (by rw [hit]; exact hs)) h2
  exact ⟨s2, sub1.trans sub2, fun r => (hb _).mpr ⟨sub2 _ _ g1, b2 r⟩, p2⟩

/-- a guarded struct-like item (a derived struct, or the inner struct of an enum variant) -/
theorem item_struct {I : List Ty}
    (h1 : ∀ d ∈ I, ∀ d' ∈ I, declOf d = declOf d' → d = d')
    (h3 : ∀ d ∈ I, ∀ s ∈ itemChildren d, declOf s ≠ declOf d)
    {name : Name} {i : Bool} {fs : List Field}
    (ihK : Hyp I (itemsKept fs) (plainNamesKept fs) → rangesOkKept fs = true →
      Goal I (itemsKept fs) (addDefsKept fs) (fun c => BndKept c fs))
    (hI : Ty.prod (.struct name i) fs ∈ I) (hy : Hyp I (itemsKept fs) (plainNamesKept fs))
    (hr : rangesOkKept fs = true) (op : List Name) (m m' : Defs) (hs : DSorted m) (hp : Pre I op m)
    (hop : name ∉ op) (hopK : ∀ s ∈ itemsKept fs, declOf s ∉ op)
    (h : (if defsContain m name then insertDef name (.struct (schemaFields fs)) m
          else (insertDef name (.struct (schemaFields fs)) m).bind fun m => addDefsKept fs m) = .ok m') :
    Post I op m m' (fun c => c.get name = some (.struct (schemaFields fs)) ∧ BndKept c fs) := by
  have hd : declOf (Ty.prod (.struct name i) fs) = name := by simp only [declOf]
  have hB : ∀ c, Bnd c (Ty.prod (.struct name i) fs) ↔
      (c.get name = some (.struct (schemaFields fs)) ∧ BndKept c fs) := fun c => by simp only [Bnd]
  split at h
  · rename_i hc
    have := step_present (t := Ty.prod (.struct name i) fs) hs hp (by rw [hd]; exact h)
      (by rw [hd]; exact hc) hI (by rw [hd]; exact hop)
    exact ⟨this.sorted, this.sub, fun r => (hB _).mp (this.bnd r), this.pre⟩
  · obtain ⟨m1, e1, e2⟩ := Res.bind_eq_ok h
    obtain ⟨s1, g1, sub1, p1⟩ := step_open hs hp e1
    have hopK' : ∀ s ∈ itemsKept fs, declOf s ∉ name :: op := by
      intro s hs' hmem
      cases List.mem_cons.mp hmem with
      | inl e => exact h3 _ hI s (by simpa [itemChildren] using hs') (by rw [hd]; exact e)
      | inr e => exact hopK s hs' e
    obtain ⟨s2, sub2, b2, p2⟩ := ihK hy hr (name :: op) m1 m' s1 p1 hopK' e2
    have hbnd : ∀ r, Bnd ⟨r, m'⟩ (Ty.prod (.struct name i) fs) :=
      fun r => (hB _).mpr ⟨sub2 _ _ g1, b2 r⟩
    refine ⟨s2, sub1.trans sub2, fun r => (hB _).mp (hbnd r), ?_⟩
    exact pre_close (t := Ty.prod (.struct name i) fs) (by rw [hd]; exact p2) hbnd
      (fun x hx e => h1 x hx _ hI e)

theorem mem_app_l {α : Type} {a : α} {xs ys : List α} (h : a ∈ xs) : a ∈ xs ++ ys := List.mem_append_left _ h
theorem mem_app_r {α : Type} {a : α} {xs ys : List α} (h : a ∈ ys) : a ∈ xs ++ ys := List.mem_append_right _ h

/-- **Every `add_definitions_recursively` call leaves its type completely bound**, for a
name-coherent universe of guarded items `I`. -/
theorem adds_coh (I : List Ty)
    (h1 : ∀ d ∈ I, ∀ d' ∈ I, declOf d = declOf d' → d = d')
    (h3 : ∀ d ∈ I, ∀ s ∈ itemChildren d, declOf s ≠ declOf d) : ∀ t : Ty, AddsC I t := by
  apply Ty.induct (P := fun t => AddsC I t) (PF := fun fs => AddsCF I fs) (PV := fun vs => AddsCV I vs)
  case h_int =>
    intro k
    exact addsC_leaf (d := declOf (.int k)) (df := .primitive k.width)
      (fun m => by simp only [addDefs]) (by simp [plainNames]) (fun r m' h => by simp only [Bnd]; exact h)
  case h_nonzero =>
    intro k
    exact addsC_leaf (d := declOf (.nonzero k)) (df := .primitive k.width)
      (fun m => by simp only [addDefs]) (by simp [plainNames]) (fun r m' h => by simp only [Bnd]; exact h)
  case h_float =>
    intro k
    exact addsC_leaf (d := declOf (.float k)) (df := .primitive k.width)
      (fun m => by simp only [addDefs]) (by simp [plainNames]) (fun r m' h => by simp only [Bnd]; exact h)
  case h_bool =>
    exact addsC_leaf (d := n! "bool") (df := .primitive 1)
      (fun m => by simp only [addDefs]) (by simp [plainNames]) (fun r m' h => by simp only [Bnd]; exact h)
  case h_asciiChar =>
    exact addsC_leaf (d := n! "AsciiChar") (df := .primitive 1)
      (fun m => by simp only [addDefs]) (by simp [plainNames]) (fun r m' h => by simp only [Bnd]; exact h)
  case h_str =>
    intro k hy _ op m m' hs hp _ h
    simp only [addDefs] at h
    split at h
    · rename_i hk
      obtain ⟨m1, e1, e2⟩ := Res.bind_eq_ok h
      obtain ⟨s1, g1, sub1, p1⟩ := step_plain hs hp e1 (hy.2 _ (by simp [plainNames, hk]))
      obtain ⟨s2, g2, sub2, p2⟩ := step_plain s1 p1 e2 (hy.2 _ (by simp [plainNames, hk]))
      refine ⟨s2, sub1.trans sub2, fun r => ?_, p2⟩
      simp only [Bnd, hk, if_true]
      exact ⟨sub2 _ _ g1, g2⟩
    · rename_i hk
      obtain ⟨m1, e1, e2⟩ := Res.bind_eq_ok h
      obtain ⟨s1, g1, sub1, p1⟩ := step_plain hs hp e1 (hy.2 _ (by simp [plainNames, hk]))
      obtain ⟨s2, g2, sub2, p2⟩ := step_plain s1 p1 e2 (hy.2 _ (by simp [plainNames, hk]))
      refine ⟨s2, sub1.trans sub2, fun r => ?_, p2⟩
      simp only [Bnd, hk, if_false]
      exact ⟨sub2 _ _ g1, g2⟩
  case h_raw =>
    intro k hy _ op m m' hs hp hop h
    have hI : Ty.raw k ∈ I := hy.1 _ (by simp [items])
    have hopt : declOf (.raw k) ∉ op := hop _ (by simp [items])
    simp only [addDefs] at h
    split at h
    · rename_i hc
      exact step_present (t := .raw k) hs hp h hc hI hopt
    · obtain ⟨m1, e1, e2⟩ := Res.bind_eq_ok h
      obtain ⟨m2, e3, e4⟩ := Res.bind_eq_ok e2
      obtain ⟨s1, g1, sub1, p1⟩ := step_open hs hp e1
      obtain ⟨s2, g2, sub2, p2⟩ := step_plain s1 p1 e3 (hy.2 _ (by simp [plainNames, rawArr]))
      obtain ⟨s3, g3, sub3, p3⟩ := step_plain s2 p2 e4 (hy.2 _ (by simp [plainNames]))
      have hbnd : ∀ r, Bnd ⟨r, m'⟩ (.raw k) := fun r => by
        simp only [Bnd]
        exact ⟨sub3 _ _ (sub2 _ _ g1), sub3 _ _ g2, g3⟩
      exact ⟨s3, sub1.trans (sub2.trans sub3), hbnd,
        pre_close (t := .raw k) p3 hbnd (fun x hx e => h1 x hx _ hI e)⟩
  case h_seq =>
    intro k t ih
    exact addsC_wrap1 (d := declOf (.seq k t)) (df := defaultSeq (declOf t))
      (fun m => by simp only [addDefs]) (by simp only [items]) (by simp only [plainNames])
      (by simp only [rangesOk]) (fun c => by simp only [Bnd]) ih
  case h_set =>
    intro k t ih
    exact addsC_wrap1 (d := declOf (.set k t)) (df := defaultSeq (declOf t))
      (fun m => by simp only [addDefs]) (by simp only [items]) (by simp only [plainNames])
      (by simp only [rangesOk]) (fun c => by simp only [Bnd]) ih
  case h_array =>
    intro n t ih
    exact addsC_wrap1 (d := declOf (.array n t)) (df := .sequence 0 n n (declOf t))
      (fun m => by simp only [addDefs]) (by simp only [items]) (by simp only [plainNames])
      (by simp only [rangesOk]) (fun c => by simp only [Bnd]) ih
  case h_map =>
    intro k a b iha ihb hy hro op m m' hs hp hop h
    simp only [rangesOk, Bool.and_eq_true] at hro
    simp only [addDefs] at h
    obtain ⟨m1, e1, e2⟩ := Res.bind_eq_ok h
    obtain ⟨m2, e3, e4⟩ := Res.bind_eq_ok e2
    obtain ⟨m3, e5, e6⟩ := Res.bind_eq_ok e4
    obtain ⟨s1, g1, sub1, p1⟩ := step_plain hs hp e1 (hy.2 _ (by simp [plainNames]))
    obtain ⟨s2, g2, sub2, p2⟩ := step_plain s1 p1 e3 (hy.2 _ (by simp [plainNames]))
    have hya : Hyp I (items a) (plainNames a) :=
      hy.sub (fun s hs => by simp only [items]; exact mem_app_l hs)
        (fun n hn => by simp only [plainNames]; exact List.mem_cons_of_mem _ (List.mem_cons_of_mem _ (mem_app_l hn)))
    have hyb : Hyp I (items b) (plainNames b) :=
      hy.sub (fun s hs => by simp only [items]; exact mem_app_r hs)
        (fun n hn => by simp only [plainNames]; exact List.mem_cons_of_mem _ (List.mem_cons_of_mem _ (mem_app_r hn)))
    obtain ⟨s3, sub3, b3, p3⟩ := iha hya hro.1 op m2 m3 s2 p2
      (fun s hs => hop s (by simp only [items]; exact mem_app_l hs)) e5
    obtain ⟨s4, sub4, b4, p4⟩ := ihb hyb hro.2 op m3 m' s3 p3
      (fun s hs => hop s (by simp only [items]; exact mem_app_r hs)) e6
    refine ⟨s4, (sub1.trans sub2).trans (sub3.trans sub4), fun r => ?_, p4⟩
    simp only [Bnd]
    exact ⟨sub4 _ _ (sub3 _ _ (sub2 _ _ g1)), sub4 _ _ (sub3 _ _ g2), bnd_mono_defs sub4 a r (b3 r), b4 r⟩
  case h_wrap =>
    intro k t ih hy hro op m m' hs hp hop h
    simp only [rangesOk] at hro
    simp only [addDefs] at h
    obtain ⟨s, sub, b, p⟩ := ih (hy.sub (fun s hs => by simp only [items]; exact hs)
      (fun n hn => by simp only [plainNames]; exact hn)) hro op m m' hs hp
      (fun s hs => hop s (by simp only [items]; exact hs)) h
    exact ⟨s, sub, fun r => by simp only [Bnd]; exact b r, p⟩
  case h_custom =>
    intro t ih hy hro op m m' hs hp hop h
    simp only [rangesOk] at hro
    simp only [addDefs] at h
    obtain ⟨s, sub, b, p⟩ := ih (hy.sub (fun s hs => by simp only [items]; exact hs)
      (fun n hn => by simp only [plainNames]; exact hn)) hro op m m' hs hp
      (fun s hs => hop s (by simp only [items]; exact hs)) h
    exact ⟨s, sub, fun r => by simp only [Bnd]; exact b r, p⟩
  case h_fnil =>
    refine ⟨fun _ _ op m m' hs hp _ h => ?_, fun _ _ op m m' hs hp _ h => ?_, fun n s t rest e => by cases e⟩
    · simp only [addDefsFields] at h; cases h
      exact ⟨hs, DSub.refl _, fun _ => trivial, hp⟩
    · simp only [addDefsKept] at h; cases h
      exact ⟨hs, DSub.refl _, fun _ => trivial, hp⟩
  case h_fcons =>
    intro n sk t fs iht ihf
    refine ⟨fun hy hro op m m' hs hp hop h => ?_, fun hy hro op m m' hs hp hop h => ?_,
      fun n' s' t' rest e => by cases e; exact iht⟩
    · simp only [rangesOkFields, Bool.and_eq_true] at hro
      simp only [addDefsFields] at h
      obtain ⟨m1, e1, e2⟩ := Res.bind_eq_ok h
      obtain ⟨s1, sub1, b1, p1⟩ := iht
        (hy.sub (fun s hs => by simp only [itemsFields]; exact mem_app_l hs)
          (fun n hn => by simp only [plainNamesFields]; exact mem_app_l hn)) hro.1 op m m1 hs hp
        (fun s hs => hop s (by simp only [itemsFields]; exact mem_app_l hs)) e1
      obtain ⟨s2, sub2, b2, p2⟩ := ihf.1
        (hy.sub (fun s hs => by simp only [itemsFields]; exact mem_app_r hs)
          (fun n hn => by simp only [plainNamesFields]; exact mem_app_r hn)) hro.2 op m1 m' s1 p1
        (fun s hs => hop s (by simp only [itemsFields]; exact mem_app_r hs)) e2
      refine ⟨s2, sub1.trans sub2, fun r => ?_, p2⟩
      simp only [BndFields]
      exact ⟨bnd_mono_defs sub2 t r (b1 r), b2 r⟩
    · simp only [rangesOkKept, Bool.and_eq_true, Bool.or_eq_true] at hro
      simp only [addDefsKept] at h
      split at h
      · rename_i hsk
        obtain ⟨s2, sub2, b2, p2⟩ := ihf.2.1
          (hy.sub (fun s hs => by simp only [itemsKept]; exact mem_app_r hs)
            (fun n hn => by simp only [plainNamesKept]; exact mem_app_r hn)) hro.2 op m m' hs hp
          (fun s hs => hop s (by simp only [itemsKept]; exact mem_app_r hs)) h
        refine ⟨s2, sub2, fun r => ?_, p2⟩
        simp only [BndKept]
        exact ⟨Or.inl hsk, b2 r⟩
      · rename_i hsk
        have hsk' : sk = false := by simpa using hsk
        obtain ⟨m1, e1, e2⟩ := Res.bind_eq_ok h
        have hrt : rangesOk t = true := by
          cases hro.1 with
          | inl e => exact absurd e hsk
          | inr e => exact e
        obtain ⟨s1, sub1, b1, p1⟩ := iht
          (hy.sub (fun s hs => by simp only [itemsKept, hsk', Bool.false_eq_true, if_false]; exact mem_app_l hs)
            (fun n hn => by simp only [plainNamesKept, hsk', Bool.false_eq_true, if_false]; exact mem_app_l hn))
          hrt op m m1 hs hp
          (fun s hs => hop s (by simp only [itemsKept, hsk', Bool.false_eq_true, if_false]; exact mem_app_l hs)) e1
        obtain ⟨s2, sub2, b2, p2⟩ := ihf.2.1
          (hy.sub (fun s hs => by simp only [itemsKept]; exact mem_app_r hs)
            (fun n hn => by simp only [plainNamesKept]; exact mem_app_r hn)) hro.2 op m1 m' s1 p1
          (fun s hs => hop s (by simp only [itemsKept]; exact mem_app_r hs)) e2
        refine ⟨s2, sub1.trans sub2, fun r => ?_, p2⟩
        simp only [BndKept]
        exact ⟨Or.inr (bnd_mono_defs sub2 t r (b1 r)), b2 r⟩
  case h_vnil =>
    refine ⟨fun _ _ op m m' hs hp _ h => ?_, fun decl _ _ op m m' hs hp _ h => ?_⟩
    · simp only [addDefsVariants] at h; cases h
      exact ⟨hs, DSub.refl _, fun _ => trivial, hp⟩
    · simp only [addDefsInner] at h; cases h
      exact ⟨hs, DSub.refl _, fun _ => trivial, hp⟩
  case h_vcons =>
    intro vn g fs vs ihf ihv
    refine ⟨fun hy hro op m m' hs hp hop h => ?_, fun decl hy hro op m m' hs hp hop h => ?_⟩
    · simp only [rangesOkVariants, Bool.and_eq_true] at hro
      simp only [addDefsVariants] at h
      obtain ⟨m1, e1, e2⟩ := Res.bind_eq_ok h
      obtain ⟨s1, sub1, b1, p1⟩ := ihf.1
        (hy.sub (fun s hs => by simp only [itemsVariants]; exact mem_app_l hs)
          (fun n hn => by simp only [plainNamesVariants]; exact mem_app_l hn)) hro.1 op m m1 hs hp
        (fun s hs => hop s (by simp only [itemsVariants]; exact mem_app_l hs)) e1
      obtain ⟨s2, sub2, b2, p2⟩ := ihv.1
        (hy.sub (fun s hs => by simp only [itemsVariants]; exact mem_app_r hs)
          (fun n hn => by simp only [plainNamesVariants]; exact mem_app_r hn)) hro.2 op m1 m' s1 p1
        (fun s hs => hop s (by simp only [itemsVariants]; exact mem_app_r hs)) e2
      refine ⟨s2, sub1.trans sub2, fun r => ?_, p2⟩
      simp only [BndVariants]
      exact ⟨BndFields_mono (c := ⟨r, m1⟩) (c' := ⟨r, m'⟩) sub2 fs (b1 r), b2 r⟩
    · simp only [rangesOkInner, Bool.and_eq_true] at hro
      simp only [addDefsInner] at h
      obtain ⟨m1, e1, e2⟩ := Res.bind_eq_ok h
      have hI : Ty.prod (.struct (decl ++ vn) false) fs ∈ I :=
        hy.1 _ (by simp only [itemsInner]; exact mem_app_l List.mem_cons_self)
      have hyK : Hyp I (itemsKept fs) (plainNamesKept fs) :=
        hy.sub (fun s hs => by simp only [itemsInner]; exact mem_app_l (List.mem_cons_of_mem _ hs))
          (fun n hn => by simp only [plainNamesInner]; exact mem_app_l hn)
      have hopn : decl ++ vn ∉ op := by
        have := hop _ (show Ty.prod (.struct (decl ++ vn) false) fs ∈ itemsInner decl ((vn, g, fs) :: vs) by
          simp only [itemsInner]; exact mem_app_l List.mem_cons_self)
        simpa only [declOf] using this
      obtain ⟨s1, sub1, b1, p1⟩ := item_struct h1 h3 ihf.2.1 hI hyK hro.1 op m m1 hs hp hopn
        (fun s hs => hop s (by simp only [itemsInner]; exact mem_app_l (List.mem_cons_of_mem _ hs))) e1
      obtain ⟨s2, sub2, b2, p2⟩ := ihv.2 decl
        (hy.sub (fun s hs => by simp only [itemsInner]; exact mem_app_r hs)
          (fun n hn => by simp only [plainNamesInner]; exact mem_app_r hn)) hro.2 op m1 m' s1 p1
        (fun s hs => hop s (by simp only [itemsInner]; exact mem_app_r hs)) e2
      refine ⟨s2, sub1.trans sub2, fun r => ?_, p2⟩
      simp only [BndInner]
      exact ⟨⟨sub2 _ _ (b1 r).1, BndKept_mono (c := ⟨r, m1⟩) (c' := ⟨r, m'⟩) sub2 fs (b1 r).2⟩, b2 r⟩
  case h_prod =>
    intro k fs ih hy hro op m m' hs hp hop h
    cases k with
    | tuple =>
      simp only [rangesOk] at hro
      simp only [addDefs] at h
      obtain ⟨m1, e1, e2⟩ := Res.bind_eq_ok h
      obtain ⟨s1, g1, sub1, p1⟩ := step_plain hs hp e1 (hy.2 _ (by simp [plainNames]))
      obtain ⟨s2, sub2, b2, p2⟩ := ih.1
        (hy.sub (fun s hs => by simp only [items]; exact hs)
          (fun n hn => by simp only [plainNames]; exact List.mem_cons_of_mem _ hn)) hro op m1 m' s1 p1
        (fun s hs => hop s (by simp only [items]; exact hs)) e2
      exact ⟨s2, sub1.trans sub2, fun r => by simp only [Bnd]; exact ⟨sub2 _ _ g1, b2 r⟩, p2⟩
    | unit =>
      simp only [addDefs] at h
      obtain ⟨s1, g1, sub1, p1⟩ := step_plain hs hp h (hy.2 _ (by simp [plainNames]))
      exact ⟨s1, sub1, fun r => by simp only [Bnd]; exact g1, p1⟩
    | phantom =>
      simp only [addDefs] at h
      obtain ⟨s1, g1, sub1, p1⟩ := step_plain hs hp h (hy.2 _ (by simp [plainNames]))
      exact ⟨s1, sub1, fun r => by simp only [Bnd]; exact g1, p1⟩
    | rangeFull =>
      simp only [addDefs] at h
      obtain ⟨s1, g1, sub1, p1⟩ := step_plain hs hp h (hy.2 _ (by simp [plainNames]))
      exact ⟨s1, sub1, fun r => by simp only [Bnd]; exact g1, p1⟩
    | rangeFrom =>
      simp only [rangesOk] at hro
      simp only [addDefs] at h
      obtain ⟨m1, e1, e2⟩ := Res.bind_eq_ok h
      obtain ⟨s1, g1, sub1, p1⟩ := step_plain hs hp e1 (hy.2 _ (by simp [plainNames]))
      obtain ⟨s2, sub2, b2, p2⟩ := ih.1
        (hy.sub (fun s hs => by simp only [items]; exact hs)
          (fun n hn => by simp only [plainNames]; exact List.mem_cons_of_mem _ hn)) hro op m1 m' s1 p1
        (fun s hs => hop s (by simp only [items]; exact hs)) e2
      exact ⟨s2, sub1.trans sub2, fun r => by simp only [Bnd]; exact ⟨sub2 _ _ g1, b2 r⟩, p2⟩
    | rangeTo =>
      simp only [rangesOk] at hro
      simp only [addDefs] at h
      obtain ⟨m1, e1, e2⟩ := Res.bind_eq_ok h
      obtain ⟨s1, g1, sub1, p1⟩ := step_plain hs hp e1 (hy.2 _ (by simp [plainNames]))
      obtain ⟨s2, sub2, b2, p2⟩ := ih.1
        (hy.sub (fun s hs => by simp only [items]; exact hs)
          (fun n hn => by simp only [plainNames]; exact List.mem_cons_of_mem _ hn)) hro op m1 m' s1 p1
        (fun s hs => hop s (by simp only [items]; exact hs)) e2
      exact ⟨s2, sub1.trans sub2, fun r => by simp only [Bnd]; exact ⟨sub2 _ _ g1, b2 r⟩, p2⟩
    | rangeToInclusive =>
      simp only [rangesOk] at hro
      simp only [addDefs] at h
      obtain ⟨m1, e1, e2⟩ := Res.bind_eq_ok h
      obtain ⟨s1, g1, sub1, p1⟩ := step_plain hs hp e1 (hy.2 _ (by simp [plainNames]))
      obtain ⟨s2, sub2, b2, p2⟩ := ih.1
        (hy.sub (fun s hs => by simp only [items]; exact hs)
          (fun n hn => by simp only [plainNames]; exact List.mem_cons_of_mem _ hn)) hro op m1 m' s1 p1
        (fun s hs => hop s (by simp only [items]; exact hs)) e2
      exact ⟨s2, sub1.trans sub2, fun r => by simp only [Bnd]; exact ⟨sub2 _ _ g1, b2 r⟩, p2⟩
    | range =>
      simp only [rangesOk, Bool.and_eq_true] at hro
      match fs, hro, ih, hy, hop, h with
      | [(n1, k1, a), (n2, k2, b)], hro, ih, hy, hop, h =>
        have hab : a = b := Ty.beq_eq a b hro.1
        subst hab
        simp only [rangesOkFields, Bool.and_eq_true] at hro
        simp only [addDefs, addDefsHead] at h
        obtain ⟨m1, e1, e2⟩ := Res.bind_eq_ok h
        obtain ⟨s1, g1, sub1, p1⟩ := step_plain hs hp e1 (hy.2 _ (by simp [plainNames]))
        obtain ⟨s2, sub2, b2, p2⟩ := ih.2.2 n1 k1 a _ rfl
          (hy.sub (fun s hs => by simp only [items, itemsHead]; exact hs)
            (fun n hn => by simp only [plainNames, plainNamesHead]; exact List.mem_cons_of_mem _ hn))
          hro.2.1 op m1 m' s1 p1 (fun s hs => hop s (by simp only [items, itemsHead]; exact hs)) e2
        exact ⟨s2, sub1.trans sub2, fun r => by
          simp only [Bnd, BndFields]; exact ⟨sub2 _ _ g1, b2 r, b2 r, trivial⟩, p2⟩
      | [], hro, _, _, _, _ => simp at hro
      | [_], hro, _, _, _, _ => simp at hro
      | _ :: _ :: _ :: _, hro, _, _, _, _ => simp at hro
    | rangeInclusive =>
      simp only [rangesOk, Bool.and_eq_true] at hro
      match fs, hro, ih, hy, hop, h with
      | [(n1, k1, a), (n2, k2, b)], hro, ih, hy, hop, h =>
        have hab : a = b := Ty.beq_eq a b hro.1
        subst hab
        simp only [rangesOkFields, Bool.and_eq_true] at hro
        simp only [addDefs, addDefsHead] at h
        obtain ⟨m1, e1, e2⟩ := Res.bind_eq_ok h
        obtain ⟨s1, g1, sub1, p1⟩ := step_plain hs hp e1 (hy.2 _ (by simp [plainNames]))
        obtain ⟨s2, sub2, b2, p2⟩ := ih.2.2 n1 k1 a _ rfl
          (hy.sub (fun s hs => by simp only [items, itemsHead]; exact hs)
            (fun n hn => by simp only [plainNames, plainNamesHead]; exact List.mem_cons_of_mem _ hn))
          hro.2.1 op m1 m' s1 p1 (fun s hs => hop s (by simp only [items, itemsHead]; exact hs)) e2
        exact ⟨s2, sub1.trans sub2, fun r => by
          simp only [Bnd, BndFields]; exact ⟨sub2 _ _ g1, b2 r, b2 r, trivial⟩, p2⟩
      | [], hro, _, _, _, _ => simp at hro
      | [_], hro, _, _, _, _ => simp at hro
      | _ :: _ :: _ :: _, hro, _, _, _, _ => simp at hro
    | sockV4 => simp [addDefs] at h
    | sockV6 => simp [addDefs] at h
    | struct name i =>
      simp only [rangesOk] at hro
      simp only [addDefs] at h
      have hI : Ty.prod (.struct name i) fs ∈ I := hy.1 _ (by simp only [items]; exact List.mem_cons_self)
      have hopn : name ∉ op := by
        have := hop _ (show Ty.prod (.struct name i) fs ∈ items (Ty.prod (.struct name i) fs) by
          simp only [items]; exact List.mem_cons_self)
        simpa only [declOf] using this
      obtain ⟨s1, sub1, b1, p1⟩ := item_struct h1 h3 ih.2.1 hI
        (hy.sub (fun s hs => by simp only [items]; exact List.mem_cons_of_mem _ hs)
          (fun n hn => by simp only [plainNames]; exact hn)) hro op m m' hs hp hopn
        (fun s hs => hop s (by simp only [items]; exact List.mem_cons_of_mem _ hs)) h
      exact ⟨s1, sub1, fun r => by simp only [Bnd]; exact b1 r, p1⟩
  case h_sum =>
    intro k vs ih hy hro op m m' hs hp hop h
    cases k with
    | option =>
      simp only [rangesOk] at hro
      simp only [addDefs] at h
      obtain ⟨m1, e1, e2⟩ := Res.bind_eq_ok h
      obtain ⟨m2, e3, e4⟩ := Res.bind_eq_ok e2
      obtain ⟨s1, g1, sub1, p1⟩ := step_plain hs hp e1 (hy.2 _ (by simp [plainNames]))
      obtain ⟨s2, sub2, b2, p2⟩ := ih.1
        (hy.sub (fun s hs => by simp only [items]; exact hs)
          (fun n hn => by simp only [plainNames]; exact List.mem_cons_of_mem _ (List.mem_cons_of_mem _ hn)))
        hro op m1 m2 s1 p1 (fun s hs => hop s (by simp only [items]; exact hs)) e3
      obtain ⟨s3, g3, sub3, p3⟩ := step_plain s2 p2 e4 (hy.2 _ (by simp [plainNames]))
      refine ⟨s3, sub1.trans (sub2.trans sub3), fun r => ?_, p3⟩
      simp only [Bnd]
      exact ⟨sub3 _ _ (sub2 _ _ g1), BndVariants_mono (c := ⟨r, m2⟩) (c' := ⟨r, m'⟩) sub3 vs (b2 r), g3⟩
    | result =>
      simp only [rangesOk] at hro
      simp only [addDefs] at h
      cases hpd : declOfVariantPayloads vs with
      | nil => simp [hpd] at h
      | cons e rest =>
        cases rest with
        | nil => simp [hpd] at h
        | cons t rest2 =>
          cases rest2 with
          | cons x y => simp [hpd] at h
          | nil =>
            simp only [hpd] at h
            obtain ⟨m1, e1, e2⟩ := Res.bind_eq_ok h
            obtain ⟨s1, g1, sub1, p1⟩ := step_plain hs hp e1 (hy.2 _ (by simp [plainNames]))
            obtain ⟨s2, sub2, b2, p2⟩ := ih.1
              (hy.sub (fun s hs => by simp only [items]; exact hs)
                (fun n hn => by simp only [plainNames]; exact List.mem_cons_of_mem _ hn))
              hro op m1 m' s1 p1 (fun s hs => hop s (by simp only [items]; exact hs)) e2
            refine ⟨s2, sub1.trans sub2, fun r => ?_, p2⟩
            simp only [Bnd, hpd]
            exact ⟨sub2 _ _ g1, b2 r⟩
    | ipAddr =>
      simp only [rangesOk] at hro
      simp only [addDefs] at h
      obtain ⟨m1, e1, e2⟩ := Res.bind_eq_ok h
      obtain ⟨s1, sub1, b1, p1⟩ := ih.2 _
        (hy.sub (fun s hs => by simp only [items]; exact hs)
          (fun n hn => by simp only [plainNames]; exact List.mem_cons_of_mem _ hn))
        hro op m m1 hs hp (fun s hs => hop s (by simp only [items]; exact hs)) e1
      obtain ⟨s2, g2, sub2, p2⟩ := step_plain s1 p1 e2 (hy.2 _ (by simp [plainNames]))
      refine ⟨s2, sub1.trans sub2, fun r => ?_, p2⟩
      simp only [Bnd]
      exact ⟨BndInner_mono (c := ⟨r, m1⟩) (c' := ⟨r, m'⟩) sub2 _ vs (b1 r), g2⟩
    | derived name i =>
      simp only [rangesOk] at hro
      simp only [addDefs] at h
      obtain ⟨m1, e1, e2⟩ := Res.bind_eq_ok h
      obtain ⟨s1, sub1, b1, p1⟩ := ih.2 _
        (hy.sub (fun s hs => by simp only [items]; exact hs)
          (fun n hn => by simp only [plainNames]; exact List.mem_cons_of_mem _ hn))
        hro op m m1 hs hp (fun s hs => hop s (by simp only [items]; exact hs)) e1
      obtain ⟨s2, g2, sub2, p2⟩ := step_plain s1 p1 e2 (hy.2 _ (by simp [plainNames]))
      refine ⟨s2, sub1.trans sub2, fun r => ?_, p2⟩
      simp only [Bnd]
      exact ⟨BndInner_mono (c := ⟨r, m1⟩) (c' := ⟨r, m'⟩) sub2 _ vs (b1 r), g2⟩
    | sockAddr => simp [addDefs] at h

/-! ### name coherence of a type, and the theorem for `for_type` -/

/-- **Name coherence**: among the guarded items of the type (derived structs, per-variant inner
structs, raw address types) a declaration identifies the item; no item contains an item of its own
name; no unguarded declaration of the type is the name of an item; and the two fields of every
`Range` / `RangeInclusive` have one type.  (Rust guarantees the last; the first three say that the
type does not combine two different user types of the same name — what the crate documents as
unsupported and what finding F8 shows is not always detected.) -/
def Coherent (t : Ty) : Prop :=
  (∀ d ∈ items t, ∀ d' ∈ items t, declOf d = declOf d' → d = d') ∧
  (∀ d ∈ items t, ∀ s ∈ itemChildren d, declOf s ≠ declOf d) ∧
  (∀ n ∈ plainNames t, ∀ d ∈ items t, declOf d ≠ n) ∧ rangesOk t = true

theorem coherentB_sound (t : Ty) (h : coherentB t = true) : Coherent t := by
  unfold coherentB at h
  simp only [Bool.and_eq_true, List.all_eq_true, Bool.or_eq_true, bne_iff_ne, ne_eq] at h
  obtain ⟨⟨⟨a, b⟩, c⟩, d⟩ := h
  refine ⟨fun x hx y hy e => ?_, fun x hx s hs => b x hx s hs, fun n hn x hx => c n hn x hx, d⟩
  cases a x hx y hy with
  | inl ne => exact absurd e ne
  | inr eq => exact Ty.beq_eq x y eq

/-- **`for_type` binds every declaration as intended, for every name-coherent type** -/
theorem schemaOf_bnd (t : Ty) (c : Container) (hc : Coherent t) (h : schemaOf t = .ok c) :
    Bnd c t ∧ c.decl = declOf t := by
  unfold schemaOf at h
  obtain ⟨m, e1, e2⟩ := Res.bind_eq_ok h
  cases e2
  have hp : Pre (items t) [] [] := fun d _ hd => by simp [defsContain] at hd
  have := adds_coh (items t) hc.1 hc.2.1 t ⟨fun s hs => hs, hc.2.2.1⟩ hc.2.2.2 [] [] m
    List.Pairwise.nil hp (fun s _ hm => by cases hm) e1
  exact ⟨this.bnd _, rfl⟩

end Borsh
