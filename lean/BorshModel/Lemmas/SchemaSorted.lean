/-
  `for_type` keeps the definition map ordered and only ever adds to it — for every type of the
  universe, derived structs and enums with the "already present" shortcut included.
-/
import BorshModel.Lemmas.SchemaBound
namespace Borsh

/-- a step that keeps the map ascending by name and keeps every binding -/
def Pres (f : Defs → Res Unit Defs) : Prop :=
  ∀ m m', DSorted m → f m = .ok m' → DSorted m' ∧ DSub (dget m) (dget m')

theorem Pres.ins (d : Name) (df : Defn) : Pres (insertDef d df) := by
  intro m m' hs h
  obtain ⟨a, _, c⟩ := ins_step hs h
  exact ⟨a, c⟩

theorem Pres.id : Pres (fun m => .ok m) := by
  intro m m' hs h; cases h; exact ⟨hs, DSub.refl _⟩

theorem Pres.bind {f g : Defs → Res Unit Defs} (hf : Pres f) (hg : Pres g) :
    Pres (fun m => (f m).bind g) := by
  intro m m' hs h
  obtain ⟨m1, h1, h2⟩ := Res.bind_eq_ok h
  obtain ⟨a, b⟩ := hf m m1 hs h1
  obtain ⟨c, d⟩ := hg m1 m' a h2
  exact ⟨c, DSub.trans b d⟩

theorem Pres.ite {f g : Defs → Res Unit Defs} (c : Defs → Bool) (hf : Pres f) (hg : Pres g) :
    Pres (fun m => if c m then f m else g m) := by
  intro m m' hs h
  dsimp only at h
  split at h
  · exact hf m m' hs h
  · exact hg m m' hs h

theorem Pres.panic (p : PanicSite) : Pres (fun _ => .panic p) := by
  intro m m' _ h; cases h

theorem pres_all : ∀ t : Ty, Pres (addDefs t) := by
  apply Ty.induct (P := fun t => Pres (addDefs t))
    (PF := fun fs => Pres (addDefsFields fs) ∧ Pres (addDefsHead fs) ∧ Pres (addDefsKept fs))
    (PV := fun vs => Pres (addDefsVariants vs) ∧ ∀ decl, Pres (addDefsInner decl vs))
  case h_int => intro k; show Pres (fun m => addDefs (.int k) m); simp only [addDefs]; exact Pres.ins _ _
  case h_nonzero => intro k; show Pres (fun m => addDefs (.nonzero k) m); simp only [addDefs]; exact Pres.ins _ _
  case h_float => intro k; show Pres (fun m => addDefs (.float k) m); simp only [addDefs]; exact Pres.ins _ _
  case h_bool => show Pres (fun m => addDefs .bool m); simp only [addDefs]; exact Pres.ins _ _
  case h_asciiChar => show Pres (fun m => addDefs .asciiChar m); simp only [addDefs]; exact Pres.ins _ _
  case h_str =>
    intro k
    show Pres (fun m => addDefs (.str k) m)
    simp only [addDefs]
    cases k.isAscii
    · exact Pres.bind (Pres.ins _ _) (Pres.ins _ _)
    · exact Pres.bind (Pres.ins _ _) (Pres.ins _ _)
  case h_raw =>
    intro k
    show Pres (fun m => addDefs (.raw k) m)
    simp only [addDefs]
    exact Pres.ite _ (Pres.ins _ _) (Pres.bind (Pres.ins _ _) (Pres.bind (Pres.ins _ _) (Pres.ins _ _)))
  case h_seq =>
    intro k t ih
    show Pres (fun m => addDefs (.seq k t) m)
    simp only [addDefs]
    exact Pres.bind (Pres.ins _ _) ih
  case h_set =>
    intro k t ih
    show Pres (fun m => addDefs (.set k t) m)
    simp only [addDefs]
    exact Pres.bind (Pres.ins _ _) ih
  case h_map =>
    intro k a b iha ihb
    show Pres (fun m => addDefs (.map k a b) m)
    simp only [addDefs]
    exact Pres.bind (Pres.ins _ _) (Pres.bind (Pres.ins _ _) (Pres.bind iha ihb))
  case h_array =>
    intro n t ih
    show Pres (fun m => addDefs (.array n t) m)
    simp only [addDefs]
    exact Pres.bind (Pres.ins _ _) ih
  case h_prod =>
    intro k fs ih
    show Pres (fun m => addDefs (.prod k fs) m)
    cases k <;> simp only [addDefs]
    case tuple => exact Pres.bind (Pres.ins _ _) ih.1
    case unit => exact Pres.ins _ _
    case phantom => exact Pres.ins _ _
    case rangeFull => exact Pres.ins _ _
    case range => exact Pres.bind (Pres.ins _ _) ih.2.1
    case rangeInclusive => exact Pres.bind (Pres.ins _ _) ih.2.1
    case rangeFrom => exact Pres.bind (Pres.ins _ _) ih.1
    case rangeTo => exact Pres.bind (Pres.ins _ _) ih.1
    case rangeToInclusive => exact Pres.bind (Pres.ins _ _) ih.1
    case sockV4 => exact Pres.panic _
    case sockV6 => exact Pres.panic _
    case struct name init =>
      exact Pres.ite _ (Pres.ins _ _) (Pres.bind (Pres.ins _ _) ih.2.2)
  case h_sum =>
    intro k vs ih
    show Pres (fun m => addDefs (.sum k vs) m)
    cases k <;> simp only [addDefs]
    case option => exact Pres.bind (Pres.ins _ _) (Pres.bind ih.1 (Pres.ins _ _))
    case result =>
      split
      · exact Pres.bind (Pres.ins _ _) ih.1
      · exact Pres.panic _
    case ipAddr => exact Pres.bind (ih.2 _) (Pres.ins _ _)
    case derived name init => exact Pres.bind (ih.2 _) (Pres.ins _ _)
    case sockAddr => exact Pres.panic _
  case h_wrap =>
    intro k t ih
    show Pres (fun m => addDefs (.wrap k t) m)
    simp only [addDefs]; exact ih
  case h_custom =>
    intro t ih
    show Pres (fun m => addDefs (.custom t) m)
    simp only [addDefs]; exact ih
  case h_fnil =>
    refine ⟨?_, ?_, ?_⟩
    · show Pres (fun m => addDefsFields [] m); simp only [addDefsFields]; exact Pres.id
    · show Pres (fun m => addDefsHead [] m); simp only [addDefsHead]; exact Pres.id
    · show Pres (fun m => addDefsKept [] m); simp only [addDefsKept]; exact Pres.id
  case h_fcons =>
    intro n s t fs iht ihf
    refine ⟨?_, ?_, ?_⟩
    · show Pres (fun m => addDefsFields ((n, s, t) :: fs) m)
      simp only [addDefsFields]; exact Pres.bind iht ihf.1
    · show Pres (fun m => addDefsHead ((n, s, t) :: fs) m)
      simp only [addDefsHead]; exact iht
    · show Pres (fun m => addDefsKept ((n, s, t) :: fs) m)
      simp only [addDefsKept]
      cases s
      · exact Pres.bind iht ihf.2.2
      · exact ihf.2.2
  case h_vnil =>
    refine ⟨?_, fun decl => ?_⟩
    · show Pres (fun m => addDefsVariants [] m); simp only [addDefsVariants]; exact Pres.id
    · show Pres (fun m => addDefsInner decl [] m); simp only [addDefsInner]; exact Pres.id
  case h_vcons =>
    intro n g fs vs ihf ihv
    refine ⟨?_, fun decl => ?_⟩
    · show Pres (fun m => addDefsVariants ((n, g, fs) :: vs) m)
      simp only [addDefsVariants]; exact Pres.bind ihf.1 ihv.1
    · show Pres (fun m => addDefsInner decl ((n, g, fs) :: vs) m)
      simp only [addDefsInner]
      exact Pres.bind (Pres.ite _ (Pres.ins _ _) (Pres.bind (Pres.ins _ _) ihf.2.2)) (ihv.2 decl)

/-- the definitions of every generated container are in strictly ascending name order -/
theorem schemaOf_sorted (t : Ty) (c : Container) (h : schemaOf t = .ok c) : DSorted c.defs := by
  unfold schemaOf at h
  obtain ⟨m, h1, h2⟩ := Res.bind_eq_ok h
  cases h2
  exact (pres_all t [] m List.Pairwise.nil h1).1

end Borsh
