/-
  The scripted reader in closed form: whatever the fragmentation and wherever transient
  `Interrupted` results occur, `read_exact(n)` and the byte-vector loop deliver exactly the next
  `n` bytes of the stream (or end-of-stream), and consume nothing beyond them.
-/
import BorshModel.Io
namespace Borsh

theorem consumeIntr_total (intr : List (Nat × Nat)) (o : Nat) (h : 0 < pendingAt intr o) :
    totalPending (consumeIntr intr o) + 1 = totalPending intr := by
  induction intr with
  | nil => simp [pendingAt] at h
  | cons p rest ih =>
    obtain ⟨o', n⟩ := p
    simp only [consumeIntr]
    by_cases hc : (o' == o && decide (n > 0)) = true
    · simp only [hc, if_true, totalPending]
      simp at hc; omega
    · simp only [hc, Bool.false_eq_true, if_false, totalPending]
      have : 0 < pendingAt rest o := by
        simp only [pendingAt] at h
        simp at hc
        by_cases he : (o' == o) = true
        · have : n = 0 := by
            have := hc (by simpa using he); omega
          simp [he, this] at h; exact h
        · simp [he] at h; exact h
      have := ih this
      omega

theorem limit_pos {c n : Nat} (h : 0 < n) : 0 < limit c n ∧ limit c n ≤ n := by
  unfold limit
  split
  · exact ⟨h, Nat.le_refl _⟩
  · constructor <;> omega

/-- a transfer moves at least one byte and at most the buffer -/
theorem xferLen_bounds (sc : Script) (intr : List (Nat × Nat)) (pos n : Nat) (h : 0 < n) :
    0 < xferLen sc intr pos n ∧ xferLen sc intr pos n ≤ n := by
  unfold xferLen
  have h1 := limit_pos (c := sc.chunkAt pos) h
  have h2 := limit_pos (c := eventCap sc intr pos) h1.1
  exact ⟨h2.1, Nat.le_trans h2.2 h1.2⟩

/-- the reader state after some reads: same stream, position advanced, some interrupts consumed -/
structure Advanced (s s' : RState) (k : Nat) : Prop where
  data : s'.data = s.data
  pos : s'.pos = s.pos + k
  intr : totalPending s'.intr ≤ totalPending s.intr

theorem Advanced.refl (s : RState) : Advanced s s 0 := ⟨rfl, rfl, Nat.le_refl _⟩

/-- closed form of `read_exact` on a script without a hard stop -/
theorem readExactLoop_closed (sc : Script) (hstop : sc.stop = none) :
    ∀ (fuel n : Nat) (acc : Bytes) (s : RState),
      (n - acc.length) + totalPending s.intr < fuel → acc.length ≤ n → s.pos ≤ s.data.length →
      (n - acc.length ≤ s.data.length - s.pos →
        ∃ s', readExactLoop sc fuel n acc s =
            .ok (acc ++ (s.data.drop s.pos).take (n - acc.length), s') ∧
          Advanced s s' (n - acc.length)) ∧
      (¬ n - acc.length ≤ s.data.length - s.pos → readExactLoop sc fuel n acc s = .err eEof) := by
  intro fuel
  induction fuel with
  | zero => intro n acc s h; omega
  | succ fuel ih =>
    intro n acc s hf hacc hpos
    unfold readExactLoop
    by_cases hlt : acc.length < n
    · simp only [hlt, if_true]
      unfold scriptRead
      by_cases hp : pendingAt s.intr s.pos > 0
      · -- an `Interrupted` result: retry with one interrupt consumed
        simp only [hp, if_true]
        have hcons := consumeIntr_total s.intr s.pos hp
        have := ih n acc (afterIntr s) (by simp only [afterIntr]; omega) hacc hpos
        simp only [afterIntr] at this ⊢
        constructor
        · intro hle
          obtain ⟨s', h1, h2⟩ := this.1 hle
          exact ⟨s', h1, ⟨h2.data, h2.pos, by have := h2.intr; simp at this; omega⟩⟩
        · intro hgt; exact this.2 hgt
      · simp only [hp, if_false, hstop]
        have hx := xferLen_bounds sc s.intr s.pos (n - acc.length) (by omega)
        generalize hk : xferLen sc s.intr s.pos (n - acc.length) = k at hx
        by_cases hrem : s.data.length - s.pos = 0
        · -- end of stream
          have : (List.take k (List.drop s.pos s.data)).length = 0 := by
            simp [List.length_take, List.length_drop]; omega
          simp only [this, beq_self_eq_true, if_true]
          constructor
          · intro hle; omega
          · intro _; trivial
        · have hgl : (List.take k (List.drop s.pos s.data)).length = min k (s.data.length - s.pos) := by
            simp [List.length_take, List.length_drop]
          have hne : ¬ ((List.take k (List.drop s.pos s.data)).length == 0) = true := by
            rw [hgl]; simp; omega
          simp only [hne, Bool.false_eq_true, if_false]
          let s1 : RState := { s with pos := s.pos + (List.take k (List.drop s.pos s.data)).length }
          have ih1 := ih n (acc ++ List.take k (List.drop s.pos s.data)) s1
            (by simp only [List.length_append, hgl, s1]; omega)
            (by simp only [List.length_append, hgl]; omega)
            (by simp only [s1, hgl]; omega)
          simp only [List.length_append, hgl, s1] at ih1
          simp only [hgl]
          constructor
          · intro hle
            have hle1 : n - (acc.length + min k (s.data.length - s.pos)) ≤
                s.data.length - (s.pos + min k (s.data.length - s.pos)) := by omega
            obtain ⟨s', h1, h2⟩ := ih1.1 hle1
            refine ⟨s', ?_, ⟨h2.data, ?_, h2.intr⟩⟩
            · rw [h1]
              congr 2
              rw [List.append_assoc]
              congr 1
              have hmin : min k (s.data.length - s.pos) = k := by omega
              rw [hmin, ← List.drop_drop]
              have : n - acc.length = k + (n - (acc.length + k)) := by omega
              conv => rhs; rw [this, List.take_add]
            · have := h2.pos; simp at this; omega
          · intro hgt
            exact ih1.2 (by omega)
    · simp only [hlt, if_false]
      have : n - acc.length = 0 := by omega
      constructor
      · intro _; exact ⟨s, by simp [this], by rw [this]; exact Advanced.refl s⟩
      · intro h; omega

/-- closed form of the byte-vector loop on a script without a hard stop -/
theorem bulkLoopI_closed (sc : Script) (hstop : sc.stop = none) :
    ∀ (fuel len cap : Nat) (acc : Bytes) (s : RState),
      (len - acc.length) + totalPending s.intr < fuel → acc.length ≤ cap → cap ≤ len →
      (0 < cap ∨ len = 0) → s.pos ≤ s.data.length →
      (len - acc.length ≤ s.data.length - s.pos →
        ∃ s', bulkLoopI sc fuel len cap acc s =
            .ok (acc ++ (s.data.drop s.pos).take (len - acc.length), s') ∧
          Advanced s s' (len - acc.length)) ∧
      (¬ len - acc.length ≤ s.data.length - s.pos →
        bulkLoopI sc fuel len cap acc s = .err eUnexpectedLength) := by
  intro fuel
  induction fuel with
  | zero => intro len cap acc s h; omega
  | succ fuel ih =>
    intro len cap acc s hf hacc hcap hcpos hpos
    unfold bulkLoopI
    by_cases hlt : acc.length < len
    · simp only [hlt, if_true]
      have hcap' : acc.length < (if (acc.length == cap) = true then min (2 * cap) len else cap) ∧
          (if (acc.length == cap) = true then min (2 * cap) len else cap) ≤ len := by
        by_cases he : acc.length = cap
        · simp [he]; omega
        · have : (acc.length == cap) = false := by simp [he]
          simp [this]; omega
      generalize hc : (if (acc.length == cap) = true then min (2 * cap) len else cap) = cap' at hcap'
      unfold scriptRead
      by_cases hp : pendingAt s.intr s.pos > 0
      · simp only [hp, if_true]
        have hcons := consumeIntr_total s.intr s.pos hp
        have := ih len cap' acc (afterIntr s) (by simp only [afterIntr]; omega) (by omega) hcap'.2
          (by omega) hpos
        simp only [afterIntr] at this ⊢
        constructor
        · intro hle
          obtain ⟨s', h1, h2⟩ := this.1 hle
          exact ⟨s', h1, ⟨h2.data, h2.pos, by have := h2.intr; simp at this; omega⟩⟩
        · intro hgt; exact this.2 hgt
      · simp only [hp, if_false, hstop]
        have hx := xferLen_bounds sc s.intr s.pos (cap' - acc.length) (by omega)
        generalize hk : xferLen sc s.intr s.pos (cap' - acc.length) = k at hx
        by_cases hrem : s.data.length - s.pos = 0
        · have : (List.take k (List.drop s.pos s.data)).length = 0 := by
            simp [List.length_take, List.length_drop]; omega
          simp only [this, beq_self_eq_true, if_true]
          constructor
          · intro hle; omega
          · intro _; trivial
        · have hgl : (List.take k (List.drop s.pos s.data)).length = min k (s.data.length - s.pos) := by
            simp [List.length_take, List.length_drop]
          have hne : ¬ ((List.take k (List.drop s.pos s.data)).length == 0) = true := by
            rw [hgl]; simp; omega
          simp only [hne, Bool.false_eq_true, if_false]
          let s1 : RState := { s with pos := s.pos + (List.take k (List.drop s.pos s.data)).length }
          have ih1 := ih len cap' (acc ++ List.take k (List.drop s.pos s.data)) s1
            (by simp only [List.length_append, hgl, s1]; omega)
            (by simp only [List.length_append, hgl]; omega)
            hcap'.2 (by omega)
            (by simp only [s1, hgl]; omega)
          simp only [List.length_append, hgl, s1] at ih1
          simp only [hgl]
          constructor
          · intro hle
            have hle1 : len - (acc.length + min k (s.data.length - s.pos)) ≤
                s.data.length - (s.pos + min k (s.data.length - s.pos)) := by omega
            obtain ⟨s', h1, h2⟩ := ih1.1 hle1
            refine ⟨s', ?_, ⟨h2.data, ?_, h2.intr⟩⟩
            · rw [h1]
              congr 2
              rw [List.append_assoc]
              congr 1
              have hmin : min k (s.data.length - s.pos) = k := by omega
              rw [hmin, ← List.drop_drop]
              have : len - acc.length = k + (len - (acc.length + k)) := by omega
              conv => rhs; rw [this, List.take_add]
            · have := h2.pos; simp at this; omega
          · intro hgt
            exact ih1.2 (by omega)
    · simp only [hlt, if_false]
      have : len - acc.length = 0 := by omega
      constructor
      · intro _; exact ⟨s, by simp [this], by rw [this]; exact Advanced.refl s⟩
      · intro h; omega

/-- `Rd.script` in closed form (no hard stop): `read_exact(n)` -/
theorem script_readExact (sc : Script) (hstop : sc.stop = none) (n : Nat) (s : RState)
    (hpos : s.pos ≤ s.data.length) :
    (n ≤ s.data.length - s.pos →
      ∃ s', (Rd.script sc).readExact n s = .ok ((s.data.drop s.pos).take n, s') ∧ Advanced s s' n) ∧
    (¬ n ≤ s.data.length - s.pos → (Rd.script sc).readExact n s = .err eEof) := by
  have := readExactLoop_closed sc hstop (n + totalPending s.intr + 1) n [] s (by simp) (by simp) hpos
  simpa [Rd.script, Std.readExact] using this

/-- `Rd.script` in closed form (no hard stop): `u8::vec_from_reader(len)` -/
theorem script_readBulk (sc : Script) (hstop : sc.stop = none) (len : Nat) (s : RState)
    (hpos : s.pos ≤ s.data.length) :
    (len ≤ s.data.length - s.pos →
      ∃ s', (Rd.script sc).readBulk len s = .ok ((s.data.drop s.pos).take len, s') ∧ Advanced s s' len) ∧
    (¬ len ≤ s.data.length - s.pos → (Rd.script sc).readBulk len s = .err eUnexpectedLength) := by
  have := bulkLoopI_closed sc hstop (len + totalPending s.intr + 1) len (min len bulkCap) [] s
    (by simp) (by simp) (by omega) (by simp [bulkCap]; omega) hpos
  simpa [Rd.script] using this

end Borsh
