/-
  The scripted reader with a *hard failure* at stream offset `o`, in closed form: a `read_exact`
  (or the byte-vector loop) that ends at or before `o` delivers exactly the next bytes, whatever
  the fragmentation and the transient interrupts; one that would go past `o` returns the scripted
  failure, kind and message unchanged.
-/
import BorshModel.Lemmas.ScriptRead
namespace Borsh

theorem rdFoldlMin_le (pos : Nat) : ∀ (xs : List Nat) (m : Nat),
    xs.foldl (fun m x => min m (x - pos)) m ≤ m := by
  intro xs
  induction xs with
  | nil => intro m; exact Nat.le_refl _
  | cons x xs ih =>
    intro m
    simp only [List.foldl_cons]
    exact Nat.le_trans (ih _) (Nat.min_le_left _ _)

theorem rdFoldlMin_pos (pos : Nat) : ∀ (xs : List Nat) (m : Nat), 0 < m → (∀ x ∈ xs, pos < x) →
    0 < xs.foldl (fun m x => min m (x - pos)) m := by
  intro xs
  induction xs with
  | nil => intro m hm _; exact hm
  | cons x xs ih =>
    intro m hm hx
    simp only [List.foldl_cons]
    apply ih
    · have := hx x (by simp); omega
    · intro y hy; exact hx y (by simp [hy])

/-- a stop strictly ahead caps every transfer at the distance to it -/
theorem eventCap_stop (sc : Script) (intr : List (Nat × Nat)) (pos o : Nat) (st : Stop)
    (hs : sc.stop = some (o, st)) (hlt : pos < o) :
    0 < eventCap sc intr pos ∧ eventCap sc intr pos ≤ o - pos := by
  unfold eventCap stopOffsets
  simp only [hs, List.cons_append, List.nil_append]
  have hd : decide (o > pos) = true := by simpa using hlt
  simp only [List.filter_cons, hd, if_true]
  refine ⟨rdFoldlMin_pos pos _ _ (by omega) ?_, rdFoldlMin_le pos _ _⟩
  intro x hx
  have := (List.mem_filter.mp hx).2
  simpa using this

theorem xferLen_stop (sc : Script) (intr : List (Nat × Nat)) (pos o n : Nat) (st : Stop)
    (hs : sc.stop = some (o, st)) (hlt : pos < o) :
    xferLen sc intr pos n ≤ o - pos := by
  obtain ⟨h1, h2⟩ := eventCap_stop sc intr pos o st hs hlt
  unfold xferLen limit
  have : ¬ eventCap sc intr pos = 0 := by omega
  simp only [this, if_false]
  exact Nat.le_trans (Nat.min_le_left _ _) h2

/-- closed form of `read_exact` on a script with a hard failure at offset `o` -/
theorem readExactLoop_stop (sc : Script) (o : Nat) (k : Kind) (id : Nat)
    (hstop : sc.stop = some (o, .fail k id)) (hk : k ≠ .interrupted) :
    ∀ (fuel n : Nat) (acc : Bytes) (s : RState),
      (n - acc.length) + totalPending s.intr < fuel → acc.length ≤ n → s.pos ≤ o →
      o ≤ s.data.length →
      (s.pos + (n - acc.length) ≤ o →
        ∃ s', readExactLoop sc fuel n acc s =
            .ok (acc ++ (s.data.drop s.pos).take (n - acc.length), s') ∧
          Advanced s s' (n - acc.length)) ∧
      (¬ s.pos + (n - acc.length) ≤ o → readExactLoop sc fuel n acc s = .err (userErr k id)) := by
  intro fuel
  induction fuel with
  | zero => intro n acc s h; omega
  | succ fuel ih =>
    intro n acc s hf hacc hpos hlen
    unfold readExactLoop
    by_cases hlt : acc.length < n
    · simp only [hlt, if_true]
      unfold scriptRead
      by_cases hp : pendingAt s.intr s.pos > 0
      · simp only [hp, if_true]
        have hcons := consumeIntr_total s.intr s.pos hp
        have := ih n acc (afterIntr s) (by simp only [afterIntr]; omega) hacc hpos hlen
        simp only [afterIntr] at this ⊢
        constructor
        · intro hle
          obtain ⟨s', h1, h2⟩ := this.1 hle
          exact ⟨s', h1, ⟨h2.data, h2.pos, by have := h2.intr; simp at this; omega⟩⟩
        · intro hgt; exact this.2 hgt
      · simp only [hp, if_false, hstop]
        by_cases heq : o = s.pos
        · -- the failure is met: returned unchanged
          have : (o == s.pos) = true := by simp [heq]
          simp only [this, if_true, userErr, hk, if_false]
          constructor
          · intro hle; omega
          · intro _; trivial
        · have hne : (o == s.pos) = false := by simp [heq]
          simp only [hne, Bool.false_eq_true, if_false]
          have hx := xferLen_bounds sc s.intr s.pos (n - acc.length) (by omega)
          have hcap := xferLen_stop sc s.intr s.pos o (n - acc.length) _ hstop (by omega)
          generalize hk' : xferLen sc s.intr s.pos (n - acc.length) = k' at hx hcap
          have hgl : (List.take k' (List.drop s.pos s.data)).length = k' := by
            simp [List.length_take, List.length_drop]; omega
          have hne0 : ¬ ((List.take k' (List.drop s.pos s.data)).length == 0) = true := by
            rw [hgl]; simp; omega
          simp only [hne0, Bool.false_eq_true, if_false]
          let s1 : RState := { s with pos := s.pos + (List.take k' (List.drop s.pos s.data)).length }
          have ih1 := ih n (acc ++ List.take k' (List.drop s.pos s.data)) s1
            (by simp only [List.length_append, hgl, s1]; omega)
            (by simp only [List.length_append, hgl]; omega)
            (by simp only [s1, hgl]; omega)
            (by simp only [s1]; exact hlen)
          simp only [List.length_append, hgl, s1] at ih1
          simp only [hgl]
          constructor
          · intro hle
            obtain ⟨s', h1, h2⟩ := ih1.1 (by omega)
            refine ⟨s', ?_, ⟨h2.data, ?_, h2.intr⟩⟩
            · rw [h1]
              congr 2
              rw [List.append_assoc]
              congr 1
              rw [← List.drop_drop]
              have : n - acc.length = k' + (n - (acc.length + k')) := by omega
              conv => rhs; rw [this, List.take_add]
            · have := h2.pos; simp at this; omega
          · intro hgt
            exact ih1.2 (by omega)
    · simp only [hlt, if_false]
      have : n - acc.length = 0 := by omega
      constructor
      · intro _; exact ⟨s, by simp [this], by rw [this]; exact Advanced.refl s⟩
      · intro h; omega

/-- closed form of the byte-vector loop on a script with a hard failure at offset `o` -/
theorem bulkLoopI_stop (sc : Script) (o : Nat) (k : Kind) (id : Nat)
    (hstop : sc.stop = some (o, .fail k id)) (hk : k ≠ .interrupted) :
    ∀ (fuel len cap : Nat) (acc : Bytes) (s : RState),
      (len - acc.length) + totalPending s.intr < fuel → acc.length ≤ cap → cap ≤ len →
      (0 < cap ∨ len = 0) → s.pos ≤ o → o ≤ s.data.length →
      (s.pos + (len - acc.length) ≤ o →
        ∃ s', bulkLoopI sc fuel len cap acc s =
            .ok (acc ++ (s.data.drop s.pos).take (len - acc.length), s') ∧
          Advanced s s' (len - acc.length)) ∧
      (¬ s.pos + (len - acc.length) ≤ o →
        bulkLoopI sc fuel len cap acc s = .err (userErr k id)) := by
  intro fuel
  induction fuel with
  | zero => intro len cap acc s h; omega
  | succ fuel ih =>
    intro len cap acc s hf hacc hcap hcpos hpos hlen
    unfold bulkLoopI
    by_cases hlt : acc.length < len
    · simp only [hlt, if_true]
      have hcap' : acc.length < (if (acc.length == cap) = true then min (2 * cap) len else cap) ∧
          (if (acc.length == cap) = true then min (2 * cap) len else cap) ≤ len := by
        by_cases he : acc.length = cap
        · simp [he]; omega
        · have : (acc.length == cap) = false := by simp [he]
          simp [this]; omega
      generalize hc : (if (acc.length == cap) = true then min (2 * cap) len else cap) = cap' at hcap'
      unfold scriptRead
      by_cases hp : pendingAt s.intr s.pos > 0
      · simp only [hp, if_true]
        have hcons := consumeIntr_total s.intr s.pos hp
        have := ih len cap' acc (afterIntr s) (by simp only [afterIntr]; omega) (by omega) hcap'.2
          (by omega) hpos hlen
        simp only [afterIntr] at this ⊢
        constructor
        · intro hle
          obtain ⟨s', h1, h2⟩ := this.1 hle
          exact ⟨s', h1, ⟨h2.data, h2.pos, by have := h2.intr; simp at this; omega⟩⟩
        · intro hgt; exact this.2 hgt
      · simp only [hp, if_false, hstop]
        by_cases heq : o = s.pos
        · have : (o == s.pos) = true := by simp [heq]
          simp only [this, if_true, userErr, hk, if_false]
          constructor
          · intro hle; omega
          · intro _; trivial
        · have hne : (o == s.pos) = false := by simp [heq]
          simp only [hne, Bool.false_eq_true, if_false]
          have hx := xferLen_bounds sc s.intr s.pos (cap' - acc.length) (by omega)
          have hcapx := xferLen_stop sc s.intr s.pos o (cap' - acc.length) _ hstop (by omega)
          generalize hk' : xferLen sc s.intr s.pos (cap' - acc.length) = k' at hx hcapx
          have hgl : (List.take k' (List.drop s.pos s.data)).length = k' := by
            simp [List.length_take, List.length_drop]; omega
          have hne0 : ¬ ((List.take k' (List.drop s.pos s.data)).length == 0) = true := by
            rw [hgl]; simp; omega
          simp only [hne0, Bool.false_eq_true, if_false]
          let s1 : RState := { s with pos := s.pos + (List.take k' (List.drop s.pos s.data)).length }
          have ih1 := ih len cap' (acc ++ List.take k' (List.drop s.pos s.data)) s1
            (by simp only [List.length_append, hgl, s1]; omega)
            (by simp only [List.length_append, hgl]; omega)
            hcap'.2 (by omega)
            (by simp only [s1, hgl]; omega)
            (by simp only [s1]; exact hlen)
          simp only [List.length_append, hgl, s1] at ih1
          simp only [hgl]
          constructor
          · intro hle
            obtain ⟨s', h1, h2⟩ := ih1.1 (by omega)
            refine ⟨s', ?_, ⟨h2.data, ?_, h2.intr⟩⟩
            · rw [h1]
              congr 2
              rw [List.append_assoc]
              congr 1
              rw [← List.drop_drop]
              have : len - acc.length = k' + (len - (acc.length + k')) := by omega
              conv => rhs; rw [this, List.take_add]
            · have := h2.pos; simp at this; omega
          · intro hgt
            exact ih1.2 (by omega)
    · simp only [hlt, if_false]
      have : len - acc.length = 0 := by omega
      constructor
      · intro _; exact ⟨s, by simp [this], by rw [this]; exact Advanced.refl s⟩
      · intro h; omega

theorem script_readExact_stop (sc : Script) (o : Nat) (k : Kind) (id : Nat)
    (hstop : sc.stop = some (o, .fail k id)) (hk : k ≠ .interrupted) (n : Nat) (s : RState)
    (hpos : s.pos ≤ o) (hlen : o ≤ s.data.length) :
    (s.pos + n ≤ o →
      ∃ s', (Rd.script sc).readExact n s = .ok ((s.data.drop s.pos).take n, s') ∧ Advanced s s' n) ∧
    (¬ s.pos + n ≤ o → (Rd.script sc).readExact n s = .err (userErr k id)) := by
  have := readExactLoop_stop sc o k id hstop hk (n + totalPending s.intr + 1) n [] s (by simp) (by simp)
    hpos hlen
  simpa [Rd.script, Std.readExact] using this

theorem script_readBulk_stop (sc : Script) (o : Nat) (k : Kind) (id : Nat)
    (hstop : sc.stop = some (o, .fail k id)) (hk : k ≠ .interrupted) (len : Nat) (s : RState)
    (hpos : s.pos ≤ o) (hlen : o ≤ s.data.length) :
    (s.pos + len ≤ o →
      ∃ s', (Rd.script sc).readBulk len s = .ok ((s.data.drop s.pos).take len, s') ∧ Advanced s s' len) ∧
    (¬ s.pos + len ≤ o → (Rd.script sc).readBulk len s = .err (userErr k id)) := by
  have := bulkLoopI_stop sc o k id hstop hk (len + totalPending s.intr + 1) len (min len bulkCap) [] s
    (by simp) (by simp) (by omega) (by simp [bulkCap]; omega) hpos hlen
  simpa [Rd.script] using this

end Borsh
