/-
  The scripted writer in closed form: `write_all` delivers its buffer completely however the
  writer splits or interrupts writes, and when the writer stops at offset `k` exactly the
  bytes before `k` have been delivered and the stop's own error comes back.
-/
import BorshModel.Lemmas.ScriptRead
namespace Borsh

/-- the error a stop produces -/
def stopErr : Stop → Err
  | .fail k id => userErr k id
  | .zero => eWriteZero

theorem foldl_min_le (pos : Nat) (os : List Nat) (init : Nat) :
    os.foldl (fun m x => min m (x - pos)) init ≤ init := by
  induction os generalizing init with
  | nil => simp
  | cons o os ih =>
    simp only [List.foldl_cons]
    exact Nat.le_trans (ih _) (Nat.min_le_left _ _)

theorem foldl_min_pos (pos : Nat) (os : List Nat) (init : Nat) (hi : 0 < init)
    (ho : ∀ o ∈ os, pos < o) : 0 < os.foldl (fun m x => min m (x - pos)) init := by
  induction os generalizing init with
  | nil => simpa
  | cons o os ih =>
    simp only [List.foldl_cons]
    apply ih
    · have := ho o (by simp); omega
    · intro x hx; exact ho x (by simp [hx])

/-- a stop strictly ahead caps every transfer: no write crosses the stop offset -/
theorem eventCap_stop_ahead (sc : Script) (intr : List (Nat × Nat)) (pos k : Nat) (st : Stop)
    (hs : sc.stop = some (k, st)) (hk : pos < k) :
    0 < eventCap sc intr pos ∧ eventCap sc intr pos ≤ k - pos := by
  unfold eventCap stopOffsets
  simp only [hs, List.cons_append, List.nil_append]
  have hf : (k :: List.map (fun x => x.fst) (List.filter (fun p => decide (p.snd > 0)) intr)).filter
      (fun o => decide (o > pos)) =
      k :: (List.map (fun x => x.fst) (List.filter (fun p => decide (p.snd > 0)) intr)).filter
        (fun o => decide (o > pos)) := by
    simp [List.filter_cons, hk]
  rw [hf]
  simp only
  constructor
  · apply foldl_min_pos
    · omega
    · intro o ho
      have := (List.mem_filter.mp ho).2
      simpa using this
  · exact foldl_min_le _ _ _

theorem xferLen_le_stop (sc : Script) (intr : List (Nat × Nat)) (pos n k : Nat) (st : Stop)
    (hs : sc.stop = some (k, st)) (hk : pos < k) : xferLen sc intr pos n ≤ k - pos := by
  have := eventCap_stop_ahead sc intr pos k st hs hk
  unfold xferLen limit
  have hne : ¬ eventCap sc intr pos = 0 := by omega
  simp only [hne, if_false]
  exact Nat.le_trans (Nat.min_le_left _ _) this.2

/-- the writer state after a run: more delivered, some interrupts consumed -/
structure Delivered (w w' : WState) (bs : Bytes) : Prop where
  delivered : w'.delivered = w.delivered ++ bs
  intr : totalPending w'.intr ≤ totalPending w.intr

/-- closed form of `write_all` on a scripted writer -/
theorem writeAllLoop_closed (sc : Script)
    (hkind : ∀ k kd id, sc.stop = some (k, .fail kd id) → kd ≠ .interrupted) :
    ∀ (fuel : Nat) (buf : Bytes) (w : WState),
      buf.length + totalPending w.intr < fuel →
      -- no stop inside this buffer: everything is delivered
      ((∀ k st, sc.stop = some (k, st) → k < w.delivered.length ∨ w.delivered.length + buf.length ≤ k) →
        ∃ w', writeAllLoop sc fuel buf w = (w', .ok ()) ∧ Delivered w w' buf) ∧
      -- the writer stops inside this buffer: exactly the bytes before the stop are delivered
      (∀ k st, sc.stop = some (k, st) → w.delivered.length ≤ k → k < w.delivered.length + buf.length →
        ∃ w', writeAllLoop sc fuel buf w = (w', .err (stopErr st)) ∧
          Delivered w w' (buf.take (k - w.delivered.length))) := by
  intro fuel
  induction fuel with
  | zero => intro buf w h; omega
  | succ fuel ih =>
    intro buf w hf
    unfold writeAllLoop
    by_cases hb : buf = []
    · subst hb
      simp only [List.isEmpty_nil, if_true]
      constructor
      · intro _; exact ⟨w, rfl, ⟨by simp, Nat.le_refl _⟩⟩
      · intro k st _ h1 h2; simp at h2; omega
    · have hbl : 0 < buf.length := List.length_pos_iff.mpr hb
      have hie : buf.isEmpty = false := by cases buf <;> simp_all
      simp only [hie, Bool.false_eq_true, if_false]
      unfold scriptWrite
      by_cases hp : pendingAt w.intr w.delivered.length > 0
      · -- transient interrupt: retry with one interrupt consumed
        simp only [hp, if_true]
        have hcons := consumeIntr_total w.intr w.delivered.length hp
        have := ih buf (afterIntrW w) (by simp only [afterIntrW]; omega)
        simp only [afterIntrW] at this ⊢
        constructor
        · intro hno
          obtain ⟨w', h1, h2⟩ := this.1 hno
          exact ⟨w', h1, ⟨h2.delivered, by have := h2.intr; simp at this; omega⟩⟩
        · intro k st hs h1 h2
          obtain ⟨w', h3, h4⟩ := this.2 k st hs h1 h2
          exact ⟨w', h3, ⟨h4.delivered, by have := h4.intr; simp at this; omega⟩⟩
      · simp only [hp, if_false]
        have hx := xferLen_bounds sc w.intr w.delivered.length buf.length hbl
        -- the state after a successful transfer of n bytes
        have step : ∀ n, 0 < n → n ≤ buf.length →
            (buf.drop n).length + totalPending w.intr < fuel := by
          intro n h0 h1; simp; omega
        cases hstop : sc.stop with
        | none =>
          simp only
          generalize hn : xferLen sc w.intr w.delivered.length buf.length = n at hx
          have hne : ¬ (n == 0) = true := by simp; omega
          simp only [hne, Bool.false_eq_true, if_false]
          let w1 : WState := { w with delivered := w.delivered ++ buf.take n }
          have ih1 := ih (buf.drop n) w1 (step n hx.1 hx.2)
          constructor
          · intro _
            obtain ⟨w', h1, h2⟩ := ih1.1 (by intro k st h; simp [hstop] at h)
            refine ⟨w', h1, ⟨?_, h2.intr⟩⟩
            rw [h2.delivered]; simp [w1, List.append_assoc]
          · intro k st h; simp [hstop] at h
        | some ks =>
          obtain ⟨k, st⟩ := ks
          simp only
          by_cases hat : (k == w.delivered.length) = true
          · -- the writer stops right here
            have hk : k = w.delivered.length := by simpa using hat
            simp only [hat, if_true]
            constructor
            · intro hno
              cases hno k st rfl with
              | inl h => omega
              | inr h => omega
            · intro k' st' hs' h1 h2
              have : k' = k ∧ st' = st := by
                simp at hs'; exact ⟨hs'.1.symm, hs'.2.symm⟩
              obtain ⟨rfl, rfl⟩ := this
              cases st' with
              | zero =>
                simp only [beq_self_eq_true, if_true, stopErr]
                exact ⟨w, rfl, ⟨by simp [hk], Nat.le_refl _⟩⟩
              | fail kd id =>
                simp only [stopErr]
                have hi : ¬ (userErr kd id).kind = Kind.interrupted := hkind k' kd id hstop
                simp only [hi, if_false]
                exact ⟨w, rfl, ⟨by simp [hk], Nat.le_refl _⟩⟩
          · simp only [hat, Bool.false_eq_true, if_false]
            have hkne : k ≠ w.delivered.length := by simpa using hat
            generalize hn : xferLen sc w.intr w.delivered.length buf.length = n at hx
            have hne : ¬ (n == 0) = true := by simp; omega
            simp only [hne, Bool.false_eq_true, if_false]
            let w1 : WState := { w with delivered := w.delivered ++ buf.take n }
            have ih1 := ih (buf.drop n) w1 (step n hx.1 hx.2)
            have hlen1 : w1.delivered.length = w.delivered.length + n := by
              simp [w1, List.length_take]; omega
            constructor
            · intro hno
              have hno' := hno k st rfl
              obtain ⟨w', h1, h2⟩ := ih1.1 (by
                intro k' st' hs'
                have : k' = k := by rw [hstop] at hs'; simp at hs'; exact hs'.1.symm
                subst this
                rw [hlen1]
                cases hno' with
                | inl h => left; omega
                | inr h => right; simp; omega)
              refine ⟨w', h1, ⟨?_, h2.intr⟩⟩
              rw [h2.delivered]; simp [w1, List.append_assoc]
            · intro k' st' hs' h1 h2
              have : k' = k ∧ st' = st := by
                simp at hs'; exact ⟨hs'.1.symm, hs'.2.symm⟩
              obtain ⟨rfl, rfl⟩ := this
              have hlt : w.delivered.length < k' := by omega
              have hcap := xferLen_le_stop sc w.intr w.delivered.length buf.length k' st' hstop hlt
              rw [hn] at hcap
              obtain ⟨w', h3, h4⟩ := ih1.2 k' st' hstop (by rw [hlen1]; omega) (by rw [hlen1]; simp; omega)
              refine ⟨w', h3, ⟨?_, h4.intr⟩⟩
              rw [h4.delivered, hlen1]
              simp only [w1, List.append_assoc]
              congr 1
              have : k' - w.delivered.length = n + (k' - (w.delivered.length + n)) := by omega
              rw [this, List.take_add]

end Borsh

namespace Borsh

theorem writeAll_closed (sc : Script)
    (hkind : ∀ k kd id, sc.stop = some (k, .fail kd id) → kd ≠ .interrupted) (buf : Bytes) (w : WState) :
    ((∀ k st, sc.stop = some (k, st) → k < w.delivered.length ∨ w.delivered.length + buf.length ≤ k) →
      ∃ w', writeAll sc buf w = (w', .ok ()) ∧ Delivered w w' buf) ∧
    (∀ k st, sc.stop = some (k, st) → w.delivered.length ≤ k → k < w.delivered.length + buf.length →
      ∃ w', writeAll sc buf w = (w', .err (stopErr st)) ∧
        Delivered w w' (buf.take (k - w.delivered.length))) :=
  writeAllLoop_closed sc hkind _ buf w (by omega)

/-- running a whole trace against a writer that never stops inside it -/
theorem runTrace_complete (sc : Script)
    (hkind : ∀ k kd id, sc.stop = some (k, .fail kd id) → kd ≠ .interrupted) :
    ∀ (cs : List Bytes) (status : Out Unit) (w : WState),
      (∀ k st, sc.stop = some (k, st) → k < w.delivered.length ∨ w.delivered.length + cs.flatten.length ≤ k) →
      ∃ w', runTrace sc cs status w = (w', status) ∧ w'.delivered = w.delivered ++ cs.flatten := by
  intro cs
  induction cs with
  | nil => intro status w _; exact ⟨w, rfl, by simp⟩
  | cons c cs ih =>
    intro status w hno
    simp only [runTrace]
    obtain ⟨w1, h1, h2⟩ := (writeAll_closed sc hkind c w).1 (by
      intro k st hs
      cases hno k st hs with
      | inl h => left; exact h
      | inr h => right; simp only [List.flatten_cons, List.length_append] at h; omega)
    rw [h1]
    simp only
    obtain ⟨w', h3, h4⟩ := ih status w1 (by
      intro k st hs
      rw [h2.delivered]
      cases hno k st hs with
      | inl h => left; simp; omega
      | inr h => right; simp only [List.flatten_cons, List.length_append] at h ⊢; omega)
    exact ⟨w', h3, by rw [h4, h2.delivered]; simp [List.append_assoc]⟩

/-- running a trace against a writer that stops after `k` bytes, `k` inside the trace -/
theorem runTrace_stopped (sc : Script)
    (hkind : ∀ k kd id, sc.stop = some (k, .fail kd id) → kd ≠ .interrupted) (k : Nat) (st : Stop)
    (hs : sc.stop = some (k, st)) :
    ∀ (cs : List Bytes) (status : Out Unit) (w : WState),
      w.delivered.length ≤ k → k < w.delivered.length + cs.flatten.length →
      ∃ w', runTrace sc cs status w = (w', .err (stopErr st)) ∧
        w'.delivered = w.delivered ++ cs.flatten.take (k - w.delivered.length) := by
  intro cs
  induction cs with
  | nil => intro status w h1 h2; simp at h2; omega
  | cons c cs ih =>
    intro status w h1 h2
    simp only [runTrace]
    simp only [List.flatten_cons, List.length_append] at h2
    by_cases hin : k < w.delivered.length + c.length
    · obtain ⟨w1, h3, h4⟩ := (writeAll_closed sc hkind c w).2 k st hs h1 hin
      rw [h3]
      simp only
      refine ⟨w1, rfl, ?_⟩
      rw [h4.delivered, List.flatten_cons, List.take_append_of_le_length (by omega)]
    · obtain ⟨w1, h3, h4⟩ := (writeAll_closed sc hkind c w).1 (by
        intro k' st' hs'
        have : k' = k := by rw [hs] at hs'; simp at hs'; exact hs'.1.symm
        subst this; right; omega)
      rw [h3]
      simp only
      have hl : w1.delivered.length = w.delivered.length + c.length := by rw [h4.delivered]; simp
      obtain ⟨w', h5, h6⟩ := ih status w1 (by omega) (by omega)
      refine ⟨w', h5, ?_⟩
      rw [h6, hl, h4.delivered, List.flatten_cons, List.append_assoc]
      congr 1
      have : k - w.delivered.length = c.length + (k - (w.delivered.length + c.length)) := by omega
      rw [this, List.take_append]
      congr 1
      · exact (List.take_of_length_le (by omega)).symm
      · simp

end Borsh
