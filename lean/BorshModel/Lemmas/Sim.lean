/-
  Reader simulation: if two readers answer `read_exact` and the byte-vector read alike (up to
  a relation between their states), then the whole decoder behaves alike over them, for every
  type of the universe.  Instances: slice vs scripted reader (C11), std vs shim (C13).
-/
import BorshModel.De
import BorshModel.Lemmas.Induct
namespace Borsh

section
variable {σ₁ σ₂ : Type} (R : σ₁ → σ₂ → Prop)

/-- same outcome: equal values and related states, or equal errors -/
def OutRel {α : Type} : Out (α × σ₁) → Out (α × σ₂) → Prop
  | .ok a, .ok b => a.1 = b.1 ∧ R a.2 b.2
  | .err e, .err e' => e = e'
  | .panic p, .panic q => p = q
  | _, _ => False

def SimF {α : Type} (f : σ₁ → Out (α × σ₁)) (g : σ₂ → Out (α × σ₂)) : Prop :=
  ∀ s₁ s₂, R s₁ s₂ → OutRel R (f s₁) (g s₂)

structure RdSim (rd₁ : Rd σ₁) (rd₂ : Rd σ₂) : Prop where
  exact : ∀ n, SimF R (rd₁.readExact n) (rd₂.readExact n)
  bulk : ∀ n, SimF R (rd₁.readBulk n) (rd₂.readBulk n)

variable {R}

theorem SimF.bind {α β : Type} {f : σ₁ → Out (α × σ₁)} {g : σ₂ → Out (α × σ₂)}
    {k₁ : α × σ₁ → Out (β × σ₁)} {k₂ : α × σ₂ → Out (β × σ₂)}
    (hf : SimF R f g) (hk : ∀ a, SimF R (fun s => k₁ (a, s)) (fun s => k₂ (a, s))) :
    SimF R (fun s => (f s).bind k₁) (fun s => (g s).bind k₂) := by
  intro s₁ s₂ hR
  have := hf s₁ s₂ hR
  show OutRel R ((f s₁).bind k₁) ((g s₂).bind k₂)
  cases h1 : f s₁ <;> cases h2 : g s₂ <;> simp only [h1, h2, OutRel] at this
  · rename_i a b
    obtain ⟨a1, a2⟩ := a
    obtain ⟨b1, b2⟩ := b
    simp only at this
    simp only [Out.bind_ok]
    rw [← this.1]
    exact hk a1 a2 b2 this.2
  · simpa [OutRel] using this
  · simpa [OutRel] using this

theorem SimF.map {α β : Type} {f : σ₁ → Out (α × σ₁)} {g : σ₂ → Out (α × σ₂)}
    (hf : SimF R f g) (h : α → β) :
    SimF R (fun s => (f s).map fun r => (h r.1, r.2)) (fun s => (g s).map fun r => (h r.1, r.2)) := by
  intro s₁ s₂ hR
  have := hf s₁ s₂ hR
  show OutRel R ((f s₁).map _) ((g s₂).map _)
  cases h1 : f s₁ <;> cases h2 : g s₂ <;> simp only [h1, h2, OutRel] at this
  · simp only [Out.map_ok, OutRel]; exact ⟨by rw [this.1], this.2⟩
  · simpa [OutRel] using this
  · simpa [OutRel] using this

/-- `map` with functions that pass the reader state through -/
theorem SimF.map' {α β : Type} {f : σ₁ → Out (α × σ₁)} {g : σ₂ → Out (α × σ₂)}
    (hf : SimF R f g) (m₁ : α × σ₁ → β × σ₁) (m₂ : α × σ₂ → β × σ₂)
    (hm : ∀ a s₁ s₂, (m₁ (a, s₁)).1 = (m₂ (a, s₂)).1 ∧ (m₁ (a, s₁)).2 = s₁ ∧ (m₂ (a, s₂)).2 = s₂) :
    SimF R (fun s => (f s).map m₁) (fun s => (g s).map m₂) := by
  intro s₁ s₂ hR
  have := hf s₁ s₂ hR
  show OutRel R ((f s₁).map m₁) ((g s₂).map m₂)
  cases h1 : f s₁ <;> cases h2 : g s₂ <;> simp only [h1, h2, OutRel] at this
  · rename_i a b
    obtain ⟨a1, a2⟩ := a
    obtain ⟨b1, b2⟩ := b
    simp only at this
    simp only [Out.map_ok, OutRel]
    have hh := hm a1 a2 b2
    rw [← this.1]
    exact ⟨hh.1, by rw [hh.2.1, hh.2.2]; exact this.2⟩
  · simpa [OutRel] using this
  · simpa [OutRel] using this

theorem SimF.mapErr {α : Type} {f : σ₁ → Out (α × σ₁)} {g : σ₂ → Out (α × σ₂)}
    (hf : SimF R f g) (h : Err → Err) :
    SimF R (fun s => (f s).mapErr h) (fun s => (g s).mapErr h) := by
  intro s₁ s₂ hR
  have := hf s₁ s₂ hR
  show OutRel R ((f s₁).mapErr h) ((g s₂).mapErr h)
  cases h1 : f s₁ <;> cases h2 : g s₂ <;> simp only [h1, h2, OutRel] at this
  · simpa [OutRel] using this
  · simp [OutRel, this]
  · simpa [OutRel] using this

theorem SimF.pure {α : Type} (a : α) : SimF R (fun s => Out.ok (a, s)) (fun s => Out.ok (a, s)) := by
  intro s₁ s₂ hR; exact ⟨rfl, hR⟩

theorem SimF.err {α : Type} (e : Err) :
    SimF R (fun _ => (Out.err e : Out (α × σ₁))) (fun _ => (Out.err e : Out (α × σ₂))) := by
  intro s₁ s₂ _; rfl

variable {rd₁ : Rd σ₁} {rd₂ : Rd σ₂} (h : RdSim R rd₁ rd₂)
include h

theorem readMapped_sim (n : Nat) : SimF R (readMapped rd₁ n) (readMapped rd₂ n) :=
  SimF.mapErr (h.exact n) _

theorem readU8_sim : SimF R (readU8 rd₁) (readU8 rd₂) := by
  unfold readU8
  apply SimF.bind (readMapped_sim h 1)
  intro a s₁ s₂ hR
  dsimp only
  split
  · exact ⟨rfl, hR⟩
  · rfl

theorem readU32_sim : SimF R (readU32 rd₁) (readU32 rd₂) := by
  unfold readU32
  exact SimF.map (readMapped_sim h 4) _

theorem deByteVec_sim : SimF R (deByteVec rd₁) (deByteVec rd₂) := by
  unfold deByteVec
  apply SimF.bind (readU32_sim h)
  intro n s₁ s₂ hR
  dsimp only
  split
  · exact ⟨rfl, hR⟩
  · exact h.bulk n s₁ s₂ hR

omit h in
theorem repeatDe_sim {f : σ₁ → Out (Val × σ₁)} {g : σ₂ → Out (Val × σ₂)} (hf : SimF R f g) (n : Nat) :
    SimF R (repeatDe f n) (repeatDe g n) := by
  induction n with
  | zero => intro s₁ s₂ hR; exact ⟨rfl, hR⟩
  | succ n ih =>
    show SimF R (fun s => repeatDe f (n + 1) s) (fun s => repeatDe g (n + 1) s)
    simp only [repeatDe]
    apply SimF.bind hf
    intro a
    dsimp only
    apply SimF.bind ih
    intro b s₁ s₂ hR
    exact ⟨rfl, hR⟩

theorem deVec_sim (isU8 : Bool) {f : σ₁ → Out (Val × σ₁)} {g : σ₂ → Out (Val × σ₂)} (hf : SimF R f g) :
    SimF R (deVec rd₁ isU8 f) (deVec rd₂ isU8 g) := by
  unfold deVec
  apply SimF.bind (readU32_sim h)
  intro n s₁ s₂ hR
  dsimp only
  split
  · exact ⟨rfl, hR⟩
  · cases isU8
    · exact repeatDe_sim hf n s₁ s₂ hR
    · exact SimF.map (h.bulk n) _ s₁ s₂ hR

end

end Borsh
