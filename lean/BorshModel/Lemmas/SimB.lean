/-
  Reader simulation *with a cut-off*: the left reader (think: a slice) never fails on its own
  account before some offset `o`; the right reader (think: a scripted reader with a hard failure
  at stream offset `o`) answers alike as long as a read ends at or before `o`, and answers with the
  hard failure `esc` as soon as a read would go past it.  Then, for every type of the universe:

  * if the left decode succeeds having advanced to a position `≤ o`, the right decode succeeds
    with the same value (the failure is never met);
  * if the left decode succeeds having advanced past `o`, the right decode fails with `esc`,
    unchanged;
  * if the left decode fails, the right decode fails with the same error or with `esc`.
-/
import BorshModel.De
import BorshModel.Lemmas.Induct
namespace Borsh

section
variable {σ₁ σ₂ : Type} (R : σ₁ → σ₂ → Prop) (pos : σ₁ → Nat) (o : Nat) (esc : Err)

def RelB {α : Type} (x : Out (α × σ₁)) (y : Out (α × σ₂)) : Prop :=
  match x with
  | .ok a => if pos a.2 ≤ o then ∃ s₂, y = .ok (a.1, s₂) ∧ R a.2 s₂ else y = .err esc
  | .err e => y = .err e ∨ y = .err esc
  | .panic _ => True

/-- the left computation only moves forward -/
def Mono {α : Type} (f : σ₁ → Out (α × σ₁)) : Prop :=
  ∀ s a, f s = .ok a → pos s ≤ pos a.2

def SimB {α : Type} (f : σ₁ → Out (α × σ₁)) (g : σ₂ → Out (α × σ₂)) : Prop :=
  Mono pos f ∧ ∀ s₁ s₂, R s₁ s₂ → pos s₁ ≤ o → RelB R pos o esc (f s₁) (g s₂)

structure RdSimB (rd₁ : Rd σ₁) (rd₂ : Rd σ₂) : Prop where
  exact : ∀ n, SimB R pos o esc (rd₁.readExact n) (rd₂.readExact n)
  bulk : ∀ n, SimB R pos o esc (rd₁.readBulk n) (rd₂.readBulk n)

variable {R pos o esc}

theorem SimB.bind {α β : Type} {f : σ₁ → Out (α × σ₁)} {g : σ₂ → Out (α × σ₂)}
    {k₁ : α × σ₁ → Out (β × σ₁)} {k₂ : α × σ₂ → Out (β × σ₂)}
    (hf : SimB R pos o esc f g)
    (hk : ∀ a, SimB R pos o esc (fun s => k₁ (a, s)) (fun s => k₂ (a, s))) :
    SimB R pos o esc (fun s => (f s).bind k₁) (fun s => (g s).bind k₂) := by
  refine ⟨?_, ?_⟩
  · intro s b hb
    obtain ⟨⟨a, s'⟩, h1, h2⟩ := Out.bind_eq_ok_iff.mp hb
    exact Nat.le_trans (hf.1 s _ h1) ((hk a).1 s' b h2)
  · intro s₁ s₂ hR hp
    have := hf.2 s₁ s₂ hR hp
    show RelB R pos o esc ((f s₁).bind k₁) ((g s₂).bind k₂)
    cases h1 : f s₁ with
    | ok a =>
      obtain ⟨a1, a2⟩ := a
      rw [h1] at this
      simp only [RelB] at this
      simp only [Out.bind_ok]
      by_cases hle : pos a2 ≤ o
      · simp only [hle, if_true] at this
        obtain ⟨s₂', hy, hR'⟩ := this
        rw [hy]; simp only [Out.bind_ok]
        exact (hk a1).2 a2 s₂' hR' hle
      · simp only [hle, if_false] at this
        rw [this]; simp only [Out.bind_err]
        cases h2 : k₁ (a1, a2) with
        | ok b =>
          have := (hk a1).1 a2 b h2
          simp only [RelB]
          have : ¬ pos b.2 ≤ o := by omega
          simp [this]
        | err e => simp [RelB]
        | panic p => simp [RelB]
    | err e =>
      rw [h1] at this
      simp only [RelB] at this
      simp only [Out.bind_err, RelB]
      rcases this with h | h <;> rw [h] <;> simp
    | panic p => simp [RelB]

theorem SimB.map' {α β : Type} {f : σ₁ → Out (α × σ₁)} {g : σ₂ → Out (α × σ₂)}
    (hf : SimB R pos o esc f g) (m₁ : α × σ₁ → β × σ₁) (m₂ : α × σ₂ → β × σ₂)
    (hm₁ : ∀ a s₁, (m₁ (a, s₁)).2 = s₁) (hm₂ : ∀ a s₂, (m₂ (a, s₂)).2 = s₂)
    (hm : ∀ a s₁ s₂, (m₁ (a, s₁)).1 = (m₂ (a, s₂)).1) :
    SimB R pos o esc (fun s => (f s).map m₁) (fun s => (g s).map m₂) := by
  refine ⟨?_, ?_⟩
  · intro s b hb
    obtain ⟨⟨a, s'⟩, h1, h2⟩ := Out.map_eq_ok_iff.mp hb
    have := hf.1 s _ h1
    rw [← h2, hm₁]; exact this
  · intro s₁ s₂ hR hp
    have := hf.2 s₁ s₂ hR hp
    show RelB R pos o esc ((f s₁).map m₁) ((g s₂).map m₂)
    cases h1 : f s₁ with
    | ok a =>
      obtain ⟨a1, a2⟩ := a
      rw [h1] at this
      simp only [RelB] at this
      simp only [Out.map_ok, RelB, hm₁]
      by_cases hle : pos a2 ≤ o
      · simp only [hle, if_true] at this ⊢
        obtain ⟨s₂', hy, hR'⟩ := this
        rw [hy]; simp only [Out.map_ok]
        refine ⟨s₂', ?_, hR'⟩
        congr 1
        apply Prod.ext
        · exact (hm a1 a2 s₂').symm
        · exact hm₂ a1 s₂'
      · simp only [hle, if_false] at this ⊢
        rw [this]; simp only [Out.map_err]
    | err e =>
      rw [h1] at this
      simp only [RelB] at this
      simp only [Out.map_err, RelB]
      rcases this with h | h <;> rw [h] <;> simp
    | panic p => simp [RelB]

theorem SimB.mapErr {α : Type} {f : σ₁ → Out (α × σ₁)} {g : σ₂ → Out (α × σ₂)}
    (hf : SimB R pos o esc f g) (h : Err → Err) (hesc : h esc = esc) :
    SimB R pos o esc (fun s => (f s).mapErr h) (fun s => (g s).mapErr h) := by
  refine ⟨?_, ?_⟩
  · intro s b hb
    exact hf.1 s b (Out.mapErr_eq_ok_iff.mp hb)
  · intro s₁ s₂ hR hp
    have := hf.2 s₁ s₂ hR hp
    show RelB R pos o esc ((f s₁).mapErr h) ((g s₂).mapErr h)
    cases h1 : f s₁ with
    | ok a =>
      rw [h1] at this
      simp only [RelB] at this
      simp only [Out.mapErr_ok, RelB]
      by_cases hle : pos a.2 ≤ o
      · simp only [hle, if_true] at this ⊢
        obtain ⟨s₂', hy, hR'⟩ := this
        exact ⟨s₂', by rw [hy]; rfl, hR'⟩
      · simp only [hle, if_false] at this ⊢
        rw [this]; simp [hesc]
    | err e =>
      rw [h1] at this
      simp only [RelB] at this
      simp only [Out.mapErr_err, RelB]
      rcases this with h' | h' <;> rw [h'] <;> simp [hesc]
    | panic p => simp [RelB]

/-- a continuation that only inspects the decoded value and passes the reader state through -/
theorem SimB.pureK {α β : Type} (k : α → Out β) (a : α) :
    SimB R pos o esc (fun s : σ₁ => (k a).map fun b => (b, s)) (fun s : σ₂ => (k a).map fun b => (b, s)) := by
  refine ⟨?_, ?_⟩
  · intro s b hb
    obtain ⟨x, _, h2⟩ := Out.map_eq_ok_iff.mp hb
    rw [← h2]; exact Nat.le_refl _
  · intro s₁ s₂ hR hp
    cases hk : k a with
    | ok b => simp only [Out.map_ok, RelB, hp, if_true]; exact ⟨s₂, rfl, hR⟩
    | err e => simp [RelB]
    | panic p => simp [RelB]

theorem SimB.pure {α : Type} (a : α) :
    SimB R pos o esc (fun s : σ₁ => Out.ok (a, s)) (fun s : σ₂ => Out.ok (a, s)) := by
  refine ⟨fun s b hb => (by cases hb; exact Nat.le_refl _), ?_⟩
  intro s₁ s₂ hR hp
  simp only [RelB, hp, if_true]; exact ⟨s₂, rfl, hR⟩

theorem SimB.err {α : Type} (e : Err) :
    SimB R pos o esc (fun _ : σ₁ => (Out.err e : Out (α × σ₁))) (fun _ : σ₂ => (Out.err e : Out (α × σ₂))) := by
  refine ⟨fun s b hb => (by cases hb), ?_⟩
  intro s₁ s₂ _ _; simp [RelB]

/-- the two sides are the same function of the state-free part -/
theorem SimB.congr {α : Type} {f f' : σ₁ → Out (α × σ₁)} {g g' : σ₂ → Out (α × σ₂)}
    (h : SimB R pos o esc f g) (hf : ∀ s, f' s = f s) (hg : ∀ s, g' s = g s) : SimB R pos o esc f' g' := by
  have e1 : f' = f := funext hf
  have e2 : g' = g := funext hg
  rw [e1, e2]; exact h

variable {rd₁ : Rd σ₁} {rd₂ : Rd σ₂} (h : RdSimB R pos o esc rd₁ rd₂) (hesc : mapEof esc = esc)
include h hesc

theorem readMapped_simB (n : Nat) : SimB R pos o esc (readMapped rd₁ n) (readMapped rd₂ n) :=
  SimB.mapErr (h.exact n) _ hesc

theorem readU8_simB : SimB R pos o esc (readU8 rd₁) (readU8 rd₂) := by
  unfold readU8
  apply SimB.bind (readMapped_simB h hesc 1)
  intro a
  refine SimB.congr (SimB.pureK (fun (a : Bytes) => match a with | [b] => Out.ok b | _ => .panic .sliceIndex) a) ?_ ?_
  · intro s; dsimp only
    cases a with
    | nil => rfl
    | cons b t => cases t <;> rfl
  · intro s; dsimp only
    cases a with
    | nil => rfl
    | cons b t => cases t <;> rfl

theorem readU32_simB : SimB R pos o esc (readU32 rd₁) (readU32 rd₂) := by
  unfold readU32
  exact SimB.map' (readMapped_simB h hesc 4) _ _ (fun _ _ => rfl) (fun _ _ => rfl) (fun _ _ _ => rfl)

theorem deByteVec_simB : SimB R pos o esc (deByteVec rd₁) (deByteVec rd₂) := by
  unfold deByteVec
  apply SimB.bind (readU32_simB h hesc)
  intro n
  dsimp only
  by_cases hz : (n == 0) = true
  · simp only [hz, if_true]; exact SimB.pure _
  · simp only [hz, Bool.false_eq_true, if_false]; exact h.bulk n

omit h hesc in
theorem repeatDe_simB {f : σ₁ → Out (Val × σ₁)} {g : σ₂ → Out (Val × σ₂)} (hf : SimB R pos o esc f g) (n : Nat) :
    SimB R pos o esc (repeatDe f n) (repeatDe g n) := by
  induction n with
  | zero => exact SimB.pure _
  | succ n ih =>
    show SimB R pos o esc (fun s => repeatDe f (n + 1) s) (fun s => repeatDe g (n + 1) s)
    simp only [repeatDe]
    apply SimB.bind hf
    intro a
    dsimp only
    apply SimB.bind ih
    intro b
    exact SimB.pure (a :: b)

theorem deVec_simB (isU8 : Bool) {f : σ₁ → Out (Val × σ₁)} {g : σ₂ → Out (Val × σ₂)}
    (hf : SimB R pos o esc f g) :
    SimB R pos o esc (deVec rd₁ isU8 f) (deVec rd₂ isU8 g) := by
  unfold deVec
  apply SimB.bind (readU32_simB h hesc)
  intro n
  dsimp only
  by_cases hz : (n == 0) = true
  · simp only [hz, if_true]; exact SimB.pure _
  · simp only [hz, Bool.false_eq_true, if_false]
    cases isU8
    · exact repeatDe_simB hf n
    · exact SimB.map' (h.bulk n) _ _ (fun _ _ => rfl) (fun _ _ => rfl) (fun _ _ _ => rfl)

end
end Borsh
