/-
  The slice reader in closed form: `read_exact` and the chunked loop of
  `u8::vec_from_reader` both deliver exactly `take n` / `drop n`, for every `n`
  (so the > 1 MiB path of the loop is covered by proof, not by sample vectors).
-/
import BorshModel.De
namespace Borsh

theorem sliceReadExact_ok {n : Nat} {bs b r : Bytes} (h : sliceReadExact n bs = .ok (b, r)) :
    n ≤ bs.length ∧ b = bs.take n ∧ r = bs.drop n := by
  unfold sliceReadExact at h
  split at h
  · rename_i hge
    simp at h; exact ⟨(lengthGe_iff bs n).mp hge, h.1.symm, h.2.symm⟩
  · simp at h

theorem sliceReadExact_ext {n : Nat} {p b r : Bytes} (s : Bytes)
    (h : sliceReadExact n p = .ok (b, r)) : sliceReadExact n (p ++ s) = .ok (b, r ++ s) := by
  obtain ⟨hn, hb, hr⟩ := sliceReadExact_ok h
  unfold sliceReadExact
  have : lengthGe (p ++ s) n = true := (lengthGe_iff _ _).mpr (by simp; omega)
  simp [this, hb, hr, List.take_append_of_le_length hn, List.drop_append_of_le_length hn]

/-- closed form of the loop on a slice -/
theorem bulkLoop_slice (fuel len cap : Nat) (acc s : Bytes)
    (hfuel : len - acc.length < fuel) (hacc : acc.length ≤ cap) (hcap : cap ≤ len)
    (hpos : 0 < cap ∨ len = 0) :
    bulkLoop sliceRead fuel len cap acc s =
      if len - acc.length ≤ s.length then
        .ok (acc ++ s.take (len - acc.length), s.drop (len - acc.length))
      else .err eUnexpectedLength := by
  induction fuel generalizing cap acc s with
  | zero => omega
  | succ fuel ih =>
    unfold bulkLoop
    by_cases hlt : acc.length < len
    · simp only [hlt, if_true]
      -- the buffer handed to `read` is never empty
      have hcap' : acc.length < (if (acc.length == cap) = true then min (2 * cap) len else cap) ∧
          (if (acc.length == cap) = true then min (2 * cap) len else cap) ≤ len := by
        by_cases he : acc.length = cap
        · simp [he]; omega
        · have : (acc.length == cap) = false := by simp [he]
          simp [this]; omega
      generalize hc : (if (acc.length == cap) = true then min (2 * cap) len else cap) = cap' at hcap'
      simp only [sliceRead, Out.bind_ok]
      by_cases hs : s = []
      · subst hs
        simp
        intro h; omega
      · have hslen : 0 < s.length := List.length_pos_iff.mpr hs
        have hgot : ¬ ((List.take (cap' - acc.length) s).length == 0) = true := by
          rw [List.length_take]
          have : min (cap' - acc.length) s.length ≠ 0 := by omega
          simpa using this
        simp only [hgot, if_false, Bool.false_eq_true]
        rw [ih cap' (acc ++ List.take (cap' - acc.length) s) (List.drop (cap' - acc.length) s)
              (by simp; omega) (by simp; omega) hcap'.2 (by omega)]
        simp only [List.length_append, List.length_take, List.length_drop]
        by_cases hk : cap' - acc.length ≤ s.length
        · have hmin : min (cap' - acc.length) s.length = cap' - acc.length := by omega
          rw [hmin]
          have e1 : len - (acc.length + (cap' - acc.length)) = (len - acc.length) - (cap' - acc.length) := by omega
          rw [e1]
          by_cases hle : len - acc.length ≤ s.length
          · have : len - acc.length - (cap' - acc.length) ≤ s.length - (cap' - acc.length) := by omega
            simp only [this, hle, if_true]
            congr 2
            · rw [List.append_assoc]
              congr 1
              have : len - acc.length = (cap' - acc.length) + (len - acc.length - (cap' - acc.length)) := by omega
              conv => rhs; rw [this, List.take_add]
            · rw [List.drop_drop]
              congr 1; omega
          · have : ¬ (len - acc.length - (cap' - acc.length) ≤ s.length - (cap' - acc.length)) := by omega
            simp [this, hle]
        · have hmin : min (cap' - acc.length) s.length = s.length := by omega
          rw [hmin]
          have h1 : ¬ (len - (acc.length + s.length) ≤ s.length - (cap' - acc.length)) := by omega
          have h2 : ¬ (len - acc.length ≤ s.length) := by omega
          simp [h1, h2]
    · simp only [hlt, if_false]
      have : len - acc.length = 0 := by omega
      simp [this]

/-- `u8::vec_from_reader(len, &mut slice)` -/
theorem slice_readBulk (len : Nat) (bs : Bytes) :
    Rd.slice.readBulk len bs =
      if len ≤ bs.length then .ok (bs.take len, bs.drop len) else .err eUnexpectedLength := by
  simp only [Rd.slice, bulkRead]
  rw [bulkLoop_slice (len + 1) len (min len bulkCap) [] bs (by simp) (by simp) (by omega)
        (by simp [bulkCap]; omega)]
  simp

theorem slice_readExact (n : Nat) (bs : Bytes) :
    Rd.slice.readExact n bs = if n ≤ bs.length then .ok (bs.take n, bs.drop n) else .err eEof := by
  show sliceReadExact n bs = _
  unfold sliceReadExact
  by_cases h : n ≤ bs.length
  · simp [h, (lengthGe_iff bs n).mpr h]
  · have : lengthGe bs n = false := by
      cases hl : lengthGe bs n with
      | false => rfl
      | true => exact absurd ((lengthGe_iff bs n).mp hl) h
    simp [h, this]

end Borsh
