/- Elementary facts about the insertion sort that models `slice::sort`. -/
import BorshModel.Ord
namespace Borsh

theorem mem_insertSorted (key : Val → Val) (x y : Val) (ys : List Val) :
    y ∈ insertSorted key x ys ↔ y = x ∨ y ∈ ys := by
  induction ys with
  | nil => simp [insertSorted]
  | cons z zs ih =>
    simp only [insertSorted]
    split
    · simp
    · simp only [List.mem_cons, ih]
      constructor
      · rintro (h | h | h) <;> simp [h]
      · rintro (h | h | h) <;> simp [h]

theorem length_insertSorted (key : Val → Val) (x : Val) (ys : List Val) :
    (insertSorted key x ys).length = ys.length + 1 := by
  induction ys with
  | nil => simp [insertSorted]
  | cons z zs ih =>
    simp only [insertSorted]
    split <;> simp [ih]

theorem mem_sortByKey (key : Val → Val) (y : Val) (vs : List Val) :
    y ∈ sortByKey key vs ↔ y ∈ vs := by
  induction vs with
  | nil => simp [sortByKey]
  | cons v vs ih =>
    simp only [sortByKey, List.foldr_cons] at ih ⊢
    rw [mem_insertSorted, ih]
    simp

theorem length_sortByKey (key : Val → Val) (vs : List Val) :
    (sortByKey key vs).length = vs.length := by
  induction vs with
  | nil => simp [sortByKey]
  | cons v vs ih =>
    simp only [sortByKey, List.foldr_cons] at ih ⊢
    rw [length_insertSorted, ih]
    simp

end Borsh
