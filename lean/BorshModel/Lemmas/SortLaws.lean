/-
  Sorting and collecting under the total order `Val.cmp`:
  * the insertion sort of pairwise-distinct keys is strictly ascending (what `de_strict_order` checks),
  * collecting a strictly ascending list into an ordered set / map gives that list back,
  * collecting pairwise-distinct elements into an index set / map gives the list back.
-/
import BorshModel.Lemmas.OrdLaws
import BorshModel.Lemmas.Sort
import BorshModel.Typing
namespace Borsh

variable (key : Val → Val)

theorem keyLt_trans {a b c : Val} (h1 : keyLt key a b = true) (h2 : keyLt key b c = true) :
    keyLt key a c = true := by
  simp only [keyLt, beq_iff_eq] at *
  exact Val.cmp_trans _ _ _ h1 h2

/-- totality: not less and not equal means greater -/
theorem keyLt_of_not {a b : Val} (h1 : keyLt key a b = false) (h2 : Val.cmp (key a) (key b) ≠ .eq) :
    keyLt key b a = true := by
  simp only [keyLt, beq_iff_eq, beq_eq_false_iff_ne, ne_eq] at *
  rw [Val.cmp_swap]
  cases h : Val.cmp (key a) (key b) <;> simp_all [Ordering.swap]

theorem sa_cons_cons (a b : Val) (l : List Val) :
    strictlyAscending key (a :: b :: l) = (keyLt key a b && strictlyAscending key (b :: l)) := rfl

theorem sa_tail {a : Val} {l : List Val} (h : strictlyAscending key (a :: l) = true) :
    strictlyAscending key l = true := by
  cases l with
  | nil => rfl
  | cons b l => rw [sa_cons_cons] at h; exact (Bool.and_eq_true_iff.mp h).2

/-- the head of a strictly ascending list is below every later element (transitivity) -/
theorem sa_all_lt : ∀ (l : List Val) (a : Val), strictlyAscending key (a :: l) = true →
    ∀ y ∈ l, keyLt key a y = true := by
  intro l
  induction l with
  | nil => intro a _ y hy; simp at hy
  | cons b l ih =>
    intro a h y hy
    rw [sa_cons_cons] at h
    obtain ⟨hab, hbl⟩ := Bool.and_eq_true_iff.mp h
    cases List.mem_cons.mp hy with
    | inl e => rw [e]; exact hab
    | inr e => exact keyLt_trans key hab (ih b hbl y e)

/-- inserting above a lower bound keeps the list strictly ascending -/
theorem insertSorted_sa_above (x : Val) : ∀ (l : List Val) (w : Val),
    strictlyAscending key (w :: l) = true → keyLt key w x = true →
    (∀ y ∈ l, Val.cmp (key x) (key y) ≠ .eq) →
    strictlyAscending key (w :: insertSorted key x l) = true := by
  intro l
  induction l with
  | nil => intro w _ hwx _; simp [insertSorted, strictlyAscending, hwx]
  | cons y ys ih =>
    intro w hsa hwx hd
    rw [sa_cons_cons] at hsa
    obtain ⟨hwy, hys⟩ := Bool.and_eq_true_iff.mp hsa
    simp only [insertSorted]
    cases hxy : keyLt key x y with
    | true =>
      simp only [if_true]
      rw [sa_cons_cons, sa_cons_cons, hwx, hxy, hys]; rfl
    | false =>
      simp only [Bool.false_eq_true, if_false]
      rw [sa_cons_cons, hwy, Bool.true_and]
      exact ih y hys (keyLt_of_not key hxy (hd y (by simp))) (fun z hz => hd z (by simp [hz]))

theorem insertSorted_sa (x : Val) (l : List Val) (hsa : strictlyAscending key l = true)
    (hd : ∀ y ∈ l, Val.cmp (key x) (key y) ≠ .eq) :
    strictlyAscending key (insertSorted key x l) = true := by
  cases l with
  | nil => rfl
  | cons y ys =>
    simp only [insertSorted]
    cases hxy : keyLt key x y with
    | true => simp only [if_true]; rw [sa_cons_cons, hxy, hsa]; rfl
    | false =>
      simp only [Bool.false_eq_true, if_false]
      exact insertSorted_sa_above key x ys y hsa (keyLt_of_not key hxy (hd y (by simp)))
        (fun z hz => hd z (by simp [hz]))

theorem distinctKeys_cons (x : Val) (xs : List Val) :
    distinctKeys key (x :: xs) = true ↔
      (∀ y ∈ xs, Val.cmp (key x) (key y) ≠ .eq) ∧ distinctKeys key xs = true := by
  simp [distinctKeys]

/-- **the sort of pairwise-distinct keys is strictly ascending** -/
theorem sortByKey_sa (vs : List Val) (hd : distinctKeys key vs = true) :
    strictlyAscending key (sortByKey key vs) = true := by
  induction vs with
  | nil => rfl
  | cons x xs ih =>
    obtain ⟨h1, h2⟩ := (distinctKeys_cons key x xs).mp hd
    simp only [sortByKey, List.foldr_cons] at ih ⊢
    apply insertSorted_sa key x _ (ih h2)
    intro y hy
    exact h1 y ((mem_sortByKey key y xs).mp hy)

/-- sorting an already strictly ascending list changes nothing -/
theorem sortByKey_of_sa (vs : List Val) (h : strictlyAscending key vs = true) : sortByKey key vs = vs := by
  induction vs with
  | nil => rfl
  | cons x xs ih =>
    simp only [sortByKey, List.foldr_cons] at ih ⊢
    rw [ih (sa_tail key h)]
    cases xs with
    | nil => rfl
    | cons y ys =>
      rw [sa_cons_cons] at h
      simp [insertSorted, (Bool.and_eq_true_iff.mp h).1]

end Borsh

namespace Borsh

theorem insertSet_above (x : Val) (acc : List Val) (h : ∀ y ∈ acc, Val.cmp y x = .lt) :
    insertSet x acc = acc ++ [x] := by
  induction acc with
  | nil => rfl
  | cons y ys ih =>
    have hy := h y (by simp)
    have hg : Val.cmp x y = .gt := by rw [Val.cmp_swap, hy]; rfl
    simp only [insertSet, hg, List.cons_append]
    rw [ih (fun z hz => h z (by simp [hz]))]

theorem foldl_insertSet (l acc : List Val) (hsa : strictlyAscending id l = true)
    (hacc : ∀ y ∈ acc, ∀ z ∈ l, Val.cmp y z = .lt) :
    l.foldl (fun a x => insertSet x a) acc = acc ++ l := by
  induction l generalizing acc with
  | nil => simp
  | cons x xs ih =>
    simp only [List.foldl_cons]
    rw [insertSet_above x acc (fun y hy => hacc y hy x (by simp))]
    rw [ih (acc ++ [x]) (sa_tail id hsa)]
    · simp
    · intro y hy z hz
      cases List.mem_append.mp hy with
      | inl h => exact hacc y h z (by simp [hz])
      | inr h =>
        simp at h; subst h
        have := sa_all_lt id xs y hsa z hz
        simpa [keyLt] using this

/-- **collecting a strictly ascending list into a `BTreeSet` / `HashSet` gives it back** -/
theorem collectSet_of_sa (l : List Val) (h : strictlyAscending id l = true) : collectSet l = l := by
  unfold collectSet
  rw [foldl_insertSet l [] h (by simp)]
  simp

theorem insertMap_above (e : Val) (acc : List Val)
    (h : ∀ y ∈ acc, Val.cmp (entryKey y) (entryKey e) = .lt) : insertMap e acc = acc ++ [e] := by
  induction acc with
  | nil => rfl
  | cons y ys ih =>
    have hy := h y (by simp)
    have hg : Val.cmp (entryKey e) (entryKey y) = .gt := by rw [Val.cmp_swap, hy]; rfl
    simp only [insertMap, hg, List.cons_append]
    rw [ih (fun z hz => h z (by simp [hz]))]

theorem foldl_insertMap (l acc : List Val) (hsa : strictlyAscending entryKey l = true)
    (hacc : ∀ y ∈ acc, ∀ z ∈ l, Val.cmp (entryKey y) (entryKey z) = .lt) :
    l.foldl (fun a x => insertMap x a) acc = acc ++ l := by
  induction l generalizing acc with
  | nil => simp
  | cons x xs ih =>
    simp only [List.foldl_cons]
    rw [insertMap_above x acc (fun y hy => hacc y hy x (by simp))]
    rw [ih (acc ++ [x]) (sa_tail entryKey hsa)]
    · simp
    · intro y hy z hz
      cases List.mem_append.mp hy with
      | inl h => exact hacc y h z (by simp [hz])
      | inr h =>
        simp at h; subst h
        have := sa_all_lt entryKey xs y hsa z hz
        simpa [keyLt] using this

/-- the same for maps, by key -/
theorem collectMap_of_sa (l : List Val) (h : strictlyAscending entryKey l = true) : collectMap l = l := by
  unfold collectMap
  rw [foldl_insertMap l [] h (by simp)]
  simp

theorem insertIndexSet_new (x : Val) (acc : List Val) (h : ∀ y ∈ acc, Val.cmp x y ≠ .eq) :
    insertIndexSet x acc = acc ++ [x] := by
  induction acc with
  | nil => rfl
  | cons y ys ih =>
    have hy : (Val.cmp x y == .eq) = false := by simpa using h y (by simp)
    simp only [insertIndexSet, hy, Bool.false_eq_true, if_false, List.cons_append]
    rw [ih (fun z hz => h z (by simp [hz]))]

theorem cmp_ne_eq_symm {a b : Val} (h : Val.cmp a b ≠ .eq) : Val.cmp b a ≠ .eq := by
  intro hc
  apply h
  rw [Val.cmp_swap, hc]; rfl

theorem foldl_insertIndexSet (l acc : List Val) (hd : distinctKeys id l = true)
    (hacc : ∀ y ∈ acc, ∀ z ∈ l, Val.cmp y z ≠ .eq) :
    l.foldl (fun a x => insertIndexSet x a) acc = acc ++ l := by
  induction l generalizing acc with
  | nil => simp
  | cons x xs ih =>
    obtain ⟨h1, h2⟩ := (distinctKeys_cons id x xs).mp hd
    simp only [List.foldl_cons]
    rw [insertIndexSet_new x acc (fun y hy => cmp_ne_eq_symm (hacc y hy x (by simp)))]
    rw [ih (acc ++ [x]) h2]
    · simp
    · intro y hy z hz
      cases List.mem_append.mp hy with
      | inl h => exact hacc y h z (by simp [hz])
      | inr h => simp at h; subst h; exact h1 z hz

/-- collecting pairwise-distinct elements into an `IndexSet` keeps them, in order -/
theorem collectIndexSet_of_distinct (l : List Val) (h : distinctKeys id l = true) :
    collectIndexSet l = l := by
  unfold collectIndexSet
  rw [foldl_insertIndexSet l [] h (by simp)]
  simp

theorem insertIndexMap_new (e : Val) (acc : List Val)
    (h : ∀ y ∈ acc, Val.cmp (entryKey e) (entryKey y) ≠ .eq) : insertIndexMap e acc = acc ++ [e] := by
  induction acc with
  | nil => rfl
  | cons y ys ih =>
    have hy : (Val.cmp (entryKey e) (entryKey y) == .eq) = false := by simpa using h y (by simp)
    simp only [insertIndexMap, hy, Bool.false_eq_true, if_false, List.cons_append]
    rw [ih (fun z hz => h z (by simp [hz]))]

theorem foldl_insertIndexMap (l acc : List Val) (hd : distinctKeys entryKey l = true)
    (hacc : ∀ y ∈ acc, ∀ z ∈ l, Val.cmp (entryKey y) (entryKey z) ≠ .eq) :
    l.foldl (fun a x => insertIndexMap x a) acc = acc ++ l := by
  induction l generalizing acc with
  | nil => simp
  | cons x xs ih =>
    obtain ⟨h1, h2⟩ := (distinctKeys_cons entryKey x xs).mp hd
    simp only [List.foldl_cons]
    rw [insertIndexMap_new x acc (fun y hy => cmp_ne_eq_symm (hacc y hy x (by simp)))]
    rw [ih (acc ++ [x]) h2]
    · simp
    · intro y hy z hz
      cases List.mem_append.mp hy with
      | inl h => exact hacc y h z (by simp [hz])
      | inr h => simp at h; subst h; exact h1 z hz

theorem collectIndexMap_of_distinct (l : List Val) (h : distinctKeys entryKey l = true) :
    collectIndexMap l = l := by
  unfold collectIndexMap
  rw [foldl_insertIndexMap l [] h (by simp)]
  simp

end Borsh

namespace Borsh

theorem keyLt_irrefl (key : Val → Val) (a : Val) : keyLt key a a = false := by
  simp only [keyLt, (Val.cmp_eq (key a) (key a)).mpr rfl]; rfl

theorem keyLt_asymm (key : Val → Val) {a b : Val} (h : keyLt key a b = true) : keyLt key b a = false := by
  simp only [keyLt, beq_iff_eq] at h
  simp only [keyLt]
  rw [Val.cmp_swap, h]; rfl

/-- two strictly ascending lists with the same members are the same list -/
theorem sa_unique (key : Val → Val) : ∀ l1 l2 : List Val,
    strictlyAscending key l1 = true → strictlyAscending key l2 = true →
    (∀ x, x ∈ l1 ↔ x ∈ l2) → l1 = l2 := by
  intro l1
  induction l1 with
  | nil =>
    intro l2 _ _ hm
    cases l2 with
    | nil => rfl
    | cons b l2 => exact absurd ((hm b).mpr (by simp)) (by simp)
  | cons a t1 ih =>
    intro l2 h1 h2 hm
    cases l2 with
    | nil => exact absurd ((hm a).mp (by simp)) (by simp)
    | cons b t2 =>
      have hab : a = b := by
        by_cases e : a = b
        · exact e
        · have ha : a ∈ t2 := by
            have := (hm a).mp (by simp)
            cases List.mem_cons.mp this with
            | inl h => exact absurd h e
            | inr h => exact h
          have hb : b ∈ t1 := by
            have := (hm b).mpr (by simp)
            cases List.mem_cons.mp this with
            | inl h => exact absurd h.symm e
            | inr h => exact h
          have l1 := sa_all_lt key t2 b h2 a ha
          have l2 := sa_all_lt key t1 a h1 b hb
          rw [keyLt_asymm key l1] at l2
          exact absurd l2 (by simp)
      subst hab
      have hnot1 : a ∉ t1 := by
        intro h
        have := sa_all_lt key t1 a h1 a h
        rw [keyLt_irrefl] at this; exact absurd this (by simp)
      have hnot2 : a ∉ t2 := by
        intro h
        have := sa_all_lt key t2 a h2 a h
        rw [keyLt_irrefl] at this; exact absurd this (by simp)
      have hm' : ∀ x, x ∈ t1 ↔ x ∈ t2 := by
        intro x
        constructor
        · intro hx
          have := (hm x).mp (by simp [hx])
          cases List.mem_cons.mp this with
          | inl h => rw [h] at hx; exact absurd hx hnot1
          | inr h => exact h
        · intro hx
          have := (hm x).mpr (by simp [hx])
          cases List.mem_cons.mp this with
          | inl h => rw [h] at hx; exact absurd hx hnot2
          | inr h => exact h
      rw [ih t2 (sa_tail key h1) (sa_tail key h2) hm']

/-- **the sort is independent of the order in which distinct keys are presented** (hash
iteration order, insertion history, hasher state) -/
theorem sortByKey_perm_invariant (key : Val → Val) (vs ws : List Val)
    (hd1 : distinctKeys key vs = true) (hd2 : distinctKeys key ws = true)
    (hm : ∀ x, x ∈ vs ↔ x ∈ ws) : sortByKey key vs = sortByKey key ws := by
  apply sa_unique key _ _ (sortByKey_sa key vs hd1) (sortByKey_sa key ws hd2)
  intro x
  rw [mem_sortByKey, mem_sortByKey]; exact hm x

end Borsh
