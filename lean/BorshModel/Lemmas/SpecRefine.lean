/- `Impl.ser` refines `Spec.enc`: equal bytes, or the same class of refusal. -/
import BorshModel.Spec
import BorshModel.Lemmas.RoundtripMain
namespace Borsh

/-- a trace read as a specification-level result -/
def Tr.toSpec (t : Tr) : Spec.R := (t.status.map fun _ => t.bytes).toSpec

theorem toVec_toSpec (t : Ty) (v : Val) : (toVec t v).toSpec = (ser t v).toSpec := rfl

@[simp] theorem Tr.done_toSpec : Tr.done.toSpec = .ok [] := rfl
@[simp] theorem Tr.emit_toSpec (bs : Bytes) : (Tr.emit bs).toSpec = .ok bs := by
  simp [Tr.toSpec, Tr.emit, Tr.bytes, Out.toSpec]

theorem Tr.andThen_toSpec (a b : Tr) :
    (a ▹ b).toSpec = (do let x ← a.toSpec; let y ← b.toSpec; pure (x ++ y)) := by
  unfold Tr.andThen Tr.toSpec
  cases ha : a.status with
  | ok u =>
    cases u
    simp only [Out.map_ok, Out.toSpec]
    cases hb : b.status with
    | ok u => cases u; simp [Out.toSpec, Tr.bytes, bind, Except.bind, pure, Except.pure]
    | err e =>
      simp only [Out.map_err, Out.toSpec, bind, Except.bind]
      split <;> rfl
    | panic p => simp [Out.toSpec, bind, Except.bind]
  | err e =>
    simp only [ha, Out.map_err, Out.toSpec, bind, Except.bind]
    split <;> rfl
  | panic p => simp [ha, Out.toSpec, bind, Except.bind]

theorem serLen_toSpec (n : Nat) : (serLen n).toSpec = Spec.count n := by
  unfold serLen Spec.count
  split
  · simp [u32le]
  · simp [Tr.toSpec, Tr.fail, Out.toSpec, eLenOverflow]

theorem serMany_toSpec (f : Val → Tr) (vs : List Val) :
    (serMany f vs).toSpec = Spec.concat (vs.map fun v => (f v).toSpec) := by
  induction vs with
  | nil => simp [serMany, Spec.concat]
  | cons v vs ih => simp only [serMany, Tr.andThen_toSpec, ih, List.map_cons, Spec.concat]

theorem concat_congr {α : Type} (vs : List α) (f g : α → Spec.R) (h : ∀ v ∈ vs, f v = g v) :
    Spec.concat (vs.map f) = Spec.concat (vs.map g) := by
  induction vs with
  | nil => rfl
  | cons v vs ih =>
    simp only [List.map_cons, Spec.concat]
    rw [h v (by simp), ih (fun w hw => h w (by simp [hw]))]

theorem concat_append (a b : List Spec.R) :
    Spec.concat (a ++ b) = (do let x ← Spec.concat a; let y ← Spec.concat b; pure (x ++ y)) := by
  induction a with
  | nil =>
    simp only [List.nil_append, Spec.concat]
    cases Spec.concat b <;> simp [bind, Except.bind, pure, Except.pure]
  | cons x xs ih =>
    simp only [List.cons_append, Spec.concat, ih]
    cases x <;> simp [bind, Except.bind, pure, Except.pure]
    cases Spec.concat xs <;> simp [Except.bind]
    cases Spec.concat b <;> simp [Except.bind]

/-- the `u8` bulk path writes what the per-element specification says -/
theorem valBytes_concat (vs : List Val) (h : ∀ v ∈ vs, HasTy (.int .u8) v = true) :
    Spec.concat (vs.map (Spec.enc (.int .u8))) = .ok (valBytes vs) := by
  have h1 := serMany_u8_bytes vs h
  have h2 := serMany_toSpec (ser (.int .u8)) vs
  have h3 : (serMany (ser (.int .u8)) vs).toSpec = .ok (valBytes vs) := by
    have hs : (serMany (ser (.int .u8)) vs).status = .ok () := h1.1
    simp [Tr.toSpec, hs, Out.toSpec, h1.2]
  rw [h3] at h2
  rw [h2]
  apply concat_congr
  intro v hv
  have := h v hv
  match v, this with
  | .int i, _ => simp [ser, Spec.enc, encInt, Spec.int]

/-- refinement at one type -/
def Refines (t : Ty) : Prop := ∀ v, HasTy t v = true → (ser t v).toSpec = Spec.enc t v
def RefinesF (fs : List Field) : Prop :=
  ∀ vs, HasTyFields fs vs = true → (serFields fs vs).toSpec = Spec.encFields fs vs
def RefinesV (vs : List Variant) : Prop :=
  ∀ idx fvs, HasTyVariant vs idx fvs = true → (serVariant vs idx fvs).toSpec = Spec.encVariant vs idx fvs

theorem slice_refines (t : Ty) (ih : Refines t) (vs : List Val) (hall : vs.all (HasTy t) = true) :
    (if t.isU8 then Tr.emit (valBytes vs) else serMany (ser t) vs).toSpec =
      Spec.concat (vs.map (Spec.enc t)) := by
  by_cases hu : t.isU8 = true
  · have ht := isU8_eq hu
    subst ht
    simp only [Ty.isU8, if_true, Tr.emit_toSpec]
    exact (valBytes_concat vs (all_of_all hall)).symm
  · simp only [hu, Bool.false_eq_true, if_false, serMany_toSpec]
    exact concat_congr vs _ _ (fun v hv => ih v (all_of_all hall v hv))

theorem sized_eq (n : Nat) (body : Tr) (items : List Spec.R) (hn : items.length = n)
    (hb : body.toSpec = Spec.concat items) :
    (serLen n ▹ body).toSpec = Spec.sized false items := by
  simp only [Tr.andThen_toSpec, serLen_toSpec, hb, Spec.sized, Bool.false_eq_true, if_false, hn]

end Borsh
