import BorshModel.Lemmas.SpecRefine
import BorshModel.Lemmas.Sort
namespace Borsh

theorem fail_toSpec_zst : (Tr.fail eZst).toSpec = .error .zst := rfl
theorem fail_toSpec_nan : (Tr.fail eNanSer).toSpec = .error .nan := rfl

theorem refines_all : ∀ t : Ty, Refines t := by
  apply Ty.induct (P := Refines) (PF := RefinesF) (PV := RefinesV)
  case h_int =>
    intro k v hv
    match v, hv with
    | .int i, _ => simp [ser, Spec.enc, encInt, Spec.int]
  case h_nonzero =>
    intro k v hv
    match v, hv with
    | .int i, _ => simp [ser, Spec.enc, encInt, Spec.int]
  case h_float =>
    intro k v hv
    match v, hv with
    | .int b, _ =>
      simp only [ser, Spec.enc]
      split
      · exact fail_toSpec_nan
      · simp
  case h_bool =>
    intro v hv
    match v, hv with
    | .bool b, _ => simp [ser, Spec.enc]
  case h_str =>
    intro k v hv
    match v, hv with
    | .blob bs, _ =>
      simp only [ser, Spec.enc, Tr.andThen_toSpec, serLen_toSpec, Tr.emit_toSpec]
      cases Spec.count bs.length <;> rfl
  case h_asciiChar =>
    intro v hv
    match v, hv with
    | .int i, _ => simp [ser, Spec.enc]
  case h_raw =>
    intro k v hv
    match v, hv with
    | .blob bs, _ => simp [ser, Spec.enc]
  case h_seq =>
    intro k t ih v hv
    match v, hv with
    | .list vs, hv =>
      simp only [HasTy, Bool.and_eq_true] at hv
      have hall := hv.1.2
      simp only [ser, Spec.enc]
      by_cases hz : (k.serChecksZst && memZero t) = true
      · simp only [hz, if_true, Spec.sized]; exact fail_toSpec_zst
      · simp only [hz, Bool.false_eq_true, if_false]
        split
        · apply sized_eq _ _ _ (by simp)
          rw [serMany_toSpec]
          exact concat_congr vs _ _ (fun v hv => ih v (all_of_all hall v hv))
        · exact sized_eq _ _ _ (by simp) (slice_refines t ih vs hall)
    | .deque a b, hv =>
      simp only [HasTy, Bool.and_eq_true] at hv
      obtain ⟨⟨_, ha⟩, hb⟩ := hv
      simp only [ser, Spec.enc]
      by_cases hz : memZero t = true
      · simp only [hz, if_true, Spec.sized]; exact fail_toSpec_zst
      · simp only [hz, Bool.false_eq_true, if_false]
        have h1 := slice_refines t ih a ha
        have h2 := slice_refines t ih b hb
        simp only [Tr.andThen_toSpec, serLen_toSpec, h1, h2, Spec.sized, Bool.false_eq_true,
          if_false, List.map_append, concat_append, List.length_append, List.length_map]
        cases Spec.count (a.length + b.length) <;> simp [bind, Except.bind, pure, Except.pure]
        cases Spec.concat (a.map (Spec.enc t)) <;> simp [Except.bind]
        cases Spec.concat (b.map (Spec.enc t)) <;> simp [Except.bind]
  case h_set =>
    intro k t ih v hv
    match v, hv with
    | .list vs, hv =>
      simp only [HasTy, Bool.and_eq_true] at hv
      have hall := hv.1
      simp only [ser, Spec.enc]
      by_cases hz : memZero t = true
      · simp only [hz, if_true, Spec.sized]; exact fail_toSpec_zst
      · simp only [hz, Bool.false_eq_true, if_false]
        apply sized_eq _ _ _ (by rw [List.length_map]; cases k <;> rfl)
        rw [serMany_toSpec]
        apply concat_congr
        intro v hv
        apply ih
        cases k
        · exact all_of_all hall v ((mem_sortByKey id v vs).mp hv)
        · exact all_of_all hall v hv
  case h_map =>
    intro k kt vt iha ihb v hv
    match v, hv with
    | .list es, hv =>
      simp only [HasTy, Bool.and_eq_true] at hv
      have hall := hv.1
      simp only [ser, Spec.enc]
      by_cases hz : memZero kt = true
      · simp only [hz, if_true, Spec.sized]; exact fail_toSpec_zst
      · simp only [hz, Bool.false_eq_true, if_false]
        apply sized_eq _ _ _ (by rw [List.length_map]; cases k <;> rfl)
        rw [serMany_toSpec]
        apply concat_congr
        intro e he
        have hmem : e ∈ es := by
          cases k
          · exact (mem_sortByKey entryKey e es).mp he
          · exact he
          · exact he
        have hte := all_of_all hall e hmem
        match e, hte with
        | .list [a, b], hte =>
          simp only [Bool.and_eq_true] at hte
          simp only [serEntry, Tr.andThen_toSpec, iha a hte.1, ihb b hte.2]
  case h_array =>
    intro n t ih v hv
    match v, hv with
    | .list vs, hv =>
      simp only [HasTy, Bool.and_eq_true, beq_iff_eq] at hv
      simp only [ser, Spec.enc]
      by_cases h0 : (n == 0) = true
      · have : n = 0 := by simpa using h0
        subst this
        have : vs = [] := List.eq_nil_of_length_eq_zero hv.1
        subst this
        simp [Spec.concat]
      · simp only [h0, Bool.false_eq_true, if_false]
        exact slice_refines t ih vs hv.2
  case h_prod =>
    intro k fs ih v hv
    match v, hv with
    | .list vs, hv => simp only [HasTy] at hv; simp only [ser, Spec.enc]; exact ih vs hv
  case h_sum =>
    intro k vs ih v hv
    match v, hv with
    | .variant idx fvs, hv => simp only [HasTy] at hv; simp only [ser, Spec.enc]; exact ih idx fvs hv
  case h_wrap =>
    intro k t ih v hv
    have hv' : HasTy t v = true := by cases v <;> simpa [HasTy] using hv
    have hs : ser (.wrap k t) v = ser t v := by cases v <;> simp [ser]
    have he : Spec.enc (.wrap k t) v = Spec.enc t v := by cases v <;> simp [Spec.enc]
    rw [hs, he]; exact ih v hv'
  case h_custom =>
    intro t _ v hv
    cases v <;> simp [ser, Spec.enc, illTyped, Tr.toSpec, Tr.panic, Out.toSpec, Tr.emit, Tr.bytes]
  case h_fnil =>
    intro vs hv
    match vs, hv with
    | [], _ => simp [serFields, Spec.encFields]
  case h_fcons =>
    intro n sk t fs iht ihf vs hv
    cases vs with
    | nil => simp [HasTyFields] at hv
    | cons v vs =>
      simp only [HasTyFields, Bool.and_eq_true] at hv
      simp only [serFields, Spec.encFields]
      cases sk
      · simp only [Bool.false_eq_true, if_false, Tr.andThen_toSpec, iht v hv.1, ihf vs hv.2]
      · simp only [if_true]; exact ihf vs hv.2
  case h_vnil =>
    intro idx fvs hv
    simp [HasTyVariant] at hv
  case h_vcons =>
    intro n g fs vs ihf ihv idx fvs hv
    cases idx with
    | zero =>
      simp only [HasTyVariant] at hv
      simp only [serVariant, Spec.encVariant, Tr.andThen_toSpec, Tr.emit_toSpec, ihf fvs hv]
      cases Spec.encFields fs fvs <;> rfl
    | succ i =>
      simp only [HasTyVariant] at hv
      simp only [serVariant, Spec.encVariant]
      exact ihv i fvs hv

end Borsh
