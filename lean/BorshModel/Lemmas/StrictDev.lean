/-
  How the two key-order modes can differ at all: for every type and every reader state, the strict
  decoder either gives exactly what the lax decoder gives, or it fails with the key-order error.
  So the *only* inputs the lax mode accepts in addition are those on which some set or map entry
  list is not strictly ascending (unsorted or repeated keys).
-/
import BorshModel.Canon
import BorshModel.Lemmas.Induct
namespace Borsh

section
variable {σ : Type} (rd : Rd σ)

/-- `x` (strict) deviates from `x'` (lax) only by the key-order error -/
def DevO {α : Type} (x x' : Out α) : Prop := x = x' ∨ x = .err eKeyOrder

def Dev {α : Type} (g g' : σ → Out (α × σ)) : Prop := ∀ s, DevO (g s) (g' s)

theorem DevO.refl {α : Type} (x : Out α) : DevO x x := Or.inl rfl

theorem DevO.bind {α β : Type} {x x' : Out α} {k k' : α → Out β}
    (h : DevO x x') (hk : ∀ a, DevO (k a) (k' a)) : DevO (x.bind k) (x'.bind k') := by
  rcases h with h | h
  · subst h
    cases x with
    | ok a => exact hk a
    | err e => exact Or.inl rfl
    | panic p => exact Or.inl rfl
  · rw [h]; exact Or.inr rfl

theorem DevO.map {α β : Type} {x x' : Out α} (f : α → β) (h : DevO x x') : DevO (x.map f) (x'.map f) := by
  rcases h with h | h
  · rw [h]; exact Or.inl rfl
  · rw [h]; exact Or.inr rfl

theorem repeatDe_dev {g g' : σ → Out (Val × σ)} (h : Dev g g') (n : Nat) :
    Dev (repeatDe g n) (repeatDe g' n) := by
  induction n with
  | zero => intro s; exact DevO.refl _
  | succ n ih =>
    intro s
    simp only [repeatDe]
    exact DevO.bind (h s) fun a => DevO.bind (ih a.2) fun _ => DevO.refl _

theorem deVec_dev {g g' : σ → Out (Val × σ)} (h : Dev g g') (u : Bool) :
    Dev (deVec rd u g) (deVec rd u g') := by
  intro s
  unfold deVec
  refine DevO.bind (DevO.refl _) fun r => ?_
  split
  · exact DevO.refl _
  · split
    · exact DevO.refl _
    · exact repeatDe_dev h r.1 r.2

theorem deEntry_dev {dk dk' dv dv' : σ → Out (Val × σ)} (hk : Dev dk dk') (hv : Dev dv dv') :
    Dev (deEntry dk dv) (deEntry dk' dv') := by
  intro s
  unfold deEntry
  exact DevO.bind (hk s) fun a => DevO.map _ (hv a.2)

/-- **the modes differ only by the key-order rejection**, every type and reader -/
theorem strict_dev_all : ∀ t : Ty, Dev (de rd true t) (de rd false t) := by
  apply Ty.induct (P := fun t => Dev (de rd true t) (de rd false t))
    (PF := fun fs => Dev (deFields rd true fs) (deFields rd false fs))
    (PV := fun vs => ∀ tk tag idx, Dev (deVariants rd true tk vs tag idx) (deVariants rd false tk vs tag idx))
  case h_int => intro k s; simp only [de]; exact DevO.refl _
  case h_nonzero => intro k s; simp only [de]; exact DevO.refl _
  case h_float => intro k s; simp only [de]; exact DevO.refl _
  case h_bool => intro s; simp only [de]; exact DevO.refl _
  case h_str => intro k s; simp only [de]; exact DevO.refl _
  case h_asciiChar => intro s; simp only [de]; exact DevO.refl _
  case h_raw => intro k s; simp only [de]; exact DevO.refl _
  case h_custom => intro t _ s; simp only [de]; exact DevO.refl _
  case h_seq =>
    intro k t ih s
    cases k
    case bytesMut => simp only [de]; exact DevO.refl _
    all_goals
      simp only [de]
      split
      · exact DevO.refl _
      · exact DevO.map _ (deVec_dev rd ih _ s)
  case h_set =>
    intro k t ih s
    simp only [de]
    split
    · exact DevO.refl _
    · refine DevO.bind (deVec_dev rd ih _ s) fun r => ?_
      simp only [Bool.false_and, Bool.false_eq_true, if_false, Bool.true_and]
      split
      · exact Or.inr rfl
      · exact DevO.refl _
  case h_map =>
    intro k a b iha ihb s
    simp only [de]
    split
    · exact DevO.refl _
    · refine DevO.bind (deVec_dev rd (deEntry_dev iha ihb) _ s) fun r => ?_
      cases k
      case indexMap => exact DevO.refl _
      all_goals
        dsimp only
        simp only [Bool.false_and, Bool.false_eq_true, if_false, Bool.true_and]
        split
        · exact Or.inr rfl
        · exact DevO.refl _
  case h_array =>
    intro n t ih s
    simp only [de]
    split
    · exact DevO.refl _
    · exact DevO.map _ (repeatDe_dev ih n s)
  case h_prod =>
    intro k fs ih s
    simp only [de]
    exact DevO.map _ (ih s)
  case h_sum =>
    intro k vs ih s
    simp only [de]
    exact DevO.bind (DevO.refl _) fun r => DevO.map _ (ih k.tagK r.1 0 r.2)
  case h_wrap =>
    intro k t ih s
    simp only [de]
    exact ih s
  case h_fnil => intro s; simp only [deFields]; exact DevO.refl _
  case h_fcons =>
    intro n sk t fs iht ihf s
    simp only [deFields]
    split
    · exact DevO.map _ (ihf s)
    · exact DevO.bind (iht s) fun a => DevO.map _ (ihf a.2)
  case h_vnil => intro tk tag idx s; simp only [deVariants]; exact DevO.refl _
  case h_vcons =>
    intro n g fs vs ihf ihv tk tag idx s
    simp only [deVariants]
    split
    · exact DevO.map _ (ihf s)
    · exact ihv tk tag (idx + 1) s

end
end Borsh
