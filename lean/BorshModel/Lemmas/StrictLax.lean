/-
  The two key-order modes compared: whatever strict mode accepts, lax mode accepts with the same
  result (any reader); on types without a hash/ordered set or map the two decoders are equal.
-/
import BorshModel.Canon
import BorshModel.Lemmas.Induct
namespace Borsh

section
variable {σ : Type} (rd : Rd σ)

/-- `g'` accepts whatever `g` accepts, with the same result -/
def Sub {α : Type} (g g' : σ → Out (α × σ)) : Prop := ∀ s r, g s = .ok r → g' s = .ok r

theorem repeatDe_sub {g g' : σ → Out (Val × σ)} (h : Sub g g') (n : Nat) :
    Sub (repeatDe g n) (repeatDe g' n) := by
  induction n with
  | zero => intro s r hr; simpa [repeatDe] using hr
  | succ n ih =>
    intro s r hr
    simp only [repeatDe] at hr ⊢
    obtain ⟨a, h1, h2⟩ := Out.bind_eq_ok_iff.mp hr
    obtain ⟨b, h3, h4⟩ := Out.bind_eq_ok_iff.mp h2
    rw [h s a h1]
    simp only [Out.bind_ok]
    rw [ih a.2 b h3]
    exact h4

theorem deVec_sub {g g' : σ → Out (Val × σ)} (h : Sub g g') (u : Bool) :
    Sub (deVec rd u g) (deVec rd u g') := by
  intro s r hr
  unfold deVec at hr ⊢
  obtain ⟨a, h1, h2⟩ := Out.bind_eq_ok_iff.mp hr
  rw [h1]
  simp only [Out.bind_ok]
  split
  · rename_i h0; simpa [h0] using h2
  · rename_i h0
    simp only [h0, if_false] at h2
    split
    · rename_i hu; simpa [hu] using h2
    · rename_i hu
      simp only [hu, if_false] at h2
      exact repeatDe_sub h a.1 a.2 r h2

theorem deEntry_sub {dk dk' dv dv' : σ → Out (Val × σ)} (hk : Sub dk dk') (hv : Sub dv dv') :
    Sub (deEntry dk dv) (deEntry dk' dv') := by
  intro s r hr
  unfold deEntry at hr ⊢
  obtain ⟨a, h1, h2⟩ := Out.bind_eq_ok_iff.mp hr
  obtain ⟨b, h3, h4⟩ := Out.map_eq_ok_iff.mp h2
  rw [hk s a h1]
  simp only [Out.bind_ok]
  rw [hv a.2 b h3]
  simpa using h4

theorem map_sub {α β : Type} {g g' : σ → Out (α × σ)} (h : Sub g g') (f : α × σ → β × σ) :
    Sub (fun s => (g s).map f) (fun s => (g' s).map f) := by
  intro s r hr
  obtain ⟨a, h1, h2⟩ := Out.map_eq_ok_iff.mp hr
  show (g' s).map f = .ok r
  rw [h s a h1]; simpa using h2

/-- **strict ⊆ lax**, for every type of the universe and every reader -/
theorem strict_sub_lax_all : ∀ t : Ty, Sub (de rd true t) (de rd false t) := by
  apply Ty.induct (P := fun t => Sub (de rd true t) (de rd false t))
    (PF := fun fs => Sub (deFields rd true fs) (deFields rd false fs))
    (PV := fun vs => ∀ tk tag idx, Sub (deVariants rd true tk vs tag idx) (deVariants rd false tk vs tag idx))
  case h_int => intro k s r h; simpa only [de] using h
  case h_nonzero => intro k s r h; simpa only [de] using h
  case h_float => intro k s r h; simpa only [de] using h
  case h_bool => intro s r h; simpa only [de] using h
  case h_str => intro k s r h; simpa only [de] using h
  case h_asciiChar => intro s r h; simpa only [de] using h
  case h_raw => intro k s r h; simpa only [de] using h
  case h_custom => intro t _ s r h; simpa only [de] using h
  case h_seq =>
    intro k t ih s r h
    cases k
    case bytesMut => simpa only [de] using h
    all_goals
      simp only [de] at h ⊢
      split
      · rename_i hz; simp [hz] at h
      · rename_i hz
        simp only [hz, if_false] at h
        exact map_sub (deVec_sub rd ih _) _ s r h
  case h_set =>
    intro k t ih s r h
    simp only [de] at h ⊢
    split
    · rename_i hz; simp [hz] at h
    · rename_i hz
      simp only [hz, if_false] at h
      obtain ⟨a, h1, h2⟩ := Out.bind_eq_ok_iff.mp h
      rw [deVec_sub rd ih _ s a h1]
      simp only [Out.bind_ok, Bool.false_and, Bool.false_eq_true, if_false]
      split at h2
      · simp at h2
      · exact h2
  case h_map =>
    intro k a b iha ihb s r h
    simp only [de] at h ⊢
    split
    · rename_i hz; simp [hz] at h
    · rename_i hz
      simp only [hz, if_false] at h
      obtain ⟨x, h1, h2⟩ := Out.bind_eq_ok_iff.mp h
      rw [deVec_sub rd (deEntry_sub iha ihb) _ s x h1]
      simp only [Out.bind_ok]
      cases k
      case indexMap => exact h2
      all_goals
        dsimp only at h2 ⊢
        simp only [Bool.false_and, Bool.false_eq_true, if_false]
        split at h2
        · simp at h2
        · exact h2
  case h_array =>
    intro n t ih s r h
    simp only [de] at h ⊢
    split
    · rename_i hu; simpa [hu] using h
    · rename_i hu
      simp only [hu, if_false] at h
      exact map_sub (repeatDe_sub ih n) _ s r h
  case h_prod =>
    intro k fs ih s r h
    simp only [de] at h ⊢
    exact map_sub ih _ s r h
  case h_sum =>
    intro k vs ih s r h
    simp only [de] at h ⊢
    obtain ⟨x, h1, h2⟩ := Out.bind_eq_ok_iff.mp h
    rw [h1]
    simp only [Out.bind_ok]
    exact map_sub (ih k.tagK x.1 0) _ x.2 r h2
  case h_wrap =>
    intro k t ih s r h
    simp only [de] at h ⊢
    exact ih s r h
  case h_fnil => intro s r h; simpa only [deFields] using h
  case h_fcons =>
    intro n sk t fs iht ihf s r h
    simp only [deFields] at h ⊢
    split
    · rename_i hs
      simp only [hs, if_true] at h
      exact map_sub ihf _ s r h
    · rename_i hs
      simp only [hs, if_false] at h
      obtain ⟨a, h1, h2⟩ := Out.bind_eq_ok_iff.mp h
      rw [iht s a h1]
      simp only [Out.bind_ok]
      exact map_sub ihf _ a.2 r h2
  case h_vnil => intro tk tag idx s r h; simp [deVariants] at h
  case h_vcons =>
    intro n g fs vs ihf ihv tk tag idx s r h
    simp only [deVariants] at h ⊢
    split
    · rename_i hg
      simp only [hg, if_true] at h
      exact map_sub ihf _ s r h
    · rename_i hg
      simp only [hg, if_false] at h
      exact ihv tk tag (idx + 1) s r h

/-- on types without an order check the mode is irrelevant: the two decoders are the same function -/
theorem mode_irrelevant_all : ∀ t : Ty, noOrderCheck t = true → de rd false t = de rd true t := by
  apply Ty.induct (P := fun t => noOrderCheck t = true → de rd false t = de rd true t)
    (PF := fun fs => noOrderCheckFields fs = true → deFields rd false fs = deFields rd true fs)
    (PV := fun vs => noOrderCheckVariants vs = true →
      ∀ tk, deVariants rd false tk vs = deVariants rd true tk vs)
  case h_int => intro k _; funext s; simp only [de]
  case h_nonzero => intro k _; funext s; simp only [de]
  case h_float => intro k _; funext s; simp only [de]
  case h_bool => intro _; funext s; simp only [de]
  case h_str => intro k _; funext s; simp only [de]
  case h_asciiChar => intro _; funext s; simp only [de]
  case h_raw => intro k _; funext s; simp only [de]
  case h_custom => intro t _ _; funext s; simp only [de]
  case h_seq =>
    intro k t ih h
    simp only [noOrderCheck] at h
    funext s
    simp only [de, ih h]
  case h_set => intro k t _ h; simp [noOrderCheck] at h
  case h_map =>
    intro k a b iha ihb h
    simp only [noOrderCheck, Bool.and_eq_true, beq_iff_eq] at h
    obtain ⟨⟨rfl, ha⟩, hb⟩ := h
    funext s
    simp only [de, iha ha, ihb hb]
  case h_array =>
    intro n t ih h
    simp only [noOrderCheck] at h
    funext s
    simp only [de, ih h]
  case h_prod =>
    intro k fs ih h
    simp only [noOrderCheck] at h
    funext s
    simp only [de, ih h]
  case h_sum =>
    intro k vs ih h
    simp only [noOrderCheck] at h
    funext s
    simp only [de, ih h]
  case h_wrap =>
    intro k t ih h
    simp only [noOrderCheck] at h
    funext s
    simp only [de, ih h]
  case h_fnil => intro _; funext s; simp only [deFields]
  case h_fcons =>
    intro n sk t fs iht ihf h
    simp only [noOrderCheckFields, Bool.and_eq_true] at h
    funext s
    simp only [deFields, iht h.1, ihf h.2]
  case h_vnil => intro _ tk; funext tag idx s; simp only [deVariants]
  case h_vcons =>
    intro n g fs vs ihf ihv h tk
    simp only [noOrderCheckVariants, Bool.and_eq_true] at h
    funext tag idx s
    simp only [deVariants, ihf h.1, ihv h.2 tk]

end
end Borsh
