/-
  Totality of the schema analyses: with the fuel the entry points supply (`|definitions| + 1`) the
  recursion never runs out — the stack of declarations is duplicate-free and made of defined names,
  so it is never longer than the definition map (pigeonhole).  Hence none of `max_serialized_size`,
  `is_zero_size`, `validate` panics or diverges, on any container (cycles, dangling names, hostile
  widths included).
-/
import BorshModel.Schema
namespace Borsh

theorem Res.bind_noPanic {ε α β : Type} {x : Res ε α} {f : α → Res ε β}
    (hx : x.isPanic = false) (hf : ∀ a, (f a).isPanic = false) : (x.bind f).isPanic = false := by
  cases x with
  | ok a => exact hf a
  | error e => rfl
  | panic p => simp [Res.isPanic] at hx

/-- the stack invariant: no repeated declaration, every entry is defined -/
def PathOk (c : Container) (path : List Name) : Prop :=
  path.Nodup ∧ ∀ x ∈ path, x ∈ c.defs.map (·.1)

theorem get_some_mem {c : Container} {d : Name} {df : Defn} (h : c.get d = some df) :
    d ∈ c.defs.map (·.1) := by
  unfold Container.get at h
  cases hf : c.defs.find? (fun e => e.1 == d) with
  | none => simp [hf] at h
  | some e =>
    have hm := List.mem_of_find?_eq_some hf
    have hp := List.find?_some hf
    have : e.1 = d := by simpa using hp
    rw [← this]
    exact List.mem_map_of_mem hm

theorem pathOk_nil (c : Container) : PathOk c [] := ⟨List.nodup_nil, fun _ h => by simp at h⟩

theorem pathOk_length {c : Container} {path : List Name} (h : PathOk c path) :
    path.length ≤ c.defs.length := by
  have := List.Nodup.length_le_of_subset h.1 (fun x hx => h.2 x hx)
  simpa using this

theorem pathOk_cons {c : Container} {path : List Name} {d : Name} {df : Defn}
    (h : PathOk c path) (hd : path.contains d = false) (hg : c.get d = some df) :
    PathOk c (d :: path) := by
  refine ⟨List.nodup_cons.mpr ⟨?_, h.1⟩, ?_⟩
  · intro hm
    have : path.contains d = true := List.contains_iff_mem.mpr hm
    rw [hd] at this; exact absurd this (by simp)
  · intro x hx
    cases List.mem_cons.mp hx with
    | inl e => rw [e]; exact get_some_mem hg
    | inr e => exact h.2 x e

theorem cAdd_noPanic (x y : Nat) : (cAdd x y).isPanic = false := by
  unfold cAdd; split <;> rfl
theorem cMul_noPanic (x y : Nat) : (cMul x y).isPanic = false := by
  unfold cMul; split <;> rfl

theorem sumWith_noPanic {f : Name → MaxRes} (hf : ∀ e, (f e).isPanic = false) :
    ∀ (es : List Name) (acc : Nat), (sumWith f es acc).isPanic = false := by
  intro es
  induction es with
  | nil => intro acc; rfl
  | cons e es ih =>
    intro acc
    simp only [sumWith]
    exact Res.bind_noPanic (hf e) fun sz => Res.bind_noPanic (cAdd_noPanic _ _) fun a => ih a

theorem maxWith_noPanic {f : Name → MaxRes} (hf : ∀ e, (f e).isPanic = false) :
    ∀ (es : List Name) (acc : Nat), (maxWith f es acc).isPanic = false := by
  intro es
  induction es with
  | nil => intro acc; rfl
  | cons e es ih =>
    intro acc
    simp only [maxWith]
    exact Res.bind_noPanic (hf e) fun sz => ih _

/-- `max_serialized_size_impl` never exhausts its fuel under the stack invariant -/
theorem maxSize_noPanic (c : Container) : ∀ (fuel count : Nat) (d : Name) (path : List Name),
    PathOk c path → c.defs.length + 1 ≤ path.length + fuel →
    (maxSize c fuel count d path).isPanic = false := by
  intro fuel
  induction fuel with
  | zero =>
    intro count d path hp hl
    have := pathOk_length hp
    omega
  | succ fuel ih =>
    intro count d path hp hl
    unfold maxSize
    split
    · rfl
    · rename_i hc
      have hc' : path.contains d = false := by simpa using hc
      cases hg : c.get d with
      | none => rfl
      | some df =>
        have hp' := pathOk_cons hp hc' hg
        have hl' : c.defs.length + 1 ≤ (d :: path).length + fuel := by simp; omega
        have hrec : ∀ cnt e, (maxSize c fuel cnt e (d :: path)).isPanic = false :=
          fun cnt e => ih cnt e (d :: path) hp' hl'
        cases df with
        | primitive size =>
          simp only
          split
          · rfl
          · exact cMul_noPanic _ _
        | sequence lw lo hi elem =>
          simp only
          refine Res.bind_noPanic ?_ fun sz => Res.bind_noPanic (cAdd_noPanic _ _) fun s => cMul_noPanic _ _
          split
          · rfl
          · exact hrec _ _
        | «enum» tw variants =>
          simp only
          exact Res.bind_noPanic (maxWith_noPanic (fun v => hrec 1 v) _ _) fun m =>
            Res.bind_noPanic (cAdd_noPanic _ _) fun s => cMul_noPanic _ _
        | tuple elems =>
          simp only
          exact Res.bind_noPanic (sumWith_noPanic (fun e => hrec 1 e) _ _) fun s => cMul_noPanic _ _
        | struct fields =>
          simp only
          cases fields with
          | empty => rfl
          | named fs =>
            exact Res.bind_noPanic (sumWith_noPanic (fun e => hrec 1 e) _ _) fun s => cMul_noPanic _ _
          | unnamed fs =>
            exact Res.bind_noPanic (sumWith_noPanic (fun e => hrec 1 e) _ _) fun s => cMul_noPanic _ _

theorem allWith_noPanic {f : Name → Res ZsErr Bool} (hf : ∀ e, (f e).isPanic = false) :
    ∀ es : List Name, (allWith f es).isPanic = false := by
  intro es
  induction es with
  | nil => rfl
  | cons e es ih =>
    simp only [allWith]
    refine Res.bind_noPanic (hf e) fun z => ?_
    split
    · exact ih
    · rfl

theorem isZeroSize_noPanic (c : Container) : ∀ (fuel : Nat) (d : Name) (path : List Name),
    PathOk c path → c.defs.length + 1 ≤ path.length + fuel →
    (isZeroSize c fuel d path).isPanic = false := by
  intro fuel
  induction fuel with
  | zero =>
    intro d path hp hl
    have := pathOk_length hp
    omega
  | succ fuel ih =>
    intro d path hp hl
    unfold isZeroSize
    split
    · rfl
    · rename_i hc
      have hc' : path.contains d = false := by simpa using hc
      cases hg : c.get d with
      | none => rfl
      | some df =>
        have hp' := pathOk_cons hp hc' hg
        have hl' : c.defs.length + 1 ≤ (d :: path).length + fuel := by simp; omega
        have hrec : ∀ e, (isZeroSize c fuel e (d :: path)).isPanic = false :=
          fun e => ih e (d :: path) hp' hl'
        cases df with
        | primitive size => rfl
        | sequence lw lo hi elem =>
          simp only
          split
          · split
            · rfl
            · exact hrec _
          · rfl
        | tuple elems => exact allWith_noPanic hrec _
        | «enum» tw variants =>
          simp only
          split
          · exact allWith_noPanic hrec _
          · rfl
        | struct fields =>
          simp only
          cases fields with
          | empty => rfl
          | named fs => exact allWith_noPanic hrec _
          | unnamed fs => exact allWith_noPanic hrec _

theorem checkLengthWidth_noPanic (d : Name) (w max : Nat) : (checkLengthWidth d w max).isPanic = false := by
  unfold checkLengthWidth
  repeat' split
  all_goals rfl

theorem eachWith_noPanic {f : Name → Res ValErr Unit} (hf : ∀ e, (f e).isPanic = false) :
    ∀ es : List Name, (eachWith f es).isPanic = false := by
  intro es
  induction es with
  | nil => rfl
  | cons e es ih =>
    simp only [eachWith]
    exact Res.bind_noPanic (hf e) fun _ => ih

theorem validateImpl_noPanic (c : Container) : ∀ (fuel : Nat) (d : Name) (path : List Name),
    PathOk c path → c.defs.length + 1 ≤ path.length + fuel →
    (validateImpl c fuel d path).isPanic = false := by
  intro fuel
  induction fuel with
  | zero =>
    intro d path hp hl
    have := pathOk_length hp
    omega
  | succ fuel ih =>
    intro d path hp hl
    unfold validateImpl
    cases hg : c.get d with
    | none => rfl
    | some df =>
      simp only
      split
      · rfl
      · rename_i hc
        have hc' : path.contains d = false := by simpa using hc
        have hp' := pathOk_cons hp hc' hg
        have hl' : c.defs.length + 1 ≤ (d :: path).length + fuel := by simp; omega
        have hrec : ∀ e, (validateImpl c fuel e (d :: path)).isPanic = false :=
          fun e => ih e (d :: path) hp' hl'
        cases df with
        | primitive size => rfl
        | sequence lw lo hi elem =>
          simp only
          split
          · exact hrec _
          · split
            · rfl
            · refine Res.bind_noPanic (checkLengthWidth_noPanic _ _ _) fun _ => ?_
              have hz := isZeroSize_noPanic c (c.defs.length + 1) elem [] (pathOk_nil c) (by simp)
              cases hr : isZeroSize c (c.defs.length + 1) elem [] with
              | ok b => cases b <;> simp only <;> first | exact hrec _ | rfl
              | error e => cases e <;> simp only <;> first | exact hrec _ | rfl
              | panic p => rw [hr] at hz; simp [Res.isPanic] at hz
        | «enum» tw variants =>
          simp only
          split
          · rfl
          · exact eachWith_noPanic hrec _
        | tuple elems => exact eachWith_noPanic hrec _
        | struct fields => exact eachWith_noPanic hrec _

end Borsh
