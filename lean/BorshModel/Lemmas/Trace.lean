/- Algebra of serializer traces. -/
import BorshModel.Ser
namespace Borsh

/-- the serializer finished without error -/
def Tr.Ok (t : Tr) : Prop := t.status = .ok ()

@[simp] theorem Tr.done_ok : Tr.done.Ok := rfl
@[simp] theorem Tr.done_bytes : Tr.done.bytes = [] := rfl
@[simp] theorem Tr.emit_ok (bs : Bytes) : (Tr.emit bs).Ok := rfl
@[simp] theorem Tr.emit_bytes (bs : Bytes) : (Tr.emit bs).bytes = bs := by simp [Tr.emit, Tr.bytes]
@[simp] theorem Tr.fail_not_ok (e : Err) : ¬ (Tr.fail e).Ok := by simp [Tr.fail, Tr.Ok]
@[simp] theorem Tr.panic_not_ok (p : PanicSite) : ¬ (Tr.panic p).Ok := by simp [Tr.panic, Tr.Ok]
@[simp] theorem illTyped_not_ok : ¬ illTyped.Ok := by simp [illTyped]

theorem Tr.andThen_ok {a b : Tr} : (a ▹ b).Ok ↔ a.Ok ∧ b.Ok := by
  unfold Tr.andThen Tr.Ok
  cases h : a.status with
  | ok u => cases u; simp
  | err e => simp [h]
  | panic p => simp [h]

theorem Tr.andThen_bytes {a b : Tr} (h : a.Ok) : (a ▹ b).bytes = a.bytes ++ b.bytes := by
  unfold Tr.andThen Tr.bytes
  unfold Tr.Ok at h
  simp [h]

theorem serLen_ok {n : Nat} : (serLen n).Ok ↔ n < 2 ^ 32 := by
  unfold serLen
  split <;> simp [*]

theorem serLen_bytes {n : Nat} (h : n < 2 ^ 32) : (serLen n).bytes = u32le n := by
  unfold serLen
  simp [h]

theorem serMany_ok {f : Val → Tr} {vs : List Val} : (serMany f vs).Ok ↔ ∀ v ∈ vs, (f v).Ok := by
  induction vs with
  | nil => simp [serMany]
  | cons v vs ih => simp [serMany, Tr.andThen_ok, ih]

theorem serMany_bytes {f : Val → Tr} {vs : List Val} (h : (serMany f vs).Ok) :
    (serMany f vs).bytes = (vs.map fun v => (f v).bytes).flatten := by
  induction vs with
  | nil => simp [serMany]
  | cons v vs ih =>
    simp only [serMany] at h ⊢
    have h' := Tr.andThen_ok.mp h
    rw [Tr.andThen_bytes h'.1, ih h'.2]
    simp

end Borsh
