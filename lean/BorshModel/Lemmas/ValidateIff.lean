/-
  `validate` succeeds exactly on the well-formed containers (`WellFormed`: no reachable declaration
  has a defect), for every container.
-/
import BorshModel.Lemmas.ZeroSizeSpec
import BorshModel.Lemmas.ValidateSound
namespace Borsh

/-- reachability by a walk none of whose nodes is in `S` -/
inductive ReachAvoid (c : Container) (S : List Name) : Name → Name → Prop
  | refl {d : Name} : d ∉ S → ReachAvoid c S d d
  | step {d e x : Name} (df : Defn) : d ∉ S → c.get d = some df → e ∈ df.children →
      ReachAvoid c S e x → ReachAvoid c S d x

theorem ReachAvoid.head_not_mem {c : Container} {S : List Name} {d x : Name}
    (h : ReachAvoid c S d x) : d ∉ S := by
  cases h with
  | refl h => exact h
  | step _ h _ _ _ => exact h

theorem reach_avoid_nil {c : Container} {d x : Name} (h : Reach c d x) : ReachAvoid c [] d x := by
  induction h with
  | refl d => exact .refl (by simp)
  | step df hg he _ ih => exact .step df (by simp) hg he ih

/-- a walk from `a` to `x` avoiding `S` either avoids `d` as well, or leaves `d` for the last time
through one of its children and avoids `d` from there on, or ends in `d` -/
theorem ReachAvoid.split {c : Container} {S : List Name} {a x : Name} (h : ReachAvoid c S a x)
    (d : Name) :
    ReachAvoid c (d :: S) a x ∨
    (∃ df e, c.get d = some df ∧ e ∈ df.children ∧ ReachAvoid c (d :: S) e x) ∨ x = d := by
  induction h with
  | @refl a ha =>
    by_cases e : a = d
    · exact Or.inr (Or.inr e)
    · exact Or.inl (.refl (by simp [e, ha]))
  | @step a e x df ha hg he _ ih =>
    rcases ih with h1 | h2 | h3
    · by_cases ead : a = d
      · subst ead
        exact Or.inr (Or.inl ⟨df, e, hg, he, h1⟩)
      · exact Or.inl (.step df (by simp [ead, ha]) hg he h1)
    · exact Or.inr (Or.inl h2)
    · exact Or.inr (Or.inr h3)

/-- from `d` itself: a walk to another node continues through a child and never returns to `d` -/
theorem ReachAvoid.through_child {c : Container} {S : List Name} {d x : Name}
    (h : ReachAvoid c S d x) (hx : x ≠ d) :
    ∃ df e, c.get d = some df ∧ e ∈ df.children ∧ ReachAvoid c (d :: S) e x := by
  rcases h.split d with h1 | h2 | h3
  · exact absurd (List.mem_cons_self) h1.head_not_mem
  · exact h2
  · exact absurd h3 hx

theorem checkLengthWidth_ok_iff (d : Name) (w max : Nat) :
    checkLengthWidth d w max = .ok () ↔ lengthWidthOk w max = true := by
  unfold checkLengthWidth lengthWidthOk
  by_cases h0 : w = 0
  · simp [h0]
  · by_cases h8 : w = 8
    · subst h8; simp
    · simp only [h0, if_false]
      by_cases hodd : w = 3 ∨ w = 5 ∨ w = 6 ∨ w = 7
      · simp only [hodd, if_true]
        rcases hodd with h | h | h | h <;> subst h <;> simp
      · simp only [hodd, if_false]
        by_cases h7 : w ≤ 7
        · simp only [h7, if_true]
          have hw : w = 1 ∨ w = 2 ∨ w = 4 := by omega
          rcases hw with h | h | h <;> subst h
          · by_cases hm : max < 2 ^ (1 * 8) <;> simp [hm]
          · by_cases hm : max < 2 ^ (2 * 8) <;> simp [hm]
          · by_cases hm : max < 2 ^ (4 * 8) <;> simp [hm]
        · simp only [h7, if_false, h8]
          have : ¬ (w = 1 ∨ w = 2 ∨ w = 4) := by omega
          simp [h0, h8]
          omega

theorem eachWith_ok {f : Name → Res ValErr Unit} :
    ∀ es : List Name, eachWith f es = .ok () → ∀ e ∈ es, f e = .ok () := by
  intro es
  induction es with
  | nil => intro _ e he; simp at he
  | cons x es ih =>
    intro h e he
    simp only [eachWith] at h
    cases hx : f x with
    | ok u =>
      rw [hx] at h
      simp only [Res.bind] at h
      cases List.mem_cons.mp he with
      | inl e1 => rw [e1]; exact hx
      | inr e1 => exact ih h e e1
    | error e' => rw [hx] at h; simp [Res.bind] at h
    | panic p => rw [hx] at h; simp [Res.bind] at h

/-- soundness of an `Ok`: no declaration reachable from `d` without touching the stack has a defect -/
theorem validateImpl_ok_sound (c : Container) : ∀ (fuel : Nat) (d : Name) (path : List Name),
    validateImpl c fuel d path = .ok () → ∀ x, ReachAvoid c path d x → ¬ Defect c x := by
  intro fuel
  induction fuel with
  | zero => intro d path h; simp [validateImpl] at h
  | succ fuel ih =>
    intro d path h x hr
    have hd : d ∉ path := hr.head_not_mem
    have hc : path.contains d = false := by
      cases hcc : path.contains d with
      | false => rfl
      | true => exact absurd (List.contains_iff_mem.mp hcc) hd
    unfold validateImpl at h
    cases hg : c.get d with
    | none => simp [hg] at h
    | some df =>
      simp only [hg, hc, Bool.false_eq_true, if_false] at h
      -- children validated under the longer stack
      have viaChild : (∀ e ∈ df.children, validateImpl c fuel e (d :: path) = .ok ()) →
          x ≠ d → ¬ Defect c x := by
        intro hch hx
        obtain ⟨df', e, hg', he, hr'⟩ := hr.through_child hx
        rw [hg] at hg'
        cases hg'
        exact ih e (d :: path) (hch e he) x hr'
      by_cases hx : x = d
      · -- the declaration itself: validation looked at its definition
        subst hx
        unfold Defect
        simp only [hg]
        cases df with
        | primitive s => simp
        | tuple es => simp
        | struct fs => simp
        | «enum» tw vs =>
          simp only at h ⊢
          split at h
          · simp at h
          · omega
        | sequence lw lo hi e =>
          simp only at h ⊢
          rintro ⟨hfix, hdef⟩
          simp only [hfix, Bool.false_eq_true, if_false] at h
          split at h
          · simp at h
          · rename_i hlt
            cases hlw : checkLengthWidth x lw hi with
            | error e' => rw [hlw] at h; simp [Res.bind] at h
            | panic p => rw [hlw] at h; simp [Res.bind] at h
            | ok u =>
              rw [hlw] at h
              simp only [Res.bind] at h
              have hok := (checkLengthWidth_ok_iff x lw hi).mp (by rw [hlw])
              rcases hdef with h1 | h2 | h3
              · exact hlt h1
              · rw [hok] at h2; cases h2
              · have := (isZeroSize_iff c e).mpr h3
                rw [this] at h
                simp at h
      · -- another declaration: reached through a child
        refine viaChild ?_ hx
        intro e he
        cases df with
        | primitive s => simp [Defn.children] at he
        | tuple es => exact eachWith_ok _ h e he
        | struct fs => exact eachWith_ok _ h e he
        | «enum» tw vs =>
          simp only at h
          split at h
          · simp at h
          · exact eachWith_ok _ h e he
        | sequence lw lo hi el =>
          simp only [Defn.children, List.mem_singleton] at he
          subst he
          simp only at h
          split at h
          · exact h
          · split at h
            · simp at h
            · cases hlw : checkLengthWidth d lw hi with
              | error e' => rw [hlw] at h; simp [Res.bind] at h
              | panic p => rw [hlw] at h; simp [Res.bind] at h
              | ok u =>
                rw [hlw] at h
                simp only [Res.bind] at h
                cases hz : isZeroSize c (c.defs.length + 1) e [] with
                | ok b =>
                  rw [hz] at h
                  cases b with
                  | true => simp at h
                  | false => exact h
                | error ze =>
                  rw [hz] at h
                  cases ze with
                  | recursive => exact h
                  | missing m => simp at h
                | panic p => rw [hz] at h; simp at h

theorem Reach.trans_step {c : Container} {d e x : Name} (df : Defn) (hg : c.get d = some df)
    (he : e ∈ df.children) (h : Reach c e x) : Reach c d x := .step df hg he h

/-- a missing-definition error of the zero-size analysis names an absent declaration reachable
from where the analysis started -/
theorem isZeroSize_missing_reach (c : Container) : ∀ (fuel : Nat) (d : Name) (path : List Name) (m : Name),
    isZeroSize c fuel d path = .error (.missing m) → Reach c d m := by
  intro fuel
  induction fuel with
  | zero => intro d path m h; simp [isZeroSize] at h
  | succ fuel ih =>
    intro d path m h
    unfold isZeroSize at h
    split at h
    · simp at h
    · cases hg : c.get d with
      | none =>
        simp only [hg] at h
        simp at h; subst h; exact .refl _
      | some df =>
        simp only [hg] at h
        have hrec : ∀ e, e ∈ df.children → isZeroSize c fuel e (d :: path) = .error (.missing m) → Reach c d m :=
          fun e he hz => .step df hg he (ih e (d :: path) m hz)
        have hall : ∀ es : List Name, (∀ e ∈ es, e ∈ df.children) →
            allWith (fun e => isZeroSize c fuel e (d :: path)) es = .error (.missing m) → Reach c d m := by
          intro es
          induction es with
          | nil => intro _ h; simp [allWith] at h
          | cons x es ihs =>
            intro hsub h
            simp only [allWith] at h
            cases Res.bind_eq_error h with
            | inl h1 => exact hrec x (hsub x (by simp)) h1
            | inr h1 =>
              obtain ⟨z, _, h2⟩ := h1
              split at h2
              · exact ihs (fun e he => hsub e (by simp [he])) h2
              · simp at h2
        cases df with
        | primitive size => simp at h
        | sequence lw lo hi elem =>
          simp only at h
          split at h
          · split at h
            · simp at h
            · exact hrec elem (by simp [Defn.children]) h
          · simp at h
        | tuple elems => exact hall elems (fun e he => by simpa [Defn.children] using he) h
        | «enum» tw variants =>
          simp only at h
          split at h
          · exact hall _ (fun e he => by simpa [Defn.children] using he) h
          · simp at h
        | struct fields =>
          simp only at h
          cases fields with
          | empty => simp at h
          | named fs => exact hall _ (fun e he => by simpa [Defn.children] using he) h
          | unnamed fs => exact hall _ (fun e he => by simpa [Defn.children] using he) h

/-- an error comes from a reachable declaration with a defect -/
theorem validateImpl_error_reach (c : Container) : ∀ (fuel : Nat) (d : Name) (path : List Name) (e : ValErr),
    validateImpl c fuel d path = .error e → ∃ x, Reach c d x ∧ Defect c x := by
  intro fuel
  induction fuel with
  | zero => intro d path e h; simp [validateImpl] at h
  | succ fuel ih =>
    intro d path e h
    unfold validateImpl at h
    cases hg : c.get d with
    | none => exact ⟨d, .refl d, by simp [Defect, hg]⟩
    | some df =>
      simp only [hg] at h
      split at h
      · simp at h
      · have hrec : ∀ x, x ∈ df.children → validateImpl c fuel x (d :: path) = .error e →
            ∃ y, Reach c d y ∧ Defect c y := by
          intro x hx hv
          obtain ⟨y, hy, hdef⟩ := ih x (d :: path) e hv
          exact ⟨y, .step df hg hx hy, hdef⟩
        have heach : ∀ es : List Name, (∀ x ∈ es, x ∈ df.children) →
            eachWith (fun x => validateImpl c fuel x (d :: path)) es = .error e →
            ∃ y, Reach c d y ∧ Defect c y := by
          intro es
          induction es with
          | nil => intro _ h; simp [eachWith] at h
          | cons x es ihs =>
            intro hsub h
            simp only [eachWith] at h
            cases Res.bind_eq_error h with
            | inl h1 => exact hrec x (hsub x (by simp)) h1
            | inr h1 =>
              obtain ⟨_, _, h2⟩ := h1
              exact ihs (fun y hy => hsub y (by simp [hy])) h2
        cases df with
        | primitive size => simp at h
        | sequence lw lo hi elem =>
          simp only at h
          split at h
          · exact hrec elem (by simp [Defn.children]) h
          · rename_i hfix
            have hfix' : isFixedLen lw lo hi = false := by simpa using hfix
            have here : (hi < lo ∨ lengthWidthOk lw hi = false ∨ ZeroSized c elem) →
                ∃ y, Reach c d y ∧ Defect c y := fun hd =>
              ⟨d, .refl d, by simp only [Defect, hg]; exact ⟨hfix', hd⟩⟩
            split at h
            · rename_i hlt; exact here (Or.inl hlt)
            · cases hlw : checkLengthWidth d lw hi with
              | error e' =>
                refine here (Or.inr (Or.inl ?_))
                cases hok : lengthWidthOk lw hi with
                | false => rfl
                | true =>
                  have := (checkLengthWidth_ok_iff d lw hi).mpr hok
                  rw [hlw] at this; cases this
              | panic p => rw [hlw] at h; simp [Res.bind] at h
              | ok u =>
                rw [hlw] at h
                simp only [Res.bind] at h
                cases hz : isZeroSize c (c.defs.length + 1) elem [] with
                | ok b =>
                  rw [hz] at h
                  cases b with
                  | true => exact here (Or.inr (Or.inr ((isZeroSize_iff c elem).mp hz)))
                  | false => exact hrec elem (by simp [Defn.children]) h
                | error ze =>
                  rw [hz] at h
                  cases ze with
                  | recursive => exact hrec elem (by simp [Defn.children]) h
                  | missing m =>
                    have hm := isZeroSize_missing c _ elem [] m hz
                    have hr := isZeroSize_missing_reach c _ elem [] m hz
                    exact ⟨m, .step _ hg (by simp [Defn.children]) hr, by simp [Defect, hm]⟩
                | panic p => rw [hz] at h; simp at h
        | «enum» tw variants =>
          simp only at h
          split at h
          · rename_i htw
            exact ⟨d, .refl d, by simp only [Defect, hg]; exact htw⟩
          · exact heach _ (fun x hx => by simpa [Defn.children] using hx) h
        | tuple elems => exact heach _ (fun x hx => by simpa [Defn.children] using hx) h
        | struct fields => exact heach _ (fun x hx => by simpa [Defn.children] using hx) h

/-- **`validate` succeeds if and only if the container is well-formed** -/
theorem validate_ok_iff (c : Container) : c.validate = .ok () ↔ WellFormed c := by
  constructor
  · intro h d hr
    exact validateImpl_ok_sound c _ c.decl [] h d (reach_avoid_nil hr)
  · intro hw
    cases hv : c.validate with
    | ok u => rfl
    | error e =>
      obtain ⟨x, hx, hd⟩ := validateImpl_error_reach c _ c.decl [] e hv
      exact absurd hd (hw x hx)
    | panic p =>
      have := validateImpl_noPanic c (c.defs.length + 1) c.decl [] (pathOk_nil c) (by simp)
      unfold Container.validate at hv
      rw [hv] at this; simp [Res.isPanic] at this

end Borsh
