/-
  Soundness of validation errors: whenever `validate` fails, the declaration named by the error
  really has the defect the error class describes (stated on that declaration's own definition).
-/
import BorshModel.Schema
import BorshModel.Lemmas.MaxSize
namespace Borsh

/-- the defect an error names, on the definition of the declaration it names -/
def localDefect (c : Container) : ValErr → Prop
  | .missing d => c.get d = none
  | .emptyLengthRange d =>
    ∃ lw lo hi e, c.get d = some (.sequence lw lo hi e) ∧ isFixedLen lw lo hi = false ∧ hi < lo
  | .tagNotPowerOfTwo d =>
    ∃ lw lo hi e, c.get d = some (.sequence lw lo hi e) ∧ isFixedLen lw lo hi = false ∧
      (lw = 3 ∨ lw = 5 ∨ lw = 6 ∨ lw = 7)
  | .tagTooNarrow d =>
    ∃ lw lo hi e, c.get d = some (.sequence lw lo hi e) ∧ isFixedLen lw lo hi = false ∧
      (lw = 1 ∨ lw = 2 ∨ lw = 4) ∧ 2 ^ (lw * 8) ≤ hi
  | .tagTooWide d =>
    (∃ lw lo hi e, c.get d = some (.sequence lw lo hi e) ∧ isFixedLen lw lo hi = false ∧ 8 < lw) ∨
    (∃ tw vs, c.get d = some (.enum tw vs) ∧ 8 < tw)
  | .zstSequence d =>
    ∃ lw lo hi e, c.get d = some (.sequence lw lo hi e) ∧ isFixedLen lw lo hi = false ∧
      isZeroSize c (c.defs.length + 1) e [] = .ok true

theorem Res.bind_eq_error {ε α β : Type} {x : Res ε α} {f : α → Res ε β} {e : ε}
    (h : x.bind f = .error e) : x = .error e ∨ ∃ a, x = .ok a ∧ f a = .error e := by
  cases x with
  | ok a => exact Or.inr ⟨a, rfl, h⟩
  | error e' => simp [Res.bind] at h; exact Or.inl (by rw [h])
  | panic p => simp [Res.bind] at h

theorem allWith_missing {P : Prop} {f : Name → Res ZsErr Bool} {m : Name}
    (hf : ∀ e, f e = .error (.missing m) → P) :
    ∀ es : List Name, allWith f es = .error (.missing m) → P := by
  intro es
  induction es with
  | nil => intro h; simp [allWith] at h
  | cons e es ih =>
    intro h
    simp only [allWith] at h
    cases Res.bind_eq_error h with
    | inl h1 => exact hf e h1
    | inr h1 =>
      obtain ⟨z, _, h2⟩ := h1
      split at h2
      · exact ih h2
      · simp at h2

/-- a missing-definition error of the zero-size analysis names a declaration that is absent -/
theorem isZeroSize_missing (c : Container) : ∀ (fuel : Nat) (d : Name) (path : List Name) (m : Name),
    isZeroSize c fuel d path = .error (.missing m) → c.get m = none := by
  intro fuel
  induction fuel with
  | zero => intro d path m h; simp [isZeroSize] at h
  | succ fuel ih =>
    intro d path m h
    unfold isZeroSize at h
    split at h
    · simp at h
    · cases hg : c.get d with
      | none =>
        simp only [hg] at h
        simp at h; subst h; exact hg
      | some df =>
        simp only [hg] at h
        have hrec : ∀ e, isZeroSize c fuel e (d :: path) = .error (.missing m) → c.get m = none :=
          fun e he => ih e (d :: path) m he
        cases df with
        | primitive size => simp at h
        | sequence lw lo hi elem =>
          simp only at h
          split at h
          · split at h
            · simp at h
            · exact hrec _ h
          · simp at h
        | tuple elems => exact allWith_missing hrec _ h
        | «enum» tw variants =>
          simp only at h
          split at h
          · exact allWith_missing hrec _ h
          · simp at h
        | struct fields =>
          simp only at h
          cases fields with
          | empty => simp at h
          | named fs => exact allWith_missing hrec _ h
          | unnamed fs => exact allWith_missing hrec _ h

theorem checkLengthWidth_error {d : Name} {w max : Nat} {e : ValErr}
    (h : checkLengthWidth d w max = .error e) :
    (e = .tagNotPowerOfTwo d ∧ (w = 3 ∨ w = 5 ∨ w = 6 ∨ w = 7)) ∨
    (e = .tagTooNarrow d ∧ (w = 1 ∨ w = 2 ∨ w = 4) ∧ 2 ^ (w * 8) ≤ max) ∨
    (e = .tagTooWide d ∧ 8 < w) := by
  unfold checkLengthWidth at h
  split at h
  · simp at h
  · split at h
    · simp at h; left; exact ⟨h.symm, by assumption⟩
    · split at h
      · split at h
        · simp at h
        · simp at h; right; left; refine ⟨h.symm, by omega, by omega⟩
      · split at h
        · simp at h
        · simp at h; right; right; exact ⟨h.symm, by omega⟩

theorem eachWith_error {f : Name → Res ValErr Unit} {e : ValErr} {P : Prop}
    (hf : ∀ x, f x = .error e → P) : ∀ es : List Name, eachWith f es = .error e → P := by
  intro es
  induction es with
  | nil => intro h; simp [eachWith] at h
  | cons x es ih =>
    intro h
    simp only [eachWith] at h
    cases Res.bind_eq_error h with
    | inl h1 => exact hf x h1
    | inr h1 => obtain ⟨_, _, h2⟩ := h1; exact ih h2

/-- **every error of `validate_impl` names a declaration that really has that defect** -/
theorem validateImpl_error_real (c : Container) : ∀ (fuel : Nat) (d : Name) (path : List Name) (e : ValErr),
    validateImpl c fuel d path = .error e → localDefect c e := by
  intro fuel
  induction fuel with
  | zero => intro d path e h; simp [validateImpl] at h
  | succ fuel ih =>
    intro d path e h
    unfold validateImpl at h
    cases hg : c.get d with
    | none =>
      simp only [hg] at h
      simp at h; subst h; exact hg
    | some df =>
      simp only [hg] at h
      split at h
      · simp at h
      · have hrec : ∀ x, validateImpl c fuel x (d :: path) = .error e → localDefect c e :=
          fun x hx => ih x (d :: path) e hx
        cases df with
        | primitive size => simp at h
        | sequence lw lo hi elem =>
          simp only at h
          split at h
          · exact hrec _ h
          · rename_i hfix
            have hfix' : isFixedLen lw lo hi = false := by simpa using hfix
            split at h
            · rename_i hlt
              simp at h; subst h
              exact ⟨lw, lo, hi, elem, hg, hfix', hlt⟩
            · cases Res.bind_eq_error h with
              | inl h1 =>
                rcases checkLengthWidth_error h1 with ⟨rfl, hw⟩ | ⟨rfl, hw, hm⟩ | ⟨rfl, hw⟩
                · exact ⟨lw, lo, hi, elem, hg, hfix', hw⟩
                · exact ⟨lw, lo, hi, elem, hg, hfix', hw, hm⟩
                · exact Or.inl ⟨lw, lo, hi, elem, hg, hfix', hw⟩
              | inr h1 =>
                obtain ⟨_, _, h2⟩ := h1
                cases hz : isZeroSize c (c.defs.length + 1) elem [] with
                | ok b =>
                  rw [hz] at h2
                  cases b with
                  | true =>
                    simp at h2; subst h2
                    exact ⟨lw, lo, hi, elem, hg, hfix', hz⟩
                  | false => exact hrec _ h2
                | error ze =>
                  rw [hz] at h2
                  cases ze with
                  | recursive => exact hrec _ h2
                  | missing m =>
                    simp at h2; subst h2
                    exact isZeroSize_missing c _ elem [] m hz
                | panic p => rw [hz] at h2; simp at h2
        | «enum» tw variants =>
          simp only at h
          split at h
          · rename_i htw
            simp at h; subst h
            exact Or.inr ⟨tw, variants, hg, htw⟩
          · exact eachWith_error hrec _ h
        | tuple elems => exact eachWith_error hrec _ h
        | struct fields => exact eachWith_error hrec _ h

end Borsh
