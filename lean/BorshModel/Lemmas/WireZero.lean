/-
  C14, agreement clause: an element type that is empty on the wire is zero-sized for schema
  validation, so a dynamically sized sequence of it gets the zero-sized-sequence verdict.
-/
import BorshModel.Lemmas.Describes
import BorshModel.Lemmas.ZeroSizeSpec
namespace Borsh

/-- all the names of a list are derivable zero-sized at one common depth -/
theorem zs_all_common (c : Container) : ∀ ds : List Name, (∀ d ∈ ds, ZeroSized c d) →
    ∃ h, ds.all (zsH c h) = true := by
  intro ds
  induction ds with
  | nil => intro _; exact ⟨0, rfl⟩
  | cons d ds ih =>
    intro hall
    obtain ⟨h1, hd⟩ := hall d (by simp)
    obtain ⟨h2, hds⟩ := ih (fun x hx => hall x (by simp [hx]))
    refine ⟨max h1 h2, ?_⟩
    simp only [List.all_cons, Bool.and_eq_true]
    refine ⟨zsH_mono c (Nat.le_max_left h1 h2) d hd, ?_⟩
    rw [List.all_eq_true] at hds ⊢
    intro x hx
    exact zsH_mono c (Nat.le_max_right h1 h2) x (hds x hx)

theorem zs_of_get {c : Container} {d : Name} {df : Defn} (hg : c.get d = some df) (h : Nat)
    (hz : (match df with
      | .primitive s => s == 0
      | .sequence lw lo hi e => lw == 0 && ((lo == hi && lo == 0) || zsH c h e)
      | .tuple es => es.all (zsH c h)
      | .enum tw vs => tw == 0 && (vs.map (·.2.2)).all (zsH c h)
      | .struct fs => fs.decls.all (zsH c h)) = true) : ZeroSized c d := by
  refine ⟨h + 1, ?_⟩
  unfold zsH
  simp only [hg]
  cases df <;> exact hz

/-- the wire-empty fields are zero-sized declarations -/
def ZsF (c : Container) (fs : List Field) : Prop :=
  wireZeroFields fs = true → BndKept c fs → ∀ d ∈ keptDecls fs, ZeroSized c d

theorem wireZero_zeroSized (c : Container) :
    ∀ t : Ty, shapeOk t = true → wireZero t = true → Bnd c t → ZeroSized c (declOf t) := by
  apply Ty.induct (P := fun t => shapeOk t = true → wireZero t = true → Bnd c t → ZeroSized c (declOf t))
    (PF := fun fs => shapeOkFields fs = true → ZsF c fs)
    (PV := fun _ => True)
  case h_int => intro k _ h; simp [wireZero] at h
  case h_nonzero => intro k _ h; simp [wireZero] at h
  case h_float => intro k _ h; simp [wireZero] at h
  case h_bool => intro _ h; simp [wireZero] at h
  case h_str => intro k _ h; simp [wireZero] at h
  case h_asciiChar => intro _ h; simp [wireZero] at h
  case h_raw => intro k _ h; simp [wireZero] at h
  case h_seq => intro k t _ _ h; simp [wireZero] at h
  case h_set => intro k t _ _ h; simp [wireZero] at h
  case h_map => intro k a b _ _ _ h; simp [wireZero] at h
  case h_sum => intro k vs _ _ h; simp [wireZero] at h
  case h_custom => intro t _ _ h; simp [wireZero] at h
  case h_array =>
    intro n t ih hs hz hb
    simp only [shapeOk] at hs
    simp only [wireZero, Bool.or_eq_true, beq_iff_eq] at hz
    simp only [Bnd] at hb
    cases hz with
    | inl h0 =>
      subst h0
      exact zs_of_get hb.1 0 (by simp)
    | inr ht =>
      obtain ⟨h, hh⟩ := ih hs ht hb.2
      exact zs_of_get hb.1 h (by simp [hh])
  case h_wrap =>
    intro k t ih hs hz hb
    simp only [shapeOk] at hs
    simp only [wireZero] at hz
    simp only [Bnd] at hb
    simpa only [declOf] using ih hs hz hb
  case h_prod =>
    intro k fs ih hs hz hb
    have hs' := hs
    simp only [shapeOk, Bool.and_eq_true] at hs'
    simp only [wireZero, Bool.and_eq_true] at hz
    by_cases hk : k ≠ .unit ∧ k ≠ .phantom
    · -- the definition lists the kept fields; all of them are zero-sized
      have hkept : BndKept c fs := by
        cases k <;> simp only [Bnd] at hb <;>
          first
            | exact bndFields_kept c fs hb.2
            | exact hb.2
            | (have : fs = [] := by simpa using hs'.1
               subst this; trivial)
            | exact absurd hb id
      obtain ⟨h, hall⟩ := zs_all_common c (keptDecls fs) (ih hs'.2 hz.2 hkept)
      -- the walker lemma tells which definition the declaration has: reuse it through `sdec`'s shape
      have hdef : ∃ df, c.get (declOf (.prod k fs)) = some df ∧
          (match df with
            | .tuple es => es = keptDecls fs
            | .struct f => f.decls = keptDecls fs
            | _ => False) := by
        cases k with
        | tuple => simp only [Bnd] at hb; exact ⟨_, hb.1, (keptDecls_noSkip fs hs'.1).symm⟩
        | unit => exact absurd rfl hk.1
        | phantom => exact absurd rfl hk.2
        | rangeFull =>
          simp only [Bnd] at hb
          have hfs : fs = [] := by simpa using hs'.1
          subst hfs
          exact ⟨_, hb, rfl⟩
        | range =>
          simp only [Bnd] at hb
          simp only [Bool.and_eq_true, beq_iff_eq] at hs'
          exact ⟨_, hb.1, by
            show (Fields.named _).decls = _
            rw [zip_names_decls _ _ _ (by rw [declOfFields_length]; exact hs'.1.2), keptDecls_noSkip fs hs'.1.1]⟩
        | rangeInclusive =>
          simp only [Bnd] at hb
          simp only [Bool.and_eq_true, beq_iff_eq] at hs'
          exact ⟨_, hb.1, by
            show (Fields.named _).decls = _
            rw [zip_names_decls _ _ _ (by rw [declOfFields_length]; exact hs'.1.2), keptDecls_noSkip fs hs'.1.1]⟩
        | rangeFrom =>
          simp only [Bnd] at hb
          exact ⟨_, hb.1, by simp only [Fields.decls, map_snd_pair, keptDecls_noSkip fs hs'.1]⟩
        | rangeTo =>
          simp only [Bnd] at hb
          exact ⟨_, hb.1, by simp only [Fields.decls, map_snd_pair, keptDecls_noSkip fs hs'.1]⟩
        | rangeToInclusive =>
          simp only [Bnd] at hb
          exact ⟨_, hb.1, by simp only [Fields.decls, map_snd_pair, keptDecls_noSkip fs hs'.1]⟩
        | sockV4 => simp at hz
        | sockV6 => simp at hz
        | struct name i =>
          simp only [Bnd] at hb
          exact ⟨_, hb.1, schemaFields_decls fs⟩
      obtain ⟨df, hg, hshape⟩ := hdef
      cases df with
      | tuple es => subst hshape; exact zs_of_get hg h hall
      | struct f => exact zs_of_get hg h (by simp only; rw [hshape]; exact hall)
      | primitive s => exact absurd hshape id
      | sequence a b c' d => exact absurd hshape id
      | «enum» a b => exact absurd hshape id
    · have hku : k = .unit ∨ k = .phantom := by
        cases k <;> first
          | exact Or.inl rfl
          | exact Or.inr rfl
          | (exfalso; apply hk; constructor <;> (intro h; cases h))
      have hget : c.get (n! "()") = some (.primitive 0) := by
        rcases hku with rfl | rfl <;> simpa only [Bnd] using hb
      have hdecl : declOf (.prod k fs) = n! "()" := by
        rcases hku with rfl | rfl <;> rfl
      rw [hdecl]
      exact zs_of_get hget 0 (by simp)
  case h_fnil => intro _ _ _ d hd; simp [keptDecls] at hd
  case h_fcons =>
    intro n sk t fs iht ihf hs hz hb d hd
    simp only [shapeOkFields, Bool.and_eq_true, Bool.or_eq_true] at hs
    simp only [wireZeroFields, Bool.and_eq_true, Bool.or_eq_true] at hz
    simp only [BndKept] at hb
    cases sk with
    | true =>
      simp only [keptDecls, if_true] at hd
      exact ihf hs.2 hz.2 hb.2 d hd
    | false =>
      simp only [keptDecls, Bool.false_eq_true, if_false, List.mem_cons] at hd
      cases hd with
      | inl e =>
        rw [e]
        refine iht ?_ ?_ ?_
        · cases hs.1 with
          | inl h => cases h
          | inr h => exact h
        · cases hz.1 with
          | inl h => cases h
          | inr h => exact h
        · cases hb.1 with
          | inl h => cases h
          | inr h => exact h
      | inr e => exact ihf hs.2 hz.2 hb.2 d e
  case h_vnil => trivial
  case h_vcons => intros; trivial

end Borsh
