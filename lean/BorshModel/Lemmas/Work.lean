/-
  C07, the composed bound: the *size of the decoded value* (number of nodes, bytes of strings
  included — a proxy for the elements decoded and the memory retained) is at most a constant plus a
  constant multiple of the number of input bytes consumed, with constants that depend on the type
  only — for every type all of whose collection elements occupy at least one byte on the wire
  (`occ`), every byte string and both key-order modes.  A length prefix alone buys nothing.
-/
import BorshModel.Lemmas.ConsumeMain
namespace Borsh

mutual
def Val.nodes : Val → Nat
  | .int _ => 1
  | .bool _ => 1
  | .blob bs => 1 + bs.length
  | .list vs => 1 + nodesL vs
  | .deque a b => 1 + nodesL a + nodesL b
  | .variant _ fs => 1 + nodesL fs
def nodesL : List Val → Nat
  | [] => 0
  | v :: vs => v.nodes + nodesL vs
end

mutual
/-- every collection element occupies at least one byte on the wire (the property's hypothesis) -/
def occ : Ty → Bool
  | .seq _ t => decide (1 ≤ minWire t) && occ t
  | .set _ t => decide (1 ≤ minWire t) && occ t
  | .map _ a b => decide (1 ≤ minWire a + minWire b) && occ a && occ b
  | .array _ t => occ t
  | .prod _ fs => occF fs
  | .sum _ vs => occV vs
  | .wrap _ t => occ t
  | _ => true
def occF : List (Option Name × Bool × Ty) → Bool
  | [] => true
  | (_, skip, t) :: fs => (skip || occ t) && occF fs
def occV : List (Name × Nat × List (Option Name × Bool × Ty)) → Bool
  | [] => true
  | (_, _, fs) :: vs => occF fs && occV vs
end

mutual
/-- the constant part of the bound -/
def costA : Ty → Nat
  | .array n t => 1 + n * costA t
  | .prod _ fs => 1 + costAF fs
  | .sum _ vs => 1 + costAV vs
  | .wrap _ t => costA t
  | _ => 1
def costAF : List (Option Name × Bool × Ty) → Nat
  | [] => 0
  | (_, skip, t) :: fs => (if skip then (defaultOf t).nodes else costA t) + costAF fs
def costAV : List (Name × Nat × List (Option Name × Bool × Ty)) → Nat
  | [] => 0
  | (_, _, fs) :: vs => costAF fs + costAV vs
end

mutual
/-- the factor per consumed input byte -/
def costB : Ty → Nat
  | .str _ => 1
  | .raw _ => 1
  | .seq _ t => costA t + costB t
  | .set _ t => costA t + costB t
  | .map _ a b => 1 + costA a + costA b + costB a + costB b
  | .array _ t => costB t
  | .prod _ fs => costBF fs
  | .sum _ vs => costBV vs
  | .wrap _ t => costB t
  | _ => 0
def costBF : List (Option Name × Bool × Ty) → Nat
  | [] => 0
  | (_, skip, t) :: fs => (if skip then 0 else costB t) + costBF fs
def costBV : List (Name × Nat × List (Option Name × Bool × Ty)) → Nat
  | [] => 0
  | (_, _, fs) :: vs => costBF fs + costBV vs
end

theorem costA_pos : ∀ t : Ty, 1 ≤ costA t
  | .int _ | .nonzero _ | .float _ | .bool | .str _ | .asciiChar | .raw _ | .seq _ _ | .set _ _
  | .map _ _ _ | .custom _ => by simp [costA]
  | .array n t => by simp [costA]
  | .prod _ fs => by simp [costA]
  | .sum _ vs => by simp [costA]
  | .wrap _ t => by simp only [costA]; exact costA_pos t

/-! ### arithmetic -/

theorem lin1 (A B c : Nat) (h : 1 ≤ c) : A + B * c ≤ (A + B) * c := by
  rw [Nat.add_mul]
  have := Nat.le_mul_of_pos_right A h
  omega

theorem mul_le_sum_l (B B' c c' : Nat) : B * c ≤ (B + B') * (c + c') :=
  Nat.mul_le_mul (Nat.le_add_right _ _) (Nat.le_add_right _ _)

theorem mul_le_sum_r (B B' c c' : Nat) : B' * c' ≤ (B + B') * (c + c') :=
  Nat.mul_le_mul (Nat.le_add_left _ _) (Nat.le_add_left _ _)

/-! ### values -/

theorem nodesL_append : ∀ a b : List Val, nodesL (a ++ b) = nodesL a + nodesL b
  | [], b => by simp [nodesL]
  | x :: a, b => by simp [nodesL, nodesL_append a b, Nat.add_assoc]

theorem nodesL_bytesVal (bs : Bytes) : nodesL (bytesVal bs) = bs.length := by
  induction bs with
  | nil => rfl
  | cons b bs ih => simp only [bytesVal, List.map_cons, nodesL, Val.nodes, List.length_cons] at *; omega

theorem nodesL_applyInit : ∀ l : List Val, nodesL (applyInit l) = nodesL l
  | [] => rfl
  | [.int _] => rfl
  | [.bool _] => rfl
  | [.blob _] => rfl
  | [.list _] => rfl
  | [.deque _ _] => rfl
  | [.variant _ _] => rfl
  | v :: w :: vs => by
    simp only [applyInit, nodesL]
    rw [show nodesL (applyInit (w :: vs)) = nodesL (w :: vs) from nodesL_applyInit (w :: vs)]
    simp [nodesL]

theorem nodes_initVariant (b : Bool) (v : Val) : (initVariant b v).nodes = v.nodes := by
  cases v <;> simp only [initVariant]
  cases b <;> simp [Val.nodes, nodesL_applyInit]

theorem nodesL_insertSet (x : Val) : ∀ acc : List Val, nodesL (insertSet x acc) ≤ x.nodes + nodesL acc
  | [] => by simp [insertSet, nodesL]
  | y :: ys => by
    simp only [insertSet]
    split
    · simp [nodesL]
    · simp only [nodesL]; omega
    · have := nodesL_insertSet x ys
      simp only [nodesL]; omega

theorem nodesL_insertMap (e : Val) : ∀ acc : List Val, nodesL (insertMap e acc) ≤ e.nodes + nodesL acc
  | [] => by simp [insertMap, nodesL]
  | y :: ys => by
    simp only [insertMap]
    split
    · simp [nodesL]
    · simp only [nodesL]; omega
    · have := nodesL_insertMap e ys
      simp only [nodesL]; omega

theorem nodesL_insertIndexSet (x : Val) : ∀ acc : List Val, nodesL (insertIndexSet x acc) ≤ x.nodes + nodesL acc
  | [] => by simp [insertIndexSet, nodesL]
  | y :: ys => by
    simp only [insertIndexSet]
    split
    · simp only [nodesL]; omega
    · have := nodesL_insertIndexSet x ys
      simp only [nodesL]; omega

theorem nodesL_insertIndexMap (e : Val) : ∀ acc : List Val, nodesL (insertIndexMap e acc) ≤ e.nodes + nodesL acc
  | [] => by simp [insertIndexMap, nodesL]
  | y :: ys => by
    simp only [insertIndexMap]
    split
    · simp only [nodesL]; omega
    · have := nodesL_insertIndexMap e ys
      simp only [nodesL]; omega

theorem nodesL_foldl (ins : Val → List Val → List Val)
    (h : ∀ x acc, nodesL (ins x acc) ≤ x.nodes + nodesL acc) :
    ∀ (l acc : List Val), nodesL (l.foldl (fun acc x => ins x acc) acc) ≤ nodesL acc + nodesL l
  | [], acc => by simp [nodesL]
  | x :: l, acc => by
    simp only [List.foldl_cons, nodesL]
    have := nodesL_foldl ins h l (ins x acc)
    have := h x acc
    omega

theorem nodesL_collectSet (l : List Val) : nodesL (collectSet l) ≤ nodesL l := by
  have := nodesL_foldl insertSet nodesL_insertSet l []
  simpa [collectSet, nodesL] using this
theorem nodesL_collectMap (l : List Val) : nodesL (collectMap l) ≤ nodesL l := by
  have := nodesL_foldl insertMap nodesL_insertMap l []
  simpa [collectMap, nodesL] using this
theorem nodesL_collectIndexSet (l : List Val) : nodesL (collectIndexSet l) ≤ nodesL l := by
  have := nodesL_foldl insertIndexSet nodesL_insertIndexSet l []
  simpa [collectIndexSet, nodesL] using this
theorem nodesL_collectIndexMap (l : List Val) : nodesL (collectIndexMap l) ≤ nodesL l := by
  have := nodesL_foldl insertIndexMap nodesL_insertIndexMap l []
  simpa [collectIndexMap, nodesL] using this

/-! ### reads -/

theorem readMapped_len_w {n : Nat} {bs b r : Bytes} (h : readMapped Rd.slice n bs = .ok (b, r)) :
    r.length + n = bs.length ∧ b.length = n := by
  simp only [readMapped, slice_readExact] at h
  split at h
  · rename_i hn
    simp at h
    rw [← h.1, ← h.2]; simp; omega
  · simp at h

theorem readBulk_len_w {n : Nat} {bs b r : Bytes} (h : Rd.slice.readBulk n bs = .ok (b, r)) :
    r.length + n = bs.length ∧ b.length = n := by
  rw [slice_readBulk] at h
  split at h
  · rename_i hn
    simp at h
    rw [← h.1, ← h.2]; simp; omega
  · simp at h

theorem readU8_len_w {bs r : Bytes} {b : UInt8} (h : readU8 Rd.slice bs = .ok (b, r)) :
    r.length + 1 = bs.length := by
  unfold readU8 at h
  obtain ⟨⟨x, r1⟩, h1, h2⟩ := Out.bind_eq_ok_iff.mp h
  have := (readMapped_len_w h1).1
  dsimp only at h2
  split at h2
  · simp at h2; rw [← h2.2]; exact this
  · simp at h2

theorem readU32_len_w {bs r : Bytes} {n : Nat} (h : readU32 Rd.slice bs = .ok (n, r)) :
    r.length + 4 = bs.length := by
  unfold readU32 at h
  obtain ⟨⟨x, r1⟩, h1, h2⟩ := Out.map_eq_ok_iff.mp h
  simp at h2
  rw [← h2.2]; exact (readMapped_len_w h1).1

/-- `n` element decodes, each consuming at least one byte and yielding at most `K` nodes per byte -/
theorem repeat_work {f : Bytes → Out (Val × Bytes)} {K : Nat}
    (hf : ∀ s v r, f s = .ok (v, r) → r.length + 1 ≤ s.length ∧ v.nodes ≤ K * (s.length - r.length)) :
    ∀ (n : Nat) (s : Bytes) (vs : List Val) (r : Bytes), repeatDe f n s = .ok (vs, r) →
      r.length ≤ s.length ∧ nodesL vs ≤ K * (s.length - r.length) := by
  intro n
  induction n with
  | zero =>
    intro s vs r h
    simp [repeatDe] at h
    rw [h.1, h.2]; simp [nodesL]
  | succ n ih =>
    intro s vs r h
    simp only [repeatDe] at h
    obtain ⟨⟨a, r1⟩, h1, h2⟩ := Out.bind_eq_ok_iff.mp h
    obtain ⟨⟨as, r2⟩, h3, h4⟩ := Out.bind_eq_ok_iff.mp h2
    simp at h4
    obtain ⟨l1, w1⟩ := hf s a r1 h1
    obtain ⟨l2, w2⟩ := ih r1 as r2 h3
    rw [← h4.1, ← h4.2]
    refine ⟨by omega, ?_⟩
    simp only [nodesL]
    have : K * (s.length - r1.length) + K * (r1.length - r2.length) = K * (s.length - r2.length) := by
      rw [← Nat.mul_add]; congr 1; omega
    omega

/-- `n` element decodes with a constant part each (fixed arrays: elements may be empty on the wire) -/
theorem repeat_work_const {f : Bytes → Out (Val × Bytes)} {A B : Nat}
    (hf : ∀ s v r, f s = .ok (v, r) → r.length ≤ s.length ∧ v.nodes ≤ A + B * (s.length - r.length)) :
    ∀ (n : Nat) (s : Bytes) (vs : List Val) (r : Bytes), repeatDe f n s = .ok (vs, r) →
      r.length ≤ s.length ∧ nodesL vs ≤ n * A + B * (s.length - r.length) := by
  intro n
  induction n with
  | zero =>
    intro s vs r h
    simp [repeatDe] at h
    rw [h.1, h.2]; simp [nodesL]
  | succ n ih =>
    intro s vs r h
    simp only [repeatDe] at h
    obtain ⟨⟨a, r1⟩, h1, h2⟩ := Out.bind_eq_ok_iff.mp h
    obtain ⟨⟨as, r2⟩, h3, h4⟩ := Out.bind_eq_ok_iff.mp h2
    simp at h4
    obtain ⟨l1, w1⟩ := hf s a r1 h1
    obtain ⟨l2, w2⟩ := ih r1 as r2 h3
    rw [← h4.1, ← h4.2]
    refine ⟨by omega, ?_⟩
    simp only [nodesL]
    have : B * (s.length - r1.length) + B * (r1.length - r2.length) = B * (s.length - r2.length) := by
      rw [← Nat.mul_add]; congr 1; omega
    rw [Nat.succ_mul]
    omega

/-- `Vec::<T>` decode: the list has at most `K` nodes per consumed byte -/
theorem deVec_work (isU8 : Bool) {f : Bytes → Out (Val × Bytes)} {K : Nat} (hK : 1 ≤ K)
    (hf : ∀ s v r, f s = .ok (v, r) → r.length + 1 ≤ s.length ∧ v.nodes ≤ K * (s.length - r.length))
    (s : Bytes) (vs : List Val) (r : Bytes) (h : deVec Rd.slice isU8 f s = .ok (vs, r)) :
    r.length + 4 ≤ s.length ∧ nodesL vs ≤ K * (s.length - r.length) := by
  unfold deVec at h
  obtain ⟨⟨n, r1⟩, h1, h2⟩ := Out.bind_eq_ok_iff.mp h
  have l1 := readU32_len_w h1
  dsimp only at h2
  split at h2
  · simp at h2
    rw [h2.1, ← h2.2]
    exact ⟨by omega, by simp [nodesL]⟩
  · cases isU8
    · simp only [Bool.false_eq_true, if_false] at h2
      obtain ⟨l2, w2⟩ := repeat_work hf n r1 vs r h2
      refine ⟨by omega, Nat.le_trans w2 (Nat.mul_le_mul_left K (by omega))⟩
    · simp only [if_true] at h2
      obtain ⟨⟨b, r2⟩, h3, h4⟩ := Out.map_eq_ok_iff.mp h2
      simp at h4
      obtain ⟨l2, bl⟩ := readBulk_len_w h3
      rw [← h4.1, ← h4.2, nodesL_bytesVal]
      refine ⟨by omega, ?_⟩
      have : b.length ≤ 1 * (s.length - r2.length) := by omega
      exact Nat.le_trans this (Nat.mul_le_mul_right _ hK)

end Borsh
