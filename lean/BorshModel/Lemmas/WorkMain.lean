import BorshModel.Lemmas.Work
namespace Borsh

/-- the decoded value has at most `costA + costB · consumed` nodes -/
def WorkT (t : Ty) : Prop :=
  occ t = true → ∀ st s v r, de Rd.slice st t s = .ok (v, r) →
    r.length ≤ s.length ∧ v.nodes ≤ costA t + costB t * (s.length - r.length)
def WorkF (fs : List Field) : Prop :=
  occF fs = true → ∀ st s vs r, deFields Rd.slice st fs s = .ok (vs, r) →
    r.length ≤ s.length ∧ nodesL vs ≤ costAF fs + costBF fs * (s.length - r.length)
def WorkV (vs : List Variant) : Prop :=
  occV vs = true → ∀ st tk tag idx s v r, deVariants Rd.slice st tk vs tag idx s = .ok (v, r) →
    r.length ≤ s.length ∧ v.nodes ≤ 1 + costAV vs + costBV vs * (s.length - r.length)

/-- the element of a collection: at least one byte, at most `costA + costB` nodes per byte -/
theorem elem_work {t : Ty} (ih : WorkT t) (ho : occ t = true) (hm : 1 ≤ minWire t) (st : Bool) :
    ∀ s v r, de Rd.slice st t s = .ok (v, r) →
      r.length + 1 ≤ s.length ∧ v.nodes ≤ (costA t + costB t) * (s.length - r.length) := by
  intro s v r h
  obtain ⟨l, w⟩ := ih ho st s v r h
  obtain ⟨c, e, lc⟩ := de_cons_all t st s v r h
  have lc' : minWire t ≤ c.length := lc
  have hl : s.length = c.length + r.length := by rw [e]; simp
  have hc : 1 ≤ s.length - r.length := by omega
  exact ⟨by omega, Nat.le_trans w (lin1 _ _ _ hc)⟩

theorem isU8_eq_w {t : Ty} (h : t.isU8 = true) : t = .int .u8 := by
  cases t <;> simp [Ty.isU8] at h
  rename_i k; cases k <;> simp_all [Ty.isU8]

theorem work_all : ∀ t : Ty, WorkT t := by
  apply Ty.induct (P := WorkT) (PF := WorkF) (PV := WorkV)
  case h_int =>
    intro k _ st s v r h
    simp only [de] at h
    obtain ⟨⟨b, r1⟩, h1, h2⟩ := Out.map_eq_ok_iff.mp h
    simp at h2
    have := (readMapped_len_w h1).1
    rw [← h2.1, ← h2.2]
    exact ⟨by omega, by simp [Val.nodes, costA]⟩
  case h_nonzero =>
    intro k _ st s v r h
    simp only [de] at h
    obtain ⟨⟨b, r1⟩, h1, h2⟩ := Out.bind_eq_ok_iff.mp h
    have := (readMapped_len_w h1).1
    dsimp only at h2
    split at h2
    · simp at h2
    · simp at h2
      rw [← h2.1, ← h2.2]
      exact ⟨by omega, by simp [Val.nodes, costA]⟩
  case h_float =>
    intro k _ st s v r h
    simp only [de] at h
    obtain ⟨⟨b, r1⟩, h1, h2⟩ := Out.bind_eq_ok_iff.mp h
    have := (readMapped_len_w h1).1
    dsimp only at h2
    split at h2
    · simp at h2
    · simp at h2
      rw [← h2.1, ← h2.2]
      exact ⟨by omega, by simp [Val.nodes, costA]⟩
  case h_bool =>
    intro _ st s v r h
    simp only [de] at h
    obtain ⟨⟨b, r1⟩, h1, h2⟩ := Out.bind_eq_ok_iff.mp h
    have := readU8_len_w h1
    dsimp only at h2
    (repeat' split at h2) <;> simp at h2 <;>
      (rw [← h2.1, ← h2.2]; exact ⟨by omega, by simp [Val.nodes, costA]⟩)
  case h_asciiChar =>
    intro _ st s v r h
    simp only [de] at h
    obtain ⟨⟨b, r1⟩, h1, h2⟩ := Out.bind_eq_ok_iff.mp h
    have := readU8_len_w h1
    dsimp only at h2
    split at h2
    · simp at h2
      rw [← h2.1, ← h2.2]; exact ⟨by omega, by simp [Val.nodes, costA]⟩
    · simp at h2
  case h_raw =>
    intro k _ st s v r h
    simp only [de] at h
    obtain ⟨⟨b, r1⟩, h1, h2⟩ := Out.map_eq_ok_iff.mp h
    simp at h2
    obtain ⟨l, bl⟩ := readMapped_len_w h1
    rw [← h2.1, ← h2.2]
    refine ⟨by omega, ?_⟩
    simp only [Val.nodes, costA, costB, Nat.one_mul]; omega
  case h_custom =>
    intro t _ _ st s v r h
    simp only [de] at h
    obtain ⟨⟨b, r1⟩, h1, h2⟩ := Out.map_eq_ok_iff.mp h
    simp at h2
    have := (readMapped_len_w h1).1
    rw [← h2.1, ← h2.2]
    exact ⟨by omega, by simp [Val.nodes, costA]⟩
  case h_str =>
    intro k _ st s v r h
    simp only [de] at h
    obtain ⟨⟨b, r1⟩, h1, h2⟩ := Out.bind_eq_ok_iff.mp h
    -- the byte vector: four bytes of length, then exactly that many bytes
    have hb : r1.length + 4 + b.length = s.length := by
      unfold deByteVec at h1
      obtain ⟨⟨n, r0⟩, h3, h4⟩ := Out.bind_eq_ok_iff.mp h1
      have := readU32_len_w h3
      dsimp only at h4
      split at h4
      · simp at h4; rw [h4.1, ← h4.2]; simp; omega
      · obtain ⟨l, bl⟩ := readBulk_len_w h4
        omega
    have fin : ∀ v' r', Out.ok (Val.blob b, r1) = Out.ok (v', r') →
        r'.length ≤ s.length ∧ v'.nodes ≤ costA (.str k) + costB (.str k) * (s.length - r'.length) := by
      intro v' r' he
      simp at he
      rw [← he.1, ← he.2]
      refine ⟨by omega, ?_⟩
      simp only [Val.nodes, costA, costB, Nat.one_mul]; omega
    dsimp only at h2
    (repeat' split at h2) <;> first
      | (simp at h2; done)
      | exact fin v r h2
  case h_seq =>
    intro k t ih ho st s v r h
    simp only [occ, Bool.and_eq_true, decide_eq_true_eq] at ho
    have hK : 1 ≤ costA t + costB t := Nat.le_trans (costA_pos t) (Nat.le_add_right _ _)
    -- every non-`BytesMut` kind goes through `Vec<T>`
    have viaVec : ∀ (g : List Val × Bytes → Val × Bytes),
        (∀ l r0, (g (l, r0)).2 = r0 ∧ (g (l, r0)).1.nodes ≤ 1 + nodesL l) →
        (if memZero t = true then Out.err eZst
          else (deVec Rd.slice t.isU8 (de Rd.slice st t) s).map g) = .ok (v, r) →
        r.length ≤ s.length ∧ v.nodes ≤ costA (.seq k t) + costB (.seq k t) * (s.length - r.length) := by
      intro g hg h
      split at h
      · simp at h
      · obtain ⟨⟨l, r0⟩, h1, h2⟩ := Out.map_eq_ok_iff.mp h
        obtain ⟨l1, w1⟩ := deVec_work t.isU8 hK (elem_work ih ho.2 ho.1 st) s l r0 h1
        have hg' := hg l r0
        rw [h2] at hg'
        simp only at hg'
        rw [hg'.1]
        refine ⟨by omega, ?_⟩
        simp only [costA, costB]
        omega
    cases k
    case bytesMut =>
      simp only [de] at h
      obtain ⟨⟨n, r1⟩, h1, h2⟩ := Out.bind_eq_ok_iff.mp h
      have l1 := readU32_len_w h1
      obtain ⟨⟨l, r0⟩, h3, h4⟩ := Out.map_eq_ok_iff.mp h2
      simp at h4
      have hel : ∀ s' v' r', ((readU8 Rd.slice s').map fun b => (Val.int b.1.toNat, b.2)) = .ok (v', r') →
          r'.length + 1 ≤ s'.length ∧ v'.nodes ≤ (costA t + costB t) * (s'.length - r'.length) := by
        intro s' v' r' he
        obtain ⟨⟨b, r2⟩, h5, h6⟩ := Out.map_eq_ok_iff.mp he
        simp at h6
        have := readU8_len_w h5
        rw [← h6.1, ← h6.2]
        refine ⟨by omega, ?_⟩
        have : 1 ≤ (costA t + costB t) * (s'.length - r2.length) :=
          Nat.le_trans hK (Nat.le_mul_of_pos_right _ (by omega))
        simpa [Val.nodes] using this
      obtain ⟨l2, w2⟩ := repeat_work hel n r1 l r0 h3
      rw [← h4.1, ← h4.2]
      refine ⟨by omega, ?_⟩
      simp only [Val.nodes, costA, costB]
      have : (costA t + costB t) * (r1.length - r0.length) ≤ (costA t + costB t) * (s.length - r0.length) :=
        Nat.mul_le_mul_left _ (by omega)
      omega
    all_goals
      simp only [de] at h
      refine viaVec _ ?_ h
      intro l r0
      refine ⟨rfl, ?_⟩
      first
        | (simp [Val.nodes, nodesL]; done)
        | (simp only [Val.nodes]; have := nodesL_collectIndexSet l; omega)
  case h_set =>
    intro k t ih ho st s v r h
    simp only [occ, Bool.and_eq_true, decide_eq_true_eq] at ho
    have hK : 1 ≤ costA t + costB t := Nat.le_trans (costA_pos t) (Nat.le_add_right _ _)
    simp only [de] at h
    split at h
    · simp at h
    · obtain ⟨⟨l, r0⟩, h1, h2⟩ := Out.bind_eq_ok_iff.mp h
      obtain ⟨l1, w1⟩ := deVec_work t.isU8 hK (elem_work ih ho.2 ho.1 st) s l r0 h1
      dsimp only at h2
      split at h2
      · simp at h2
      · simp at h2
        rw [← h2.1, ← h2.2]
        refine ⟨by omega, ?_⟩
        simp only [Val.nodes, costA, costB]
        have := nodesL_collectSet l
        omega
  case h_map =>
    intro k a b iha ihb ho st s v r h
    simp only [occ, Bool.and_eq_true, decide_eq_true_eq] at ho
    obtain ⟨⟨hm, hoa⟩, hob⟩ := ho
    simp only [de] at h
    split at h
    · simp at h
    · obtain ⟨⟨l, r0⟩, h1, h2⟩ := Out.bind_eq_ok_iff.mp h
      have hent : ∀ s' v' r', deEntry (de Rd.slice st a) (de Rd.slice st b) s' = .ok (v', r') →
          r'.length + 1 ≤ s'.length ∧
          v'.nodes ≤ (1 + costA a + costA b + costB a + costB b) * (s'.length - r'.length) := by
        intro s' v' r' he
        unfold deEntry at he
        obtain ⟨⟨x, r1⟩, h3, h4⟩ := Out.bind_eq_ok_iff.mp he
        obtain ⟨⟨y, r2⟩, h5, h6⟩ := Out.map_eq_ok_iff.mp h4
        simp at h6
        obtain ⟨la, wa⟩ := iha hoa st s' x r1 h3
        obtain ⟨lb, wb⟩ := ihb hob st r1 y r2 h5
        obtain ⟨ca, ea, lca⟩ := de_cons_all a st s' x r1 h3
        obtain ⟨cb, eb, lcb⟩ := de_cons_all b st r1 y r2 h5
        have lca' : minWire a ≤ ca.length := lca
        have lcb' : minWire b ≤ cb.length := lcb
        have e1 : s'.length = ca.length + r1.length := by rw [ea]; simp
        have e2 : r1.length = cb.length + r2.length := by rw [eb]; simp
        rw [← h6.1, ← h6.2]
        refine ⟨by omega, ?_⟩
        simp only [Val.nodes, nodesL, Nat.add_zero]
        have hc : 1 ≤ s'.length - r2.length := by omega
        have hsplit : s'.length - r2.length = (s'.length - r1.length) + (r1.length - r2.length) := by omega
        have h1' : costB a * (s'.length - r1.length) ≤ (costB a + costB b) * (s'.length - r2.length) := by
          rw [hsplit]; exact mul_le_sum_l _ _ _ _
        have h2' : costB b * (r1.length - r2.length) ≤ (costB a + costB b) * (s'.length - r2.length) := by
          rw [hsplit]; exact mul_le_sum_r _ _ _ _
        have h3' : costB a * (s'.length - r1.length) + costB b * (r1.length - r2.length)
            ≤ (costB a + costB b) * (s'.length - r2.length) := by
          rw [hsplit, Nat.add_mul, Nat.mul_add, Nat.mul_add]; omega
        have h4' := lin1 (1 + costA a + costA b) (costB a + costB b) _ hc
        have : 1 + costA a + costA b + (costB a + costB b) = 1 + costA a + costA b + costB a + costB b := by omega
        rw [this] at h4'
        omega
      obtain ⟨l1, w1⟩ := deVec_work false (by omega) hent s l r0 h1
      have fin : ∀ l', nodesL l' ≤ nodesL l → ∀ v' r', Out.ok (Val.list l', r0) = Out.ok (v', r') →
          r'.length ≤ s.length ∧ v'.nodes ≤ costA (.map k a b) + costB (.map k a b) * (s.length - r'.length) := by
        intro l' hl v' r' he
        simp at he
        rw [← he.1, ← he.2]
        refine ⟨by omega, ?_⟩
        simp only [Val.nodes, costA, costB]
        omega
      cases k
      case indexMap => exact fin _ (nodesL_collectIndexMap l) v r h2
      all_goals
        dsimp only at h2
        split at h2
        · simp at h2
        · exact fin _ (nodesL_collectMap l) v r h2
  case h_array =>
    intro n t ih ho st s v r h
    simp only [occ] at ho
    simp only [de] at h
    split at h
    · rename_i hu
      have := isU8_eq_w hu; subst this
      obtain ⟨⟨b, r1⟩, h1, h2⟩ := Out.map_eq_ok_iff.mp h
      simp at h2
      obtain ⟨l, bl⟩ := readMapped_len_w h1
      rw [← h2.1, ← h2.2]
      refine ⟨by omega, ?_⟩
      simp only [Val.nodes, nodesL_bytesVal, costA, costB, Nat.mul_one, Nat.zero_mul]; omega
    · obtain ⟨⟨l, r1⟩, h1, h2⟩ := Out.map_eq_ok_iff.mp h
      simp at h2
      obtain ⟨l1, w1⟩ := repeat_work_const (ih ho st) n s l r1 h1
      rw [← h2.1, ← h2.2]
      refine ⟨l1, ?_⟩
      simp only [Val.nodes, costA, costB]; omega
  case h_prod =>
    intro k fs ih ho st s v r h
    simp only [occ] at ho
    simp only [de] at h
    obtain ⟨⟨l, r1⟩, h1, h2⟩ := Out.map_eq_ok_iff.mp h
    simp at h2
    obtain ⟨l1, w1⟩ := ih ho st s l r1 h1
    rw [← h2.1, ← h2.2]
    refine ⟨l1, ?_⟩
    simp only [Val.nodes, costA, costB]
    split
    · rw [nodesL_applyInit]; omega
    · omega
  case h_sum =>
    intro k vs ih ho st s v r h
    simp only [occ] at ho
    simp only [de] at h
    obtain ⟨⟨tag, r1⟩, h1, h2⟩ := Out.bind_eq_ok_iff.mp h
    obtain ⟨⟨x, r2⟩, h3, h4⟩ := Out.map_eq_ok_iff.mp h2
    simp at h4
    have := readU8_len_w h1
    obtain ⟨l1, w1⟩ := ih ho st k.tagK tag 0 r1 x r2 h3
    rw [← h4.1, ← h4.2, nodes_initVariant]
    refine ⟨by omega, ?_⟩
    simp only [costA, costB]
    have : costBV vs * (r1.length - r2.length) ≤ costBV vs * (s.length - r2.length) :=
      Nat.mul_le_mul_left _ (by omega)
    omega
  case h_wrap =>
    intro k t ih ho st s v r h
    simp only [occ] at ho
    simp only [de] at h
    simpa only [costA, costB] using ih ho st s v r h
  case h_fnil =>
    intro _ st s vs r h
    simp [deFields] at h
    rw [h.1, h.2]; simp [nodesL, costAF]
  case h_fcons =>
    intro n sk t fs iht ihf ho st s vs r h
    simp only [occF, Bool.and_eq_true, Bool.or_eq_true] at ho
    simp only [deFields] at h
    split at h
    · rename_i hs
      obtain ⟨⟨l, r1⟩, h1, h2⟩ := Out.map_eq_ok_iff.mp h
      simp at h2
      obtain ⟨l1, w1⟩ := ihf ho.2 st s l r1 h1
      rw [← h2.1, ← h2.2]
      refine ⟨l1, ?_⟩
      simp only [nodesL, costAF, costBF, hs, if_true, Nat.zero_add]; omega
    · rename_i hs
      have hot : occ t = true := by
        rcases ho.1 with h' | h'
        · exact absurd h' hs
        · exact h'
      obtain ⟨⟨a, r1⟩, h1, h2⟩ := Out.bind_eq_ok_iff.mp h
      obtain ⟨⟨l, r2⟩, h3, h4⟩ := Out.map_eq_ok_iff.mp h2
      simp at h4
      obtain ⟨la, wa⟩ := iht hot st s a r1 h1
      obtain ⟨lf, wf⟩ := ihf ho.2 st r1 l r2 h3
      rw [← h4.1, ← h4.2]
      refine ⟨by omega, ?_⟩
      have hs' : sk = false := by simpa using hs
      simp only [nodesL, costAF, costBF, hs', Bool.false_eq_true, if_false]
      have hsplit : s.length - r2.length = (s.length - r1.length) + (r1.length - r2.length) := by omega
      have : costB t * (s.length - r1.length) + costBF fs * (r1.length - r2.length)
          ≤ (costB t + costBF fs) * (s.length - r2.length) := by
        rw [hsplit, Nat.add_mul, Nat.mul_add, Nat.mul_add]; omega
      omega
  case h_vnil =>
    intro _ st tk tag idx s v r h
    simp [deVariants] at h
  case h_vcons =>
    intro n g fs vs ihf ihv ho st tk tag idx s v r h
    simp only [occV, Bool.and_eq_true] at ho
    simp only [deVariants] at h
    split at h
    · obtain ⟨⟨l, r1⟩, h1, h2⟩ := Out.map_eq_ok_iff.mp h
      simp at h2
      obtain ⟨l1, w1⟩ := ihf ho.1 st s l r1 h1
      rw [← h2.1, ← h2.2]
      refine ⟨l1, ?_⟩
      simp only [Val.nodes, costAV, costBV]
      have : costBF fs * (s.length - r1.length) ≤ (costBF fs + costBV vs) * (s.length - r1.length) :=
        Nat.mul_le_mul_right _ (Nat.le_add_right _ _)
      omega
    · obtain ⟨l1, w1⟩ := ihv ho.2 st tk tag (idx + 1) s v r h
      refine ⟨l1, ?_⟩
      simp only [costAV, costBV]
      have : costBV vs * (s.length - r.length) ≤ (costBF fs + costBV vs) * (s.length - r.length) :=
        Nat.mul_le_mul_right _ (Nat.le_add_left _ _)
      omega

end Borsh
