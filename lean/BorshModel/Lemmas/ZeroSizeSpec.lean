/-
  `is_zero_size` (a depth-first search with a stack of declarations, which reports `Recursion` on a
  cycle) against the declarative zero-sizedness `ZeroSized` (a finite derivation exists):
  it answers `Ok(true)` exactly on the zero-sized declarations.
-/
import BorshModel.ValidateSpec
import BorshModel.Lemmas.Totality
namespace Borsh

theorem all_mono {p q : Name → Bool} (h : ∀ x, p x = true → q x = true) (l : List Name)
    (hl : l.all p = true) : l.all q = true := by
  rw [List.all_eq_true] at hl ⊢
  intro x hx; exact h x (hl x hx)

theorem zsH_succ (c : Container) : ∀ (h : Nat) (d : Name), zsH c h d = true → zsH c (h + 1) d = true := by
  intro h
  induction h with
  | zero => intro d hd; simp [zsH] at hd
  | succ h ih =>
    intro d hd
    unfold zsH at hd ⊢
    cases hg : c.get d with
    | none => simp [hg] at hd
    | some df =>
      simp only [hg] at hd ⊢
      cases df with
      | primitive s => exact hd
      | sequence lw lo hi e =>
        simp only [Bool.and_eq_true, Bool.or_eq_true] at hd ⊢
        exact ⟨hd.1, hd.2.imp id (ih e)⟩
      | tuple es => exact all_mono (ih) es hd
      | «enum» tw vs =>
        simp only [Bool.and_eq_true] at hd ⊢
        exact ⟨hd.1, all_mono ih _ hd.2⟩
      | struct fs => exact all_mono ih _ hd

theorem zsH_mono (c : Container) {h k : Nat} (hk : h ≤ k) (d : Name) (hd : zsH c h d = true) :
    zsH c k d = true := by
  induction hk with
  | refl => exact hd
  | step _ ih => exact zsH_succ c _ d ih

/-- the least depth at which a declaration is derived zero-sized -/
theorem zsH_minimal (c : Container) : ∀ (h : Nat) (d : Name), zsH c h d = true →
    ∃ k, k < h ∧ zsH c (k + 1) d = true ∧ zsH c k d = false := by
  intro h
  induction h with
  | zero => intro d hd; simp [zsH] at hd
  | succ h ih =>
    intro d hd
    cases hp : zsH c h d with
    | true =>
      obtain ⟨k, hk, h1, h2⟩ := ih d hp
      exact ⟨k, by omega, h1, h2⟩
    | false => exact ⟨h, by omega, hd, hp⟩

theorem allWith_ok_true {f : Name → Res ZsErr Bool} :
    ∀ es : List Name, (∀ e ∈ es, f e = .ok true) → allWith f es = .ok true := by
  intro es
  induction es with
  | nil => intro _; rfl
  | cons e es ih =>
    intro h
    simp only [allWith, h e (by simp), Res.bind, if_true]
    exact ih (fun x hx => h x (by simp [hx]))

theorem allWith_true_inv {f : Name → Res ZsErr Bool} :
    ∀ es : List Name, allWith f es = .ok true → ∀ e ∈ es, f e = .ok true := by
  intro es
  induction es with
  | nil => intro _ e he; simp at he
  | cons x es ih =>
    intro h e he
    simp only [allWith] at h
    cases hx : f x with
    | ok b =>
      rw [hx] at h
      simp only [Res.bind] at h
      cases b with
      | true =>
        simp only [if_true] at h
        cases List.mem_cons.mp he with
        | inl e1 => rw [e1]; exact hx
        | inr e1 => exact ih h e e1
      | false => simp at h
    | error e' => rw [hx] at h; simp [Res.bind] at h
    | panic p => rw [hx] at h; simp [Res.bind] at h

/-- soundness: an `Ok(true)` answer comes with a derivation (of depth at most the fuel) -/
theorem isZeroSize_sound (c : Container) : ∀ (fuel : Nat) (d : Name) (path : List Name),
    isZeroSize c fuel d path = .ok true → zsH c fuel d = true := by
  intro fuel
  induction fuel with
  | zero => intro d path h; simp [isZeroSize] at h
  | succ fuel ih =>
    intro d path h
    unfold isZeroSize at h
    unfold zsH
    split at h
    · simp at h
    · cases hg : c.get d with
      | none => simp [hg] at h
      | some df =>
        simp only [hg] at h ⊢
        have hall : ∀ es : List Name, allWith (fun e => isZeroSize c fuel e (d :: path)) es = .ok true →
            es.all (zsH c fuel) = true := by
          intro es hes
          rw [List.all_eq_true]
          intro e he
          exact ih e (d :: path) (allWith_true_inv es hes e he)
        cases df with
        | primitive s => simpa using h
        | sequence lw lo hi e =>
          simp only at h
          split at h
          · rename_i hlw
            split at h
            · rename_i h0
              simp only [Bool.and_eq_true] at h0
              simp [hlw, h0.1, h0.2]
            · simp [hlw, ih e (d :: path) h]
          · simp at h
        | tuple es => exact hall es h
        | «enum» tw vs =>
          simp only at h
          split at h
          · rename_i htw; simp [htw, hall _ h]
          · simp at h
        | struct fs =>
          simp only at h
          cases fs with
          | empty => simp [Fields.decls]
          | named l => exact hall _ h
          | unnamed l => exact hall _ h

/-- completeness: on a declaration whose least derivation depth is `h + 1`, with a stack of
declarations none of which is derivable at that depth, the search answers `Ok(true)` — it never
meets its own stack, because a derivation never passes through the same name twice -/
theorem isZeroSize_complete (c : Container) : ∀ (h : Nat) (d : Name) (path : List Name) (fuel : Nat),
    zsH c (h + 1) d = true → zsH c h d = false → (∀ x ∈ path, zsH c (h + 1) x = false) →
    PathOk c path → c.defs.length + 1 ≤ path.length + fuel →
    isZeroSize c fuel d path = .ok true := by
  intro h
  induction h using Nat.strongRecOn with
  | _ h ih =>
    intro d path fuel h1 h0 hpath hp hl
    cases fuel with
    | zero =>
      have := pathOk_length hp
      omega
    | succ fuel =>
      have hnot : path.contains d = false := by
        cases hc : path.contains d with
        | false => rfl
        | true =>
          have := hpath d (List.contains_iff_mem.mp hc)
          rw [h1] at this; cases this
      unfold isZeroSize
      simp only [hnot, Bool.false_eq_true, if_false]
      unfold zsH at h1
      cases hg : c.get d with
      | none => simp [hg] at h1
      | some df =>
        simp only [hg] at h1 ⊢
        have hp' := pathOk_cons hp hnot hg
        have hl' : c.defs.length + 1 ≤ (d :: path).length + fuel := by simp; omega
        -- a child derivable at depth `h` is found by the search under the longer stack
        have child : ∀ e, zsH c h e = true → isZeroSize c fuel e (d :: path) = .ok true := by
          intro e he
          obtain ⟨k, hk, hk1, hk0⟩ := zsH_minimal c h e he
          refine ih k hk e (d :: path) fuel hk1 hk0 ?_ hp' hl'
          intro x hx
          cases List.mem_cons.mp hx with
          | inl e1 =>
            rw [e1]
            cases hz : zsH c (k + 1) d with
            | false => rfl
            | true =>
              have := zsH_mono c (show k + 1 ≤ h by omega) d hz
              rw [h0] at this; cases this
          | inr e1 =>
            cases hz : zsH c (k + 1) x with
            | false => rfl
            | true =>
              have := zsH_mono c (show k + 1 ≤ h + 1 by omega) x hz
              rw [hpath x e1] at this; cases this
        have children : ∀ es : List Name, es.all (zsH c h) = true →
            allWith (fun e => isZeroSize c fuel e (d :: path)) es = .ok true := by
          intro es hes
          rw [List.all_eq_true] at hes
          exact allWith_ok_true es (fun e he => child e (hes e he))
        cases df with
        | primitive s => simpa using h1
        | sequence lw lo hi e =>
          simp only [Bool.and_eq_true, Bool.or_eq_true] at h1
          simp only [h1.1, if_true]
          split
          · rfl
          · rename_i hn
            cases h1.2 with
            | inl h2 => exact absurd (by simpa using h2) hn
            | inr h2 => exact child e h2
        | tuple es => exact children es h1
        | «enum» tw vs =>
          simp only [Bool.and_eq_true] at h1
          simp only [h1.1, if_true]
          exact children _ h1.2
        | struct fs =>
          simp only
          cases fs with
          | empty => rfl
          | named l => exact children _ h1
          | unnamed l => exact children _ h1

/-- **`is_zero_size` answers `Ok(true)` exactly on the zero-sized declarations**, for every
container (cycles, dangling names) -/
theorem isZeroSize_iff (c : Container) (d : Name) :
    isZeroSize c (c.defs.length + 1) d [] = .ok true ↔ ZeroSized c d := by
  constructor
  · intro h; exact ⟨_, isZeroSize_sound c _ d [] h⟩
  · rintro ⟨h, hd⟩
    obtain ⟨k, _, hk1, hk0⟩ := zsH_minimal c h d hd
    exact isZeroSize_complete c k d [] _ hk1 hk0 (fun x hx => by simp at hx) (pathOk_nil c) (by simp)

end Borsh
