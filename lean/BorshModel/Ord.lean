/-
  Model of Rust's `Ord` on the key types (integers, bool, strings, byte vectors,
  options/tuples/arrays/vectors of keys, derived enums/structs of keys), of
  `slice::sort`, of the `windows(2)` strictly-ascending check and of
  `FromIterator` for the keyed collections.
-/
import BorshModel.Ty
namespace Borsh

def cmpBytes : Bytes → Bytes → Ordering
  | [], [] => .eq
  | [], _ :: _ => .lt
  | _ :: _, [] => .gt
  | a :: as, b :: bs =>
    if a < b then .lt else if b < a then .gt else cmpBytes as bs

/-- constructor rank: only used between values of different shapes, which never meet as keys of
one collection; it makes `Val.cmp` a total order on *all* representations -/
def Val.rank : Val → Nat
  | .int _ => 0 | .bool _ => 1 | .blob _ => 2 | .list _ => 3 | .deque _ _ => 4 | .variant _ _ => 5

def cmpNat (a b : Nat) : Ordering := if a < b then .lt else if b < a then .gt else .eq

mutual
/-- `Ord::cmp` on representations (derived `Ord` is lexicographic, variant index first) -/
def Val.cmp : Val → Val → Ordering
  | .int a, .int b => if a < b then .lt else if b < a then .gt else .eq
  | .bool a, .bool b => cmpNat a.toNat b.toNat
  | .blob a, .blob b => cmpBytes a b
  | .list a, .list b => Val.cmpList a b
  | .deque a b, .deque c d =>
    match Val.cmpList a c with
    | .lt => .lt
    | .gt => .gt
    | .eq => Val.cmpList b d
  | .variant i a, .variant j b =>
    match cmpNat i j with
    | .lt => .lt
    | .gt => .gt
    | .eq => Val.cmpList a b
  | a, b => cmpNat a.rank b.rank
def Val.cmpList : List Val → List Val → Ordering
  | [], [] => .eq
  | [], _ :: _ => .lt
  | _ :: _, [] => .gt
  | a :: as, b :: bs =>
    match Val.cmp a b with
    | .lt => .lt
    | .gt => .gt
    | .eq => Val.cmpList as bs
end

/-- the key of a set element is the element; the key of a map entry `[k, v]` is `k` -/
def entryKey : Val → Val
  | .list (k :: _) => k
  | v => v

/-- `a.cmp(b).is_lt()` on keys -/
def keyLt (key : Val → Val) (a b : Val) : Bool := Val.cmp (key a) (key b) == .lt

/-- the `windows(2)` loop of the strict-order check: every adjacent pair strictly ascending -/
def strictlyAscending (key : Val → Val) : List Val → Bool
  | [] => true
  | [_] => true
  | a :: b :: rest => keyLt key a b && strictlyAscending key (b :: rest)

/-- insertion into an ascending list, after every element that is not greater (stable) -/
def insertSorted (key : Val → Val) (x : Val) : List Val → List Val
  | [] => [x]
  | y :: ys => if keyLt key x y then x :: y :: ys else y :: insertSorted key x ys

/-- model of `slice::sort` / `sort_by(key cmp)`: the sorted permutation -/
def sortByKey (key : Val → Val) (vs : List Val) : List Val :=
  vs.foldr (insertSorted key) []

/-- `BTreeSet/HashSet::insert`: an equal element already present is kept -/
def insertSet (x : Val) : List Val → List Val
  | [] => [x]
  | y :: ys =>
    match Val.cmp x y with
    | .lt => x :: y :: ys
    | .eq => y :: ys
    | .gt => y :: insertSet x ys

/-- `BTreeMap/HashMap::insert`: the value of an equal key is replaced (the key object is kept) -/
def insertMap (e : Val) : List Val → List Val
  | [] => [e]
  | y :: ys =>
    match Val.cmp (entryKey e) (entryKey y) with
    | .lt => e :: y :: ys
    | .eq => e :: ys
    | .gt => y :: insertMap e ys

/-- `collect::<BTreeSet/HashSet>()`, printed in ascending order -/
def collectSet (vs : List Val) : List Val := vs.foldl (fun acc x => insertSet x acc) []
/-- `collect::<BTreeMap/HashMap>()`, printed in ascending key order -/
def collectMap (vs : List Val) : List Val := vs.foldl (fun acc x => insertMap x acc) []

/-- `IndexSet::insert`: insertion order, an equal element already present is kept -/
def insertIndexSet (x : Val) : List Val → List Val
  | [] => [x]
  | y :: ys => if Val.cmp x y == .eq then y :: ys else y :: insertIndexSet x ys
/-- `IndexMap::insert`: position of the first occurrence, value of the last -/
def insertIndexMap (e : Val) : List Val → List Val
  | [] => [e]
  | y :: ys =>
    if Val.cmp (entryKey e) (entryKey y) == .eq then e :: ys else y :: insertIndexMap e ys

def collectIndexSet (vs : List Val) : List Val := vs.foldl (fun acc x => insertIndexSet x acc) []
def collectIndexMap (vs : List Val) : List Val := vs.foldl (fun acc x => insertIndexMap x acc) []

end Borsh
