/-
  Schema containers (borsh/src/schema.rs) and the two analyses over them:
  `max_serialized_size` (schema/container_ext/max_size.rs) and `validate`
  (schema/container_ext/validate.rs), with their specifications.
  Cycles are data here: everything recurses on fuel, and the entry points supply
  `|definitions| + 1`, which the totality theorems show is never exhausted.
-/
import BorshModel.Canon
namespace Borsh

inductive Fields
  | named (fs : List (Name × Name))
  | unnamed (fs : List Name)
  | empty
  deriving DecidableEq, Repr, Inhabited

inductive Defn
  | primitive (size : Nat)
  | sequence (lw : Nat) (lo hi : Nat) (elem : Name)
  | tuple (elems : List Name)
  | enum (tw : Nat) (variants : List (Int × Name × Name))
  | struct (fields : Fields)
  deriving DecidableEq, Repr, Inhabited

/-- `BorshSchemaContainer`: a root declaration and a `BTreeMap` of definitions (an association
list; lookup returns the first match, iteration is in list order) -/
structure Container where
  decl : Name
  defs : List (Name × Defn)
  deriving DecidableEq, Repr, Inhabited

def Container.get (c : Container) (d : Name) : Option Defn :=
  (c.defs.find? fun e => e.1 == d).map (·.2)

def Fields.decls : Fields → List Name
  | .named fs => fs.map (·.2)
  | .unnamed fs => fs
  | .empty => []

/-- outcome of an analysis: a value, one of its own errors, or a Rust panic -/
inductive Res (ε α : Type)
  | ok (a : α)
  | error (e : ε)
  | panic (p : PanicSite)
  deriving Repr, DecidableEq, Inhabited

def Res.bind {ε α β : Type} (x : Res ε α) (f : α → Res ε β) : Res ε β :=
  match x with
  | .ok a => f a
  | .error e => .error e
  | .panic p => .panic p

def Res.isPanic {ε α : Type} : Res ε α → Bool
  | .panic _ => true
  | _ => false

def usizeLimit : Nat := 2 ^ 64

/-! ### max_serialized_size -/

inductive MaxErr
  | overflow | recursive | missing (d : Name)
  deriving DecidableEq, Repr, Inhabited

abbrev MaxRes := Res MaxErr Nat

def cAdd (x y : Nat) : MaxRes := if x + y < usizeLimit then .ok (x + y) else .error .overflow
def cMul (x y : Nat) : MaxRes := if x * y < usizeLimit then .ok (x * y) else .error .overflow

/-- the `tuple` helper: checked sum of the members' sizes -/
def sumWith (f : Name → MaxRes) : List Name → Nat → MaxRes
  | [], acc => .ok acc
  | e :: es, acc => (f e).bind fun sz => (cAdd acc sz).bind fun a => sumWith f es a

/-- the `Enum` arm: maximum over the variants -/
def maxWith (f : Name → MaxRes) : List Name → Nat → MaxRes
  | [], acc => .ok acc
  | v :: vs, acc => (f v).bind fun sz => maxWith f vs (max acc sz)

/-- `max_serialized_size_impl(count, declaration, schema, stack)`; `path` is the stack -/
def maxSize (c : Container) : Nat → Nat → Name → List Name → MaxRes
  | 0, _, _, _ => .panic .fuel
  | fuel+1, count, d, path =>
    if path.contains d then .error .recursive
    else match c.get d with
      | none => .error (.missing d)
      | some (.primitive size) => if size = 0 then .ok 0 else cMul size count
      | some (.sequence lw _ hi elem) =>
        (if hi = 0 then (.ok 0 : MaxRes) else maxSize c fuel hi elem (d :: path)).bind fun sz =>
          (cAdd sz lw).bind fun s => cMul count s
      | some (.enum tw variants) =>
        (maxWith (fun v => maxSize c fuel 1 v (d :: path)) (variants.map (·.2.2)) 0).bind fun m =>
          (cAdd m tw).bind fun s => cMul count s
      | some (.tuple elems) =>
        (sumWith (fun e => maxSize c fuel 1 e (d :: path)) elems 0).bind fun s => cMul count s
      | some (.struct fields) =>
        match fields with
        | .empty => .ok 0
        | fs => (sumWith (fun e => maxSize c fuel 1 e (d :: path)) fs.decls 0).bind fun s => cMul count s

/-- `BorshSchemaContainer::max_serialized_size` -/
def Container.maxSerializedSize (c : Container) : MaxRes :=
  maxSize c (c.defs.length + 1) 1 c.decl []

/-! ### is_zero_size and validate -/

inductive ZsErr
  | recursive | missing (d : Name)
  deriving DecidableEq, Repr, Inhabited

/-- `RangeInclusive<u64>::count()`, which panics when the count does not fit `usize` -/
def rangeCount (lo hi : Nat) : Res ZsErr Nat :=
  if lo ≤ hi then (if hi - lo + 1 < usizeLimit then .ok (hi - lo + 1) else .panic .countOverflow)
  else .ok 0

/-- "a fixed-length sequence": untagged and exactly one admissible length -/
def isFixedLen (lw lo hi : Nat) : Bool := lw == 0 && lo == hi

/-- the `all` helper: stops at the first member that is not zero-sized -/
def allWith (f : Name → Res ZsErr Bool) : List Name → Res ZsErr Bool
  | [] => .ok true
  | e :: es => (f e).bind fun z => if z then allWith f es else .ok false

def isZeroSize (c : Container) : Nat → Name → List Name → Res ZsErr Bool
  | 0, _, _ => .panic .fuel
  | fuel+1, d, path =>
    if path.contains d then .error .recursive
    else match c.get d with
      | none => .error (.missing d)
      | some (.primitive size) => .ok (size == 0)
      | some (.sequence lw lo hi elem) =>
        if lw == 0 then
          if lo == hi && lo == 0 then .ok true
          else isZeroSize c fuel elem (d :: path)
        else .ok false
      | some (.tuple elems) => allWith (fun e => isZeroSize c fuel e (d :: path)) elems
      | some (.enum tw variants) =>
        if tw == 0 then allWith (fun e => isZeroSize c fuel e (d :: path)) (variants.map (·.2.2))
        else .ok false
      | some (.struct fields) =>
        match fields with
        | .empty => .ok true
        | fs => allWith (fun e => isZeroSize c fuel e (d :: path)) fs.decls

inductive ValErr
  | zstSequence (d : Name) | tagTooWide (d : Name) | tagTooNarrow (d : Name)
  | tagNotPowerOfTwo (d : Name) | missing (d : Name) | emptyLengthRange (d : Name)
  deriving DecidableEq, Repr, Inhabited

/-- `check_length_width` -/
def checkLengthWidth (d : Name) (width : Nat) (max : Nat) : Res ValErr Unit :=
  if width = 0 then .ok ()
  else if width = 3 ∨ width = 5 ∨ width = 6 ∨ width = 7 then .error (.tagNotPowerOfTwo d)
  else if width ≤ 7 then (if max < 2 ^ (width * 8) then .ok () else .error (.tagTooNarrow d))
  else if width = 8 then .ok ()
  else .error (.tagTooWide d)

def eachWith (f : Name → Res ValErr Unit) : List Name → Res ValErr Unit
  | [] => .ok ()
  | e :: es => (f e).bind fun _ => eachWith f es

/-- `validate_impl(declaration, schema, stack)` -/
def validateImpl (c : Container) : Nat → Name → List Name → Res ValErr Unit
  | 0, _, _ => .panic .fuel
  | fuel+1, d, path =>
    match c.get d with
    | none => .error (.missing d)
    | some defn =>
      if path.contains d then .ok ()
      else match defn with
        | .primitive _ => .ok ()
        | .sequence lw lo hi elem =>
          if isFixedLen lw lo hi then validateImpl c fuel elem (d :: path)
          else if hi < lo then .error (.emptyLengthRange d)
          else (checkLengthWidth d lw hi).bind fun _ =>
            match isZeroSize c (c.defs.length + 1) elem [] with
            | .ok true => .error (.zstSequence d)
            | .ok false => validateImpl c fuel elem (d :: path)
            | .error .recursive => validateImpl c fuel elem (d :: path)
            | .error (.missing m) => .error (.missing m)
            | .panic p => .panic p
        | .enum tw variants =>
          if tw > 8 then .error (.tagTooWide d)
          else eachWith (fun e => validateImpl c fuel e (d :: path)) (variants.map (·.2.2))
        | .tuple elems => eachWith (fun e => validateImpl c fuel e (d :: path)) elems
        | .struct fields => eachWith (fun e => validateImpl c fuel e (d :: path)) fields.decls

/-- `BorshSchemaContainer::validate` -/
def Container.validate (c : Container) : Res ValErr Unit :=
  validateImpl c (c.defs.length + 1) c.decl []

end Borsh
