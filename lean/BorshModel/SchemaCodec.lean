/-
  The container type as a member of the universe (so that its wire format is the
  `Ty`-level codec, not a second one) and the conversions `Container ↔ Val`; the
  specifications of the two analyses.
-/
import BorshModel.Schema
namespace Borsh

def n! (s : String) : Name := s.toUTF8.toList

def declTy : Ty := .str .string

def fieldsTy : Ty :=
  .sum (.derived (n! "Fields") false)
    [(n! "NamedFields", 0, [(none, false, .seq .vec (Ty.tuple [declTy, declTy]))]),
     (n! "UnnamedFields", 1, [(none, false, .seq .vec declTy)]),
     (n! "Empty", 2, [])]

def definitionTy : Ty :=
  .sum (.derived (n! "Definition") false)
    [(n! "Primitive", 0, [(none, false, .int .u8)]),
     (n! "Sequence", 1,
        [(some (n! "length_width"), false, .int .u8),
         (some (n! "length_range"), false,
            .prod .rangeInclusive [(none, false, .int .u64), (none, false, .int .u64)]),
         (some (n! "elements"), false, declTy)]),
     (n! "Tuple", 2, [(some (n! "elements"), false, .seq .vec declTy)]),
     (n! "Enum", 3,
        [(some (n! "tag_width"), false, .int .u8),
         (some (n! "variants"), false, .seq .vec (Ty.tuple [.int .i64, declTy, declTy]))]),
     (n! "Struct", 4, [(some (n! "fields"), false, fieldsTy)])]

/-- `BorshSchemaContainer` on the wire: the declaration, then a `BTreeMap` of definitions -/
def containerTy : Ty :=
  .prod (.struct (n! "BorshSchemaContainer") false)
    [(some (n! "declaration"), false, declTy),
     (some (n! "definitions"), false, .map .btreeMap declTy definitionTy)]

def nameOfVal : Val → Option Name
  | .blob bs => some bs
  | _ => none

def namesOfVals (vs : List Val) : Option (List Name) := vs.mapM nameOfVal

def natOfVal : Val → Option Nat
  | .int i => if 0 ≤ i then some i.toNat else none
  | _ => none

def fieldsOfVal : Val → Option Fields
  | .variant 0 [.list ps] =>
    (ps.mapM fun (p : Val) => match p with
      | .list [.blob a, .blob b] => some (a, b)
      | _ => none).map .named
  | .variant 1 [.list ns] => (namesOfVals ns).map .unnamed
  | .variant 2 [] => some .empty
  | _ => none

def defnOfVal : Val → Option Defn
  | .variant 0 [.int s] => some (.primitive s.toNat)
  | .variant 1 [.int lw, .list [.int lo, .int hi], .blob e] =>
    some (.sequence lw.toNat lo.toNat hi.toNat e)
  | .variant 2 [.list es] => (namesOfVals es).map .tuple
  | .variant 3 [.int tw, .list vs] =>
    (vs.mapM fun (v : Val) => match v with
      | .list [.int d, .blob n, .blob t] => some (d, n, t)
      | _ => none).map (.enum tw.toNat)
  | .variant 4 [f] => (fieldsOfVal f).map .struct
  | _ => none

def containerOfVal : Val → Option Container
  | .list [.blob d, .list es] =>
    (es.mapM fun (e : Val) => match e with
      | .list [.blob k, v] => (defnOfVal v).map fun dv => (k, dv)
      | _ => none).map fun defs => ⟨d, defs⟩
  | _ => none

def fieldsToVal : Fields → Val
  | .named fs => .variant 0 [.list (fs.map fun p => .list [.blob p.1, .blob p.2])]
  | .unnamed fs => .variant 1 [.list (fs.map .blob)]
  | .empty => .variant 2 []

def defnToVal : Defn → Val
  | .primitive s => .variant 0 [.int s]
  | .sequence lw lo hi e => .variant 1 [.int lw, .list [.int lo, .int hi], .blob e]
  | .tuple es => .variant 2 [.list (es.map .blob)]
  | .enum tw vs => .variant 3 [.int tw, .list (vs.map fun v => .list [.int v.1, .blob v.2.1, .blob v.2.2])]
  | .struct f => .variant 4 [fieldsToVal f]

def containerToVal (c : Container) : Val :=
  .list [.blob c.decl, .list (c.defs.map fun e => .list [.blob e.1, defnToVal e.2])]

/-! ### specifications -/

/-- the true maximum a schema implies, over unbounded naturals -/
inductive SpecSize
  | fin (n : Nat) | unbounded | missing (d : Name)
  deriving DecidableEq, Repr, Inhabited

def SpecSize.bind (x : SpecSize) (f : Nat → SpecSize) : SpecSize :=
  match x with
  | .fin n => f n
  | .unbounded => .unbounded
  | .missing d => .missing d

def specSum (f : Name → SpecSize) : List Name → SpecSize
  | [] => .fin 0
  | e :: es => (f e).bind fun a => (specSum f es).bind fun b => .fin (a + b)

def specMaxOf (f : Name → SpecSize) : List Name → SpecSize
  | [] => .fin 0
  | e :: es => (f e).bind fun a => (specMaxOf f es).bind fun b => .fin (max a b)

/-- sum over fields, largest variant plus tag, largest count times element size plus length
prefix — applied at every nesting level; a reachable cycle is unbounded -/
def specMax (c : Container) : Nat → Name → List Name → SpecSize
  | 0, _, _ => .unbounded
  | fuel+1, d, path =>
    if path.contains d then .unbounded
    else match c.get d with
      | none => .missing d
      | some (.primitive s) => .fin s
      | some (.sequence lw _ hi e) =>
        if hi = 0 then .fin lw else (specMax c fuel e (d :: path)).bind fun n => .fin (lw + hi * n)
      | some (.tuple es) => specSum (fun e => specMax c fuel e (d :: path)) es
      | some (.enum tw vs) =>
        (specMaxOf (fun e => specMax c fuel e (d :: path)) (vs.map (·.2.2))).bind fun m => .fin (tw + m)
      | some (.struct fs) => specSum (fun e => specMax c fuel e (d :: path)) fs.decls

def Container.specMax (c : Container) : SpecSize := Borsh.specMax c (c.defs.length + 1) c.decl []

end Borsh
