/-
  `schemaOf t` — model of `BorshSchemaContainer::for_type::<T>()`: the built-in
  `BorshSchema` impls of borsh/src/schema.rs and the schema derive, driven by the same
  type description `Ty` that drives the codec model.
-/
import BorshModel.SchemaCodec
namespace Borsh

def joinNames (sep : Name) : List Name → Name
  | [] => []
  | [a] => a
  | a :: rest => a ++ sep ++ joinNames sep rest

def natName (n : Nat) : Name := (toString n).toUTF8.toList

def intName : IntK → String
  | .u8 => "u8" | .u16 => "u16" | .u32 => "u32" | .u64 => "u64" | .u128 => "u128"
  | .i8 => "i8" | .i16 => "i16" | .i32 => "i32" | .i64 => "i64" | .i128 => "i128"
  | .usize => "u64" | .isize => "i64"

def nonzeroName : IntK → String
  | .u8 => "NonZeroU8" | .u16 => "NonZeroU16" | .u32 => "NonZeroU32" | .u64 => "NonZeroU64"
  | .u128 => "NonZeroU128" | .i8 => "NonZeroI8" | .i16 => "NonZeroI16" | .i32 => "NonZeroI32"
  | .i64 => "NonZeroI64" | .i128 => "NonZeroI128" | .usize => "NonZeroUsize" | .isize => "NonZeroIsize"

mutual
/-- `T::declaration()` -/
def declOf : Ty → Name
  | .int k => n! (intName k)
  | .nonzero k => n! (nonzeroName k)
  | .float .f32 => n! "f32"
  | .float .f64 => n! "f64"
  | .bool => n! "bool"
  | .str k => if k.isAscii then n! "AsciiString" else n! "String"
  | .asciiChar => n! "AsciiChar"
  | .raw .ipv4 => n! "Ipv4Addr"
  | .raw .ipv6 => n! "Ipv6Addr"
  | .raw .objectId => n! "ObjectId"
  | .seq k t =>
    (match k with
     | .vecDeque => n! "VecDeque<"
     | .linkedList => n! "LinkedList<"
     | _ => n! "Vec<") ++ declOf t ++ n! ">"
  | .set k t =>
    (match k with
     | .hashSet => n! "HashSet<"
     | .btreeSet => n! "BTreeSet<") ++ declOf t ++ n! ">"
  | .map k a b =>
    (match k with
     | .hashMap => n! "HashMap<"
     | .btreeMap => n! "BTreeMap<"
     | .indexMap => n! "IndexMap<") ++ declOf a ++ n! ", " ++ declOf b ++ n! ">"
  | .array n t => n! "[" ++ declOf t ++ n! "; " ++ natName n ++ n! "]"
  | .prod k fs =>
    match k with
    | .tuple =>
      match declOfFields fs with
      | [a] => n! "(" ++ a ++ n! ",)"
      | ds => n! "(" ++ joinNames (n! ", ") ds ++ n! ")"
    | .unit | .phantom => n! "()"
    | .rangeFull => n! "RangeFull"
    | .range => n! "Range<" ++ joinNames (n! ", ") ((declOfFields fs).take 1) ++ n! ">"
    | .rangeInclusive => n! "RangeInclusive<" ++ joinNames (n! ", ") ((declOfFields fs).take 1) ++ n! ">"
    | .rangeFrom => n! "RangeFrom<" ++ joinNames (n! ", ") ((declOfFields fs).take 1) ++ n! ">"
    | .rangeTo => n! "RangeTo<" ++ joinNames (n! ", ") ((declOfFields fs).take 1) ++ n! ">"
    | .rangeToInclusive => n! "RangeToInclusive<" ++ joinNames (n! ", ") ((declOfFields fs).take 1) ++ n! ">"
    | .sockV4 => n! "SocketAddrV4"
    | .sockV6 => n! "SocketAddrV6"
    | .struct name _ => name
  | .sum k vs =>
    match k with
    | .option => n! "Option<" ++ joinNames (n! ", ") (declOfVariantPayloads vs) ++ n! ">"
    | .result => n! "Result<" ++ joinNames (n! ", ") (declOfVariantPayloads vs).reverse ++ n! ">"
    | .ipAddr => n! "IpAddr"
    | .sockAddr => n! "SocketAddr"
    | .derived name _ => name
  | .wrap _ t => declOf t
  | .custom t => declOf t
/-- declarations of all fields, skipped ones included -/
def declOfFields : List (Option Name × Bool × Ty) → List Name
  | [] => []
  | (_, _, t) :: fs => declOf t :: declOfFields fs
/-- declarations of the single-field payloads of the built-in sums (`Some(T)`, `Ok(T)`, `Err(E)`) -/
def declOfVariantPayloads : List (Name × Nat × List (Option Name × Bool × Ty)) → List Name
  | [] => []
  | (_, _, fs) :: vs => declOfFields fs ++ declOfVariantPayloads vs
end

abbrev Defs := List (Name × Defn)

/-- `add_definition`: insert into the ordered map; a different definition under an existing
name is the `assert_eq!` panic -/
def insertDef (d : Name) (df : Defn) : Defs → Res Unit Defs
  | [] => .ok [(d, df)]
  | (k, v) :: rest =>
    match cmpBytes d k with
    | .lt => .ok ((d, df) :: (k, v) :: rest)
    | .eq => if v = df then .ok ((k, v) :: rest) else .panic .assertRedefinition
    | .gt => (insertDef d df rest).bind fun r => .ok ((k, v) :: r)

def defsContain (m : Defs) (d : Name) : Bool := m.any fun e => e.1 == d

def defaultSeq (elem : Name) : Defn := .sequence 4 0 (2 ^ 32 - 1) elem

/-- the `Fields` of a derived struct: non-skipped fields only; named iff the fields have names -/
def schemaFields (fs : List Field) : Fields :=
  let kept := fs.filter fun f => !f.2.1
  match kept with
  | [] => .empty
  | (some _, _, _) :: _ => .named (kept.map fun f => (f.1.getD [], declOf f.2.2))
  | (none, _, _) :: _ => .unnamed (kept.map fun f => declOf f.2.2)

mutual
/-- `T::add_definitions_recursively(definitions)` -/
def addDefs : Ty → Defs → Res Unit Defs
  | .int k, m => insertDef (declOf (.int k)) (.primitive k.width) m
  | .nonzero k, m => insertDef (declOf (.nonzero k)) (.primitive k.width) m
  | .float k, m => insertDef (declOf (.float k)) (.primitive k.width) m
  | .bool, m => insertDef (n! "bool") (.primitive 1) m
  | .str k, m =>
    if k.isAscii then
      (insertDef (n! "AsciiString") (defaultSeq (n! "AsciiChar")) m).bind fun m =>
        insertDef (n! "AsciiChar") (.primitive 1) m
    else
      (insertDef (n! "String") (defaultSeq (n! "u8")) m).bind fun m =>
        insertDef (n! "u8") (.primitive 1) m
  | .asciiChar, m => insertDef (n! "AsciiChar") (.primitive 1) m
  | .raw k, m =>
    -- `struct Ipv4Addr { octets: [u8; 4] }` through the schema derive
    let arr := n! "[u8; " ++ natName k.width ++ n! "]"
    if defsContain m (declOf (.raw k)) then
      insertDef (declOf (.raw k)) (.struct (.named [(n! "octets", arr)])) m
    else
      (insertDef (declOf (.raw k)) (.struct (.named [(n! "octets", arr)])) m).bind fun m =>
        (insertDef arr (.sequence 0 k.width k.width (n! "u8")) m).bind fun m =>
          insertDef (n! "u8") (.primitive 1) m
  | .seq k t, m =>
    (insertDef (declOf (.seq k t)) (defaultSeq (declOf t)) m).bind fun m => addDefs t m
  | .set k t, m =>
    (insertDef (declOf (.set k t)) (defaultSeq (declOf t)) m).bind fun m => addDefs t m
  | .map k a b, m =>
    let pair := n! "(" ++ declOf a ++ n! ", " ++ declOf b ++ n! ")"
    (insertDef (declOf (.map k a b)) (defaultSeq pair) m).bind fun m =>
      (insertDef pair (.tuple [declOf a, declOf b]) m).bind fun m =>
        (addDefs a m).bind fun m => addDefs b m
  | .array n t, m =>
    (insertDef (declOf (.array n t)) (.sequence 0 n n (declOf t)) m).bind fun m => addDefs t m
  | .prod k fs, m =>
    match k with
    | .tuple =>
      (insertDef (declOf (.prod k fs)) (.tuple (declOfFields fs)) m).bind fun m => addDefsFields fs m
    | .unit | .phantom => insertDef (n! "()") (.primitive 0) m
    | .rangeFull => insertDef (n! "RangeFull") (.struct .empty) m
    | .range | .rangeInclusive =>
      (insertDef (declOf (.prod k fs))
        (.struct (.named ((declOfFields fs).zip [n! "start", n! "end"] |>.map fun p => (p.2, p.1)))) m).bind
        fun m => addDefsHead fs m
    | .rangeFrom =>
      (insertDef (declOf (.prod k fs)) (.struct (.named ((declOfFields fs).map fun d => (n! "start", d)))) m).bind
        fun m => addDefsFields fs m
    | .rangeTo | .rangeToInclusive =>
      (insertDef (declOf (.prod k fs)) (.struct (.named ((declOfFields fs).map fun d => (n! "end", d)))) m).bind
        fun m => addDefsFields fs m
    | .sockV4 | .sockV6 => .panic .unreachable          -- no `BorshSchema` impl exists
    | .struct name _ =>
      if defsContain m name then insertDef name (.struct (schemaFields fs)) m
      else (insertDef name (.struct (schemaFields fs)) m).bind fun m => addDefsKept fs m
  | .sum k vs, m =>
    match k with
    | .option =>
      (insertDef (declOf (.sum k vs))
        (.enum 1 [(0, n! "None", n! "()"), (1, n! "Some", joinNames [] (declOfVariantPayloads vs))]) m).bind fun m =>
        (addDefsVariants vs m).bind fun m => insertDef (n! "()") (.primitive 0) m
    | .result =>
      match declOfVariantPayloads vs with
      | [e, t] =>
        (insertDef (declOf (.sum k vs)) (.enum 1 [(1, n! "Ok", t), (0, n! "Err", e)]) m).bind fun m =>
          addDefsVariants vs m      -- (E then T; the order only matters for which conflict panics first)
      | _ => .panic .unreachable
    | .ipAddr | .derived _ _ =>
      -- per-variant inner structs `<Enum><Variant>`, then the enum itself
      (addDefsInner (declOf (.sum k vs)) vs m).bind fun m =>
        insertDef (declOf (.sum k vs))
          (.enum 1 (vs.map fun v => (((UInt8.ofNat v.2.1).toNat : Int), v.1, declOf (.sum k vs) ++ v.1))) m
    | .sockAddr => .panic .unreachable
  | .wrap _ t, m => addDefs t m
  | .custom t, m => addDefs t m
/-- every field -/
def addDefsFields : List (Option Name × Bool × Ty) → Defs → Res Unit Defs
  | [], m => .ok m
  | (_, _, t) :: fs, m => (addDefs t m).bind fun m => addDefsFields fs m
/-- the first field only (`Range<T>` has two fields of one type) -/
def addDefsHead : List (Option Name × Bool × Ty) → Defs → Res Unit Defs
  | [], m => .ok m
  | (_, _, t) :: _, m => addDefs t m
/-- the non-skipped fields (derived items) -/
def addDefsKept : List (Option Name × Bool × Ty) → Defs → Res Unit Defs
  | [], m => .ok m
  | (_, skip, t) :: fs, m =>
    if skip then addDefsKept fs m else (addDefs t m).bind fun m => addDefsKept fs m
/-- payload types of the built-in sums -/
def addDefsVariants : List (Name × Nat × List (Option Name × Bool × Ty)) → Defs → Res Unit Defs
  | [], m => .ok m
  | (_, _, fs) :: vs, m => (addDefsFields fs m).bind fun m => addDefsVariants vs m
/-- the derive's per-variant inner structs -/
def addDefsInner (enumDecl : Name) : List (Name × Nat × List (Option Name × Bool × Ty)) → Defs → Res Unit Defs
  | [], m => .ok m
  | (vn, _, fs) :: vs, m =>
    (if defsContain m (enumDecl ++ vn) then insertDef (enumDecl ++ vn) (.struct (schemaFields fs)) m
     else (insertDef (enumDecl ++ vn) (.struct (schemaFields fs)) m).bind fun m => addDefsKept fs m).bind
      fun m => addDefsInner enumDecl vs m
end

/-- `BorshSchemaContainer::for_type::<T>()` -/
def schemaOf (t : Ty) : Res Unit Container :=
  (addDefs t []).bind fun m => .ok ⟨declOf t, m⟩

def Res.toOut {α : Type} : Res Unit α → Out α
  | .ok a => .ok a
  | .error _ => .panic .unreachable
  | .panic p => .panic p

/-- bytes of a container through the universe's own codec -/
def containerBytes (c : Container) : Out Bytes := toVec containerTy (containerToVal c)

/-- `try_to_vec_with_schema`: the schema container, then the value -/
def tryToVecWithSchema (t : Ty) (v : Val) : Out Bytes :=
  (schemaOf t).toOut.bind fun c =>
    (containerBytes c).bind fun cb => (toVec t v).map fun vb => cb ++ vb

/-- `try_from_slice_with_schema::<U>`: decode `(BorshSchemaContainer, U)`, then compare the
embedded schema with `U`'s own -/
def tryFromSliceWithSchema (strict : Bool) (u : Ty) (bs : Bytes) : Out Val :=
  (deserialize strict containerTy bs).bind fun r =>
    (deserialize strict u r.2).bind fun q =>
      if !q.2.isEmpty then .err eNotAllBytesRead
      else (schemaOf u).toOut.bind fun cu =>
        if containerOfVal r.1 == some cu then .ok q.1 else .err ⟨.invalidData, .schemaMismatch⟩

end Borsh
