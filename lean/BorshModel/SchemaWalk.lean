/-
  C08, "decoding the serialized bytes using only the container": a reader that knows nothing but
  the container (`sdec`), and the predicate `Bnd c t` — every declaration the type `t` refers to is
  bound in `c` to the definition the schema impls and the derive intend.
-/
import BorshModel.SchemaOf
namespace Borsh

def listWith (f : Name → Bytes → Option Bytes) : List Name → Bytes → Option Bytes
  | [], bs => some bs
  | d :: ds, bs => (f d bs).bind (listWith f ds)

def repeatWith (f : Bytes → Option Bytes) : Nat → Bytes → Option Bytes
  | 0, bs => some bs
  | n+1, bs => (f bs).bind (repeatWith f n)

/-- walk `bs` as the definitions prescribe, starting at declaration `d`; returns what is left -/
def sdec (c : Container) : Nat → Name → Bytes → Option Bytes
  | 0, _, _ => none
  | fuel+1, d, bs =>
    match c.get d with
    | none => none
    | some (.primitive n) => if n ≤ bs.length then some (bs.drop n) else none
    | some (.sequence lw lo hi e) =>
      if lw = 0 then (if lo = hi then repeatWith (sdec c fuel e) hi bs else none)
      else if lw ≤ bs.length then
        (if lo ≤ ofLe (bs.take lw) ∧ ofLe (bs.take lw) ≤ hi
         then repeatWith (sdec c fuel e) (ofLe (bs.take lw)) (bs.drop lw) else none)
      else none
    | some (.tuple es) => listWith (sdec c fuel) es bs
    | some (.enum tw vs) =>
      if tw ≤ bs.length then
        match vs.find? (fun v => v.1 == ((ofLe (bs.take tw) : Nat) : Int)) with
        | some v => sdec c fuel v.2.2 (bs.drop tw)
        | none => none
      else none
    | some (.struct fs) => listWith (sdec c fuel) fs.decls bs

/-- the schema alone parses `bs` exactly to its end -/
def Container.describes (c : Container) (bs : Bytes) : Prop := ∃ fuel, sdec c fuel c.decl bs = some []

/-- a definition that can actually be read: enums are non-empty with distinct discriminants that
fit the tag width, a length range fits its width, an untagged sequence has a single length -/
def readableDefn : Defn → Bool
  | .sequence lw lo hi _ => if lw = 0 then lo == hi else decide (lo ≤ hi) && decide (hi < 256 ^ lw)
  | .enum tw vs =>
    !vs.isEmpty && vs.all (fun v => decide (0 ≤ v.1) && decide (v.1.toNat < 256 ^ tw)) &&
      decide ((vs.map (·.1)).Nodup)
  | _ => true

/-- every definition of the container can be read -/
def Container.readable (c : Container) : Bool := c.defs.all fun e => readableDefn e.2

mutual
/-- every declaration `t` refers to is bound as intended -/
def Bnd (c : Container) : Ty → Prop
  | .int k => c.get (declOf (.int k)) = some (.primitive k.width)
  | .nonzero k => c.get (declOf (.nonzero k)) = some (.primitive k.width)
  | .float k => c.get (declOf (.float k)) = some (.primitive k.width)
  | .bool => c.get (n! "bool") = some (.primitive 1)
  | .str k =>
    if k.isAscii then
      c.get (n! "AsciiString") = some (defaultSeq (n! "AsciiChar")) ∧ c.get (n! "AsciiChar") = some (.primitive 1)
    else c.get (n! "String") = some (defaultSeq (n! "u8")) ∧ c.get (n! "u8") = some (.primitive 1)
  | .asciiChar => c.get (n! "AsciiChar") = some (.primitive 1)
  | .raw k =>
    c.get (declOf (.raw k)) = some (.struct (.named [(n! "octets", n! "[u8; " ++ natName k.width ++ n! "]")])) ∧
    c.get (n! "[u8; " ++ natName k.width ++ n! "]") = some (.sequence 0 k.width k.width (n! "u8")) ∧
    c.get (n! "u8") = some (.primitive 1)
  | .seq k t => c.get (declOf (.seq k t)) = some (defaultSeq (declOf t)) ∧ Bnd c t
  | .set k t => c.get (declOf (.set k t)) = some (defaultSeq (declOf t)) ∧ Bnd c t
  | .map k a b =>
    c.get (declOf (.map k a b)) = some (defaultSeq (n! "(" ++ declOf a ++ n! ", " ++ declOf b ++ n! ")")) ∧
    c.get (n! "(" ++ declOf a ++ n! ", " ++ declOf b ++ n! ")") = some (.tuple [declOf a, declOf b]) ∧
    Bnd c a ∧ Bnd c b
  | .array n t => c.get (declOf (.array n t)) = some (.sequence 0 n n (declOf t)) ∧ Bnd c t
  | .prod k fs =>
    match k with
    | .tuple => c.get (declOf (.prod k fs)) = some (.tuple (declOfFields fs)) ∧ BndFields c fs
    | .unit | .phantom => c.get (n! "()") = some (.primitive 0)
    | .rangeFull => c.get (n! "RangeFull") = some (.struct .empty)
    | .range | .rangeInclusive =>
      c.get (declOf (.prod k fs)) =
        some (.struct (.named ((declOfFields fs).zip [n! "start", n! "end"] |>.map fun p => (p.2, p.1)))) ∧
      BndFields c fs
    | .rangeFrom =>
      c.get (declOf (.prod k fs)) = some (.struct (.named ((declOfFields fs).map fun d => (n! "start", d)))) ∧
      BndFields c fs
    | .rangeTo | .rangeToInclusive =>
      c.get (declOf (.prod k fs)) = some (.struct (.named ((declOfFields fs).map fun d => (n! "end", d)))) ∧
      BndFields c fs
    | .sockV4 | .sockV6 => False
    | .struct name _ => c.get name = some (.struct (schemaFields fs)) ∧ BndKept c fs
  | .sum k vs =>
    match k with
    | .option =>
      c.get (declOf (.sum k vs)) =
        some (.enum 1 [(0, n! "None", n! "()"), (1, n! "Some", joinNames [] (declOfVariantPayloads vs))]) ∧
      BndVariants c vs ∧ c.get (n! "()") = some (.primitive 0)
    | .result =>
      (match declOfVariantPayloads vs with
       | [e, t] => c.get (declOf (.sum k vs)) = some (.enum 1 [(1, n! "Ok", t), (0, n! "Err", e)])
       | _ => False) ∧ BndVariants c vs
    | .ipAddr | .derived _ _ =>
      BndInner c (declOf (.sum k vs)) vs ∧
      c.get (declOf (.sum k vs)) =
        some (.enum 1 (vs.map fun v => (((UInt8.ofNat v.2.1).toNat : Int), v.1, declOf (.sum k vs) ++ v.1)))
    | .sockAddr => False
  | .wrap _ t => Bnd c t
  | .custom t => Bnd c t
def BndFields (c : Container) : List (Option Name × Bool × Ty) → Prop
  | [] => True
  | (_, _, t) :: fs => Bnd c t ∧ BndFields c fs
def BndKept (c : Container) : List (Option Name × Bool × Ty) → Prop
  | [] => True
  | (_, skip, t) :: fs => (skip = true ∨ Bnd c t) ∧ BndKept c fs
def BndVariants (c : Container) : List (Name × Nat × List (Option Name × Bool × Ty)) → Prop
  | [] => True
  | (_, _, fs) :: vs => BndFields c fs ∧ BndVariants c vs
def BndInner (c : Container) (enumDecl : Name) : List (Name × Nat × List (Option Name × Bool × Ty)) → Prop
  | [] => True
  | (vn, _, fs) :: vs =>
    (c.get (enumDecl ++ vn) = some (.struct (schemaFields fs)) ∧ BndKept c fs) ∧ BndInner c enumDecl vs
end

def noSkip : List Field → Bool
  | [] => true
  | (_, skip, _) :: fs => !skip && noSkip fs

mutual
/-- the shapes the schema impls exist for and describe faithfully: tuples and ranges without
skipped fields, unit-like kinds without fields, `Option`/`Result` in their built-in form, no
socket addresses (they have no `BorshSchema` impl) -/
def shapeOk : Ty → Bool
  | .seq _ t => shapeOk t
  | .set _ t => shapeOk t
  | .map _ a b => shapeOk a && shapeOk b
  | .array _ t => shapeOk t
  | .prod k fs =>
    (match k with
     | .tuple => noSkip fs
     | .unit | .phantom | .rangeFull => fs.isEmpty
     | .range | .rangeInclusive => noSkip fs && fs.length == 2
     | .rangeFrom | .rangeTo | .rangeToInclusive => noSkip fs
     | .sockV4 | .sockV6 => false
     | .struct _ _ => true) && shapeOkFields fs
  | .sum k vs =>
    (match k with
     | .option =>
       (match vs with
        | [(_, 0, []), (_, 1, [(_, false, _)])] => true
        | _ => false)
     | .result =>
       (match vs with
        | [(_, 0, [(_, false, _)]), (_, 1, [(_, false, _)])] => true
        | _ => false)
     | .ipAddr | .derived _ _ => true
     | .sockAddr => false) && shapeOkVariants vs
  | .wrap _ t => shapeOk t
  | .custom t => shapeOk t
  | _ => true
def shapeOkFields : List (Option Name × Bool × Ty) → Bool
  | [] => true
  | (_, skip, t) :: fs => (skip || shapeOk t) && shapeOkFields fs
def shapeOkVariants : List (Name × Nat × List (Option Name × Bool × Ty)) → Bool
  | [] => true
  | (_, _, fs) :: vs => shapeOkFields fs && shapeOkVariants vs
end

mutual
/-- types whose schema is produced without the derive's "declaration already present" shortcut:
compositions of the built-in impls (no derived structs/enums, no `Ipv4Addr`-style derived
built-ins; `Range`/`RangeInclusive`, which register only their first field, are left out too) -/
def guardFree : Ty → Bool
  | .raw _ => false
  | .seq _ t => guardFree t
  | .set _ t => guardFree t
  | .map _ a b => guardFree a && guardFree b
  | .array _ t => guardFree t
  | .prod k fs =>
    (match k with
     | .tuple | .unit | .phantom | .rangeFull | .rangeFrom | .rangeTo | .rangeToInclusive => true
     | _ => false) && guardFreeFields fs
  | .sum k vs =>
    (match k with
     | .option | .result => true
     | _ => false) && guardFreeVariants vs
  | .wrap _ t => guardFree t
  | .custom t => guardFree t
  | _ => true
def guardFreeFields : List (Option Name × Bool × Ty) → Bool
  | [] => true
  | (_, _, t) :: fs => guardFree t && guardFreeFields fs
def guardFreeVariants : List (Name × Nat × List (Option Name × Bool × Ty)) → Bool
  | [] => true
  | (_, _, fs) :: vs => guardFreeFields fs && guardFreeVariants vs
end

mutual
/-- the type is empty on the wire: every value encodes to zero bytes -/
def wireZero : Ty → Bool
  | .array n t => n == 0 || wireZero t
  | .prod k fs =>
    (match k with
     | .sockV4 | .sockV6 => false
     | _ => true) && wireZeroFields fs
  | .wrap _ t => wireZero t
  | _ => false
/-- every field that is on the wire is empty -/
def wireZeroFields : List (Option Name × Bool × Ty) → Bool
  | [] => true
  | (_, skip, t) :: fs => (skip || wireZero t) && wireZeroFields fs
end

end Borsh
