/-
  `Impl.ser` — executable model of `BorshSerialize` (borsh/src/ser/mod.rs and the
  derived impls).  The Rust code never inspects its writer: it only issues `write_all`
  calls and propagates the first error with `?`.  The model therefore returns the
  *trace* of `write_all` calls issued (one chunk per call, in order) together with the
  status the serializer itself ends with, provided every write succeeded.  Running a
  trace against a concrete writer is `Io.runTrace`.
-/
import BorshModel.Typing
namespace Borsh

/-- trace of `write_all` calls and the serializer's own final status -/
structure Tr where
  chunks : List Bytes
  status : Out Unit
  deriving Repr, Inhabited

namespace Tr
def done : Tr := ⟨[], .ok ()⟩
def emit (bs : Bytes) : Tr := ⟨[bs], .ok ()⟩
def fail (e : Err) : Tr := ⟨[], .err e⟩
def panic (p : PanicSite) : Tr := ⟨[], .panic p⟩
/-- `a?; b` -/
def andThen (a b : Tr) : Tr :=
  match a.status with
  | .ok () => ⟨a.chunks ++ b.chunks, b.status⟩
  | _ => a
/-- all bytes handed to the writer, in order -/
def bytes (t : Tr) : Bytes := t.chunks.flatten
end Tr

infixl:60 " ▹ " => Tr.andThen

/-- `for item in data { item.serialize(writer)?; }` -/
def serMany (f : Val → Tr) : List Val → Tr
  | [] => Tr.done
  | v :: vs => f v ▹ serMany f vs

/-- `u32::try_from(len).map_err(|_| ErrorKind::InvalidData)?` then `write_all(&len.to_le_bytes())` -/
def serLen (n : Nat) : Tr :=
  if n < 2 ^ 32 then Tr.emit (u32le n) else Tr.fail eLenOverflow

def valByte : Val → UInt8
  | .int i => UInt8.ofNat (i % 256).toNat
  | _ => 0

/-- the bytes of a `&[u8]` -/
def valBytes (vs : List Val) : Bytes := vs.map valByte

def illTyped : Tr := Tr.panic .unreachable

/-- a map entry: the key, then the value -/
def serEntry (fk fv : Val → Tr) : Val → Tr
  | .list [a, b] => fk a ▹ fv b
  | _ => illTyped

mutual
def ser : Ty → Val → Tr
  | .int k, .int i => Tr.emit (encInt k i)
  | .nonzero k, .int i => Tr.emit (encInt k i)
  | .float k, .int b =>
    if isNanBits k b.toNat then Tr.fail eNanSer else Tr.emit (leBytes k.width b.toNat)
  | .bool, .bool b => Tr.emit [if b then 1 else 0]
  | .str _, .blob bs => serLen bs.length ▹ Tr.emit bs          -- `[u8]::serialize`, u8 fast path
  | .asciiChar, .int i => Tr.emit [UInt8.ofNat i.toNat]
  | .raw _, .blob bs => Tr.emit bs                                -- one `write_all` of the octets
  | .seq k t, .list vs =>
    if k.serChecksZst && memZero t then Tr.fail eZst
    else if k.noFastPath then
      serLen vs.length ▹ serMany (ser t) vs                   -- iterator loops: no fast path
    else
      serLen vs.length ▹ (if t.isU8 then Tr.emit (valBytes vs) else serMany (ser t) vs)
  | .seq _ t, .deque a b =>
    if memZero t then Tr.fail eZst
    else serLen (a.length + b.length)
      ▹ (if t.isU8 then Tr.emit (valBytes a) else serMany (ser t) a)
      ▹ (if t.isU8 then Tr.emit (valBytes b) else serMany (ser t) b)
  | .set k t, .list vs =>
    if memZero t then Tr.fail eZst
    else
      let vs' := match k with
        | .hashSet => sortByKey id vs                           -- collect + sort
        | .btreeSet => vs                                       -- ordered iteration
      serLen vs'.length ▹ serMany (ser t) vs'
  | .map k kt vt, .list es =>
    if memZero kt then Tr.fail eZst
    else
      let es' := match k with
        | .hashMap => sortByKey entryKey es
        | _ => es
      serLen es'.length ▹ serMany (serEntry (ser kt) (ser vt)) es'
  | .array n t, .list vs =>
    if n == 0 then Tr.done
    else if t.isU8 then Tr.emit (valBytes vs)
    else serMany (ser t) vs
  | .prod _ fs, .list vs => serFields fs vs
  | .sum _ vs, .variant idx fvs => serVariant vs idx fvs
  | .wrap _ t, v => ser t v
  | .custom _, .int i => Tr.emit (leBytes 4 (i % 2 ^ 32).toNat).reverse     -- fixture: big-endian u32
  | _, _ => illTyped
/-- fields in declaration order, skipped ones omitted -/
def serFields : List (Option Name × Bool × Ty) → List Val → Tr
  | [], [] => Tr.done
  | (_, skip, t) :: fs, v :: vs =>
    if skip then serFields fs vs else ser t v ▹ serFields fs vs
  | _, _ => illTyped
/-- `let variant_idx: u8 = <tag>; write_all(&variant_idx.to_le_bytes())`, then the fields -/
def serVariant : List (Name × Nat × List (Option Name × Bool × Ty)) → Nat → List Val → Tr
  | [], _, _ => illTyped
  | (_, tag, fs) :: _, 0, fvs => Tr.emit [UInt8.ofNat tag] ▹ serFields fs fvs
  | _ :: vs, i+1, fvs => serVariant vs i fvs
end

/-- `borsh::to_vec` -/
def toVec (t : Ty) (v : Val) : Out Bytes :=
  let tr := ser t v
  tr.status.map fun _ => tr.bytes

end Borsh
