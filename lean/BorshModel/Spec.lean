/-
  `Spec.enc` — the Borsh wire format written from the specification text, as a plain
  function from values to bytes: no writers, no traces, no fast paths, no chunking.
  It shares with `Impl.ser` only `leBytes` and the key order.
-/
import BorshModel.Typing
namespace Borsh
namespace Spec

inductive Refusal | nan | tooLong | zst | illTyped
  deriving DecidableEq, Repr

abbrev R := Except Refusal Bytes

/-- concatenate encodings; the first refusal wins -/
def concat : List R → R
  | [] => .ok []
  | x :: xs => do let a ← x; let b ← concat xs; pure (a ++ b)

/-- "a 4-byte little-endian element count" -/
def count (n : Nat) : R := if n < 2 ^ 32 then .ok (leBytes 4 n) else .error .tooLong

/-- fixed-width little-endian two's complement -/
def int (w : Nat) (i : Int) : Bytes := leBytes w (i % (256 ^ w : Int)).toNat

/-- `count ++ items`, refused for zero-sized elements where borsh-rs refuses them -/
def sized (zst : Bool) (items : List R) : R :=
  if zst then .error .zst else do
    let n ← count items.length
    let body ← concat items
    pure (n ++ body)

mutual
def enc : Ty → Val → R
  | .int k, .int i => .ok (int k.width i)
  | .nonzero k, .int i => .ok (int k.width i)
  | .float k, .int b => if isNanBits k b.toNat then .error .nan else .ok (leBytes k.width b.toNat)
  | .bool, .bool b => .ok [if b then 1 else 0]
  | .str _, .blob bs => do let n ← count bs.length; pure (n ++ bs)
  | .asciiChar, .int i => .ok [UInt8.ofNat i.toNat]
  | .raw _, .blob bs => .ok bs
  | .seq k t, .list vs => sized (k.serChecksZst && memZero t) (vs.map (enc t))
  | .seq _ t, .deque a b => sized (memZero t) ((a ++ b).map (enc t))
  | .set k t, .list vs =>
    sized (memZero t) ((match k with
      | .hashSet => sortByKey id vs
      | .btreeSet => vs).map (enc t))
  | .map k kt vt, .list es =>
    sized (memZero kt) ((match k with
      | .hashMap => sortByKey entryKey es
      | _ => es).map fun (e : Val) => match e with
        | Val.list [a, b] => do let x ← enc kt a; let y ← enc vt b; pure (x ++ y)
        | _ => .error .illTyped)
  | .array _ t, .list vs => concat (vs.map (enc t))
  | .prod _ fs, .list vs => encFields fs vs
  | .sum _ vs, .variant idx fvs => encVariant vs idx fvs
  | .wrap _ t, v => enc t v
  | .custom _, .int i => .ok (leBytes 4 (i % 2 ^ 32).toNat).reverse
  | _, _ => .error .illTyped
def encFields : List (Option Name × Bool × Ty) → List Val → R
  | [], [] => .ok []
  | (_, skip, t) :: fs, v :: vs =>
    if skip then encFields fs vs else do
      let a ← enc t v
      let b ← encFields fs vs
      pure (a ++ b)
  | _, _ => .error .illTyped
def encVariant : List (Name × Nat × List (Option Name × Bool × Ty)) → Nat → List Val → R
  | [], _, _ => .error .illTyped
  | (_, tag, fs) :: _, 0, fvs => do let b ← encFields fs fvs; pure (UInt8.ofNat tag :: b)
  | _ :: vs, i+1, fvs => encVariant vs i fvs
end

end Spec

/-- the implementation's verdict in the specification's vocabulary -/
def Out.toSpec : Out Bytes → Spec.R
  | .ok bs => .ok bs
  | .err e =>
    match e.msg with
    | .nanSer => .error .nan
    | .zst => .error .zst
    | .simple => .error .tooLong
    | _ => .error .illTyped
  | .panic _ => .error .illTyped

end Borsh
