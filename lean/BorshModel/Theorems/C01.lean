/-
  C01 — Round trip: decoding an encoding returns the original value.

  Full statement (kept visible).  Proved for every well-formed type whose set elements, map keys
  and index-set elements are *key types* (`keysOk`; a key type is one whose canonical form is
  the value itself — no hash collection, deque, skipped field or init hook inside the key; ordered
  sets and maps of key types are key types, e.g. `BTreeSet<BTreeSet<u8>>`).  What is excluded is
  partly necessary: for keys with a skipped field the statement is false (theorem
  `C01_skipped_key_field_boundary`, replayed on the real code); hash collections and deques as keys
  are excluded because their representation order and their logical order differ.  Hence the
  `_partial` suffix is kept.
-/
import BorshModel.Lemmas.RoundtripKeyed
namespace Borsh

/-- C01 at one type: whatever serializes successfully decodes, through the whole-input entry
point and in both key-order modes, to its canonical form. -/
def C01_at (t : Ty) : Prop :=
  ∀ (st : Bool) (v : Val) (bs : Bytes),
    HasTy t v = true → toVec t v = .ok bs → fromSlice st t bs = .ok (canon t v)

/-- the full property: every well-formed type of the universe -/
def C01_full : Prop := ∀ t : Ty, WfTy t = true → C01_at t

theorem toVec_ok {t : Ty} {v : Val} {bs : Bytes} (h : toVec t v = .ok bs) :
    (ser t v).Ok ∧ (ser t v).bytes = bs := by
  unfold toVec at h
  unfold Tr.Ok
  cases hs : (ser t v).status with
  | ok u => cases u; simp [hs] at h; exact ⟨rfl, h⟩
  | err e => simp [hs] at h
  | panic p => simp [hs] at h

/-- `deserialize` on the encoding followed by anything returns the canonical value and leaves
exactly what followed ("consumes all input" in its general form). -/
theorem C01_roundtrip_stream_partial (st : Bool) (t : Ty) (v : Val) (bs rest : Bytes)
    (hp : keysOk t = true) (hw : WfTy t = true) (hv : HasTy t v = true)
    (he : toVec t v = .ok bs) :
    deserialize st t (bs ++ rest) = .ok (canon t v, rest) := by
  obtain ⟨hok, hb⟩ := toVec_ok he
  rw [← hb]
  exact roundtrip_all st t hp hw v hv hok rest

/-- C01 for every well-formed type whose set, map and index-set keys are key types (`keysOk`), every value, both strictness settings. -/
theorem C01_roundtrip_partial (t : Ty) (hp : keysOk t = true) (hw : WfTy t = true) : C01_at t := by
  intro st v bs hv he
  have := C01_roundtrip_stream_partial st t v bs [] hp hw hv he
  simp only [List.append_nil] at this
  simp [fromSlice, this]

/-- the chunked byte-vector loop returns exactly the requested bytes for *every* length
(in particular beyond the 1 MiB initial allocation) -/
theorem C01_bulk_loop_exact (len : Nat) (bs : Bytes) (h : len ≤ bs.length) :
    Rd.slice.readBulk len bs = .ok (bs.take len, bs.drop len) := by
  rw [slice_readBulk]; simp [h]

/-- non-vacuity: a nested plain type, a value of it, its encoding and the decode -/
example :
    let t := Ty.seq .vec (Ty.sum .option [([78], 0, []), ([83], 1, [(none, false,
      .prod (.struct [83] false)
        [(some [97], false, .int .i16), (some [98], true, .bool), (none, false, .str .string)])])])
    let v := Val.list [.variant 0 [], .variant 1 [.list [.int (-2), .bool true, .blob [104, 105]]]]
    (plain t && WfTy t && HasTy t v &&
      (toVec t v).okBytes [2, 0, 0, 0, 0, 1, 254, 255, 2, 0, 0, 0, 104, 105] &&
      (fromSlice true t [2, 0, 0, 0, 0, 1, 254, 255, 2, 0, 0, 0, 104, 105]).okVal
        (.list [.variant 0 [], .variant 1 [.list [.int (-2), .bool false, .blob [104, 105]]]])) = true := by
  decide

/-- non-vacuity for the keyed part: `HashMap<String, BTreeSet<u16>>` written from an unsorted
entry list comes back sorted by key, in strict mode too -/
example :
    let t := Ty.map .hashMap (.str .string) (.set .btreeSet (.int .u16))
    let v := Val.list [.list [.blob [98], .list [.int 1, .int 2]], .list [.blob [97], .list []]]
    (keysOk t && WfTy t && HasTy t v &&
      (toVec t v).okBytes [2, 0, 0, 0, 1, 0, 0, 0, 97, 0, 0, 0, 0,
                           1, 0, 0, 0, 98, 2, 0, 0, 0, 1, 0, 2, 0] &&
      (fromSlice true t [2, 0, 0, 0, 1, 0, 0, 0, 97, 0, 0, 0, 0,
                         1, 0, 0, 0, 98, 2, 0, 0, 0, 1, 0, 2, 0]).okVal
        (.list [.list [.blob [97], .list []], .list [.blob [98], .list [.int 1, .int 2]]])) = true := by
  decide +kernel

/-- **Why `keysOk` cannot simply be dropped** (scope boundary S8, replayed on the real code): a set
whose element type has a skipped field.  `struct K { a: u8, #[borsh(skip)] b: u8 }` with the derived
`Ord`; the set `{K{1,2}, K{1,3}}` serializes to `02 00 00 00 01 01` — two equal elements on the wire.
Without `de_strict_order` it reads back as the one-element set `{K{1,0}}`; with it, it is rejected
(keys not ascending).  The format does not carry what distinguished the two keys, so no decoder could
do better; the round-trip theorem therefore excludes keys whose identity depends on data the format
does not carry (skipped fields, init hooks), and hash collections / deques inside keys. -/
theorem C01_skipped_key_field_boundary :
    let k := Ty.prod (.struct [75] false) [(some [97], false, .int .u8), (some [98], true, .int .u8)]
    let t := Ty.set .btreeSet k
    let v := Val.list [.list [.int 1, .int 2], .list [.int 1, .int 3]]
    (WfTy t && HasTy t v && !keysOk t &&
      (toVec t v).okBytes [2, 0, 0, 0, 1, 1] &&
      (fromSlice false t [2, 0, 0, 0, 1, 1]).okVal (.list [.list [.int 1, .int 0]]) &&
      (fromSlice true t [2, 0, 0, 0, 1, 1]).errIs ⟨.invalidData, .keyOrder⟩) = true := by
  decide +kernel

end Borsh
