/-
  C02 — Encoded bytes equal the Borsh specification encoding.
-/
import BorshModel.Lemmas.SpecRefineMain
namespace Borsh

/-- For **every** type of the universe (sets, maps, deques, wrappers, derived items included)
and every value of it, `to_vec` produces exactly the bytes the specification function
`Spec.enc` prescribes, or refuses with the same class of refusal (NaN, more than 2^32-1
elements, zero-sized collection elements). -/
theorem C02_refines_spec (t : Ty) (v : Val) (hv : HasTy t v = true) :
    (toVec t v).toSpec = Spec.enc t v := by
  rw [toVec_toSpec]; exact refines_all t v hv

/-- equal bytes, stated directly -/
theorem C02_bytes (t : Ty) (v : Val) (bs : Bytes) (hv : HasTy t v = true)
    (h : toVec t v = .ok bs) : Spec.enc t v = .ok bs := by
  rw [← C02_refines_spec t v hv, h]; rfl

/-- NaN is refused instead of being encoded -/
theorem C02_nan_refused (k : FloatK) (b : Int) (h : isNanBits k b.toNat = true) :
    toVec (.float k) (.int b) = .err ⟨.invalidData, .nanSer⟩ := by
  simp [toVec, ser, h, Tr.fail, eNanSer]

/-- more than 2^32-1 elements are refused instead of being encoded -/
theorem C02_too_long_refused (t : Ty) (vs : List Val) (hz : memZero t = false)
    (h : 2 ^ 32 ≤ vs.length) :
    toVec (.seq .vec t) (.list vs) = .err ⟨.invalidData, .simple⟩ := by
  have : ¬ vs.length < 2 ^ 32 := by omega
  simp [toVec, ser, hz, SeqK.noFastPath, serLen, this, Tr.fail, Tr.andThen, eLenOverflow]

/-- the same for strings -/
theorem C02_too_long_string_refused (k : StrK) (bs : Bytes) (h : 2 ^ 32 ≤ bs.length) :
    toVec (.str k) (.blob bs) = .err ⟨.invalidData, .simple⟩ := by
  have : ¬ bs.length < 2 ^ 32 := by omega
  simp [toVec, ser, serLen, this, Tr.fail, Tr.andThen, eLenOverflow]

/-- non-vacuity: a map inside a struct inside an enum, spec and implementation agree byte for byte -/
example :
    let t := Ty.sum (.derived [69] false) [([65], 0, []), ([66], 7, [(some [109], false,
      .map .hashMap (.int .u16) (.str .string)), (some [115], true, .int .u64)])]
    let v := Val.variant 1 [.list [.list [.int 513, .blob [104]], .list [.int 2, .blob []]], .int 99]
    (HasTy t v && (toVec t v).okBytes [7, 2, 0, 0, 0, 2, 0, 0, 0, 0, 0, 1, 2, 1, 0, 0, 0, 104] &&
      (match Spec.enc t v with | .ok bs => bs == [7, 2, 0, 0, 0, 2, 0, 0, 0, 0, 0, 1, 2, 1, 0, 0, 0, 104] | _ => false)) = true := by
  decide

end Borsh
