/-
  C03 — Canonical encoding: equal values always produce identical bytes.
-/
import BorshModel.Lemmas.RoundtripMain
import BorshModel.Lemmas.SpecRefineMain
import BorshModel.Lemmas.SortLaws
import BorshModel.Lemmas.Logical
import BorshModel.Theorems.C02
namespace Borsh

/-- owned / borrowed / boxed / ref-counted / cell wrapping is invisible on the wire -/
theorem C03_wrappers (k : WrapK) (t : Ty) (v : Val) : toVec (.wrap k t) v = toVec t v := by
  have hs : ser (.wrap k t) v = ser t v := by cases v <;> simp [ser]
  simp [toVec, hs]

/-- nested wrappers too -/
theorem C03_wrappers_nested (k₁ k₂ : WrapK) (t : Ty) (v : Val) :
    toVec (.wrap k₁ (.wrap k₂ t)) v = toVec t v := by
  rw [C03_wrappers, C03_wrappers]

/-- the bulk fast path for byte sequences delivers the same bytes as the per-element path -/
theorem C03_fast_path (vs : List Val) (h : ∀ v ∈ vs, HasTy (.int .u8) v = true) :
    (serMany (ser (.int .u8)) vs).Ok ∧
      (serMany (ser (.int .u8)) vs).bytes = (Tr.emit (valBytes vs)).bytes := by
  have := serMany_u8_bytes vs h
  simpa using this

/-- a `Vec<u8>` and a `LinkedList<u8>` (no fast path) of the same bytes encode identically -/
theorem C03_fast_path_toVec (vs : List Val) (h : ∀ v ∈ vs, HasTy (.int .u8) v = true) :
    toVec (.seq .linkedList (.int .u8)) (.list vs) = toVec (.seq .vec (.int .u8)) (.list vs) := by
  have hu := serMany_u8_bytes vs h
  unfold toVec
  simp only [ser, memZero, Bool.and_false, Bool.false_eq_true, if_false, SeqK.noFastPath, if_true,
    Ty.isU8]
  by_cases hl : vs.length < 2 ^ 32
  · have h1 : (serLen vs.length ▹ serMany (ser (.int .u8)) vs).Ok :=
      Tr.andThen_ok.mpr ⟨serLen_ok.mpr hl, hu.1⟩
    have h2 : (serLen vs.length ▹ Tr.emit (valBytes vs)).Ok :=
      Tr.andThen_ok.mpr ⟨serLen_ok.mpr hl, Tr.emit_ok _⟩
    have e1 : (serLen vs.length ▹ serMany (ser (.int .u8)) vs).status = .ok () := h1
    have e2 : (serLen vs.length ▹ Tr.emit (valBytes vs)).status = .ok () := h2
    rw [e1, e2, Tr.andThen_bytes (serLen_ok.mpr hl), Tr.andThen_bytes (serLen_ok.mpr hl), hu.2]
    simp
  · have hs : (serLen vs.length).status = .err eLenOverflow := by simp [serLen, hl, Tr.fail]
    simp [Tr.andThen, hs]

/-- the ring-buffer offset of a deque is invisible: any split into two slices encodes like the
contiguous one (in bytes and in refusals), via the specification function -/
theorem C03_deque_split (t : Ty) (a b : List Val)
    (ha : a.all (HasTy t) = true) (hb : b.all (HasTy t) = true) :
    (toVec (.seq .vecDeque t) (.deque a b)).toSpec =
      (toVec (.seq .vecDeque t) (.deque (a ++ b) [])).toSpec := by
  rw [C02_like a b, C02_like (a ++ b) []]
  · simp [Spec.enc]
  all_goals simp [HasTy, ha, hb, List.all_append]
where
  C02_like (x y : List Val) (h : HasTy (.seq .vecDeque t) (.deque x y) = true) :
      (toVec (.seq .vecDeque t) (.deque x y)).toSpec = Spec.enc (.seq .vecDeque t) (.deque x y) := by
    rw [toVec_toSpec]; exact refines_all _ _ h

/-- `Vec<T>`, `[T]`, `Box<[T]>`, `Cow<[T]>`, `Rc<[T]>` of the same elements encode identically -/
theorem C03_seq_kinds (k : SeqK) (t : Ty) (vs : List Val) (hz : memZero t = false)
    (hk : k.noFastPath = false) :
    toVec (.seq k t) (.list vs) = toVec (.seq .vec t) (.list vs) := by
  simp only [toVec, ser, hz, Bool.and_false, Bool.false_eq_true, if_false, hk]
  rfl

/-- non-vacuity: a hash set in two iteration orders, a deque in two rotations -/
example :
    ((toVec (.set .hashSet (.int .u16)) (.list [.int 9, .int 2, .int 300])).okBytes
        [3, 0, 0, 0, 2, 0, 9, 0, 44, 1] &&
     (toVec (.set .hashSet (.int .u16)) (.list [.int 300, .int 9, .int 2])).okBytes
        [3, 0, 0, 0, 2, 0, 9, 0, 44, 1] &&
     (toVec (.seq .vecDeque (.int .u8)) (.deque [.int 1] [.int 2, .int 3])).okBytes [3, 0, 0, 0, 1, 2, 3] &&
     (toVec (.seq .vecDeque (.int .u8)) (.deque [.int 1, .int 2, .int 3] [])).okBytes [3, 0, 0, 0, 1, 2, 3]) = true := by
  decide

/-- a hash set encodes the same whatever order its (pairwise distinct) elements are iterated
in: insertion history, capacity, hasher state are invisible on the wire -/
theorem C03_hashSet_order_irrelevant (t : Ty) (vs ws : List Val)
    (hd1 : distinctKeys id vs = true) (hd2 : distinctKeys id ws = true)
    (hm : ∀ x, x ∈ vs ↔ x ∈ ws) :
    ser (.set .hashSet t) (.list vs) = ser (.set .hashSet t) (.list ws) := by
  simp only [ser, sortByKey_perm_invariant id vs ws hd1 hd2 hm]

/-- the same for hash maps (entries with pairwise distinct keys) -/
theorem C03_hashMap_order_irrelevant (kt vt : Ty) (es fs : List Val)
    (hd1 : distinctKeys entryKey es = true) (hd2 : distinctKeys entryKey fs = true)
    (hm : ∀ x, x ∈ es ↔ x ∈ fs) :
    ser (.map .hashMap kt vt) (.list es) = ser (.map .hashMap kt vt) (.list fs) := by
  simp only [ser, sortByKey_perm_invariant entryKey es fs hd1 hd2 hm]

/-- a hash set and the ordered set with the same elements encode identically -/
theorem C03_hashSet_eq_btreeSet (t : Ty) (vs ws : List Val)
    (hd : distinctKeys id vs = true) (hs : strictlyAscending id ws = true)
    (hm : ∀ x, x ∈ vs ↔ x ∈ ws) :
    ser (.set .hashSet t) (.list vs) = ser (.set .btreeSet t) (.list ws) := by
  have : sortByKey id vs = ws :=
    sa_unique id _ _ (sortByKey_sa id vs hd) hs (fun x => by rw [mem_sortByKey]; exact hm x)
  simp only [ser, this]

/-- non-vacuity: two iteration orders of {1, 2, 3} -/
example :
    (distinctKeys id [.int 3, .int 1, .int 2] && distinctKeys id [.int 2, .int 3, .int 1] &&
     (toVec (.set .hashSet (.int .u8)) (.list [.int 3, .int 1, .int 2])).okBytes [3, 0, 0, 0, 1, 2, 3] &&
     (toVec (.set .hashSet (.int .u8)) (.list [.int 2, .int 3, .int 1])).okBytes [3, 0, 0, 0, 1, 2, 3]) = true := by
  decide

/-! ### the general statement -/

/-- **Canonical encoding, whole universe**: two representations of the same logical value
(`Eqv`: the members of every hash set and hash map in any iteration order, every deque in any
ring-buffer split, anything in skipped fields — at any nesting depth, under any wrappers) are
serialized to identical bytes, or refused for the same reason. -/
theorem C03_canonical (t : Ty) (v w : Val) (hv : HasTy t v = true) (hw : HasTy t w = true)
    (h : Eqv t v w) : (toVec t v).toSpec = (toVec t w).toSpec := by
  rw [C02_refines_spec t v hv, C02_refines_spec t w hw]
  exact eqv_enc t v w h

/-- … stated on the bytes -/
theorem C03_canonical_bytes (t : Ty) (v w : Val) (bs : Bytes) (hv : HasTy t v = true)
    (hw : HasTy t w = true) (h : Eqv t v w) (he : toVec t v = .ok bs) : toVec t w = .ok bs := by
  have := C03_canonical t v w hv hw h
  rw [he] at this
  cases hx : toVec t w with
  | ok bs' => rw [hx] at this; simp only [Out.toSpec] at this; cases this; rfl
  | err e =>
    rw [hx] at this; simp only [Out.toSpec] at this
    split at this <;> cases this
  | panic p => rw [hx] at this; simp only [Out.toSpec] at this; cases this

/-- the relation is inhabited exactly where the typing is: every well-typed representation is a
representation of its own logical value (so "repeated serialization gives the same bytes" is the
diagonal of `C03_canonical`, and the distinct-members side conditions are those of `HasTy`) -/
theorem C03_eqv_refl (t : Ty) (v : Val) (hv : HasTy t v = true) : Eqv t v v := eqv_refl t v hv

/-- non-vacuity: `HashMap<u8, (HashSet<u16>, VecDeque<u8>)>` — entries in two iteration orders, the
inner sets in two orders, the deques in two rotations -/
example :
    let t := Ty.map .hashMap (.int .u8) (Ty.tuple [.set .hashSet (.int .u16), .seq .vecDeque (.int .u8)])
    let v := Val.list [.list [.int 7, .list [.list [.int 300, .int 2], .deque [.int 1] [.int 2, .int 3]]],
                       .list [.int 1, .list [.list [.int 5], .deque [] []]]]
    let w := Val.list [.list [.int 1, .list [.list [.int 5], .deque [] []]],
                       .list [.int 7, .list [.list [.int 2, .int 300], .deque [.int 1, .int 2] [.int 3]]]]
    Eqv t v w ∧ HasTy t v = true ∧ HasTy t w = true ∧
      (toVec t v).okBytes [2, 0, 0, 0, 1, 1, 0, 0, 0, 5, 0, 0, 0, 0, 0, 7, 2, 0, 0, 0, 2, 0, 44, 1, 3, 0, 0, 0, 1, 2, 3] = true := by
  refine ⟨?_, by decide, by decide, by decide⟩
  refine ⟨[.list [.int 7, .list [.list [.int 2, .int 300], .deque [.int 1, .int 2] [.int 3]]],
           .list [.int 1, .list [.list [.int 5], .deque [] []]]], ?_, by decide, by decide, ?_⟩
  · simp only [All₂, entryRel, Ty.tuple, List.map, Eqv, EqvFields, SameMembers, List.cons_append,
      List.nil_append, and_true, true_and]
    refine ⟨⟨Or.inr ⟨by decide, by decide, ?_⟩, Or.inr trivial⟩, ⟨Or.inr ⟨by decide, by decide, ?_⟩, Or.inr trivial⟩⟩
    · intro x; simp [or_comm]
    · intro x; simp
  · intro x; simp [or_comm]

end Borsh
