/-
  C04 — The decoder accepts exactly the valid encodings (bijective in strict mode).
-/
import BorshModel.Theorems.C01
import BorshModel.Lemmas.Safe
import BorshModel.Lemmas.ReverseMain
import BorshModel.Lemmas.StrictLax
import BorshModel.Lemmas.StrictDev
namespace Borsh

/-- (⇐) every valid encoding is accepted and yields the value the specification assigns -/
theorem C04_valid_accepted_partial (st : Bool) (t : Ty) (v : Val) (bs : Bytes)
    (hp : keysOk t = true) (hw : WfTy t = true) (hv : HasTy t v = true) (he : toVec t v = .ok bs) :
    fromSlice st t bs = .ok (canon t v) :=
  C01_roundtrip_partial t hp hw st v bs hv he

/-- (⇒, stream form) strict mode: whatever `deserialize` accepts is the encoding of the
well-typed value it returns, followed by exactly the bytes it leaves.  `revTy` excludes index
collections (finding F6) and init hooks; sets, maps, deques, skipped fields are included. -/
theorem C04_deserialize_reencodes (t : Ty) (hr : revTy t = true) (hw : WfTy t = true)
    (bs rest : Bytes) (v : Val) (h : deserialize true t bs = .ok (v, rest)) :
    HasTy t v = true ∧ ∃ enc, toVec t v = .ok enc ∧ enc ++ rest = bs := by
  obtain ⟨ht, hok, hb⟩ := reverse_all t hr hw bs v rest h
  refine ⟨ht, (ser t v).bytes, ?_, hb⟩
  unfold toVec
  unfold Tr.Ok at hok
  simp [hok]

/-- (⇒) strict mode: **every accepted byte string re-serializes to exactly itself** -/
theorem C04_accepted_reencodes (t : Ty) (hr : revTy t = true) (hw : WfTy t = true)
    (bs : Bytes) (v : Val) (h : fromSlice true t bs = .ok v) :
    HasTy t v = true ∧ toVec t v = .ok bs := by
  unfold fromSlice at h
  obtain ⟨⟨w, rest⟩, h1, h2⟩ := Out.bind_eq_ok_iff.mp h
  dsimp only at h2
  split at h2
  · rename_i he
    simp only [Out.ok.injEq] at h2
    subst h2
    have hrest : rest = [] := by
      cases rest with
      | nil => rfl
      | cons a as => simp at he
    subst hrest
    obtain ⟨ht, enc, he1, he2⟩ := C04_deserialize_reencodes t hr hw bs [] w h1
    simp only [List.append_nil] at he2
    exact ⟨ht, by rw [he1, he2]⟩
  · simp at h2

/-- **A byte string is accepted (strict mode) iff it is the encoding of some value of the
type** — both directions, every `revTy ∧ keysOk` well-formed type. -/
theorem C04_accepts_iff_valid (t : Ty) (hr : revTy t = true) (hk : keysOk t = true)
    (hw : WfTy t = true) (bs : Bytes) :
    (∃ v, fromSlice true t bs = .ok v) ↔ (∃ v, HasTy t v = true ∧ toVec t v = .ok bs) := by
  constructor
  · rintro ⟨v, h⟩; exact ⟨v, C04_accepted_reencodes t hr hw bs v h⟩
  · rintro ⟨v, hv, he⟩; exact ⟨canon t v, C01_roundtrip_partial t hk hw true v bs hv he⟩

/-- **Strict-mode bijection**: `fromSlice` and `toVec` are mutually inverse between accepted
byte strings and canonical well-typed values. -/
theorem C04_strict_bijection (t : Ty) (hr : revTy t = true) (hk : keysOk t = true)
    (hw : WfTy t = true) (bs : Bytes) (v : Val) :
    fromSlice true t bs = .ok v ↔ (HasTy t v = true ∧ canon t v = v ∧ toVec t v = .ok bs) := by
  constructor
  · intro h
    obtain ⟨ht, he⟩ := C04_accepted_reencodes t hr hw bs v h
    have h' := C01_roundtrip_partial t hk hw true v bs ht he
    rw [h] at h'
    simp only [Out.ok.injEq] at h'
    exact ⟨ht, h'.symm, he⟩
  · rintro ⟨ht, hc, he⟩
    have := C01_roundtrip_partial t hk hw true v bs ht he
    rw [hc] at this; exact this

/-- two byte strings accepted with the same value are the same string (strict mode) -/
theorem C04_decode_injective (t : Ty) (hr : revTy t = true) (hw : WfTy t = true)
    (b1 b2 : Bytes) (v : Val) (h1 : fromSlice true t b1 = .ok v) (h2 : fromSlice true t b2 = .ok v) :
    b1 = b2 := by
  have e1 := (C04_accepted_reencodes t hr hw b1 v h1).2
  have e2 := (C04_accepted_reencodes t hr hw b2 v h2).2
  rw [e1] at e2
  simpa using e2

/-- non-vacuity: a type with a hash map, an ordered set, a deque, an option and a skipped field
meets all three hypotheses -/
example :
    let t := Ty.prod (.struct [83] false)
      [(some [97], false, .map .hashMap (.str .string) (.set .btreeSet (.int .u16))),
       (some [98], true, .int .u32),
       (some [99], false, .seq .vecDeque (Ty.sum .option [([78], 0, []), ([83], 1, [(none, false, .bool)])]))]
    (revTy t && keysOk t && WfTy t) = true := by
  decide +kernel

/-- whatever strict mode accepts, lax mode accepts with the same value: every type, sets and maps
included — so the lax mode only *adds* inputs -/
theorem C04_strict_accept_implies_lax (t : Ty) (bs : Bytes) (v : Val)
    (h : fromSlice true t bs = .ok v) : fromSlice false t bs = .ok v := by
  unfold fromSlice deserialize at h ⊢
  obtain ⟨r, h1, h2⟩ := Out.bind_eq_ok_iff.mp h
  rw [strict_sub_lax_all Rd.slice t bs r h1]
  exact h2

/-- … and the inputs it adds can only involve a hash/ordered set or map: on every type without
one the two modes are the same decoder (index collections have no order check in either mode) -/
theorem C04_mode_irrelevant_without_order (t : Ty) (h : noOrderCheck t = true) (bs : Bytes) :
    fromSlice false t bs = fromSlice true t bs := by
  unfold fromSlice deserialize
  rw [mode_irrelevant_all Rd.slice t h]

/-- **The only additional inputs the lax mode accepts are unsorted or repeated entries**: for
every type and every byte string, strict mode answers exactly as lax mode does, or it answers with
the key-order rejection — nothing else ever differs (values, other errors, leftover handling). -/
theorem C04_modes_differ_only_by_key_order (t : Ty) (bs : Bytes) :
    fromSlice true t bs = fromSlice false t bs ∨ fromSlice true t bs = .err eKeyOrder := by
  unfold fromSlice deserialize
  exact DevO.bind (strict_dev_all Rd.slice t bs) fun _ => DevO.refl _

/-- … read from the lax side: an input accepted without strict ordering is either accepted with
the same value under strict ordering, or rejected there *because of key order* -/
theorem C04_lax_extra_inputs (t : Ty) (bs : Bytes) (v : Val) (h : fromSlice false t bs = .ok v) :
    fromSlice true t bs = .ok v ∨ fromSlice true t bs = .err eKeyOrder := by
  rcases C04_modes_differ_only_by_key_order t bs with h' | h'
  · left; rw [h', h]
  · right; exact h'

/-- the same for any reader and for the streaming entry point -/
theorem C04_modes_differ_only_by_key_order_reader {σ : Type} (rd : Rd σ) (t : Ty) (s : σ) :
    deserializeReader rd true t s = deserializeReader rd false t s ∨
    deserializeReader rd true t s = .err eKeyOrder :=
  strict_dev_all rd t s

/-- a tag byte other than 0/1 is never accepted for `bool` -/
theorem C04_bool_tag (st : Bool) (b : UInt8) (rest : Bytes) (h0 : b ≠ 0) (h1 : b ≠ 1) :
    deserialize st .bool (b :: rest) = .err ⟨.invalidData, .badTag .bool b⟩ := by
  simp [deserialize, de, readU8_cons, h0, h1, eBadTag]

/-- an unknown tag byte is never accepted for a sum (Option, Result, IpAddr, derived enums …) -/
theorem C04_unknown_tag (st : Bool) (k : SumK) (vs : List Variant) (tag : UInt8) (rest : Bytes)
    (h : tag ∉ variantTags vs) :
    deserialize st (.sum k vs) (tag :: rest) = .err ⟨.invalidData, .badTag k.tagK tag⟩ := by
  have key : ∀ (vs : List Variant) (idx : Nat), tag ∉ variantTags vs →
      deVariants Rd.slice st k.tagK vs tag idx rest = .err (eBadTag k.tagK tag) := by
    intro vs
    induction vs with
    | nil => intro idx _; simp [deVariants]
    | cons x xs ih =>
      intro idx hx
      obtain ⟨n, g, fs⟩ := x
      simp only [variantTags, List.map_cons, List.mem_cons, not_or] at hx
      have hne : (UInt8.ofNat g == tag) = false := by
        have : ¬ tag = UInt8.ofNat g := hx.1
        simp; exact fun h => this h.symm
      simp only [deVariants, hne, Bool.false_eq_true, if_false]
      exact ih (idx + 1) hx.2
  simp [deserialize, de, readU8_cons, key vs 0 h, eBadTag]

/-- NaN bit patterns are never accepted -/
theorem C04_nan_rejected (st : Bool) (k : FloatK) (bs rest : Bytes) (hl : bs.length = k.width)
    (h : isNanBits k (ofLe bs) = true) :
    deserialize st (.float k) (bs ++ rest) = .err ⟨.invalidData, .nanDe⟩ := by
  simp [deserialize, de, readMapped_append' bs rest hl, h, eNanDe]

/-- zero is never accepted for a NonZero integer -/
theorem C04_zero_rejected (st : Bool) (k : IntK) (bs rest : Bytes) (hl : bs.length = k.width)
    (h : decInt k bs = 0) :
    deserialize st (.nonzero k) (bs ++ rest) = .err ⟨.invalidData, .zeroNonZero⟩ := by
  simp [deserialize, de, readMapped_append' bs rest hl, h, eZero]

/-- ill-formed UTF-8 is never accepted for a string -/
theorem C04_utf8_rejected (st : Bool) (k : StrK) (bs rest : Bytes) (hk : k.isAscii = false)
    (hl : bs.length < 2 ^ 32) (h : validUtf8 bs = false) :
    deserialize st (.str k) (u32le bs.length ++ bs ++ rest) = .err ⟨.invalidData, .utf8⟩ := by
  have := deByteVec_roundtrip bs rest hl
  rw [List.append_assoc] at this
  simp [deserialize, de, this, hk, h, eUtf8]

/-- with strict key ordering, a set whose entries are not strictly ascending is rejected … -/
theorem C04_strict_rejects_unsorted (k : SetK) (t : Ty) (bs : Bytes) (vs : List Val) (r : Bytes)
    (hz : memZero t = false)
    (hd : deVec Rd.slice t.isU8 (de Rd.slice true t) bs = .ok (vs, r))
    (hs : strictlyAscending id vs = false) :
    deserialize true (.set k t) bs = .err ⟨.invalidData, .keyOrder⟩ := by
  simp [deserialize, de, hz, hd, hs, eKeyOrder]

/-- … and without it the same bytes are accepted: the *only* effect of the mode on sets -/
theorem C04_lax_accepts_unsorted (k : SetK) (t : Ty) (bs : Bytes) (vs : List Val) (r : Bytes)
    (hz : memZero t = false)
    (hd : deVec Rd.slice t.isU8 (de Rd.slice false t) bs = .ok (vs, r)) :
    deserialize false (.set k t) bs = .ok (.list (collectSet vs), r) := by
  simp [deserialize, de, hz, hd]

/-- **Without strict ordering a set is read exactly as the sequence of its elements, then
collected**: same acceptance, same bytes consumed, same rest — for every element type, reader and
input.  So the only inputs accepted beyond the canonical ones are sequence encodings with unsorted
or repeated entries, and whatever follows them is left alone. -/
theorem C04_lax_set_is_collected_sequence {σ : Type} (rd : Rd σ) (k : SetK) (t : Ty) (s : σ) :
    de rd false (.set k t) s =
      (de rd false (.seq .vec t) s).bind fun r =>
        match r.1 with
        | .list vs => .ok (.list (collectSet vs), r.2)
        | v => .ok (v, r.2) := by
  simp only [de]
  cases hz : memZero t
  · simp only [Bool.false_eq_true, if_false, Bool.false_and]
    cases deVec rd t.isU8 (de rd false t) s with
    | ok r => simp [Out.bind, Out.map]
    | err e => simp [Out.bind, Out.map]
    | panic p => simp [Out.bind, Out.map]
  · simp [Out.bind]

/-- a map entry is read as the pair `(K, V)` -/
theorem deEntry_eq_tuple {σ : Type} (rd : Rd σ) (st : Bool) (a b : Ty) (s : σ) :
    deEntry (de rd st a) (de rd st b) s = de rd st (Ty.tuple [a, b]) s := by
  simp only [Ty.tuple, List.map, de, deFields, deEntry, ProdK.init, Bool.false_eq_true, if_false]
  cases de rd st a s with
  | ok x =>
    simp only [Out.bind, Out.map]
    cases de rd st b x.2 with
    | ok y => simp [Out.bind, Out.map]
    | err e => simp [Out.bind, Out.map]
    | panic p => simp [Out.bind, Out.map]
  | err e => simp [Out.bind, Out.map]
  | panic p => simp [Out.bind, Out.map]

/-- … and a hash or ordered map exactly as the sequence of its `(K, V)` pairs, then collected (the
last value of a repeated key wins) -/
theorem C04_lax_map_is_collected_sequence {σ : Type} (rd : Rd σ) (k : MapK) (a b : Ty) (s : σ)
    (hk : k ≠ .indexMap) (hz : memZero a = false) :
    de rd false (.map k a b) s =
      (deVec rd false (de rd false (Ty.tuple [a, b])) s).bind fun r =>
        .ok (.list (collectMap r.1), r.2) := by
  have he : deEntry (de rd false a) (de rd false b) = de rd false (Ty.tuple [a, b]) :=
    funext fun s => deEntry_eq_tuple rd false a b s
  cases k with
  | indexMap => exact absurd rfl hk
  | hashMap => simp only [de, hz, Bool.false_eq_true, if_false, he, Bool.false_and]
  | btreeMap => simp only [de, hz, Bool.false_eq_true, if_false, he, Bool.false_and]

/-- Finding F6, proved of the model and replayed on the real code: index collections have no
order or duplicate check in any mode, so in strict mode an accepted string need not re-encode
to itself. -/
theorem C04_indexSet_counterexample :
    ((fromSlice true (.seq .indexSet (.int .u8)) [2, 0, 0, 0, 5, 5]).okVal (.list [.int 5]) &&
     (toVec (.seq .indexSet (.int .u8)) (.list [.int 5])).okBytes [1, 0, 0, 0, 5]) = true := by
  decide

end Borsh
