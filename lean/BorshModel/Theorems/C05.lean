/-
  C05 — Encodings are self-delimiting: exact consumption, no trailing or truncated input.
-/
import BorshModel.Lemmas.DeExt
import BorshModel.Theorems.C01
namespace Borsh

/-- The decoder never looks ahead: a successful decode is stable under appending to the
input, for **every** type of the universe (sets, maps and index collections included) and
both key-order modes. -/
theorem C05_extension (st : Bool) (t : Ty) (p s r : Bytes) (v : Val)
    (h : deserialize st t p = .ok (v, r)) :
    deserialize st t (p ++ s) = .ok (v, r ++ s) :=
  de_ext_all t st p v r s h

/-- Exact consumption: one value is read from the front of a buffer and exactly its bytes
are consumed. -/
theorem C05_exact_consumption_partial (st : Bool) (t : Ty) (v : Val) (bs rest : Bytes)
    (hp : keysOk t = true) (hw : WfTy t = true) (hv : HasTy t v = true) (he : toVec t v = .ok bs) :
    deserialize st t (bs ++ rest) = .ok (canon t v, rest) :=
  C01_roundtrip_stream_partial st t v bs rest hp hw hv he

/-- Values written back to back are read back in order by successive decodes. -/
theorem C05_stream_partial (st : Bool) :
    ∀ (tvs : List (Ty × Val × Bytes)) (rest : Bytes),
      (∀ x ∈ tvs, keysOk x.1 = true ∧ WfTy x.1 = true ∧ HasTy x.1 x.2.1 = true ∧
        toVec x.1 x.2.1 = .ok x.2.2) →
      deserializeMany st (tvs.map (·.1)) ((tvs.map (·.2.2)).flatten ++ rest) =
        .ok (tvs.map (fun x => canon x.1 x.2.1), rest) := by
  intro tvs
  induction tvs with
  | nil => intro rest _; simp [deserializeMany]
  | cons x xs ih =>
    intro rest h
    obtain ⟨hp, hw, hv, he⟩ := h x (by simp)
    simp only [List.map_cons, List.flatten_cons, List.append_assoc, deserializeMany]
    rw [C01_roundtrip_stream_partial st x.1 x.2.1 x.2.2 _ hp hw hv he]
    simp only [Out.bind_ok]
    rw [ih rest (fun y hy => h y (by simp [hy]))]
    rfl

/-- Every whole-input entry point rejects bytes left over after the value. -/
theorem C05_trailing_rejected_partial (st : Bool) (t : Ty) (v : Val) (bs x : Bytes)
    (hp : keysOk t = true) (hw : WfTy t = true) (hv : HasTy t v = true) (he : toVec t v = .ok bs)
    (hx : x ≠ []) :
    fromSlice st t (bs ++ x) = .err eNotAllBytesRead := by
  unfold fromSlice
  rw [C01_roundtrip_stream_partial st t v bs x hp hw hv he]
  cases x with
  | nil => exact absurd rfl hx
  | cons a as => simp

/-- Every proper prefix of a valid encoding is rejected (by `deserialize`, hence by every
entry point built on it).  Needs no bijectivity: it follows from extension + exact consumption. -/
theorem C05_prefix_rejected_partial (st : Bool) (t : Ty) (v : Val) (p q : Bytes)
    (hp : keysOk t = true) (hw : WfTy t = true) (hv : HasTy t v = true)
    (he : toVec t v = .ok (p ++ q)) (hq : q ≠ []) :
    (deserialize st t p).isOk = false := by
  cases h : deserialize st t p with
  | err e => rfl
  | panic s => rfl
  | ok r =>
    obtain ⟨v', r'⟩ := r
    have h1 := C05_extension st t p q r' v' h
    have h2 := C01_roundtrip_stream_partial st t v (p ++ q) [] hp hw hv he
    simp only [List.append_nil] at h2
    rw [h2] at h1
    simp only [Out.ok.injEq, Prod.mk.injEq] at h1
    have : q = [] := by
      have := h1.2
      exact (List.append_eq_nil_iff.mp this.symm).2
    exact absurd this hq

/-- non-vacuity of the extension theorem on a set type under strict order -/
example :
    (deserialize true (.set .btreeSet (.int .u8)) [2, 0, 0, 0, 3, 9]).okValRest (.list [.int 3, .int 9]) []
      && (deserialize true (.set .btreeSet (.int .u8)) ([2, 0, 0, 0, 3, 9] ++ [7, 7])).okValRest
        (.list [.int 3, .int 9]) [7, 7] = true := by
  decide

end Borsh
