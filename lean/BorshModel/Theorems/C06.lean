/-
  C06 — Derived impls implement the documented semantics for every item shape.
-/
import BorshModel.Derive
import BorshModel.Theorems.C04
import BorshModel.Lemmas.SpecRefineMain
namespace Borsh
open Derive

/-- without `use_discriminant = true` variants are tagged by ordinal, whatever explicit
discriminants the enum carries -/
theorem C06_tags_ordinal (ds : List (Option Int)) : tagsOf false ds = List.range ds.length := by
  simp [tagsOf]

/-- with `use_discriminant = true` they are tagged by the discriminant the compiler assigns:
the explicit one, else the previous one plus one, starting at 0 -/
theorem C06_tags_explicit (ds : List (Option Int)) :
    tagsOf true ds = (discriminants ds 0).map Int.toNat := by
  simp [tagsOf]

theorem C06_discriminant_rule_explicit (d : Int) (rest : List (Option Int)) (next : Int) :
    discriminants (some d :: rest) next = d :: discriminants rest (d + 1) := rfl

theorem C06_discriminant_rule_implicit (rest : List (Option Int)) (next : Int) :
    discriminants (none :: rest) next = next :: discriminants rest (next + 1) := rfl

theorem discriminants_length (ds : List (Option Int)) (n : Int) :
    (discriminants ds n).length = ds.length := by
  induction ds generalizing n with
  | nil => rfl
  | cons d rest ih => cases d <;> simp [discriminants, ih]

/-- one tag per variant, in either mode -/
theorem C06_one_tag_per_variant (use : Bool) (ds : List (Option Int)) :
    (tagsOf use ds).length = ds.length := by
  cases use <;> simp [tagsOf, discriminants_length]

/-- ordinal tags of an enum with at most 256 variants are pairwise distinct *as bytes*, so the
if-chain of `deserialize_variant` finds exactly the variant that was written -/
theorem C06_ordinal_tags_distinct (n : Nat) (h : n ≤ 256) :
    ((List.range n).map UInt8.ofNat).Nodup := by
  induction n with
  | zero => simp
  | succ n ih =>
    rw [List.range_succ, List.map_append, List.nodup_append]
    refine ⟨ih (by omega), by simp, ?_⟩
    intro a ha b hb hab
    simp only [List.mem_map, List.mem_range] at ha
    obtain ⟨x, hx, hxa⟩ := ha
    simp only [List.map_cons, List.map_nil, List.mem_singleton] at hb
    subst hb hxa
    have h1 : (UInt8.ofNat x).toNat = x := by simp only [UInt8.toNat_ofNat']; omega
    have h2 : (UInt8.ofNat n).toNat = n := by simp only [UInt8.toNat_ofNat']; omega
    have := congrArg UInt8.toNat hab
    rw [h1, h2] at this
    omega

/-- non-skipped fields are encoded in declaration order, skipped fields not at all: the derived
struct serializer equals the specification's field walk -/
theorem C06_fields_in_order (fs : List Field) (vs : List Val) (hv : HasTyFields fs vs = true) :
    (serFields fs vs).toSpec = Spec.encFields fs vs := by
  have := refines_all (.prod .tuple fs) (.list vs) (by simpa [HasTy] using hv)
  simpa [ser, Spec.enc] using this

theorem C06_skipped_field_not_encoded (n : Option Name) (t : Ty) (fs : List Field) (v : Val) (vs : List Val) :
    serFields ((n, true, t) :: fs) (v :: vs) = serFields fs vs := by
  simp [serFields]

/-- a skipped field is restored with `Default::default()` wherever it stands, and reading it
consumes nothing, over any reader -/
theorem C06_skip_default {σ : Type} (rd : Rd σ) (st : Bool) (n : Option Name) (t : Ty)
    (fs : List Field) (s : σ) :
    deFields rd st ((n, true, t) :: fs) s =
      (deFields rd st fs s).map fun r => (defaultOf t :: r.1, r.2) := by
  simp [deFields]

/-- decoding the whole enum is: read one tag byte, then decode the variant from that tag
(`EnumExt::deserialize_variant`) -/
theorem C06_variant_agrees {σ : Type} (rd : Rd σ) (st : Bool) (k : SumK) (vs : List Variant) (s : σ) :
    de rd st (.sum k vs) s =
      (readU8 rd s).bind fun r =>
        (deVariants rd st k.tagK vs r.1 0 r.2).map fun q => (initVariant k.init q.1, q.2) := by
  simp [de]

/-- an unknown tag is an InvalidData error -/
theorem C06_unknown_tag (st : Bool) (k : SumK) (vs : List Variant) (tag : UInt8) (rest : Bytes)
    (h : tag ∉ variantTags vs) :
    deserialize st (.sum k vs) (tag :: rest) = .err ⟨.invalidData, .badTag k.tagK tag⟩ :=
  C04_unknown_tag st k vs tag rest h

/-- the init hook runs exactly once, after all fields have been decoded -/
theorem C06_init_once {σ : Type} (rd : Rd σ) (st : Bool) (name : Name) (fs : List Field) (s : σ) :
    de rd st (.prod (.struct name true) fs) s =
      (deFields rd st fs s).map fun r => (.list (applyInit r.1), r.2) := by
  simp [de, ProdK.init]

theorem C06_init_increments_once (vs : List Val) (i : Int) :
    applyInit (vs ++ [.int i]) = vs ++ [.int (i + 1)] := by
  induction vs with
  | nil => rfl
  | cons v vs ih =>
    cases vs with
    | nil => simp [applyInit]
    | cons w ws => simp only [List.cons_append] at ih ⊢; simp [applyInit, ih]

/-- every derived item whose keyed collections have key types round-trips (C01 applies to it) -/
theorem C06_roundtrip_partial (st : Bool) (k : ProdK) (fs : List Field) (v : Val) (bs : Bytes)
    (hp : keysOkFields fs = true) (hw : WfFields fs = true) (hv : HasTy (.prod k fs) v = true)
    (he : toVec (.prod k fs) v = .ok bs) :
    fromSlice st (.prod k fs) bs = .ok (canon (.prod k fs) v) :=
  C01_roundtrip_partial (.prod k fs) (by simpa [keysOk] using hp) (by simpa [WfTy] using hw) st v bs hv he

/-- non-vacuity: an enum with a discriminant following an implicit one -/
example :
    tagsOf true [some 3, none, some 10, none] = [3, 4, 10, 11] ∧
    tagsOf false [some 3, none, some 10, none] = [0, 1, 2, 3] := by
  decide

end Borsh
