/-
  C07 — Decoding untrusted bytes is safe: no panic, bounded memory and work.
-/
import BorshModel.Lemmas.Safe
import BorshModel.Lemmas.ConsumeMain
import BorshModel.Cost
import BorshModel.Lemmas.WorkMain
namespace Borsh

/-- **Totality.** For every type of the universe and every byte string, decoding from a slice
returns `Ok` or `Err`: the model has no reachable panic site (slice indexing, `unwrap`,
`unreachable!`, loop fuel). -/
theorem C07_no_panic (st : Bool) (t : Ty) (bs : Bytes) : (deserialize st t bs).isPanic = false := by
  have := de_safe_all t st bs
  unfold deserialize
  cases h : de Rd.slice st t bs with
  | ok r => rfl
  | err e => rfl
  | panic p => rw [h] at this; exact this.elim

theorem C07_no_panic_from_slice (st : Bool) (t : Ty) (bs : Bytes) : (fromSlice st t bs).isPanic = false := by
  have := C07_no_panic st t bs
  unfold fromSlice
  cases h : deserialize st t bs with
  | ok r => simp only [Out.bind_ok]; split <;> rfl
  | err e => rfl
  | panic p => rw [h] at this; simp [Out.isPanic] at this

/-- a successful decode consumes a prefix of its input, at least `minWire t` bytes long -/
theorem C07_consumes (st : Bool) (t : Ty) (bs rest : Bytes) (v : Val)
    (h : deserialize st t bs = .ok (v, rest)) :
    ∃ c, bs = c ++ rest ∧ minWire t ≤ c.length :=
  de_cons_all t st bs v rest h

/-- **Work bound.** If the elements of a sequence occupy at least one byte on the wire, the
number of elements a `Vec<T>` decode produces is bounded by the input length (minus the four
bytes of the prefix): a length prefix cannot make the decoder do more element decodes than
there are input bytes. -/
theorem C07_work_bound (st : Bool) (t : Ty) (bs rest : Bytes) (vs : List Val)
    (hm : 1 ≤ minWire t) (hu : t.isU8 = true → minWire t = 1)
    (h : deVec Rd.slice t.isU8 (de Rd.slice st t) bs = .ok (vs, rest)) :
    4 + vs.length ≤ bs.length := by
  obtain ⟨c, e, l⟩ := deVec_cons t.isU8 (de_cons_all t st) hu bs vs rest h
  have hl : bs.length = c.length + rest.length := by rw [e]; simp
  have : vs.length ≤ vs.length * minWire t := Nat.le_mul_of_pos_right _ hm
  simp only at l
  omega

/-- **A length prefix alone never causes a proportional allocation** (byte vectors, strings):
every buffer request is at most 1 MiB or twice the bytes actually present in the input. -/
theorem C07_bulk_alloc (len avail : Nat) :
    ∀ c ∈ bulkRequests len avail, c ≤ max (2 ^ 20) (2 * avail) :=
  bulkRequests_bound len avail

/-- the `Vec<T>` capacity hint requests at most 4096 bytes (or one element), whatever the
claimed length -/
theorem C07_capacity_hint (elSize hint n : Nat) (h : cautious elSize hint = .ok n) (hs : elSize < 2 ^ 32) :
    1 ≤ n ∧ n * elSize ≤ max 4096 elSize :=
  cautious_bound elSize hint n h hs

/-- non-vacuity: 0xFFFFFFFF as the length of a byte vector with 3 bytes of payload: refused,
and the only allocation the loop makes is the 1 MiB initial buffer -/
example :
    (fromSlice false (.seq .vec (.int .u8)) [255, 255, 255, 255, 1, 2, 3]).errIs ⟨.invalidData, .unexpectedLength⟩ = true ∧
    bulkRequests (2 ^ 32 - 1) 3 = [2 ^ 20] := by
  constructor
  · decide +kernel
  · decide +kernel

/-- **Composed bound, whole universe**: for every type all of whose collection elements occupy at
least one byte on the wire (`occ`: the property's hypothesis, at every nesting level), every byte
string and both key-order modes, the decoded value — every element of every nested collection, every
byte of every string — has at most `costA t + costB t · (bytes consumed)` nodes, where the two
constants depend on the type only.  So the number of elements decoded, and the memory the result
retains, are linear in the input length: a length prefix alone buys nothing. -/
theorem C07_value_size_bound (st : Bool) (t : Ty) (bs rest : Bytes) (v : Val) (ho : occ t = true)
    (h : deserialize st t bs = .ok (v, rest)) :
    rest.length ≤ bs.length ∧ v.nodes ≤ costA t + costB t * (bs.length - rest.length) :=
  work_all t ho st bs v rest h

/-- … in terms of the whole input -/
theorem C07_value_size_linear (st : Bool) (t : Ty) (bs rest : Bytes) (v : Val) (ho : occ t = true)
    (h : deserialize st t bs = .ok (v, rest)) : v.nodes ≤ costA t + costB t * bs.length := by
  obtain ⟨_, w⟩ := C07_value_size_bound st t bs rest v ho h
  exact Nat.le_trans w (Nat.add_le_add_left (Nat.mul_le_mul_left _ (Nat.sub_le _ _)) _)

/-- non-vacuity: `Vec<(String, Option<BTreeMap<u8, Vec<u16>>>)>` meets the hypothesis, with constants
1 and 9; `Vec<()>`-like element types do not -/
example :
    let t := Ty.seq .vec (Ty.tuple [.str .string,
      Ty.option (.map .btreeMap (.int .u8) (.seq .vec (.int .u16)))])
    (occ t = true ∧ costA t = 1 ∧ costB t = 9) ∧ occ (.seq .vec (Ty.tuple [])) = false := by
  decide +kernel

end Borsh
