/-
  C08 — A type's schema is a correct, self-contained description of its wire format.
-/
import BorshModel.SchemaOf
import BorshModel.Lemmas.Describes
import BorshModel.Lemmas.SchemaBound
import BorshModel.Lemmas.SchemaCoherentMain
import BorshModel.Theorems.C01
namespace Borsh

/-- primitive widths in the schema equal the encoder's widths, for every integer kind -/
theorem C08_int_widths (k : IntK) :
    addDefs (.int k) [] = .ok [(declOf (.int k), .primitive k.width)] := by
  cases k <;> rfl

theorem C08_float_widths (k : FloatK) :
    addDefs (.float k) [] = .ok [(declOf (.float k), .primitive k.width)] := by
  cases k <;> rfl

/-- the encoder writes exactly `width` bytes for an integer: schema size = wire size -/
theorem C08_int_size_matches_encoder (k : IntK) (i : Int) :
    (toVec (.int k) (.int i)).okBytes (encInt k i) = true ∧ (encInt k i).length = k.width := by
  constructor
  · simp [toVec, ser, Tr.emit, Tr.bytes, Out.okBytes]
  · simp [encInt]

/-- dynamically sized sequences are described with a 4-byte length and the full `u32` range,
fixed arrays with width 0 and the single length `n` — mirroring the encoder -/
theorem C08_seq_definition (k : SeqK) (t : Ty) (m : Defs) :
    addDefs (.seq k t) m =
      (insertDef (declOf (.seq k t)) (.sequence 4 0 (2 ^ 32 - 1) (declOf t)) m).bind (addDefs t) := by
  simp [addDefs, defaultSeq]

theorem C08_array_definition (n : Nat) (t : Ty) (m : Defs) :
    addDefs (.array n t) m =
      (insertDef (declOf (.array n t)) (.sequence 0 n n (declOf t)) m).bind (addDefs t) := by
  simp [addDefs]

/-- a derived struct lists its non-skipped fields only, in declaration order, with their names -/
theorem C08_struct_fields_skip :
    schemaFields [(some [97], false, .int .u8), (some [98], true, .int .u16), (some [99], false, .bool)] =
      .named [([97], [117, 56]), ([99], [98, 111, 111, 108])] := by
  decide +kernel

/-- the container of a nested type defines every declaration it references and passes its own
validation (closedness is evaluated here on concrete nestings; the differential `schema` lines tie
`schemaOf` to the real `for_type` on every catalogue type) -/
theorem C08_closed_examples :
    let ts : List Ty := [.seq .vec (.map .btreeMap (.int .u8) (.seq .vec (.str .string))),
      Ty.sum .option [([78], 0, []), ([83], 1, [(none, false, .array 3 (.int .u16))])],
      .prod (.struct [83] false) [(some [97], false, .seq .vec (.int .u8)), (some [98], true, .int .u64)],
      .sum (.derived [69] false) [([65], 0, []), ([66], 3, [(none, false, .int .u8), (none, false, .str .string)])]]
    ts.all (fun t =>
      match schemaOf t with
      | .ok c =>
        c.validate == .ok () &&
        c.defs.all (fun e => match e.2 with
          | .sequence _ _ _ el => (c.get el).isSome
          | .tuple es => es.all fun n => (c.get n).isSome
          | .enum _ vs => vs.all fun v => (c.get v.2.2).isSome
          | .struct fs => fs.decls.all fun n => (c.get n).isSome
          | .primitive _ => true)
      | _ => false) = true := by
  decide +kernel

/-- Finding F8 (known finding, replayed on the real code by the `samename` workload): two distinct
derived types named `S`, each with one field of a type named `X`, where the two `X` differ
(`u8` vs `u16`).  The derive skips the fields of a declaration that is already present, so the
nested conflict is never compared: no panic, the container defines `X` as the first one, its
maximum is 2 bytes, and a value of the pair encodes to 3 bytes. -/
theorem C08_F8_same_name_witness :
    let xa := Ty.prod (.struct [88] false) [(none, false, .int .u8)]
    let xb := Ty.prod (.struct [88] false) [(none, false, .int .u16)]
    let sa := Ty.prod (.struct [83] false) [(some [102], false, xa)]
    let sb := Ty.prod (.struct [83] false) [(some [102], false, xb)]
    let t := Ty.tuple [sa, sb]
    let v := Val.list [.list [.list [.int 1]], .list [.list [.int 2]]]
    ((match schemaOf t with
      | .ok c => c.get [88] == some (.struct (.unnamed [[117, 56]])) &&
                 c.validate == .ok () && c.maxSerializedSize == .ok 2
      | _ => false) &&
     HasTy t v && (toVec t v).okBytes [1, 2, 0] &&
     -- a direct conflict is detected, as documented
     (match schemaOf (Ty.tuple [xa, xb]) with
      | .panic .assertRedefinition => true
      | _ => false)) = true := by
  decide +kernel

/-- **The schema alone describes the wire format**: if every declaration the type refers to is
bound in the container the way the schema impls and the derive intend (`Bnd`), then a reader that
knows only the container parses the encoding of *every* value of the type exactly to its end — same
field order, same tags, same counts and widths.  Every shape that has a schema: built-ins, derived
structs and enums with skipped fields and explicit discriminants, `IpAddr`. -/
theorem C08_describes_of_bound (c : Container) (t : Ty) (hs : shapeOk t = true) (hw : WfTy t = true)
    (hb : Bnd c t) (hd : c.decl = declOf t) (v : Val) (bs : Bytes)
    (hv : HasTy t v = true) (he : toVec t v = .ok bs) : c.describes bs := by
  obtain ⟨f, hf⟩ := describes_all c t hs hw hb
  obtain ⟨hok, hbs⟩ := toVec_ok he
  refine ⟨f, ?_⟩
  have := hf f (Nat.le_refl f) v [] hv hok
  rw [hd, ← hbs]
  simpa using this

/-- the container `for_type` builds binds every declaration as intended, for every composition of
the built-in impls (no derive "already present" shortcut on the way — see finding F8 for what that
shortcut can hide) -/
theorem C08_builtin_bound (t : Ty) (hg : guardFree t = true) (c : Container)
    (h : schemaOf t = .ok c) : Bnd c t ∧ c.decl = declOf t := by
  unfold schemaOf at h
  obtain ⟨m, h1, h2⟩ := Res.bind_eq_ok h
  cases h2
  obtain ⟨_, _, hb⟩ := adds_all t hg [] m List.Pairwise.nil h1
  exact ⟨hb _, rfl⟩

/-- **C08 for the built-in compositions**, end to end: the container generated for the type
parses every encoding of every value of the type exactly -/
theorem C08_builtin_describes (t : Ty) (hg : guardFree t = true) (hs : shapeOk t = true)
    (hw : WfTy t = true) (c : Container) (h : schemaOf t = .ok c) (v : Val) (bs : Bytes)
    (hv : HasTy t v = true) (he : toVec t v = .ok bs) : c.describes bs := by
  obtain ⟨hb, hd⟩ := C08_builtin_bound t hg c h
  exact C08_describes_of_bound c t hs hw hb hd v bs hv he

/-- non-vacuity: `HashMap<String, Vec<Option<(u8, [u16; 2])>>>` meets the hypotheses -/
example :
    let t := Ty.map .hashMap (.str .string)
      (.seq .vec (Ty.option (Ty.tuple [.int .u8, .array 2 (.int .u16)])))
    (guardFree t && shapeOk t && WfTy t && (match schemaOf t with | .ok _ => true | _ => false)) = true := by
  decide +kernel

/-- **`for_type` binds every declaration as intended for every name-coherent type** — derived structs
and enums (the derive's "declaration already present" shortcut included), `Ipv4Addr`-style built-ins,
ranges, any nesting and any reuse of the same user type.  `Coherent` excludes exactly what the
crate documents as unsupported: two *different* user types under one name. -/
theorem C08_coherent_bound (t : Ty) (hc : coherentB t = true) (c : Container)
    (h : schemaOf t = .ok c) : Bnd c t ∧ c.decl = declOf t :=
  schemaOf_bnd t c (coherentB_sound t hc) h

/-- **C08, end to end, for the whole universe**: for every name-coherent type that has a schema, a
reader that knows nothing but the generated container parses the encoding of every value of the type
exactly to its end. -/
theorem C08_describes (t : Ty) (hc : coherentB t = true) (hs : shapeOk t = true)
    (hw : WfTy t = true) (c : Container) (h : schemaOf t = .ok c) (v : Val) (bs : Bytes)
    (hv : HasTy t v = true) (he : toVec t v = .ok bs) : c.describes bs := by
  obtain ⟨hb, hd⟩ := C08_coherent_bound t hc c h
  exact C08_describes_of_bound c t hs hw hb hd v bs hv he

/-- the type of finding F8 is not name-coherent (two different `X`), which is why the theorem does
not apply to it; the pair of the *same* struct twice, a derived enum with a skipped field and an
explicit discriminant, and `Vec<(Ipv4Addr, Range<u8>)>` are -/
example :
    let xa := Ty.prod (.struct [88] false) [(none, false, .int .u8)]
    let xb := Ty.prod (.struct [88] false) [(none, false, .int .u16)]
    let sa := Ty.prod (.struct [83] false) [(some [102], false, xa)]
    let sb := Ty.prod (.struct [83] false) [(some [102], false, xb)]
    let e := Ty.sum (.derived [69] false)
      [([65], 0, []), ([66], 7, [(some [97], false, sa), (some [98], true, .int .u64), (some [99], false, xa)])]
    let r := Ty.seq .vec (Ty.tuple [.raw .ipv4, .prod .range [(none, false, .int .u8), (none, false, .int .u8)]])
    (coherentB (Ty.tuple [sa, sb]) == false && coherentB (Ty.tuple [sa, sa]) &&
     coherentB (Ty.tuple [e, .seq .vec sa, e]) && shapeOk e && WfTy e && coherentB r &&
     (match schemaOf (Ty.tuple [e, .seq .vec sa, e]) with | .ok _ => true | _ => false)) = true := by
  decide +kernel

end Borsh
