/-
  C08 — A type's schema is a correct, self-contained description of its wire format.
-/
import BorshModel.SchemaOf
namespace Borsh

/-- primitive widths in the schema equal the encoder's widths, for every integer kind -/
theorem C08_int_widths (k : IntK) :
    addDefs (.int k) [] = .ok [(declOf (.int k), .primitive k.width)] := by
  cases k <;> rfl

theorem C08_float_widths (k : FloatK) :
    addDefs (.float k) [] = .ok [(declOf (.float k), .primitive k.width)] := by
  cases k <;> rfl

/-- the encoder writes exactly `width` bytes for an integer: schema size = wire size -/
theorem C08_int_size_matches_encoder (k : IntK) (i : Int) :
    (toVec (.int k) (.int i)).okBytes (encInt k i) = true ∧ (encInt k i).length = k.width := by
  constructor
  · simp [toVec, ser, Tr.emit, Tr.bytes, Out.okBytes]
  · simp [encInt]

/-- dynamically sized sequences are described with a 4-byte length and the full `u32` range,
fixed arrays with width 0 and the single length `n` — mirroring the encoder -/
theorem C08_seq_definition (k : SeqK) (t : Ty) (m : Defs) :
    addDefs (.seq k t) m =
      (insertDef (declOf (.seq k t)) (.sequence 4 0 (2 ^ 32 - 1) (declOf t)) m).bind (addDefs t) := by
  simp [addDefs, defaultSeq]

theorem C08_array_definition (n : Nat) (t : Ty) (m : Defs) :
    addDefs (.array n t) m =
      (insertDef (declOf (.array n t)) (.sequence 0 n n (declOf t)) m).bind (addDefs t) := by
  simp [addDefs]

/-- a derived struct lists its non-skipped fields only, in declaration order, with their names -/
theorem C08_struct_fields_skip :
    schemaFields [(some [97], false, .int .u8), (some [98], true, .int .u16), (some [99], false, .bool)] =
      .named [([97], [117, 56]), ([99], [98, 111, 111, 108])] := by
  decide +kernel

/-- the container of a nested type defines every declaration it references and passes its own
validation (closedness is evaluated here on concrete nestings; the differential `schema` lines tie
`schemaOf` to the real `for_type` on every catalogue type) -/
theorem C08_closed_examples :
    let ts : List Ty := [.seq .vec (.map .btreeMap (.int .u8) (.seq .vec (.str .string))),
      Ty.sum .option [([78], 0, []), ([83], 1, [(none, false, .array 3 (.int .u16))])],
      .prod (.struct [83] false) [(some [97], false, .seq .vec (.int .u8)), (some [98], true, .int .u64)],
      .sum (.derived [69] false) [([65], 0, []), ([66], 3, [(none, false, .int .u8), (none, false, .str .string)])]]
    ts.all (fun t =>
      match schemaOf t with
      | .ok c =>
        c.validate == .ok () &&
        c.defs.all (fun e => match e.2 with
          | .sequence _ _ _ el => (c.get el).isSome
          | .tuple es => es.all fun n => (c.get n).isSome
          | .enum _ vs => vs.all fun v => (c.get v.2.2).isSome
          | .struct fs => fs.decls.all fun n => (c.get n).isSome
          | .primitive _ => true)
      | _ => false) = true := by
  decide +kernel

/-- Finding F8 (known finding, replayed on the real code by the `samename` workload): two distinct
derived types named `S`, each with one field of a type named `X`, where the two `X` differ
(`u8` vs `u16`).  The derive skips the fields of a declaration that is already present, so the
nested conflict is never compared: no panic, the container defines `X` as the first one, its
maximum is 2 bytes, and a value of the pair encodes to 3 bytes. -/
theorem C08_F8_same_name_witness :
    let xa := Ty.prod (.struct [88] false) [(none, false, .int .u8)]
    let xb := Ty.prod (.struct [88] false) [(none, false, .int .u16)]
    let sa := Ty.prod (.struct [83] false) [(some [102], false, xa)]
    let sb := Ty.prod (.struct [83] false) [(some [102], false, xb)]
    let t := Ty.tuple [sa, sb]
    let v := Val.list [.list [.list [.int 1]], .list [.list [.int 2]]]
    ((match schemaOf t with
      | .ok c => c.get [88] == some (.struct (.unnamed [[117, 56]])) &&
                 c.validate == .ok () && c.maxSerializedSize == .ok 2
      | _ => false) &&
     HasTy t v && (toVec t v).okBytes [1, 2, 0] &&
     -- a direct conflict is detected, as documented
     (match schemaOf (Ty.tuple [xa, xb]) with
      | .panic .assertRedefinition => true
      | _ => false)) = true := by
  decide +kernel

end Borsh
