/-
  C09 — max_serialized_size is a sound and exact upper bound.
-/
import BorshModel.Lemmas.MaxSize
import BorshModel.Lemmas.Totality
import BorshModel.Lemmas.MaxSound
import BorshModel.Lemmas.MaxTight
import BorshModel.Lemmas.Describes
import BorshModel.Lemmas.SchemaCoherentMain
import BorshModel.Theorems.C01
namespace Borsh

/-- Exactness: whenever a maximum is reported for a container it *is* the true maximum the
schema implies (sum over fields, largest variant plus tag, largest count times element size plus
length prefix, at every nesting level), for every container — cycles, dangling names and
hostile widths included. -/
theorem C09_exact_when_ok (c : Container) (n : Nat) (h : c.maxSerializedSize = .ok n) :
    c.specMax = .fin n := by
  obtain ⟨m, hm, hn⟩ := maxSize_exact c _ 1 c.decl [] n h
  simp at hn
  rw [Container.specMax, hm, hn]

/-- … and it fits the address space -/
theorem C09_ok_fits (c : Container) (fuel count : Nat) (d : Name) (path : List Name) (n : Nat)
    (h : maxSize c fuel count d path = .ok n) (hc : 0 < count) :
    ∃ m, specMax c fuel d path = .fin m ∧ n = count * m ∧ m ≤ n := by
  obtain ⟨m, hm, hn⟩ := maxSize_exact c fuel count d path n h
  refine ⟨m, hm, hn, ?_⟩
  rw [hn]; exact Nat.le_mul_of_pos_left m hc

/-- the count multiplier is applied at every level (arrays of arrays of …) -/
theorem C09_count_scales (c : Container) (fuel count : Nat) (d : Name) (path : List Name) (n₁ n : Nat)
    (h1 : maxSize c fuel 1 d path = .ok n₁) (h : maxSize c fuel count d path = .ok n) :
    n = count * n₁ := by
  obtain ⟨m, hm, hn⟩ := maxSize_exact c fuel count d path n h
  obtain ⟨m₁, hm₁, hn₁⟩ := maxSize_exact c fuel 1 d path n₁ h1
  rw [hm] at hm₁
  simp at hm₁ hn₁
  rw [hn, hn₁, hm₁]

/-- the only panic site of the analysis is fuel exhaustion (no arithmetic panics: every
addition and multiplication is checked) -/
theorem C09_checked_arith (x y : Nat) :
    (cAdd x y = .ok (x + y) ∨ cAdd x y = .error .overflow) ∧
    (cMul x y = .ok (x * y) ∨ cMul x y = .error .overflow) := by
  unfold cAdd cMul
  constructor <;> split <;> simp

/-- Regression witness of finding F1 (repaired): `[Option<u8>; 10]` — an array of an enum — has
maximum 20, not 2. -/
theorem C09_F1_array_of_enum :
    (Container.maxSerializedSize ⟨[65],
      [([40, 41], .primitive 0), ([65], .sequence 0 10 10 [66]),
       ([66], .enum 1 [(0, [78], [40, 41]), (1, [83], [117])]), ([117], .primitive 1)]⟩) = .ok 20 := by
  decide

/-- non-vacuity: overflow, recursion and a dangling name are each reported -/
example :
    (Container.maxSerializedSize ⟨[65], [([65], .sequence 8 0 (2 ^ 64 - 1) [117]), ([117], .primitive 2)]⟩
        = .error .overflow) ∧
    (Container.maxSerializedSize ⟨[65], [([65], .tuple [[65]])]⟩ = .error .recursive) ∧
    (Container.maxSerializedSize ⟨[65], [([65], .tuple [[66]])]⟩ = .error (.missing [66])) := by
  decide +kernel

/-- **The computation never panics and never diverges**: on every container — cycles, dangling
names, hostile widths — `max_serialized_size` returns a bound or one of its three errors.  (The
model's only panic is fuel exhaustion; the stack of declarations is duplicate-free and made of
defined names, so `|definitions| + 1` levels always suffice.) -/
theorem C09_never_panics (c : Container) : c.maxSerializedSize.isPanic = false :=
  maxSize_noPanic c (c.defs.length + 1) 1 c.decl [] (pathOk_nil c) (by simp)

/-- Completeness: whenever the true maximum the schema implies is finite and fits the address
space, it is reported — no spurious Overflow, Recursion or MissingDefinition error. -/
theorem C09_complete (c : Container) (n : Nat) (h : c.specMax = .fin n) (hn : n < usizeLimit) :
    c.maxSerializedSize = .ok n := by
  have := maxSize_complete c _ 1 c.decl [] n h (by decide) (by simpa using hn)
  simpa [Container.maxSerializedSize] using this

/-- **Exact characterisation**: a bound is reported iff the true maximum is finite and fits the
address space, and then it is that maximum.  Since the analysis never panics
(`C09_never_panics`), an error is reported exactly in the remaining cases: the true maximum
exceeds the address space, is unbounded (a cycle is reachable), or a reachable definition is
absent. -/
theorem C09_ok_iff (c : Container) (n : Nat) :
    c.maxSerializedSize = .ok n ↔ (c.specMax = .fin n ∧ n < usizeLimit) := by
  constructor
  · intro h
    refine ⟨C09_exact_when_ok c n h, ?_⟩
    -- a reported bound is the result of a checked multiplication or is zero
    exact maxSize_ok_lt c _ 1 c.decl [] n h
  · rintro ⟨h, hn⟩; exact C09_complete c n h hn

/-- an error means there is no representable bound -/
theorem C09_error_iff (c : Container) :
    (∃ e, c.maxSerializedSize = .error e) ↔ ¬ ∃ n, c.specMax = .fin n ∧ n < usizeLimit := by
  constructor
  · rintro ⟨e, he⟩ ⟨n, hn, hl⟩
    rw [C09_complete c n hn hl] at he; cases he
  · intro h
    cases hr : c.maxSerializedSize with
    | ok k => exact absurd ⟨k, (C09_ok_iff c k).mp hr⟩ h
    | error e => exact ⟨e, rfl⟩
    | panic p =>
      have := C09_never_panics c
      rw [hr] at this; simp [Res.isPanic] at this

/-- **Soundness, every container**: whenever a maximum is reported, no byte string the schema
describes (a reader that knows only the container walks it exactly to its end) is longer — for
every container, hostile ones included.  `specMax`, the executable specification the exactness
theorems speak about, is thereby an upper bound on *values*, not just a formula. -/
theorem C09_sound_container (c : Container) (n : Nat) (bs : Bytes)
    (hm : c.maxSerializedSize = .ok n) (hd : c.describes bs) : bs.length ≤ n := by
  obtain ⟨fuel, hf⟩ := hd
  have hs := C09_exact_when_ok c n hm
  have := (sdec_bound c fuel c.decl (c.defs.length + 1) [] bs [] hf).2 n hs
  simpa using this

/-- … also when the value is followed by other data: the walk consumes at most the bound -/
theorem C09_sound_stream (c : Container) (n fuel : Nat) (bs rest : Bytes)
    (hm : c.maxSerializedSize = .ok n) (hf : sdec c fuel c.decl bs = some rest) :
    rest.length ≤ bs.length ∧ bs.length - rest.length ≤ n := by
  have hs := C09_exact_when_ok c n hm
  obtain ⟨l, b⟩ := sdec_bound c fuel c.decl (c.defs.length + 1) [] bs rest hf
  have := b n hs
  exact ⟨l, by omega⟩

/-- **Soundness for Rust types**: if the container binds every declaration of `t` as the schema
impls intend (`Bnd`; `C08_builtin_bound` derives this from `for_type` for the built-in
compositions), then no value of `t` serializes to more bytes than the reported maximum. -/
theorem C09_sound_types (c : Container) (t : Ty) (hs : shapeOk t = true) (hw : WfTy t = true)
    (hb : Bnd c t) (hd : c.decl = declOf t) (n : Nat) (hm : c.maxSerializedSize = .ok n)
    (v : Val) (bs : Bytes) (hv : HasTy t v = true) (he : toVec t v = .ok bs) : bs.length ≤ n := by
  obtain ⟨f, hf⟩ := describes_all c t hs hw hb
  obtain ⟨hok, hbs⟩ := toVec_ok he
  have h1 := hf f (Nat.le_refl f) v [] hv hok
  have : c.describes bs := ⟨f, by rw [hd, ← hbs]; simpa using h1⟩
  exact C09_sound_container c n bs hm this

/-- **`max_serialized_size::<T>()` is sound for every name-coherent Rust type**, derived structs and
enums included: whatever maximum is reported for the container `for_type::<T>` generates, no value of
`T` serializes to more bytes (end to end: `schemaOf`, `maxSerializedSize`, `toVec`). -/
theorem C09_sound_rust_types (t : Ty) (hc : coherentB t = true) (hs : shapeOk t = true)
    (hw : WfTy t = true) (c : Container) (h : schemaOf t = .ok c) (n : Nat)
    (hm : c.maxSerializedSize = .ok n) (v : Val) (bs : Bytes) (hv : HasTy t v = true)
    (he : toVec t v = .ok bs) : bs.length ≤ n := by
  obtain ⟨hb, hd⟩ := schemaOf_bnd t c (coherentB_sound t hc) h
  exact C09_sound_types c t hs hw hb hd n hm v bs hv he

/-- non-vacuity: the container of `Vec<Option<u16>>`-like shape with a bounded range reports 4 + 3·3
and a described string of that length exists -/
example :
    let c : Container := ⟨[65], [([65], .sequence 1 0 3 [66]),
       ([66], .enum 1 [(0, [78], [40]), (1, [83], [117])]), ([40], .primitive 0), ([117], .primitive 2)]⟩
    c.maxSerializedSize = .ok 10 ∧ sdec c 4 [65] [3, 1, 7, 7, 1, 8, 8, 1, 9, 9] = some [] := by
  decide +kernel

/-- **Tightness**: for a container whose definitions can all be read (`readable`: non-empty enums
with distinct discriminants that fit the tag width, length ranges that fit the length width, untagged
sequences of a single length — every container a Rust type generates is of this kind), the reported
maximum is attained: some byte string of exactly that length is described by the schema. -/
theorem C09_tight (c : Container) (hr : c.readable = true) (n : Nat)
    (hm : c.maxSerializedSize = .ok n) : ∃ bs : Bytes, c.describes bs ∧ bs.length = n := by
  have hs := C09_exact_when_ok c n hm
  obtain ⟨bs, f, hl, hp⟩ := specMax_attained c hr _ c.decl [] n hs
  exact ⟨bs, ⟨f, by simpa using hp f (Nat.le_refl f) []⟩, hl⟩

/-- **The reported bound is the true maximum**: an upper bound on every described byte string
(any container) that is attained (readable containers). -/
theorem C09_is_maximum (c : Container) (hr : c.readable = true) (n : Nat)
    (hm : c.maxSerializedSize = .ok n) :
    (∀ bs : Bytes, c.describes bs → bs.length ≤ n) ∧ (∃ bs : Bytes, c.describes bs ∧ bs.length = n) :=
  ⟨fun bs hd => C09_sound_container c n bs hm hd, C09_tight c hr n hm⟩

/-- non-vacuity: the containers of `Vec<Option<u16>>`-like shapes are readable; an enum with a
repeated discriminant is not -/
example :
    (Container.readable ⟨[65], [([65], .sequence 4 0 (2 ^ 32 - 1) [66]),
       ([66], .enum 1 [(0, [78], [40]), (1, [83], [117])]), ([40], .primitive 0), ([117], .primitive 2)]⟩ = true) ∧
    (Container.readable ⟨[66], [([66], .enum 1 [(0, [78], [40]), (0, [83], [117])])]⟩ = false) := by
  decide +kernel

end Borsh
