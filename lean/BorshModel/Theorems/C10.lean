/-
  C10 — Schema validation is total and flags exactly the ill-formed containers.
-/
import BorshModel.SchemaCodec
import BorshModel.Lemmas.Totality
import BorshModel.Lemmas.ValidateSound
import BorshModel.Lemmas.ValidateIff
namespace Borsh

/-- "a legal length width (0, 1, 2, 4 or 8 bytes and wide enough for the largest length)":
`check_length_width` succeeds exactly then -/
theorem C10_length_width_iff (d : Name) (w max : Nat) (hmax : max < 2 ^ 64) :
    checkLengthWidth d w max = .ok () ↔
      (w = 0 ∨ w = 8 ∨ ((w = 1 ∨ w = 2 ∨ w = 4) ∧ max < 2 ^ (w * 8))) := by
  unfold checkLengthWidth
  constructor
  · intro h
    split at h
    · left; assumption
    · split at h
      · simp at h
      · split at h
        · split at h
          · right; right
            refine ⟨by omega, by assumption⟩
          · simp at h
        · split at h
          · right; left; assumption
          · simp at h
  · intro h
    rcases h with h | h | ⟨h, hm⟩
    · simp [h]
    · simp [h]
    · rcases h with h | h | h <;> subst h <;> simp [hm]

/-- when it fails, the error names the declaration that was checked and the defect is real -/
theorem C10_length_width_defect (d : Name) (w max : Nat) (e : ValErr)
    (h : checkLengthWidth d w max = .error e) :
    (e = .tagNotPowerOfTwo d ∧ (w = 3 ∨ w = 5 ∨ w = 6 ∨ w = 7)) ∨
    (e = .tagTooNarrow d ∧ (w = 1 ∨ w = 2 ∨ w = 4) ∧ 2 ^ (w * 8) ≤ max) ∨
    (e = .tagTooWide d ∧ 8 < w) := by
  unfold checkLengthWidth at h
  split at h
  · simp at h
  · split at h
    · simp at h; left; exact ⟨h.symm, by assumption⟩
    · split at h
      · split at h
        · simp at h
        · simp at h; right; left; refine ⟨h.symm, by omega, by omega⟩
      · split at h
        · simp at h
        · simp at h; right; right; exact ⟨h.symm, by omega⟩

/-- validation never takes `RangeInclusive::count()`: a fixed-length sequence is recognised by
comparing the bounds, which cannot panic — finding F3 (repaired), on the witness container -/
theorem C10_F3_full_range_no_panic :
    (Container.validate ⟨[65], [([65], .sequence 0 0 (2 ^ 64 - 1) [117]), ([117], .primitive 1)]⟩) = .ok () := by
  decide +kernel

/-- Finding F2 (repaired): a tuple holding the same zero-length array twice is zero-sized, so a
dynamic sequence of it is flagged (`Vec<([(); 0], [(); 0])>`) -/
theorem C10_F2_repeated_zero_sized_member :
    (Container.validate ⟨[65],
      [([40, 41], .primitive 0), ([65], .sequence 4 0 (2 ^ 32 - 1) [66]),
       ([66], .tuple [[90], [90]]), ([90], .sequence 0 0 0 [40, 41])]⟩) = .error (.zstSequence [65]) := by
  decide +kernel

/-- a missing definition under the root is reported with its name -/
theorem C10_missing_root (c : Container) (h : c.get c.decl = none) :
    c.validate = .error (.missing c.decl) := by
  simp [Container.validate, validateImpl, h]

/-- non-vacuity: each class of defect on a small container -/
example :
    (Container.validate ⟨[65], [([65], .sequence 4 3 2 [117]), ([117], .primitive 1)]⟩ = .error (.emptyLengthRange [65])) ∧
    (Container.validate ⟨[65], [([65], .sequence 3 0 1 [117]), ([117], .primitive 1)]⟩ = .error (.tagNotPowerOfTwo [65])) ∧
    (Container.validate ⟨[65], [([65], .sequence 1 0 256 [117]), ([117], .primitive 1)]⟩ = .error (.tagTooNarrow [65])) ∧
    (Container.validate ⟨[65], [([65], .enum 9 [])]⟩ = .error (.tagTooWide [65])) ∧
    (Container.validate ⟨[65], [([65], .tuple [[65]])]⟩ = .ok ()) := by
  decide +kernel

/-- **Validation is total**: on every container it terminates with `Ok` or one of its errors,
never a panic (stack overflow on cycles, `count()` overflow, fuel) -/
theorem C10_never_panics (c : Container) : c.validate.isPanic = false :=
  validateImpl_noPanic c (c.defs.length + 1) c.decl [] (pathOk_nil c) (by simp)

/-- the zero-size analysis used by validation is total too, from any declaration -/
theorem C10_zero_size_never_panics (c : Container) (d : Name) :
    (isZeroSize c (c.defs.length + 1) d []).isPanic = false :=
  isZeroSize_noPanic c (c.defs.length + 1) d [] (pathOk_nil c) (by simp)

/-- **When validation fails, the reported error names a declaration that really has that
defect** (every container): a `missing` name is absent from the definitions; an
`emptyLengthRange`, `tagNotPowerOfTwo`, `tagTooNarrow`, `tagTooWide` or `zstSequence` error names
a dynamically sized sequence (or, for `tagTooWide`, an enum) whose own definition has exactly
that fault. -/
theorem C10_error_is_real (c : Container) (e : ValErr) (h : c.validate = .error e) :
    localDefect c e :=
  validateImpl_error_real c _ c.decl [] e h

/-- a missing-definition error from the zero-size analysis names an absent declaration -/
theorem C10_zero_size_missing_is_real (c : Container) (d m : Name)
    (h : isZeroSize c (c.defs.length + 1) d [] = .error (.missing m)) : c.get m = none :=
  isZeroSize_missing c _ d [] m h

/-- **Validation succeeds if and only if the container is well-formed**: every declaration
reachable from the root is defined, every dynamically sized sequence has a non-empty length range,
a legal length width (0, 1, 2, 4 or 8 bytes, wide enough for the largest length) and elements that
are not zero-sized (no finite derivation of zero-sizedness; a cycle is not zero-sized), and every
enum tag is at most eight bytes wide — for **every** container, hostile ones included. -/
theorem C10_validate_ok_iff_wellformed (c : Container) : c.validate = .ok () ↔ WellFormed c :=
  validate_ok_iff c

/-- the zero-size analysis answers `Ok(true)` exactly on the declarations that have a finite
derivation of zero-sizedness -/
theorem C10_zero_size_iff (c : Container) (d : Name) :
    isZeroSize c (c.defs.length + 1) d [] = .ok true ↔ ZeroSized c d :=
  isZeroSize_iff c d

/-- non-vacuity: a well-formed container with a cycle through a tuple, and an ill-formed one whose
defect sits behind a zero-length array (so is still reachable) -/
example :
    (Container.validate ⟨[65], [([65], .tuple [[65], [117]]), ([117], .primitive 1)]⟩ = .ok ()) ∧
    (Container.validate ⟨[65], [([65], .sequence 0 0 0 [66]), ([66], .enum 9 [])]⟩
        = .error (.tagTooWide [66])) := by
  decide +kernel

end Borsh
