/-
  C11 — Decoding is independent of how the reader fragments or interrupts the stream.
-/
import BorshModel.Lemmas.DeSim
import BorshModel.Lemmas.ScriptRead
import BorshModel.Lemmas.Slice
import BorshModel.Lemmas.DeSimB
import BorshModel.Lemmas.ScriptStop
namespace Borsh

/-- a slice and a scripted reader stand at the same point of the same stream -/
def SameStream (d : Bytes) (bs : Bytes) (s : RState) : Prop :=
  s.data = d ∧ s.pos ≤ s.data.length ∧ bs = s.data.drop s.pos

theorem script_rdSim (sc : Script) (hstop : sc.stop = none) (d : Bytes) :
    RdSim (SameStream d) Rd.slice (Rd.script sc) := by
  constructor
  · intro n bs s ⟨hd, hpos, hbs⟩
    have hs := script_readExact sc hstop n s hpos
    rw [slice_readExact]
    have hlen : bs.length = s.data.length - s.pos := by rw [hbs]; simp
    by_cases hn : n ≤ bs.length
    · obtain ⟨s', h1, h2⟩ := hs.1 (by omega)
      rw [h1]
      simp only [hn, if_true, OutRel]
      refine ⟨by rw [hbs], by rw [h2.data, hd], ?_, ?_⟩
      · rw [h2.data, h2.pos]; omega
      · rw [h2.data, h2.pos, hbs, List.drop_drop]
    · have h1 := hs.2 (by omega)
      rw [h1]
      simp [hn, OutRel]
  · intro n bs s ⟨hd, hpos, hbs⟩
    have hs := script_readBulk sc hstop n s hpos
    rw [slice_readBulk]
    have hlen : bs.length = s.data.length - s.pos := by rw [hbs]; simp
    by_cases hn : n ≤ bs.length
    · obtain ⟨s', h1, h2⟩ := hs.1 (by omega)
      rw [h1]
      simp only [hn, if_true, OutRel]
      refine ⟨by rw [hbs], by rw [h2.data, hd], ?_, ?_⟩
      · rw [h2.data, h2.pos]; omega
      · rw [h2.data, h2.pos, hbs, List.drop_drop]
    · have h1 := hs.2 (by omega)
      rw [h1]
      simp [hn, OutRel]

/-- **Schedule independence.**  For every type of the universe, every byte stream, every chunk
pattern (down to one byte at a time, differently at each offset) and every placement of
transient `Interrupted` results, `deserialize_reader` over the scripted reader gives the same
value as `deserialize` over the slice — or the very same error — and on success the reader stands
exactly where the slice decoder stopped: no byte beyond the value is consumed. -/
theorem C11_schedule_independent (sc : Script) (hstop : sc.stop = none) (st : Bool) (t : Ty)
    (bs : Bytes) (intr : List (Nat × Nat)) :
    OutRel (SameStream bs) (deserialize st t bs) (deserializeReader (Rd.script sc) st t ⟨bs, 0, intr⟩) :=
  de_sim (script_rdSim sc hstop bs) t st bs ⟨bs, 0, intr⟩ ⟨rfl, Nat.zero_le _, by simp⟩

/-- the same, spelled out for the success case -/
theorem C11_same_value (sc : Script) (hstop : sc.stop = none) (st : Bool) (t : Ty)
    (bs rest : Bytes) (intr : List (Nat × Nat)) (v : Val)
    (h : deserialize st t bs = .ok (v, rest)) :
    ∃ s', deserializeReader (Rd.script sc) st t ⟨bs, 0, intr⟩ = .ok (v, s') ∧
      s'.data = bs ∧ s'.data.drop s'.pos = rest ∧ s'.pos ≤ s'.data.length := by
  have := C11_schedule_independent sc hstop st t bs intr
  rw [h] at this
  cases hr : deserializeReader (Rd.script sc) st t ⟨bs, 0, intr⟩ with
  | ok r =>
    rw [hr] at this
    simp only [OutRel, SameStream] at this
    exact ⟨r.2, by rw [this.1], this.2.1, this.2.2.2.symm, this.2.2.1⟩
  | err e => rw [hr] at this; simp [OutRel] at this
  | panic p => rw [hr] at this; simp [OutRel] at this

/-- … and for the failure case: the error is the one the slice decoder reports -/
theorem C11_same_error (sc : Script) (hstop : sc.stop = none) (st : Bool) (t : Ty)
    (bs : Bytes) (intr : List (Nat × Nat)) (e : Err) (h : deserialize st t bs = .err e) :
    deserializeReader (Rd.script sc) st t ⟨bs, 0, intr⟩ = .err e := by
  have := C11_schedule_independent sc hstop st t bs intr
  rw [h] at this
  cases hr : deserializeReader (Rd.script sc) st t ⟨bs, 0, intr⟩ with
  | ok r => rw [hr] at this; simp [OutRel] at this
  | err e' => rw [hr] at this; simp only [OutRel] at this; rw [this]
  | panic p => rw [hr] at this; simp [OutRel] at this

/-- the whole-input entry points probe for exactly one further byte: they agree with
`from_slice` on every schedule -/
theorem C11_whole_input (sc : Script) (hstop : sc.stop = none) (st : Bool) (t : Ty)
    (bs : Bytes) (intr : List (Nat × Nat)) (v : Val) (h : fromSlice st t bs = .ok v) :
    ∃ s', fromReader (Rd.script sc) st t ⟨bs, 0, intr⟩ = .ok (v, s') ∧ s'.pos = bs.length := by
  unfold fromSlice at h
  obtain ⟨⟨v', rest⟩, h1, h2⟩ := Out.bind_eq_ok_iff.mp h
  dsimp only at h2
  split at h2
  · rename_i hempty
    simp at h2
    subst h2
    have hrest : rest = [] := by simpa using hempty
    subst hrest
    obtain ⟨s', h3, hd, h4, h5⟩ := C11_same_value sc hstop st t bs [] intr v' h1
    unfold fromReader
    unfold deserializeReader at h3
    rw [h3]
    simp only [Out.bind_ok]
    -- the probe: the stream is exhausted, so `read_exact(1)` reports end of stream
    have hdata : s'.data.length - s'.pos = 0 := by
      have := congrArg List.length h4; simpa using this
    have hp := (script_readExact sc hstop 1 s' h5).2 (by omega)
    rw [hp]
    refine ⟨s', by simp [eEof], ?_⟩
    rw [← hd]; omega
  · simp at h2

/-- both io implementations use the same `read_exact` algorithm (feeds C13) -/
theorem C11_io_impl_agree (sc : Script) (n : Nat) (s : RState) :
    Std.readExact sc n s = NoStd.readExact sc n s := rfl

/-- non-vacuity: a string read one and two bytes at a time with interrupts in the length prefix,
in the payload and at the end-of-stream probe -/
example :
    (match fromReader (Rd.script ⟨[1, 2], none⟩) false (.str .string)
        ⟨[2, 0, 0, 0, 104, 105], 0, [(1, 2), (5, 1), (6, 3)]⟩ with
     | .ok r => Val.beq r.1 (.blob [104, 105]) && r.2.pos == 6
     | _ => false) = true := by
  decide +kernel

/-- **Any reader**: the scripted readers are one instance.  Whatever the reader is — buffered,
fragmenting, retrying — if its `read_exact` and its byte-vector read answer like the slice's on
related states (`RdSim`), then decoding any type from it gives the slice decoder's result and
leaves it in a state related to the remaining slice. -/
theorem C11_any_reader {σ : Type} (R : Bytes → σ → Prop) (rd : Rd σ) (h : RdSim R Rd.slice rd)
    (st : Bool) (t : Ty) (bs : Bytes) (s : σ) (hR : R bs s) :
    OutRel R (deserialize st t bs) (deserializeReader rd st t s) :=
  de_sim h t st bs s hR

/-! ### a genuine reader failure -/

/-- slice and scripted reader stand at the same point of the stream `d`, at or before offset `o` -/
def SameStreamUpTo (d : Bytes) (o : Nat) (bs : Bytes) (s : RState) : Prop :=
  s.data = d ∧ s.pos ≤ o ∧ bs = d.drop s.pos

/-- how far into `d` a slice decoder that still holds `bs` has advanced -/
def slicePos (d : Bytes) (bs : Bytes) : Nat := d.length - bs.length

theorem script_rdSimB (sc : Script) (o : Nat) (k : Kind) (id : Nat)
    (hstop : sc.stop = some (o, .fail k id)) (hk : k ≠ .interrupted) (d : Bytes) (ho : o ≤ d.length) :
    RdSimB (SameStreamUpTo d o) (slicePos d) o (userErr k id) Rd.slice (Rd.script sc) := by
  constructor
  · intro n
    refine ⟨?_, ?_⟩
    · intro bs a ha
      rw [slice_readExact] at ha
      split at ha
      · cases ha; simp only [slicePos, List.length_drop]; omega
      · cases ha
    · intro bs s ⟨hd, hpos, hbs⟩ _
      have hs := script_readExact_stop sc o k id hstop hk n s hpos (by rw [hd]; exact ho)
      rw [slice_readExact]
      have hlen : bs.length = d.length - s.pos := by rw [hbs]; simp
      by_cases hn : s.pos + n ≤ o
      · obtain ⟨s', h1, h2⟩ := hs.1 hn
        have hle : n ≤ bs.length := by omega
        simp only [hle, if_true, RelB, slicePos, List.length_drop]
        have : d.length - (bs.length - n) ≤ o := by omega
        simp only [this, if_true]
        refine ⟨s', ?_, ?_, ?_, ?_⟩
        · rw [h1, hbs, hd]
        · rw [h2.data, hd]
        · rw [h2.pos]; exact hn
        · rw [h2.pos, hbs, List.drop_drop]
      · have h1 := hs.2 hn
        rw [h1]
        by_cases hle : n ≤ bs.length
        · simp only [hle, if_true, RelB, slicePos, List.length_drop]
          have : ¬ d.length - (bs.length - n) ≤ o := by omega
          simp [this]
        · simp [hle, RelB]
  · intro n
    refine ⟨?_, ?_⟩
    · intro bs a ha
      rw [slice_readBulk] at ha
      split at ha
      · cases ha; simp only [slicePos, List.length_drop]; omega
      · cases ha
    · intro bs s ⟨hd, hpos, hbs⟩ _
      have hs := script_readBulk_stop sc o k id hstop hk n s hpos (by rw [hd]; exact ho)
      rw [slice_readBulk]
      have hlen : bs.length = d.length - s.pos := by rw [hbs]; simp
      by_cases hn : s.pos + n ≤ o
      · obtain ⟨s', h1, h2⟩ := hs.1 hn
        have hle : n ≤ bs.length := by omega
        simp only [hle, if_true, RelB, slicePos, List.length_drop]
        have : d.length - (bs.length - n) ≤ o := by omega
        simp only [this, if_true]
        refine ⟨s', ?_, ?_, ?_, ?_⟩
        · rw [h1, hbs, hd]
        · rw [h2.data, hd]
        · rw [h2.pos]; exact hn
        · rw [h2.pos, hbs, List.drop_drop]
      · have h1 := hs.2 hn
        rw [h1]
        by_cases hle : n ≤ bs.length
        · simp only [hle, if_true, RelB, slicePos, List.length_drop]
          have : ¬ d.length - (bs.length - n) ≤ o := by omega
          simp [this]
        · simp [hle, RelB]

/-- the complete description of decoding from a reader that fails for good at stream offset `o`
(any kind but `Interrupted`/`UnexpectedEof`, which the io conventions reserve for "retry" and "the
stream ended"), for every type, stream, chunking and interrupt placement: compared with the
slice decoder on the same bytes (`RelB`) -/
theorem C11_failure_general (sc : Script) (o : Nat) (k : Kind) (id : Nat)
    (hstop : sc.stop = some (o, .fail k id)) (hk : k ≠ .interrupted) (hk' : k ≠ .unexpectedEof)
    (st : Bool) (t : Ty) (bs : Bytes) (ho : o ≤ bs.length) (intr : List (Nat × Nat)) :
    RelB (SameStreamUpTo bs o) (slicePos bs) o (userErr k id)
      (deserialize st t bs) (deserializeReader (Rd.script sc) st t ⟨bs, 0, intr⟩) := by
  have hesc : mapEof (userErr k id) = userErr k id := by simp [mapEof, userErr, hk']
  exact (de_simB (script_rdSimB sc o k id hstop hk bs ho) hesc t st).2 bs ⟨bs, 0, intr⟩
    ⟨rfl, Nat.zero_le _, by simp⟩ (by simp [slicePos])

/-- **A genuine reader failure while the value is being read is returned unchanged**: if the
value occupies more than `o` bytes of the stream (the slice decoder, which cannot fail that way,
advances past `o`) the caller gets exactly the reader's error — kind and message — whatever was
decoded before it, however the reads were split and interrupted. -/
theorem C11_hard_failure (sc : Script) (o : Nat) (k : Kind) (id : Nat)
    (hstop : sc.stop = some (o, .fail k id)) (hk : k ≠ .interrupted) (hk' : k ≠ .unexpectedEof)
    (st : Bool) (t : Ty) (bs rest : Bytes) (v : Val) (intr : List (Nat × Nat))
    (h : deserialize st t bs = .ok (v, rest)) (hin : o < bs.length - rest.length) :
    deserializeReader (Rd.script sc) st t ⟨bs, 0, intr⟩ = .err (userErr k id) := by
  have := C11_failure_general sc o k id hstop hk hk' st t bs (by omega) intr
  rw [h] at this
  simp only [RelB, slicePos] at this
  have hn : ¬ bs.length - rest.length ≤ o := by omega
  simpa [hn] using this

/-- **A failure the decoder never reaches is invisible**: if the value ends at or before offset
`o`, the result is the value, and the reader stands exactly at the end of the value -/
theorem C11_failure_after_value (sc : Script) (o : Nat) (k : Kind) (id : Nat)
    (hstop : sc.stop = some (o, .fail k id)) (hk : k ≠ .interrupted) (hk' : k ≠ .unexpectedEof)
    (st : Bool) (t : Ty) (bs rest : Bytes) (v : Val) (intr : List (Nat × Nat))
    (h : deserialize st t bs = .ok (v, rest)) (hout : bs.length - rest.length ≤ o) (ho : o ≤ bs.length) :
    ∃ s', deserializeReader (Rd.script sc) st t ⟨bs, 0, intr⟩ = .ok (v, s') ∧
      s'.data = bs ∧ rest = bs.drop s'.pos := by
  have := C11_failure_general sc o k id hstop hk hk' st t bs ho intr
  rw [h] at this
  simp only [RelB, slicePos, hout, if_true] at this
  obtain ⟨s', h1, h2, _, h4⟩ := this
  exact ⟨s', h1, h2, h4⟩

/-- if the bytes themselves are malformed, the caller sees that error or the reader's failure,
whichever the decoder meets first — never anything else -/
theorem C11_failure_or_same_error (sc : Script) (o : Nat) (k : Kind) (id : Nat)
    (hstop : sc.stop = some (o, .fail k id)) (hk : k ≠ .interrupted) (hk' : k ≠ .unexpectedEof)
    (st : Bool) (t : Ty) (bs : Bytes) (e : Err) (intr : List (Nat × Nat))
    (h : deserialize st t bs = .err e) (ho : o ≤ bs.length) :
    deserializeReader (Rd.script sc) st t ⟨bs, 0, intr⟩ = .err e ∨
    deserializeReader (Rd.script sc) st t ⟨bs, 0, intr⟩ = .err (userErr k id) := by
  have := C11_failure_general sc o k id hstop hk hk' st t bs ho intr
  rw [h] at this
  simpa [RelB] using this

/-- non-vacuity: a `(u16, String)` read in chunks of 1 and 2 with an interrupt, the reader failing
with kind `user 7` at offset 5 (inside the string) — and the same failure at offset 8 (after the
value) going unnoticed -/
example :
    (match deserializeReader (Rd.script ⟨[1, 2], some (5, .fail (.user 7) 42)⟩) false
        (Ty.tuple [.int .u16, .str .string]) ⟨[1, 0, 2, 0, 0, 0, 104, 105], 0, [(3, 1)]⟩ with
     | .err e => e == userErr (.user 7) 42
     | _ => false) = true ∧
    (match deserializeReader (Rd.script ⟨[1, 2], some (8, .fail (.user 7) 42)⟩) false
        (Ty.tuple [.int .u16, .str .string]) ⟨[1, 0, 2, 0, 0, 0, 104, 105], 0, [(3, 1)]⟩ with
     | .ok r => Val.beq r.1 (.list [.int 1, .blob [104, 105]]) && r.2.pos == 8
     | _ => false) = true := by
  decide +kernel

end Borsh
