/-
  C11 — Decoding is independent of how the reader fragments or interrupts the stream.
-/
import BorshModel.Lemmas.DeSim
import BorshModel.Lemmas.ScriptRead
import BorshModel.Lemmas.Slice
namespace Borsh

/-- a slice and a scripted reader stand at the same point of the same stream -/
def SameStream (d : Bytes) (bs : Bytes) (s : RState) : Prop :=
  s.data = d ∧ s.pos ≤ s.data.length ∧ bs = s.data.drop s.pos

theorem script_rdSim (sc : Script) (hstop : sc.stop = none) (d : Bytes) :
    RdSim (SameStream d) Rd.slice (Rd.script sc) := by
  constructor
  · intro n bs s ⟨hd, hpos, hbs⟩
    have hs := script_readExact sc hstop n s hpos
    rw [slice_readExact]
    have hlen : bs.length = s.data.length - s.pos := by rw [hbs]; simp
    by_cases hn : n ≤ bs.length
    · obtain ⟨s', h1, h2⟩ := hs.1 (by omega)
      rw [h1]
      simp only [hn, if_true, OutRel]
      refine ⟨by rw [hbs], by rw [h2.data, hd], ?_, ?_⟩
      · rw [h2.data, h2.pos]; omega
      · rw [h2.data, h2.pos, hbs, List.drop_drop]
    · have h1 := hs.2 (by omega)
      rw [h1]
      simp [hn, OutRel]
  · intro n bs s ⟨hd, hpos, hbs⟩
    have hs := script_readBulk sc hstop n s hpos
    rw [slice_readBulk]
    have hlen : bs.length = s.data.length - s.pos := by rw [hbs]; simp
    by_cases hn : n ≤ bs.length
    · obtain ⟨s', h1, h2⟩ := hs.1 (by omega)
      rw [h1]
      simp only [hn, if_true, OutRel]
      refine ⟨by rw [hbs], by rw [h2.data, hd], ?_, ?_⟩
      · rw [h2.data, h2.pos]; omega
      · rw [h2.data, h2.pos, hbs, List.drop_drop]
    · have h1 := hs.2 (by omega)
      rw [h1]
      simp [hn, OutRel]

/-- **Schedule independence.**  For every type of the universe, every byte stream, every chunk
pattern (down to one byte at a time, differently at each offset) and every placement of
transient `Interrupted` results, `deserialize_reader` over the scripted reader gives the same
value as `deserialize` over the slice — or the very same error — and on success the reader stands
exactly where the slice decoder stopped: no byte beyond the value is consumed. -/
theorem C11_schedule_independent (sc : Script) (hstop : sc.stop = none) (st : Bool) (t : Ty)
    (bs : Bytes) (intr : List (Nat × Nat)) :
    OutRel (SameStream bs) (deserialize st t bs) (deserializeReader (Rd.script sc) st t ⟨bs, 0, intr⟩) :=
  de_sim (script_rdSim sc hstop bs) t st bs ⟨bs, 0, intr⟩ ⟨rfl, Nat.zero_le _, by simp⟩

/-- the same, spelled out for the success case -/
theorem C11_same_value (sc : Script) (hstop : sc.stop = none) (st : Bool) (t : Ty)
    (bs rest : Bytes) (intr : List (Nat × Nat)) (v : Val)
    (h : deserialize st t bs = .ok (v, rest)) :
    ∃ s', deserializeReader (Rd.script sc) st t ⟨bs, 0, intr⟩ = .ok (v, s') ∧
      s'.data = bs ∧ s'.data.drop s'.pos = rest ∧ s'.pos ≤ s'.data.length := by
  have := C11_schedule_independent sc hstop st t bs intr
  rw [h] at this
  cases hr : deserializeReader (Rd.script sc) st t ⟨bs, 0, intr⟩ with
  | ok r =>
    rw [hr] at this
    simp only [OutRel, SameStream] at this
    exact ⟨r.2, by rw [this.1], this.2.1, this.2.2.2.symm, this.2.2.1⟩
  | err e => rw [hr] at this; simp [OutRel] at this
  | panic p => rw [hr] at this; simp [OutRel] at this

/-- … and for the failure case: the error is the one the slice decoder reports -/
theorem C11_same_error (sc : Script) (hstop : sc.stop = none) (st : Bool) (t : Ty)
    (bs : Bytes) (intr : List (Nat × Nat)) (e : Err) (h : deserialize st t bs = .err e) :
    deserializeReader (Rd.script sc) st t ⟨bs, 0, intr⟩ = .err e := by
  have := C11_schedule_independent sc hstop st t bs intr
  rw [h] at this
  cases hr : deserializeReader (Rd.script sc) st t ⟨bs, 0, intr⟩ with
  | ok r => rw [hr] at this; simp [OutRel] at this
  | err e' => rw [hr] at this; simp only [OutRel] at this; rw [this]
  | panic p => rw [hr] at this; simp [OutRel] at this

/-- the whole-input entry points probe for exactly one further byte: they agree with
`from_slice` on every schedule -/
theorem C11_whole_input (sc : Script) (hstop : sc.stop = none) (st : Bool) (t : Ty)
    (bs : Bytes) (intr : List (Nat × Nat)) (v : Val) (h : fromSlice st t bs = .ok v) :
    ∃ s', fromReader (Rd.script sc) st t ⟨bs, 0, intr⟩ = .ok (v, s') ∧ s'.pos = bs.length := by
  unfold fromSlice at h
  obtain ⟨⟨v', rest⟩, h1, h2⟩ := Out.bind_eq_ok_iff.mp h
  dsimp only at h2
  split at h2
  · rename_i hempty
    simp at h2
    subst h2
    have hrest : rest = [] := by simpa using hempty
    subst hrest
    obtain ⟨s', h3, hd, h4, h5⟩ := C11_same_value sc hstop st t bs [] intr v' h1
    unfold fromReader
    unfold deserializeReader at h3
    rw [h3]
    simp only [Out.bind_ok]
    -- the probe: the stream is exhausted, so `read_exact(1)` reports end of stream
    have hdata : s'.data.length - s'.pos = 0 := by
      have := congrArg List.length h4; simpa using this
    have hp := (script_readExact sc hstop 1 s' h5).2 (by omega)
    rw [hp]
    refine ⟨s', by simp [eEof], ?_⟩
    rw [← hd]; omega
  · simp at h2

/-- both io implementations use the same `read_exact` algorithm (feeds C13) -/
theorem C11_io_impl_agree (sc : Script) (n : Nat) (s : RState) :
    Std.readExact sc n s = NoStd.readExact sc n s := rfl

/-- non-vacuity: a string read one and two bytes at a time with interrupts in the length prefix,
in the payload and at the end-of-stream probe -/
example :
    (match fromReader (Rd.script ⟨[1, 2], none⟩) false (.str .string)
        ⟨[2, 0, 0, 0, 104, 105], 0, [(1, 2), (5, 1), (6, 3)]⟩ with
     | .ok r => Val.beq r.1 (.blob [104, 105]) && r.2.pos == 6
     | _ => false) = true := by
  decide +kernel

end Borsh
