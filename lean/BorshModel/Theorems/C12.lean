/-
  C12 — Serialization is independent of the writer and transparent to its failures.
-/
import BorshModel.Io
import BorshModel.Lemmas.Trace
import BorshModel.Canon
import BorshModel.Lemmas.ScriptWrite
import BorshModel.Lemmas.AnyWriter
namespace Borsh

/-- the length-only writer: the running count plus the bytes of the chunks, with the
serializer's own status, as long as the count fits `usize` -/
theorem runTraceLen_eq (cs : List Bytes) (status : Out Unit) (n : Nat)
    (h : n + cs.flatten.length < 2 ^ 64) :
    runTraceLen cs status n = status.map fun _ => n + cs.flatten.length := by
  induction cs generalizing n with
  | nil => simp [runTraceLen]
  | cons c cs ih =>
    simp only [List.flatten_cons, List.length_append] at h
    have h1 : n + c.length < 2 ^ 64 := by omega
    simp only [runTraceLen, h1, if_true]
    rw [ih (n + c.length) (by omega)]
    simp [Nat.add_assoc]

/-- `object_length` returns exactly the length of the encoding, with the same refusals -/
theorem C12_object_length (t : Ty) (v : Val) (h : (ser t v).bytes.length < 2 ^ 64) :
    objectLength t v = (ser t v).status.map fun _ => (ser t v).bytes.length := by
  unfold objectLength
  rw [runTraceLen_eq _ _ 0 (by simpa [Tr.bytes] using h)]
  simp [Tr.bytes]

theorem C12_object_length_ok (t : Ty) (v : Val) (bs : Bytes) (h : toVec t v = .ok bs)
    (hl : bs.length < 2 ^ 64) : objectLength t v = .ok bs.length := by
  unfold toVec at h
  dsimp only at h
  cases hs : (ser t v).status with
  | ok u =>
    cases u
    rw [hs] at h
    simp at h
    rw [C12_object_length t v (by rw [h]; exact hl), hs, h]
    rfl
  | err e => rw [hs] at h; simp at h
  | panic p => rw [hs] at h; simp at h

/-- closed form of a run against `&mut [u8]`: everything fits, or the fitting prefix is written
and the result is `WriteZero` -/
theorem runTraceFixed_eq (cs : List Bytes) (status : Out Unit) (w : Bytes) (room : Nat) :
    runTraceFixed cs status (w, room) =
      if cs.flatten.length ≤ room then ((w ++ cs.flatten, room - cs.flatten.length), status)
      else ((w ++ cs.flatten.take room, 0), .err eWriteZero) := by
  induction cs generalizing w room with
  | nil => simp [runTraceFixed]
  | cons c cs ih =>
    simp only [runTraceFixed, fixedWriteAll, List.flatten_cons, List.length_append]
    by_cases hc : c.length ≤ room
    · have hmin : min c.length room = c.length := by omega
      simp only [hmin, beq_self_eq_true, if_true, List.take_length]
      rw [ih]
      by_cases hall : c.length + cs.flatten.length ≤ room
      · have : cs.flatten.length ≤ room - c.length := by omega
        simp only [this, hall, if_true, List.append_assoc]
        congr 2; omega
      · have : ¬ cs.flatten.length ≤ room - c.length := by omega
        simp only [this, hall, if_false, List.append_assoc]
        congr 2
        rw [List.take_append, List.take_of_length_le hc]
    · have hmin : min c.length room = room := by omega
      have hne : (room == c.length) = false := by simp; omega
      have hall : ¬ c.length + cs.flatten.length ≤ room := by omega
      simp only [hmin, hne, Bool.false_eq_true, if_false, hall, Nat.sub_self]
      congr 2
      rw [List.take_append_of_le_length (by omega)]

/-- A buffer of exactly the right size (or larger) is filled with the encoding; a smaller one
receives the first `cap` bytes and the call fails with `WriteZero` — never a panic. -/
theorem C12_fixed_buffer (cap : Nat) (t : Ty) (v : Val) :
    toFixedBuffer cap t v =
      if (ser t v).bytes.length ≤ cap then
        (((ser t v).bytes, cap - (ser t v).bytes.length), (ser t v).status)
      else (((ser t v).bytes.take cap, 0), .err ⟨.writeZero, .writeZeroMsg⟩) := by
  unfold toFixedBuffer
  rw [runTraceFixed_eq]
  simp [Tr.bytes, eWriteZero]

/-- **Writer independence.** However the writer splits writes (any chunk pattern, down to one
byte at a time) and wherever transient `Interrupted` results occur, a writer that does not stop
inside the encoding receives exactly the bytes of the encoding, in order, and the result is the
serializer's own status. -/
theorem C12_delivers_encoding (sc : Script) (intr : List (Nat × Nat)) (t : Ty) (v : Val)
    (hkind : ∀ k kd id, sc.stop = some (k, .fail kd id) → kd ≠ .interrupted)
    (hstop : ∀ k st, sc.stop = some (k, st) → (ser t v).bytes.length ≤ k) :
    ∃ w', toWriterScript sc intr t v = (w', (ser t v).status) ∧ w'.delivered = (ser t v).bytes := by
  unfold toWriterScript
  obtain ⟨w', h1, h2⟩ := runTrace_complete sc hkind (ser t v).chunks (ser t v).status ⟨[], intr⟩
    (by intro k st hs; right; simpa [Tr.bytes] using hstop k st hs)
  exact ⟨w', h1, by simpa [Tr.bytes] using h2⟩

/-- **Transparency to failures.** If the writer fails (any kind and message) or reports
`Ok(0)` after `k` bytes, `k` inside the encoding, serialization returns exactly that error —
kind and message unchanged, `WriteZero` for `Ok(0)` — and the bytes delivered so far are the
first `k` bytes of the encoding. -/
theorem C12_prefix_on_failure (sc : Script) (intr : List (Nat × Nat)) (t : Ty) (v : Val) (k : Nat) (st : Stop)
    (hkind : ∀ k kd id, sc.stop = some (k, .fail kd id) → kd ≠ .interrupted)
    (hs : sc.stop = some (k, st)) (hk : k < (ser t v).bytes.length) :
    ∃ w', toWriterScript sc intr t v = (w', .err (stopErr st)) ∧
      w'.delivered = (ser t v).bytes.take k := by
  unfold toWriterScript
  obtain ⟨w', h1, h2⟩ := runTrace_stopped sc hkind k st hs (ser t v).chunks (ser t v).status ⟨[], intr⟩
    (by simp) (by simpa [Tr.bytes] using hk)
  exact ⟨w', h1, by simpa [Tr.bytes] using h2⟩

/-- the error is the writer's own: kind and payload of a hard failure, `WriteZero` for `Ok(0)` -/
theorem C12_error_unchanged (kd : Kind) (id : Nat) :
    stopErr (.fail kd id) = ⟨kd, .user id⟩ ∧ stopErr .zero = ⟨.writeZero, .writeZeroMsg⟩ := ⟨rfl, rfl⟩

/-- non-vacuity: every capacity 0..len+1 for a small value -/
example :
    let t := Ty.prod .tuple [(none, false, .int .u16), (none, false, .str .string)]
    let v := Val.list [.int 258, .blob [120]]
    ((toVec t v).okBytes [2, 1, 1, 0, 0, 0, 120] &&
     (List.range 9).all (fun cap =>
       let r := toFixedBuffer cap t v
       if cap ≥ 7 then r.1.1 == [2, 1, 1, 0, 0, 0, 120] && r.1.2 == cap - 7 && r.2.isOk
       else r.1.1 == [2, 1, 1, 0, 0, 0, 120].take cap && r.2.errIs eWriteZero)) = true := by
  decide +kernel

/-! ### any writer at all -/

/-- `borsh::to_writer` into an arbitrary writer that honours the `io::Write` contract -/
def toWriterAny {ω : Type} (W : AnyWriter ω) (t : Ty) (v : Val) (w : ω) : ω × Out Unit :=
  runTraceAny W (ser t v).chunks (ser t v).status w

/-- **Writer independence, in general**: whatever the writer is — however it splits, buffers,
retries or fails, as long as a successful `write_all` delivered its buffer and a failed one a
prefix of it — what reaches the sink is always a prefix of the encoding, in order; and if
serialization returns `Ok` the sink received exactly the encoding (which is what `to_vec` gives). -/
theorem C12_any_writer {ω : Type} (W : AnyWriter ω) (t : Ty) (v : Val) (w : ω) :
    (∃ k, k ≤ (ser t v).bytes.length ∧
      W.delivered (toWriterAny W t v w).1 = W.delivered w ++ (ser t v).bytes.take k) ∧
    ((toWriterAny W t v w).2 = .ok () →
      W.delivered (toWriterAny W t v w).1 = W.delivered w ++ (ser t v).bytes ∧
      toVec t v = .ok (ser t v).bytes) := by
  obtain ⟨h1, h2⟩ := runTraceAny_spec W (ser t v).chunks (ser t v).status w
  refine ⟨by simpa [toWriterAny, Tr.bytes] using h1, fun h => ?_⟩
  obtain ⟨a, b⟩ := h2 h
  exact ⟨by simpa [toWriterAny, Tr.bytes] using a, by simp [toVec, b]⟩

/-- the growable vector as an instance: `to_writer(&mut Vec)` appends exactly the encoding -/
def AnyWriter.vec : AnyWriter Bytes where
  writeAll b w := (w ++ b, .ok ())
  delivered w := w
  ok_all := by intro b w w' h; cases h; rfl
  fail_prefix := by intro b w w' r h hr; cases h; exact absurd rfl hr

/-- a sink that accepts `room` more bytes and then reports `WriteZero` (`&mut [u8]`) as an instance -/
def AnyWriter.fixed : AnyWriter (Bytes × Nat) where
  writeAll := fun b st => fixedWriteAll b st
  delivered st := st.1
  ok_all := by
    intro b w w' h
    obtain ⟨written, room⟩ := w
    simp only [fixedWriteAll, Prod.mk.injEq] at h
    obtain ⟨h1, h2⟩ := h
    split at h2
    · rename_i hn
      have : min b.length room = b.length := by simpa using hn
      rw [← h1]; simp [this]
    · cases h2
  fail_prefix := by
    intro b w w' r h _
    obtain ⟨written, room⟩ := w
    simp only [fixedWriteAll, Prod.mk.injEq] at h
    exact ⟨min b.length room, Nat.min_le_left _ _, by rw [← h.1]⟩

/-- one scripted `write`: what was accepted is a prefix of the buffer, appended to the sink -/
theorem scriptWrite_delivers (sc : Script) (buf : Bytes) (w w' : WState) (n : Nat) (hb : buf ≠ [])
    (h : scriptWrite sc buf w = .ok (n, w')) :
    n ≤ buf.length ∧ w'.delivered = w.delivered ++ buf.take n := by
  have hpos : 0 < buf.length := by cases buf with
    | nil => exact absurd rfl hb
    | cons a as => simp
  have hx := (xferLen_bounds sc w.intr w.delivered.length buf.length hpos).2
  unfold scriptWrite at h
  simp only at h
  split at h
  · cases h
  · split at h
    · rename_i so st hstop
      split at h
      · cases st with
        | zero => simp only [Out.ok.injEq, Prod.mk.injEq] at h; rw [← h.1, ← h.2]; simp
        | fail k id => cases h
      · simp only [Out.ok.injEq, Prod.mk.injEq] at h; rw [← h.1, ← h.2]; exact ⟨hx, rfl⟩
    · simp only [Out.ok.injEq, Prod.mk.injEq] at h; rw [← h.1, ← h.2]; exact ⟨hx, rfl⟩

/-- the `write_all` loop over **any** script (any chunking, interrupts, `Ok(0)` or a hard failure
anywhere): what reaches the sink is a prefix of the buffer, all of it when the loop returns `Ok` -/
theorem writeAllLoop_prefix (sc : Script) : ∀ (fuel : Nat) (buf : Bytes) (w : WState),
    ∃ k, k ≤ buf.length ∧ (writeAllLoop sc fuel buf w).1.delivered = w.delivered ++ buf.take k ∧
      ((writeAllLoop sc fuel buf w).2 = .ok () → k = buf.length) := by
  intro fuel
  induction fuel with
  | zero => intro buf w; exact ⟨0, Nat.zero_le _, by simp [writeAllLoop], fun h => by simp [writeAllLoop] at h⟩
  | succ fuel ih =>
    intro buf w
    by_cases hb : buf = []
    · subst hb; exact ⟨0, Nat.le_refl _, by simp [writeAllLoop], fun _ => rfl⟩
    · have hne : buf.isEmpty = false := by cases buf with
        | nil => exact absurd rfl hb
        | cons a as => rfl
      simp only [writeAllLoop, hne, Bool.false_eq_true, if_false]
      cases hw : scriptWrite sc buf w with
      | ok r =>
        obtain ⟨n, w'⟩ := r
        obtain ⟨hn, hd⟩ := scriptWrite_delivers sc buf w w' n hb hw
        simp only
        by_cases hz : n = 0
        · subst hz
          simp only [beq_self_eq_true, if_true]
          exact ⟨0, Nat.zero_le _, by rw [hd], fun h => by cases h⟩
        · have : (n == 0) = false := by simpa using hz
          simp only [this, Bool.false_eq_true, if_false]
          obtain ⟨k, hk, hdk, hok⟩ := ih (buf.drop n) w'
          have hl : (buf.drop n).length = buf.length - n := List.length_drop
          refine ⟨n + k, by omega, ?_, fun h => by have := hok h; omega⟩
          rw [hdk, hd, List.append_assoc]
          congr 1
          rw [List.take_add]
      | err e =>
        simp only
        by_cases hi : e.kind = .interrupted
        · simp only [hi, if_true]
          obtain ⟨k, hk, hdk, hok⟩ := ih buf (afterIntrW w)
          exact ⟨k, hk, by rw [hdk]; rfl, hok⟩
        · simp only [hi, if_false]
          exact ⟨0, Nat.zero_le _, by simp, fun h => by cases h⟩
      | panic p => exact ⟨0, Nat.zero_le _, by simp, fun h => by cases h⟩

/-- **every scripted writer honours the `io::Write` contract**, so it is an instance of the
any-writer theorem: for every script — chunk pattern, interrupt placement, `Ok(0)` or hard failure at
any offset — `C12_any_writer` applies without further hypotheses -/
def AnyWriter.script (sc : Script) : AnyWriter WState where
  writeAll b w := Borsh.writeAll sc b w
  delivered w := w.delivered
  ok_all := by
    intro b w w' h
    obtain ⟨k, _, hd, hok⟩ := writeAllLoop_prefix sc (b.length + totalPending w.intr + 1) b w
    unfold Borsh.writeAll at h
    rw [h] at hd hok
    have := hok rfl
    subst this
    simpa using hd
  fail_prefix := by
    intro b w w' r h _
    obtain ⟨k, hk, hd, _⟩ := writeAllLoop_prefix sc (b.length + totalPending w.intr + 1) b w
    unfold Borsh.writeAll at h
    rw [h] at hd
    exact ⟨k, hk, hd⟩

theorem runTrace_eq_any (sc : Script) : ∀ (cs : List Bytes) (st : Out Unit) (w : WState),
    runTrace sc cs st w = runTraceAny (AnyWriter.script sc) cs st w := by
  intro cs
  induction cs with
  | nil => intro st w; rfl
  | cons c cs ih =>
    intro st w
    have hwa : (AnyWriter.script sc).writeAll c w = Borsh.writeAll sc c w := rfl
    simp only [runTrace, runTraceAny, hwa]
    cases hw : Borsh.writeAll sc c w with
    | mk w' r =>
      cases r with
      | ok u => cases u; simp only; exact ih st w'
      | err e => rfl
      | panic p => rfl

/-- `to_writer` into a scripted writer *is* the any-writer run at that instance -/
theorem toWriterScript_eq_any (sc : Script) (intr : List (Nat × Nat)) (t : Ty) (v : Val) :
    toWriterScript sc intr t v = toWriterAny (AnyWriter.script sc) t v ⟨[], intr⟩ := by
  simp only [toWriterScript, toWriterAny, runTrace_eq_any]

/-- **C12 for every scripted writer, unconditionally**: whatever the script does, the bytes that
reached the sink are a prefix of the encoding, and `Ok` means the whole encoding arrived -/
theorem C12_script_prefix (sc : Script) (intr : List (Nat × Nat)) (t : Ty) (v : Val) :
    (∃ k, k ≤ (ser t v).bytes.length ∧
      (toWriterScript sc intr t v).1.delivered = (ser t v).bytes.take k) ∧
    ((toWriterScript sc intr t v).2 = .ok () →
      (toWriterScript sc intr t v).1.delivered = (ser t v).bytes ∧ toVec t v = .ok (ser t v).bytes) := by
  rw [toWriterScript_eq_any]
  have := C12_any_writer (AnyWriter.script sc) t v ⟨[], intr⟩
  simpa [AnyWriter.script] using this

end Borsh
