/-
  C13 — std and no_std builds are observably equivalent.

  The codec model (`ser`, `de`, `toVec`, `fromSlice`) has no io parameter at all: both builds
  compile the same borsh source and are described by the same functions; what differs is the io
  facade, which is modelled twice and proved equivalent here.
-/
import BorshModel.IoOps
import BorshModel.Io
namespace Borsh

/-- `Read for &[u8]`: the shim behaves like std::io for every sequence of reads -/
theorem C13_reader_equiv (ops : List IoOp) (s : Bytes) :
    NoStd.readerOps ops s = Std.readerOps ops s := by
  induction ops generalizing s with
  | nil => rfl
  | cons op ops ih =>
    cases op with
    | read n =>
      simp only [NoStd.readerOps, Std.readerOps]
      have h1 : List.take (min n s.length) s = List.take n s := by
        by_cases h : n ≤ s.length
        · rw [Nat.min_eq_left h]
        · rw [Nat.min_eq_right (by omega), List.take_of_length_le (Nat.le_refl _), List.take_of_length_le (by omega)]
      have h2 : List.drop (min n s.length) s = List.drop n s := by
        by_cases h : n ≤ s.length
        · rw [Nat.min_eq_left h]
        · rw [Nat.min_eq_right (by omega), List.drop_of_length_le (Nat.le_refl _), List.drop_of_length_le (by omega)]
      rw [h1, h2, ih]
    | readExact n =>
      simp only [NoStd.readerOps, Std.readerOps]
      by_cases h : n ≤ s.length
      · have : ¬ n > s.length := by omega
        simp [h, this, ih]
      · have : n > s.length := by omega
        simp [h, this, eEof]
    | write bs => simp only [NoStd.readerOps, Std.readerOps, ih]
    | writeAll bs => simp only [NoStd.readerOps, Std.readerOps, ih]
    | flush => simp only [NoStd.readerOps, Std.readerOps, ih]

/-- `Write for &mut [u8]`: same for every sequence of writes, full buffers included -/
theorem C13_slice_writer_equiv (ops : List IoOp) (st : Bytes × Nat) :
    NoStd.sliceWriterOps ops st = Std.sliceWriterOps ops st := by
  induction ops generalizing st with
  | nil => rfl
  | cons op ops ih =>
    obtain ⟨w, room⟩ := st
    cases op <;> simp only [NoStd.sliceWriterOps, Std.sliceWriterOps, ih, eWriteZero]

/-- `Write for Vec<u8>` -/
theorem C13_vec_writer_equiv (ops : List IoOp) (w : Bytes) :
    NoStd.vecWriterOps ops w = Std.vecWriterOps ops w := by
  induction ops generalizing w with
  | nil => rfl
  | cons op ops ih => cases op <;> simp only [NoStd.vecWriterOps, Std.vecWriterOps, ih]

/-- the default `read_exact` loops of both io implementations coincide on every script -/
theorem C13_read_exact_loop_equiv (sc : Script) (n : Nat) (s : RState) :
    NoStd.readExact sc n s = Std.readExact sc n s := rfl

/-- non-vacuity: reads past the end, zero-length reads, writes into a full buffer -/
example :
    (NoStd.readerOps [.read 2, .read 0, .readExact 1, .read 9, .readExact 1] [1, 2, 3, 4] ==
       ([.got [1, 2], .got [], .got [3], .got [4], .failed eEof], [])) &&
    (NoStd.sliceWriterOps [.write [1, 2], .writeAll [3, 4, 5], .write [6], .flush] ([], 4) ==
       ([.count 2, .failed eWriteZero, .count 0, .unit], ([1, 2, 3, 4], 0))) = true := by
  decide

end Borsh
