/-
  C14 — Collections of zero-sized elements are refused consistently.
-/
import BorshModel.Theorems.C16
import BorshModel.Lemmas.WireZero
import BorshModel.Lemmas.SchemaBound
import BorshModel.Lemmas.SchemaCoherentMain
import BorshModel.SchemaOf
namespace Borsh

/-- serializing: every owned sequence kind refuses zero-sized elements with the public
InvalidData message, and nothing at all is written -/
theorem C14_ser_refused_seq (k : SeqK) (t : Ty) (vs : List Val) (hk : k.serChecksZst = true)
    (hz : memZero t = true) :
    ser (.seq k t) (.list vs) = ⟨[], .err ⟨.invalidData, .zst⟩⟩ := by
  simp [ser, hk, hz, Tr.fail, eZst]

theorem C14_ser_refused_deque (t : Ty) (a b : List Val) (hz : memZero t = true) :
    ser (.seq .vecDeque t) (.deque a b) = ⟨[], .err ⟨.invalidData, .zst⟩⟩ := by
  simp [ser, hz, Tr.fail, eZst]

theorem C14_ser_refused_set (k : SetK) (t : Ty) (vs : List Val) (hz : memZero t = true) :
    ser (.set k t) (.list vs) = ⟨[], .err ⟨.invalidData, .zst⟩⟩ := by
  simp [ser, hz, Tr.fail, eZst]

/-- maps are refused by *key* type -/
theorem C14_ser_refused_map (k : MapK) (kt vt : Ty) (es : List Val) (hz : memZero kt = true) :
    ser (.map k kt vt) (.list es) = ⟨[], .err ⟨.invalidData, .zst⟩⟩ := by
  simp [ser, hz, Tr.fail, eZst]

/-- deserializing: refused before any length is trusted — on *every* input, the empty one
included, from any reader (nothing is read) -/
theorem C14_de_refused_seq {σ : Type} (rd : Rd σ) (st : Bool) (k : SeqK) (t : Ty) (s : σ)
    (hk : k ≠ .bytesMut) (hz : memZero t = true) :
    de rd st (.seq k t) s = .err ⟨.invalidData, .zst⟩ := by
  cases k <;> first | exact absurd rfl hk | simp [de, hz, eZst]

theorem C14_de_refused_set {σ : Type} (rd : Rd σ) (st : Bool) (k : SetK) (t : Ty) (s : σ)
    (hz : memZero t = true) : de rd st (.set k t) s = .err ⟨.invalidData, .zst⟩ := by
  simp [de, hz, eZst]

theorem C14_de_refused_map {σ : Type} (rd : Rd σ) (st : Bool) (k : MapK) (kt vt : Ty) (s : σ)
    (hz : memZero kt = true) : de rd st (.map k kt vt) s = .err ⟨.invalidData, .zst⟩ := by
  simp [de, hz, eZst]

/-- fixed-size arrays, tuples and options of zero-sized types remain usable -/
theorem C14_fixed_ok_array (st : Bool) (n : Nat) (t : Ty) (v : Val) (bs : Bytes)
    (hp : keysOk t = true) (hw : WfTy t = true) (hv : HasTy (.array n t) v = true)
    (he : toVec (.array n t) v = .ok bs) :
    fromSlice st (.array n t) bs = .ok (canon (.array n t) v) :=
  C01_roundtrip_partial (.array n t) (by simpa [keysOk] using hp) (by simpa [WfTy] using hw) st v bs hv he

/-- run-time refusal and the zero-sized-sequence verdict of schema validation agree on
`Vec<()>`, `Vec<[u8; 0]>`, `Vec<((), ())>`, `Vec<([(); 0], [(); 0])>`, `BTreeSet<()>` … -/
theorem C14_agrees_with_schema_examples :
    let zsts : List Ty := [Ty.unit, .array 0 (.int .u8), .prod .tuple [(none, false, Ty.unit), (none, false, Ty.unit)],
      .prod .tuple [(none, false, .array 0 Ty.unit), (none, false, .array 0 Ty.unit)], .array 5 Ty.unit,
      .prod .phantom [], .prod .rangeFull []]
    zsts.all (fun t =>
      memZero t &&
      (match schemaOf (.seq .vec t) with
       | .ok c => c.validate == .error (.zstSequence c.decl)
       | _ => false) &&
      (match schemaOf (.set .btreeSet t) with
       | .ok c => c.validate == .error (.zstSequence c.decl)
       | _ => false)) = true := by
  decide +kernel

/-- … and on element types that occupy memory and wire: neither refuses -/
theorem C14_agrees_nonzero_examples :
    let ts : List Ty := [.int .u8, .str .string, .array 2 (.int .u16), .bool]
    ts.all (fun t =>
      !memZero t &&
      (match schemaOf (.seq .vec t) with
       | .ok c => c.validate == .ok ()
       | _ => false)) = true := by
  decide +kernel

/-- a `Vec`-like definition whose element declaration is zero-sized gets the zero-sized-sequence
verdict at the root -/
theorem validate_flags_zst_root (c : Container) (e : Name)
    (hg : c.get c.decl = some (defaultSeq e)) (hz : ZeroSized c e) :
    c.validate = .error (.zstSequence c.decl) := by
  have hzs := (isZeroSize_iff c e).mpr hz
  unfold Container.validate validateImpl
  simp only [hg, defaultSeq, List.contains_nil, Bool.false_eq_true, if_false, isFixedLen]
  have h1 : ((4 : Nat) == 0 && (0 : Nat) == 2 ^ 32 - 1) = false := by decide
  have h2 : ¬ (2 ^ 32 - 1 < (0 : Nat)) := by decide
  have h3 : checkLengthWidth c.decl 4 (2 ^ 32 - 1) = .ok () := by
    simp [checkLengthWidth]
  simp only [h1, Bool.false_eq_true, if_false, h2, h3, Res.bind, hzs]

/-- **Agreement of the run-time refusal with schema validation, for every element type**: if the
element type is empty both in memory (`memZero`) and on the wire (`wireZero`), then serializing a
`Vec`/`VecDeque`/`LinkedList`/`IndexSet` of it is refused, deserializing is refused before any
length is read, and the container generated for the collection gets the zero-sized-sequence
verdict from `validate` (whenever the container binds the element type as intended — which
`C08_builtin_bound` shows for the built-in compositions). -/
theorem C14_agreement_seq (c : Container) (k : SeqK) (t : Ty) (hk : k.serChecksZst = true)
    (hkb : k ≠ .bytesMut) (hs : shapeOk t = true) (hm : memZero t = true) (hw : wireZero t = true)
    (hb : Bnd c (.seq k t)) (hd : c.decl = declOf (.seq k t)) (vs : List Val) (st : Bool) (bs : Bytes) :
    (ser (.seq k t) (.list vs)).status = .err ⟨.invalidData, .zst⟩ ∧
    deserialize st (.seq k t) bs = .err ⟨.invalidData, .zst⟩ ∧
    c.validate = .error (.zstSequence c.decl) := by
  refine ⟨?_, ?_, ?_⟩
  · simp [ser, hk, hm, Tr.fail, eZst]
  · unfold deserialize
    cases k <;> first | exact absurd rfl hkb | simp [de, hm, eZst]
  · simp only [Bnd] at hb
    exact validate_flags_zst_root c (declOf t) (by rw [hd]; exact hb.1) (wireZero_zeroSized c t hs hw hb.2)

theorem C14_agreement_set (c : Container) (k : SetK) (t : Ty) (hs : shapeOk t = true)
    (hm : memZero t = true) (hw : wireZero t = true)
    (hb : Bnd c (.set k t)) (hd : c.decl = declOf (.set k t)) (vs : List Val) (st : Bool) (bs : Bytes) :
    (ser (.set k t) (.list vs)).status = .err ⟨.invalidData, .zst⟩ ∧
    deserialize st (.set k t) bs = .err ⟨.invalidData, .zst⟩ ∧
    c.validate = .error (.zstSequence c.decl) := by
  refine ⟨?_, ?_, ?_⟩
  · simp [ser, hm, Tr.fail, eZst]
  · simp [deserialize, de, hm, eZst]
  · simp only [Bnd] at hb
    exact validate_flags_zst_root c (declOf t) (by rw [hd]; exact hb.1) (wireZero_zeroSized c t hs hw hb.2)

/-- the same, end to end, for element types built from the built-in impls -/
theorem C14_agreement_builtin (k : SeqK) (t : Ty) (hk : k.serChecksZst = true) (hkb : k ≠ .bytesMut)
    (hg : guardFree t = true) (hs : shapeOk t = true) (hm : memZero t = true) (hw : wireZero t = true)
    (c : Container) (hc : schemaOf (.seq k t) = .ok c) :
    c.validate = .error (.zstSequence c.decl) := by
  have hg' : guardFree (.seq k t) = true := by simpa [guardFree] using hg
  unfold schemaOf at hc
  obtain ⟨m, h1, h2⟩ := Res.bind_eq_ok hc
  cases h2
  obtain ⟨_, _, hb⟩ := adds_all (.seq k t) hg' [] m List.Pairwise.nil h1
  exact (C14_agreement_seq ⟨declOf (.seq k t), m⟩ k t hk hkb hs hm hw (hb _) rfl [] false []).2.2

/-- the same, end to end, for **every name-coherent element type** — derived unit structs, structs of
`PhantomData` and zero-length arrays, enums … included: the container `for_type::<Vec<T>>()` generates
gets the zero-sized-sequence verdict exactly where the run time refuses the collection -/
theorem C14_agreement_coherent (k : SeqK) (t : Ty) (hk : k.serChecksZst = true) (hkb : k ≠ .bytesMut)
    (hco : coherentB (.seq k t) = true) (hs : shapeOk t = true) (hm : memZero t = true)
    (hw : wireZero t = true) (c : Container) (hc : schemaOf (.seq k t) = .ok c) :
    c.validate = .error (.zstSequence c.decl) := by
  obtain ⟨hb, hd⟩ := schemaOf_bnd (.seq k t) c (coherentB_sound _ hco) hc
  exact (C14_agreement_seq c k t hk hkb hs hm hw hb hd [] false []).2.2

theorem C14_agreement_coherent_set (k : SetK) (t : Ty)
    (hco : coherentB (.set k t) = true) (hs : shapeOk t = true) (hm : memZero t = true)
    (hw : wireZero t = true) (c : Container) (hc : schemaOf (.set k t) = .ok c) :
    c.validate = .error (.zstSequence c.decl) := by
  obtain ⟨hb, hd⟩ := schemaOf_bnd (.set k t) c (coherentB_sound _ hco) hc
  exact (C14_agreement_set c k t hs hm hw hb hd [] false []).2.2

/-- non-vacuity: `Vec<Unit>` for a derived unit struct and `BTreeSet<(Marker, [u8; 0])>` -/
example :
    let u := Ty.prod (.struct [85] false) []
    let m := Ty.prod (.struct [77] false) [(some [112], false, .prod .phantom [])]
    let e := Ty.tuple [m, .array 0 (.int .u8)]
    (coherentB (.seq .vec u) && shapeOk u && memZero u && wireZero u &&
     coherentB (.set .btreeSet e) && shapeOk e && memZero e && wireZero e &&
     (match schemaOf (.seq .vec u) with | .ok c => c.validate == .error (.zstSequence c.decl) | _ => false)) = true := by
  decide +kernel

end Borsh
