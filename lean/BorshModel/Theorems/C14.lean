/-
  C14 — Collections of zero-sized elements are refused consistently.
-/
import BorshModel.Theorems.C16
import BorshModel.SchemaOf
namespace Borsh

/-- serializing: every owned sequence kind refuses zero-sized elements with the public
InvalidData message, and nothing at all is written -/
theorem C14_ser_refused_seq (k : SeqK) (t : Ty) (vs : List Val) (hk : k.serChecksZst = true)
    (hz : memZero t = true) :
    ser (.seq k t) (.list vs) = ⟨[], .err ⟨.invalidData, .zst⟩⟩ := by
  simp [ser, hk, hz, Tr.fail, eZst]

theorem C14_ser_refused_deque (t : Ty) (a b : List Val) (hz : memZero t = true) :
    ser (.seq .vecDeque t) (.deque a b) = ⟨[], .err ⟨.invalidData, .zst⟩⟩ := by
  simp [ser, hz, Tr.fail, eZst]

theorem C14_ser_refused_set (k : SetK) (t : Ty) (vs : List Val) (hz : memZero t = true) :
    ser (.set k t) (.list vs) = ⟨[], .err ⟨.invalidData, .zst⟩⟩ := by
  simp [ser, hz, Tr.fail, eZst]

/-- maps are refused by *key* type -/
theorem C14_ser_refused_map (k : MapK) (kt vt : Ty) (es : List Val) (hz : memZero kt = true) :
    ser (.map k kt vt) (.list es) = ⟨[], .err ⟨.invalidData, .zst⟩⟩ := by
  simp [ser, hz, Tr.fail, eZst]

/-- deserializing: refused before any length is trusted — on *every* input, the empty one
included, from any reader (nothing is read) -/
theorem C14_de_refused_seq {σ : Type} (rd : Rd σ) (st : Bool) (k : SeqK) (t : Ty) (s : σ)
    (hk : k ≠ .bytesMut) (hz : memZero t = true) :
    de rd st (.seq k t) s = .err ⟨.invalidData, .zst⟩ := by
  cases k <;> first | exact absurd rfl hk | simp [de, hz, eZst]

theorem C14_de_refused_set {σ : Type} (rd : Rd σ) (st : Bool) (k : SetK) (t : Ty) (s : σ)
    (hz : memZero t = true) : de rd st (.set k t) s = .err ⟨.invalidData, .zst⟩ := by
  simp [de, hz, eZst]

theorem C14_de_refused_map {σ : Type} (rd : Rd σ) (st : Bool) (k : MapK) (kt vt : Ty) (s : σ)
    (hz : memZero kt = true) : de rd st (.map k kt vt) s = .err ⟨.invalidData, .zst⟩ := by
  simp [de, hz, eZst]

/-- fixed-size arrays, tuples and options of zero-sized types remain usable -/
theorem C14_fixed_ok_array (st : Bool) (n : Nat) (t : Ty) (v : Val) (bs : Bytes)
    (hp : keysOk t = true) (hw : WfTy t = true) (hv : HasTy (.array n t) v = true)
    (he : toVec (.array n t) v = .ok bs) :
    fromSlice st (.array n t) bs = .ok (canon (.array n t) v) :=
  C01_roundtrip_partial (.array n t) (by simpa [keysOk] using hp) (by simpa [WfTy] using hw) st v bs hv he

/-- run-time refusal and the zero-sized-sequence verdict of schema validation agree on
`Vec<()>`, `Vec<[u8; 0]>`, `Vec<((), ())>`, `Vec<([(); 0], [(); 0])>`, `BTreeSet<()>` … -/
theorem C14_agrees_with_schema_examples :
    let zsts : List Ty := [Ty.unit, .array 0 (.int .u8), .prod .tuple [(none, false, Ty.unit), (none, false, Ty.unit)],
      .prod .tuple [(none, false, .array 0 Ty.unit), (none, false, .array 0 Ty.unit)], .array 5 Ty.unit,
      .prod .phantom [], .prod .rangeFull []]
    zsts.all (fun t =>
      memZero t &&
      (match schemaOf (.seq .vec t) with
       | .ok c => c.validate == .error (.zstSequence c.decl)
       | _ => false) &&
      (match schemaOf (.set .btreeSet t) with
       | .ok c => c.validate == .error (.zstSequence c.decl)
       | _ => false)) = true := by
  decide +kernel

/-- … and on element types that occupy memory and wire: neither refuses -/
theorem C14_agrees_nonzero_examples :
    let ts : List Ty := [.int .u8, .str .string, .array 2 (.int .u16), .bool]
    ts.all (fun t =>
      !memZero t &&
      (match schemaOf (.seq .vec t) with
       | .ok c => c.validate == .ok ()
       | _ => false)) = true := by
  decide +kernel

end Borsh
