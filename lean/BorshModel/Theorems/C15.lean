/-
  C15 — Array decoding neither leaks nor double-drops under failure at any element.
-/
import BorshModel.ArrayGuard
namespace Borsh

/-- the invariant of the fill loop: exactly the first `initCount` slots are initialised, with
their own index, and the events so far are the constructions `0 … initCount-1` in order -/
structure FillInv (N : Nat) (g : Guard) (evs : List Ev) : Prop where
  len : g.slots.length = N
  le : g.initCount ≤ N
  slots : g.slots = (List.range g.initCount).map some ++ List.replicate (N - g.initCount) none
  evs : evs = (List.range g.initCount).map Ev.construct

theorem fillInv_init (N : Nat) : FillInv N ⟨List.replicate N none, 0⟩ [] :=
  ⟨by simp, Nat.zero_le _, by simp, by simp⟩

theorem set_step (N k : Nat) (h : k < N) :
    ((List.range k).map some ++ List.replicate (N - k) none).set k (some k) =
      (List.range (k + 1)).map some ++ List.replicate (N - (k + 1)) (none : Option Nat) := by
  have hrep : List.replicate (N - k) (none : Option Nat) = none :: List.replicate (N - (k + 1)) none := by
    have : N - k = (N - (k + 1)) + 1 := by omega
    rw [this, List.replicate_succ]
  rw [hrep, List.set_append_right _ _ (by simp)]
  simp [List.range_succ]

theorem fillBuffer_spec (plan : Nat → ElemResult) (N : Nat) :
    ∀ (n : Nat) (g : Guard) (evs : List Ev), FillInv N g evs → g.initCount + n = N →
      (∀ i < g.initCount, plan i = .ok) →
      FillInv N (fillBuffer plan n g evs).1 (fillBuffer plan n g evs).2.1 ∧
      (∀ i < (fillBuffer plan n g evs).1.initCount, plan i = .ok) ∧
      ((fillBuffer plan n g evs).2.2 = .ok → (fillBuffer plan n g evs).1.initCount = N) ∧
      ((fillBuffer plan n g evs).2.2 ≠ .ok →
        (fillBuffer plan n g evs).1.initCount < N ∧
        plan (fillBuffer plan n g evs).1.initCount = (fillBuffer plan n g evs).2.2) := by
  intro n
  induction n with
  | zero =>
    intro g evs hinv hn hok
    simp only [fillBuffer]
    exact ⟨hinv, hok, fun _ => by omega, fun h => absurd rfl h⟩
  | succ n ih =>
    intro g evs hinv hn hok
    simp only [fillBuffer]
    cases hp : plan g.initCount with
    | ok =>
      simp only
      have hlt : g.initCount < N := by omega
      apply ih
      · refine ⟨by simp [hinv.len], by simp; omega, ?_, ?_⟩
        · simp only
          rw [hinv.slots]; exact set_step N g.initCount hlt
        · simp only
          rw [hinv.evs, List.range_succ]; simp
      · simp only; omega
      · intro i hi
        simp only at hi
        by_cases h : i < g.initCount
        · exact hok i h
        · have : i = g.initCount := by omega
          rw [this]; exact hp
    | err =>
      simp only
      exact ⟨hinv, hok, fun h => by simp at h, fun _ => ⟨by omega, hp⟩⟩
    | panic =>
      simp only
      exact ⟨hinv, hok, fun h => by simp at h, fun _ => ⟨by omega, hp⟩⟩

theorem dropEvents_of_inv {N : Nat} {g : Guard} {evs : List Ev} (h : FillInv N g evs) :
    g.dropEvents = (List.range g.initCount).map Ev.dropElem := by
  unfold Guard.dropEvents
  rw [h.slots, List.take_append_of_le_length (by simp)]
  have : List.take g.initCount ((List.range g.initCount).map some) = (List.range g.initCount).map some := by
    apply List.take_of_length_le; simp
  rw [this]
  apply List.ext_getElem
  · simp
  · intro i h1 h2
    simp

/-- **Failure at position `k`** (error return or panic): exactly the elements `0 … k-1` were
constructed, each is dropped exactly once, in index order; element `k` is never constructed,
nothing is handed over, nothing uninitialised is touched. -/
theorem C15_failure_at_k (N : Nat) (plan : Nat → ElemResult) (k : Nat) (hk : k < N)
    (hbefore : ∀ i < k, plan i = .ok) (hfail : plan k ≠ .ok) :
    (arrayRun N plan).1 = (List.range k).map Ev.construct ++ (List.range k).map Ev.dropElem ∧
    (arrayRun N plan).2 = (if plan k = .err then .failed else .unwound) := by
  have hs := fillBuffer_spec plan N N ⟨List.replicate N none, 0⟩ [] (fillInv_init N) (by simp)
    (by intro i hi; simp at hi)
  obtain ⟨hinv, hok, hfin, hstop⟩ := hs
  -- the loop stopped at k
  have hne : (fillBuffer plan N ⟨List.replicate N none, 0⟩ []).2.2 ≠ .ok := by
    intro heq
    have := hfin heq
    have := hok k (by omega)
    exact hfail this
  obtain ⟨hlt, hplan⟩ := hstop hne
  have hcount : (fillBuffer plan N ⟨List.replicate N none, 0⟩ []).1.initCount = k := by
    generalize (fillBuffer plan N ⟨List.replicate N none, 0⟩ []).1.initCount = c at *
    by_cases h1 : c < k
    · have := hbefore c h1; rw [this] at hplan; exact absurd hplan.symm hne
    · by_cases h2 : k < c
      · exact absurd (hok k h2) hfail
      · omega
  unfold arrayRun
  simp only
  have hd := dropEvents_of_inv hinv
  rw [hcount] at hplan hd
  have hevs := hinv.evs
  rw [hcount] at hevs
  cases hr : (fillBuffer plan N ⟨List.replicate N none, 0⟩ []).2.2 with
  | ok => exact absurd hr hne
  | err => simp only [hr]; rw [hevs, hd, hplan.trans hr]; simp
  | panic => simp only [hr]; rw [hevs, hd, hplan.trans hr]; simp

/-- **Success**: every element is constructed once and handed to the caller once; the guard
drops nothing (its count was reset), nothing uninitialised is touched. -/
theorem C15_success (N : Nat) (plan : Nat → ElemResult) (hall : ∀ i < N, plan i = .ok) :
    (arrayRun N plan).1 = (List.range N).map Ev.construct ++ (List.range N).map Ev.handOver ∧
    (arrayRun N plan).2 = .returned := by
  have hs := fillBuffer_spec plan N N ⟨List.replicate N none, 0⟩ [] (fillInv_init N) (by simp)
    (by intro i hi; simp at hi)
  obtain ⟨hinv, hok, hfin, hstop⟩ := hs
  have hr : (fillBuffer plan N ⟨List.replicate N none, 0⟩ []).2.2 = .ok := by
    cases h : (fillBuffer plan N ⟨List.replicate N none, 0⟩ []).2.2 with
    | ok => rfl
    | err =>
      have := hstop (by rw [h]; simp)
      rw [hall _ this.1] at this; rw [h] at this; simp at this
    | panic =>
      have := hstop (by rw [h]; simp)
      rw [hall _ this.1] at this; rw [h] at this; simp at this
  have hc := hfin hr
  unfold arrayRun
  simp only [hr, transmute, Guard.dropEvents, List.take_zero, List.mapIdx_nil, List.append_nil,
    and_true]
  rw [hinv.evs, hc]
  congr 1
  rw [hinv.slots, hc]
  simp only [Nat.sub_self, List.replicate_zero, List.append_nil]
  apply List.ext_getElem
  · simp
  · intro i h1 h2
    simp

/-- either every position decodes, or there is a first one that does not -/
theorem first_failure (plan : Nat → ElemResult) (N : Nat) :
    (∀ j < N, plan j = .ok) ∨ ∃ k, k < N ∧ plan k ≠ .ok ∧ ∀ j < k, plan j = .ok := by
  induction N with
  | zero => left; intro j hj; omega
  | succ N ih =>
    cases ih with
    | inr h =>
      obtain ⟨k, hk, h1, h2⟩ := h
      right; exact ⟨k, by omega, h1, h2⟩
    | inl h =>
      by_cases hN : plan N = .ok
      · left
        intro j hj
        by_cases hj' : j < N
        · exact h j hj'
        · have : j = N := by omega
          rw [this]; exact hN
      · right; exact ⟨N, by omega, hN, h⟩

/-- nothing uninitialised is ever read or dropped, whatever the plan -/
theorem C15_no_uninit_touch (N : Nat) (plan : Nat → ElemResult) :
    ∀ i, Ev.touchUninit i ∉ (arrayRun N plan).1 := by
  intro i
  cases first_failure plan N with
  | inl hall => rw [(C15_success N plan hall).1]; simp
  | inr h =>
    obtain ⟨k, hk, hne, hbefore⟩ := h
    rw [(C15_failure_at_k N plan k hk hbefore hne).1]; simp

/-- every constructed element is released exactly once (dropped by the guard or handed to the
caller), whatever the plan -/
theorem C15_exactly_once (N : Nat) (plan : Nat → ElemResult) (i : Nat) :
    ((arrayRun N plan).1.count (.construct i)) =
      ((arrayRun N plan).1.count (.dropElem i)) + ((arrayRun N plan).1.count (.handOver i)) := by
  have hcount : ∀ (f : Nat → Ev) (hf : ∀ a b, f a = f b → a = b) (n : Nat),
      ((List.range n).map f).count (f i) = if i < n then 1 else 0 := by
    intro f hf n
    induction n with
    | zero => simp
    | succ n ih =>
      rw [List.range_succ, List.map_append, List.count_append, ih]
      by_cases h1 : i < n
      · have : ¬ (f n = f i) := fun h => by have := hf _ _ h; omega
        simp [h1, this]; omega
      · by_cases h2 : i = n
        · subst h2; simp
        · have : ¬ (f n = f i) := fun h => by have := hf _ _ h; omega
          simp [h1, this]; omega
  have hz : ∀ (f g : Nat → Ev) (hfg : ∀ a b, f a ≠ g b) (n : Nat), ((List.range n).map f).count (g i) = 0 := by
    intro f g hfg n
    apply List.count_eq_zero.mpr
    intro hmem
    obtain ⟨a, _, ha⟩ := List.mem_map.mp hmem
    exact hfg a i ha
  cases first_failure plan N with
  | inl hall =>
    rw [(C15_success N plan hall).1]
    simp only [List.count_append]
    rw [hcount Ev.construct (fun a b h => by injection h) N,
        hz Ev.handOver Ev.construct (fun a b h => by cases h) N,
        hz Ev.construct Ev.dropElem (fun a b h => by cases h) N,
        hz Ev.handOver Ev.dropElem (fun a b h => by cases h) N,
        hz Ev.construct Ev.handOver (fun a b h => by cases h) N,
        hcount Ev.handOver (fun a b h => by injection h) N]
    omega
  | inr h =>
    obtain ⟨k, hk, hne, hbefore⟩ := h
    rw [(C15_failure_at_k N plan k hk hbefore hne).1]
    simp only [List.count_append]
    rw [hcount Ev.construct (fun a b h => by injection h) k,
        hz Ev.dropElem Ev.construct (fun a b h => by cases h) k,
        hz Ev.construct Ev.dropElem (fun a b h => by cases h) k,
        hcount Ev.dropElem (fun a b h => by injection h) k,
        hz Ev.construct Ev.handOver (fun a b h => by cases h) k,
        hz Ev.dropElem Ev.handOver (fun a b h => by cases h) k]
    omega

/-- non-vacuity: N = 5, error at 3; N = 4 panic at 0; N = 3 success -/
example :
    (arrayRun 5 (fun i => if i == 3 then .err else .ok) ==
      ([.construct 0, .construct 1, .construct 2, .dropElem 0, .dropElem 1, .dropElem 2], .failed)) &&
    (arrayRun 4 (fun _ => .panic) == ([], .unwound)) &&
    (arrayRun 3 (fun _ => .ok) ==
      ([.construct 0, .construct 1, .construct 2, .handOver 0, .handOver 1, .handOver 2], .returned)) = true := by
  decide

/-- a destructor that unwinds during the guard's cleanup changes how the call ends, not which
elements are released: every constructed element is still dropped exactly once (what the code relies
on is the drop glue of slices; a hand-written loop over the prefix would stop at the first unwinding
destructor - seeded change C15e) -/
theorem C15_exactly_once_with_unwinding_destructor (N : Nat) (plan : Nat → ElemResult) (j i : Nat) :
    ((arrayRunDropPanic N plan j).1.count (.construct i)) =
      ((arrayRunDropPanic N plan j).1.count (.dropElem i)) +
      ((arrayRunDropPanic N plan j).1.count (.handOver i)) :=
  C15_exactly_once N plan i

example :
    (arrayRunDropPanic 5 (fun i => if i == 3 then .err else .ok) 1 ==
      ([.construct 0, .construct 1, .construct 2, .dropElem 0, .dropElem 1, .dropElem 2], .unwound)) &&
    (arrayRunDropPanic 5 (fun i => if i == 3 then .err else .ok) 4 ==
      ([.construct 0, .construct 1, .construct 2, .dropElem 0, .dropElem 1, .dropElem 2], .failed)) = true := by
  decide

end Borsh
