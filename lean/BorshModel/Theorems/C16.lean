/-
  C16 — Malformed in-memory input is always reported as InvalidData.
-/
import BorshModel.Lemmas.Safe
import BorshModel.Theorems.C05
import BorshModel.Lemmas.ErrExt
namespace Borsh

/-- For every type, every byte string and both key-order modes: if `deserialize` on a slice
fails, the error kind is `InvalidData` (no `UnexpectedEof` or any other kind escapes). -/
theorem C16_kind_deserialize (st : Bool) (t : Ty) (bs : Bytes) (e : Err)
    (h : deserialize st t bs = .err e) : e.kind = .invalidData := by
  have := de_safe_all t st bs
  unfold deserialize at h
  rw [h] at this
  exact this

/-- the same for the whole-input entry points `from_slice` / `try_from_slice` -/
theorem C16_kind (st : Bool) (t : Ty) (bs : Bytes) (e : Err)
    (h : fromSlice st t bs = .err e) : e.kind = .invalidData := by
  unfold fromSlice at h
  cases hd : deserialize st t bs with
  | ok r =>
    rw [hd] at h
    simp only [Out.bind_ok] at h
    split at h
    · simp at h
    · simp at h; rw [← h]; rfl
  | err e' =>
    rw [hd] at h
    simp only [Out.bind_err, Out.err.injEq] at h
    rw [← h]
    exact C16_kind_deserialize st t bs e' hd
  | panic p => rw [hd] at h; simp at h

/-- leftover bytes report the not-all-bytes-read message -/
theorem C16_leftover_partial (st : Bool) (t : Ty) (v : Val) (bs x : Bytes)
    (hp : keysOk t = true) (hw : WfTy t = true) (hv : HasTy t v = true) (he : toVec t v = .ok bs)
    (hx : x ≠ []) :
    fromSlice st t (bs ++ x) = .err ⟨.invalidData, .notAllBytesRead⟩ :=
  C05_trailing_rejected_partial st t v bs x hp hw hv he hx

/-- an error other than the unexpected-length one is independent of what follows the bytes that
caused it: it is reported in exactly the same way on every extension of the input (every type, both
modes) -/
theorem C16_error_stable (st : Bool) (t : Ty) (p s : Bytes) (e : Err)
    (h : deserialize st t p = .err e) (hne : e ≠ eUnexpectedLength) :
    deserialize st t (p ++ s) = .err e :=
  de_errext_all t st p e s h hne

/-- **Truncated input reports the unexpected-length message**: every proper prefix of the
encoding of a value — cut at any offset, inside a length prefix, a tag, a string, a nested
collection — is rejected by every slice entry point with `InvalidData`, "Unexpected length of
input"; no other message, no other kind. -/
theorem C16_truncated_partial (st : Bool) (t : Ty) (v : Val) (full p q : Bytes)
    (hp : keysOk t = true) (hw : WfTy t = true) (hv : HasTy t v = true) (he : toVec t v = .ok full)
    (hpq : full = p ++ q) (hq : q ≠ []) :
    deserialize st t p = .err ⟨.invalidData, .unexpectedLength⟩ ∧
    fromSlice st t p = .err ⟨.invalidData, .unexpectedLength⟩ := by
  have hfull : deserialize st t (p ++ q) = .ok (canon t v, []) := by
    have := C05_exact_consumption_partial st t v full [] hp hw hv he
    simpa [hpq] using this
  have key : deserialize st t p = .err eUnexpectedLength := by
    cases hd : deserialize st t p with
    | ok r =>
      obtain ⟨v', r'⟩ := r
      have := C05_extension st t p q r' v' hd
      rw [hfull] at this
      simp only [Out.ok.injEq, Prod.mk.injEq] at this
      have h2 : (r' ++ q).length = 0 := by rw [← this.2]; rfl
      have : q = [] := by
        cases q with
        | nil => rfl
        | cons b bs => simp at h2
      exact absurd this hq
    | err e =>
      by_cases hne : e = eUnexpectedLength
      · rw [hne]
      · have := C16_error_stable st t p q e hd hne
        rw [hfull] at this; cases this
    | panic pn =>
      have := de_safe_all t st p
      unfold deserialize at hd
      rw [hd] at this
      exact absurd this (by simp [Out.safe])
  refine ⟨key, ?_⟩
  unfold fromSlice
  rw [key]; rfl

/-- non-vacuity: a map of strings to optional pairs, cut inside the second key -/
example :
    let t := Ty.map .btreeMap (.str .string) (Ty.option (Ty.tuple [.int .u16, .bool]))
    let v := Val.list [.list [.blob [97], .variant 1 [.list [.int 513, .bool true]]],
                       .list [.blob [98, 99], .variant 0 []]]
    (keysOk t && WfTy t && HasTy t v &&
     (toVec t v).okBytes [2, 0, 0, 0, 1, 0, 0, 0, 97, 1, 1, 2, 1, 2, 0, 0, 0, 98, 99, 0] &&
     (fromSlice true t [2, 0, 0, 0, 1, 0, 0, 0, 97, 1, 1, 2, 1, 2, 0, 0, 0, 98]).errIs
        ⟨.invalidData, .unexpectedLength⟩) = true := by
  decide +kernel

/-- zero-sized collections report the public zero-sized-types message, whatever the input -/
theorem C16_zst (st : Bool) (k : SeqK) (t : Ty) (bs : Bytes) (hz : memZero t = true)
    (hk : k ≠ .bytesMut) :
    fromSlice st (.seq k t) bs = .err ⟨.invalidData, .zst⟩ := by
  unfold fromSlice deserialize
  cases k <;> first | exact absurd rfl hk | simp [de, hz, eZst]

theorem C16_zst_set (st : Bool) (k : SetK) (t : Ty) (bs : Bytes) (hz : memZero t = true) :
    fromSlice st (.set k t) bs = .err ⟨.invalidData, .zst⟩ := by
  simp [fromSlice, deserialize, de, hz, eZst]

theorem C16_zst_map (st : Bool) (k : MapK) (kt vt : Ty) (bs : Bytes) (hz : memZero kt = true) :
    fromSlice st (.map k kt vt) bs = .err ⟨.invalidData, .zst⟩ := by
  simp [fromSlice, deserialize, de, hz, eZst]

/-- truncated input of a fixed-width block reports the unexpected-length message -/
theorem C16_truncated_block (n : Nat) (bs : Bytes) (h : bs.length < n) :
    readMapped Rd.slice n bs = .err ⟨.invalidData, .unexpectedLength⟩ := by
  simp only [readMapped, slice_readExact]
  have : ¬ n ≤ bs.length := by omega
  simp [this, mapEof, eEof, eUnexpectedLength]

/-- non-vacuity: each cause named by the property, on concrete inputs -/
example :
    ((fromSlice false (.raw .objectId) [1, 2, 3]).errIs ⟨.invalidData, .unexpectedLength⟩ &&
     (fromSlice false (.int .u8) [1, 2]).errIs ⟨.invalidData, .notAllBytesRead⟩ &&
     (fromSlice false (.seq .vec Ty.unit) [0, 0, 0, 0]).errIs ⟨.invalidData, .zst⟩ &&
     (fromSlice false .bool [7]).errIs ⟨.invalidData, .badTag .bool 7⟩ &&
     (fromSlice false (.float .f32) [0, 0, 192, 127]).errIs ⟨.invalidData, .nanDe⟩ &&
     (fromSlice false (.nonzero .u16) [0, 0]).errIs ⟨.invalidData, .zeroNonZero⟩ &&
     (fromSlice false (.str .string) [1, 0, 0, 0, 255]).errIs ⟨.invalidData, .utf8⟩ &&
     (fromSlice false (.str .asciiString) [1, 0, 0, 0, 200]).errIs ⟨.invalidData, .ascii⟩ &&
     (fromSlice true (.set .btreeSet (.int .u8)) [2, 0, 0, 0, 5, 5]).errIs ⟨.invalidData, .keyOrder⟩) = true := by
  decide

end Borsh
