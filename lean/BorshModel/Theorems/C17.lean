/-
  C17 — Schema-prefixed encoding round-trips and rejects a foreign schema.
-/
import BorshModel.SchemaOf
import BorshModel.Lemmas.ContainerCodec
import BorshModel.Theorems.C01
namespace Borsh

theorem Out.bind_eq_ok' {α β : Type} {x : Out α} {f : α → Out β} {b : β}
    (h : x.bind f = .ok b) : ∃ a, x = .ok a ∧ f a = .ok b := Out.bind_eq_ok_iff.mp h

/-- Acceptance implies equal schemas: whenever `try_from_slice_with_schema::<U>` accepts, the
bytes start with a well-formed container that **equals** `U`'s own schema, the value follows,
and nothing is left.  Read contrapositively: a foreign schema, or any corruption of the embedded
schema that changes its meaning, is rejected. -/
theorem C17_accept_implies_same_schema (st : Bool) (u : Ty) (bs : Bytes) (x : Val)
    (h : tryFromSliceWithSchema st u bs = .ok x) :
    ∃ cv rest cu, deserialize st containerTy bs = .ok (cv, rest) ∧
      deserialize st u rest = .ok (x, []) ∧
      schemaOf u = .ok cu ∧ containerOfVal cv = some cu := by
  unfold tryFromSliceWithSchema at h
  obtain ⟨⟨cv, rest⟩, h1, h2⟩ := Out.bind_eq_ok' h
  obtain ⟨⟨y, r2⟩, h3, h4⟩ := Out.bind_eq_ok' h2
  dsimp only at h4
  split at h4
  · simp at h4
  · rename_i hempty
    have hr2 : r2 = [] := by
      cases r2 with
      | nil => rfl
      | cons a as => simp at hempty
    obtain ⟨cu, h5, h6⟩ := Out.bind_eq_ok' h4
    split at h6
    · rename_i heq
      simp at h6
      refine ⟨cv, rest, cu, h1, ?_, ?_, by simpa using heq⟩
      · rw [h3, hr2, h6]
      · cases hs : schemaOf u with
        | ok c => simp [hs, Res.toOut] at h5; rw [h5]
        | error e => simp [hs, Res.toOut] at h5
        | panic p => simp [hs, Res.toOut] at h5
    · simp at h6

/-- a schema mismatch is reported with the dedicated error, never silently accepted -/
theorem C17_mismatch_rejected (st : Bool) (u : Ty) (bs rest : Bytes) (cv x : Val) (cu : Container)
    (h1 : deserialize st containerTy bs = .ok (cv, rest))
    (h2 : deserialize st u rest = .ok (x, []))
    (hs : schemaOf u = .ok cu) (hne : containerOfVal cv ≠ some cu) :
    tryFromSliceWithSchema st u bs = .err ⟨.invalidData, .schemaMismatch⟩ := by
  unfold tryFromSliceWithSchema
  simp only [h1, Out.bind_ok, h2, hs, Res.toOut]
  have : (containerOfVal cv == some cu) = false := by simpa using hne
  simp [this]

/-- Round trip through the schema-prefixed entry points: what `try_to_vec_with_schema` writes,
`try_from_slice_with_schema` at the same type accepts and returns the (canonical) value, in both
key-order modes.  `hc` says the type's own container is representable on the wire (names are
UTF-8, definitions ascending by name, widths fit their fields) — a decidable fact about `u`,
discharged by evaluation in the example below and checked per type by the C17 workload.
`_partial` for the same reason as C01 (`keysOk`). -/
theorem C17_roundtrip_partial (st : Bool) (u : Ty) (v : Val) (bs : Bytes) (cu : Container)
    (hk : keysOk u = true) (hw : WfTy u = true) (hv : HasTy u v = true)
    (hs : schemaOf u = .ok cu) (hc : HasTy containerTy (containerToVal cu) = true)
    (he : tryToVecWithSchema u v = .ok bs) :
    tryFromSliceWithSchema st u bs = .ok (canon u v) := by
  unfold tryToVecWithSchema at he
  simp only [hs, Res.toOut, Out.bind_ok] at he
  obtain ⟨cb, hcb, h2⟩ := Out.bind_eq_ok_iff.mp he
  obtain ⟨vb, hvb, rfl⟩ := Out.map_eq_ok_iff.mp h2
  unfold tryFromSliceWithSchema
  rw [C01_roundtrip_stream_partial st containerTy (containerToVal cu) cb vb
    keysOk_containerTy WfTy_containerTy hc hcb]
  simp only [Out.bind_ok]
  have h3 := C01_roundtrip_stream_partial st u v vb [] hk hw hv hvb
  simp only [List.append_nil] at h3
  rw [h3]
  simp [hs, Res.toOut, canon_container cu hc, containerOfVal_toVal]

/-- non-vacuity of `C17_roundtrip_partial`'s hypotheses at a nested keyed type -/
example :
    let u := Ty.map .hashMap (.str .string) (.seq .vec (.int .u16))
    (keysOk u && WfTy u &&
      (match schemaOf u with
       | .ok cu => HasTy containerTy (containerToVal cu)
       | _ => false)) = true := by
  decide +kernel

/-- `insertDef` places a new name in ascending byte order: the head of the result is the smaller
of the new name and the old head -/
theorem C17_insert_sorted_head (d : Name) (df : Defn) (k : Name) (v : Defn) (rest m' : Defs)
    (h : insertDef d df ((k, v) :: rest) = .ok m') :
    (cmpBytes d k = .lt → m' = (d, df) :: (k, v) :: rest) ∧
    (cmpBytes d k = .gt → ∃ r, m' = (k, v) :: r) := by
  unfold insertDef at h
  constructor
  · intro hlt; simp [hlt] at h; exact h.symm
  · intro hgt
    simp only [hgt] at h
    cases hr : insertDef d df rest with
    | ok r => simp [hr, Res.bind] at h; exact ⟨r, h.symm⟩
    | error e => simp [hr, Res.bind] at h
    | panic p => simp [hr, Res.bind] at h

/-- non-vacuity / regression: writing `u8` and reading `i8` (same width, different schema) is
rejected; reading `u8` back is accepted; the container of a nested type lists its definitions in
ascending name order -/
example :
    ((tryToVecWithSchema (.int .u8) (.int 7)).bind (tryFromSliceWithSchema false (.int .i8))).errIs
        ⟨.invalidData, .schemaMismatch⟩ &&
    ((tryToVecWithSchema (.int .u8) (.int 7)).bind (tryFromSliceWithSchema false (.int .u8))).okVal (.int 7) &&
    (match schemaOf (.seq .vec (Ty.sum .option [([78], 0, []), ([83], 1, [(none, false, .int .u8)])])) with
     | .ok c => c.defs.map (·.1) == [[40, 41], [79, 112, 116, 105, 111, 110, 60, 117, 56, 62],
         [86, 101, 99, 60, 79, 112, 116, 105, 111, 110, 60, 117, 56, 62, 62], [117, 56]]
     | _ => false) = true := by
  decide +kernel

end Borsh
