/-
  C17 — Schema-prefixed encoding round-trips and rejects a foreign schema.
-/
import BorshModel.SchemaOf
namespace Borsh

theorem Out.bind_eq_ok' {α β : Type} {x : Out α} {f : α → Out β} {b : β}
    (h : x.bind f = .ok b) : ∃ a, x = .ok a ∧ f a = .ok b := Out.bind_eq_ok_iff.mp h

/-- Acceptance implies equal schemas: whenever `try_from_slice_with_schema::<U>` accepts, the
bytes start with a well-formed container that **equals** `U`'s own schema, the value follows,
and nothing is left.  Read contrapositively: a foreign schema, or any corruption of the embedded
schema that changes its meaning, is rejected. -/
theorem C17_accept_implies_same_schema (st : Bool) (u : Ty) (bs : Bytes) (x : Val)
    (h : tryFromSliceWithSchema st u bs = .ok x) :
    ∃ cv rest cu, deserialize st containerTy bs = .ok (cv, rest) ∧
      deserialize st u rest = .ok (x, []) ∧
      schemaOf u = .ok cu ∧ containerOfVal cv = some cu := by
  unfold tryFromSliceWithSchema at h
  obtain ⟨⟨cv, rest⟩, h1, h2⟩ := Out.bind_eq_ok' h
  obtain ⟨⟨y, r2⟩, h3, h4⟩ := Out.bind_eq_ok' h2
  dsimp only at h4
  split at h4
  · simp at h4
  · rename_i hempty
    have hr2 : r2 = [] := by
      cases r2 with
      | nil => rfl
      | cons a as => simp at hempty
    obtain ⟨cu, h5, h6⟩ := Out.bind_eq_ok' h4
    split at h6
    · rename_i heq
      simp at h6
      refine ⟨cv, rest, cu, h1, ?_, ?_, by simpa using heq⟩
      · rw [h3, hr2, h6]
      · cases hs : schemaOf u with
        | ok c => simp [hs, Res.toOut] at h5; rw [h5]
        | error e => simp [hs, Res.toOut] at h5
        | panic p => simp [hs, Res.toOut] at h5
    · simp at h6

/-- a schema mismatch is reported with the dedicated error, never silently accepted -/
theorem C17_mismatch_rejected (st : Bool) (u : Ty) (bs rest : Bytes) (cv x : Val) (cu : Container)
    (h1 : deserialize st containerTy bs = .ok (cv, rest))
    (h2 : deserialize st u rest = .ok (x, []))
    (hs : schemaOf u = .ok cu) (hne : containerOfVal cv ≠ some cu) :
    tryFromSliceWithSchema st u bs = .err ⟨.invalidData, .schemaMismatch⟩ := by
  unfold tryFromSliceWithSchema
  simp only [h1, Out.bind_ok, h2, hs, Res.toOut]
  have : (containerOfVal cv == some cu) = false := by simpa using hne
  simp [this]

/-- `insertDef` places a new name in ascending byte order: the head of the result is the smaller
of the new name and the old head -/
theorem C17_insert_sorted_head (d : Name) (df : Defn) (k : Name) (v : Defn) (rest m' : Defs)
    (h : insertDef d df ((k, v) :: rest) = .ok m') :
    (cmpBytes d k = .lt → m' = (d, df) :: (k, v) :: rest) ∧
    (cmpBytes d k = .gt → ∃ r, m' = (k, v) :: r) := by
  unfold insertDef at h
  constructor
  · intro hlt; simp [hlt] at h; exact h.symm
  · intro hgt
    simp only [hgt] at h
    cases hr : insertDef d df rest with
    | ok r => simp [hr, Res.bind] at h; exact ⟨r, h.symm⟩
    | error e => simp [hr, Res.bind] at h
    | panic p => simp [hr, Res.bind] at h

/-- non-vacuity / regression: writing `u8` and reading `i8` (same width, different schema) is
rejected; reading `u8` back is accepted; the container of a nested type lists its definitions in
ascending name order -/
example :
    ((tryToVecWithSchema (.int .u8) (.int 7)).bind (tryFromSliceWithSchema false (.int .i8))).errIs
        ⟨.invalidData, .schemaMismatch⟩ &&
    ((tryToVecWithSchema (.int .u8) (.int 7)).bind (tryFromSliceWithSchema false (.int .u8))).okVal (.int 7) &&
    (match schemaOf (.seq .vec (Ty.sum .option [([78], 0, []), ([83], 1, [(none, false, .int .u8)])])) with
     | .ok c => c.defs.map (·.1) == [[40, 41], [79, 112, 116, 105, 111, 110, 60, 117, 56, 62],
         [86, 101, 99, 60, 79, 112, 116, 105, 111, 110, 60, 117, 56, 62, 62], [117, 56]]
     | _ => false) = true := by
  decide +kernel

end Borsh
