/-
  C17 — Schema-prefixed encoding round-trips and rejects a foreign schema.
-/
import BorshModel.SchemaOf
import BorshModel.Lemmas.ContainerCodec
import BorshModel.Theorems.C01
import BorshModel.Lemmas.SchemaSorted
import BorshModel.Theorems.C05
import BorshModel.Theorems.C07
import BorshModel.Theorems.C16
namespace Borsh

theorem Out.bind_eq_ok' {α β : Type} {x : Out α} {f : α → Out β} {b : β}
    (h : x.bind f = .ok b) : ∃ a, x = .ok a ∧ f a = .ok b := Out.bind_eq_ok_iff.mp h

/-- Acceptance implies equal schemas: whenever `try_from_slice_with_schema::<U>` accepts, the
bytes start with a well-formed container that **equals** `U`'s own schema, the value follows,
and nothing is left.  Read contrapositively: a foreign schema, or any corruption of the embedded
schema that changes its meaning, is rejected. -/
theorem C17_accept_implies_same_schema (st : Bool) (u : Ty) (bs : Bytes) (x : Val)
    (h : tryFromSliceWithSchema st u bs = .ok x) :
    ∃ cv rest cu, deserialize st containerTy bs = .ok (cv, rest) ∧
      deserialize st u rest = .ok (x, []) ∧
      schemaOf u = .ok cu ∧ containerOfVal cv = some cu := by
  unfold tryFromSliceWithSchema at h
  obtain ⟨⟨cv, rest⟩, h1, h2⟩ := Out.bind_eq_ok' h
  obtain ⟨⟨y, r2⟩, h3, h4⟩ := Out.bind_eq_ok' h2
  dsimp only at h4
  split at h4
  · simp at h4
  · rename_i hempty
    have hr2 : r2 = [] := by
      cases r2 with
      | nil => rfl
      | cons a as => simp at hempty
    obtain ⟨cu, h5, h6⟩ := Out.bind_eq_ok' h4
    split at h6
    · rename_i heq
      simp at h6
      refine ⟨cv, rest, cu, h1, ?_, ?_, by simpa using heq⟩
      · rw [h3, hr2, h6]
      · cases hs : schemaOf u with
        | ok c => simp [hs, Res.toOut] at h5; rw [h5]
        | error e => simp [hs, Res.toOut] at h5
        | panic p => simp [hs, Res.toOut] at h5
    · simp at h6

/-- a schema mismatch is reported with the dedicated error, never silently accepted -/
theorem C17_mismatch_rejected (st : Bool) (u : Ty) (bs rest : Bytes) (cv x : Val) (cu : Container)
    (h1 : deserialize st containerTy bs = .ok (cv, rest))
    (h2 : deserialize st u rest = .ok (x, []))
    (hs : schemaOf u = .ok cu) (hne : containerOfVal cv ≠ some cu) :
    tryFromSliceWithSchema st u bs = .err ⟨.invalidData, .schemaMismatch⟩ := by
  unfold tryFromSliceWithSchema
  simp only [h1, Out.bind_ok, h2, hs, Res.toOut]
  have : (containerOfVal cv == some cu) = false := by simpa using hne
  simp [this]

/-- Round trip through the schema-prefixed entry points: what `try_to_vec_with_schema` writes,
`try_from_slice_with_schema` at the same type accepts and returns the (canonical) value, in both
key-order modes.  `hc` says the type's own container is representable on the wire (names are
UTF-8, definitions ascending by name, widths fit their fields) — a decidable fact about `u`,
discharged by evaluation in the example below and checked per type by the C17 workload.
`_partial` for the same reason as C01 (`keysOk`). -/
theorem C17_roundtrip_partial (st : Bool) (u : Ty) (v : Val) (bs : Bytes) (cu : Container)
    (hk : keysOk u = true) (hw : WfTy u = true) (hv : HasTy u v = true)
    (hs : schemaOf u = .ok cu) (hc : HasTy containerTy (containerToVal cu) = true)
    (he : tryToVecWithSchema u v = .ok bs) :
    tryFromSliceWithSchema st u bs = .ok (canon u v) := by
  unfold tryToVecWithSchema at he
  simp only [hs, Res.toOut, Out.bind_ok] at he
  obtain ⟨cb, hcb, h2⟩ := Out.bind_eq_ok_iff.mp he
  obtain ⟨vb, hvb, rfl⟩ := Out.map_eq_ok_iff.mp h2
  unfold tryFromSliceWithSchema
  rw [C01_roundtrip_stream_partial st containerTy (containerToVal cu) cb vb
    keysOk_containerTy WfTy_containerTy hc hcb]
  simp only [Out.bind_ok]
  have h3 := C01_roundtrip_stream_partial st u v vb [] hk hw hv hvb
  simp only [List.append_nil] at h3
  rw [h3]
  simp [hs, Res.toOut, canon_container cu hc, containerOfVal_toVal]

/-- what `try_to_vec_with_schema` writes is the container's bytes followed by the value's -/
theorem tryToVecWithSchema_split (u : Ty) (v : Val) (bs : Bytes) (cu : Container)
    (hs : schemaOf u = .ok cu) (he : tryToVecWithSchema u v = .ok bs) :
    ∃ cb vb, containerBytes cu = .ok cb ∧ toVec u v = .ok vb ∧ bs = cb ++ vb := by
  unfold tryToVecWithSchema at he
  simp only [hs, Res.toOut, Out.bind_ok] at he
  obtain ⟨cb, hcb, h2⟩ := Out.bind_eq_ok_iff.mp he
  obtain ⟨vb, hvb, rfl⟩ := Out.map_eq_ok_iff.mp h2
  exact ⟨cb, vb, hcb, hvb, rfl⟩

/-- **The schema-prefixed reader is a whole-input entry point** (C05 for it): bytes left over after
the value are rejected with the not-all-bytes-read error, whatever they are. -/
theorem C17_with_schema_trailing_rejected_partial (st : Bool) (u : Ty) (v : Val) (bs x : Bytes)
    (cu : Container) (hk : keysOk u = true) (hw : WfTy u = true) (hv : HasTy u v = true)
    (hs : schemaOf u = .ok cu) (hc : HasTy containerTy (containerToVal cu) = true)
    (he : tryToVecWithSchema u v = .ok bs) (hx : x ≠ []) :
    tryFromSliceWithSchema st u (bs ++ x) = .err eNotAllBytesRead := by
  obtain ⟨cb, vb, hcb, hvb, rfl⟩ := tryToVecWithSchema_split u v bs cu hs he
  unfold tryFromSliceWithSchema
  rw [List.append_assoc, C01_roundtrip_stream_partial st containerTy (containerToVal cu) cb (vb ++ x)
    keysOk_containerTy WfTy_containerTy hc hcb]
  simp only [Out.bind_ok]
  rw [C01_roundtrip_stream_partial st u v vb x hk hw hv hvb]
  cases x with
  | nil => exact absurd rfl hx
  | cons a as => simp

/-- … and every proper prefix of a schema-prefixed blob is rejected (cut inside the embedded
schema or inside the value alike). -/
theorem C17_with_schema_prefix_rejected_partial (st : Bool) (u : Ty) (v : Val) (p q : Bytes)
    (cu : Container) (hk : keysOk u = true) (hw : WfTy u = true) (hv : HasTy u v = true)
    (hs : schemaOf u = .ok cu) (hc : HasTy containerTy (containerToVal cu) = true)
    (he : tryToVecWithSchema u v = .ok (p ++ q)) (hq : q ≠ []) :
    (tryFromSliceWithSchema st u p).isOk = false := by
  cases hr : tryFromSliceWithSchema st u p with
  | err e => rfl
  | panic s => rfl
  | ok x =>
    exfalso
    obtain ⟨cv, rest, cu', h1, h2, _, _⟩ := C17_accept_implies_same_schema st u p x hr
    obtain ⟨cb, vb, hcb, hvb, hsplit⟩ := tryToVecWithSchema_split u v (p ++ q) cu hs he
    -- the container decode is stable under extension of the input by `q`
    have e1 := C05_extension st containerTy p q rest cv h1
    rw [hsplit, C01_roundtrip_stream_partial st containerTy (containerToVal cu) cb vb
      keysOk_containerTy WfTy_containerTy hc hcb] at e1
    simp only [Out.ok.injEq, Prod.mk.injEq] at e1
    -- so the value decoder saw `rest`, and `rest ++ q` is the whole value encoding
    have e2 := C05_extension st u rest q [] x h2
    have e3 := C01_roundtrip_stream_partial st u v vb [] hk hw hv hvb
    rw [List.append_nil] at e3
    rw [← e1.2, e3] at e2
    simp only [List.nil_append, Out.ok.injEq, Prod.mk.injEq] at e2
    exact hq e2.2.symm

/-- **The schema-prefixed reader is safe on untrusted bytes** (C07 / C16 for it): for every byte
string — hostile embedded schemas included — it answers without a panic, and every refusal has kind
InvalidData.  (The reader's own schema is generated once from the Rust type; `hs` says that
generation succeeds, which does not depend on the input.)  The embedded container is only ever
*decoded and compared*: the model has no call of `validate` or `max_serialized_size` on it. -/
theorem C17_with_schema_safe (st : Bool) (u : Ty) (bs : Bytes) (cu : Container)
    (hs : schemaOf u = .ok cu) :
    (tryFromSliceWithSchema st u bs).isPanic = false ∧
    ∀ e, tryFromSliceWithSchema st u bs = .err e → e.kind = .invalidData := by
  unfold tryFromSliceWithSchema
  cases h1 : deserialize st containerTy bs with
  | panic s => have := C07_no_panic st containerTy bs; rw [h1] at this; simp [Out.isPanic] at this
  | err e1 =>
    refine ⟨rfl, fun e he => ?_⟩
    simp only [Out.bind_err, Out.err.injEq] at he
    rw [← he]; exact C16_kind_deserialize st containerTy bs e1 h1
  | ok r =>
    simp only [Out.bind_ok]
    cases h2 : deserialize st u r.2 with
    | panic s => have := C07_no_panic st u r.2; rw [h2] at this; simp [Out.isPanic] at this
    | err e2 =>
      refine ⟨rfl, fun e he => ?_⟩
      simp only [Out.bind_err, Out.err.injEq] at he
      rw [← he]; exact C16_kind_deserialize st u r.2 e2 h2
    | ok q =>
      simp only [Out.bind_ok, hs, Res.toOut]
      split
      · exact ⟨rfl, fun e he => by simp only [Out.err.injEq] at he; rw [← he]; rfl⟩
      · split
        · exact ⟨rfl, fun e he => by simp at he⟩
        · exact ⟨rfl, fun e he => by simp only [Out.err.injEq] at he; rw [← he]⟩

/-- **A foreign schema is rejected**: what `try_to_vec_with_schema::<T>` wrote is never accepted
by `try_from_slice_with_schema::<U>` when the two types' schemas differ — whatever the value, even
when `U` can decode `T`'s value bytes (same width, same shape), in both key-order modes. -/
theorem C17_foreign_rejected (st : Bool) (t u : Ty) (v : Val) (bs : Bytes) (ct cu : Container)
    (hst : schemaOf t = .ok ct) (hsu : schemaOf u = .ok cu) (hne : ct ≠ cu)
    (hc : HasTy containerTy (containerToVal ct) = true)
    (he : tryToVecWithSchema t v = .ok bs) :
    (tryFromSliceWithSchema st u bs).isOk = false := by
  cases hr : tryFromSliceWithSchema st u bs with
  | err e => rfl
  | panic p => rfl
  | ok x =>
    exfalso
    obtain ⟨cv, rest, cu', h1, _, h3, h4⟩ := C17_accept_implies_same_schema st u bs x hr
    rw [hsu] at h3
    cases h3
    -- the embedded container is `T`'s
    unfold tryToVecWithSchema at he
    simp only [hst, Res.toOut, Out.bind_ok] at he
    obtain ⟨cb, hcb, h2⟩ := Out.bind_eq_ok_iff.mp he
    obtain ⟨vb, _, rfl⟩ := Out.map_eq_ok_iff.mp h2
    have := C01_roundtrip_stream_partial st containerTy (containerToVal ct) cb vb
      keysOk_containerTy WfTy_containerTy hc hcb
    rw [this] at h1
    simp only [Out.ok.injEq, Prod.mk.injEq] at h1
    rw [← h1.1, canon_container ct hc, containerOfVal_toVal] at h4
    exact hne (by simpa using h4)

/-- **Containers round-trip to an equal container**: every container whose `Val` form is well typed
(UTF-8 names, definitions in ascending name order, widths that fit their fields) — hostile ones
included — is read back as the very same container, and nothing is left -/
theorem C17_container_roundtrip (st : Bool) (c : Container) (bs rest : Bytes)
    (hc : HasTy containerTy (containerToVal c) = true) (he : containerBytes c = .ok bs) :
    (deserialize st containerTy (bs ++ rest)).map (fun r => (containerOfVal r.1, r.2)) =
      .ok (some c, rest) := by
  have := C01_roundtrip_stream_partial st containerTy (containerToVal c) bs rest
    keysOk_containerTy WfTy_containerTy hc he
  rw [this]
  simp [canon_container c hc, containerOfVal_toVal]

/-- **Containers are canonical**: the definitions of the container `for_type` generates are in
strictly ascending name order — for every type with a schema, derived structs and enums (with the
derive's "already present" shortcut) included; the container serializer writes them in that order -/
theorem C17_container_canonical (t : Ty) (c : Container) (h : schemaOf t = .ok c) :
    c.defs.Pairwise (fun a b => cmpBytes a.1 b.1 = .lt) :=
  schemaOf_sorted t c h

/-- … and `add_definitions_recursively` only ever adds: a definition present before a call is
present, unchanged, after it (every type) -/
theorem C17_definitions_only_added (t : Ty) (m m' : Defs) (hs : DSorted m) (h : addDefs t m = .ok m')
    (d : Name) (df : Defn) (hd : dget m d = some df) : dget m' d = some df :=
  (pres_all t m m' hs h).2 d df hd

/-- non-vacuity of `C17_roundtrip_partial`'s hypotheses at a nested keyed type -/
example :
    let u := Ty.map .hashMap (.str .string) (.seq .vec (.int .u16))
    (keysOk u && WfTy u &&
      (match schemaOf u with
       | .ok cu => HasTy containerTy (containerToVal cu)
       | _ => false)) = true := by
  decide +kernel

/-- `insertDef` places a new name in ascending byte order: the head of the result is the smaller
of the new name and the old head -/
theorem C17_insert_sorted_head (d : Name) (df : Defn) (k : Name) (v : Defn) (rest m' : Defs)
    (h : insertDef d df ((k, v) :: rest) = .ok m') :
    (cmpBytes d k = .lt → m' = (d, df) :: (k, v) :: rest) ∧
    (cmpBytes d k = .gt → ∃ r, m' = (k, v) :: r) := by
  unfold insertDef at h
  constructor
  · intro hlt; simp [hlt] at h; exact h.symm
  · intro hgt
    simp only [hgt] at h
    cases hr : insertDef d df rest with
    | ok r => simp [hr, Res.bind] at h; exact ⟨r, h.symm⟩
    | error e => simp [hr, Res.bind] at h
    | panic p => simp [hr, Res.bind] at h

/-- non-vacuity / regression: writing `u8` and reading `i8` (same width, different schema) is
rejected; reading `u8` back is accepted; the container of a nested type lists its definitions in
ascending name order -/
example :
    ((tryToVecWithSchema (.int .u8) (.int 7)).bind (tryFromSliceWithSchema false (.int .i8))).errIs
        ⟨.invalidData, .schemaMismatch⟩ &&
    ((tryToVecWithSchema (.int .u8) (.int 7)).bind (tryFromSliceWithSchema false (.int .u8))).okVal (.int 7) &&
    (match schemaOf (.seq .vec (Ty.sum .option [([78], 0, []), ([83], 1, [(none, false, .int .u8)])])) with
     | .ok c => c.defs.map (·.1) == [[40, 41], [79, 112, 116, 105, 111, 110, 60, 117, 56, 62],
         [86, 101, 99, 60, 79, 112, 116, 105, 111, 110, 60, 117, 56, 62, 62], [117, 56]]
     | _ => false) = true := by
  decide +kernel

end Borsh
