/-
  C18 — Derives refuse definitions whose encoding would be ambiguous or unrepresentable.
-/
import BorshModel.Derive
namespace Borsh
open Derive

/-! the statement's list, rule by rule, as predicates on the surface description -/

def fieldsOf : ItemDef → List FieldDef
  | .struct_ _ fs => fs
  | .enum_ _ vs => (vs.map (·.fields)).flatten
  | .union_ => []

def itemAttrsOf : ItemDef → List (List ItemAttr)
  | .struct_ as _ => as
  | .enum_ as _ => as
  | .union_ => []

def isUnion : ItemDef → Bool
  | .union_ => true
  | _ => false

def repeatedBorshAttr (d : ItemDef) : Bool :=
  (itemAttrsOf d).length > 1 || (fieldsOf d).any fun f => f.attrs.length > 1

def unknownItemKey (d : ItemDef) : Bool := hasUnknownItemKey (itemAttrsOf d)
def unknownFieldKey (d : ItemDef) : Bool := (fieldsOf d).any fun f => f.hasUnknown

def skipConflict (d : ItemDef) : Bool := (fieldsOf d).any fun f => f.conflict

def useDiscrOnStruct : ItemDef → Bool
  | .struct_ as _ => (useDiscrSetting as.flatten).isSome
  | _ => false

def useDiscrNotBool : ItemDef → Bool
  | .enum_ as _ => useDiscrSetting as.flatten == some none
  | _ => false

def explicitDiscrWithoutSetting : ItemDef → Bool
  | .enum_ as vs => useDiscrSetting as.flatten == none && vs.any fun v => v.discr.isSome
  | _ => false

def tooManyVariants : ItemDef → Bool
  | .enum_ _ vs => vs.length > 256
  | _ => false

def discrDoesNotFit : ItemDef → Bool
  | .enum_ as vs => useDiscrSetting as.flatten == some (some true) &&
      (discriminants (vs.map (·.discr)) 0).any fun x => x < 0 || 255 < x
  | _ => false

/-- any of the rule violations the statement lists -/
def violatesSomeRule (d : ItemDef) : Bool :=
  isUnion d || repeatedBorshAttr d || unknownItemKey d || unknownFieldKey d || skipConflict d ||
  useDiscrOnStruct d || useDiscrNotBool d || explicitDiscrWithoutSetting d || tooManyVariants d ||
  discrDoesNotFit d

theorem checkField_none_iff (f : FieldDef) :
    checkField f = none ↔ (f.attrs.length ≤ 1 ∧ f.hasUnknown = false ∧ f.conflict = false) := by
  unfold checkField
  by_cases h1 : f.attrs.length > 1
  · simp only [h1, if_true]
    constructor
    · intro h; cases h
    · intro h; omega
  · simp only [h1, if_false]
    cases f.hasUnknown <;> cases f.conflict <;> simp <;> omega

theorem checkFields_none_iff (fs : List FieldDef) :
    checkFields fs = none ↔ ∀ f ∈ fs, checkField f = none := by
  unfold checkFields
  induction fs with
  | nil => simp
  | cons f fs ih =>
    simp only [List.findSome?_cons, List.mem_cons, forall_eq_or_imp]
    cases h : checkField f with
    | none => simp [ih]
    | some r => simp

/-- **A struct compiles exactly when it violates none of the rules.** -/
theorem C18_decision_struct (as : List (List ItemAttr)) (fs : List FieldDef) :
    accepts (.struct_ as fs) = none ↔ violatesSomeRule (.struct_ as fs) = false := by
  simp only [accepts, violatesSomeRule, isUnion, repeatedBorshAttr, unknownItemKey, unknownFieldKey,
    skipConflict, useDiscrOnStruct, useDiscrNotBool, explicitDiscrWithoutSetting, tooManyVariants,
    discrDoesNotFit, itemAttrsOf, fieldsOf, Bool.false_or, Bool.or_false]
  by_cases h1 : as.length > 1
  · simp [h1]
  · simp only [h1, if_false, decide_false, Bool.false_or]
    cases h2 : hasUnknownItemKey as
    · simp only [Bool.false_eq_true, if_false, Bool.false_or, Bool.or_false]
      cases h3 : (useDiscrSetting as.flatten).isSome
      · simp only [Bool.false_eq_true, if_false, Bool.or_false]
        rw [checkFields_none_iff]
        simp only [checkField_none_iff, Bool.or_eq_false_iff, List.any_eq_false, decide_eq_true_eq]
        constructor
        · intro h
          refine ⟨⟨?_, ?_⟩, ?_⟩
          · intro f hf; have := (h f hf).1; omega
          · intro f hf; simp [(h f hf).2.1]
          · intro f hf; simp [(h f hf).2.2]
        · intro h f hf
          refine ⟨?_, ?_, ?_⟩
          · have := h.1.1 f hf; omega
          · have := h.1.2 f hf; simpa using this
          · have := h.2 f hf; simpa using this
      · simp
    · simp

theorem variantFields_none_iff (vs : List VariantDef) :
    (vs.findSome? fun v => checkFields v.fields) = none ↔
      ∀ f ∈ (vs.map (·.fields)).flatten, checkField f = none := by
  rw [List.findSome?_eq_none_iff]
  simp only [checkFields_none_iff, List.mem_flatten, List.mem_map]
  constructor
  · rintro h f ⟨l, ⟨v, hv, rfl⟩, hf⟩; exact h v hv f hf
  · intro h v hv f hf; exact h f ⟨v.fields, ⟨v, hv, rfl⟩, hf⟩

theorem fieldRules_iff (fs : List FieldDef) :
    (∀ f ∈ fs, checkField f = none) ↔
      (fs.any (fun f => decide (f.attrs.length > 1)) = false ∧ fs.any (fun f => f.hasUnknown) = false ∧
       fs.any (fun f => f.conflict) = false) := by
  simp only [checkField_none_iff, List.any_eq_false, decide_eq_true_eq]
  constructor
  · intro h
    refine ⟨?_, ?_, ?_⟩
    · intro f hf; have := (h f hf).1; omega
    · intro f hf; simp [(h f hf).2.1]
    · intro f hf; simp [(h f hf).2.2]
  · intro h f hf
    refine ⟨?_, ?_, ?_⟩
    · have := h.1 f hf; omega
    · have := h.2.1 f hf; simpa using this
    · have := h.2.2 f hf; simpa using this

/-- **An enum compiles exactly when it violates none of the rules** — whatever the number, order
and shapes of its variants, wherever an offending discriminant, field or attribute stands. -/
theorem C18_decision_enum (as : List (List ItemAttr)) (vs : List VariantDef) :
    accepts (.enum_ as vs) = none ↔ violatesSomeRule (.enum_ as vs) = false := by
  have hf := (variantFields_none_iff vs).trans (fieldRules_iff _)
  simp only [accepts, violatesSomeRule, isUnion, repeatedBorshAttr, unknownItemKey, unknownFieldKey,
    skipConflict, useDiscrOnStruct, useDiscrNotBool, explicitDiscrWithoutSetting, tooManyVariants,
    discrDoesNotFit, itemAttrsOf, fieldsOf, Bool.false_or, Bool.or_false]
  by_cases h1 : as.length > 1
  · simp [h1]
  · simp only [h1, if_false, decide_false, Bool.false_or]
    cases h2 : hasUnknownItemKey as
    · simp only [Bool.false_eq_true, if_false, Bool.false_or]
      by_cases h3 : vs.length > 256
      · simp [h3]
      · simp only [h3, if_false, decide_false, Bool.or_false]
        cases h4 : useDiscrSetting as.flatten with
        | none =>
          simp only
          cases h5 : vs.any (fun v => v.discr.isSome)
          · simp only [Bool.false_eq_true, if_false, hf]
            simp [Bool.or_eq_false_iff, and_assoc]
          · simp
        | some b =>
          cases b with
          | none => simp
          | some use =>
            simp only
            cases use
            · simp only [Bool.false_and, Bool.false_eq_true, if_false, hf]
              simp [Bool.or_eq_false_iff, and_assoc]
            · simp only [Bool.true_and]
              cases h5 : (discriminants (vs.map (·.discr)) 0).any (fun d => decide (d < 0) || decide (255 < d))
              · simp only [Bool.false_eq_true, if_false, hf]
                simp [Bool.or_eq_false_iff, and_assoc]
              · simp
    · simp

/-- the decision for every item -/
theorem C18_decision (d : ItemDef) : accepts d = none ↔ violatesSomeRule d = false := by
  cases d with
  | struct_ as fs => exact C18_decision_struct as fs
  | enum_ as vs => exact C18_decision_enum as vs
  | union_ => simp [accepts, violatesSomeRule, isUnion]

/-- unions never compile -/
theorem C18_union_rejected : accepts .union_ = some .union_ := rfl

/-- an enum with any explicit discriminant and no `use_discriminant` setting is refused, wherever
the discriminant stands and whatever else the item carries (as long as the attributes parse) -/
theorem C18_explicit_discriminant_needs_setting (as : List (List ItemAttr)) (vs : List VariantDef)
    (h1 : as.length ≤ 1) (h2 : hasUnknownItemKey as = false) (h3 : vs.length ≤ 256)
    (hs : useDiscrSetting as.flatten = none) (hd : vs.any (fun v => v.discr.isSome) = true) :
    accepts (.enum_ as vs) = some .explicitDiscriminantWithoutSetting := by
  have : ¬ as.length > 1 := by omega
  have h3' : ¬ vs.length > 256 := by omega
  simp [accepts, this, h2, h3', hs, hd]

/-- more than 256 variants are refused -/
theorem C18_too_many_variants (as : List (List ItemAttr)) (vs : List VariantDef)
    (h1 : as.length ≤ 1) (h2 : hasUnknownItemKey as = false) (h3 : 256 < vs.length) :
    accepts (.enum_ as vs) = some .tooManyVariants := by
  have : ¬ as.length > 1 := by omega
  simp [accepts, this, h2, h3]

/-- with `use_discriminant = true` a discriminant outside 0..=255 — explicit **or implicit**
(previous + 1) — is refused (finding F7, repaired) -/
theorem C18_discriminant_must_fit (as : List (List ItemAttr)) (vs : List VariantDef)
    (h1 : as.length ≤ 1) (h2 : hasUnknownItemKey as = false) (h3 : vs.length ≤ 256)
    (hs : useDiscrSetting as.flatten = some (some true))
    (hd : (discriminants (vs.map (·.discr)) 0).any (fun x => x < 0 || 255 < x) = true) :
    accepts (.enum_ as vs) = some .discriminantOutOfRange := by
  have : ¬ as.length > 1 := by omega
  have h3' : ¬ vs.length > 256 := by omega
  simp [accepts, this, h2, h3', hs, hd]

/-- the witness of F7: `enum A { X, Y = 255, Z }` under `use_discriminant = true` -/
theorem C18_F7_witness :
    accepts (.enum_ [[.useDiscriminant (some true)]] [⟨none, []⟩, ⟨some 255, []⟩, ⟨none, []⟩]) =
      some .discriminantOutOfRange := by
  decide

/-- the verdict does not depend on *where* the offending field stands -/
theorem C18_skip_conflict_position_independent (pre post : List FieldDef) (f : FieldDef)
    (hpre : ∀ g ∈ pre, checkField g = none) (hf : checkField f = some .skipConflict) :
    checkFields (pre ++ f :: post) = some .skipConflict := by
  unfold checkFields
  induction pre with
  | nil => simp [hf]
  | cons g gs ih =>
    simp only [List.cons_append, List.findSome?_cons, hpre g (by simp)]
    exact ih (fun x hx => hpre x (by simp [hx]))

/-- non-vacuity: positive controls compile -/
example :
    accepts (.struct_ [[.init, .crate_]] [⟨[[.skip, .bound]]⟩, ⟨[[.serializeWith, .deserializeWith]]⟩, ⟨[]⟩]) = none ∧
    accepts (.enum_ [[.useDiscriminant (some true)]] [⟨none, []⟩, ⟨some 254, []⟩, ⟨none, [⟨[[.skip]]⟩]⟩]) = none ∧
    accepts (.enum_ [[.useDiscriminant (some false)]] [⟨some 70000, []⟩, ⟨some (-3), []⟩]) = none := by
  decide

end Borsh
