/-
  The type universe `Ty` (shapes of Rust types that have Borsh impls) and the value
  universe `Val` (representations of their values).  Both are nested inductives over
  core `List`/`Prod`/`Option`, so mutual structural recursion through field lists is
  accepted and reduces in the kernel.
-/
import BorshModel.Bytes
namespace Borsh

inductive IntK
  | u8 | u16 | u32 | u64 | u128 | i8 | i16 | i32 | i64 | i128 | usize | isize
  deriving DecidableEq, Repr, Inhabited

/-- width in bytes on the wire (usize/isize travel as 64-bit) -/
def IntK.width : IntK → Nat
  | .u8 | .i8 => 1
  | .u16 | .i16 => 2
  | .u32 | .i32 => 4
  | .u64 | .i64 | .usize | .isize => 8
  | .u128 | .i128 => 16

def IntK.signed : IntK → Bool
  | .i8 | .i16 | .i32 | .i64 | .i128 | .isize => true
  | _ => false

inductive FloatK | f32 | f64
  deriving DecidableEq, Repr, Inhabited

def FloatK.width : FloatK → Nat
  | .f32 => 4
  | .f64 => 8

/-- string-like types: all encode as `u32` length + bytes; they differ in the check on decode -/
inductive StrK | string | str | boxStr | cowStr | rcStr | asciiString | asciiStr
  deriving DecidableEq, Repr, Inhabited

def StrK.isAscii : StrK → Bool
  | .asciiString | .asciiStr => true
  | _ => false

/-- fixed-width raw byte blocks -/
inductive RawK | ipv4 | ipv6 | objectId
  deriving DecidableEq, Repr, Inhabited

def RawK.width : RawK → Nat
  | .ipv4 => 4
  | .ipv6 => 16
  | .objectId => 12

/-- length-prefixed sequences of one element type -/
inductive SeqK
  | vec | slice | boxSlice | cowSlice | rcSlice | vecDeque | linkedList
  | indexSet | bytes | bytesMut
  deriving DecidableEq, Repr, Inhabited

/-- does the *serializer* of this kind call `check_zst` on its element type? -/
def SeqK.serChecksZst : SeqK → Bool
  | .slice | .boxSlice | .cowSlice | .rcSlice | .bytes | .bytesMut => false
  | _ => true

/-- serializers that loop over an iterator: no `u8` fast path -/
def SeqK.noFastPath : SeqK → Bool
  | .indexSet | .linkedList => true
  | _ => false

/-- the `bytes` crate's buffers: the element type is `u8` by definition -/
def SeqK.isBytes : SeqK → Bool
  | .bytes | .bytesMut => true
  | _ => false

inductive SetK | hashSet | btreeSet
  deriving DecidableEq, Repr, Inhabited
inductive MapK | hashMap | btreeMap | indexMap
  deriving DecidableEq, Repr, Inhabited

/-- products: written field by field, no prefix -/
inductive ProdK
  | tuple | unit | rangeFull | phantom
  | range | rangeInclusive | rangeFrom | rangeTo | rangeToInclusive
  | sockV4 | sockV6
  | struct (name : Name) (init : Bool)
  deriving DecidableEq, Repr, Inhabited

/-- sums: one tag byte, then the fields of the variant -/
inductive SumK
  | option | result | ipAddr | sockAddr
  | derived (name : Name) (init : Bool)
  deriving DecidableEq, Repr, Inhabited

def SumK.tagK : SumK → TagK
  | .option => .option
  | .result => .result
  | .ipAddr => .ipAddr
  | .sockAddr => .sockAddr
  | .derived _ _ => .derived

inductive WrapK | ref | box | rc | arc | cell | refCell | cow
  deriving DecidableEq, Repr, Inhabited

/--
A field is `(name?, skip, type)`; a variant is `(name, tag, fields)`.  Written inline
because the occurrences of `Ty` must be nested under `List`/`Prod`.
-/
inductive Ty
  | int (k : IntK)
  | nonzero (k : IntK)
  | float (k : FloatK)
  | bool
  | str (k : StrK)
  | asciiChar
  | raw (k : RawK)
  | seq (k : SeqK) (t : Ty)
  | set (k : SetK) (t : Ty)
  | map (k : MapK) (key val : Ty)
  | array (n : Nat) (t : Ty)
  | prod (k : ProdK) (fs : List (Option Name × Bool × Ty))
  | sum (k : SumK) (vs : List (Name × Nat × List (Option Name × Bool × Ty)))
  | wrap (k : WrapK) (t : Ty)
  | custom (t : Ty)       -- a field under serialize_with/deserialize_with (fixture: big-endian u32)
  deriving Repr, Inhabited

abbrev Field := Option Name × Bool × Ty
abbrev Variant := Name × Nat × List Field

def Field.skip (f : Field) : Bool := f.2.1
def Field.ty (f : Field) : Ty := f.2.2

/-- Representations of values.  Integers of every width are `int`; floats are the `int`
of their bit pattern; strings and raw blocks are `blob`; sequences, arrays, tuples,
struct fields (skipped ones included), sets (iteration order) and maps (a list of
two-element lists, iteration order) are `list`; `VecDeque` is its two slices. -/
inductive Val
  | int (i : Int)
  | bool (b : Bool)
  | blob (bs : Bytes)
  | list (vs : List Val)
  | deque (front back : List Val)
  | variant (idx : Nat) (fields : List Val)
  deriving Repr, Inhabited

/-! ### constructors for the built-in sums -/

def sName (s : String) : Name := s.toUTF8.toList

def Ty.unit : Ty := .prod .unit []
def Ty.option (t : Ty) : Ty :=
  .sum .option [(sName "None", 0, []), (sName "Some", 1, [(none, false, t)])]
def Ty.result (ok err : Ty) : Ty :=
  .sum .result [(sName "Err", 0, [(none, false, err)]), (sName "Ok", 1, [(none, false, ok)])]
def Ty.tuple (ts : List Ty) : Ty := .prod .tuple (ts.map fun t => (none, false, t))

/-! ### decidable equality (deriving fails on nested inductives) -/

mutual
def Ty.beq : Ty → Ty → Bool
  | .int a, .int b => a == b
  | .nonzero a, .nonzero b => a == b
  | .float a, .float b => a == b
  | .bool, .bool => true
  | .str a, .str b => a == b
  | .asciiChar, .asciiChar => true
  | .raw a, .raw b => a == b
  | .seq k t, .seq k' t' => k == k' && Ty.beq t t'
  | .set k t, .set k' t' => k == k' && Ty.beq t t'
  | .map k a b, .map k' a' b' => k == k' && Ty.beq a a' && Ty.beq b b'
  | .array n t, .array n' t' => n == n' && Ty.beq t t'
  | .prod k fs, .prod k' fs' => k == k' && Ty.beqFields fs fs'
  | .sum k vs, .sum k' vs' => k == k' && Ty.beqVariants vs vs'
  | .wrap k t, .wrap k' t' => k == k' && Ty.beq t t'
  | .custom t, .custom t' => Ty.beq t t'
  | _, _ => false
def Ty.beqFields : List (Option Name × Bool × Ty) → List (Option Name × Bool × Ty) → Bool
  | [], [] => true
  | (n, s, t) :: fs, (n', s', t') :: fs' => n == n' && s == s' && Ty.beq t t' && Ty.beqFields fs fs'
  | _, _ => false
def Ty.beqVariants : List (Name × Nat × List (Option Name × Bool × Ty)) →
    List (Name × Nat × List (Option Name × Bool × Ty)) → Bool
  | [], [] => true
  | (n, g, fs) :: vs, (n', g', fs') :: vs' =>
      n == n' && g == g' && Ty.beqFields fs fs' && Ty.beqVariants vs vs'
  | _, _ => false
end

instance : BEq Ty := ⟨Ty.beq⟩

mutual
def Val.beq : Val → Val → Bool
  | .int a, .int b => a == b
  | .bool a, .bool b => a == b
  | .blob a, .blob b => a == b
  | .list a, .list b => Val.beqList a b
  | .deque a b, .deque a' b' => Val.beqList a a' && Val.beqList b b'
  | .variant i a, .variant j b => i == j && Val.beqList a b
  | _, _ => false
def Val.beqList : List Val → List Val → Bool
  | [], [] => true
  | a :: as, b :: bs => Val.beq a b && Val.beqList as bs
  | _, _ => false
end

instance : BEq Val := ⟨Val.beq⟩

/-- the element type is `u8` itself: the bulk fast paths apply (`u8_slice`, `vec_from_reader`,
`array_from_reader` are overridden for `u8` only) -/
def Ty.isU8 : Ty → Bool
  | .int .u8 => true
  | _ => false

def Ty.isU32 : Ty → Bool
  | .int .u32 => true
  | _ => false

end Borsh
